(* Specification and proofs for the three crossovers of model/Mate.v (property C04).
   Structure: a small "ok or out of tape" Hoare calculus for the state monad; pure lemmas about
   child_trait / child_node / add_chosen; a loop invariant over the accumulator (child nodes,
   child genes) for multipoint_loop and singlepoint_loop; the top-level theorems. *)
From NeatModel Require Import Res F64 GoRand Genome Options Insert Mutate Mate InsertSpec.
From Coq Require Import Lia Sorting.Sorted Sorting.Permutation.

(* ------------------------------------------------------------------------------------------ *)
(* 1. results: [okT Q r] = r is Ok with a value satisfying Q, or the tape ran out              *)
(* ------------------------------------------------------------------------------------------ *)
Definition okT {A S : Type} (Q : A -> Prop) (r : res (A * S)) : Prop :=
  match r with Ok (a, _) => Q a | OutOfTape => True | _ => False end.

Lemma okT_ret {A S} (Q : A -> Prop) (a : A) (s : S) : Q a -> okT Q (ret a s).
Proof. intros H. exact H. Qed.

Lemma okT_bind {A B S} (P : A -> Prop) (Q : B -> Prop) (m : @M S A) (f : A -> @M S B) s :
  okT P (m s) -> (forall a s', P a -> okT Q (f a s')) -> okT Q (bindM m f s).
Proof.
  unfold bindM, okT. destruct (m s) as [[a s']| | | | |]; intros H1 H2; try contradiction; try exact I.
  apply H2. exact H1.
Qed.

Lemma okT_lift {A S} (Q : A -> Prop) (r : res A) (s : S) :
  (exists a, r = Ok a /\ Q a) -> okT Q (lift r s).
Proof. intros [a [-> H]]. exact H. Qed.

Lemma okT_mono {A S} (P Q : A -> Prop) (r : res (A * S)) :
  okT P r -> (forall a, P a -> Q a) -> okT Q r.
Proof. unfold okT. destruct r as [[a s']| | | | |]; auto. Qed.

Lemma okT_Ok {A S} (Q : A -> Prop) (r : res (A * S)) a s' : okT Q r -> r = Ok (a, s') -> Q a.
Proof. intros H ->. exact H. Qed.

Lemma okT_total {A S} (Q : A -> Prop) (r : res (A * S)) :
  okT Q r -> (exists a s', r = Ok (a, s')) \/ r = OutOfTape.
Proof. unfold okT. destruct r as [[a s']| | | | |]; intros H; try contradiction; eauto. Qed.

Lemma tape_float64_ok t : match tape_float64 t with Ok _ | OutOfTape => True | _ => False end.
Proof. induction t as [|x t IH]; cbn [tape_float64]; [exact I|]. destruct (PrimFloat.eqb _ _); [exact IH|exact I]. Qed.

Lemma okT_float64 s : okT (fun _ => True) (r_float64 s).
Proof.
  unfold r_float64, on_tape. pose proof (tape_float64_ok (s_tape s)) as H.
  destruct (tape_float64 (s_tape s)) as [[a t']| | | | |]; try contradiction; exact I.
Qed.

Lemma tape_int31n_rej_ok n mx t :
  match tape_int31n_rej n mx t with Ok _ | OutOfTape => True | _ => False end.
Proof. induction t as [|x t IH]; cbn [tape_int31n_rej]; [exact I|]. destruct (Z.gtb _ _); [exact IH|exact I]. Qed.

Lemma okT_intn n s : 0 < n -> okT (fun _ => True) (r_intn n s).
Proof.
  intros Hn. unfold r_intn, on_tape, tape_intn.
  destruct (Z.leb_spec n 0) as [?|_]; [lia|]. unfold tape_int31n.
  destruct (Z.eqb _ _).
  - destruct (s_tape s); exact I.
  - pose proof (tape_int31n_rej_ok n (2147483647 - 2147483648 mod n) (s_tape s)) as H.
    destruct (tape_int31n_rej _ _ _) as [[a t']| | | | |]; try contradiction; exact I.
Qed.

(* ------------------------------------------------------------------------------------------ *)
(* 2. small list / lookup facts                                                                *)
(* ------------------------------------------------------------------------------------------ *)
Lemma nwi_In id ns n : node_with_id id ns = Some n -> In n ns /\ n_id n = id.
Proof.
  induction ns as [|m ns IH]; cbn [node_with_id]; [discriminate|].
  destruct (Z.eqb_spec (n_id m) id) as [E|_].
  - intros [= <-]. split; [now left|exact E].
  - intros H. destruct (IH H). split; [now right|assumption].
Qed.

Lemma nwi_none id ns : node_with_id id ns = None -> ~ In id (map n_id ns).
Proof.
  induction ns as [|m ns IH]; cbn [node_with_id map]; [intros _ []|].
  destruct (Z.eqb_spec (n_id m) id) as [E|NE]; [discriminate|].
  intros H [E|Hin]; [contradiction|now apply IH].
Qed.

Lemma nwi_some id ns : In id (map n_id ns) -> exists n, node_with_id id ns = Some n.
Proof.
  intros H. destruct (node_with_id id ns) eqn:E; [eauto|]. now apply nwi_none in E.
Qed.

Lemma nth_res_ok {A} (l : list A) : forall i, (i < length l)%nat -> exists a, nth_res l i = Ok a /\ nth_error l i = Some a.
Proof.
  induction l as [|x l IH]; intros i Hi; [cbn in Hi; lia|].
  destruct i as [|i]; cbn [nth_res nth_error]; [eauto|]. apply IH. cbn in Hi. lia.
Qed.

Lemma idx_ok {A} (l : list A) k : 0 <= k < zlen l -> exists a, idx l k = Ok a /\ nth_error l (Z.to_nat k) = Some a.
Proof.
  intros Hk. unfold idx. destruct (Z.ltb_spec k 0) as [?|_]; [lia|].
  apply nth_res_ok. unfold zlen in Hk. lia.
Qed.

Lemma asc_inj {A} (key : A -> Z) l a b : asc key l -> In a l -> In b l -> key a = key b -> a = b.
Proof.
  induction l as [|x l IH]; intros Hs Ha Hb E; [destruct Ha|].
  apply asc_cons in Hs. destruct Hs as [Hs Hf]. rewrite Forall_forall in Hf.
  destruct Ha as [<-|Ha], Hb as [<-|Hb]; auto.
  - specialize (Hf _ Hb). lia.
  - specialize (Hf _ Ha). lia.
Qed.

Lemma asc_snoc {A} (key : A -> Z) l y :
  asc key l -> (forall x, In x l -> key x < key y) -> asc key (l ++ [y]).
Proof.
  intros Hs Hlt. apply asc_app. repeat split; [exact Hs|apply asc_cons; split; [apply asc_nil|constructor]|].
  intros u v Hu [<-|[]]. now apply Hlt.
Qed.

Lemma same_link_iff a b :
  same_link a b = true <-> g_in a = g_in b /\ g_out a = g_out b /\ g_rec a = g_rec b.
Proof.
  unfold same_link. rewrite !andb_true_iff, !Z.eqb_eq, eqb_true_iff. tauto.
Qed.

(* ------------------------------------------------------------------------------------------ *)
(* 3. hypotheses on the parents                                                                *)
(* ------------------------------------------------------------------------------------------ *)
(* id of the first trait: Go's g.Traits[0].Id, the origin of the trait index arithmetic *)
Definition tbase (g : genome) : Z := match traits g with t :: _ => t_id t | [] => 0 end.

(* a trait reference the crossover of first parent [g] can resolve: nil, or first id + k, k < #traits *)
Definition tref_ok (g : genome) (t : option Z) : Prop :=
  match t with None => True | Some id => tbase g <= id < tbase g + zlen (traits g) end.

Definition resolves (p : genome) (x : gene) : Prop :=
  exists a b, node_with_id (g_in x) (nodes p) = Some a /\ node_with_id (g_out x) (nodes p) = Some b.

(* no two genes of one list denote the same link under different numbers *)
Definition link_inj (G : list gene) : Prop :=
  forall a b, In a G -> In b G -> same_link a b = true -> g_innov a = g_innov b.

(* what crossover needs of one parent [p] when [g] is the first parent (owner of the trait origin) *)
Record parent_ok (g p : genome) : Prop := {
  po_asc : asc g_innov (genes p);
  po_inj : link_inj (genes p);
  po_res : forall x, In x (genes p) -> resolves p x;
  po_mod : modules p = [];
  po_tg : forall x, In x (genes p) -> tref_ok g (g_trait x);
  po_tn : forall n, In n (nodes p) -> tref_ok g (n_trait n)
}.

(* common ancestry: a number present in both parents denotes the same link *)
Definition consistent (p1 p2 : genome) : Prop :=
  forall a b, In a (genes p1) -> In b (genes p2) -> g_innov a = g_innov b -> same_link a b = true.

Definition traits_match (p1 p2 : genome) : Prop :=
  traits p1 <> [] /\
  Forall2 (fun a b => length (t_params a) = length (t_params b)) (traits p1) (traits p2).

Definition trait_mean (a b : trait) : trait :=
  {| t_id := t_id a;
     t_params := map (fun pq => PrimFloat.div (PrimFloat.add (fst pq) (snd pq)) 2%float)
                     (combine (t_params a) (t_params b)) |}.

Definition io_ids (p : genome) : list Z := map n_id (filter is_io (nodes p)).

Record mate_hyps (p1 p2 : genome) : Prop := {
  mh_p1 : parent_ok p1 p1;
  mh_p2 : parent_ok p1 p2;
  mh_cons : consistent p1 p2;
  mh_traits : traits_match p1 p2;
  mh_io : NoDup (io_ids p2)
}.

Lemma consistent_sym p1 p2 : consistent p1 p2 -> consistent p2 p1.
Proof.
  intros H a b Ha Hb E. symmetry in E. specialize (H b a Hb Ha E).
  apply same_link_iff in H. apply same_link_iff. intuition congruence.
Qed.

(* ------------------------------------------------------------------------------------------ *)
(* 4. traits                                                                                    *)
(* ------------------------------------------------------------------------------------------ *)
Lemma mate_traits_ok ta tb :
  Forall2 (fun a b => length (t_params a) = length (t_params b)) ta tb ->
  mate_traits ta tb = Ok (map (fun ab => trait_mean (fst ab) (snd ab)) (combine ta tb)).
Proof.
  induction 1 as [|a b ta tb Hab _ IH]; [reflexivity|].
  cbn [mate_traits combine map]. unfold trait_avg. rewrite Hab, Nat.eqb_refl. cbn [negb bind].
  rewrite IH. reflexivity.
Qed.

Lemma Forall2_length' {A B} (R : A -> B -> Prop) l1 l2 : Forall2 R l1 l2 -> length l1 = length l2.
Proof. induction 1; cbn; congruence. Qed.

Lemma child_trait_ok g nt t :
  traits g <> [] -> length nt = length (traits g) -> tref_ok g t ->
  exists id, child_trait g nt t = Ok (Some id).
Proof.
  intros Hne Hlen Ht. unfold child_trait.
  destruct (traits g) as [|t0 ts] eqn:E; [congruence|].
  assert (Hb : tbase g = t_id t0) by (unfold tbase; now rewrite E).
  destruct t as [id|]; cbn [tref_ok] in Ht.
  - change (idx (t0 :: ts) 0) with (Ok t0). cbn [bind].
    destruct (idx_ok nt (id - t_id t0)) as [tr [-> _]]; [|cbn; eauto].
    unfold zlen in *. rewrite Hlen. rewrite E in Ht. lia.
  - cbn [bind]. destruct (idx_ok nt 0) as [tr [-> _]]; [|cbn; eauto].
    unfold zlen. rewrite Hlen. cbn. lia.
Qed.
