(* Specification and proofs for the three crossovers of model/Mate.v (property C04).
   Structure: a small "ok or out of tape" Hoare calculus for the state monad; pure lemmas about
   child_trait / child_node / add_chosen; a loop invariant over the accumulator (child nodes,
   child genes) for multipoint_loop and singlepoint_loop; the top-level theorems. *)
From NeatModel Require Import Res F64 GoRand Genome Options Insert Mutate Mate InsertSpec.
From Coq Require Import Lia Sorting.Sorted Sorting.Permutation.

(* ------------------------------------------------------------------------------------------ *)
(* 1. results: [okT Q r] = r is Ok with a value satisfying Q, or the tape ran out              *)
(* ------------------------------------------------------------------------------------------ *)
Definition okT {A S : Type} (Q : A -> Prop) (r : res (A * S)) : Prop :=
  match r with Ok (a, _) => Q a | OutOfTape => True | _ => False end.

Lemma okT_ret {A S} (Q : A -> Prop) (a : A) (s : S) : Q a -> okT Q (ret a s).
Proof. intros H. exact H. Qed.

Lemma okT_bind {A B S} (P : A -> Prop) (Q : B -> Prop) (m : @M S A) (f : A -> @M S B) s :
  okT P (m s) -> (forall a s', P a -> okT Q (f a s')) -> okT Q (bindM m f s).
Proof.
  unfold bindM, okT. destruct (m s) as [[a s']| | | | |]; intros H1 H2; try contradiction; try exact I.
  apply H2. exact H1.
Qed.

Lemma okT_lift {A S} (Q : A -> Prop) (r : res A) (s : S) :
  (exists a, r = Ok a /\ Q a) -> okT Q (lift r s).
Proof. intros [a [-> H]]. exact H. Qed.

Lemma okT_mono {A S} (P Q : A -> Prop) (r : res (A * S)) :
  okT P r -> (forall a, P a -> Q a) -> okT Q r.
Proof. unfold okT. destruct r as [[a s']| | | | |]; auto. Qed.

Lemma okT_Ok {A S} (Q : A -> Prop) (r : res (A * S)) a s' : okT Q r -> r = Ok (a, s') -> Q a.
Proof. intros H ->. exact H. Qed.

Lemma okT_total {A S} (Q : A -> Prop) (r : res (A * S)) :
  okT Q r -> (exists a s', r = Ok (a, s')) \/ r = OutOfTape.
Proof. unfold okT. destruct r as [[a s']| | | | |]; intros H; try contradiction; eauto. Qed.

Lemma tape_float64_ok t : match tape_float64 t with Ok _ | OutOfTape => True | _ => False end.
Proof. induction t as [|x t IH]; cbn [tape_float64]; [exact I|]. destruct (PrimFloat.eqb _ _); [exact IH|exact I]. Qed.

Lemma okT_float64 s : okT (fun _ => True) (r_float64 s).
Proof.
  unfold r_float64, on_tape. pose proof (tape_float64_ok (s_tape s)) as H.
  destruct (tape_float64 (s_tape s)) as [[a t']| | | | |]; try contradiction; exact I.
Qed.

Lemma tape_int31n_rej_ok n mx t :
  match tape_int31n_rej n mx t with Ok _ | OutOfTape => True | _ => False end.
Proof. induction t as [|x t IH]; cbn [tape_int31n_rej]; [exact I|]. destruct (Z.gtb _ _); [exact IH|exact I]. Qed.

Lemma okT_intn n s : 0 < n -> okT (fun _ => True) (r_intn n s).
Proof.
  intros Hn. unfold r_intn, on_tape, tape_intn.
  destruct (Z.leb_spec n 0) as [?|_]; [lia|]. unfold tape_int31n.
  destruct (Z.eqb _ _).
  - destruct (s_tape s); exact I.
  - pose proof (tape_int31n_rej_ok n (2147483647 - 2147483648 mod n) (s_tape s)) as H.
    destruct (tape_int31n_rej _ _ _) as [[a t']| | | | |]; try contradiction; exact I.
Qed.

(* ------------------------------------------------------------------------------------------ *)
(* 2. small list / lookup facts                                                                *)
(* ------------------------------------------------------------------------------------------ *)
Lemma nwi_In id ns n : node_with_id id ns = Some n -> In n ns /\ n_id n = id.
Proof.
  induction ns as [|m ns IH]; cbn [node_with_id]; [discriminate|].
  destruct (Z.eqb_spec (n_id m) id) as [E|_].
  - intros [= <-]. split; [now left|exact E].
  - intros H. destruct (IH H). split; [now right|assumption].
Qed.

Lemma nwi_none id ns : node_with_id id ns = None -> ~ In id (map n_id ns).
Proof.
  induction ns as [|m ns IH]; cbn [node_with_id map]; [intros _ []|].
  destruct (Z.eqb_spec (n_id m) id) as [E|NE]; [discriminate|].
  intros H [E|Hin]; [contradiction|now apply IH].
Qed.

Lemma nwi_some id ns : In id (map n_id ns) -> exists n, node_with_id id ns = Some n.
Proof.
  intros H. destruct (node_with_id id ns) eqn:E; [eauto|]. now apply nwi_none in E.
Qed.

Lemma nth_res_ok {A} (l : list A) : forall i, (i < length l)%nat -> exists a, nth_res l i = Ok a /\ nth_error l i = Some a.
Proof.
  induction l as [|x l IH]; intros i Hi; [cbn in Hi; lia|].
  destruct i as [|i]; cbn [nth_res nth_error]; [eauto|]. apply IH. cbn in Hi. lia.
Qed.

Lemma idx_ok {A} (l : list A) k : 0 <= k < zlen l -> exists a, idx l k = Ok a /\ nth_error l (Z.to_nat k) = Some a.
Proof.
  intros Hk. unfold idx. destruct (Z.ltb_spec k 0) as [?|_]; [lia|].
  apply nth_res_ok. unfold zlen in Hk. lia.
Qed.

Lemma asc_inj {A} (key : A -> Z) l a b : asc key l -> In a l -> In b l -> key a = key b -> a = b.
Proof.
  induction l as [|x l IH]; intros Hs Ha Hb E; [destruct Ha|].
  apply asc_cons in Hs. destruct Hs as [Hs Hf]. rewrite Forall_forall in Hf.
  destruct Ha as [<-|Ha], Hb as [<-|Hb]; auto.
  - specialize (Hf _ Hb). lia.
  - specialize (Hf _ Ha). lia.
Qed.

Lemma asc_snoc {A} (key : A -> Z) l y :
  asc key l -> (forall x, In x l -> key x < key y) -> asc key (l ++ [y]).
Proof.
  intros Hs Hlt. apply asc_app. repeat split; [exact Hs|apply asc_cons; split; [apply asc_nil|constructor]|].
  intros u v Hu [<-|[]]. now apply Hlt.
Qed.

Lemma same_link_iff a b :
  same_link a b = true <-> g_in a = g_in b /\ g_out a = g_out b /\ g_rec a = g_rec b.
Proof.
  unfold same_link. rewrite !andb_true_iff, !Z.eqb_eq, eqb_true_iff. tauto.
Qed.

(* ------------------------------------------------------------------------------------------ *)
(* 3. hypotheses on the parents                                                                *)
(* ------------------------------------------------------------------------------------------ *)
(* id of the first trait: Go's g.Traits[0].Id, the origin of the trait index arithmetic *)
Definition tbase (g : genome) : Z := match traits g with t :: _ => t_id t | [] => 0 end.

(* a trait reference the crossover of first parent [g] can resolve: nil, or first id + k, k < #traits *)
Definition tref_ok (g : genome) (t : option Z) : Prop :=
  match t with None => True | Some id => tbase g <= id < tbase g + zlen (traits g) end.

Definition resolves (p : genome) (x : gene) : Prop :=
  exists a b, node_with_id (g_in x) (nodes p) = Some a /\ node_with_id (g_out x) (nodes p) = Some b.

(* no two genes of one list denote the same link under different numbers *)
Definition link_inj (G : list gene) : Prop :=
  forall a b, In a G -> In b G -> same_link a b = true -> g_innov a = g_innov b.

(* what crossover needs of one parent [p] when [g] is the first parent (owner of the trait origin) *)
Record parent_ok (g p : genome) : Prop := {
  po_asc : asc g_innov (genes p);
  po_inj : link_inj (genes p);
  po_res : forall x, In x (genes p) -> resolves p x;
  po_mod : modules p = [];
  po_tg : forall x, In x (genes p) -> tref_ok g (g_trait x);
  po_tn : forall n, In n (nodes p) -> tref_ok g (n_trait n)
}.

(* common ancestry: a number present in both parents denotes the same link *)
Definition consistent (p1 p2 : genome) : Prop :=
  forall a b, In a (genes p1) -> In b (genes p2) -> g_innov a = g_innov b -> same_link a b = true.

Definition traits_match (p1 p2 : genome) : Prop :=
  traits p1 <> [] /\
  Forall2 (fun a b => length (t_params a) = length (t_params b)) (traits p1) (traits p2).

Definition trait_mean (a b : trait) : trait :=
  {| t_id := t_id a;
     t_params := map (fun pq => PrimFloat.div (PrimFloat.add (fst pq) (snd pq)) 2%float)
                     (combine (t_params a) (t_params b)) |}.

Definition io_ids (p : genome) : list Z := map n_id (filter is_io (nodes p)).

Record mate_hyps (p1 p2 : genome) : Prop := {
  mh_p1 : parent_ok p1 p1;
  mh_p2 : parent_ok p1 p2;
  mh_cons : consistent p1 p2;
  mh_traits : traits_match p1 p2;
  mh_io : NoDup (io_ids p2)
}.

Lemma consistent_sym p1 p2 : consistent p1 p2 -> consistent p2 p1.
Proof.
  intros H a b Ha Hb E. symmetry in E. specialize (H b a Hb Ha E).
  apply same_link_iff in H. apply same_link_iff. intuition congruence.
Qed.

(* ------------------------------------------------------------------------------------------ *)
(* 4. traits                                                                                    *)
(* ------------------------------------------------------------------------------------------ *)
Lemma mate_traits_ok ta tb :
  Forall2 (fun a b => length (t_params a) = length (t_params b)) ta tb ->
  mate_traits ta tb = Ok (map (fun ab => trait_mean (fst ab) (snd ab)) (combine ta tb)).
Proof.
  induction 1 as [|a b ta tb Hab _ IH]; [reflexivity|].
  cbn [mate_traits combine map]. unfold trait_avg. rewrite Hab, Nat.eqb_refl. cbn [negb bind].
  rewrite IH. reflexivity.
Qed.

Lemma Forall2_length' {A B} (R : A -> B -> Prop) l1 l2 : Forall2 R l1 l2 -> length l1 = length l2.
Proof. induction 1; cbn; congruence. Qed.

Lemma child_trait_ok g nt t :
  traits g <> [] -> length nt = length (traits g) -> tref_ok g t ->
  exists id, child_trait g nt t = Ok (Some id) /\ In id (map t_id nt).
Proof.
  intros Hne Hlen Ht. unfold child_trait.
  destruct (traits g) as [|t0 ts] eqn:E; [congruence|].
  assert (Hb : tbase g = t_id t0) by (unfold tbase; now rewrite E).
  destruct t as [id|]; cbn [tref_ok] in Ht.
  - change (idx (t0 :: ts) 0) with (Ok t0). cbn [bind].
    destruct (idx_ok nt (id - t_id t0)) as [tr [-> Hn]];
      [|cbn; eexists; split; [reflexivity|]; apply in_map; eapply nth_error_In; exact Hn].
    unfold zlen in *. rewrite Hlen. rewrite E in Ht. lia.
  - cbn [bind]. destruct (idx_ok nt 0) as [tr [-> Hn]];
      [|cbn; eexists; split; [reflexivity|]; apply in_map; eapply nth_error_In; exact Hn].
    unfold zlen. rewrite Hlen. cbn. lia.
Qed.

(* ------------------------------------------------------------------------------------------ *)
(* 5. the accumulator invariant and the shared tail add_chosen                                  *)
(* ------------------------------------------------------------------------------------------ *)
Definition kin (x y : gene) : Prop :=
  g_innov y = g_innov x /\ g_in y = g_in x /\ g_out y = g_out x /\ g_rec y = g_rec x.
Definition copyof (x y : gene) : Prop := kin x y /\ g_w y = g_w x /\ g_en y = g_en x.

Definition fmean (a b : float) : float := PrimFloat.div (PrimFloat.add a b) 2%float.

(* the gene add_chosen builds from a chosen gene *)
Definition built (c : cgene) (dis : bool) (y : gene) : Prop :=
  g_in y = n_id (cg_inn c) /\ g_out y = n_id (cg_outn c) /\ g_rec y = g_rec (cg c) /\
  g_w y = g_w (cg c) /\ g_innov y = g_innov (cg c) /\ g_en y = (if dis then false else g_en (cg c)).

(* trait references of the child point into the child's traits *)
Definition ntr_ok (nt : list trait) (n : node) : Prop := exists t, n_trait n = Some t /\ In t (map t_id nt).
Definition gtr_ok (nt : list trait) (y : gene) : Prop := exists t, g_trait y = Some t /\ In t (map t_id nt).

Section Acc.
  (* [g]: first parent of the call (origin of trait indices); [A] owns the first gene list of the
     loop, [B] the second; [ns0]: the io nodes copied first *)
  Variables (g : genome) (nt : list trait) (A B : genome) (ns0 : list node).
  Variables (allow1 allow2 : Prop) (W : gene -> gene -> gene -> Prop).

  Record ctx_ok : Prop := {
    c_tne : traits g <> [];
    c_nt : length nt = length (traits g);
    c_A : parent_ok g A;
    c_B : parent_ok g B;
    c_cons : consistent A B
  }.
  Hypothesis Hctx : ctx_ok.

  Definition prov (y : gene) : Prop :=
    (exists x, In x (genes A) /\ allow1 /\ copyof x y) \/
    (exists x, In x (genes B) /\ allow2 /\ copyof x y) \/
    (exists x1 x2, In x1 (genes A) /\ In x2 (genes B) /\ g_innov x1 = g_innov x2 /\ kin x1 y /\ W x1 x2 y).

  Definition pnode (n : node) : Prop := In n (nodes A) \/ In n (nodes B).
  Definition nsrc (n : node) : Prop :=
    exists m, pnode m /\ n_id m = n_id n /\ n_type m = n_type n /\ n_act m = n_act n.
  Definition touched (gs : list gene) (id : Z) : Prop :=
    exists y, In y gs /\ (id = g_in y \/ id = g_out y).

  Record ninv (ns : list node) (gs : list gene) : Prop := {
    ni_asc : asc n_id ns;
    ni_src : forall n, In n ns -> In n ns0 \/ (nsrc n /\ touched gs (n_id n));
    ni_io : incl ns0 ns;
    ni_ends : forall y, In y gs -> In (g_in y) (map n_id ns) /\ In (g_out y) (map n_id ns);
    ni_ntr : forall n, In n ns -> ntr_ok nt n;
    ni_gtr : forall y, In y gs -> gtr_ok nt y;
    ni_linj : link_inj gs
  }.

  Definition cok (c : cgene) : Prop :=
    pnode (cg_inn c) /\ pnode (cg_outn c) /\ tref_ok g (g_trait (cg c)) /\
    g_in (cg c) = n_id (cg_inn c) /\ g_out (cg c) = n_id (cg_outn c).

  Definition chosen_for (x : gene) (c : cgene) : Prop :=
    cok c /\ n_id (cg_inn c) = g_in x /\ n_id (cg_outn c) = g_out x /\
    g_in (cg c) = g_in x /\ g_out (cg c) = g_out x /\ g_rec (cg c) = g_rec x /\
    g_innov (cg c) = g_innov x.

  Lemma pnode_tref n : pnode n -> tref_ok g (n_trait n).
  Proof. intros [H|H]; [apply (po_tn _ _ (c_A Hctx)) | apply (po_tn _ _ (c_B Hctx))]; exact H. Qed.

  Lemma child_node_props ns n :
    asc n_id ns -> tref_ok g (n_trait n) ->
    exists ns', child_node g nt ns n = Ok ns' /\ asc n_id ns' /\ incl ns ns' /\
                In (n_id n) (map n_id ns') /\
                (forall m, In m ns' -> In m ns \/
                                       (n_id m = n_id n /\ n_type m = n_type n /\ n_act m = n_act n /\ ntr_ok nt m)).
  Proof.
    intros Hs Ht. unfold child_node. destruct (node_with_id (n_id n) ns) as [m|] eqn:E.
    - exists ns. repeat split; auto using incl_refl.
      apply nwi_In in E. destruct E as [Hin Hid]. rewrite <- Hid. now apply in_map.
    - destruct (child_trait_ok g nt (n_trait n) (c_tne Hctx) (c_nt Hctx) Ht) as [id [-> Hid]]. cbn [bind].
      eexists. split; [reflexivity|]. apply nwi_none in E. repeat split.
      + apply insert_sorted_asc; [exact Hs|exact E].
      + intros m Hm. apply insert_sorted_In. now right.
      + apply in_map_iff. eexists. split; [|apply insert_sorted_In; left; reflexivity]. reflexivity.
      + intros m Hm. apply insert_sorted_In in Hm. destruct Hm as [->|Hm]; [right; cbn|now left].
        repeat split; auto. exists id. cbn. auto.
  Qed.

  Lemma touched_mono gs gs' id : incl gs gs' -> touched gs id -> touched gs' id.
  Proof. intros Hi [y [Hy H]]. exists y. split; [now apply Hi|exact H]. Qed.

  Lemma add_chosen_spec ns gs c dis :
    ninv ns gs -> cok c ->
    exists ns' gs', add_chosen g nt (ns, gs) c dis = Ok (ns', gs') /\
      ((existsb (fun y => same_link y (cg c)) gs = true /\ ns' = ns /\ gs' = gs) \/
       (existsb (fun y => same_link y (cg c)) gs = false /\
        exists y, gs' = gs ++ [y] /\ built c dis y /\ ninv ns' gs')).
  Proof.
    intros Hinv [Hpi [Hpo [Htr [Ein Eout]]]]. unfold add_chosen.
    destruct (existsb _ gs) eqn:Eex; [exists ns, gs; split; [reflexivity|left; auto]|].
    destruct (child_node_props ns (cg_inn c) (ni_asc _ _ Hinv) (pnode_tref _ Hpi))
      as [ns1 [-> [Hs1 [Hi1 [Hin1 Hsrc1]]]]]. cbn [bind].
    destruct (child_node_props ns1 (cg_outn c) Hs1 (pnode_tref _ Hpo))
      as [ns2 [-> [Hs2 [Hi2 [Hin2 Hsrc2]]]]]. cbn [bind].
    destruct (child_trait_ok g nt _ (c_tne Hctx) (c_nt Hctx) Htr) as [tid [-> Htid]]. cbn [bind].
    eexists. eexists. split; [reflexivity|]. right. split; [reflexivity|].
    eexists. split; [reflexivity|]. split; [unfold built; cbn; auto 10|].
    assert (Hmap : forall l l' : list node, incl l l' -> incl (map n_id l) (map n_id l')).
    { intros l l' Hl id Hid. apply in_map_iff in Hid. destruct Hid as [m [<- Hm]]. apply in_map. now apply Hl. }
    match goal with |- ninv _ (gs ++ [?y0]) => set (y := y0) end.
    assert (Hnl : forall z, In z gs -> same_link z y = false /\ same_link y z = false).
    { intros z Hz. destruct (same_link z (cg c)) eqn:Ez.
      - assert (existsb (fun y => same_link y (cg c)) gs = true) by (apply existsb_exists; eauto). congruence.
      - unfold same_link in *. cbn. rewrite <- Ein, <- Eout. split; [exact Ez|].
        rewrite (Z.eqb_sym (g_in (cg c))), (Z.eqb_sym (g_out (cg c))).
        replace (Bool.eqb (g_rec (cg c)) (g_rec z)) with (Bool.eqb (g_rec z) (g_rec (cg c))); [exact Ez|].
        destruct (g_rec z), (g_rec (cg c)); reflexivity. }
    constructor.
    - exact Hs2.
    - intros m Hm. apply Hsrc2 in Hm. destruct Hm as [Hm|[E1 [E2 [E3 _]]]].
      + apply Hsrc1 in Hm. destruct Hm as [Hm|[E1 [E2 [E3 _]]]].
        * destruct (ni_src _ _ Hinv m Hm) as [H0|[Hn Ht]]; [now left|right]. split; [exact Hn|].
          eapply touched_mono; [|exact Ht]. intros z Hz. apply in_or_app. now left.
        * right. split; [exists (cg_inn c); auto|].
          exists y. split; [apply in_or_app; right; left; reflexivity|]. cbn. left. exact E1.
      + right. split; [exists (cg_outn c); auto|].
        exists y. split; [apply in_or_app; right; left; reflexivity|]. cbn. right. exact E1.
    - intros m Hm. apply Hi2, Hi1, (ni_io _ _ Hinv), Hm.
    - intros z Hz. apply in_app_or in Hz. destruct Hz as [Hz|[<-|[]]].
      + destruct (ni_ends _ _ Hinv z Hz) as [Ha Hb].
        split; [apply (Hmap ns ns2); [|exact Ha] | apply (Hmap ns ns2); [|exact Hb]]; intros u Hu; apply Hi2, Hi1, Hu.
      + cbn. split; [|exact Hin2]. eapply Hmap; [exact Hi2|exact Hin1].
    - intros m Hm. apply Hsrc2 in Hm. destruct Hm as [Hm|[_ [_ [_ Ht]]]]; [|exact Ht].
      apply Hsrc1 in Hm. destruct Hm as [Hm|[_ [_ [_ Ht]]]]; [|exact Ht]. now apply (ni_ntr _ _ Hinv).
    - intros z Hz. apply in_app_or in Hz. destruct Hz as [Hz|[<-|[]]]; [now apply (ni_gtr _ _ Hinv)|].
      exists tid. cbn. auto.
    - intros u v Hu Hv Huv. apply in_app_or in Hu. apply in_app_or in Hv.
      destruct Hu as [Hu|[<-|[]]], Hv as [Hv|[<-|[]]].
      + now apply (ni_linj _ _ Hinv).
      + destruct (Hnl u Hu). congruence.
      + destruct (Hnl v Hv). congruence.
      + reflexivity.
  Qed.

  (* what one loop step leaves behind, relative to the gene [x] it looked at *)
  Definition allprov (gs : list gene) : Prop := forall y, In y gs -> prov y.
  Definition below (gs : list gene) (k : Z) : Prop := forall y, In y gs -> g_innov y < k.

  Definition stepQ (gs : list gene) (x : gene) (acc' : list node * list gene) : Prop :=
    ninv (fst acc') (snd acc') /\ allprov (snd acc') /\ asc g_innov (snd acc') /\ incl gs (snd acc') /\
    (forall y, In y (snd acc') -> g_innov y <= g_innov x).

  Lemma stepQ_skip ns gs x :
    ninv ns gs -> allprov gs -> asc g_innov gs -> below gs (g_innov x) -> stepQ gs x (ns, gs).
  Proof.
    intros H1 H2 H3 H4. unfold stepQ. cbn [fst snd].
    split; [exact H1|]. split; [exact H2|]. split; [exact H3|]. split; [apply incl_refl|].
    intros y Hy. specialize (H4 y Hy). lia.
  Qed.

  Lemma add_step ns gs c dis x :
    ninv ns gs -> allprov gs -> asc g_innov gs -> below gs (g_innov x) ->
    chosen_for x c -> (forall y, built c dis y -> prov y) ->
    exists acc', add_chosen g nt (ns, gs) c dis = Ok acc' /\ stepQ gs x acc' /\
      (existsb (fun y => same_link y (cg c)) gs = false -> exists y, In y (snd acc') /\ built c dis y).
  Proof.
    intros Hinv Hprov Hasc Hbel [Hcok [_ [_ [_ [_ [_ Hinn]]]]]] Hb.
    destruct (add_chosen_spec ns gs c dis Hinv Hcok) as [ns' [gs' [E [[Eex [-> ->]]|[Eex [y [-> [Hy Hinv']]]]]]]].
    - exists (ns, gs). split; [exact E|]. split; [now apply stepQ_skip|]. congruence.
    - eexists. split; [exact E|]. cbn [fst snd].
      assert (Hyi : g_innov y = g_innov x) by (destruct Hy as [_ [_ [_ [_ [Hy _]]]]]; congruence).
      split; [|intros _; exists y; split; [apply in_or_app; right; now left|exact Hy]].
      unfold stepQ. cbn [fst snd]. split; [exact Hinv'|]. repeat split.
      + intros z Hz. apply in_app_or in Hz. destruct Hz as [Hz|[<-|[]]]; [now apply Hprov|now apply Hb].
      + apply asc_snoc; [exact Hasc|]. intros z Hz. specialize (Hbel z Hz). lia.
      + intros z Hz. apply in_or_app. now left.
      + intros z Hz. apply in_app_or in Hz. destruct Hz as [Hz|[<-|[]]]; [specialize (Hbel z Hz)|]; lia.
  Qed.

  Lemma resolve_A x : In x (genes A) -> exists c, resolve A x = Ok c /\ chosen_for x c /\ cg c = x.
  Proof.
    intros Hx. destruct (po_res _ _ (c_A Hctx) x Hx) as [a [b [Ea Eb]]]. unfold resolve. rewrite Ea, Eb.
    eexists. split; [reflexivity|]. apply nwi_In in Ea. apply nwi_In in Eb. destruct Ea as [Ia Ea], Eb as [Ib Eb].
    unfold chosen_for, cok, pnode. cbn. repeat split; auto. apply (po_tg _ _ (c_A Hctx)), Hx.
  Qed.

  Lemma resolve_B x : In x (genes B) -> exists c, resolve B x = Ok c /\ chosen_for x c /\ cg c = x.
  Proof.
    intros Hx. destruct (po_res _ _ (c_B Hctx) x Hx) as [a [b [Ea Eb]]]. unfold resolve. rewrite Ea, Eb.
    eexists. split; [reflexivity|]. apply nwi_In in Ea. apply nwi_In in Eb. destruct Ea as [Ia Ea], Eb as [Ib Eb].
    unfold chosen_for, cok, pnode. cbn. repeat split; auto. apply (po_tg _ _ (c_B Hctx)), Hx.
  Qed.

  Lemma built_kin c dis x y : chosen_for x c -> built c dis y -> kin x y.
  Proof using.
    intros [_ [A1 [A2 [_ [_ [A3 A4]]]]]] [B1 [B2 [B3 [_ [B4 _]]]]]. unfold kin. repeat split; congruence.
  Qed.

  (* matching genes are never skipped by the conflict check *)
  Lemma no_conflict gs x1 x2 c :
    allprov gs -> below gs (g_innov x1) -> In x1 (genes A) -> In x2 (genes B) -> g_innov x1 = g_innov x2 ->
    chosen_for x1 c -> existsb (fun y => same_link y (cg c)) gs = false.
  Proof.
    intros Hprov Hbel H1 H2 E Hc. destruct (existsb _ gs) eqn:Eex; [exfalso|reflexivity].
    apply existsb_exists in Eex. destruct Eex as [y [Hy Hl]]. specialize (Hbel y Hy).
    pose proof (c_cons Hctx x1 x2 H1 H2 E) as H12. apply same_link_iff in H12, Hl.
    destruct Hc as [_ [_ [_ [Ci [Co [Cr _]]]]]].
    pose proof (po_inj _ _ (c_A Hctx)) as IA. pose proof (po_inj _ _ (c_B Hctx)) as IB.
    destruct (Hprov y Hy) as [[x [Hx [_ [[K1 [K2 [K3 K4]]] _]]]]|[[x [Hx [_ [[K1 [K2 [K3 K4]]] _]]]]|[x [x' [Hx [_ [_ [[K1 [K2 [K3 K4]]] _]]]]]]]].
    - assert (S : same_link x x1 = true) by (apply same_link_iff; intuition congruence).
      specialize (IA x x1 Hx H1 S). lia.
    - assert (S : same_link x x2 = true) by (apply same_link_iff; intuition congruence).
      specialize (IB x x2 Hx H2 S). lia.
    - assert (S : same_link x x1 = true) by (apply same_link_iff; intuition congruence).
      specialize (IA x x1 Hx H1 S). lia.
  Qed.

  Lemma chosen_for_swap x1 x2 c :
    In x1 (genes A) -> In x2 (genes B) -> g_innov x1 = g_innov x2 -> chosen_for x2 c -> chosen_for x1 c.
  Proof using Hctx.
    intros H1 H2 E Hc. pose proof (c_cons Hctx x1 x2 H1 H2 E) as H12. apply same_link_iff in H12.
    destruct H12 as [S1 [S2 S3]]. destruct Hc as [C0 [C1 [C2 [C3 [C4 [C5 C6]]]]]].
    unfold chosen_for. repeat split; try congruence; apply C0.
  Qed.

  (* a gene of one parent never conflicts with what was taken from that parent or from matching pairs *)
  Lemma no_conflict_A gs x c :
    ~ allow2 -> allprov gs -> below gs (g_innov x) -> In x (genes A) -> chosen_for x c ->
    existsb (fun y => same_link y (cg c)) gs = false.
  Proof.
    intros Hna Hprov Hbel H1 Hc. destruct (existsb _ gs) eqn:Eex; [exfalso|reflexivity].
    apply existsb_exists in Eex. destruct Eex as [y [Hy Hl]]. specialize (Hbel y Hy). apply same_link_iff in Hl.
    destruct Hc as [_ [_ [_ [Ci [Co [Cr _]]]]]]. pose proof (po_inj _ _ (c_A Hctx)) as IA.
    destruct (Hprov y Hy) as [[x' [Hx [_ [[K1 [K2 [K3 K4]]] _]]]]|[[x' [Hx [Hal _]]]|[x' [x'' [Hx [_ [_ [[K1 [K2 [K3 K4]]] _]]]]]]]].
    - assert (S : same_link x' x = true) by (apply same_link_iff; intuition congruence).
      specialize (IA x' x Hx H1 S). lia.
    - contradiction.
    - assert (S : same_link x' x = true) by (apply same_link_iff; intuition congruence).
      specialize (IA x' x Hx H1 S). lia.
  Qed.

  Lemma no_conflict_B gs x c :
    ~ allow1 -> allprov gs -> below gs (g_innov x) -> In x (genes B) -> chosen_for x c ->
    existsb (fun y => same_link y (cg c)) gs = false.
  Proof.
    intros Hna Hprov Hbel H1 Hc. destruct (existsb _ gs) eqn:Eex; [exfalso|reflexivity].
    apply existsb_exists in Eex. destruct Eex as [y [Hy Hl]]. specialize (Hbel y Hy). apply same_link_iff in Hl.
    destruct Hc as [_ [_ [_ [Ci [Co [Cr _]]]]]]. pose proof (po_inj _ _ (c_B Hctx)) as IB.
    destruct (Hprov y Hy) as [[x' [Hx [Hal _]]]|[[x' [Hx [_ [[K1 [K2 [K3 K4]]] _]]]]|[x' [x'' [Hx [Hx'' [E [[K1 [K2 [K3 K4]]] _]]]]]]]].
    - contradiction.
    - assert (S : same_link x' x = true) by (apply same_link_iff; intuition congruence).
      specialize (IB x' x Hx H1 S). lia.
    - pose proof (c_cons Hctx x' x'' Hx Hx'' E) as H12. apply same_link_iff in H12.
      assert (S : same_link x'' x = true) by (apply same_link_iff; intuition congruence).
      specialize (IB x'' x Hx'' H1 S). lia.
  Qed.

  (* pure steps: a gene of one side only; it is never dropped when the other side contributes no genes of its own *)
  Lemma addA ns gs x :
    allow1 -> In x (genes A) -> ninv ns gs -> allprov gs -> asc g_innov gs -> below gs (g_innov x) ->
    exists c acc', resolve A x = Ok c /\ add_chosen g nt (ns, gs) c false = Ok acc' /\ stepQ gs x acc' /\
                   (~ allow2 -> exists y, In y (snd acc') /\ kin x y).
  Proof.
    intros Hal Hx Hinv Hp Ha Hb. destruct (resolve_A x Hx) as [c [Er [Hc Ecg]]].
    destruct (add_step ns gs c false x Hinv Hp Ha Hb Hc) as [acc' [E [HQ Hex]]].
    - intros y Hy. left. exists x. repeat split; auto; try (eapply built_kin; eassumption);
        destruct Hy as [_ [_ [_ [Hw [_ He]]]]]; congruence.
    - exists c, acc'. split; [exact Er|]. split; [exact E|]. split; [exact HQ|]. intros Hna.
      destruct (Hex (no_conflict_A gs x c Hna Hp Hb Hx Hc)) as [y [Hy Hby]].
      exists y. split; [exact Hy|eapply built_kin; eassumption].
  Qed.

  Lemma addB ns gs x :
    allow2 -> In x (genes B) -> ninv ns gs -> allprov gs -> asc g_innov gs -> below gs (g_innov x) ->
    exists c acc', resolve B x = Ok c /\ add_chosen g nt (ns, gs) c false = Ok acc' /\ stepQ gs x acc' /\
                   (~ allow1 -> exists y, In y (snd acc') /\ kin x y).
  Proof.
    intros Hal Hx Hinv Hp Ha Hb. destruct (resolve_B x Hx) as [c [Er [Hc Ecg]]].
    destruct (add_step ns gs c false x Hinv Hp Ha Hb Hc) as [acc' [E [HQ Hex]]].
    - intros y Hy. right. left. exists x. repeat split; auto; try (eapply built_kin; eassumption);
        destruct Hy as [_ [_ [_ [Hw [_ He]]]]]; congruence.
    - exists c, acc'. split; [exact Er|]. split; [exact E|]. split; [exact HQ|]. intros Hna.
      destruct (Hex (no_conflict_B gs x c Hna Hp Hb Hx Hc)) as [y [Hy Hby]].
      exists y. split; [exact Hy|eapply built_kin; eassumption].
  Qed.

  Lemma kin_AB x1 x2 y :
    In x1 (genes A) -> In x2 (genes B) -> g_innov x1 = g_innov x2 -> kin x1 y -> kin x2 y.
  Proof using Hctx.
    intros H1 H2 E [K1 [K2 [K3 K4]]]. pose proof (c_cons Hctx x1 x2 H1 H2 E) as H12. apply same_link_iff in H12.
    destruct H12 as [S1 [S2 S3]]. unfold kin. repeat split; congruence.
  Qed.

  (* pure step: a matching pair, any chosen gene that stands for x1, any W it establishes *)
  Lemma add_matched ns gs x1 x2 c dis :
    In x1 (genes A) -> In x2 (genes B) -> g_innov x1 = g_innov x2 -> chosen_for x1 c ->
    (forall y, built c dis y -> W x1 x2 y) ->
    ninv ns gs -> allprov gs -> asc g_innov gs -> below gs (g_innov x1) ->
    exists acc', add_chosen g nt (ns, gs) c dis = Ok acc' /\ stepQ gs x1 acc' /\
                 exists y, In y (snd acc') /\ kin x1 y /\ W x1 x2 y.
  Proof.
    intros H1 H2 E Hc HW Hinv Hp Ha Hb.
    destruct (add_step ns gs c dis x1 Hinv Hp Ha Hb Hc) as [acc' [Ea [HQ Hex]]].
    - intros y Hy. right. right. exists x1, x2. repeat split; auto; try (eapply built_kin; eassumption).
    - exists acc'. split; [exact Ea|]. split; [exact HQ|].
      destruct (Hex (no_conflict gs x1 x2 c Hp Hb H1 H2 E Hc)) as [y [Hy Hby]].
      exists y. split; [exact Hy|]. split; [eapply built_kin; eassumption|now apply HW].
  Qed.
End Acc.

Arguments ctx_ok : clear implicits.

(* ------------------------------------------------------------------------------------------ *)
(* 6. the random pieces                                                                         *)
(* ------------------------------------------------------------------------------------------ *)
Ltac obind P := eapply (okT_bind P); [|intros ? ? ?].
Ltac obindn P v H := eapply (okT_bind P); [|intros v ? H].

Lemma okT_pick {A} (a b : A) s : okT (fun v => v = a \/ v = b) (pick_gt_half a b s).
Proof.
  unfold pick_gt_half. obind (fun _ : float => True); [apply okT_float64|].
  apply okT_ret. destruct (PrimFloat.ltb _ _); auto.
Qed.

Lemma okT_disable x1 x2 s :
  okT (fun dis => (g_en x1 = false -> dis = true) /\ (g_en x1 = true -> g_en x2 = true -> dis = false))
      (disable_draw x1 x2 s).
Proof.
  unfold disable_draw. destruct (g_en x1); cbn [negb].
  - destruct (g_en x2); cbn [negb].
    + apply okT_ret. split; [discriminate|reflexivity].
    + obind (fun _ : float => True); [apply okT_float64|]. apply okT_ret. split; discriminate.
  - apply okT_ret. split; [reflexivity|discriminate].
Qed.

Definition en_weak (x1 x2 y : gene) : Prop := g_en x1 = true -> g_en x2 = true -> g_en y = true.
Definition en_strong (x1 x2 y : gene) : Prop := en_weak x1 x2 y /\ (g_en x1 = false -> g_en y = false).

Lemma okT_avg_gene g nt A B x1 x2 s :
  ctx_ok g nt A B -> In x1 (genes A) -> In x2 (genes B) -> g_innov x1 = g_innov x2 ->
  okT (fun c => chosen_for g A B x1 c /\ g_w (cg c) = fmean (g_w x1) (g_w x2) /\ en_strong x1 x2 (cg c))
      (avg_gene A B x1 x2 s).
Proof.
  intros Hctx H1 H2 E. unfold avg_gene.
  obindn (fun v => v = g_trait x1 \/ v = g_trait x2) tr Htr; [apply okT_pick|].
  destruct (resolve_A g nt A B Hctx x1 H1) as [c1 [-> [Hc1 _]]].
  destruct (resolve_B g nt A B Hctx x2 H2) as [c2 [-> [Hc2 _]]].
  apply (chosen_for_swap g nt A B Hctx x1 x2 c2 H1 H2 E) in Hc2.
  obindn (fun v => v = c1) c1' Ec1; [apply okT_lift; eauto|]. subst c1'.
  obindn (fun v => v = c2) c2' Ec2; [apply okT_lift; eauto|]. subst c2'.
  obindn (fun v => v = cg_inn c1 \/ v = cg_inn c2) inn Hinn; [apply okT_pick|].
  obindn (fun v => v = cg_outn c1 \/ v = cg_outn c2) outn Houtn; [apply okT_pick|].
  obindn (fun v => v = g_rec x1 \/ v = g_rec x2) rc Hrc; [apply okT_pick|].
  obindn (fun dis => (g_en x1 = false -> dis = true) /\ (g_en x1 = true -> g_en x2 = true -> dis = false)) dis Hdis;
    [apply okT_disable|].
  apply okT_ret. cbn [cg cg_inn cg_outn g_w g_en].
  pose proof (c_cons _ _ _ _ Hctx x1 x2 H1 H2 E) as H12. apply same_link_iff in H12.
  destruct Hc1 as [[P1 [P2 P3]] [I1 [O1 _]]]. destruct Hc2 as [[Q1 [Q2 Q3]] [I2 [O2 _]]].
  split; [|split; [reflexivity|]].
  - unfold chosen_for, cok. cbn.
    assert (T : tref_ok g tr).
    { destruct Htr; subst tr; [apply (po_tg _ _ (c_A _ _ _ _ Hctx)), H1|apply (po_tg _ _ (c_B _ _ _ _ Hctx)), H2]. }
    assert (Hr : rc = g_rec x1) by (destruct Hrc; subst rc; intuition congruence).
    destruct Hinn; subst inn; destruct Houtn; subst outn; repeat split; auto.
  - destruct Hdis as [D1 D2]. split.
    + intros E1 E2. cbn. rewrite (D2 E1 E2). reflexivity.
    + intros E1. cbn. rewrite (D1 E1). reflexivity.
Qed.

(* ------------------------------------------------------------------------------------------ *)
(* 7. mateMultipoint / mateMultipointAvg: the loop                                              *)
(* ------------------------------------------------------------------------------------------ *)
Definition Wmp (avg : bool) (x1 x2 y : gene) : Prop :=
  (if avg then g_w y = fmean (g_w x1) (g_w x2) else g_w y = g_w x1 \/ g_w y = g_w x2) /\ en_strong x1 x2 y.

Definition lo (gs l : list gene) : Prop := forall y z, In y gs -> In z l -> g_innov y < g_innov z.

Lemma lo_le gs x l :
  (forall y, In y gs -> g_innov y <= g_innov x) -> (forall z, In z l -> g_innov x < g_innov z) -> lo gs l.
Proof. intros H1 H2 y z Hy Hz. specialize (H1 y Hy). specialize (H2 z Hz). lia. Qed.

Lemma asc_head {A} (key : A -> Z) x l : asc key (x :: l) -> forall z, In z l -> key x < key z.
Proof. intros H. apply asc_cons in H. destruct H as [_ H]. rewrite Forall_forall in H. exact H. Qed.

Lemma asc_tail {A} (key : A -> Z) x l : asc key (x :: l) -> asc key l.
Proof. intros H. apply asc_cons in H. tauto. Qed.

Lemma okT_side {S} (Q : list node * list gene -> Prop) g nt acc (r : res cgene) c dis acc' (s : S) :
  r = Ok c -> add_chosen g nt acc c dis = Ok acc' -> Q acc' ->
  okT Q ((let! c := lift r in lift (add_chosen g nt acc c dis)) s).
Proof. intros -> E H. unfold bindM, lift. cbn. rewrite E. cbn. exact H. Qed.

Section MP.
  Variables (avg : bool) (g og : genome) (nt : list trait) (ns0 : list node) (p1b : bool).
  Hypothesis Hctx : ctx_ok g nt g og.

  Notation NINV := (ninv nt g og ns0).
  Notation PROV := (allprov g og (p1b = true) (p1b = false) (Wmp avg)).
  Notation STEPQ := (stepQ nt g og ns0 (p1b = true) (p1b = false) (Wmp avg)).

  Lemma sideA_ok ns gs x (s : st) :
    In x (genes g) -> NINV ns gs -> PROV gs -> asc g_innov gs -> below gs (g_innov x) ->
    okT (fun acc' => STEPQ gs x acc' /\ (p1b = true -> exists y, In y (snd acc') /\ kin x y))
        ((if negb p1b then ret (ns, gs)
          else let! c := lift (resolve g x) in lift (add_chosen g nt (ns, gs) c false)) s).
  Proof.
    intros Hx Hinv Hp Ha Hb. destruct p1b eqn:Ep; cbn [negb].
    - destruct (addA g nt g og ns0 _ _ _ Hctx ns gs x eq_refl Hx Hinv Hp Ha Hb) as [c [acc' [Er [Ea [HQ Hex]]]]].
      eapply okT_side; try eassumption. split; [exact HQ|]. intros _. apply Hex. discriminate.
    - apply okT_ret. split; [now apply stepQ_skip|discriminate].
  Qed.

  Lemma sideB_ok ns gs x (s : st) :
    In x (genes og) -> NINV ns gs -> PROV gs -> asc g_innov gs -> below gs (g_innov x) ->
    okT (fun acc' => STEPQ gs x acc' /\ (p1b = false -> exists y, In y (snd acc') /\ kin x y))
        ((if p1b then ret (ns, gs)
          else let! c := lift (resolve og x) in lift (add_chosen g nt (ns, gs) c false)) s).
  Proof.
    intros Hx Hinv Hp Ha Hb. destruct p1b eqn:Ep.
    - apply okT_ret. split; [now apply stepQ_skip|discriminate].
    - destruct (addB g nt g og ns0 _ _ _ Hctx ns gs x eq_refl Hx Hinv Hp Ha Hb) as [c [acc' [Er [Ea [HQ Hex]]]]].
      eapply okT_side; try eassumption. split; [exact HQ|]. intros _. apply Hex. discriminate.
  Qed.

  Lemma match_ok ns gs x1 x2 (s : st) :
    In x1 (genes g) -> In x2 (genes og) -> g_innov x1 = g_innov x2 ->
    NINV ns gs -> PROV gs -> asc g_innov gs -> below gs (g_innov x1) ->
    okT (fun acc' => STEPQ gs x1 acc' /\ exists y, In y (snd acc') /\ kin x1 y /\ Wmp avg x1 x2 y)
        ((if avg then
            let! c := avg_gene g og x1 x2 in lift (add_chosen g nt (ns, gs) c false)
          else
            let! r := r_float64 in
            let! c := (if PrimFloat.ltb r half then lift (resolve g x1) else lift (resolve og x2)) in
            let! dis := disable_draw x1 x2 in
            lift (add_chosen g nt (ns, gs) c dis)) s).
  Proof.
    intros H1 H2 E Hinv Hp Ha Hb. destruct avg eqn:Eavg.
    - obindn (fun c => chosen_for g g og x1 c /\ g_w (cg c) = fmean (g_w x1) (g_w x2) /\ en_strong x1 x2 (cg c)) c Hc0;
        [now apply (okT_avg_gene g nt g og)|].
      destruct Hc0 as [Hc [Hw [He1 He2]]].
      destruct (add_matched g nt g og ns0 (p1b = true) (p1b = false) (Wmp true) Hctx ns gs x1 x2 c false
                            H1 H2 E Hc) as [acc' [Ea HQ]]; auto.
      + intros y [_ [_ [_ [Yw [_ Ye]]]]]. unfold Wmp, en_strong, en_weak. rewrite Yw, Ye. auto.
      + apply okT_lift. eauto.
    - obindn (fun _ : float => True) r Hr; [apply okT_float64|].
      obindn (fun c => chosen_for g g og x1 c /\ (cg c = x1 \/ cg c = x2)) c Hc0.
      { destruct (PrimFloat.ltb r half).
        - destruct (resolve_A g nt g og Hctx x1 H1) as [c [-> [Hc Ec]]]. apply okT_lift. eauto.
        - destruct (resolve_B g nt g og Hctx x2 H2) as [c [-> [Hc Ec]]]. apply okT_lift.
          exists c. split; [reflexivity|]. split; [|now right].
          now apply (chosen_for_swap g nt g og Hctx x1 x2 c). }
      destruct Hc0 as [Hc Hcg].
      obindn (fun dis => (g_en x1 = false -> dis = true) /\ (g_en x1 = true -> g_en x2 = true -> dis = false)) dis Hdis;
        [apply okT_disable|].
      destruct Hdis as [D1 D2].
      destruct (add_matched g nt g og ns0 (p1b = true) (p1b = false) (Wmp false) Hctx ns gs x1 x2 c dis
                            H1 H2 E Hc) as [acc' [Ea HQ]]; auto.
      + intros y [_ [_ [_ [Yw [_ Ye]]]]]. unfold Wmp, en_strong, en_weak. rewrite Yw, Ye. split.
        * destruct Hcg as [-> | ->]; auto.
        * split.
          -- intros E1 E2. rewrite (D2 E1 E2). destruct Hcg as [-> | ->]; assumption.
          -- intros E1. rewrite (D1 E1). reflexivity.
      + apply okT_lift. eauto.
  Qed.

  Definition mpQ (gs l1 l2 : list gene) (acc' : list node * list gene) : Prop :=
    NINV (fst acc') (snd acc') /\ PROV (snd acc') /\ asc g_innov (snd acc') /\ incl gs (snd acc') /\
    (forall x1 x2, In x1 l1 -> In x2 l2 -> g_innov x1 = g_innov x2 ->
                   exists y, In y (snd acc') /\ kin x1 y /\ Wmp avg x1 x2 y) /\
    (p1b = true -> forall x, In x l1 -> exists y, In y (snd acc') /\ kin x y) /\
    (p1b = false -> forall x, In x l2 -> exists y, In y (snd acc') /\ kin x y).

  Lemma mp_loop : forall fuel l1 l2 ns gs s,
      (length l1 + length l2 < fuel)%nat ->
      asc g_innov l1 -> asc g_innov l2 -> incl l1 (genes g) -> incl l2 (genes og) ->
      NINV ns gs -> PROV gs -> asc g_innov gs -> lo gs l1 -> lo gs l2 ->
      okT (mpQ gs l1 l2) (multipoint_loop fuel avg g og nt p1b l1 l2 (ns, gs) s).
  Proof.
    induction fuel as [|fuel IH]; intros l1 l2 ns gs s Hf A1 A2 I1 I2 Hinv Hp Ha L1 L2; [lia|].
    cbn [multipoint_loop]. destruct l1 as [|x1 l1'], l2 as [|x2 l2'].
    - apply okT_ret. unfold mpQ. cbn [fst snd].
      refine (conj Hinv (conj Hp (conj Ha (conj (incl_refl _) (conj _ (conj _ _)))))).
      + intros ? ? [].
      + intros _ ? [].
      + intros _ ? [].
    - (* excess of the second parent *)
      assert (Hx2 : In x2 (genes og)) by (apply I2; now left).
      obindn (fun acc' => STEPQ gs x2 acc' /\ (p1b = false -> exists y, In y (snd acc') /\ kin x2 y)) acc' HQ.
      { apply sideB_ok; auto. intros y Hy. apply L2; [exact Hy|now left]. }
      destruct acc' as [ns' gs']. destruct HQ as [[Q1 [Q2 [Q3 [Q4 Q5]]]] Q6]. cbn [fst snd] in *.
      eapply okT_mono.
      + apply IH; auto.
        * cbn [length] in *. lia.
        * eapply asc_tail; eassumption.
        * intros z Hz. apply I2. now right.
        * intros y z _ [].
        * eapply lo_le; [exact Q5|]. eapply asc_head; eassumption.
      + intros acc'' [R1 [R2 [R3 [R4 [R5 [R6 R7]]]]]].
        refine (conj R1 (conj R2 (conj R3 (conj _ (conj _ (conj _ _)))))).
        * eapply incl_tran; eassumption.
        * intros ? ? [].
        * intros _ ? [].
        * intros Eb x [<-|Hx]; [|now apply R7]. destruct (Q6 Eb) as [y [Hy K]]. exists y. split; [now apply R4|exact K].
    - (* excess of the first parent *)
      assert (Hx1 : In x1 (genes g)) by (apply I1; now left).
      obindn (fun acc' => STEPQ gs x1 acc' /\ (p1b = true -> exists y, In y (snd acc') /\ kin x1 y)) acc' HQ.
      { apply sideA_ok; auto. intros y Hy. apply L1; [exact Hy|now left]. }
      destruct acc' as [ns' gs']. destruct HQ as [[Q1 [Q2 [Q3 [Q4 Q5]]]] Q6]. cbn [fst snd] in *.
      eapply okT_mono.
      + apply IH; auto.
        * cbn [length] in *. lia.
        * eapply asc_tail; eassumption.
        * intros z Hz. apply I1. now right.
        * eapply lo_le; [exact Q5|]. eapply asc_head; eassumption.
        * intros y z _ [].
      + intros acc'' [R1 [R2 [R3 [R4 [R5 [R6 R7]]]]]].
        refine (conj R1 (conj R2 (conj R3 (conj _ (conj _ (conj _ _)))))).
        * eapply incl_tran; eassumption.
        * intros ? ? _ [].
        * intros Eb x [<-|Hx]; [|now apply R6]. destruct (Q6 Eb) as [y [Hy K]]. exists y. split; [now apply R4|exact K].
        * intros _ ? [].
    - assert (Hx1 : In x1 (genes g)) by (apply I1; now left).
      assert (Hx2 : In x2 (genes og)) by (apply I2; now left).
      pose proof (asc_head _ _ _ A1) as T1. pose proof (asc_head _ _ _ A2) as T2.
      destruct (Z.eqb_spec (g_innov x1) (g_innov x2)) as [E|NE].
      + (* matching genes *)
        obindn (fun acc' => STEPQ gs x1 acc' /\ exists y, In y (snd acc') /\ kin x1 y /\ Wmp avg x1 x2 y) acc' HQ.
        { apply match_ok; auto. intros y Hy. apply L1; [exact Hy|now left]. }
        destruct acc' as [ns' gs']. destruct HQ as [[Q1 [Q2 [Q3 [Q4 Q5]]]] [y0 [Hy0 [K0 W0]]]]. cbn [fst snd] in *.
        eapply okT_mono.
        * apply IH; auto.
          -- cbn [length] in *. lia.
          -- eapply asc_tail; eassumption.
          -- eapply asc_tail; eassumption.
          -- intros z Hz. apply I1. now right.
          -- intros z Hz. apply I2. now right.
          -- eapply lo_le; [exact Q5|exact T1].
          -- eapply lo_le; [exact Q5|]. intros z Hz. rewrite E. now apply T2.
        * intros acc'' [R1 [R2 [R3 [R4 [R5 [R6 R7]]]]]].
          refine (conj R1 (conj R2 (conj R3 (conj _ (conj _ (conj _ _)))))).
          -- eapply incl_tran; eassumption.
          -- intros u1 u2 [<-|U1] [<-|U2] EU.
             ++ exists y0. split; [now apply R4|auto].
             ++ specialize (T2 _ U2). lia.
             ++ specialize (T1 _ U1). lia.
             ++ now apply R5.
          -- intros Eb x [<-|Hx]; [|now apply R6]. exists y0. split; [now apply R4|exact K0].
          -- intros Eb x [<-|Hx]; [|now apply R7]. exists y0. split; [now apply R4|].
             now apply (kin_AB g nt g og Hctx x1 x2).
      + destruct (Z.ltb_spec (g_innov x1) (g_innov x2)) as [LT|GE].
        * (* disjoint gene of the first parent *)
          obindn (fun acc' => STEPQ gs x1 acc' /\ (p1b = true -> exists y, In y (snd acc') /\ kin x1 y)) acc' HQ.
          { apply sideA_ok; auto. intros y Hy. apply L1; [exact Hy|now left]. }
          destruct acc' as [ns' gs']. destruct HQ as [[Q1 [Q2 [Q3 [Q4 Q5]]]] Q6]. cbn [fst snd] in *.
          eapply okT_mono.
          -- apply IH; auto.
             ++ cbn [length] in *. lia.
             ++ eapply asc_tail; eassumption.
             ++ intros z Hz. apply I1. now right.
             ++ eapply lo_le; [exact Q5|exact T1].
             ++ eapply lo_le; [exact Q5|]. intros z [<-|Hz]; [lia|]. specialize (T2 _ Hz). lia.
          -- intros acc'' [R1 [R2 [R3 [R4 [R5 [R6 R7]]]]]].
             refine (conj R1 (conj R2 (conj R3 (conj _ (conj _ (conj _ R7)))))).
             ++ eapply incl_tran; eassumption.
             ++ intros u1 u2 [<-|U1] U2 EU; [|now apply R5].
                destruct U2 as [<-|U2]; [lia|]. specialize (T2 _ U2). lia.
             ++ intros Eb x [<-|Hx]; [|now apply R6]. destruct (Q6 Eb) as [y [Hy K]]. exists y. split; [now apply R4|exact K].
        * (* disjoint gene of the second parent *)
          obindn (fun acc' => STEPQ gs x2 acc' /\ (p1b = false -> exists y, In y (snd acc') /\ kin x2 y)) acc' HQ.
          { apply sideB_ok; auto. intros y Hy. apply L2; [exact Hy|now left]. }
          destruct acc' as [ns' gs']. destruct HQ as [[Q1 [Q2 [Q3 [Q4 Q5]]]] Q6]. cbn [fst snd] in *.
          eapply okT_mono.
          -- apply IH; auto.
             ++ cbn [length] in *. lia.
             ++ eapply asc_tail; eassumption.
             ++ intros z Hz. apply I2. now right.
             ++ eapply lo_le; [exact Q5|]. intros z [<-|Hz]; [lia|]. specialize (T1 _ Hz). lia.
             ++ eapply lo_le; [exact Q5|exact T2].
          -- intros acc'' [R1 [R2 [R3 [R4 [R5 [R6 R7]]]]]].
             refine (conj R1 (conj R2 (conj R3 (conj _ (conj _ (conj R6 _)))))).
             ++ eapply incl_tran; eassumption.
             ++ intros u1 u2 U1 [<-|U2] EU; [|now apply R5].
                destruct U1 as [<-|U1]; [lia|]. specialize (T1 _ U1). lia.
             ++ intros Eb x [<-|Hx]; [|now apply R7]. destruct (Q6 Eb) as [y [Hy K]]. exists y. split; [now apply R4|exact K].
  Qed.
End MP.

(* ------------------------------------------------------------------------------------------ *)
(* 8. the io nodes copied first, and what the node invariant says at the end                    *)
(* ------------------------------------------------------------------------------------------ *)
Definition same_node (m n : node) : Prop := n_id m = n_id n /\ n_type m = n_type n /\ n_act m = n_act n.

Lemma io_nodes_of_ok g nt : traits g <> [] -> length nt = length (traits g) ->
  forall l acc,
    asc n_id acc -> (forall n, In n l -> tref_ok g (n_trait n)) ->
    NoDup (map n_id (filter is_io l)) ->
    (forall n, In n (filter is_io l) -> ~ In (n_id n) (map n_id acc)) ->
    exists ns, io_nodes_of g nt l acc = Ok ns /\ asc n_id ns /\ incl acc ns /\
      (forall m, In m ns -> In m acc \/ (ntr_ok nt m /\ exists n, In n l /\ is_io n = true /\ same_node n m)) /\
      (forall n, In n l -> is_io n = true -> exists m, In m ns /\ same_node n m).
Proof.
  intros Hne Hlen. induction l as [|n l IH]; intros acc Ha Ht Hnd Hfresh.
  - exists acc. cbn. repeat split; auto using incl_refl. intros ? [].
  - cbn [io_nodes_of]. cbn [filter] in Hnd, Hfresh. destruct (is_io n) eqn:Eio.
    + destruct (child_trait_ok g nt (n_trait n) Hne Hlen (Ht n (or_introl eq_refl))) as [tid [-> Htid]]. cbn [bind].
      cbn [map] in Hnd. inversion Hnd as [|? ? Hnin Hnd']; subst.
      set (n' := {| n_id := n_id n; n_type := n_type n; n_act := n_act n; n_trait := Some tid |}).
      destruct (IH (node_insert acc n')) as [ns [E [Hs [Hi [Hsrc Hall]]]]].
      * apply insert_sorted_asc; [exact Ha|]. exact (Hfresh n (or_introl eq_refl)).
      * intros m Hm. apply Ht. now right.
      * exact Hnd'.
      * intros m Hm Hin. apply in_map_iff in Hin. destruct Hin as [z [Ez Hz]].
        apply insert_sorted_In in Hz. destruct Hz as [->|Hz].
        -- apply Hnin. change (n_id n) with (n_id n'). rewrite Ez. now apply in_map.
        -- apply (Hfresh m (or_intror Hm)). rewrite <- Ez. now apply in_map.
      * exists ns. split; [exact E|]. split; [exact Hs|]. split; [|split].
        -- intros m Hm. apply Hi. apply insert_sorted_In. now right.
        -- intros m Hm. destruct (Hsrc m Hm) as [Hm'|[Hmt [z [Hz [Hzio Hzs]]]]].
           ++ apply insert_sorted_In in Hm'. destruct Hm' as [->|Hm']; [right|now left].
              split; [exists tid; cbn; auto|].
              exists n. split; [now left|]. split; [exact Eio|]. unfold same_node. cbn. auto.
           ++ right. split; [exact Hmt|]. exists z. split; [now right|auto].
        -- intros z [<-|Hz] Hzio; [|now apply Hall].
           exists n'. split; [|unfold same_node; cbn; auto]. apply Hi. apply insert_sorted_In. now left.
    + destruct (IH acc Ha) as [ns [E [Hs [Hi [Hsrc Hall]]]]]; auto.
      * intros m Hm. apply Ht. now right.
      * exists ns. split; [exact E|]. split; [exact Hs|]. split; [exact Hi|]. split.
        -- intros m Hm. destruct (Hsrc m Hm) as [Hm'|[Hmt [z [Hz Hzs]]]]; [now left|right].
           split; [exact Hmt|]. exists z. split; [now right|exact Hzs].
        -- intros z [<-|Hz] Hzio; [congruence|now apply Hall].
Qed.

Lemma ninv_start nt A B ns0 : asc n_id ns0 -> (forall n, In n ns0 -> ntr_ok nt n) -> ninv nt A B ns0 ns0 [].
Proof.
  intros H Ht. constructor; auto using incl_refl.
  - intros ? [].
  - intros ? [].
  - intros ? ? [].
Qed.

(* the node clauses of the property, from the invariant *)
Lemma nodes_post nt A B og ns0 ns gs :
  (forall n, In n (nodes og) -> pnode A B n) ->
  (forall m, In m ns0 -> exists n, In n (nodes og) /\ is_io n = true /\ same_node n m) ->
  (forall n, In n (nodes og) -> is_io n = true -> exists m, In m ns0 /\ same_node n m) ->
  ninv nt A B ns0 ns gs ->
  asc n_id ns /\
  (forall id, In id (map n_id ns) <-> In id (io_ids og) \/ touched gs id) /\
  (forall n, In n ns -> nsrc A B n) /\
  (forall m, In m (nodes og) -> is_io m = true -> exists n, In n ns /\ same_node m n).
Proof.
  intros Hog H0 H0' [Ha Hsrc Hio Hends _ _ _]. split; [exact Ha|]. split; [|split].
  - intros id. split.
    + intros Hid. apply in_map_iff in Hid. destruct Hid as [n [<- Hn]].
      destruct (Hsrc n Hn) as [Hn0|[_ Ht]]; [left|now right].
      destruct (H0 n Hn0) as [z [Hz [Hzio [Ez _]]]]. rewrite <- Ez. unfold io_ids.
      apply in_map. apply filter_In. auto.
    + intros [Hid|[y [Hy [->| ->]]]]; try (now apply Hends).
      unfold io_ids in Hid. apply in_map_iff in Hid. destruct Hid as [z [<- Hz]]. apply filter_In in Hz.
      destruct Hz as [Hz Hzio]. destruct (H0' z Hz Hzio) as [m [Hm [Em _]]]. rewrite Em. apply in_map. now apply Hio.
  - intros n Hn. destruct (Hsrc n Hn) as [Hn0|[Hs _]]; [|exact Hs].
    destruct (H0 n Hn0) as [z [Hz [_ [E1 [E2 E3]]]]]. exists z. split; [now apply Hog|auto].
  - intros m Hm Hmio. destruct (H0' m Hm Hmio) as [n [Hn Hs]]. exists n. split; [now apply Hio|exact Hs].
Qed.

(* ------------------------------------------------------------------------------------------ *)
(* 9. mateMultipoint / mateMultipointAvg: the whole function                                    *)
(* ------------------------------------------------------------------------------------------ *)
Definition mean_traits (p1 p2 : genome) : list trait :=
  map (fun ab => trait_mean (fst ab) (snd ab)) (combine (traits p1) (traits p2)).

Lemma mean_traits_length p1 p2 : traits_match p1 p2 -> length (mean_traits p1 p2) = length (traits p1).
Proof.
  intros [_ H]. unfold mean_traits. rewrite map_length, combine_length.
  apply Forall2_length' in H. lia.
Qed.

Lemma hyps_ctx p1 p2 : mate_hyps p1 p2 -> ctx_ok p1 (mean_traits p1 p2) p1 p2.
Proof.
  intros H. constructor.
  - apply (mh_traits _ _ H).
  - apply mean_traits_length, (mh_traits _ _ H).
  - apply (mh_p1 _ _ H).
  - apply (mh_p2 _ _ H).
  - apply (mh_cons _ _ H).
Qed.

Lemma hyps_io p1 p2 : mate_hyps p1 p2 ->
  exists ns0, io_nodes_of p1 (mean_traits p1 p2) (nodes p2) [] = Ok ns0 /\ asc n_id ns0 /\
    (forall m, In m ns0 -> exists n, In n (nodes p2) /\ is_io n = true /\ same_node n m) /\
    (forall n, In n (nodes p2) -> is_io n = true -> exists m, In m ns0 /\ same_node n m) /\
    (forall m, In m ns0 -> ntr_ok (mean_traits p1 p2) m).
Proof.
  intros H.
  destruct (io_nodes_of_ok p1 (mean_traits p1 p2) (proj1 (mh_traits _ _ H))
                           (mean_traits_length _ _ (mh_traits _ _ H)) (nodes p2) [])
    as [ns0 [E [Hs [_ [Hsrc Hall]]]]].
  - apply asc_nil.
  - apply (po_tn _ _ (mh_p2 _ _ H)).
  - apply (mh_io _ _ H).
  - intros n _ [].
  - exists ns0. split; [exact E|]. split; [exact Hs|]. split; [|split; [exact Hall|]].
    + intros m Hm. destruct (Hsrc m Hm) as [[]|[_ Hx]]. exact Hx.
    + intros m Hm. destruct (Hsrc m Hm) as [[]|[Hx _]]. exact Hx.
Qed.

(* everything the loop invariant gives about a child [c] of p1 (fitness f1) and p2 (fitness f2) *)
Definition mp_post (avg : bool) (p1 p2 : genome) (f1 f2 : float) (c : genome) : Prop :=
  let p1b := p1_better f1 f2 p1 p2 in
  modules c = [] /\
  traits c = mean_traits p1 p2 /\
  asc g_innov (genes c) /\
  (forall y, In y (genes c) -> prov p1 p2 (p1b = true) (p1b = false) (Wmp avg) y) /\
  (forall x1 x2, In x1 (genes p1) -> In x2 (genes p2) -> g_innov x1 = g_innov x2 ->
                 exists y, In y (genes c) /\ kin x1 y /\ Wmp avg x1 x2 y) /\
  asc n_id (nodes c) /\
  (forall id, In id (map n_id (nodes c)) <-> In id (io_ids p2) \/ touched (genes c) id) /\
  (forall n, In n (nodes c) -> nsrc p1 p2 n) /\
  (forall m, In m (nodes p2) -> is_io m = true -> exists n, In n (nodes c) /\ same_node m n) /\
  (p1b = true -> forall x, In x (genes p1) -> exists y, In y (genes c) /\ kin x y) /\
  (p1b = false -> forall x, In x (genes p2) -> exists y, In y (genes c) /\ kin x y) /\
  link_inj (genes c) /\
  (forall y, In y (genes c) -> gtr_ok (traits c) y) /\
  (forall n, In n (nodes c) -> ntr_ok (traits c) n).

Theorem mp_ok avg p1 p2 id f1 f2 s :
  mate_hyps p1 p2 -> okT (mp_post avg p1 p2 f1 f2) (mate_multipoint_gen avg p1 p2 id f1 f2 s).
Proof.
  intros H. unfold mate_multipoint_gen.
  pose proof (mh_traits _ _ H) as [Hne HF].
  rewrite (Forall2_length' _ _ _ HF), Nat.eqb_refl. cbn [negb].
  rewrite (po_mod _ _ (mh_p1 _ _ H)), (po_mod _ _ (mh_p2 _ _ H)).
  rewrite (mate_traits_ok _ _ HF). fold (mean_traits p1 p2).
  obindn (fun v => v = mean_traits p1 p2) nt Hnt; [apply okT_lift; eauto|]. subst nt.
  destruct (hyps_io p1 p2 H) as [ns0 [E0 [Hs0 [Hsrc0 [Hall0 Htr0]]]]]. rewrite E0.
  obindn (fun v => v = ns0) ns0' Hns0; [apply okT_lift; eauto|]. subst ns0'.
  pose proof (hyps_ctx p1 p2 H) as Hctx.
  obindn (mpQ avg p1 p2 (mean_traits p1 p2) ns0 (p1_better f1 f2 p1 p2) [] (genes p1) (genes p2)) r Hr.
  { apply mp_loop;
      [exact Hctx | lia | apply (po_asc _ _ (mh_p1 _ _ H)) | apply (po_asc _ _ (mh_p2 _ _ H))
       | apply incl_refl | apply incl_refl | now apply ninv_start | intros ? [] | apply asc_nil
       | intros ? ? [] | intros ? ? []]. }
  apply okT_ret. destruct Hr as [R1 [R2 [R3 [_ [R5 [R6 R7]]]]]].
  destruct (nodes_post (mean_traits p1 p2) p1 p2 p2 ns0 (fst r) (snd r)) as [N1 [N2 [N3 N4]]]; auto.
  { intros n Hn. now right. }
  unfold mp_post. cbn [modules traits genes nodes].
  pose proof (ni_linj _ _ _ _ _ _ R1) as X1. pose proof (ni_gtr _ _ _ _ _ _ R1) as X2.
  pose proof (ni_ntr _ _ _ _ _ _ R1) as X3. auto 20.
Qed.

(* ------------------------------------------------------------------------------------------ *)
(* 10. mateSinglePoint: the loop                                                                *)
(* ------------------------------------------------------------------------------------------ *)
Definition Wsp (x1 x2 y : gene) : Prop :=
  (g_w y = g_w x1 \/ g_w y = g_w x2 \/ g_w y = fmean (g_w x1) (g_w x2)) /\ en_weak x1 x2 y.

Section SP.
  Variables (g a b : genome) (nt : list trait) (ns0 : list node) (cross : Z).
  Hypothesis Hctx : ctx_ok g nt a b.

  Notation NINV := (ninv nt a b ns0).
  Notation PROV := (allprov a b True True Wsp).
  Notation STEPQ := (stepQ nt a b ns0 True True Wsp).

  Definition spQ (gs l1 l2 : list gene) (acc' : list node * list gene) : Prop :=
    NINV (fst acc') (snd acc') /\ PROV (snd acc') /\ asc g_innov (snd acc') /\ incl gs (snd acc') /\
    (forall x1 x2, hd_error l1 = Some x1 -> hd_error l2 = Some x2 -> g_innov x1 = g_innov x2 ->
                   exists y, In y (snd acc') /\ kin x1 y /\ Wsp x1 x2 y).

  Lemma sp_choice counter x1 x2 (s : st) :
    In x1 (genes a) -> In x2 (genes b) -> g_innov x1 = g_innov x2 ->
    okT (fun c => chosen_for g a b x1 c /\ forall y, built c false y -> Wsp x1 x2 y)
        ((if Z.ltb counter cross then lift (resolve a x1)
          else if Z.gtb counter cross then lift (resolve b x2)
          else avg_gene a b x1 x2) s).
  Proof.
    intros H1 H2 E. destruct (Z.ltb counter cross); [|destruct (Z.gtb counter cross)].
    - destruct (resolve_A g nt a b Hctx x1 H1) as [c [-> [Hc Ec]]]. apply okT_lift.
      exists c. split; [reflexivity|]. split; [exact Hc|].
      intros y [_ [_ [_ [Yw [_ Ye]]]]]. rewrite Ec in Yw, Ye. split; [now left|]. intros E1 _. congruence.
    - destruct (resolve_B g nt a b Hctx x2 H2) as [c [-> [Hc Ec]]]. apply okT_lift.
      exists c. split; [reflexivity|]. split; [now apply (chosen_for_swap g nt a b Hctx x1 x2 c)|].
      intros y [_ [_ [_ [Yw [_ Ye]]]]]. rewrite Ec in Yw, Ye. split; [right; now left|]. intros _ E2. congruence.
    - eapply okT_mono; [now apply (okT_avg_gene g nt a b)|].
      intros c [Hc [Hw [He _]]]. split; [exact Hc|].
      intros y [_ [_ [_ [Yw [_ Ye]]]]]. split; [right; right; congruence|].
      intros E1 E2. rewrite Ye. now apply He.
  Qed.

  Lemma sp_loop : forall fuel l1 l2 counter cs ns gs s,
      (length l1 + length l2 < fuel)%nat ->
      asc g_innov l1 -> asc g_innov l2 -> incl l1 (genes a) -> incl l2 (genes b) ->
      NINV ns gs -> PROV gs -> asc g_innov gs -> (counter < cross -> lo gs l1) -> lo gs l2 ->
      okT (spQ gs l1 l2) (singlepoint_loop fuel g a b nt cross l1 l2 counter cs (ns, gs) s).
  Proof.
    induction fuel as [|fuel IH]; intros l1 l2 counter cs ns gs s Hf A1 A2 I1 I2 Hinv Hp Ha L1 L2; [lia|].
    cbn [singlepoint_loop]. destruct l2 as [|x2 l2'].
    { apply okT_ret. unfold spQ. cbn [fst snd].
      refine (conj Hinv (conj Hp (conj Ha (conj (incl_refl _) _)))). intros ? ? _ [=]. }
    assert (Hx2 : In x2 (genes b)) by (apply I2; now left).
    pose proof (asc_head _ _ _ A2) as T2. pose proof (asc_tail _ _ _ A2) as A2'.
    assert (I2' : incl l2' (genes b)) by (intros z Hz; apply I2; now right).
    assert (B2 : below gs (g_innov x2)) by (intros y Hy; apply L2; [exact Hy|now left]).
    destruct l1 as [|x1 l1'].
    - (* the shorter parent is exhausted *)
      destruct (addB g nt a b ns0 True True Wsp Hctx ns gs x2 I Hx2 Hinv Hp Ha B2) as [c [acc' [Er [Ea [HQ _]]]]].
      obindn (fun v => v = c) c' Hc'; [apply okT_lift; eauto|]. subst c'.
      obindn (fun v => v = acc') acc'' Hacc; [apply okT_lift; eauto|]. subst acc''.
      destruct acc' as [ns' gs']. destruct HQ as [Q1 [Q2 [Q3 [Q4 Q5]]]]. cbn [fst snd] in *.
      eapply okT_mono.
      + apply IH; auto.
        * cbn [length] in *. lia.
        * intros _ ? ? _ [].
        * eapply lo_le; [exact Q5|exact T2].
      + intros r [R1 [R2 [R3 [R4 R5]]]]. refine (conj R1 (conj R2 (conj R3 (conj _ _)))).
        * eapply incl_tran; eassumption.
        * intros ? ? [=].
    - assert (Hx1 : In x1 (genes a)) by (apply I1; now left).
      pose proof (asc_head _ _ _ A1) as T1. pose proof (asc_tail _ _ _ A1) as A1'.
      assert (I1' : incl l1' (genes a)) by (intros z Hz; apply I1; now right).
      destruct (Z.eqb_spec (g_innov x1) (g_innov x2)) as [E|NE].
      + (* matching genes *)
        obindn (fun c => chosen_for g a b x1 c /\ forall y, built c false y -> Wsp x1 x2 y) c Hc;
          [now apply sp_choice|].
        destruct Hc as [Hc HW].
        assert (B1 : below gs (g_innov x1)) by (rewrite E; exact B2).
        destruct (add_matched g nt a b ns0 True True Wsp Hctx ns gs x1 x2 c false Hx1 Hx2 E Hc HW Hinv Hp Ha B1)
          as [acc' [Ea [HQ [y0 [Hy0 [K0 W0]]]]]].
        obindn (fun v => v = acc') acc'' Hacc; [apply okT_lift; eauto|]. subst acc''.
        destruct acc' as [ns' gs']. destruct HQ as [Q1 [Q2 [Q3 [Q4 Q5]]]]. cbn [fst snd] in *.
        eapply okT_mono.
        * apply IH; auto.
          -- cbn [length] in *. lia.
          -- intros _. eapply lo_le; [exact Q5|exact T1].
          -- eapply lo_le; [exact Q5|]. intros z Hz. rewrite E. now apply T2.
        * intros r [R1 [R2 [R3 [R4 R5]]]]. refine (conj R1 (conj R2 (conj R3 (conj _ _)))).
          -- eapply incl_tran; eassumption.
          -- intros u1 u2 [= <-] [= <-] _. exists y0. split; [now apply R4|auto].
      + destruct (Z.ltb_spec (g_innov x1) (g_innov x2)) as [LT|GE].
        * destruct (Z.ltb_spec counter cross) as [CL|CG].
          -- (* before the crossing point: disjoint gene of the shorter parent *)
             assert (B1 : below gs (g_innov x1)) by (intros y Hy; apply (L1 CL); [exact Hy|now left]).
             destruct (addA g nt a b ns0 True True Wsp Hctx ns gs x1 I Hx1 Hinv Hp Ha B1) as [c [acc' [Er [Ea [HQ _]]]]].
             obindn (fun v => v = c) c' Hc'; [apply okT_lift; eauto|]. subst c'.
             obindn (fun v => v = acc') acc'' Hacc; [apply okT_lift; eauto|]. subst acc''.
             destruct acc' as [ns' gs']. destruct HQ as [Q1 [Q2 [Q3 [Q4 Q5]]]]. cbn [fst snd] in *.
             eapply okT_mono.
             ++ apply IH; auto.
                ** cbn [length] in *. lia.
                ** intros _. eapply lo_le; [exact Q5|exact T1].
                ** eapply lo_le; [exact Q5|]. intros z [<-|Hz]; [lia|]. specialize (T2 _ Hz). lia.
             ++ intros r [R1 [R2 [R3 [R4 R5]]]]. refine (conj R1 (conj R2 (conj R3 (conj _ _)))).
                ** eapply incl_tran; eassumption.
                ** intros u1 u2 [= <-] [= <-] EU. lia.
          -- (* after the crossing point: the longer parent's gene *)
             destruct (addB g nt a b ns0 True True Wsp Hctx ns gs x2 I Hx2 Hinv Hp Ha B2) as [c [acc' [Er [Ea [HQ _]]]]].
             obindn (fun v => v = c) c' Hc'; [apply okT_lift; eauto|]. subst c'.
             obindn (fun v => v = acc') acc'' Hacc; [apply okT_lift; eauto|]. subst acc''.
             destruct acc' as [ns' gs']. destruct HQ as [Q1 [Q2 [Q3 [Q4 Q5]]]]. cbn [fst snd] in *.
             eapply okT_mono.
             ++ apply IH; auto.
                ** cbn [length] in *. lia.
                ** intros CL. lia.
                ** eapply lo_le; [exact Q5|exact T2].
             ++ intros r [R1 [R2 [R3 [R4 R5]]]]. refine (conj R1 (conj R2 (conj R3 (conj _ _)))).
                ** eapply incl_tran; eassumption.
                ** intros u1 u2 [= <-] [= <-] EU. lia.
        * (* the longer parent's gene is skipped; with nothing chosen yet the loop ends *)
          destruct cs.
          -- eapply okT_mono.
             ++ apply (IH (x1 :: l1') l2' counter true ns gs s); auto.
                ** cbn [length] in *. lia.
                ** intros y z Hy Hz. apply L2; [exact Hy|now right].
             ++ intros r [R1 [R2 [R3 [R4 R5]]]]. refine (conj R1 (conj R2 (conj R3 (conj R4 _)))).
                intros u1 u2 [= <-] [= <-] EU. lia.
          -- apply okT_ret. unfold spQ. cbn [fst snd].
             refine (conj Hinv (conj Hp (conj Ha (conj (incl_refl _) _)))).
             intros u1 u2 [= <-] [= <-] EU. lia.
  Qed.

  (* unrelated first genes: shorter parent's first number larger, nothing chosen yet: the loop ends at once *)
  Lemma sp_loop_stops fuel x1 l1 x2 l2 counter acc (s : st) :
    g_innov x2 < g_innov x1 ->
    singlepoint_loop (S fuel) g a b nt cross (x1 :: l1) (x2 :: l2) counter false acc s = Ok (acc, s).
  Proof.
    intros H. cbn [singlepoint_loop].
    destruct (Z.eqb_spec (g_innov x1) (g_innov x2)) as [?|_]; [lia|].
    destruct (Z.ltb_spec (g_innov x1) (g_innov x2)) as [?|_]; [lia|]. reflexivity.
  Qed.
End SP.

(* ------------------------------------------------------------------------------------------ *)
(* 11. mateSinglePoint: the whole function                                                      *)
(* ------------------------------------------------------------------------------------------ *)
Lemma okT_and {A S} (P Q : A -> Prop) (r : res (A * S)) : okT P r -> okT Q r -> okT (fun a => P a /\ Q a) r.
Proof. unfold okT. destruct r as [[a s']| | | | |]; auto. Qed.

Definition sp_w (x1 x2 y : gene) : Prop :=
  g_w y = g_w x1 \/ g_w y = g_w x2 \/ g_w y = fmean (g_w x1) (g_w x2) \/ g_w y = fmean (g_w x2) (g_w x1).

Definition sp_gene (p1 p2 : genome) (y : gene) : Prop :=
  (exists x, (In x (genes p1) \/ In x (genes p2)) /\ copyof x y) \/
  (exists x1 x2, In x1 (genes p1) /\ In x2 (genes p2) /\ g_innov x1 = g_innov x2 /\
                 kin x1 y /\ sp_w x1 x2 y /\ en_weak x1 x2 y).

Lemma prov_sp_gene p1 p2 y : prov p1 p2 True True Wsp y -> sp_gene p1 p2 y.
Proof.
  intros [[x [Hx [_ Hc]]]|[[x [Hx [_ Hc]]]|[x1 [x2 [H1 [H2 [E [K [Hw He]]]]]]]]].
  - left. exists x. auto.
  - left. exists x. auto.
  - right. exists x1, x2. repeat split; auto; try apply K. unfold sp_w. tauto.
Qed.

Lemma kin_swap p1 p2 x1 x2 y :
  consistent p1 p2 -> In x1 (genes p1) -> In x2 (genes p2) -> g_innov x1 = g_innov x2 -> kin x2 y -> kin x1 y.
Proof.
  intros Hc H1 H2 E [K1 [K2 [K3 K4]]]. specialize (Hc x1 x2 H1 H2 E). apply same_link_iff in Hc.
  destruct Hc as [S1 [S2 S3]]. unfold kin. repeat split; congruence.
Qed.

Lemma prov_sp_gene_swap p1 p2 y : consistent p1 p2 -> prov p2 p1 True True Wsp y -> sp_gene p1 p2 y.
Proof.
  intros Hcons [[x [Hx [_ Hc]]]|[[x [Hx [_ Hc]]]|[x2 [x1 [H2 [H1 [E [K [Hw He]]]]]]]]].
  - left. exists x. auto.
  - left. exists x. auto.
  - right. exists x1, x2. symmetry in E. split; [exact H1|]. split; [exact H2|]. split; [exact E|].
    split; [eapply kin_swap; eassumption|]. split.
    + unfold sp_w. tauto.
    + intros E1 E2. now apply He.
Qed.

Lemma nsrc_swap A B n : nsrc A B n -> nsrc B A n.
Proof. intros [m [[H|H] E]]; exists m; (split; [|exact E]); [now right|now left]. Qed.

Definition shorter (p1 p2 : genome) : genome :=
  if Nat.ltb (length (genes p1)) (length (genes p2)) then p1 else p2.
Definition longer (p1 p2 : genome) : genome :=
  if Nat.ltb (length (genes p1)) (length (genes p2)) then p2 else p1.

Definition sp_post (p1 p2 : genome) (c : genome) : Prop :=
  modules c = [] /\
  traits c = mean_traits p1 p2 /\
  asc g_innov (genes c) /\
  (forall y, In y (genes c) -> sp_gene p1 p2 y) /\
  asc n_id (nodes c) /\
  (forall id, In id (map n_id (nodes c)) <-> In id (io_ids p2) \/ touched (genes c) id) /\
  (forall n, In n (nodes c) -> nsrc p1 p2 n) /\
  (forall m, In m (nodes p2) -> is_io m = true -> exists n, In n (nodes c) /\ same_node m n) /\
  (forall x1 x2, hd_error (genes p1) = Some x1 -> hd_error (genes p2) = Some x2 -> g_innov x1 = g_innov x2 ->
                 exists y, In y (genes c) /\ kin x1 y /\ sp_w x1 x2 y /\ en_weak x1 x2 y) /\
  (forall x1 x2, hd_error (genes (shorter p1 p2)) = Some x1 -> hd_error (genes (longer p1 p2)) = Some x2 ->
                 g_innov x2 < g_innov x1 -> genes c = []) /\
  link_inj (genes c) /\
  (forall y, In y (genes c) -> gtr_ok (traits c) y) /\
  (forall n, In n (nodes c) -> ntr_ok (traits c) n).

Lemma hyps_ctx_swap p1 p2 : mate_hyps p1 p2 -> ctx_ok p1 (mean_traits p1 p2) p2 p1.
Proof.
  intros H. constructor.
  - apply (mh_traits _ _ H).
  - apply mean_traits_length, (mh_traits _ _ H).
  - apply (mh_p2 _ _ H).
  - apply (mh_p1 _ _ H).
  - apply consistent_sym, (mh_cons _ _ H).
Qed.

Lemma zlen_pos {A} (l : list A) : l <> [] -> 0 < zlen l.
Proof. destruct l; [congruence|]. intros _. unfold zlen. cbn [length]. lia. Qed.

Theorem sp_ok p1 p2 id s :
  mate_hyps p1 p2 -> genes p1 <> [] -> genes p2 <> [] ->
  okT (sp_post p1 p2) (mate_singlepoint p1 p2 id s).
Proof.
  intros H G1 G2. unfold mate_singlepoint.
  pose proof (mh_traits _ _ H) as [Hne HF].
  rewrite (Forall2_length' _ _ _ HF), Nat.eqb_refl. cbn [negb].
  rewrite (po_mod _ _ (mh_p1 _ _ H)), (po_mod _ _ (mh_p2 _ _ H)).
  rewrite (mate_traits_ok _ _ HF). fold (mean_traits p1 p2).
  obindn (fun v => v = mean_traits p1 p2) nt Hnt; [apply okT_lift; eauto|]. subst nt.
  destruct (hyps_io p1 p2 H) as [ns0 [E0 [Hs0 [Hsrc0 [Hall0 Htr0]]]]]. rewrite E0.
  obindn (fun v => v = ns0) ns0' Hns0; [apply okT_lift; eauto|]. subst ns0'.
  pose proof (po_asc _ _ (mh_p1 _ _ H)) as A1. pose proof (po_asc _ _ (mh_p2 _ _ H)) as A2.
  unfold sp_post, shorter, longer.
  destruct (Nat.ltb (length (genes p1)) (length (genes p2))) eqn:Elt.
  - pose proof (hyps_ctx p1 p2 H) as Hctx.
    obindn (fun _ : Z => True) cross Hcross; [apply okT_intn, zlen_pos, G1|].
    obindn (fun r => spQ p1 p2 (mean_traits p1 p2) ns0 [] (genes p1) (genes p2) r /\
                     (forall x1 x2, hd_error (genes p1) = Some x1 -> hd_error (genes p2) = Some x2 ->
                                    g_innov x2 < g_innov x1 -> r = (ns0, []))) r Hr.
    { match goal with |- okT _ (singlepoint_loop ?f _ _ _ _ _ _ _ _ _ _ ?s) =>
        assert (HL : okT (spQ p1 p2 (mean_traits p1 p2) ns0 [] (genes p1) (genes p2))
                         (singlepoint_loop f p1 p1 p2 (mean_traits p1 p2) cross (genes p1) (genes p2) 0 false (ns0, []) s))
      end.
      { apply sp_loop;
          [exact Hctx | lia | exact A1 | exact A2 | apply incl_refl | apply incl_refl | now apply ninv_start
           | intros ? [] | apply asc_nil | intros _ ? ? [] | intros ? ? []]. }
      apply okT_and; [exact HL|].
      destruct (genes p1) as [|x1 l1] eqn:EG1; [congruence|]. destruct (genes p2) as [|x2 l2] eqn:EG2; [congruence|].
      destruct (Z.ltb_spec (g_innov x2) (g_innov x1)) as [LT|GE].
      + rewrite sp_loop_stops by exact LT. intros u1 u2 _ _ _. reflexivity.
      + eapply okT_mono; [exact HL|]. intros r _ u1 u2 [= <-] [= <-] LT. lia. }
    apply okT_ret. destruct Hr as [[R1 [R2 [R3 [_ R5]]]] R6].
    destruct (nodes_post (mean_traits p1 p2) p1 p2 p2 ns0 (fst r) (snd r)) as [N1 [N2 [N3 N4]]]; auto.
    { intros n Hn. now right. }
    cbn [modules traits genes nodes].
    split; [reflexivity|]. split; [reflexivity|]. split; [exact R3|].
    split; [intros y Hy; apply prov_sp_gene, R2, Hy|].
    split; [exact N1|]. split; [exact N2|]. split; [exact N3|]. split; [exact N4|]. split.
    + intros x1 x2 E1 E2 E. destruct (R5 x1 x2 E1 E2 E) as [y [Hy [K [Hw He]]]].
      exists y. split; [exact Hy|]. split; [exact K|]. split; [unfold sp_w; tauto|exact He].
    + split; [intros x1 x2 E1 E2 LT; now rewrite (R6 x1 x2 E1 E2 LT)|].
      split; [apply (ni_linj _ _ _ _ _ _ R1)|]. split; [apply (ni_gtr _ _ _ _ _ _ R1)|apply (ni_ntr _ _ _ _ _ _ R1)].
  - pose proof (hyps_ctx_swap p1 p2 H) as Hctx.
    obindn (fun _ : Z => True) cross Hcross; [apply okT_intn, zlen_pos, G2|].
    obindn (fun r => spQ p2 p1 (mean_traits p1 p2) ns0 [] (genes p2) (genes p1) r /\
                     (forall x1 x2, hd_error (genes p2) = Some x1 -> hd_error (genes p1) = Some x2 ->
                                    g_innov x2 < g_innov x1 -> r = (ns0, []))) r Hr.
    { match goal with |- okT _ (singlepoint_loop ?f _ _ _ _ _ _ _ _ _ _ ?s) =>
        assert (HL : okT (spQ p2 p1 (mean_traits p1 p2) ns0 [] (genes p2) (genes p1))
                         (singlepoint_loop f p1 p2 p1 (mean_traits p1 p2) cross (genes p2) (genes p1) 0 false (ns0, []) s))
      end.
      { apply sp_loop;
          [exact Hctx | lia | exact A2 | exact A1 | apply incl_refl | apply incl_refl | now apply ninv_start
           | intros ? [] | apply asc_nil | intros _ ? ? [] | intros ? ? []]. }
      apply okT_and; [exact HL|].
      destruct (genes p1) as [|x1 l1] eqn:EG1; [congruence|]. destruct (genes p2) as [|x2 l2] eqn:EG2; [congruence|].
      destruct (Z.ltb_spec (g_innov x1) (g_innov x2)) as [LT|GE].
      + rewrite sp_loop_stops by exact LT. intros u1 u2 _ _ _. reflexivity.
      + eapply okT_mono; [exact HL|]. intros r _ u1 u2 [= <-] [= <-] LT. lia. }
    apply okT_ret. destruct Hr as [[R1 [R2 [R3 [_ R5]]]] R6].
    destruct (nodes_post (mean_traits p1 p2) p2 p1 p2 ns0 (fst r) (snd r)) as [N1 [N2 [N3 N4]]]; auto.
    { intros n Hn. now left. }
    cbn [modules traits genes nodes].
    split; [reflexivity|]. split; [reflexivity|]. split; [exact R3|].
    split; [intros y Hy; apply prov_sp_gene_swap; [apply (mh_cons _ _ H)|apply R2, Hy]|].
    split; [exact N1|]. split; [exact N2|]. split; [intros n Hn; apply nsrc_swap, N3, Hn|]. split; [exact N4|]. split.
    + intros x1 x2 E1 E2 E. symmetry in E. destruct (R5 x2 x1 E2 E1 E) as [y [Hy [K [Hw He]]]].
      exists y. split; [exact Hy|]. symmetry in E. split.
      * apply (kin_swap p1 p2 x1 x2 y (mh_cons _ _ H)); auto.
        -- destruct (genes p1); [discriminate|]. injection E1 as <-. now left.
        -- destruct (genes p2); [discriminate|]. injection E2 as <-. now left.
      * split; [unfold sp_w; tauto|]. intros F1 F2. now apply He.
    + split; [intros x1 x2 E1 E2 LT; now rewrite (R6 x1 x2 E1 E2 LT)|].
      split; [apply (ni_linj _ _ _ _ _ _ R1)|]. split; [apply (ni_gtr _ _ _ _ _ _ R1)|apply (ni_ntr _ _ _ _ _ _ R1)].
Qed.

(* ------------------------------------------------------------------------------------------ *)
(* 12. the clauses of C04, in the form props/C04.v states them                                  *)
(* ------------------------------------------------------------------------------------------ *)
Definition innovs (p : genome) : list Z := map g_innov (genes p).

Lemma in_innovs p x : In x (genes p) -> In (g_innov x) (innovs p).
Proof. intros H. unfold innovs. now apply in_map. Qed.

Lemma mp_gene_cases avg p1 p2 f1 f2 c :
  mate_hyps p1 p2 -> mp_post avg p1 p2 f1 f2 c -> forall y, In y (genes c) ->
  (exists x, In x (genes p1) /\ ~ In (g_innov y) (innovs p2) /\ p1_better f1 f2 p1 p2 = true /\ copyof x y) \/
  (exists x, In x (genes p2) /\ ~ In (g_innov y) (innovs p1) /\ p1_better f1 f2 p1 p2 = false /\ copyof x y) \/
  (exists x1 x2, In x1 (genes p1) /\ In x2 (genes p2) /\ g_innov x1 = g_innov x2 /\ kin x1 y /\ Wmp avg x1 x2 y).
Proof.
  intros H [_ [_ [Hasc [Hprov [Hmat _]]]]] y Hy. cbv zeta in *.
  destruct (Hprov y Hy) as [[x [Hx [Hb Hc]]]|[[x [Hx [Hb Hc]]]|Hm]]; [| |right; right; exact Hm].
  - destruct (in_dec Z.eq_dec (g_innov y) (innovs p2)) as [Hin|Hnin].
    + right. right. unfold innovs in Hin. apply in_map_iff in Hin. destruct Hin as [x2 [E2 H2]].
      destruct Hc as [[K1 K] _]. assert (E : g_innov x = g_innov x2) by congruence.
      destruct (Hmat x x2 Hx H2 E) as [y' [Hy' [K' W']]].
      assert (y' = y) by (apply (asc_inj g_innov (genes c)); auto; destruct K'; congruence). subst y'.
      exists x, x2. auto.
    + left. exists x. auto.
  - destruct (in_dec Z.eq_dec (g_innov y) (innovs p1)) as [Hin|Hnin].
    + right. right. unfold innovs in Hin. apply in_map_iff in Hin. destruct Hin as [x1 [E1 H1]].
      destruct Hc as [[K1 K] _]. assert (E : g_innov x1 = g_innov x) by congruence.
      destruct (Hmat x1 x H1 Hx E) as [y' [Hy' [K' W']]].
      assert (y' = y) by (apply (asc_inj g_innov (genes c)); auto; destruct K'; congruence). subst y'.
      exists x1, x. auto.
    + right. left. exists x. auto.
Qed.

Section Clauses.
  Variables (avg : bool) (p1 p2 : genome) (id : Z) (f1 f2 : float) (s s' : st) (c : genome).
  Hypothesis H : mate_hyps p1 p2.
  Hypothesis Hrun : mate_multipoint_gen avg p1 p2 id f1 f2 s = Ok (c, s').

  Lemma mp_post_holds : mp_post avg p1 p2 f1 f2 c.
  Proof. exact (okT_Ok _ _ _ _ (mp_ok avg p1 p2 id f1 f2 s H) Hrun). Qed.

  Let A1 := po_asc _ _ (mh_p1 _ _ H).
  Let A2 := po_asc _ _ (mh_p2 _ _ H).

  (* (a) *)
  Lemma mp_gene_origin :
    StronglySorted Z.lt (map g_innov (genes c)) /\
    (forall y, In y (genes c) ->
       exists x, (In x (genes p1) \/ In x (genes p2)) /\
                 g_innov y = g_innov x /\ g_in y = g_in x /\ g_out y = g_out x /\ g_rec y = g_rec x) /\
    (forall y y', In y (genes c) -> In y' (genes c) -> same_link y y' = true -> y = y').
  Proof.
    pose proof mp_post_holds as P. pose proof (mp_gene_cases _ _ _ _ _ _ H P) as HC.
    destruct P as [_ [_ [Hasc [_ [_ [_ [_ [_ [_ [_ [_ [Hlinj _]]]]]]]]]]]].
    split; [exact Hasc|]. split.
    - intros y Hy. destruct (HC y Hy) as [[x [Hx [_ [_ [K _]]]]]|[[x [Hx [_ [_ [K _]]]]]|[x1 [x2 [Hx [_ [_ [K _]]]]]]]];
        [exists x|exists x|exists x1]; (split; [auto|exact K]).
    - intros y y' Hy Hy' Hl. apply (asc_inj g_innov (genes c)); auto.
  Qed.

  (* (b) *)
  Lemma mp_weight_plain :
    avg = false ->
    forall y, In y (genes c) ->
      exists x, (In x (genes p1) \/ In x (genes p2)) /\ g_innov x = g_innov y /\ g_w y = g_w x.
  Proof.
    intros Eavg y Hy. pose proof (mp_gene_cases _ _ _ _ _ _ H mp_post_holds y Hy) as HC. subst avg.
    destruct HC as [[x [Hx [_ [_ [[K _] [Hw _]]]]]]|[[x [Hx [_ [_ [[K _] [Hw _]]]]]]|[x1 [x2 [Hx1 [Hx2 [E [[K _] [[Hw|Hw] _]]]]]]]]].
    - exists x. auto.
    - exists x. auto.
    - exists x1. auto.
    - exists x2. repeat split; auto. congruence.
  Qed.

  Lemma mp_weight_avg :
    avg = true ->
    forall y, In y (genes c) ->
      (forall x1 x2, In x1 (genes p1) -> In x2 (genes p2) -> g_innov x1 = g_innov y -> g_innov x2 = g_innov y ->
                     g_w y = PrimFloat.div (PrimFloat.add (g_w x1) (g_w x2)) 2%float) /\
      (~ In (g_innov y) (innovs p1) \/ ~ In (g_innov y) (innovs p2) ->
       exists x, (In x (genes p1) \/ In x (genes p2)) /\ g_innov x = g_innov y /\ g_w y = g_w x).
  Proof.
    intros Eavg y Hy. pose proof (mp_gene_cases _ _ _ _ _ _ H mp_post_holds y Hy) as HC. subst avg.
    destruct HC as [[x [Hx [Hn [_ [[K _] [Hw _]]]]]]|[[x [Hx [Hn [_ [[K _] [Hw _]]]]]]|[x1 [x2 [Hx1 [Hx2 [E [[K _] [Hw _]]]]]]]]].
    - split; [|intros _; exists x; auto]. intros u1 u2 _ U2 _ E2. exfalso. apply Hn. rewrite <- E2. now apply in_innovs.
    - split; [|intros _; exists x; auto]. intros u1 u2 U1 _ E1 _. exfalso. apply Hn. rewrite <- E1. now apply in_innovs.
    - split.
      + intros u1 u2 U1 U2 E1 E2.
        assert (u1 = x1) by (apply (asc_inj g_innov (genes p1)); auto; congruence).
        assert (u2 = x2) by (apply (asc_inj g_innov (genes p2)); auto; congruence). subst. exact Hw.
      + intros [Hn|Hn]; exfalso; apply Hn; [rewrite K|rewrite K, E]; now apply in_innovs.
  Qed.

  (* (c) *)
  Lemma mp_fitter_only :
    forall y, In y (genes c) ->
      (In (g_innov y) (innovs p1) -> ~ In (g_innov y) (innovs p2) -> p1_better f1 f2 p1 p2 = true) /\
      (In (g_innov y) (innovs p2) -> ~ In (g_innov y) (innovs p1) -> p1_better f1 f2 p1 p2 = false).
  Proof.
    intros y Hy. pose proof (mp_gene_cases _ _ _ _ _ _ H mp_post_holds y Hy) as HC.
    destruct HC as [[x [Hx [Hn [Hb [[K _] _]]]]]|[[x [Hx [Hn [Hb [[K _] _]]]]]|[x1 [x2 [Hx1 [Hx2 [E [[K _] _]]]]]]]].
    - split; [auto|]. intros _ Hn1. exfalso. apply Hn1. rewrite K. now apply in_innovs.
    - split; [|auto]. intros _ Hn2. exfalso. apply Hn2. rewrite K. now apply in_innovs.
    - split; intros _ Hn; exfalso; apply Hn; [rewrite K, E|rewrite K]; now apply in_innovs.
  Qed.

  (* (d), and: every gene of the fitter parent is inherited *)
  Lemma mp_matching_inherited :
    forall x1 x2, In x1 (genes p1) -> In x2 (genes p2) -> g_innov x1 = g_innov x2 ->
      exists y, In y (genes c) /\ g_innov y = g_innov x1 /\ g_in y = g_in x1 /\ g_out y = g_out x1 /\ g_rec y = g_rec x1.
  Proof.
    intros x1 x2 H1 H2 E. destruct mp_post_holds as [_ [_ [_ [_ [Hmat _]]]]].
    destruct (Hmat x1 x2 H1 H2 E) as [y [Hy [K _]]]. exists y. split; [exact Hy|exact K].
  Qed.

  Lemma mp_fitter_all :
    (p1_better f1 f2 p1 p2 = true ->
     forall x, In x (genes p1) ->
       exists y, In y (genes c) /\ g_innov y = g_innov x /\ g_in y = g_in x /\ g_out y = g_out x /\ g_rec y = g_rec x) /\
    (p1_better f1 f2 p1 p2 = false ->
     forall x, In x (genes p2) ->
       exists y, In y (genes c) /\ g_innov y = g_innov x /\ g_in y = g_in x /\ g_out y = g_out x /\ g_rec y = g_rec x).
  Proof.
    destruct mp_post_holds as [_ [_ [_ [_ [_ [_ [_ [_ [_ [F1 [F2 _]]]]]]]]]]]. cbv zeta in *.
    split; intros Hb x Hx; [destruct (F1 Hb x Hx) as [y [Hy K]]|destruct (F2 Hb x Hx) as [y [Hy K]]];
      exists y; (split; [exact Hy|exact K]).
  Qed.

  (* (e) *)
  Lemma mp_enabled :
    forall y, In y (genes c) ->
      ((forall x, In x (genes p1) \/ In x (genes p2) -> g_innov x = g_innov y -> g_en x = true) -> g_en y = true) /\
      (forall x, In x (genes p1) -> g_innov x = g_innov y -> ~ In (g_innov y) (innovs p2) -> g_en x = false -> g_en y = false) /\
      (forall x, In x (genes p2) -> g_innov x = g_innov y -> ~ In (g_innov y) (innovs p1) -> g_en x = false -> g_en y = false) /\
      (forall x, In x (genes p1) -> g_innov x = g_innov y -> g_en x = false -> g_en y = false).
  Proof.
    intros y Hy. pose proof (mp_gene_cases _ _ _ _ _ _ H mp_post_holds y Hy) as HC.
    destruct HC as [[x [Hx [Hn [_ [[K _] [_ He]]]]]]|[[x [Hx [Hn [_ [[K _] [_ He]]]]]]|[x1 [x2 [Hx1 [Hx2 [E [[K _] [_ [He1 He2]]]]]]]]]].
    - assert (U : forall u, In u (genes p1) -> g_innov u = g_innov y -> u = x).
      { intros u Hu Eu. apply (asc_inj g_innov (genes p1)); auto; congruence. }
      split; [intros Hall; rewrite He; apply Hall; auto|]. split; [|split].
      + intros u Hu Eu _ Ed. rewrite (U u Hu Eu) in Ed. congruence.
      + intros u Hu Eu _ _. exfalso. apply Hn. rewrite <- Eu. now apply in_innovs.
      + intros u Hu Eu Ed. rewrite (U u Hu Eu) in Ed. congruence.
    - assert (U : forall u, In u (genes p2) -> g_innov u = g_innov y -> u = x).
      { intros u Hu Eu. apply (asc_inj g_innov (genes p2)); auto; congruence. }
      split; [intros Hall; rewrite He; apply Hall; auto|]. split; [|split].
      + intros u Hu Eu _ _. exfalso. apply Hn. rewrite <- Eu. now apply in_innovs.
      + intros u Hu Eu _ Ed. rewrite (U u Hu Eu) in Ed. congruence.
      + intros u Hu Eu _. exfalso. apply Hn. rewrite <- Eu. now apply in_innovs.
    - assert (U : forall u, In u (genes p1) -> g_innov u = g_innov y -> u = x1).
      { intros u Hu Eu. apply (asc_inj g_innov (genes p1)); auto; congruence. }
      split; [intros Hall; apply He1; apply Hall; auto; congruence|]. split; [|split].
      + intros u Hu Eu Hn _. exfalso. apply Hn. rewrite K, E. now apply in_innovs.
      + intros u Hu Eu Hn _. exfalso. apply Hn. rewrite K. now apply in_innovs.
      + intros u Hu Eu Ed. rewrite (U u Hu Eu) in Ed. now apply He2.
  Qed.

  (* (f) *)
  Lemma mp_nodes :
    StronglySorted Z.lt (map n_id (nodes c)) /\
    (forall i, In i (map n_id (nodes c)) <->
               In i (io_ids p2) \/ exists y, In y (genes c) /\ (i = g_in y \/ i = g_out y)) /\
    (forall n, In n (nodes c) ->
       exists m, (In m (nodes p1) \/ In m (nodes p2)) /\ n_id m = n_id n /\ n_type m = n_type n /\ n_act m = n_act n) /\
    (forall m, In m (nodes p2) -> is_io m = true ->
       exists n, In n (nodes c) /\ n_id m = n_id n /\ n_type m = n_type n /\ n_act m = n_act n).
  Proof.
    destruct mp_post_holds as [_ [_ [_ [_ [_ [N1 [N2 [N3 [N4 _]]]]]]]]]. auto.
  Qed.

  (* (g) *)
  Lemma mp_traits :
    traits c = map (fun ab => trait_mean (fst ab) (snd ab)) (combine (traits p1) (traits p2)) /\
    length (traits c) = length (traits p1) /\
    map t_id (traits c) = map t_id (traits p1) /\
    modules c = [].
  Proof.
    destruct mp_post_holds as [M [T _]]. split; [exact T|]. split; [|split; [|exact M]].
    - rewrite T. apply (mean_traits_length _ _ (mh_traits _ _ H)).
    - rewrite T. destruct (mh_traits _ _ H) as [_ HF]. unfold mean_traits. clear - HF.
      induction HF as [|a b ta tb _ _ IH]; [reflexivity|]. cbn. now rewrite IH.
  Qed.
End Clauses.

Lemma mp_total avg p1 p2 id f1 f2 s :
  mate_hyps p1 p2 ->
  (exists c s', mate_multipoint_gen avg p1 p2 id f1 f2 s = Ok (c, s')) \/
  mate_multipoint_gen avg p1 p2 id f1 f2 s = OutOfTape.
Proof. intros H. exact (okT_total _ _ (mp_ok avg p1 p2 id f1 f2 s H)). Qed.

Section ClausesSP.
  Variables (p1 p2 : genome) (id : Z) (s s' : st) (c : genome).
  Hypothesis H : mate_hyps p1 p2.
  Hypothesis G1 : genes p1 <> [].
  Hypothesis G2 : genes p2 <> [].
  Hypothesis Hrun : mate_singlepoint p1 p2 id s = Ok (c, s').

  Lemma sp_post_holds : sp_post p1 p2 c.
  Proof. exact (okT_Ok _ _ _ _ (sp_ok p1 p2 id s H G1 G2) Hrun). Qed.

  Let A1 := po_asc _ _ (mh_p1 _ _ H).
  Let A2 := po_asc _ _ (mh_p2 _ _ H).

  Lemma sp_gene_origin :
    StronglySorted Z.lt (map g_innov (genes c)) /\
    (forall y, In y (genes c) ->
       exists x, (In x (genes p1) \/ In x (genes p2)) /\
                 g_innov y = g_innov x /\ g_in y = g_in x /\ g_out y = g_out x /\ g_rec y = g_rec x) /\
    (forall y y', In y (genes c) -> In y' (genes c) -> same_link y y' = true -> y = y').
  Proof.
    destruct sp_post_holds as [_ [_ [Hasc [HG [_ [_ [_ [_ [_ [_ [Hlinj _]]]]]]]]]]].
    split; [exact Hasc|]. split.
    - intros y Hy. destruct (HG y Hy) as [[x [Hx [K _]]]|[x1 [x2 [Hx [_ [_ [K _]]]]]]]; [exists x|exists x1]; auto.
    - intros y y' Hy Hy' Hl. apply (asc_inj g_innov (genes c)); auto.
  Qed.

  Lemma sp_weight :
    forall y, In y (genes c) ->
      (exists x, (In x (genes p1) \/ In x (genes p2)) /\ g_innov x = g_innov y /\ g_w y = g_w x) \/
      (exists x1 x2, In x1 (genes p1) /\ In x2 (genes p2) /\ g_innov x1 = g_innov y /\ g_innov x2 = g_innov y /\
                     (g_w y = PrimFloat.div (PrimFloat.add (g_w x1) (g_w x2)) 2%float \/
                      g_w y = PrimFloat.div (PrimFloat.add (g_w x2) (g_w x1)) 2%float)).
  Proof.
    intros y Hy. destruct sp_post_holds as [_ [_ [_ [HG _]]]].
    destruct (HG y Hy) as [[x [Hx [[K _] [Hw _]]]]|[x1 [x2 [Hx1 [Hx2 [E [[K _] [[Hw|[Hw|[Hw|Hw]]] _]]]]]]]].
    - left. exists x. auto.
    - left. exists x1. auto.
    - left. exists x2. repeat split; auto. congruence.
    - right. exists x1, x2. repeat split; auto; congruence.
    - right. exists x1, x2. repeat split; auto; congruence.
  Qed.

  Lemma sp_enabled :
    forall y, In y (genes c) ->
      ((forall x, In x (genes p1) \/ In x (genes p2) -> g_innov x = g_innov y -> g_en x = true) -> g_en y = true) /\
      (forall x, In x (genes p1) -> g_innov x = g_innov y -> ~ In (g_innov y) (innovs p2) -> g_en x = false -> g_en y = false) /\
      (forall x, In x (genes p2) -> g_innov x = g_innov y -> ~ In (g_innov y) (innovs p1) -> g_en x = false -> g_en y = false).
  Proof.
    intros y Hy. destruct sp_post_holds as [_ [_ [_ [HG _]]]].
    destruct (HG y Hy) as [[x [Hx [[K _] [_ He]]]]|[x1 [x2 [Hx1 [Hx2 [E [[K _] [_ He]]]]]]]].
    - split; [intros Hall; rewrite He; apply Hall; auto|]. split.
      + intros u Hu Eu Hn Ed. destruct Hx as [Hx|Hx].
        * assert (u = x) by (apply (asc_inj g_innov (genes p1)); auto; congruence). congruence.
        * exfalso. apply Hn. rewrite K. now apply in_innovs.
      + intros u Hu Eu Hn Ed. destruct Hx as [Hx|Hx].
        * exfalso. apply Hn. rewrite K. now apply in_innovs.
        * assert (u = x) by (apply (asc_inj g_innov (genes p2)); auto; congruence). congruence.
    - split; [intros Hall; apply He; apply Hall; auto; congruence|]. split.
      + intros u Hu Eu Hn _. exfalso. apply Hn. rewrite K, E. now apply in_innovs.
      + intros u Hu Eu Hn _. exfalso. apply Hn. rewrite K. now apply in_innovs.
  Qed.

  Lemma sp_nodes :
    StronglySorted Z.lt (map n_id (nodes c)) /\
    (forall i, In i (map n_id (nodes c)) <->
               In i (io_ids p2) \/ exists y, In y (genes c) /\ (i = g_in y \/ i = g_out y)) /\
    (forall n, In n (nodes c) ->
       exists m, (In m (nodes p1) \/ In m (nodes p2)) /\ n_id m = n_id n /\ n_type m = n_type n /\ n_act m = n_act n) /\
    (forall m, In m (nodes p2) -> is_io m = true ->
       exists n, In n (nodes c) /\ n_id m = n_id n /\ n_type m = n_type n /\ n_act m = n_act n).
  Proof.
    destruct sp_post_holds as [_ [_ [_ [_ [N1 [N2 [N3 [N4 _]]]]]]]]. auto.
  Qed.

  Lemma sp_traits :
    traits c = map (fun ab => trait_mean (fst ab) (snd ab)) (combine (traits p1) (traits p2)) /\
    length (traits c) = length (traits p1) /\
    map t_id (traits c) = map t_id (traits p1) /\
    modules c = [].
  Proof.
    destruct sp_post_holds as [M [T _]]. split; [exact T|]. split; [|split; [|exact M]].
    - rewrite T. apply (mean_traits_length _ _ (mh_traits _ _ H)).
    - rewrite T. destruct (mh_traits _ _ H) as [_ HF]. unfold mean_traits. clear - HF.
      induction HF as [|a b ta tb _ _ IH]; [reflexivity|]. cbn. now rewrite IH.
  Qed.

  (* common ancestry: both parents start with the same innovation number: the child is not empty *)
  Lemma sp_nonempty :
    forall x1 x2, hd_error (genes p1) = Some x1 -> hd_error (genes p2) = Some x2 -> g_innov x1 = g_innov x2 ->
      exists y, In y (genes c) /\ g_innov y = g_innov x1 /\ g_in y = g_in x1 /\ g_out y = g_out x1 /\ g_rec y = g_rec x1.
  Proof.
    intros x1 x2 E1 E2 E. destruct sp_post_holds as [_ [_ [_ [_ [_ [_ [_ [_ [HN _]]]]]]]]].
    destruct (HN x1 x2 E1 E2 E) as [y [Hy [K _]]]. exists y. split; [exact Hy|exact K].
  Qed.

  (* unrelated parents: the first number of the parent with fewer genes (the second parent on a tie) is the
     larger one: the loop ends at once and the child has no genes *)
  Lemma sp_unrelated_empty :
    forall x1 x2,
      hd_error (genes (if Nat.ltb (length (genes p1)) (length (genes p2)) then p1 else p2)) = Some x1 ->
      hd_error (genes (if Nat.ltb (length (genes p1)) (length (genes p2)) then p2 else p1)) = Some x2 ->
      g_innov x2 < g_innov x1 -> genes c = [].
  Proof.
    destruct sp_post_holds as [_ [_ [_ [_ [_ [_ [_ [_ [_ [HU _]]]]]]]]]]. exact HU.
  Qed.
End ClausesSP.

Lemma sp_total p1 p2 id s :
  mate_hyps p1 p2 -> genes p1 <> [] -> genes p2 <> [] ->
  (exists c s', mate_singlepoint p1 p2 id s = Ok (c, s')) \/ mate_singlepoint p1 p2 id s = OutOfTape.
Proof. intros H G1 G2. exact (okT_total _ _ (sp_ok p1 p2 id s H G1 G2)). Qed.
