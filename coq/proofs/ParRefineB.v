(* C16, Part III: which functions of the reproduction path are thread-local.

   Every monadic function of model/Mutate.v, Mate.v and Population.v that [reproduce_species] can
   reach, EXCEPT connect_one / mutate_connect_sensors / mutate_add_link / mutate_add_node and their
   callers (mutate_baby, one_baby, reproduce_loop, reproduce_species), is environment independent:
   it reads and advances only the random tape.  Proofs by the closure tactic (induction for loops). *)
From NeatModel Require Import Res F64 GoRand Genome Options Insert Dup Mutate Mate Population ParRefineA.

Lemma ei_mapM {A B} (f : A -> @M st B) (l : list A) :
  (forall x, env_indep (f x)) -> env_indep (mapM f l).
Proof. intros Hf. induction l as [|x l IH]; cbn [mapM]; ei_auto. Qed.
#[export] Hint Resolve ei_mapM : ei.

(* ---------- model/Mutate.v: the non-structural mutators ---------- *)
Lemma ei_mutate_param power prob p : env_indep (mutate_param power prob p).
Proof. unfold mutate_param. ei_auto. Qed.
#[export] Hint Resolve ei_mutate_param : ei.

Lemma ei_trait_mutate power prob t : env_indep (trait_mutate power prob t).
Proof. unfold trait_mutate. ei_auto. Qed.
#[export] Hint Resolve ei_trait_mutate : ei.

Lemma ei_mutate_random_trait o g : env_indep (mutate_random_trait o g).
Proof. unfold mutate_random_trait. ei_auto. Qed.

Lemma ei_mutate_link_trait_loop times : forall g, env_indep (mutate_link_trait_loop times g).
Proof. induction times as [|n IH]; intros g; cbn [mutate_link_trait_loop]; ei_auto. Qed.
#[export] Hint Resolve ei_mutate_link_trait_loop : ei.
Lemma ei_mutate_link_trait times g : env_indep (mutate_link_trait times g).
Proof. unfold mutate_link_trait. ei_auto. Qed.

Lemma ei_mutate_node_trait_loop times : forall g, env_indep (mutate_node_trait_loop times g).
Proof. induction times as [|n IH]; intros g; cbn [mutate_node_trait_loop]; ei_auto. Qed.
#[export] Hint Resolve ei_mutate_node_trait_loop : ei.
Lemma ei_mutate_node_trait times g : env_indep (mutate_node_trait times g).
Proof. unfold mutate_node_trait. ei_auto. Qed.

Lemma ei_mutate_one_weight power rate gaussian severe count end_part num x :
  env_indep (mutate_one_weight power rate gaussian severe count end_part num x).
Proof. unfold mutate_one_weight. ei_auto. Qed.
#[export] Hint Resolve ei_mutate_one_weight : ei.

Lemma ei_mutate_weights_loop power rate gaussian severe count end_part l :
  forall num, env_indep (mutate_weights_loop power rate gaussian severe count end_part num l).
Proof. induction l as [|x l IH]; intros num; cbn [mutate_weights_loop]; ei_auto. Qed.
#[export] Hint Resolve ei_mutate_weights_loop : ei.

Lemma ei_mutate_link_weights power rate gaussian g : env_indep (mutate_link_weights power rate gaussian g).
Proof. unfold mutate_link_weights. ei_auto. Qed.

Lemma ei_toggle_loop times : forall g, env_indep (toggle_loop times g).
Proof. induction times as [|n IH]; intros g; cbn [toggle_loop]; ei_auto. Qed.
#[export] Hint Resolve ei_toggle_loop : ei.
Lemma ei_mutate_toggle_enable times g : env_indep (mutate_toggle_enable times g).
Proof. unfold mutate_toggle_enable. ei_auto. Qed.

Lemma ei_mutate_gene_reenable g : env_indep (mutate_gene_reenable g).
Proof. unfold mutate_gene_reenable. ei_auto. Qed.
#[export] Hint Resolve ei_mutate_random_trait ei_mutate_link_trait ei_mutate_node_trait ei_mutate_link_weights
  ei_mutate_toggle_enable ei_mutate_gene_reenable : ei.

Lemma ei_step_if p op gb : (forall g, env_indep (op g)) -> env_indep (step_if p op gb).
Proof. intros Hop. unfold step_if. ei_auto. Qed.
#[export] Hint Resolve ei_step_if : ei.

Lemma ei_mutate_all_nonstructural o g : env_indep (mutate_all_nonstructural o g).
Proof. unfold mutate_all_nonstructural. ei_auto. Qed.
#[export] Hint Resolve ei_mutate_all_nonstructural : ei.

(* ---------- the thread-local parts of the structural mutators ---------- *)
Lemma ei_pick_distinct fuel n first : env_indep (pick_distinct fuel n first).
Proof. induction fuel as [|f IH]; cbn [pick_distinct]; ei_auto. Qed.
#[export] Hint Resolve ei_pick_distinct : ei.

(* reading the length of the remaining tape (the fuel of the redraw loop) is thread-local too *)
Lemma ei_pick_pair do_recur n first : env_indep (pick_pair do_recur n first).
Proof. unfold pick_pair. ei_auto. Qed.
#[export] Hint Resolve ei_pick_pair : ei.

Lemma ei_add_link_tries tries do_recur g n first :
  forall last_pair, env_indep (add_link_tries tries do_recur g n first last_pair).
Proof. induction tries as [|k IH]; intros last_pair; cbn [add_link_tries]; ei_auto. Qed.
#[export] Hint Resolve ei_add_link_tries : ei.

Lemma ei_pick_gene_small g l : forall i, env_indep (pick_gene_small g l i).
Proof. induction l as [|x l IH]; intros i; cbn [pick_gene_small]; ei_auto. Qed.
Lemma ei_pick_gene_big tries g : env_indep (pick_gene_big tries g).
Proof. induction tries as [|k IH]; cbn [pick_gene_big]; ei_auto. Qed.
#[export] Hint Resolve ei_pick_gene_small ei_pick_gene_big : ei.

(* ---------- model/Mate.v: the three crossovers ---------- *)
Lemma ei_disable_draw x1 x2 : env_indep (disable_draw x1 x2).
Proof. unfold disable_draw. ei_auto. Qed.
Lemma ei_pick_gt_half {A} (a b : A) : env_indep (pick_gt_half a b).
Proof. unfold pick_gt_half. ei_auto. Qed.
#[export] Hint Resolve ei_disable_draw ei_pick_gt_half : ei.

Lemma ei_avg_gene g og x1 x2 : env_indep (avg_gene g og x1 x2).
Proof. unfold avg_gene. ei_auto. Qed.
#[export] Hint Resolve ei_avg_gene : ei.

Lemma ei_multipoint_loop fuel avg g og nt p1b :
  forall l1 l2 acc, env_indep (multipoint_loop fuel avg g og nt p1b l1 l2 acc).
Proof. induction fuel as [|f IH]; intros l1 l2 acc; cbn [multipoint_loop]; ei_auto. Qed.
#[export] Hint Resolve ei_multipoint_loop : ei.

Lemma ei_mate_multipoint_gen avg g og id f1 f2 : env_indep (mate_multipoint_gen avg g og id f1 f2).
Proof. unfold mate_multipoint_gen. ei_auto. Qed.
Lemma ei_mate_multipoint g og id f1 f2 : env_indep (mate_multipoint g og id f1 f2).
Proof. apply ei_mate_multipoint_gen. Qed.
Lemma ei_mate_multipoint_avg g og id f1 f2 : env_indep (mate_multipoint_avg g og id f1 f2).
Proof. apply ei_mate_multipoint_gen. Qed.

Lemma ei_singlepoint_loop fuel g a b nt cross :
  forall l1 l2 counter chosen_set acc,
    env_indep (singlepoint_loop fuel g a b nt cross l1 l2 counter chosen_set acc).
Proof. induction fuel as [|f IH]; intros l1 l2 counter chosen_set acc; cbn [singlepoint_loop]; ei_auto. Qed.
#[export] Hint Resolve ei_singlepoint_loop : ei.

Lemma ei_mate_singlepoint g og id : env_indep (mate_singlepoint g og id).
Proof. unfold mate_singlepoint. ei_auto. Qed.
#[export] Hint Resolve ei_mate_multipoint_gen ei_mate_multipoint ei_mate_multipoint_avg ei_mate_singlepoint : ei.

(* ---------- model/Population.v: the parent draws ---------- *)
Lemma ei_pick_other_species tries self sorted : forall cur, env_indep (pick_other_species tries self sorted cur).
Proof. induction tries as [|k IH]; intros cur; cbn [pick_other_species]; ei_auto. Qed.
#[export] Hint Resolve ei_pick_other_species : ei.
