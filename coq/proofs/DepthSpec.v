(* Specification and proofs for model/Depth.v (C14).

   Declarative notions: [path] (a walk along links, counted in links), [tpath] (a walk on which
   every node after the first is a neuron: the walk the activation can really take, because a
   sensor ignores its incoming links), [acyclic], and [bpath] (a SIMPLE walk, given with the set
   of nodes it must avoid).  None of them mentions [visited], [depth] or fuel. *)
From NeatModel Require Import Res Depth.
From Coq Require Import Lia.

Definition ids (g : net) : list Z := map fst (n_nodes g).

Definition sensorb (g : net) (id : Z) : bool :=
  match type_of (n_nodes g) id with Some t => is_sensor t | None => false end.

(* path g u v k: there are k links leading from u to v *)
Inductive path (g : net) : Z -> Z -> nat -> Prop :=
| path_refl : forall v, path g v v 0
| path_snoc : forall u w v k, path g u w k -> In (w, v) (n_links g) -> path g u v (S k).

(* the same, and every node after the first one is not a sensor *)
Inductive tpath (g : net) : Z -> Z -> nat -> Prop :=
| tpath_refl : forall v, tpath g v v 0
| tpath_snoc : forall u w v k,
    tpath g u w k -> In (w, v) (n_links g) -> sensorb g v = false -> tpath g u v (S k).

Definition acyclic (g : net) : Prop := forall v k, path g v v k -> k = O.

(* bpath g A v u k: a path of k links from u to v that visits no node twice and no node of A,
   every node after u being a neuron; built from its end v backwards *)
Inductive bpath (g : net) : list Z -> Z -> Z -> nat -> Prop :=
| bp_end : forall A v, ~ In v A -> bpath g A v v 0
| bp_step : forall A v w u k,
    ~ In v A -> sensorb g v = false -> In (w, v) (n_links g) ->
    bpath g (v :: A) w u k -> bpath g A v u (S k).

(* every id a query may have to look up names a node *)
Definition closed (g : net) : Prop :=
  (forall u v, In (u, v) (n_links g) -> In u (ids g)) /\
  (forall o, In o (n_outputs g) -> In o (ids g)).

(* the test of the shortcut in MaxActivationDepthWithCap fails: some node is neither input nor output *)
Definition has_hidden (g : net) : Prop :=
  len (n_nodes g) <> len (n_inputs g) + len (n_outputs g).

(* ---------- basic facts ---------- *)

Lemma mem_In : forall x l, mem x l = true <-> In x l.
Proof.
  induction l as [|y l IH]; simpl.
  - split; [discriminate | tauto].
  - rewrite orb_true_iff, IH, Z.eqb_eq. split; intros [H|H]; auto.
Qed.

Lemma mem_false : forall x l, mem x l = false <-> ~ In x l.
Proof.
  intros x l. rewrite <- mem_In. destruct (mem x l); split; intros H; congruence.
Qed.

Lemma type_of_In : forall ns id t, type_of ns id = Some t -> In id (map fst ns).
Proof.
  induction ns as [|[i t0] ns IH]; simpl; intros id t H; [discriminate|].
  destruct (i =? id) eqn:E.
  - left. now apply Z.eqb_eq.
  - right. eauto.
Qed.

Lemma In_type_of : forall ns id, In id (map fst ns) -> exists t, type_of ns id = Some t.
Proof.
  induction ns as [|[i t0] ns IH]; simpl; intros id H; [tauto|].
  destruct (i =? id) eqn:E; [eauto|].
  destruct H as [H|H]; [apply Z.eqb_neq in E; congruence | auto].
Qed.

Lemma unmark_notin : forall id vis, ~ In id vis -> unmark id vis = vis.
Proof.
  induction vis as [|x vis IH]; simpl; intros H; [reflexivity|].
  destruct (x =? id) eqn:E.
  - apply Z.eqb_eq in E. tauto.
  - simpl. f_equal. tauto.
Qed.

Lemma unmark_cons : forall id vis, ~ In id vis -> unmark id (id :: vis) = vis.
Proof.
  intros id vis H. unfold unmark. simpl. rewrite Z.eqb_refl. simpl. now apply unmark_notin.
Qed.

Lemma In_incoming : forall g w v, In w (incoming g v) <-> In (w, v) (n_links g).
Proof.
  intros g w v. unfold incoming. rewrite in_map_iff. split.
  - intros [[a b] [E H]]. simpl in E. subst a. apply filter_In in H. destruct H as [H1 H2].
    simpl in H2. apply Z.eqb_eq in H2. now subst b.
  - intros H. exists (w, v). split; [reflexivity|]. apply filter_In. split; [assumption|].
    simpl. apply Z.eqb_refl.
Qed.

Lemma max_step_ge : forall mx c : Z, mx <= (if mx <? c then c else mx) /\ c <= (if mx <? c then c else mx).
Proof. intros mx c. destruct (mx <? c) eqn:E; [apply Z.ltb_lt in E | apply Z.ltb_ge in E]; lia. Qed.

Lemma max_step_cases : forall mx c : Z,
    (if mx <? c then c else mx) = mx \/ (if mx <? c then c else mx) = c.
Proof. intros mx c. destruct (mx <? c); auto. Qed.

Lemma bpath_head : forall g A v u k, bpath g A v u k -> ~ In v A.
Proof. intros g A v u k H. destruct H; assumption. Qed.

(* ---------- marks: a query leaves the visited set as it found it ---------- *)

Definition rec_marks (rec : Z -> list Z -> res dres) : Prop :=
  forall i v c e v', ~ In i v -> rec i v = Ok (c, e, v') -> v' = v.

Lemma loop_marks : forall rec self, rec_marks rec ->
  forall ins mx vis c e vis',
    depth_loop rec self ins mx vis = Ok (c, e, vis') -> vis' = unmark self vis.
Proof.
  intros rec self Hrec. induction ins as [|i ins IH]; simpl; intros mx vis c e vis' H.
  - now inversion H.
  - destruct (mem i vis) eqn:Em; [eauto|].
    apply mem_false in Em.
    destruct (rec i vis) as [[[c0 e0] v0]| | | | |] eqn:Er; try discriminate.
    pose proof (Hrec _ _ _ _ _ Em Er) as Hv. subst v0.
    destruct e0; [eauto | now inversion H | now inversion H].
Qed.

Lemma depth_marks_core : forall g cap f id d vis c e vis',
    ~ In id vis -> depth g f cap id d vis = Ok (c, e, vis') -> vis' = vis.
Proof.
  intros g cap. induction f as [|f IH]; simpl; intros id d vis c e vis' Hn H; [discriminate|].
  destruct ((0 <? cap) && (cap <? d)); [now inversion H|].
  destruct (type_of (n_nodes g) id) as [t|]; [|discriminate].
  destruct (is_sensor t); [now inversion H|].
  apply loop_marks in H.
  - rewrite H. now apply unmark_cons.
  - intros i v c0 e0 v' Hi Hr. eapply IH; eauto.
Qed.

Lemma out_loop_marks : forall rec, rec_marks rec ->
  forall outs mx vis c e vis',
    (forall o, In o outs -> ~ In o vis) ->
    out_loop rec outs mx vis = Ok (c, e, vis') -> vis' = vis.
Proof.
  intros rec Hrec. induction outs as [|o outs IH]; simpl; intros mx vis c e vis' Hd H.
  - now inversion H.
  - destruct (rec o vis) as [[[c0 e0] v0]| | | | |] eqn:Er; try discriminate.
    assert (v0 = vis) by (eapply Hrec; eauto). subst v0.
    destruct e0; [eapply IH; eauto | now inversion H | now inversion H].
Qed.

Lemma max_depth_cap_marks : forall g cap vis r e vis',
    (forall o, In o (n_outputs g) -> ~ In o vis) ->
    max_depth_cap g cap vis = Ok (r, e, vis') -> vis' = vis.
Proof.
  intros g cap vis r e vis' Hd H. unfold max_depth_cap in H.
  destruct (0 <? n_control g); [now inversion H|].
  destruct ((len (n_nodes g) =? len (n_inputs g) + len (n_outputs g)) && (n_control g =? 0));
    [now inversion H|].
  eapply out_loop_marks; eauto.
  intros i v c0 e0 v' Hi Hr. eapply depth_marks_core; eauto.
Qed.

Lemma max_depth_marks : forall g vis r e vis',
    (forall o, In o (n_outputs g) -> ~ In o vis) ->
    max_depth g vis = Ok (r, e, vis') -> vis' = vis.
Proof.
  intros g vis r e vis' Hd H. unfold max_depth in H.
  destruct (n_control g =? 0); [|discriminate]. eapply max_depth_cap_marks; eauto.
Qed.

Lemma run_query_marks : forall g q r e vis',
    run_query g q [] = Ok (r, e, vis') -> vis' = [].
Proof.
  intros g [k c] r e vis' H. unfold run_query in H. simpl in H.
  destruct k; [eapply max_depth_marks | eapply max_depth_cap_marks | eapply max_depth_cap_marks];
    eauto; intros o _ [].
Qed.

(* ---------- termination: fuel |nodes|+1 never runs out, on any graph ---------- *)

(* the only non-Ok outcomes are OutOfFuel and BadOracle *)
Definition fine (r : res dres) : Prop :=
  match r with Ok _ => True | BadOracle => True | _ => False end.

Lemma loop_fine : forall rec self, rec_marks rec ->
  forall vis0, (forall i, ~ In i vis0 -> fine (rec i vis0)) ->
  forall ins mx, fine (depth_loop rec self ins mx vis0).
Proof.
  intros rec self Hm vis0 Hf. induction ins as [|i ins IH]; simpl; intros mx; [exact I|].
  destruct (mem i vis0) eqn:Em; [apply IH|].
  apply mem_false in Em. pose proof (Hf i Em) as Hfi.
  destruct (rec i vis0) as [[[c0 e0] v0]| | | | |] eqn:Er; simpl in Hfi; try tauto.
  assert (v0 = vis0) by (eapply Hm; eauto). subst v0.
  destruct e0; [apply IH | exact I | exact I].
Qed.

Lemma depth_fine : forall g cap f id d vis,
    NoDup vis -> incl vis (ids g) -> ~ In id vis ->
    (length (ids g) < f + length vis)%nat ->
    fine (depth g f cap id d vis).
Proof.
  intros g cap. induction f as [|f IH]; intros id d vis Hnd Hincl Hn Hlen.
  - exfalso. pose proof (NoDup_incl_length Hnd Hincl). lia.
  - simpl. destruct ((0 <? cap) && (cap <? d)); [exact I|].
    destruct (type_of (n_nodes g) id) as [t|] eqn:Et; [|exact I].
    destruct (is_sensor t); [exact I|].
    apply type_of_In in Et.
    apply loop_fine.
    + intros i v c0 e0 v' Hi Hr. eapply depth_marks_core; eauto.
    + intros i Hi. apply IH.
      * constructor; assumption.
      * intros x [Hx|Hx]; [subst x; exact Et | auto].
      * assumption.
      * simpl. lia.
Qed.

Lemma out_loop_fine : forall rec, rec_marks rec ->
  forall vis0, (forall o, fine (rec o vis0)) ->
  forall outs mx, (forall o, In o outs -> ~ In o vis0) -> fine (out_loop rec outs mx vis0).
Proof.
  intros rec Hm vis0 Hf. induction outs as [|o outs IH]; simpl; intros mx Hd; [exact I|].
  pose proof (Hf o) as Hfo.
  destruct (rec o vis0) as [[[c0 e0] v0]| | | | |] eqn:Er; simpl in Hfo; try tauto.
  assert (v0 = vis0) by (eapply Hm; eauto). subst v0.
  destruct e0; [apply IH; auto | exact I | exact I].
Qed.

Lemma rec_marks_depth : forall g f cap d, rec_marks (fun o v => depth g f cap o d v).
Proof. intros g f cap d i v c e v' Hi Hr. eapply depth_marks_core; eauto. Qed.

Lemma max_depth_cap_fine : forall g cap, fine (max_depth_cap g cap []).
Proof.
  intros g cap. unfold max_depth_cap.
  destruct (0 <? n_control g); [exact I|].
  destruct ((len (n_nodes g) =? len (n_inputs g) + len (n_outputs g)) && (n_control g =? 0)); [exact I|].
  apply out_loop_fine.
  - apply rec_marks_depth.
  - intros o. apply depth_fine.
    + constructor.
    + intros x [].
    + intros [].
    + unfold depth_fuel, ids. rewrite map_length. simpl. lia.
  - intros o _ [].
Qed.

Lemma max_depth_cap_no_oof : forall g cap, max_depth_cap g cap [] <> OutOfFuel.
Proof. intros g cap H. pose proof (max_depth_cap_fine g cap) as F. rewrite H in F. exact F. Qed.

(* with every id resolvable the result is a value *)
Lemma loop_ok : forall rec self, rec_marks rec ->
  forall vis0 ins mx,
    (forall i, In i ins -> ~ In i vis0 -> exists x, rec i vis0 = Ok x) ->
    exists x, depth_loop rec self ins mx vis0 = Ok x.
Proof.
  intros rec self Hm vis0. induction ins as [|i ins IH]; simpl; intros mx Hf; [eauto|].
  destruct (mem i vis0) eqn:Em; [apply IH; auto|].
  apply mem_false in Em. destruct (Hf i (or_introl eq_refl) Em) as [[[c0 e0] v0] Er]. rewrite Er.
  assert (v0 = vis0) by (eapply Hm; eauto). subst v0.
  destruct e0; [apply IH; auto | eauto | eauto].
Qed.

Lemma depth_ok : forall g cap, (forall u v, In (u, v) (n_links g) -> In u (ids g)) ->
  forall f id d vis,
    NoDup vis -> incl vis (ids g) -> ~ In id vis -> In id (ids g) ->
    (length (ids g) < f + length vis)%nat ->
    exists x, depth g f cap id d vis = Ok x.
Proof.
  intros g cap Hcl. induction f as [|f IH]; intros id d vis Hnd Hincl Hn Hid Hlen.
  - exfalso. pose proof (NoDup_incl_length Hnd Hincl). lia.
  - simpl. destruct ((0 <? cap) && (cap <? d)); [eauto|].
    destruct (In_type_of _ _ Hid) as [t Et]. rewrite Et.
    destruct (is_sensor t); [eauto|].
    apply loop_ok.
    + apply rec_marks_depth.
    + intros i Hin Hi. apply In_incoming in Hin. apply IH; auto.
      * constructor; assumption.
      * intros x [Hx|Hx]; [subst x; exact Hid | auto].
      * eapply Hcl; eauto.
      * simpl. lia.
Qed.

Lemma out_loop_ok : forall rec, rec_marks rec ->
  forall vis0 outs mx,
    (forall o, In o outs -> ~ In o vis0) ->
    (forall o, In o outs -> exists x, rec o vis0 = Ok x) ->
    exists x, out_loop rec outs mx vis0 = Ok x.
Proof.
  intros rec Hm vis0. induction outs as [|o outs IH]; simpl; intros mx Hd Hf; [eauto|].
  destruct (Hf o (or_introl eq_refl)) as [[[c0 e0] v0] Er]. rewrite Er.
  assert (v0 = vis0) by (eapply Hm; eauto). subst v0.
  destruct e0; [apply IH; auto | eauto | eauto].
Qed.

Lemma max_depth_cap_ok : forall g cap, closed g -> exists x, max_depth_cap g cap [] = Ok x.
Proof.
  intros g cap [Hl Ho]. unfold max_depth_cap.
  destruct (0 <? n_control g); [eauto|].
  destruct ((len (n_nodes g) =? len (n_inputs g) + len (n_outputs g)) && (n_control g =? 0)); [eauto|].
  apply out_loop_ok.
  - apply rec_marks_depth.
  - intros o _ [].
  - intros o Hin. apply depth_ok; auto.
    + constructor.
    + intros x [].
    + unfold depth_fuel, ids. rewrite map_length. simpl. lia.
Qed.

(* ---------- what an uncapped query computes: the longest simple path, on any graph ---------- *)

Definition nocap (cap : Z) : Prop := cap <= 0.

Lemma nocap_test : forall cap d, nocap cap -> (0 <? cap) && (cap <? d) = false.
Proof. intros cap d H. unfold nocap in H. destruct (0 <? cap) eqn:E; [apply Z.ltb_lt in E; lia | reflexivity]. Qed.

(* what a recursive call (at depth d1, marks vis0) is required to return *)
Definition rec_sem (g : net) (rec : Z -> list Z -> res dres) (d1 : Z) (vis0 : list Z) : Prop :=
  forall i c e v', ~ In i vis0 -> rec i vis0 = Ok (c, e, v') ->
    e = NoErr /\
    (forall u k, bpath g vis0 i u k -> d1 + Z.of_nat k <= c) /\
    (exists u k, bpath g vis0 i u k /\ c = d1 + Z.of_nat k).

Lemma loop_sem : forall g rec self d1 vis0, rec_marks rec -> rec_sem g rec d1 vis0 ->
  forall ins mx r e vis',
    depth_loop rec self ins mx vis0 = Ok (r, e, vis') ->
    e = NoErr /\ mx <= r /\
    (forall i u k, In i ins -> bpath g vis0 i u k -> d1 + Z.of_nat k <= r) /\
    (r = mx \/ exists i u k, In i ins /\ bpath g vis0 i u k /\ r = d1 + Z.of_nat k).
Proof.
  intros g rec self d1 vis0 Hm Hs. induction ins as [|i ins IH]; simpl; intros mx r e vis' H.
  - inversion H; subst. split; [reflexivity|]. split; [lia|]. split; [intros i u k []|now left].
  - destruct (mem i vis0) eqn:Em.
    + apply mem_In in Em. destruct (IH _ _ _ _ H) as (He & Hge & Hub & Hat).
      repeat split; auto.
      * intros j u k [Hj|Hj] Hp; [subst j; apply bpath_head in Hp; tauto | eauto].
      * destruct Hat as [Hat|(j & u & k & Hj & Hp & Hr)]; [auto|]. right. exists j, u, k. auto.
    + apply mem_false in Em.
      destruct (rec i vis0) as [[[c0 e0] v0]| | | | |] eqn:Er; try discriminate.
      destruct (Hs _ _ _ _ Em Er) as (He0 & Hub0 & (u0 & k0 & Hp0 & Hc0)). subst e0.
      assert (v0 = vis0) by (eapply Hm; eauto). subst v0.
      destruct (IH _ _ _ _ H) as (He & Hge & Hub & Hat).
      pose proof (max_step_ge mx c0) as [Hg1 Hg2].
      repeat split; auto; try lia.
      * intros j u k [Hj|Hj] Hp; [subst j; specialize (Hub0 _ _ Hp); lia | eauto].
      * destruct Hat as [Hat|(j & u & k & Hj & Hp & Hr)].
        -- destruct (max_step_cases mx c0) as [Hc|Hc]; rewrite Hc in Hat; [auto|].
           right. exists i, u0, k0. split; [auto|]. split; [assumption|lia].
        -- right. exists j, u, k. auto.
Qed.

Lemma depth_sem : forall g cap, nocap cap -> forall f d vis0, rec_sem g (fun i v => depth g f cap i d v) d vis0.
Proof.
  intros g cap Hc. induction f as [|f IH]; intros d vis id r e vis' Hn H; simpl in H; [discriminate|].
  rewrite (nocap_test _ _ Hc) in H.
  destruct (type_of (n_nodes g) id) as [t|] eqn:Et; [|discriminate].
  destruct (is_sensor t) eqn:Es.
  - inversion H; subst. split; [reflexivity|]. split.
    + intros u k Hp. inversion Hp; subst; [lia|].
      unfold sensorb in *. rewrite Et in *. congruence.
    + exists id, O. split; [now constructor | lia].
  - apply loop_sem with (g := g) (d1 := d + 1) in H.
    + destruct H as (He & Hge & Hub & Hat). split; [assumption|]. split.
      * intros u k Hp. inversion Hp as [|A0 v0 w u0 k0 Hn' Hs' Hl Hb]; subst; [lia|].
        apply (proj2 (In_incoming g w id)) in Hl. specialize (Hub _ _ _ Hl Hb). lia.
      * destruct Hat as [Hat|(j & u & k & Hj & Hp & Hr)].
        -- exists id, O. split; [now constructor | lia].
        -- exists u, (S k). split; [|lia]. apply In_incoming in Hj.
           econstructor; eauto. unfold sensorb. now rewrite Et.
    + apply rec_marks_depth.
    + apply IH.
Qed.

Lemma out_loop_sem : forall g rec, rec_marks rec -> rec_sem g rec 0 [] ->
  forall outs mx r e vis',
    out_loop rec outs mx [] = Ok (r, e, vis') ->
    e = NoErr /\ mx <= r /\
    (forall o u k, In o outs -> bpath g [] o u k -> Z.of_nat k <= r) /\
    (r = mx \/ exists o u k, In o outs /\ bpath g [] o u k /\ r = Z.of_nat k).
Proof.
  intros g rec Hm Hs. induction outs as [|o outs IH]; simpl; intros mx r e vis' H.
  - inversion H; subst. split; [reflexivity|]. split; [lia|]. split; [intros o u k []|now left].
  - destruct (rec o []) as [[[c0 e0] v0]| | | | |] eqn:Er; try discriminate.
    assert (Hno : ~ In o []) by (intros []).
    destruct (Hs _ _ _ _ Hno Er) as (He0 & Hub0 & (u0 & k0 & Hp0 & Hc0)). subst e0.
    assert (v0 = []) by (eapply Hm; eauto). subst v0.
    destruct (IH _ _ _ _ H) as (He & Hge & Hub & Hat).
    pose proof (max_step_ge mx c0) as [Hg1 Hg2].
    repeat split; auto; try lia.
    + intros j u k [Hj|Hj] Hp; [subst j; specialize (Hub0 _ _ Hp); lia | eauto].
    + destruct Hat as [Hat|(j & u & k & Hj & Hp & Hr)].
      * destruct (max_step_cases mx c0) as [Hc|Hc]; rewrite Hc in Hat; [auto|].
        right. exists o, u0, k0. split; [auto|]. split; [assumption|lia].
      * right. exists j, u, k. auto.
Qed.

(* the uncapped query on a fresh network, any graph: longest simple neuron-path into an output *)
Lemma max_depth_cap_simple : forall g cap r e vis',
    nocap cap -> n_control g = 0 -> has_hidden g ->
    max_depth_cap g cap [] = Ok (r, e, vis') ->
    e = NoErr /\ vis' = [] /\
    (forall o u k, In o (n_outputs g) -> bpath g [] o u k -> Z.of_nat k <= r) /\
    (n_outputs g <> [] -> exists o u k, In o (n_outputs g) /\ bpath g [] o u k /\ r = Z.of_nat k) /\
    (n_outputs g = [] -> r = 0).
Proof.
  intros g cap r e vis' Hc Hctl Hh H.
  assert (Hv : vis' = []) by (eapply max_depth_cap_marks; eauto; intros o _ []).
  unfold max_depth_cap in H.
  destruct (0 <? n_control g) eqn:E1; [rewrite Hctl in E1; discriminate|].
  destruct ((len (n_nodes g) =? len (n_inputs g) + len (n_outputs g)) && (n_control g =? 0)) eqn:E2;
    [apply andb_true_iff in E2; destruct E2 as [E2 _]; apply Z.eqb_eq in E2; contradiction|].
  apply out_loop_sem with (g := g) in H.
  - destruct H as (He & Hge & Hub & Hat). repeat split; auto.
    + intros Hne. destruct Hat as [Hat|Hat]; [|assumption].
      destruct (n_outputs g) as [|o outs]; [congruence|].
      exists o, o, O. split; [now left|]. split; [constructor; intros [] | assumption].
    + intros Hnil. rewrite Hnil in Hat. destruct Hat as [Hat|(o & _ & _ & [] & _)]. assumption.
  - apply rec_marks_depth.
  - apply depth_sem. assumption.
Qed.

(* ---------- on an acyclic graph every path is simple ---------- *)

Lemma path_cons : forall g u w, In (u, w) (n_links g) -> forall v k, path g w v k -> path g u v (S k).
Proof.
  intros g u w Hl v k H. induction H.
  - econstructor; [constructor | assumption].
  - econstructor; eauto.
Qed.

Lemma path_app : forall g u v k, path g u v k -> forall w j, path g v w j -> path g u w (k + j).
Proof.
  intros g u v k H1 w j H2. induction H2.
  - now rewrite Nat.add_0_r.
  - rewrite Nat.add_succ_r. econstructor; eauto.
Qed.

Lemma tpath_path : forall g u v k, tpath g u v k -> path g u v k.
Proof. intros g u v k H. induction H; econstructor; eauto. Qed.

Lemma path_tpath : forall g, (forall u v, In (u, v) (n_links g) -> sensorb g v = false) ->
  forall u v k, path g u v k -> tpath g u v k.
Proof. intros g Hs u v k H. induction H; econstructor; eauto. Qed.

Lemma bpath_tpath : forall g A v u k, bpath g A v u k -> tpath g u v k.
Proof.
  intros g A v u k H. induction H.
  - constructor.
  - econstructor; eauto.
Qed.

Lemma tpath_bpath : forall g, acyclic g -> forall u v k, tpath g u v k ->
  forall A, (forall a, In a A -> exists j, path g v a (S j)) -> bpath g A v u k.
Proof.
  intros g Hac u v k H. induction H as [v|u w v k Ht IH Hl Hs]; intros A HA.
  - constructor. intros Hin. destruct (HA _ Hin) as [j Hj]. apply Hac in Hj. discriminate.
  - assert (Hv : ~ In v A).
    { intros Hin. destruct (HA _ Hin) as [j Hj]. apply Hac in Hj. discriminate. }
    econstructor; eauto. apply IH.
    intros a [Ha|Ha].
    + subst a. exists O. econstructor; [constructor | assumption].
    + destruct (HA _ Ha) as [j Hj]. exists (S j). eapply path_cons; eauto.
Qed.

Lemma acyclic_bpath_iff : forall g, acyclic g -> forall u v k, bpath g [] v u k <-> tpath g u v k.
Proof.
  intros g Hac u v k. split; [apply bpath_tpath|].
  intros H. eapply tpath_bpath; eauto. intros a [].
Qed.

(* acyclic graph: longest neuron-path into an output *)
Lemma max_depth_cap_dag_t : forall g cap r e vis',
    nocap cap -> n_control g = 0 -> has_hidden g -> acyclic g ->
    max_depth_cap g cap [] = Ok (r, e, vis') ->
    e = NoErr /\ vis' = [] /\
    (forall o u k, In o (n_outputs g) -> tpath g u o k -> Z.of_nat k <= r) /\
    (n_outputs g <> [] -> exists o u k, In o (n_outputs g) /\ tpath g u o k /\ r = Z.of_nat k) /\
    (n_outputs g = [] -> r = 0).
Proof.
  intros g cap r e vis' Hc Hctl Hh Hac H.
  destruct (max_depth_cap_simple _ _ _ _ _ Hc Hctl Hh H) as (He & Hv & Hub & Hat & Hnil).
  split; [assumption|]. split; [assumption|]. split; [|split; [|assumption]].
  - intros o u k Ho Hp. apply (Hub o u k Ho). now apply acyclic_bpath_iff.
  - intros Hne. destruct (Hat Hne) as (o & u & k & Ho & Hp & Hr).
    exists o, u, k. split; [assumption|]. split; [now apply bpath_tpath in Hp | assumption].
Qed.

Lemma max_depth_unfold : forall g vis, n_control g = 0 -> max_depth g vis = max_depth_cap g 0 vis.
Proof. intros g vis H. unfold max_depth. now rewrite H. Qed.

Lemma nocap0 : nocap 0.
Proof. unfold nocap. lia. Qed.

Lemma depth_dag_sensor_stopped : forall g,
    n_control g = 0 -> has_hidden g -> closed g -> acyclic g ->
    exists r, max_depth g [] = Ok (r, NoErr, []) /\
      (forall o u k, In o (n_outputs g) -> tpath g u o k -> Z.of_nat k <= r) /\
      (n_outputs g <> [] -> exists o u k, In o (n_outputs g) /\ tpath g u o k /\ r = Z.of_nat k) /\
      (n_outputs g = [] -> r = 0).
Proof.
  intros g Hctl Hh Hcl Hac. rewrite (max_depth_unfold _ _ Hctl).
  destruct (max_depth_cap_ok g 0 Hcl) as [[[r e] v] H].
  destruct (max_depth_cap_dag_t _ _ _ _ _ nocap0 Hctl Hh Hac H) as (He & Hv & Hrest).
  subst e v. exists r. split; [assumption | exact Hrest].
Qed.

Lemma depth_dag : forall g,
    n_control g = 0 -> has_hidden g -> closed g -> acyclic g ->
    (forall u v, In (u, v) (n_links g) -> sensorb g v = false) ->
    exists r, max_depth g [] = Ok (r, NoErr, []) /\
      (forall o u k, In o (n_outputs g) -> path g u o k -> Z.of_nat k <= r) /\
      (n_outputs g <> [] -> exists o u k, In o (n_outputs g) /\ path g u o k /\ r = Z.of_nat k) /\
      (n_outputs g = [] -> r = 0).
Proof.
  intros g Hctl Hh Hcl Hac Hs.
  destruct (depth_dag_sensor_stopped g Hctl Hh Hcl Hac) as (r & H & Hub & Hat & Hnil).
  exists r. split; [assumption|]. split; [|split; [|assumption]].
  - intros o u k Ho Hp. apply (Hub o u k Ho). now apply path_tpath.
  - intros Hne. destruct (Hat Hne) as (o & u & k & Ho & Hp & Hr).
    exists o, u, k. split; [assumption|]. split; [now apply tpath_path | assumption].
Qed.

(* any graph, cycles included: the longest SIMPLE neuron-path into an output *)
Lemma depth_simple : forall g,
    n_control g = 0 -> has_hidden g -> closed g ->
    exists r, max_depth g [] = Ok (r, NoErr, []) /\
      (forall o u k, In o (n_outputs g) -> bpath g [] o u k -> Z.of_nat k <= r) /\
      (n_outputs g <> [] -> exists o u k, In o (n_outputs g) /\ bpath g [] o u k /\ r = Z.of_nat k) /\
      (n_outputs g = [] -> r = 0).
Proof.
  intros g Hctl Hh Hcl. rewrite (max_depth_unfold _ _ Hctl).
  destruct (max_depth_cap_ok g 0 Hcl) as [[[r e] v] H].
  destruct (max_depth_cap_simple _ _ _ _ _ nocap0 Hctl Hh H) as (He & Hv & Hrest).
  subst e v. exists r. split; [assumption | exact Hrest].
Qed.
