(* Crossover preserves well-formedness (used by C01): well-formed relatives satisfy the hypotheses of
   proofs/MateSpec.v, and the child of any of the three crossovers is well-formed and keeps the
   input/bias/output nodes of both parents. *)
From NeatModel Require Import Res F64 GoRand Genome Options Insert Mutate Mate InsertSpec MateSpec WF.
From Coq Require Import Lia Sorting.Sorted Sorting.Permutation.

(* two well-formed genomes of common ancestry *)
Record relatives (p1 p2 : genome) : Prop := {
  rel_wf1 : wf p1;
  rel_wf2 : wf p2;
  rel_cons : consistent p1 p2;                                         (* same number => same link *)
  rel_tids : map t_id (traits p1) = map t_id (traits p2);              (* same trait ids *)
  rel_tpar : Forall2 (fun a b => length (t_params a) = length (t_params b)) (traits p1) (traits p2);
  rel_io12 : retains_io p1 p2;                                         (* the same io nodes (id, type) *)
  rel_io21 : retains_io p2 p1
}.

(* ---------- small list facts ---------- *)
Lemma NoDup_map_eq {A B} (f : A -> B) l a b : NoDup (map f l) -> In a l -> In b l -> f a = f b -> a = b.
Proof.
  induction l as [|x l IH]; intros Hnd Ha Hb E; [destruct Ha|].
  cbn [map] in Hnd. inversion Hnd as [|? ? Hnin Hnd']; subst.
  destruct Ha as [<-|Ha], Hb as [<-|Hb]; auto.
  - exfalso. apply Hnin. rewrite E. now apply in_map.
  - exfalso. apply Hnin. rewrite <- E. now apply in_map.
Qed.

Lemma asc_filter {A} (key : A -> Z) (f : A -> bool) l : asc key l -> asc key (filter f l).
Proof.
  induction l as [|x l IH]; intros Hs; [exact Hs|]. apply asc_cons in Hs. destruct Hs as [Hs Hf].
  cbn [filter]. destruct (f x); [|now apply IH]. apply asc_cons. split; [now apply IH|].
  rewrite Forall_forall in *. intros y Hy. apply filter_In in Hy. now apply Hf.
Qed.

Lemma same_link_key a b : same_link a b = true <-> link_key a = link_key b.
Proof.
  rewrite same_link_iff. unfold link_key. split; [intros [-> [-> ->]]; reflexivity|intros [= -> -> ->]; auto].
Qed.

Lemma links_nodup_inj p : links_nodup p -> link_inj (genes p).
Proof.
  intros Hnd a b Ha Hb Hl. apply same_link_key in Hl.
  now rewrite (NoDup_map_eq link_key (genes p) a b Hnd Ha Hb Hl).
Qed.

Lemma inj_links_nodup l : asc g_innov l -> link_inj l -> NoDup (map link_key l).
Proof.
  induction l as [|x l IH]; intros Hs Hi; [constructor|]. cbn [map].
  pose proof (asc_head _ _ _ Hs) as Hlt. constructor.
  - intros Hin. apply in_map_iff in Hin. destruct Hin as [z [Ez Hz]].
    assert (S : same_link x z = true) by (apply same_link_key; congruence).
    specialize (Hi x z (or_introl eq_refl) (or_intror Hz) S). specialize (Hlt z Hz). lia.
  - apply IH; [eapply asc_tail; eassumption|]. intros a b Ha Hb. apply Hi; now right.
Qed.

Lemma traits_ok_range p t :
  traits_ok p -> In t (map t_id (traits p)) -> t <> 0 /\ tbase p <= t < tbase p + zlen (traits p).
Proof.
  intros [Hne [id0 [Hpos Hids]]] Hin. unfold tbase, zlen.
  destruct (traits p) as [|t0 ts] eqn:E; [congruence|].
  rewrite Hids in Hin. cbn [length seq map] in Hids. injection Hids as H0 _.
  apply in_map_iff in Hin. destruct Hin as [k [<- Hk]]. apply in_seq in Hk. cbn [length] in *. lia.
Qed.

Lemma tbase_eq p1 p2 : map t_id (traits p1) = map t_id (traits p2) -> tbase p1 = tbase p2 /\ zlen (traits p1) = zlen (traits p2).
Proof.
  intros E. unfold tbase, zlen. split.
  - destruct (traits p1), (traits p2); cbn in E; try discriminate; [reflexivity|congruence].
  - apply (f_equal (@length Z)) in E. rewrite !map_length in E. now rewrite E.
Qed.

(* ---------- well-formed relatives satisfy the crossover hypotheses ---------- *)
Lemma wf_parent_ok p1 p : wf p1 -> wf p -> map t_id (traits p1) = map t_id (traits p) -> parent_ok p1 p.
Proof.
  intros W1 W E. destruct (tbase_eq _ _ E) as [Eb El]. constructor.
  - apply (wf_genes _ W).
  - apply links_nodup_inj, (wf_links _ W).
  - intros x Hx. destruct (wf_endpoints _ W x Hx) as [a [b [Ha [Hb _]]]]. exists a, b. auto.
  - apply (wf_nonmodular _ W).
  - intros x Hx. unfold tref_ok. destruct (g_trait x) as [t|] eqn:Et; [|exact I].
    destruct (proj1 (wf_trait_refs _ W) x t Hx Et) as [_ [tr [Htr <-]]].
    rewrite Eb, El. apply (traits_ok_range p); [apply (wf_traits _ W)|now apply in_map].
  - intros n Hn. unfold tref_ok. destruct (n_trait n) as [t|] eqn:Et; [|exact I].
    destruct (proj2 (wf_trait_refs _ W) n t Hn Et) as [_ [tr [Htr <-]]].
    rewrite Eb, El. apply (traits_ok_range p); [apply (wf_traits _ W)|now apply in_map].
Qed.

Theorem relatives_mate_hyps p1 p2 : relatives p1 p2 -> mate_hyps p1 p2.
Proof.
  intros R. pose proof (rel_wf1 _ _ R) as W1. pose proof (rel_wf2 _ _ R) as W2. constructor.
  - now apply wf_parent_ok.
  - apply wf_parent_ok; auto. apply (rel_tids _ _ R).
  - apply (rel_cons _ _ R).
  - split; [apply (wf_traits _ W1)|apply (rel_tpar _ _ R)].
  - unfold io_ids. apply asc_NoDup, asc_filter, (wf_nodes _ W2).
Qed.

(* ---------- what the three crossovers have in common, and why it makes the child well-formed ---------- *)
Record child_facts (p1 p2 c : genome) : Prop := {
  cf_mod : modules c = [];
  cf_traits : traits c = mean_traits p1 p2;
  cf_asc : asc g_innov (genes c);
  cf_origin : forall y, In y (genes c) -> exists x, (In x (genes p1) \/ In x (genes p2)) /\ kin x y;
  cf_linj : link_inj (genes c);
  cf_nasc : asc n_id (nodes c);
  cf_ids : forall i, In i (map n_id (nodes c)) <-> In i (io_ids p2) \/ touched (genes c) i;
  cf_nsrc : forall n, In n (nodes c) -> nsrc p1 p2 n;
  cf_io : forall m, In m (nodes p2) -> is_io m = true -> exists n, In n (nodes c) /\ same_node m n;
  cf_gtr : forall y, In y (genes c) -> gtr_ok (traits c) y;
  cf_ntr : forall n, In n (nodes c) -> ntr_ok (traits c) n;
  cf_nonempty : genes c <> []
}.

Lemma same_type_sensor m n : n_type m = n_type n -> is_sensor m = is_sensor n.
Proof. unfold is_sensor. now intros ->. Qed.
Lemma same_type_io m n : n_type m = n_type n -> is_io m = is_io n.
Proof. unfold is_io, is_sensor. now intros ->. Qed.

Lemma in_io_nodes p n : In n (nodes p) -> is_io n = true -> In (n_id n, n_type n) (io_nodes p).
Proof.
  intros Hn Hio. unfold io_nodes. apply in_map_iff. exists n. split; [reflexivity|]. apply filter_In. auto.
Qed.

Lemma io_nodes_in p i t : In (i, t) (io_nodes p) -> exists n, In n (nodes p) /\ is_io n = true /\ n_id n = i /\ n_type n = t.
Proof.
  unfold io_nodes. intros H. apply in_map_iff in H. destruct H as [n [[= <- <-] Hn]].
  apply filter_In in Hn. exists n. tauto.
Qed.

(* a sensor id of one relative is a sensor id of the other *)
Lemma sensor_agree P Q m b :
  nodes_sorted P -> retains_io Q P -> In m (nodes Q) -> In b (nodes P) -> n_id m = n_id b ->
  is_sensor m = true -> is_sensor b = true.
Proof.
  intros HsP Hio Hm Hb Eid Hs.
  assert (Hmio : is_io m = true) by (unfold is_io; now rewrite Hs).
  pose proof (Hio _ (in_io_nodes Q m Hm Hmio)) as Hin.
  destruct (io_nodes_in P _ _ Hin) as [b' [Hb' [_ [Ei Et]]]].
  assert (b' = b) by (apply (asc_inj n_id (nodes P)); auto; congruence). subst b'.
  rewrite (same_type_sensor b m Et). exact Hs.
Qed.

Lemma mean_traits_ids p1 p2 :
  Forall2 (fun a b => length (t_params a) = length (t_params b)) (traits p1) (traits p2) ->
  map t_id (mean_traits p1 p2) = map t_id (traits p1).
Proof.
  intros HF. unfold mean_traits. induction HF as [|a b ta tb _ _ IH]; [reflexivity|]. cbn. now rewrite IH.
Qed.

Theorem child_wf p1 p2 c :
  relatives p1 p2 -> child_facts p1 p2 c -> wf c /\ retains_io p1 c /\ retains_io p2 c.
Proof.
  intros R F. pose proof (rel_wf1 _ _ R) as W1. pose proof (rel_wf2 _ _ R) as W2.
  assert (Hids : map t_id (traits c) = map t_id (traits p1)).
  { rewrite (cf_traits _ _ _ F). apply mean_traits_ids, (rel_tpar _ _ R). }
  assert (Hlen : length (traits c) = length (traits p1)).
  { apply (f_equal (@length Z)) in Hids. now rewrite !map_length in Hids. }
  assert (Htok : traits_ok c).
  { destruct (wf_traits _ W1) as [Hne [id0 [Hpos Hid0]]]. split.
    - intros E. rewrite E in Hlen. destruct (traits p1); [congruence|discriminate].
    - exists id0. split; [exact Hpos|]. now rewrite Hids, Hlen. }
  assert (Hio2 : retains_io p2 c).
  { intros [i t] Hin. destruct (io_nodes_in p2 i t Hin) as [m [Hm [Hmio [<- <-]]]].
    destruct (cf_io _ _ _ F m Hm Hmio) as [n [Hn [Ei [Et _]]]]. rewrite Ei, Et.
    apply in_io_nodes; [exact Hn|]. now rewrite <- (same_type_io m n Et). }
  split; [|split; [|exact Hio2]].
  2:{ intros x Hx. apply Hio2. now apply (rel_io12 _ _ R). }
  constructor.
  - apply (cf_nonempty _ _ _ F).
  - apply (cf_asc _ _ _ F).
  - apply inj_links_nodup; [apply (cf_asc _ _ _ F)|apply (cf_linj _ _ _ F)].
  - apply (cf_nasc _ _ _ F).
  - intros y Hy.
    assert (Hti : In (g_in y) (map n_id (nodes c))).
    { apply (cf_ids _ _ _ F). right. exists y. auto. }
    assert (Hto : In (g_out y) (map n_id (nodes c))).
    { apply (cf_ids _ _ _ F). right. exists y. auto. }
    destruct (node_with_id_some _ _ Hti) as [a Ea]. destruct (node_with_id_some _ _ Hto) as [b Eb].
    exists a, b. split; [exact Ea|]. split; [exact Eb|].
    apply node_with_id_In in Eb. destruct Eb as [Hb Eidb].
    destruct (cf_nsrc _ _ _ F b Hb) as [m [Hm [Em [Etm _]]]].
    destruct (cf_origin _ _ _ F y Hy) as [x [Hx [_ [_ [Ko _]]]]].
    destruct (is_sensor b) eqn:Esb; [exfalso|reflexivity].
    assert (Esm : is_sensor m = true) by (now rewrite (same_type_sensor m b Etm)).
    (* the out node of the parent gene is not a sensor, but has the id of the sensor m *)
    destruct Hx as [Hx|Hx].
    + destruct (wf_endpoints _ W1 x Hx) as [_ [bx [_ [Ebx Hns]]]]. apply node_with_id_In in Ebx. destruct Ebx as [Hbx Eidx].
      assert (Eid : n_id m = n_id bx) by congruence.
      destruct Hm as [Hm|Hm].
      * assert (m = bx) by (apply (asc_inj n_id (nodes p1)); auto; apply (wf_nodes _ W1)). congruence.
      * pose proof (sensor_agree p1 p2 m bx (wf_nodes _ W1) (rel_io21 _ _ R) Hm Hbx Eid Esm). congruence.
    + destruct (wf_endpoints _ W2 x Hx) as [_ [bx [_ [Ebx Hns]]]]. apply node_with_id_In in Ebx. destruct Ebx as [Hbx Eidx].
      assert (Eid : n_id m = n_id bx) by congruence.
      destruct Hm as [Hm|Hm].
      * pose proof (sensor_agree p2 p1 m bx (wf_nodes _ W2) (rel_io12 _ _ R) Hm Hbx Eid Esm). congruence.
      * assert (m = bx) by (apply (asc_inj n_id (nodes p2)); auto; apply (wf_nodes _ W2)). congruence.
  - assert (Hhas : forall t, In t (map t_id (traits c)) -> has_trait c t).
    { intros t Ht. split.
      - destruct (traits_ok_range c t Htok Ht) as [Hnz _]. exact Hnz.
      - apply in_map_iff in Ht. destruct Ht as [tr [E Htr]]. exists tr. auto. }
    split.
    + intros x t Hx Et. destruct (cf_gtr _ _ _ F x Hx) as [t' [Et' Hin]]. rewrite Et in Et'. injection Et' as ->. now apply Hhas.
    + intros n t Hn Et. destruct (cf_ntr _ _ _ F n Hn) as [t' [Et' Hin]]. rewrite Et in Et'. injection Et' as ->. now apply Hhas.
  - exact Htok.
  - destruct (wf_output _ W2) as [n [Hn Ht]].
    assert (Hnio : is_io n = true) by (unfold is_io; rewrite Ht; cbn; apply orb_true_r).
    destruct (cf_io _ _ _ F n Hn Hnio) as [n' [Hn' [_ [Et _]]]]. exists n'. split; [exact Hn'|congruence].
  - apply (cf_mod _ _ _ F).
Qed.

(* ---------- the three methods ---------- *)
Lemma mp_child_facts avg p1 p2 f1 f2 c :
  relatives p1 p2 -> mp_post avg p1 p2 f1 f2 c -> child_facts p1 p2 c.
Proof.
  intros R [M [T [A [P [_ [N1 [N2 [N3 [N4 [F1 [F2 [L [GT NT]]]]]]]]]]]]]. cbv zeta in *. constructor; auto.
  - intros y Hy. destruct (P y Hy) as [[x [Hx [_ [K _]]]]|[[x [Hx [_ [K _]]]]|[x1 [x2 [Hx [_ [_ [K _]]]]]]]]; eauto.
  - destruct (p1_better f1 f2 p1 p2) eqn:Eb.
    + pose proof (wf_nonempty _ (rel_wf1 _ _ R)) as Hne. destruct (genes p1) as [|x l]; [congruence|].
      destruct (F1 eq_refl x (or_introl eq_refl)) as [y [Hy _]]. intros E. rewrite E in Hy. destruct Hy.
    + pose proof (wf_nonempty _ (rel_wf2 _ _ R)) as Hne. destruct (genes p2) as [|x l]; [congruence|].
      destruct (F2 eq_refl x (or_introl eq_refl)) as [y [Hy _]]. intros E. rewrite E in Hy. destruct Hy.
Qed.

Theorem mate_multipoint_gen_wf avg p1 p2 id f1 f2 s c s' :
  relatives p1 p2 -> mate_multipoint_gen avg p1 p2 id f1 f2 s = Ok (c, s') ->
  wf c /\ retains_io p1 c /\ retains_io p2 c.
Proof.
  intros R Hrun. apply child_wf; [exact R|]. apply (mp_child_facts avg p1 p2 f1 f2); [exact R|].
  exact (mp_post_holds avg p1 p2 id f1 f2 s s' c (relatives_mate_hyps _ _ R) Hrun).
Qed.

Theorem mate_multipoint_wf p1 p2 id f1 f2 s c s' :
  relatives p1 p2 -> mate_multipoint p1 p2 id f1 f2 s = Ok (c, s') -> wf c /\ retains_io p1 c /\ retains_io p2 c.
Proof. exact (mate_multipoint_gen_wf false p1 p2 id f1 f2 s c s'). Qed.

Theorem mate_multipoint_avg_wf p1 p2 id f1 f2 s c s' :
  relatives p1 p2 -> mate_multipoint_avg p1 p2 id f1 f2 s = Ok (c, s') -> wf c /\ retains_io p1 c /\ retains_io p2 c.
Proof. exact (mate_multipoint_gen_wf true p1 p2 id f1 f2 s c s'). Qed.

(* single point needs the relatives to start with the same innovation number: otherwise the child may be
   empty (C04_singlepoint_unrelated_empty) *)
Theorem mate_singlepoint_wf p1 p2 id s c s' :
  relatives p1 p2 ->
  (forall x1 x2, hd_error (genes p1) = Some x1 -> hd_error (genes p2) = Some x2 -> g_innov x1 = g_innov x2) ->
  mate_singlepoint p1 p2 id s = Ok (c, s') -> wf c /\ retains_io p1 c /\ retains_io p2 c.
Proof.
  intros R Hfirst Hrun. apply child_wf; [exact R|].
  pose proof (wf_nonempty _ (rel_wf1 _ _ R)) as G1. pose proof (wf_nonempty _ (rel_wf2 _ _ R)) as G2.
  pose proof (sp_post_holds p1 p2 id s s' c (relatives_mate_hyps _ _ R) G1 G2 Hrun)
    as [M [T [A [P [N1 [N2 [N3 [N4 [NE [_ [L [GT NT]]]]]]]]]]]].
  constructor; auto.
  - intros y Hy. destruct (P y Hy) as [[x [Hx [K _]]]|[x1 [x2 [Hx [_ [_ [K _]]]]]]]; eauto.
  - destruct (genes p1) as [|x1 l1] eqn:E1; [congruence|]. destruct (genes p2) as [|x2 l2] eqn:E2; [congruence|].
    destruct (NE x1 x2 eq_refl eq_refl (Hfirst x1 x2 eq_refl eq_refl)) as [y [Hy _]].
    intros E. rewrite E in Hy. destruct Hy.
Qed.
