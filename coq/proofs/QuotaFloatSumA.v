(* C02 / C09, binary64 error analysis behind "Hsum" (the floor-and-carry total of
   purgeZeroOffspringSpecies / countOffspring does not exceed the number of organisms), through
   Flocq and the bridge of ActFloatBase.v:
     1. rounding-error models of binary64 (relative error 2^-53 in the normal range and for every
        addition; relative + absolute error 2^-1075 in general);
     2. the left-to-right float sum S of n <= 2^20 non-negative finite values <= 2^1000:
        no overflow, S >= every term, S >= (exact sum) * (1 - n 2^-53);
     3. the average S / float64(n) when some value is >= 2^-1000 (so the quotient is a normal
        number and carries a relative error), and the quotients value / average: finite, at most
        2^21, and their real sum is at most n + 2^-11;
     4. countOffspring: Floor and Mod(.,1) are exact below 2^52, the subtraction of Floor(skim) is
        exact (Sterbenz), the only rounded operation per organism is skim += frac (error <= 2^-52).
   Model level (purge_zero_offspring, adjust_all, epoch, runs): QuotaFloatSumB.v. *)
From Coq Require Import ZArith Reals Lra Lia Bool List.
From Flocq Require Import Core BinarySingleNaN Relative Plus_error Sterbenz.
From Coq Require Import Floats.
From NeatModel Require Import ActFloatBase.
From NeatModel Require Import Res F64 GoRand Genome Options Population EpochTotalFloat FloatMono QuotaReal.
Import ListNotations.
Open Scope Z_scope.

(* ------------------------------------------------------------------------------------------ *)
(* 1. rounding errors of binary64 *)
(* ------------------------------------------------------------------------------------------ *)
Definition uu : R := bpow radix2 (-53).
Definition eta : R := bpow radix2 (-1075).

Lemma fexp64_FLT : fexp64 = FLT_exp (-1074) 53.
Proof. reflexivity. Qed.

Lemma half_bpow e : (/ 2 * bpow radix2 (e + 1) = bpow radix2 e)%R.
Proof. rewrite bpow_plus. simpl (bpow radix2 1). lra. Qed.

Lemma rnd_rel x : (bpow radix2 (-1022) <= Rabs x)%R -> (Rabs (rnd x - x) <= uu * Rabs x)%R.
Proof.
  intros H. unfold rnd. rewrite fexp64_FLT.
  pose proof (relative_error_N_FLT radix2 (-1074) 53 ltac:(reflexivity) (fun x => negb (Z.even x)) x H) as E.
  eapply Rle_trans; [exact E|]. apply Req_le. f_equal. exact (half_bpow (-53)).
Qed.

Lemma rnd_err x : exists eps et, (Rabs eps <= uu)%R /\ (Rabs et <= eta)%R /\ rnd x = (x * (1 + eps) + et)%R.
Proof.
  destruct (error_N_FLT radix2 (-1074) 53 ltac:(reflexivity) (fun x => negb (Z.even x)) x) as (eps & et & H1 & H2 & _ & H3).
  exists eps, et. split; [|split].
  - eapply Rle_trans; [exact H1|]. apply Req_le. exact (half_bpow (-53)).
  - eapply Rle_trans; [exact H2|]. apply Req_le. exact (half_bpow (-1075)).
  - exact H3.
Qed.

Lemma rnd_plus_rel x y : generic_format radix2 fexp64 x -> generic_format radix2 fexp64 y ->
  (Rabs (rnd (x + y) - (x + y)) <= uu * Rabs (x + y))%R.
Proof.
  intros Fx Fy.
  destruct (FLT_plus_error_N_ex radix2 (-1074) 53 (fun x => negb (Z.even x)) x y Fx Fy) as (eps & He & Hr).
  change (rnd (x + y)) with (round radix2 (FLT_exp (-1074) 53) (Znearest (fun x => negb (Z.even x))) (x + y)).
  rewrite Hr.
  replace ((x + y) * (1 + eps) - (x + y))%R with ((x + y) * eps)%R by ring.
  rewrite Rabs_mult, Rmult_comm. apply Rmult_le_compat_r; [apply Rabs_pos|].
  apply Rle_trans with (1 := He). apply Rle_trans with (1 := u_rod1pu_ro_le_u_ro radix2 53).
  unfold u_ro. apply Req_le. exact (half_bpow (-53)).
Qed.

(* ------------------------------------------------------------------------------------------ *)
(* 2. the float sum of non-negative values *)
(* ------------------------------------------------------------------------------------------ *)
Definition bigM : R := bpow radix2 1000.

Lemma FR_format x : generic_format radix2 fexp64 (FR x).
Proof. unfold FR. apply generic_format_B2R. Qed.

Lemma uu_pos : (0 < uu)%R. Proof. apply bpow_gt_0. Qed.
Lemma bigM_pos : (0 < bigM)%R. Proof. apply bpow_gt_0. Qed.

Lemma INR_Z n : INR n = IZR (Z.of_nat n). Proof. apply INR_IZR_INZ. Qed.

Lemma natM_format n : Z.of_nat n < 2 ^ 53 -> generic_format radix2 fexp64 (INR n * bigM).
Proof.
  intros H. rewrite fexp64_FLT. apply generic_format_FLT.
  apply (FLT_spec radix2 (-1074) 53 _ (Float radix2 (Z.of_nat n) 1000)).
  - unfold F2R, bigM. cbn [Fnum Fexp]. now rewrite INR_Z.
  - cbn [Fnum]. change (radix2 ^ 53) with (2 ^ 53). lia.
  - cbn [Fexp]. lia.
Qed.

Lemma rnd_natM n : Z.of_nat n < 2 ^ 53 -> rnd (INR n * bigM) = (INR n * bigM)%R.
Proof. intros H. unfold rnd. apply round_generic; auto with typeclass_instances. now apply natM_format. Qed.

Lemma natM_lt_emax n : Z.of_nat n <= 2 ^ 20 -> (INR n * bigM < two1024)%R.
Proof.
  intros H. apply Rle_lt_trans with (bpow radix2 20 * bigM)%R.
  - apply Rmult_le_compat_r; [left; exact bigM_pos|]. rewrite INR_Z.
    change (bpow radix2 20) with (IZR (2 ^ 20)). now apply IZR_le.
  - unfold bigM, two1024. rewrite <- bpow_plus. apply bpow_lt. unfold emax. lia.
Qed.

Lemma Rsum_nonneg l : Forall (fun x => 0 <= x)%R l -> (0 <= Rsum l)%R.
Proof. induction 1 as [|x l H _ IH]; unfold Rsum in *; cbn [fold_right]; lra. Qed.

(* one addition of non-negative floats that stays below INR k * 2^1000 *)
Lemma add_nn a b k : fin a -> fin b -> (0 <= FR a)%R -> (0 <= FR b)%R ->
  (FR a + FR b <= INR k * bigM)%R -> Z.of_nat k <= 2 ^ 20 ->
  fin (a + b)%float /\ (FR (a + b)%float <= INR k * bigM)%R /\
  (FR a <= FR (a + b)%float)%R /\ (FR b <= FR (a + b)%float)%R /\
  ((FR a + FR b) * (1 - uu) <= FR (a + b)%float)%R.
Proof.
  intros Fa Fb A0 B0 Hk Kb.
  assert (U : (rnd (FR a + FR b) <= INR k * bigM)%R).
  { rewrite <- (rnd_natM k) by lia. now apply rnd_le. }
  assert (P0 : (0 <= rnd (FR a + FR b))%R) by (apply rnd_nonneg; lra).
  destruct (add_R a b Fa Fb) as [E F].
  { rewrite Rabs_pos_eq by exact P0. apply Rle_lt_trans with (1 := U). now apply natM_lt_emax. }
  split; [exact F|]. rewrite E. split; [exact U|].
  split; [rewrite <- (rnd_FR a) at 1; apply rnd_le; lra|].
  split; [rewrite <- (rnd_FR b) at 1; apply rnd_le; lra|].
  pose proof (rnd_plus_rel (FR a) (FR b) (FR_format a) (FR_format b)) as R.
  rewrite (Rabs_pos_eq (FR a + FR b)) in R by lra. apply Rabs_le_inv in R. lra.
Qed.

Lemma len_uu_le1 n : Z.of_nat n <= 2 ^ 20 -> (0 <= INR n * uu <= bpow radix2 (-33))%R.
Proof.
  intros H. pose proof uu_pos. split; [apply Rmult_le_pos; [apply pos_INR|lra]|].
  replace (bpow radix2 (-33)) with (bpow radix2 20 * uu)%R by (unfold uu; rewrite <- bpow_plus; reflexivity).
  apply Rmult_le_compat_r; [lra|]. rewrite INR_Z. change (bpow radix2 20) with (IZR (2 ^ 20)). now apply IZR_le.
Qed.

Lemma fold_sum {A} (g : A -> float) : forall l acc k,
  fin acc -> (0 <= FR acc <= INR k * bigM)%R ->
  (forall x, In x l -> fin (g x) /\ (0 <= FR (g x) <= bigM)%R) ->
  Z.of_nat (k + length l) <= 2 ^ 20 ->
  let Sm := fold_left (fun a x => PrimFloat.add a (g x)) l acc in
  fin Sm /\ (FR acc <= FR Sm)%R /\ (forall x, In x l -> (FR (g x) <= FR Sm)%R) /\
  (FR Sm <= INR (k + length l) * bigM)%R /\
  ((FR acc + Rsum (map (fun x => FR (g x)) l)) * (1 - INR (length l) * uu) <= FR Sm)%R.
Proof.
  induction l as [|x l IH]; intros acc k Fa [A0 A1] Hl Hk Sm.
  - subst Sm. cbn [fold_left length map Rsum fold_right]. rewrite Nat.add_0_r. cbn [INR].
    split; [exact Fa|]. split; [lra|]. split; [intros y []|]. split; [exact A1|]. lra.
  - cbn [fold_left] in Sm. cbn [length] in Hk.
    destruct (Hl x (or_introl eq_refl)) as [Fx [X0 X1]].
    destruct (add_nn acc (g x) (k + 1)%nat Fa Fx A0 X0) as (F1 & U1 & L1 & L2 & L3).
    { rewrite plus_INR. cbn [INR]. lra. } { lia. }
    destruct (IH (acc + g x)%float (k + 1)%nat F1) as (FS & LS & LE & US & LB).
    { split; [lra|exact U1]. } { intros y Hy. apply Hl. now right. } { lia. }
    fold Sm in FS, LS, LE, US, LB.
    split; [exact FS|]. split; [lra|]. split; [intros y [<-|Hy]; [lra|now apply LE]|].
    split. { cbn [length]. replace (k + S (length l))%nat with (k + 1 + length l)%nat by lia. exact US. }
    cbn [map Rsum fold_right length]. fold (Rsum (map (fun x => FR (g x)) l)).
    set (Q := Rsum (map (fun x => FR (g x)) l)) in *.
    assert (Q0 : (0 <= Q)%R).
    { apply Rsum_nonneg. apply Forall_forall. intros r Hr. apply in_map_iff in Hr. destruct Hr as (y & <- & Hy).
      apply (Hl y). now right. }
    rewrite S_INR. destruct (len_uu_le1 (length l)) as [M0 M1]; [lia|].
    assert (M2 : (bpow radix2 (-33) <= 1)%R) by (change 1%R with (bpow radix2 0); apply bpow_le; lia).
    pose proof uu_pos as Up. set (m := (INR (length l) * uu)%R) in *.
    set (P := (FR acc + FR (g x))%R) in *.
    assert (P0 : (0 <= P)%R) by (unfold P; lra).
    apply Rle_trans with (2 := LB).
    apply Rle_trans with ((P * (1 - uu) + Q) * (1 - m))%R.
    + assert (0 <= P * uu * m)%R by (apply Rmult_le_pos; [apply Rmult_le_pos; lra|lra]).
      assert (0 <= Q * uu)%R by (apply Rmult_le_pos; lra).
      replace ((FR acc + (FR (g x) + Q)) * (1 - (INR (length l) + 1) * uu))%R
        with ((P + Q) * (1 - m - uu))%R by (unfold P, m; ring).
      replace ((P * (1 - uu) + Q) * (1 - m))%R with ((P + Q) * (1 - m - uu) + (P * uu * m + Q * uu))%R by ring. lra.
    + apply Rmult_le_compat_r; lra.
Qed.

(* ------------------------------------------------------------------------------------------ *)
(* 3. the average and the quotients *)
(* ------------------------------------------------------------------------------------------ *)
Definition tiny : R := bpow radix2 (-1000).

(* numeric values of the powers of two that the linear arithmetic needs *)
Lemma uu_val : uu = (/ 9007199254740992)%R.
Proof. unfold uu. change (bpow radix2 (-53)) with (/ IZR (Z.pow_pos radix2 53))%R. f_equal. Qed.
Lemma eta_le : (0 < eta <= / 1267650600228229401496703205376)%R.
Proof.
  split; [apply bpow_gt_0|]. apply Rle_trans with (bpow radix2 (-100)); [apply bpow_le; lia|].
  apply Req_le. change (bpow radix2 (-100)) with (/ IZR (Z.pow_pos radix2 100))%R. f_equal.
Qed.

Lemma rnd_upper x : (0 <= x)%R -> (rnd x <= x * (1 + uu) + eta)%R.
Proof.
  intros H. destruct (rnd_err x) as (eps & et & H1 & H2 & ->).
  apply Rabs_le_inv in H1. apply Rabs_le_inv in H2.
  assert (x * eps <= x * uu)%R by (apply Rmult_le_compat_l; lra). lra.
Qed.

Lemma rnd_lower_normal x : (bpow radix2 (-1022) <= x)%R -> (x * (1 - uu) <= rnd x)%R.
Proof.
  intros H. pose proof (bpow_gt_0 radix2 (-1022)) as P.
  pose proof (rnd_rel x) as R. rewrite (Rabs_pos_eq x) in R by lra. specialize (R H). apply Rabs_le_inv in R. lra.
Qed.

Section Avg.
  Context {A : Type} (g : A -> float) (l : list A).
  Let n := Z.of_nat (length l).
  Let Sm := fold_left (fun a x => PrimFloat.add a (g x)) l 0%float.
  Let avg := PrimFloat.div Sm (f_of_Z n).
  Let Fsum := Rsum (map (fun x => FR (g x)) l).
  Hypothesis Hn : 1 <= n <= 2 ^ 20.
  Hypothesis Hl : forall x, In x l -> fin (g x) /\ (0 <= FR (g x) <= bigM)%R.
  Hypothesis Hbig : exists x, In x l /\ (tiny <= FR (g x))%R.

  Lemma avg_sum_facts :
    fin Sm /\ (tiny <= FR Sm)%R /\ (forall x, In x l -> (FR (g x) <= FR Sm)%R) /\
    (Fsum * (1 - IZR n * uu) <= FR Sm)%R /\ (0 <= Fsum)%R.
  Proof.
    destruct (fold_sum g l 0%float 0%nat fin_zero) as (F & _ & LE & _ & LB).
    { rewrite FR_zero. cbn [INR]. lra. } { exact Hl. } { cbn [Nat.add]. fold n. lia. }
    fold Sm in F, LE, LB. rewrite FR_zero, Rplus_0_l, INR_Z in LB. fold n Fsum in LB.
    split; [exact F|]. split.
    { destruct Hbig as (x & Hx & Bx). apply Rle_trans with (1 := Bx). now apply LE. }
    split; [exact LE|]. split; [exact LB|].
    apply Rsum_nonneg. apply Forall_forall. intros r Hr. apply in_map_iff in Hr. destruct Hr as (y & <- & Hy).
    now apply Hl.
  Qed.

  Lemma avg_facts :
    fin avg /\ (0 < FR avg)%R /\ (FR Sm * (1 - uu) <= FR avg * IZR n)%R /\ (FR avg <= FR Sm)%R.
  Proof.
    destruct avg_sum_facts as (F & T & _ & _ & _).
    assert (Tp : (0 < tiny)%R) by apply bpow_gt_0.
    destruct (f_of_Z_exact n) as [Fd Ed]; [lia|].
    assert (N1 : (1 <= IZR n)%R) by (apply IZR_le; lia).
    assert (N2 : (IZR n <= bpow radix2 20)%R) by (change (bpow radix2 20) with (IZR (2 ^ 20)); apply IZR_le; lia).
    destruct (div_cases Sm (f_of_Z n)) as [[Fa A0] Ea]; [split; [exact F|lra]|exact Fd|rewrite Ed; exact N1|].
    fold avg in Fa, A0, Ea. rewrite Ed in Ea.
    assert (Q : (bpow radix2 (-1022) <= FR Sm / IZR n)%R).
    { apply Rle_trans with (tiny / bpow radix2 20)%R.
      - unfold tiny, Rdiv. rewrite <- bpow_opp, <- bpow_plus. apply bpow_le. lia.
      - unfold Rdiv. apply Rmult_le_compat; try lra.
        + left. apply Rinv_0_lt_compat. apply bpow_gt_0.
        + apply Rinv_le_contravar; lra. }
    pose proof (rnd_lower_normal _ Q) as L. rewrite <- Ea in L.
    pose proof (bpow_gt_0 radix2 (-1022)) as P. pose proof uu_pos as Up. rewrite uu_val in *.
    split; [exact Fa|].
    assert (D : (FR Sm / IZR n * IZR n = FR Sm)%R) by (field; lra).
    split; [|split].
    - apply Rlt_le_trans with (2 := L). apply Rmult_lt_0_compat; lra.
    - rewrite <- D at 1. rewrite Rmult_assoc, (Rmult_comm (IZR n)), <- Rmult_assoc.
      apply Rmult_le_compat_r; lra.
    - rewrite Ea. rewrite <- (rnd_FR Sm) at 2. apply rnd_le.
      apply Rmult_le_reg_r with (IZR n); [lra|]. rewrite D. nra.
  Qed.

  Lemma avg_nonzero : PrimFloat.eqb avg 0%float = false.
  Proof.
    destruct avg_facts as (Fa & Ap & _). rewrite eqb_R by auto using fin_zero. rewrite FR_zero.
    apply Req_bool_false. lra.
  Qed.

  (* one quotient *)
  Lemma quot_facts x : In x l ->
    fin (g x / avg)%float /\ (0 <= FR (g x / avg)%float <= bpow radix2 21)%R /\
    (FR (g x / avg)%float <= FR (g x) / FR avg * (1 + uu) + eta)%R.
  Proof.
    intros Hx. destruct avg_sum_facts as (F & T & LE & _ & _). destruct avg_facts as (Fa & Ap & AL & AU).
    destruct (Hl x Hx) as (Fx & X0 & _). specialize (LE x Hx).
    assert (N1 : (1 <= IZR n)%R) by (apply IZR_le; lia).
    assert (N2 : (IZR n <= bpow radix2 20)%R) by (change (bpow radix2 20) with (IZR (2 ^ 20)); apply IZR_le; lia).
    assert (Tp : (0 < tiny)%R) by apply bpow_gt_0.
    pose proof uu_pos as Up.
    assert (Q0 : (0 <= FR (g x) / FR avg)%R) by (apply Rmult_le_pos; [exact X0|left; now apply Rinv_0_lt_compat]).
    assert (Q1 : (FR (g x) / FR avg <= bpow radix2 21)%R).
    { apply Rmult_le_reg_r with (FR avg); [exact Ap|]. unfold Rdiv. rewrite Rmult_assoc, Rinv_l, Rmult_1_r by lra.
      apply Rle_trans with (1 := LE). change (bpow radix2 21) with (2 * bpow radix2 20)%R.
      assert (FR Sm <= 2 * (FR Sm * (1 - uu)))%R by (rewrite uu_val; lra).
      assert (FR avg * IZR n <= FR avg * bpow radix2 20)%R by (apply Rmult_le_compat_l; lra). lra. }
    assert (R1 : (0 <= rnd (FR (g x) / FR avg) <= bpow radix2 21)%R).
    { split; [now apply rnd_nonneg|]. rewrite <- (rnd_bpow 21) by lia. now apply rnd_le. }
    destruct (div_R (g x) avg Fx) as [E Fq]; [lra| |].
    { rewrite Rabs_pos_eq by apply R1. apply Rle_lt_trans with (1 := proj2 R1). apply bpow_lt. unfold emax. lia. }
    split; [exact Fq|]. rewrite E. split; [exact R1|]. now apply rnd_upper.
  Qed.

  (* the real sum of the exact quotients *)
  Lemma quot_sum_bound : (Fsum / FR avg <= IZR n + / 2048)%R.
  Proof.
    destruct avg_sum_facts as (F & T & _ & LB & F0). destruct avg_facts as (Fa & Ap & AL & _).
    assert (N1 : (1 <= IZR n)%R) by (apply IZR_le; lia).
    assert (N2 : (IZR n <= 1048576)%R) by (apply IZR_le; lia).
    assert (Tp : (0 < tiny)%R) by apply bpow_gt_0.
    set (q := (Fsum / FR avg)%R). set (s := FR Sm) in *. set (a := FR avg) in *.
    assert (Eq : (q * a = Fsum)%R) by (unfold q; field; lra).
    assert (Q0 : (0 <= q)%R) by (apply Rmult_le_pos; [exact F0|left; now apply Rinv_0_lt_compat]).
    pose proof uu_val as Uv.
    (* q * s * (1-u) * (1-n u) <= s * n *)
    assert (K1 : (q * (s * (1 - uu)) <= Fsum * IZR n)%R).
    { rewrite <- Eq. rewrite Rmult_assoc. apply Rmult_le_compat_l; [exact Q0|exact AL]. }
    assert (W1 : (0 <= 1 - IZR n * uu)%R) by (rewrite Uv; lra).
    assert (K2 : (q * (s * (1 - uu)) * (1 - IZR n * uu) <= s * IZR n)%R).
    { apply Rle_trans with (Fsum * IZR n * (1 - IZR n * uu))%R; [apply Rmult_le_compat_r; assumption|].
      replace (Fsum * IZR n * (1 - IZR n * uu))%R with (Fsum * (1 - IZR n * uu) * IZR n)%R by ring.
      apply Rmult_le_compat_r; lra. }
    assert (K3 : (q * ((1 - uu) * (1 - IZR n * uu)) <= IZR n)%R).
    { apply Rmult_le_reg_l with s; [lra|]. replace (s * (q * ((1 - uu) * (1 - IZR n * uu))))%R
        with (q * (s * (1 - uu)) * (1 - IZR n * uu))%R by ring. exact K2. }
    assert (W2 : (1 - / 4294967296 <= (1 - uu) * (1 - IZR n * uu))%R).
    { replace ((1 - uu) * (1 - IZR n * uu))%R with (1 - (IZR n + 1) * uu + IZR n * uu * uu)%R by ring.
      assert (0 <= IZR n * uu * uu)%R by (rewrite Uv; apply Rmult_le_pos; [apply Rmult_le_pos|]; lra).
      assert ((IZR n + 1) * uu <= 2097152 * uu)%R by (apply Rmult_le_compat_r; [rewrite Uv; lra|lra]).
      rewrite Uv in *. lra. }
    assert (K4 : (q * (1 - / 4294967296) <= IZR n)%R).
    { apply Rle_trans with (2 := K3). apply Rmult_le_compat_l; assumption. }
    destruct (Rle_or_lt q (IZR n + / 2048)) as [L|L]; [exact L|exfalso].
    assert ((IZR n + / 2048) * (1 - / 4294967296) < q * (1 - / 4294967296))%R by (apply Rmult_lt_compat_r; lra).
    lra.
  Qed.
End Avg.

(* ------------------------------------------------------------------------------------------ *)
(* 4. Species.countOffspring on floats *)
(* ------------------------------------------------------------------------------------------ *)
Definition u52 : R := bpow radix2 (-52).

Lemma Zfloor_range x : (0 <= x < bpow radix2 52)%R -> 0 <= Zfloor x < 2 ^ 52.
Proof.
  intros [H0 H1]. split; [now apply Zfloor_lub|]. apply lt_IZR. apply Rle_lt_trans with (1 := Zfloor_lb x).
  apply Rlt_le_trans with (1 := H1). change (2 ^ 52) with (Zpower radix2 52). rewrite IZR_Zpower by lia. lra.
Qed.

Lemma frac_range x : (0 <= x - IZR (Zfloor x) < 1)%R.
Proof. pose proof (Zfloor_lb x). pose proof (Zfloor_ub x). lra. Qed.

(* x - floor x is representable (Sterbenz) *)
Lemma frac_format x : generic_format radix2 fexp64 x -> (0 <= x < bpow radix2 52)%R ->
  generic_format radix2 fexp64 (x - IZR (Zfloor x)).
Proof.
  intros Fx Hx. pose proof (Zfloor_range x Hx) as Hz. destruct (Z.eq_dec (Zfloor x) 0) as [E|E].
  - rewrite E, Rminus_0_r. exact Fx.
  - rewrite fexp64_FLT in *. apply sterbenz; auto with typeclass_instances.
    + change (FLT_exp (-1074) 53) with fexp64. apply int_format53. lia.
    + pose proof (Zfloor_lb x). pose proof (Zfloor_ub x).
      assert (1 <= IZR (Zfloor x))%R by (apply IZR_le; lia). lra.
Qed.

Lemma sub_floor_exact x y : fin x -> (0 <= FR x < bpow radix2 52)%R -> fin y -> FR y = IZR (Zfloor (FR x)) ->
  fin (x - y)%float /\ FR (x - y)%float = (FR x - IZR (Zfloor (FR x)))%R.
Proof.
  intros Fx Hx Fy Ey. pose proof (frac_range (FR x)) as Hr.
  assert (G : rnd (FR x - FR y) = (FR x - IZR (Zfloor (FR x)))%R).
  { rewrite Ey. unfold rnd. apply round_generic; auto with typeclass_instances. apply frac_format; [apply FR_format|exact Hx]. }
  destruct (sub_R x y Fx Fy) as [E F].
  { rewrite G, Rabs_pos_eq by lra. apply Rlt_trans with 1%R; [lra|]. change 1%R with (bpow radix2 0). apply bpow_lt. unfold emax. lia. }
  split; [exact F|]. now rewrite E.
Qed.

(* math.Floor as a float *)
Lemma ffloor_R p : fin p -> (0 <= FR p < bpow radix2 52)%R -> fin (ffloor p) /\ FR (ffloor p) = IZR (Zfloor (FR p)).
Proof.
  intros F [H0 H1]. unfold ffloor.
  assert (E : PrimFloat.leb two52 (PrimFloat.abs p) = false).
  { rewrite leb_R by auto using fin_two52, fin_abs. rewrite FR_two52, FR_abs, Rabs_pos_eq by exact H0.
    apply Rle_bool_false. exact H1. }
  rewrite E. destruct (fin_nonneg_sf p F H0) as [[s [Es Ez]]|[m [e [Es Ev]]]]; rewrite Es.
  - split; [exact F|]. rewrite Ez. now rewrite (Zfloor_IZR 0).
  - assert (Ef : f_floor_Z p = Zfloor (FR p)).
    { unfold f_floor_Z. rewrite Es, Ev. apply sf_pos_val. }
    rewrite Ef. destruct (Z.eqb (Zfloor (FR p)) 0) eqn:Z0.
    + apply Z.eqb_eq in Z0. rewrite Z0. destruct (PrimFloat.ltb p 0).
      * split; [fin_c|]. apply FR_nzero.
      * split; [exact fin_zero|apply FR_zero].
    + destruct (Zfloor_range (FR p) (conj H0 H1)) as [Z1 Z2]. apply f_of_Z_exact. lia.
Qed.

(* math.Mod(x, 1.0) *)
Lemma fmod1_R e : fin e -> (0 <= FR e < bpow radix2 52)%R ->
  fin (fmod1 e) /\ FR (fmod1 e) = (FR e - IZR (Zfloor (FR e)))%R.
Proof.
  intros F [H0 H1]. unfold fmod1.
  assert (E : PrimFloat.leb two52 (PrimFloat.abs e) = false).
  { rewrite leb_R by auto using fin_two52, fin_abs. rewrite FR_two52, FR_abs, Rabs_pos_eq by exact H0.
    apply Rle_bool_false. exact H1. }
  assert (L0 : PrimFloat.ltb e 0 = false).
  { rewrite ltb_R by auto using fin_zero. rewrite FR_zero. apply Rlt_bool_false. exact H0. }
  destruct (fin_nonneg_sf e F H0) as [[s [Es Ez]]|[m [ex [Es Ev]]]]; rewrite Es.
  - split; [exact F|]. rewrite Ez, (Zfloor_IZR 0). lra.
  - rewrite E, L0. cbn [andb].
    rewrite (f_trunc_Z_floor e F H0) by (apply Rlt_trans with (1 := H1); exact bpow52_lt_63).
    destruct (Zfloor_range (FR e) (conj H0 H1)) as [Z1 Z2].
    destruct (f_of_Z_exact (Zfloor (FR e))) as [Fz Ez]; [lia|].
    apply sub_floor_exact; auto.
Qed.

Lemma fin_two : fin 2%float. Proof. fin_c. Qed.

(* one float addition of the carried fraction and a fractional part *)
Lemma skim_add a b : fin a -> fin b -> (0 <= FR a < 1)%R -> (0 <= FR b < 1)%R ->
  fin (a + b)%float /\ (0 <= FR (a + b)%float <= 2)%R /\ (FR (a + b)%float <= FR a + FR b + u52)%R.
Proof.
  intros Fa Fb Ha Hb.
  assert (Hq : (FR 0%float <= FR a + FR b <= FR 2%float)%R) by (rewrite FR_zero, FR_two; lra).
  destruct (add_R a b Fa Fb (rnd_no_overflow _ _ _ Hq)) as [E F].
  split; [exact F|]. rewrite E. apply rnd_between in Hq. rewrite FR_zero, FR_two in Hq. split; [exact Hq|].
  pose proof (rnd_plus_rel (FR a) (FR b) (FR_format a) (FR_format b)) as R.
  rewrite (Rabs_pos_eq (FR a + FR b)) in R by lra. apply Rabs_le_inv in R.
  assert (uu * (FR a + FR b) <= u52)%R.
  { replace u52 with (uu * 2)%R by (unfold uu, u52; change 2%R with (bpow radix2 1); rewrite <- bpow_plus; reflexivity).
    apply Rmult_le_compat_l; [left; exact uu_pos|lra]. }
  lra.
Qed.

Definition exp_ok (e : float) : Prop := fin e /\ (0 <= FR e < bpow radix2 52)%R.

Lemma two_lt_52 : (2 < bpow radix2 52)%R.
Proof. change 2%R with (bpow radix2 1). apply bpow_lt. lia. Qed.

(* Species.countOffspring on floats: offspring handed out plus the carried fraction exceed what was
   expected by at most 2^-52 per member (the one rounded operation per member is skim += frac;
   Floor, Mod and the subtraction of Floor(skim) are exact) *)
Lemma count_gen_bound : forall exps expected skim e' skim',
  Forall exp_ok exps -> fin skim -> (0 <= FR skim < 1)%R ->
  count_offspring_gen float_qnum exps expected skim = (e', skim') ->
  fin skim' /\ (0 <= FR skim' < 1)%R /\
  (IZR e' + FR skim' <= IZR expected + FR skim + Rsum (map FR exps) + INR (length exps) * u52)%R.
Proof.
  induction exps as [|e l IH]; intros expected skim e' skim' Hf Fs Hs H.
  - cbn in H. injection H as <- <-. split; [exact Fs|]. split; [exact Hs|]. cbn [map Rsum fold_right length INR]. lra.
  - inversion Hf as [|? ? [Fe He] Hl]; subst. cbn [count_offspring_gen] in H.
    cbn [q_floorZ q_ge1 q_add q_frac q_sub q_floor float_qnum] in H.
    rewrite (trunc_ffloor e Fe He) in H.
    destruct (fmod1_R e Fe He) as [Ffr Efr]. pose proof (frac_range (FR e)) as Rfr. rewrite <- Efr in Rfr.
    destruct (skim_add skim (fmod1 e) Fs Ffr Hs Rfr) as (F1 & R1 & U1).
    set (sk1 := (skim + fmod1 e)%float) in *.
    cbn [map length]. rewrite S_INR. change (Rsum (FR e :: map FR l)) with (FR e + Rsum (map FR l))%R.
    pose proof two_lt_52 as T52.
    destruct (PrimFloat.leb 1 sk1) eqn:G.
    + apply leb_true_R in G; auto using fin_one. rewrite FR_one in G.
      assert (H1 : (0 <= FR sk1 < bpow radix2 52)%R) by lra.
      rewrite (trunc_ffloor sk1 F1 H1) in H.
      destruct (ffloor_R sk1 F1 H1) as [Ffl Efl].
      destruct (sub_floor_exact sk1 (ffloor sk1) F1 H1 Ffl Efl) as [F2 E2].
      pose proof (frac_range (FR sk1)) as R2. rewrite <- E2 in R2.
      destruct (IH _ _ _ _ Hl F2 R2 H) as (A & B & C). split; [exact A|]. split; [exact B|].
      apply Rle_trans with (1 := C). rewrite E2, !plus_IZR. lra.
    + rewrite leb_R in G by auto using fin_one. rewrite FR_one in G.
      assert (H1 : (FR sk1 < 1)%R) by (revert G; case Rle_bool_spec; [discriminate|auto]).
      destruct (IH _ _ _ _ Hl F1 (conj (proj1 R1) H1) H) as (A & B & C). split; [exact A|]. split; [exact B|].
      apply Rle_trans with (1 := C). rewrite plus_IZR. lra.
Qed.

(* ... and the count only grows: every int(math.Floor(.)) added is the conversion of a finite value in
   [0, 2^52), hence not negative (on amd64 an out-of-range conversion - NaN, an infinity, 2^63 and
   beyond - would add math.MinInt64 instead: F64.f_trunc_Z) *)
Lemma count_gen_lower : forall exps expected skim e' skim',
  Forall exp_ok exps -> fin skim -> (0 <= FR skim < 1)%R ->
  count_offspring_gen float_qnum exps expected skim = (e', skim') -> expected <= e'.
Proof.
  induction exps as [|e l IH]; intros expected skim e' skim' Hf Fs Hs H.
  - cbn in H. injection H as <- _. lia.
  - inversion Hf as [|? ? [Fe He] Hl]; subst. cbn [count_offspring_gen] in H.
    cbn [q_floorZ q_ge1 q_add q_frac q_sub q_floor float_qnum] in H.
    rewrite (trunc_ffloor e Fe He) in H.
    assert (Z0 : 0 <= Zfloor (FR e)) by (apply Zfloor_lub; apply He).
    destruct (fmod1_R e Fe He) as [Ffr Efr]. pose proof (frac_range (FR e)) as Rfr. rewrite <- Efr in Rfr.
    destruct (skim_add skim (fmod1 e) Fs Ffr Hs Rfr) as (F1 & R1 & U1).
    set (sk1 := (skim + fmod1 e)%float) in *.
    pose proof two_lt_52 as T52.
    destruct (PrimFloat.leb 1 sk1) eqn:G.
    + apply leb_true_R in G; auto using fin_one. rewrite FR_one in G.
      assert (H1 : (0 <= FR sk1 < bpow radix2 52)%R) by lra.
      rewrite (trunc_ffloor sk1 F1 H1) in H.
      assert (Z1 : 0 <= Zfloor (FR sk1)) by (apply Zfloor_lub; apply H1).
      destruct (ffloor_R sk1 F1 H1) as [Ffl Efl].
      destruct (sub_floor_exact sk1 (ffloor sk1) F1 H1 Ffl Efl) as [F2 E2].
      pose proof (frac_range (FR sk1)) as R2. rewrite <- E2 in R2.
      pose proof (IH _ _ _ _ Hl F2 R2 H). lia.
    + rewrite leb_R in G by auto using fin_one. rewrite FR_one in G.
      assert (H1 : (FR sk1 < 1)%R) by (revert G; case Rle_bool_spec; [discriminate|auto]).
      pose proof (IH _ _ _ _ Hl F1 (conj (proj1 R1) H1) H). lia.
Qed.

(* "finite and 0 <= e < 2^52" as float comparisons *)
Lemma exp_ok_of_cmp e : PrimFloat.leb 0%float e = true -> PrimFloat.ltb e two52 = true -> exp_ok e.
Proof.
  intros H0 H1. assert (F : fin e) by exact (leb0_ltbfin_fin _ _ H0 H1). split; [exact F|]. split.
  - rewrite <- FR_zero. apply leb_true_R; auto using fin_zero.
  - rewrite <- FR_two52. apply ltb_true_R; auto using fin_two52.
Qed.

