(* C07 / C08: the hand-written model of the compatibility distance IS the code of genome_compatibility.go.

   gen/CompatBodies.v is regenerated on every run by `neatverif translate compatbodies`: the bodies of
   Genome.compatLinear and Genome.compatFast translated construct by construct, over the two gene lists and the
   three coefficients; slice indexing and pointer dereference can panic (explicit values), the index loops are
   fuel-bounded recursions over the tuple of the variables they assign (OutOfFuel when the fuel runs out).
   This file is checked in.  It proves that the translated functions return exactly what the model functions
   [compat_linear float_num] / [compat_fast float_num] of model/Compat.v return -- in particular that the fuel
   always suffices, no index is out of range and no nil pointer is dereferenced.  The proofs are loop invariants:
   the index state (i1, i2) of the translated loop corresponds to the suffixes (linear: forward walk) resp. the
   reversed prefixes (fast: backward walk) the model recurses on. *)
From Coq Require Import ZArith List Bool Floats Lia.
From NeatModel Require Import Res F64 Compat GoSlice CompatBodies.
Import ListNotations.
Open Scope Z_scope.

(* ---------------------------------------------------------------------------------------------- *)
(* slices                                                                                          *)
(* ---------------------------------------------------------------------------------------------- *)

Lemma go_len_at {A} (a p l : list A) : a = p ++ l -> go_len a = Z.of_nat (length p) + Z.of_nat (length l).
Proof. intros ->. unfold go_len. rewrite app_length. lia. Qed.

Lemma go_index_at {A} (a p : list A) (x : A) (l : list A) :
  a = p ++ x :: l -> go_index a (Z.of_nat (length p)) = Ok x.
Proof.
  intros ->. unfold go_index, go_len. rewrite app_length. cbn [length].
  replace (0 <=? Z.of_nat (length p)) with true by (symmetry; apply Z.leb_le; lia).
  replace (Z.of_nat (length p) <? Z.of_nat (length p + S (length l))) with true by (symmetry; apply Z.ltb_lt; lia).
  cbn [andb]. rewrite Nat2Z.id, nth_error_app2 by lia. now rewrite Nat.sub_diag.
Qed.

Lemma snoc_assoc {A} (p : list A) (x : A) (l : list A) : p ++ x :: l = (p ++ [x]) ++ l.
Proof. now rewrite <- app_assoc. Qed.

Lemma length_snoc {A} (p : list A) (x : A) : Z.of_nat (length (p ++ [x])) = Z.of_nat (length p) + 1.
Proof. rewrite app_length. cbn [length]. lia. Qed.

(* ---------------------------------------------------------------------------------------------- *)
(* compatLinear                                                                                    *)
(* ---------------------------------------------------------------------------------------------- *)

Notation fgene := (Z * float)%type (only parsing).

Definition lst (dj ex md m : float) : lin_state float :=
  {| ls_disjoint := dj; ls_excess := ex; ls_mutdiff := md; ls_matching := m |}.

(* one step of the model's walk, case by case (all by computation) *)
Lemma lin_walk_nil_nil st : lin_walk float_num [] [] st = st.
Proof. reflexivity. Qed.
Lemma lin_walk_nil_cons (y : fgene) l2 dj ex md m :
  lin_walk float_num [] (y :: l2) (lst dj ex md m) = lin_walk float_num [] l2 (lst dj (ex + 1)%float md m).
Proof. reflexivity. Qed.
Lemma lin_walk_cons_nil (x : fgene) l1 dj ex md m :
  lin_walk float_num (x :: l1) [] (lst dj ex md m) = lin_walk float_num l1 [] (lst dj (ex + 1)%float md m).
Proof. reflexivity. Qed.
Lemma lin_walk_cons_cons (x y : fgene) l1 l2 dj ex md m :
  lin_walk float_num (x :: l1) (y :: l2) (lst dj ex md m) =
  if Z.eqb (fst x) (fst y) then lin_walk float_num l1 l2 (lst dj ex (md + abs (snd x - snd y))%float (m + 1)%float)
  else if Z.ltb (fst x) (fst y) then lin_walk float_num l1 (y :: l2) (lst (dj + 1)%float ex md m)
  else lin_walk float_num (x :: l1) l2 (lst (dj + 1)%float ex md m).
Proof. reflexivity. Qed.

(* "the loop returned normally, in a state whose numeric part is the model state [st]" (the two gene pointers are
   dead after the loop) *)
Definition lin_result_is (r : res (Z * Z * float * option fgene * option fgene * float * float * float))
           (n1 n2 : Z) (st : lin_state float) : Prop :=
  match r with
  | Ok (i1, i2, ex, _, _, m, md, dj) =>
    i1 = n1 /\ i2 = n2 /\ ex = ls_excess _ st /\ m = ls_matching _ st /\ md = ls_mutdiff _ st /\ dj = ls_disjoint _ st
  | _ => False
  end.

(* the loop invariant: at indices (|p1|, |p2|) with the rest l1, l2 still to walk, the translated loop ends in
   the state the model's walk over (l1, l2) ends in; fuel |l1| + |l2| + 1 is enough *)
Lemma linear_loop_agrees : forall dc ec mc (a b : list fgene) (fuel : nat) p1 l1 p2 l2 dj ex md m g1 g2,
    a = p1 ++ l1 -> b = p2 ++ l2 -> (length l1 + length l2 < fuel)%nat ->
    lin_result_is
      (gen_compat_linear_loop1 dc ec mc a b (go_len a) (go_len b) fuel
         (Z.of_nat (length p1), Z.of_nat (length p2), ex, g1, g2, m, md, dj))
      (go_len a) (go_len b) (lin_walk float_num l1 l2 (lst dj ex md m)).
Proof.
  intros dc ec mc a b fuel. induction fuel as [|fuel IH]; intros p1 l1 p2 l2 dj ex md m g1 g2 Ha Hb Hf; [lia|].
  pose proof (go_len_at a p1 l1 Ha) as La. pose proof (go_len_at b p2 l2 Hb) as Lb.
  cbn [gen_compat_linear_loop1].
  destruct l1 as [|x l1]; destruct l2 as [|y l2]; cbn [length] in *.
  - (* both exhausted: the loop condition is false *)
    replace (Z.of_nat (length p1) <? go_len a) with false by (symmetry; apply Z.ltb_ge; lia).
    replace (Z.of_nat (length p2) <? go_len b) with false by (symmetry; apply Z.ltb_ge; lia).
    cbn [orb]. rewrite lin_walk_nil_nil. cbn [lin_result_is lst ls_excess ls_matching ls_mutdiff ls_disjoint].
    repeat split; lia.
  - (* genome 1 exhausted: excess gene of genome 2 *)
    replace (Z.of_nat (length p1) <? go_len a) with false by (symmetry; apply Z.ltb_ge; lia).
    replace (Z.of_nat (length p2) <? go_len b) with true by (symmetry; apply Z.ltb_lt; lia).
    cbn [orb].
    replace (go_len a <=? Z.of_nat (length p1)) with true by (symmetry; apply Z.leb_le; lia).
    rewrite <- length_snoc with (x := y).
    rewrite lin_walk_nil_cons.
    apply IH; [exact Ha | rewrite Hb; apply snoc_assoc | cbn [length]; lia].
  - (* genome 2 exhausted: excess gene of genome 1 *)
    replace (Z.of_nat (length p1) <? go_len a) with true by (symmetry; apply Z.ltb_lt; lia).
    cbn [orb].
    replace (go_len a <=? Z.of_nat (length p1)) with false by (symmetry; apply Z.leb_gt; lia).
    replace (go_len b <=? Z.of_nat (length p2)) with true by (symmetry; apply Z.leb_le; lia).
    rewrite <- length_snoc with (x := x).
    rewrite lin_walk_cons_nil.
    apply IH; [rewrite Ha; apply snoc_assoc | exact Hb | cbn [length]; lia].
  - (* a gene on both sides *)
    replace (Z.of_nat (length p1) <? go_len a) with true by (symmetry; apply Z.ltb_lt; lia).
    cbn [orb].
    replace (go_len a <=? Z.of_nat (length p1)) with false by (symmetry; apply Z.leb_gt; lia).
    replace (go_len b <=? Z.of_nat (length p2)) with false by (symmetry; apply Z.leb_gt; lia).
    rewrite (go_index_at a p1 x l1 Ha), (go_index_at b p2 y l2 Hb).
    cbn [bind go_deref].
    rewrite lin_walk_cons_cons.
    destruct (Z.eqb (fst x) (fst y)) eqn:E.
    + rewrite <- (length_snoc p1 x), <- (length_snoc p2 y).
      apply IH; [rewrite Ha; apply snoc_assoc | rewrite Hb; apply snoc_assoc | cbn [length]; lia].
    + destruct (Z.ltb (fst x) (fst y)) eqn:E1.
      * rewrite <- (length_snoc p1 x).
        apply IH; [rewrite Ha; apply snoc_assoc | exact Hb | cbn [length]; lia].
      * replace (fst y <? fst x) with true
          by (symmetry; apply Z.ltb_lt; apply Z.eqb_neq in E; apply Z.ltb_ge in E1; lia).
        rewrite <- (length_snoc p2 y).
        apply IH; [exact Ha | rewrite Hb; apply snoc_assoc | cbn [length]; lia].
Qed.

(* the guard of the model's division never fires where the code divides: 0 < m excludes m == 0 *)
Lemma float_pos_not_zero : forall m : float, PrimFloat.ltb 0 m = true -> PrimFloat.eqb m 0 = false.
Proof.
  intros m H. rewrite ltb_spec in H. rewrite eqb_spec.
  change (Prim2SF 0) with (S754_zero false) in *.
  destruct (Prim2SF m) as [s|s| |s mm e]; cbn in *; try discriminate; destruct s; try discriminate; reflexivity.
Qed.

Theorem gen_compat_linear_agrees : forall (dc ec mc : float) (a b : list fgene),
    gen_compat_linear dc ec mc a b = compat_linear float_num dc ec mc a b.
Proof.
  intros dc ec mc a b.
  pose proof (linear_loop_agrees dc ec mc a b (S (length a + length b)) [] a [] b 0%float 0%float 0%float 0%float None None
                                 eq_refl eq_refl ltac:(lia)) as H.
  unfold gen_compat_linear, compat_linear. cbv zeta.
  cbn [length Z.of_nat] in H.
  change (lin_init float_num) with (lst 0 0 0 0).
  set (w := lin_walk float_num a b (lst 0 0 0 0)) in *.
  destruct (gen_compat_linear_loop1 dc ec mc a b (go_len a) (go_len b) (S (length a + length b))
              (0, 0, 0%float, None, None, 0%float, 0%float, 0%float))
    as [[[[[[[[i1 i2] ex] g1] g2] m] md] dj]| | | | |]; try contradiction.
  destruct H as (_ & _ & -> & -> & -> & ->).
  cbn [bind float_num nltb nzero nadd nmul ndiv nis_zero ndiv_guarded].
  unfold ndiv_guarded. cbn [float_num nis_zero ndiv].
  destruct (PrimFloat.ltb 0 (ls_matching float w)) eqn:E.
  - change PrimFloat.zero with 0%float. rewrite E, (float_pos_not_zero _ E). reflexivity.
  - change PrimFloat.zero with 0%float. rewrite E. reflexivity.
Qed.

(* ---------------------------------------------------------------------------------------------- *)
(* compatFast                                                                                      *)
(* ---------------------------------------------------------------------------------------------- *)

Definition fst4 (sw m : Z) (c md : float) : fast_state float :=
  {| fs_switch := sw; fs_matching := m; fs_compat := c; fs_mutdiff := md |}.

(* the excess/disjoint switch when the gene of genome 2 (resp. genome 1) has the larger number:
   new (compatibility, excessGenesSwitch) *)
Definition sw2 (dc ec : float) (sw : Z) (c : float) : float * Z :=
  if sw =? 3 then ((c + dc)%float, sw) else if sw =? 2 then ((c + ec)%float, sw)
  else if sw =? 1 then ((c + dc)%float, 3) else ((c + ec)%float, 2).
Definition sw1 (dc ec : float) (sw : Z) (c : float) : float * Z :=
  if sw =? 3 then ((c + dc)%float, sw) else if sw =? 1 then ((c + ec)%float, sw)
  else if sw =? 2 then ((c + dc)%float, 3) else ((c + ec)%float, 1).

Lemma join_sw2 dc ec sw c :
  (if sw =? 3 then Ok ((c + dc)%float, sw) else if sw =? 2 then Ok ((c + ec)%float, sw)
   else if sw =? 1 then Ok ((c + dc)%float, 3) else Ok ((c + ec)%float, 2)) = Ok (sw2 dc ec sw c).
Proof. unfold sw2. destruct (sw =? 3), (sw =? 2), (sw =? 1); reflexivity. Qed.
Lemma join_sw1 dc ec sw c :
  (if sw =? 3 then Ok ((c + dc)%float, sw) else if sw =? 1 then Ok ((c + ec)%float, sw)
   else if sw =? 2 then Ok ((c + dc)%float, 3) else Ok ((c + ec)%float, 1)) = Ok (sw1 dc ec sw c).
Proof. unfold sw1. destruct (sw =? 3), (sw =? 2), (sw =? 1); reflexivity. Qed.

(* one step of the model's backward walk, case by case *)
Lemma fast_walk_nil_l dc ec (r2 : list fgene) sw m c md :
  fast_walk float_num dc ec [] r2 (fst4 sw m c md) =
  fst4 sw m (c + f_of_Z (Z.of_nat (length r2)) * dc)%float md.
Proof. destruct r2; reflexivity. Qed.
Lemma fast_walk_nil_r dc ec (x : fgene) r1 sw m c md :
  fast_walk float_num dc ec (x :: r1) [] (fst4 sw m c md) =
  fst4 sw m (c + f_of_Z (Z.of_nat (length (x :: r1))) * dc)%float md.
Proof. reflexivity. Qed.
Lemma fast_walk_gt dc ec (x y : fgene) r1 r2 sw m c md :
  (fst x <? fst y) = true ->
  fast_walk float_num dc ec (x :: r1) (y :: r2) (fst4 sw m c md) =
  fast_walk float_num dc ec (x :: r1) r2 (fst4 (snd (sw2 dc ec sw c)) m (fst (sw2 dc ec sw c)) md).
Proof.
  intros H. cbn [fast_walk]. unfold innov. rewrite Z.gtb_ltb, H. unfold sw2, fst4. cbn [fs_switch fs_matching fs_compat fs_mutdiff].
  destruct (sw =? 3), (sw =? 2), (sw =? 1); reflexivity.
Qed.
Lemma fast_walk_eq dc ec (x y : fgene) r1 r2 sw m c md :
  (fst x <? fst y) = false -> (fst x =? fst y) = true ->
  fast_walk float_num dc ec (x :: r1) (y :: r2) (fst4 sw m c md) =
  fast_walk float_num dc ec r1 r2 (fst4 3 (m + 1) c (md + abs (snd x - snd y))%float).
Proof.
  intros H E. cbn [fast_walk]. unfold innov. rewrite Z.gtb_ltb, H, E. reflexivity.
Qed.
Lemma fast_walk_lt dc ec (x y : fgene) r1 r2 sw m c md :
  (fst x <? fst y) = false -> (fst x =? fst y) = false ->
  fast_walk float_num dc ec (x :: r1) (y :: r2) (fst4 sw m c md) =
  fast_walk float_num dc ec r1 (y :: r2) (fst4 (snd (sw1 dc ec sw c)) m (fst (sw1 dc ec sw c)) md).
Proof.
  intros H E. cbn [fast_walk]. unfold innov. rewrite Z.gtb_ltb, H, E. unfold sw1, fst4. cbn [fs_switch fs_matching fs_compat fs_mutdiff].
  destruct (sw =? 3), (sw =? 2), (sw =? 1); reflexivity.
Qed.

Definition fast_result_is (r : res (float * Z * Z * float * Z * Z * option fgene * option fgene))
           (st : fast_state float) : Prop :=
  match r with
  | Ok (c, sw, _, md, m, _, _, _) =>
    c = fs_compat _ st /\ sw = fs_switch _ st /\ md = fs_mutdiff _ st /\ m = fs_matching _ st
  | _ => False
  end.

Lemma rev_cons_at (b : list fgene) (y' : fgene) r2 (y : fgene) t2 :
  b = rev (y' :: r2) ++ y :: t2 -> b = rev r2 ++ y' :: (y :: t2).
Proof. intros ->. cbn [rev]. now rewrite <- app_assoc. Qed.

Lemma go_index_rev_at (a : list fgene) r (x : fgene) t :
  a = rev r ++ x :: t -> go_index a (Z.of_nat (length r)) = Ok x.
Proof. intros H. pose proof (go_index_at a (rev r) x t H) as I. now rewrite rev_length in I. Qed.

(* the loop invariant: list1Idx = |r1|, list2Idx = |r2| where x :: r1, y :: r2 are the parts of the two gene lists
   not yet passed, last gene first, and gene1, gene2 point to x, y.  The translated loop ends in the state the
   model's backward walk over (x :: r1, y :: r2) ends in; fuel |r1| + |r2| + 1 is enough.  (The two counts
   list1Count, list2Count are parameters of the loop function but not read by it.) *)
Lemma fast_loop_agrees : forall dc ec mc (a b : list fgene) n1 n2 (fuel : nat) x r1 t1 y r2 t2 sw m c md,
    a = rev r1 ++ x :: t1 -> b = rev r2 ++ y :: t2 -> (length r1 + length r2 < fuel)%nat ->
    fast_result_is
      (gen_compat_fast_loop1 dc ec mc a b n1 n2 fuel
         (c, sw, Z.of_nat (length r2), md, m, Z.of_nat (length r1), Some x, Some y))
      (fast_walk float_num dc ec (x :: r1) (y :: r2) (fst4 sw m c md)).
Proof.
  intros dc ec mc a b n1 n2 fuel. induction fuel as [|fuel IH]; intros x r1 t1 y r2 t2 sw m c md Ha Hb Hf; [lia|].
  pose proof (go_index_rev_at a r1 x t1 Ha) as Ia. pose proof (go_index_rev_at b r2 y t2 Hb) as Ib.
  cbn [gen_compat_fast_loop1 bind go_deref].
  destruct (fst x <? fst y) eqn:G.
  - (* the gene of genome 2 has the larger number: list2Idx-- *)
    rewrite join_sw2, (fast_walk_gt dc ec x y r1 r2 sw m c md G).
    destruct (sw2 dc ec sw c) as [c' sw'] eqn:J. cbn [bind fst snd].
    replace (Z.of_nat (length r1) <? 0) with false by (symmetry; apply Z.ltb_ge; lia).
    destruct r2 as [|y' r2].
    + change (Z.of_nat (length (@nil fgene)) - 1 <? 0) with true. cbv iota.
      rewrite fast_walk_nil_r.
      replace (Z.of_nat (length r1) + 1) with (Z.of_nat (length (x :: r1))) by (cbn [length]; lia).
      cbn [fast_result_is fst4 fs_compat fs_switch fs_mutdiff fs_matching]. repeat split.
    + replace (Z.of_nat (length (y' :: r2)) - 1) with (Z.of_nat (length r2)) by (cbn [length]; lia).
      replace (Z.of_nat (length r2) <? 0) with false by (symmetry; apply Z.ltb_ge; lia).
      rewrite Ia, (go_index_rev_at b r2 y' (y :: t2) (rev_cons_at b y' r2 y t2 Hb)). cbn [bind].
      apply IH with (t1 := t1) (t2 := y :: t2); [exact Ha | exact (rev_cons_at b y' r2 y t2 Hb) | cbn [length] in Hf; lia].
  - destruct (fst x =? fst y) eqn:E.
    + (* matching genes: both indices move *)
      rewrite (fast_walk_eq dc ec x y r1 r2 sw m c md G E). cbn [bind].
      destruct r1 as [|x' r1].
      * change (Z.of_nat (length (@nil fgene)) - 1 <? 0) with true. cbv iota.
        rewrite fast_walk_nil_l.
        replace (Z.of_nat (length r2) - 1 + 1) with (Z.of_nat (length r2)) by lia.
        cbn [fast_result_is fst4 fs_compat fs_switch fs_mutdiff fs_matching]. repeat split.
      * replace (Z.of_nat (length (x' :: r1)) - 1) with (Z.of_nat (length r1)) by (cbn [length]; lia).
        replace (Z.of_nat (length r1) <? 0) with false by (symmetry; apply Z.ltb_ge; lia).
        destruct r2 as [|y' r2].
        -- change (Z.of_nat (length (@nil fgene)) - 1 <? 0) with true. cbv iota.
           rewrite fast_walk_nil_r.
           replace (Z.of_nat (length r1) + 1) with (Z.of_nat (length (x' :: r1))) by (cbn [length]; lia).
           cbn [fast_result_is fst4 fs_compat fs_switch fs_mutdiff fs_matching]. repeat split.
        -- replace (Z.of_nat (length (y' :: r2)) - 1) with (Z.of_nat (length r2)) by (cbn [length]; lia).
           replace (Z.of_nat (length r2) <? 0) with false by (symmetry; apply Z.ltb_ge; lia).
           rewrite (go_index_rev_at a r1 x' (x :: t1) (rev_cons_at a x' r1 x t1 Ha)),
                   (go_index_rev_at b r2 y' (y :: t2) (rev_cons_at b y' r2 y t2 Hb)). cbn [bind].
           apply IH with (t1 := x :: t1) (t2 := y :: t2);
             [exact (rev_cons_at a x' r1 x t1 Ha) | exact (rev_cons_at b y' r2 y t2 Hb) | cbn [length] in Hf; lia].
    + (* the gene of genome 1 has the larger number: list1Idx-- *)
      rewrite join_sw1, (fast_walk_lt dc ec x y r1 r2 sw m c md G E).
      destruct (sw1 dc ec sw c) as [c' sw'] eqn:J. cbn [bind fst snd].
      destruct r1 as [|x' r1].
      * change (Z.of_nat (length (@nil fgene)) - 1 <? 0) with true. cbv iota.
        rewrite fast_walk_nil_l.
        replace (Z.of_nat (length r2) + 1) with (Z.of_nat (length (y :: r2))) by (cbn [length]; lia).
        cbn [fast_result_is fst4 fs_compat fs_switch fs_mutdiff fs_matching]. repeat split.
      * replace (Z.of_nat (length (x' :: r1)) - 1) with (Z.of_nat (length r1)) by (cbn [length]; lia).
        replace (Z.of_nat (length r1) <? 0) with false by (symmetry; apply Z.ltb_ge; lia).
        replace (Z.of_nat (length r2) <? 0) with false by (symmetry; apply Z.ltb_ge; lia).
        rewrite (go_index_rev_at a r1 x' (x :: t1) (rev_cons_at a x' r1 x t1 Ha)), Ib. cbn [bind].
        apply IH with (t1 := x :: t1) (t2 := t2); [exact (rev_cons_at a x' r1 x t1 Ha) | exact Hb | cbn [length] in Hf; lia].
Qed.

Lemma rev_nonempty (l : list fgene) : l <> [] -> exists x r, rev l = x :: r /\ l = rev r ++ [x].
Proof.
  intros H. destruct (rev l) as [|x r] eqn:E.
  - exfalso. apply H. rewrite <- (rev_involutive l), E. reflexivity.
  - exists x, r. split; [reflexivity|]. rewrite <- (rev_involutive l), E. reflexivity.
Qed.

Lemma compat_fast_cons dc ec mc (a0 : fgene) a' (b0 : fgene) b' :
  compat_fast float_num dc ec mc (a0 :: a') (b0 :: b') =
  let st := fast_walk float_num dc ec (rev (a0 :: a')) (rev (b0 :: b')) (fst4 0 0 0 0) in
  if 0 <? fs_matching _ st
  then do q <- ndiv_guarded float_num (fs_mutdiff _ st * mc)%float (f_of_Z (fs_matching _ st)); Ok (fs_compat _ st + q)%float
  else Ok (fs_compat _ st).
Proof. unfold compat_fast, rev'. rewrite <- !rev_alt. reflexivity. Qed.

Lemma of_nat_S_eqb0 (n : nat) : (Z.of_nat (S n) =? 0) = false.
Proof. apply Z.eqb_neq. lia. Qed.

(* The translated compatFast returns what the model returns, unless the model's division guard fires.  (The guard
   fires only if float64(numMatching) == 0 with numMatching > 0, i.e. for 2^63 or more matching genes, where F64.f_of_Z
   no longer is Go's conversion; see the corollary below.) *)
Theorem gen_compat_fast_agrees_or_guard : forall (dc ec mc : float) (a b : list fgene),
    compat_fast float_num dc ec mc a b = DivByZero \/
    gen_compat_fast dc ec mc a b = compat_fast float_num dc ec mc a b.
Proof.
  intros dc ec mc a b.
  destruct a as [|a0 a'].
  { destruct b as [|b0 b']; right.
    - reflexivity.
    - unfold gen_compat_fast. cbv zeta. unfold go_len. cbn [length].
      rewrite of_nat_S_eqb0. change (Z.of_nat 0 =? 0) with true. cbn [andb]. cbv iota.
      cbn [compat_fast float_num nof_Z nmul length]. reflexivity. }
  destruct b as [|b0 b'].
  { right. unfold gen_compat_fast. cbv zeta. unfold go_len. cbn [length].
    rewrite of_nat_S_eqb0. change (Z.of_nat 0 =? 0) with true. cbn [andb]. cbv iota.
    cbn [compat_fast float_num nof_Z nmul length]. reflexivity. }
  rewrite compat_fast_cons.
  remember (a0 :: a') as a eqn:Ea. remember (b0 :: b') as b eqn:Eb.
  destruct (rev_nonempty a ltac:(subst; discriminate)) as (x & r1 & R1 & A1).
  destruct (rev_nonempty b ltac:(subst; discriminate)) as (y & r2 & R2 & B1).
  assert (La : length a = S (length r1)) by (rewrite A1 at 1; rewrite app_length, rev_length; cbn [length]; lia).
  assert (Lb : length b = S (length r2)) by (rewrite B1 at 1; rewrite app_length, rev_length; cbn [length]; lia).
  rewrite R1, R2.
  unfold gen_compat_fast. cbv zeta. unfold go_len. rewrite La, Lb, !of_nat_S_eqb0. cbn [andb]. cbv iota.
  replace (Z.of_nat (S (length r1)) - 1) with (Z.of_nat (length r1)) by lia.
  replace (Z.of_nat (S (length r2)) - 1) with (Z.of_nat (length r2)) by lia.
  rewrite (go_index_rev_at a r1 x [] A1), (go_index_rev_at b r2 y [] B1). cbn [bind].
  pose proof (fast_loop_agrees dc ec mc a b (Z.of_nat (S (length r1))) (Z.of_nat (S (length r2)))
                (S (S (length r1) + S (length r2))) x r1 [] y r2 [] 0 0 0%float 0%float A1 B1 ltac:(lia)) as H.
  set (w := fast_walk float_num dc ec (x :: r1) (y :: r2) (fst4 0 0 0 0)) in *.
  destruct (gen_compat_fast_loop1 dc ec mc a b (Z.of_nat (S (length r1))) (Z.of_nat (S (length r2)))
              (S (S (length r1) + S (length r2)))
              (0%float, 0, Z.of_nat (length r2), 0%float, 0, Z.of_nat (length r1), Some x, Some y))
    as [[[[[[[[c sw] i2] md] m] i1] g1] g2]| | | | |]; try contradiction.
  destruct H as (-> & -> & -> & ->). cbn [bind].
  unfold ndiv_guarded. cbn [float_num nis_zero ndiv].
  destruct (0 <? fs_matching float w) eqn:P.
  - destruct (PrimFloat.eqb (f_of_Z (fs_matching float w)) PrimFloat.zero) eqn:Z0.
    + left. reflexivity.
    + right. reflexivity.
  - right. reflexivity.
Qed.

(* numMatching grows by at most one per gene of genome 1 *)
Lemma fast_walk_matching_bound : forall dc ec (n : nat) (r1 r2 : list fgene) sw m c md,
    (length r1 + length r2 <= n)%nat ->
    m <= fs_matching _ (fast_walk float_num dc ec r1 r2 (fst4 sw m c md)) <= m + Z.of_nat (length r1).
Proof.
  intros dc ec n. induction n as [|n IH]; intros r1 r2 sw m c md Hn.
  - destruct r1; [|cbn [length] in Hn; lia]. rewrite fast_walk_nil_l. cbn [fst4 fs_matching length]. lia.
  - destruct r1 as [|x r1]; [rewrite fast_walk_nil_l; cbn [fst4 fs_matching length]; lia|].
    destruct r2 as [|y r2]; [rewrite fast_walk_nil_r; cbn [fst4 fs_matching length]; lia|].
    cbn [length] in Hn.
    destruct (fst x <? fst y) eqn:G.
    + rewrite (fast_walk_gt dc ec x y r1 r2 sw m c md G).
      pose proof (IH (x :: r1) r2 (snd (sw2 dc ec sw c)) m (fst (sw2 dc ec sw c)) md ltac:(cbn [length]; lia)) as B.
      cbn [length] in *. lia.
    + destruct (fst x =? fst y) eqn:E.
      * rewrite (fast_walk_eq dc ec x y r1 r2 sw m c md G E).
        pose proof (IH r1 r2 3 (m + 1) c (md + abs (snd x - snd y))%float ltac:(lia)) as B. cbn [length]. lia.
      * rewrite (fast_walk_lt dc ec x y r1 r2 sw m c md G E).
        pose proof (IH r1 (y :: r2) (snd (sw1 dc ec sw c)) m (fst (sw1 dc ec sw c)) md ltac:(cbn [length]; lia)) as B.
        cbn [length] in *. lia.
Qed.

(* float64(n) is not zero for an int n > 0 (F64.f_of_Z is Go's conversion for |n| < 2^63) *)
From Coq Require Reals Lra.
From Flocq Require Core.
From NeatModel Require ActFloatBase EpochTotalFloat FloatMono.

Lemma f_of_Z_nonzero (n : Z) : 1 <= n < 2 ^ 63 -> PrimFloat.eqb (f_of_Z n) PrimFloat.zero = false.
Proof.
  intros H. destruct (FloatMono.f_of_Z_ge1 n H) as [F G].
  change PrimFloat.zero with 0%float.
  rewrite (ActFloatBase.eqb_R _ _ F EpochTotalFloat.fin_zero), ActFloatBase.FR_zero.
  apply Flocq.Core.Raux.Req_bool_false. Lra.lra.
Qed.

(* the model's division guard does not fire when the gene slice of the first genome is a Go slice (len fits in int) *)
Lemma compat_fast_no_guard : forall (dc ec mc : float) (a b : list fgene),
    Z.of_nat (length a) < 2 ^ 63 -> compat_fast float_num dc ec mc a b <> DivByZero.
Proof.
  intros dc ec mc a b Hlen.
  destruct a as [|a0 a']; [destruct b; discriminate|].
  destruct b as [|b0 b']; [discriminate|].
  rewrite compat_fast_cons. cbv zeta.
  pose proof (fast_walk_matching_bound dc ec _ (rev (a0 :: a')) (rev (b0 :: b')) 0 0 0%float 0%float (Nat.le_refl _)) as B.
  rewrite rev_length in B.
  set (w := fast_walk float_num dc ec (rev (a0 :: a')) (rev (b0 :: b')) (fst4 0 0 0 0)) in *.
  destruct (0 <? fs_matching float w) eqn:P; [|discriminate].
  apply Z.ltb_lt in P.
  unfold ndiv_guarded. cbn [float_num nis_zero].
  rewrite f_of_Z_nonzero by lia. discriminate.
Qed.

Theorem gen_compat_fast_agrees : forall (dc ec mc : float) (a b : list fgene),
    Z.of_nat (length a) < 2 ^ 63 ->
    gen_compat_fast dc ec mc a b = compat_fast float_num dc ec mc a b.
Proof.
  intros dc ec mc a b Hlen.
  destruct (gen_compat_fast_agrees_or_guard dc ec mc a b) as [G|E]; [|exact E].
  exfalso. exact (compat_fast_no_guard dc ec mc a b Hlen G).
Qed.

(* both translated functions return a number -- no panic, no exhausted fuel -- and it is the model's *)
Corollary gen_compat_is_compat_float : forall (linear : bool) (dc ec mc : float) (a b : list fgene),
    Z.of_nat (length a) < 2 ^ 63 ->
    (if linear then gen_compat_linear dc ec mc a b else gen_compat_fast dc ec mc a b) =
    compatibility float_num linear dc ec mc a b.
Proof.
  intros [|] dc ec mc a b H; unfold compatibility.
  - apply gen_compat_linear_agrees.
  - now apply gen_compat_fast_agrees.
Qed.

(* the value a caller sees ([compat_float], used by the speciation model) is the value the translated code returns *)
Lemma compat_linear_float_ok : forall (dc ec mc : float) (a b : list fgene),
    exists v, compat_linear float_num dc ec mc a b = Ok v.
Proof.
  intros dc ec mc a b. unfold compat_linear. cbv zeta.
  set (w := lin_walk float_num a b (lin_init float_num)).
  cbn [float_num nltb nzero]. change PrimFloat.zero with 0%float.
  destruct (PrimFloat.ltb 0 (ls_matching float w)) eqn:E; [|eexists; reflexivity].
  unfold ndiv_guarded. cbn [float_num nis_zero]. change PrimFloat.zero with 0%float.
  rewrite (float_pos_not_zero _ E). eexists; reflexivity.
Qed.

Lemma compat_fast_float_ok : forall (dc ec mc : float) (a b : list fgene),
    Z.of_nat (length a) < 2 ^ 63 -> exists v, compat_fast float_num dc ec mc a b = Ok v.
Proof.
  intros dc ec mc a b Hlen. pose proof (compat_fast_no_guard dc ec mc a b Hlen) as NG.
  destruct a as [|a0 a']; [destruct b; eexists; reflexivity|].
  destruct b as [|b0 b']; [eexists; reflexivity|].
  rewrite compat_fast_cons in *. cbv zeta in *.
  set (w := fast_walk float_num dc ec (rev (a0 :: a')) (rev (b0 :: b')) (fst4 0 0 0 0)) in *.
  destruct (0 <? fs_matching float w); [|eexists; reflexivity].
  unfold ndiv_guarded in *. cbn [float_num nis_zero] in *.
  destruct (PrimFloat.eqb (f_of_Z (fs_matching float w)) PrimFloat.zero); [exfalso; apply NG; reflexivity|].
  eexists; reflexivity.
Qed.

Theorem gen_compat_returns_compat_float : forall (linear : bool) (dc ec mc : float) (a b : list fgene),
    Z.of_nat (length a) < 2 ^ 63 ->
    (if linear then gen_compat_linear dc ec mc a b else gen_compat_fast dc ec mc a b) =
    Ok (compat_float linear dc ec mc a b).
Proof.
  intros linear dc ec mc a b H. rewrite (gen_compat_is_compat_float linear dc ec mc a b H).
  unfold compat_float.
  assert (O : exists v, compatibility float_num linear dc ec mc a b = Ok v).
  { destruct linear; unfold compatibility; [apply compat_linear_float_ok | now apply compat_fast_float_ok]. }
  destruct O as [v ->]. reflexivity.
Qed.
