(* agent "agent-full": the phenotype cache through the mutators (model/PhenoCache.v), C11.
   Strengthens C11_cache_partial (which only unfolds Organism.Phenotype / UpdatePhenotype): after any
   mutator applied to a genome whose cache is empty -- the only way the library applies them, to genomes
   fresh from duplicate or a crossover (Species.reproduce) -- the cache is again empty or holds the
   expression of the MUTATED genome; mutateAddLink keeps an up-to-date cache up to date whatever it started
   from (this is fix 30a7ec9); the other mutators do not touch the field, so applied to a genome with a
   non-empty cache they leave it stale (example below) -- the reason why the hook VMutate drops the field first. *)
From NeatModel Require Import Res F64 GoRand Genome Options Insert Mutate Genesis PhenoCache.
From NeatModel Require Import MutateMonad MutateSpec.

(* ---------- what the wrappers compute ---------- *)
Lemma cg_lift_inv m c s c' b s' :
  cg_lift m c s = Ok ((c', b), s') ->
  m (cg_genome c) s = Ok ((cg_genome c', b), s') /\ cg_pheno c' = cg_pheno c.
Proof.
  unfold cg_lift. intros H. apply bindM_inv in H. destruct H as ([g1 b1] & s1 & E & H).
  apply ret_inv in H. destruct H as [H ->]. cbn [fst snd] in H. injection H as <- <-. cbn [cg_genome cg_pheno]. auto.
Qed.

(* mutateAddLink: on the genome it is Mutate.mutate_add_link; on the cache: dropped when a gene was
   inserted; otherwise the genome is unchanged and the cache is what it was, or -- if it was empty --
   the network Genesis(generation) built from the (unchanged) genome *)
Lemma cg_add_link_inv o gen c s c' b s' :
  cg_mutate_add_link o gen c s = Ok ((c', b), s') ->
  mutate_add_link o (cg_genome c) s = Ok ((cg_genome c', b), s') /\
  ((b = true /\ cg_pheno c' = None) \/
   (b = false /\ cg_genome c' = cg_genome c /\
    ((exists n, cg_pheno c = Some n /\ cg_pheno c' = Some n) \/
     (exists n, cg_pheno c = None /\ genesis (cg_genome c) gen = Ok n /\ cg_pheno c' = Some n)))).
Proof.
  unfold cg_mutate_add_link. intros H. apply bindM_inv in H. destruct H as (c1 & s1 & E1 & H).
  apply bindM_inv in H. destruct H as ([g1 b1] & s2 & E2 & H). apply ret_inv in H. destruct H as [H ->].
  cbn [fst snd] in H. injection H as <- <-. cbn [cg_genome cg_pheno].
  assert (K : cg_genome c1 = cg_genome c /\ s1 = s /\
              ((exists n, cg_pheno c = Some n /\ cg_pheno c1 = Some n) \/
               (exists n, cg_pheno c = None /\ genesis (cg_genome c) gen = Ok n /\ cg_pheno c1 = Some n))).
  { destruct (cg_pheno c) as [n|] eqn:Ec.
    - apply ret_inv in E1. destruct E1 as [<- ->]. split; [reflexivity|]. split; [reflexivity|]. left. exists n. auto.
    - unfold cg_genesis in E1. destruct (genesis (cg_genome c) gen) as [n| | | | |] eqn:Eg; cbn [bind] in E1;
        try discriminate E1.
      apply ret_inv in E1. destruct E1 as [<- ->]. cbn [cg_genome cg_pheno]. split; [reflexivity|]. split; [reflexivity|].
      right. exists n. auto. }
  destruct K as (Kg & -> & K). rewrite Kg in E2. split; [exact E2|].
  destruct b1.
  - left. auto.
  - right. split; [reflexivity|]. destruct (add_link_false_spec _ _ _ _ _ E2) as [-> _]. split; [reflexivity|]. exact K.
Qed.

(* ---------- freshness ---------- *)
Lemma cache_fresh_none c : cg_pheno c = None -> cache_fresh c.
Proof. unfold cache_fresh. now intros ->. Qed.

(* mutateAddLink keeps an up-to-date cache up to date (and fills an empty one correctly or leaves it empty) *)
Theorem add_link_keeps_cache_fresh o gen c s c' b s' :
  cache_fresh c -> cg_mutate_add_link o gen c s = Ok ((c', b), s') -> cache_fresh c'.
Proof.
  intros F H. destruct (cg_add_link_inv _ _ _ _ _ _ _ H) as [_ [[_ E]|(_ & Eg & [(n & E0 & E)|(n & _ & G & E)])]].
  - now apply cache_fresh_none.
  - unfold cache_fresh in *. rewrite E0 in F. rewrite E, Eg. exact F.
  - unfold cache_fresh. rewrite E, Eg. now exists gen.
Qed.

(* a mutator that does not touch the field, applied to a genome with an empty cache, leaves it empty *)
Lemma lift_keeps_empty m c s c' b s' :
  cg_pheno c = None -> cg_lift m c s = Ok ((c', b), s') -> cg_pheno c' = None.
Proof. intros E H. destruct (cg_lift_inv _ _ _ _ _ _ H) as [_ ->]. exact E. Qed.

(* the ten mutators, each applied to a genome whose cache is empty: the result's cache is up to date, its
   genome is what the plain mutator of model/Mutate.v returns *)
Theorem mutators_leave_cache_fresh o gen pw rt ga times c s c' b s' :
  cg_pheno c = None ->
  (cg_mutate_add_link o gen c s = Ok ((c', b), s') -> mutate_add_link o (cg_genome c) s = Ok ((cg_genome c', b), s')) /\
  (cg_mutate_add_node o c s = Ok ((c', b), s') -> mutate_add_node o (cg_genome c) s = Ok ((cg_genome c', b), s')) /\
  (cg_mutate_connect_sensors c s = Ok ((c', b), s') -> mutate_connect_sensors (cg_genome c) s = Ok ((cg_genome c', b), s')) /\
  (cg_mutate_link_weights pw rt ga c s = Ok ((c', b), s') -> mutate_link_weights pw rt ga (cg_genome c) s = Ok ((cg_genome c', b), s')) /\
  (cg_mutate_random_trait o c s = Ok ((c', b), s') -> mutate_random_trait o (cg_genome c) s = Ok ((cg_genome c', b), s')) /\
  (cg_mutate_link_trait times c s = Ok ((c', b), s') -> mutate_link_trait times (cg_genome c) s = Ok ((cg_genome c', b), s')) /\
  (cg_mutate_node_trait times c s = Ok ((c', b), s') -> mutate_node_trait times (cg_genome c) s = Ok ((cg_genome c', b), s')) /\
  (cg_mutate_toggle_enable times c s = Ok ((c', b), s') -> mutate_toggle_enable times (cg_genome c) s = Ok ((cg_genome c', b), s')) /\
  (cg_mutate_gene_reenable c s = Ok ((c', b), s') -> mutate_gene_reenable (cg_genome c) s = Ok ((cg_genome c', b), s')) /\
  (cg_mutate_all_nonstructural o c s = Ok ((c', b), s') -> mutate_all_nonstructural o (cg_genome c) s = Ok ((cg_genome c', b), s')) /\
  (cg_mutate_add_link o gen c s = Ok ((c', b), s') \/ cg_mutate_add_node o c s = Ok ((c', b), s') \/
   cg_mutate_connect_sensors c s = Ok ((c', b), s') \/ cg_mutate_link_weights pw rt ga c s = Ok ((c', b), s') \/
   cg_mutate_random_trait o c s = Ok ((c', b), s') \/ cg_mutate_link_trait times c s = Ok ((c', b), s') \/
   cg_mutate_node_trait times c s = Ok ((c', b), s') \/ cg_mutate_toggle_enable times c s = Ok ((c', b), s') \/
   cg_mutate_gene_reenable c s = Ok ((c', b), s') \/ cg_mutate_all_nonstructural o c s = Ok ((c', b), s') ->
   cache_fresh c' /\
   (cg_pheno c' = None \/
    exists n, cg_pheno c' = Some n /\ cg_genome c' = cg_genome c /\ b = false /\ genesis (cg_genome c') gen = Ok n)).
Proof.
  intros E0.
  split; [intros H; exact (proj1 (cg_add_link_inv _ _ _ _ _ _ _ H))|].
  repeat (split; [intros H; exact (proj1 (cg_lift_inv _ _ _ _ _ _ H))|]).
  intros [H|H].
  - split; [exact (add_link_keeps_cache_fresh _ _ _ _ _ _ _ (cache_fresh_none _ E0) H)|].
    destruct (cg_add_link_inv _ _ _ _ _ _ _ H) as [_ [[_ E]|(Eb & Eg & [(n & E1 & _)|(n & _ & G & E)])]].
    + now left.
    + rewrite E0 in E1. discriminate.
    + right. exists n. rewrite Eg. auto.
  - assert (E : cg_pheno c' = None).
    { unfold cg_mutate_add_node, cg_mutate_connect_sensors, cg_mutate_link_weights, cg_mutate_random_trait,
        cg_mutate_link_trait, cg_mutate_node_trait, cg_mutate_toggle_enable, cg_mutate_gene_reenable,
        cg_mutate_all_nonstructural in H.
      repeat (destruct H as [H|H]; [exact (lift_keeps_empty _ _ _ _ _ _ E0 H)|]).
      exact (lift_keeps_empty _ _ _ _ _ _ E0 H). }
    split; [now apply cache_fresh_none|now left].
Qed.

(* the mutation step of Species.reproduce on a fresh genome: the genome is what Population.mutate_baby
   computes; the cache is up to date *)
From NeatModel Require Import Dup Mate Population.

Theorem mutate_baby_cache o gen c s c' b s' :
  cg_pheno c = None -> cg_mutate_baby o gen c s = Ok ((c', b), s') ->
  mutate_baby o (cg_genome c) s = Ok ((cg_genome c', b), s') /\ cache_fresh c' /\
  (cg_pheno c' = None \/ exists n, cg_pheno c' = Some n /\ cg_genome c' = cg_genome c /\ genesis (cg_genome c') gen = Ok n).
Proof.
  intros E0 H. unfold cg_mutate_baby in H. unfold mutate_baby.
  apply bindM_inv in H. destruct H as (r1 & s1 & F1 & H). unfold bindM at 1. rewrite F1.
  destruct (PrimFloat.ltb r1 (o_mut_add_node o)).
  { apply bindM_inv in H. destruct H as ([c1 b1] & s2 & E & H). apply ret_inv in H. destruct H as [H ->].
    cbn [fst] in H. injection H as <- <-. destruct (cg_lift_inv _ _ _ _ _ _ E) as [Em Ec].
    unfold bindM. rewrite Em. cbn [fst]. split; [reflexivity|]. rewrite E0 in Ec.
    split; [now apply cache_fresh_none|now left]. }
  apply bindM_inv in H. destruct H as (r2 & s2 & F2 & H). unfold bindM at 1. rewrite F2.
  destruct (PrimFloat.ltb r2 (o_mut_add_link o)).
  { apply bindM_inv in H. destruct H as ([c1 b1] & s3 & E & H). apply ret_inv in H. destruct H as [H ->].
    cbn [fst] in H. injection H as <- <-.
    destruct (cg_add_link_inv _ _ _ _ _ _ _ E) as [Em K]. unfold bindM. rewrite Em. cbn [fst]. split; [reflexivity|].
    split; [exact (add_link_keeps_cache_fresh _ _ _ _ _ _ _ (cache_fresh_none _ E0) E)|].
    destruct K as [[_ K]|(_ & Eg & [(n & E1 & _)|(n & _ & G & K)])].
    - now left.
    - rewrite E0 in E1. discriminate.
    - right. exists n. rewrite Eg. auto. }
  apply bindM_inv in H. destruct H as (r3 & s3 & F3 & H). unfold bindM at 1. rewrite F3.
  apply bindM_inv in H. destruct H as ([c1 st1] & s4 & E & H).
  assert (K : (if PrimFloat.ltb r3 (o_mut_connect_sensors o) then mutate_connect_sensors (cg_genome c) else ret (cg_genome c, false)) s3
              = Ok ((cg_genome c1, st1), s4) /\ cg_pheno c1 = None).
  { destruct (PrimFloat.ltb r3 (o_mut_connect_sensors o)).
    - destruct (cg_lift_inv _ _ _ _ _ _ E) as [Em Ec]. rewrite E0 in Ec. auto.
    - apply ret_inv in E. destruct E as [E ->]. injection E as <- <-. auto. }
  destruct K as [Em E1]. unfold bindM at 1. rewrite Em.
  destruct st1.
  { apply ret_inv in H. destruct H as [H ->]. injection H as <- <-. split; [reflexivity|].
    split; [now apply cache_fresh_none|now left]. }
  apply bindM_inv in H. destruct H as ([c2 b2] & s5 & E2 & H). apply ret_inv in H. destruct H as [H ->].
  cbn [fst] in H. injection H as <- <-. destruct (cg_lift_inv _ _ _ _ _ _ E2) as [Em2 Ec2].
  unfold bindM. rewrite Em2. cbn [fst]. split; [reflexivity|]. rewrite E1 in Ec2.
  split; [now apply cache_fresh_none|now left].
Qed.

(* the organism made of the mutated genome: Organism.Phenotype() returns the expression of ITS genome --
   under the genome's id when the cache was empty, under the generation number when an unsuccessful
   mutateAddLink left its network behind *)
Theorem organism_phenotype_fresh c n :
  cache_fresh c -> cg_org_phenotype c = Ok n -> exists netId, genesis (cg_genome c) netId = Ok n.
Proof.
  unfold cache_fresh, cg_org_phenotype, org_phenotype. destruct (cg_pheno c) as [m|].
  - intros [id G] [= <-]. now exists id.
  - intros _ G. now exists (gid (cg_genome c)).
Qed.

(* ---------- why "applied to a genome with an empty cache" cannot be dropped ---------- *)
(* A genome with a disabled gene (xor start genome, gene 2 -> 4 disabled) that HAS been expressed: its cache
   holds the network with two links.  mutateGeneReEnable re-enables the gene and does not touch the field:
   the cached network is not the expression of the mutated genome under any network id.  (In the library this
   order of events does not occur: mutators run on genomes fresh from duplicate / crossover; the verification
   hook VMutate therefore drops the field before it applies a mutator.) *)
From NeatModel Require Import GenomeLit.

Definition stale_genome : genome :=
  GN 1 [T 1 [0x1.999999999999ap-04%float; zero]; T 2 [0x1.999999999999ap-03%float; zero]]
       [N 1 1 17 None; N 2 1 17 None; N 3 3 17 None; N 4 2 4 None]
       [G 1 4 false zero (Some 1) 1 zero true; G 2 4 false zero (Some 2) 2 zero false; G 3 4 false zero (Some 1) 3 zero true] [].
Definition net_links (n : pnet) : nat := fold_right (fun p acc => (length (p_incoming p) + acc)%nat) O (net_all n).
Definition stale_net : pnet := match genesis stale_genome 1 with Ok n => n | _ => new_network [] [] [] 0 end.
Definition stale_start : cached := {| cg_genome := stale_genome; cg_pheno := Some stale_net |}.

Theorem cache_stale_after_reenable : forall s,
  exists c', cg_mutate_gene_reenable stale_start s = Ok ((c', true), s) /\
             cache_fresh stale_start /\ ~ cache_fresh c' /\
             cg_pheno c' = Some stale_net /\ net_links stale_net = 2%nat /\
             forall netId m, genesis (cg_genome c') netId = Ok m -> net_links m = 3%nat.
Proof.
  intros s. eexists. split; [reflexivity|]. cbn [cg_genome cg_pheno fst snd].
  assert (L : forall netId m, genesis (with_genes stale_genome (reenable_first (genes stale_genome))) netId = Ok m ->
                              net_links m = 3%nat).
  { intros netId m H.
    assert (E : match genesis (with_genes stale_genome (reenable_first (genes stale_genome))) netId with
                | Ok m => net_links m | _ => 3%nat end = 3%nat) by (vm_compute; reflexivity).
    rewrite H in E. exact E. }
  split; [exists 1; vm_compute; reflexivity|].
  split; [|split; [reflexivity|split; [vm_compute; reflexivity|exact L]]].
  unfold cache_fresh. cbn [cg_pheno cg_genome]. intros [netId G]. apply L in G. vm_compute in G. discriminate.
Qed.
