(* C03, operator level: the ghost registry (innovation number |-> link, node id |-> role), the
   invariant tying it to the innovation environment, and its preservation by every mutator and
   every crossover.  The population-level induction is in PopWF.v. *)
From NeatModel Require Import Res F64 GoRand Genome Options Insert Dup Mutate Mate InsertSpec WF
     MutateMonad MutateFrame MutateSpec MateSpec MateWF.
From Coq Require Import Lia Sorting.Sorted Sorting.Permutation.

(* MateSpec.innovs (numbers of a genome) shadows the record field of the environment *)
Notation innovs := Genome.innovs.

(* ------------------------------------------------------------------------------------------ *)
(* 1. registries                                                                                *)
(* ------------------------------------------------------------------------------------------ *)
Definition reg := list (Z * (Z * Z * bool)).      (* innovation number |-> (in, out, recurrent) *)
Definition nreg := list (Z * Z).                  (* node id |-> NodeNeuronType *)

Definition functional {A B} (l : list (A * B)) : Prop :=
  forall a b b', In (a, b) l -> In (a, b') l -> b = b'.

Definition g_agrees (R : reg) (g : genome) : Prop :=
  forall x, In x (genes g) -> In (g_innov x, link_key x) R.
Definition n_agrees (NR : nreg) (g : genome) : Prop :=
  forall n, In n (nodes g) -> In (n_id n, n_type n) NR.

Definition is_io_type (t : Z) : bool := (Z.eqb t INPUT || Z.eqb t BIAS) || Z.eqb t OUTPUT.

Lemma is_io_io_type n : is_io n = is_io_type (n_type n).
Proof. reflexivity. Qed.

(* what all genomes of one population have in common with the start genome *)
Record ctx := { c_io : list (Z * Z);           (* its input, bias and output nodes *)
                c_tshape : list (Z * nat);     (* trait ids and parameter counts *)
                c_n0 : Z }.                    (* the innovation number of its first gene *)

Definition tshape (g : genome) : list (Z * nat) := map (fun t => (t_id t, length (t_params t))) (traits g).

(* the registry against the innovation environment *)
Record rok (C : ctx) (e : ienv) (R : reg) (NR : nreg) : Prop := {
  ro_fun : functional R;
  ro_nfun : functional NR;
  ro_n0 : c_n0 C <= next_innov e;
  ro_bound : forall n k, In (n, k) R -> c_n0 C <= n <= next_innov e;
  ro_nbound : forall i t, In (i, t) NR -> i <= next_node e;
  ro_io : forall i t, In (i, t) NR -> is_io_type t = true -> In (i, t) (c_io C);
  (* a recorded link innovation: its number denotes its link *)
  ro_link : forall i, In i (innovs e) -> i_type i = 2 -> In (i_num i, (i_in i, i_out i, i_rec i)) R;
  (* a recorded node innovation: the split gene (whose recurrence flag the record does not store)
     is registered under i_old with some flag rc, the first new gene carries that flag, the second
     is never recurrent, the new node is hidden *)
  ro_node : forall i, In i (innovs e) -> i_type i = 1 ->
      In (i_node i, HIDDEN) NR /\ In (i_num2 i, (i_node i, i_out i, false)) R /\
      exists rc, In (i_old i, (i_in i, i_out i, rc)) R /\ In (i_num i, (i_in i, i_node i, rc)) R;
  (* at most one record per structural key *)
  ro_lkey : forall i j, In i (innovs e) -> In j (innovs e) -> i_type i = 2 -> i_type j = 2 ->
      i_in i = i_in j -> i_out i = i_out j -> i_rec i = i_rec j -> i = j;
  ro_nkey : forall i j, In i (innovs e) -> In j (innovs e) -> i_type i = 1 -> i_type j = 1 ->
      i_in i = i_in j -> i_out i = i_out j -> i_old i = i_old j -> i = j
}.

(* one genome against environment, registry and the common context *)
Record gok (C : ctx) (e : ienv) (R : reg) (NR : nreg) (g : genome) : Prop := {
  gk_wf : wf g;
  gk_env : env_ok e g;
  gk_reg : g_agrees R g;
  gk_nreg : n_agrees NR g;
  gk_io : incl (c_io C) (io_nodes g);
  gk_tshape : tshape g = c_tshape C;
  gk_first : In (c_n0 C) (map g_innov (genes g))
}.

(* the registry grew: old entries stay, new entries carry numbers / ids issued after e *)
Record ext (e e' : ienv) (R R' : reg) (NR NR' : nreg) : Prop := {
  x_innov : next_innov e <= next_innov e';
  x_node : next_node e <= next_node e';
  x_R : incl R R';
  x_NR : incl NR NR';
  x_new : forall n k, In (n, k) R' -> In (n, k) R \/ next_innov e < n;
  x_nnew : forall i t, In (i, t) NR' -> In (i, t) NR \/ next_node e < i
}.

Lemma ext_refl e R NR : ext e e R R NR NR.
Proof. constructor; try lia; try apply incl_refl; auto. Qed.

Lemma ext_trans e0 e1 e2 R0 R1 R2 N0 N1 N2 :
  ext e0 e1 R0 R1 N0 N1 -> ext e1 e2 R1 R2 N1 N2 -> ext e0 e2 R0 R2 N0 N2.
Proof.
  intros [A1 A2 A3 A4 A5 A6] [B1 B2 B3 B4 B5 B6]. constructor; try lia.
  - eapply incl_tran; eauto.
  - eapply incl_tran; eauto.
  - intros n k H. destruct (B5 n k H) as [H1|H1]; [|right; lia]. destruct (A5 n k H1); auto.
  - intros i t H. destruct (B6 i t H) as [H1|H1]; [|right; lia]. destruct (A6 i t H1); auto.
Qed.

Lemma ext_same_counters e e' R NR :
  next_innov e' = next_innov e -> next_node e' = next_node e -> ext e e' R R NR NR.
Proof. intros A B. constructor; try lia; try apply incl_refl; auto. Qed.

Lemma gok_mono C e e' R R' NR NR' g :
  gok C e R NR g -> env_extends e e' -> incl R R' -> incl NR NR' -> gok C e' R' NR' g.
Proof.
  intros [A B D E F G H] X IR IN. constructor; auto.
  - eapply env_ok_extends; eauto.
  - intros x Hx. apply IR. now apply D.
  - intros n Hn. apply IN. now apply E.
Qed.

(* the genome id is irrelevant *)
Lemma env_ok_with_id e g i : env_ok e g -> env_ok e (with_id g i).
Proof. intros [A B D E F G]. constructor; assumption. Qed.

Lemma gok_with_id C e R NR g i : gok C e R NR g -> gok C e R NR (with_id g i).
Proof.
  intros [A B D E F G H]. constructor; try assumption.
  - now apply wf_with_id.
  - now apply env_ok_with_id.
Qed.

(* ------------------------------------------------------------------------------------------ *)
(* 2. forgetting the record (end of a generation)                                               *)
(* ------------------------------------------------------------------------------------------ *)
Definition forget (e : ienv) : ienv := {| innovs := []; next_innov := next_innov e; next_node := next_node e |}.

Lemma env_ok_forget e g : env_ok e g -> env_ok (forget e) g.
Proof.
  intros [A B D E F G]. constructor; cbn [forget innovs next_innov next_node]; try assumption;
    try (intros; contradiction); try (intros ? []). constructor.
Qed.

Lemma rok_forget C e R NR : rok C e R NR -> rok C (forget e) R NR.
Proof.
  intros [A B D E F G H I J K]. constructor; cbn [forget innovs next_innov next_node]; try assumption;
    intros; contradiction.
Qed.

Lemma gok_forget C e R NR g : gok C e R NR g -> gok C (forget e) R NR g.
Proof. intros [A B D E F G H]. constructor; try assumption. now apply env_ok_forget. Qed.

(* ------------------------------------------------------------------------------------------ *)
(* 3. genomes that agree with one functional registry are relatives                             *)
(* ------------------------------------------------------------------------------------------ *)
Lemma agrees_consistent R p1 p2 : functional R -> g_agrees R p1 -> g_agrees R p2 -> consistent p1 p2.
Proof.
  intros HF A1 A2 a b Ha Hb E. apply same_link_key.
  apply (HF (g_innov a)); [now apply A1|]. rewrite E. now apply A2.
Qed.

Lemma tshape_ids g1 g2 : tshape g1 = tshape g2 -> map t_id (traits g1) = map t_id (traits g2).
Proof.
  unfold tshape. intros H. apply (f_equal (map fst)) in H. rewrite !map_map in H. exact H.
Qed.

Lemma tshape_params g1 g2 : tshape g1 = tshape g2 ->
  Forall2 (fun a b => length (t_params a) = length (t_params b)) (traits g1) (traits g2).
Proof.
  unfold tshape. generalize (traits g1) (traits g2).
  induction l as [|a l IH]; intros [|b l'] H; cbn [map] in H; try discriminate; constructor.
  - now injection H.
  - apply IH. now injection H.
Qed.

Lemma io_back C e R NR g : rok C e R NR -> n_agrees NR g -> incl (io_nodes g) (c_io C).
Proof.
  intros RO HN [i t] Hin. destruct (io_nodes_in g i t Hin) as (n & Hn & Hio & <- & <-).
  apply (ro_io _ _ _ _ RO); [now apply HN|]. now rewrite <- is_io_io_type.
Qed.

Lemma gok_relatives C e R NR p1 p2 : rok C e R NR -> gok C e R NR p1 -> gok C e R NR p2 -> relatives p1 p2.
Proof.
  intros RO G1 G2. constructor.
  - apply (gk_wf _ _ _ _ _ G1).
  - apply (gk_wf _ _ _ _ _ G2).
  - eapply agrees_consistent; [apply (ro_fun _ _ _ _ RO)|apply (gk_reg _ _ _ _ _ G1)|apply (gk_reg _ _ _ _ _ G2)].
  - apply tshape_ids. rewrite (gk_tshape _ _ _ _ _ G1), (gk_tshape _ _ _ _ _ G2). reflexivity.
  - apply tshape_params. rewrite (gk_tshape _ _ _ _ _ G1), (gk_tshape _ _ _ _ _ G2). reflexivity.
  - unfold retains_io. eapply incl_tran; [eapply io_back; [exact RO|apply (gk_nreg _ _ _ _ _ G1)]|apply (gk_io _ _ _ _ _ G2)].
  - unfold retains_io. eapply incl_tran; [eapply io_back; [exact RO|apply (gk_nreg _ _ _ _ _ G2)]|apply (gk_io _ _ _ _ _ G1)].
Qed.

(* all genomes start with the same innovation number *)
Lemma gok_hd C e R NR g x : rok C e R NR -> gok C e R NR g -> hd_error (genes g) = Some x -> g_innov x = c_n0 C.
Proof.
  intros RO G Hhd. pose proof (wf_genes _ (gk_wf _ _ _ _ _ G)) as Hs. unfold genes_sorted in Hs.
  pose proof (gk_first _ _ _ _ _ G) as Hf. pose proof (gk_reg _ _ _ _ _ G) as Ha.
  destruct (genes g) as [|y l] eqn:E; [discriminate|]. cbn in Hhd. injection Hhd as ->.
  assert (Hlo : c_n0 C <= g_innov x).
  { apply (ro_bound _ _ _ _ RO (g_innov x) (link_key x)). apply Ha. rewrite E. now left. }
  cbn [map] in Hf. destruct Hf as [Hf|Hf]; [now symmetry|].
  apply in_map_iff in Hf. destruct Hf as (z & Hz & Hin).
  pose proof (asc_head g_innov x l Hs z Hin). lia.
Qed.

(* ------------------------------------------------------------------------------------------ *)
(* 4. what the operator-level theorems of MutateWF.v provide (C01, operator level)              *)
(* ------------------------------------------------------------------------------------------ *)
Definition op_stmt (op : genome -> @M st (genome * bool)) : Prop :=
  forall g s g' b s', op g s = Ok ((g', b), s') -> wf g -> env_ok (s_env s) g ->
    wf g' /\ retains_io g g' /\ env_ok (s_env s') g' /\ env_extends (s_env s) (s_env s').

Record mutators_ok : Prop := {
  H_add_node : forall o, op_stmt (mutate_add_node o);
  H_add_link : forall o, op_stmt (mutate_add_link o);
  H_connect_sensors : op_stmt mutate_connect_sensors;
  H_all_nonstructural : forall o, op_stmt (mutate_all_nonstructural o);
  H_link_weights : forall pw rt ga, op_stmt (mutate_link_weights pw rt ga)
}.

(* the outcome of one operator application on one genome: environment and registry grew, and the
   result genome satisfies the invariant under the new ones *)
Definition step_ok (C : ctx) (e e' : ienv) (R : reg) (NR : nreg) (g' : genome) : Prop :=
  exists R' NR', env_extends e e' /\ ext e e' R R' NR NR' /\ rok C e' R' NR' /\ gok C e' R' NR' g'.

Lemma step_ok_refl C e R NR g : rok C e R NR -> gok C e R NR g -> step_ok C e e R NR g.
Proof. intros A B. exists R, NR. split; [apply env_extends_refl|]. split; [apply ext_refl|]. auto. Qed.

Lemma step_ok_trans C e0 e1 e2 R NR g1 g2 :
  step_ok C e0 e1 R NR g1 ->
  (forall R1 NR1, rok C e1 R1 NR1 -> gok C e1 R1 NR1 g1 -> step_ok C e1 e2 R1 NR1 g2) ->
  step_ok C e0 e2 R NR g2.
Proof.
  intros (R1 & N1 & X1 & E1 & RO1 & G1) H. destruct (H R1 N1 RO1 G1) as (R2 & N2 & X2 & E2 & RO2 & G2).
  exists R2, N2. split; [eapply env_extends_trans; eauto|]. split; [eapply ext_trans; eauto|]. auto.
Qed.

Lemma assemble C e e' R NR R' NR' g g' :
  gok C e R NR g ->
  wf g' /\ retains_io g g' /\ env_ok e' g' /\ env_extends e e' ->
  ext e e' R R' NR NR' -> rok C e' R' NR' -> g_agrees R' g' -> n_agrees NR' g' -> tshape g' = tshape g ->
  (forall n, In n (map g_innov (genes g)) -> In n (map g_innov (genes g'))) ->
  step_ok C e e' R NR g'.
Proof.
  intros G (W & IO & EO & EX) X RO A N T F. exists R', NR'. split; [exact EX|]. split; [exact X|]. split; [exact RO|].
  constructor; auto.
  - eapply incl_tran; [apply (gk_io _ _ _ _ _ G)|exact IO].
  - rewrite T. apply (gk_tshape _ _ _ _ _ G).
  - apply F, (gk_first _ _ _ _ _ G).
Qed.

(* ------------------------------------------------------------------------------------------ *)
(* 5. parametric mutators: same genes and nodes up to weights, flags and trait references       *)
(* ------------------------------------------------------------------------------------------ *)
Lemma sig_in' {A B} (f : A -> B) l l' : map f l' = map f l -> forall x', In x' l' -> exists x, In x l /\ f x = f x'.
Proof.
  intros Hm x' Hx'. assert (Hi : In (f x') (map f l)) by (rewrite <- Hm; now apply in_map).
  apply in_map_iff in Hi. destruct Hi as (x & Hfx & Hx). now exists x.
Qed.

Lemma gene_sig_reg x y : gene_sig x = gene_sig y -> (g_innov x, link_key x) = (g_innov y, link_key y).
Proof. unfold gene_sig, link_key. intros H. injection H as -> -> -> ->. reflexivity. Qed.

Lemma frame_agrees R g g' : frame g g' -> g_agrees R g -> g_agrees R g'.
Proof.
  intros (_ & Fg & _) A x' Hx'. destruct (sig_in' gene_sig _ _ Fg x' Hx') as (x & Hx & Hs).
  rewrite <- (gene_sig_reg _ _ Hs). now apply A.
Qed.

Lemma frame_nagrees NR g g' : frame g g' -> n_agrees NR g -> n_agrees NR g'.
Proof.
  intros (Fn & _) A n' Hn'. destruct (sig_in' node_sig _ _ Fn n' Hn') as (n & Hn & Hs).
  unfold node_sig in Hs. injection Hs as <- <- _. now apply A.
Qed.

Lemma frame_innovs g g' : frame g g' -> map g_innov (genes g') = map g_innov (genes g).
Proof.
  intros (_ & Fg & _). apply (f_equal (map snd)) in Fg. rewrite !map_map in Fg. exact Fg.
Qed.

Lemma frame_step C e e' R NR g g' :
  rok C e R NR -> gok C e R NR g -> frame g g' -> tshape g' = tshape g ->
  wf g' /\ retains_io g g' /\ env_ok e' g' /\ env_extends e e' ->
  next_innov e' = next_innov e -> next_node e' = next_node e -> innovs e' = innovs e ->
  step_ok C e e' R NR g'.
Proof.
  intros RO G F T W E1 E2 E3. eapply assemble; eauto.
  - now apply ext_same_counters.
  - destruct RO as [A B D E F' G' H I J K]. constructor; rewrite ?E1, ?E2, ?E3; assumption.
  - eapply frame_agrees; [exact F|apply (gk_reg _ _ _ _ _ G)].
  - eapply frame_nagrees; [exact F|apply (gk_nreg _ _ _ _ _ G)].
  - intros n Hn. now rewrite (frame_innovs _ _ F).
Qed.

Lemma tshape_traits g g' : traits g' = traits g -> tshape g' = tshape g.
Proof. unfold tshape. now intros ->. Qed.

Lemma step_if_rel (Rl : genome -> genome -> Prop) p op g0 (gb : genome * bool) s r s' :
  (forall a b c, Rl a b -> Rl b c -> Rl a c) ->
  (forall g s g' b s', op g s = Ok ((g', b), s') -> Rl g g') ->
  Rl g0 (fst gb) -> step_if p op gb s = Ok (r, s') -> Rl g0 (fst r).
Proof.
  intros Ht Hop H0 H. unfold step_if in H. minv.
  destruct (PrimFloat.ltb a p).
  - destruct r as [g' b]. eapply Ht; [exact H0|]. eapply Hop; eauto.
  - minv. subst. exact H0.
Qed.

Lemma all_nonstructural_tshape o g s g' b s' :
  mutate_all_nonstructural o g s = Ok ((g', b), s') -> tshape g' = tshape g.
Proof.
  unfold mutate_all_nonstructural. intros H. minv.
  set (Rl := fun a b : genome => tshape b = tshape a).
  assert (Ht : forall a b c, Rl a b -> Rl b c -> Rl a c) by (unfold Rl; intros; congruence).
  eapply (step_if_rel Rl) in E; [|exact Ht| |reflexivity].
  2:{ intros gg1 ss1 gg2 bb2 ss2 Hr. apply random_trait_spec in Hr.
      destruct Hr as (_ & _ & _ & (k & t & t' & Hn & Hset & Hid & Hlen) & _). unfold Rl, tshape. rewrite Hset.
      eapply map_set_nth_same; [exact Hn|]. now rewrite Hid, Hlen. }
  eapply (step_if_rel Rl) in E0; [|exact Ht| |exact E].
  2:{ intros gg1 ss1 gg2 bb2 ss2 Hr. apply link_trait_spec in Hr. apply tshape_traits. tauto. }
  eapply (step_if_rel Rl) in E1; [|exact Ht| |exact E0].
  2:{ intros gg1 ss1 gg2 bb2 ss2 Hr. apply node_trait_spec in Hr. apply tshape_traits. tauto. }
  eapply (step_if_rel Rl) in E2; [|exact Ht| |exact E1].
  2:{ intros gg1 ss1 gg2 bb2 ss2 Hr. apply link_weights_spec in Hr. apply tshape_traits. tauto. }
  eapply (step_if_rel Rl) in E3; [|exact Ht| |exact E2].
  2:{ intros gg1 ss1 gg2 bb2 ss2 Hr. apply toggle_spec in Hr. apply tshape_traits. tauto. }
  eapply (step_if_rel Rl) in H; [|exact Ht| |exact E3].
  2:{ intros gg1 ss1 gg2 bb2 ss2 Hr. apply reenable_spec in Hr. apply tshape_traits. tauto. }
  exact H.
Qed.

Section Mutators.
  Variable MH : mutators_ok.
  Variable C : ctx.

  Lemma link_weights_step pw rt ga R NR g s g' b s' :
    rok C (s_env s) R NR -> gok C (s_env s) R NR g ->
    mutate_link_weights pw rt ga g s = Ok ((g', b), s') -> step_ok C (s_env s) (s_env s') R NR g'.
  Proof.
    intros RO G H. pose proof (H_link_weights MH pw rt ga g s g' b s' H (gk_wf _ _ _ _ _ G) (gk_env _ _ _ _ _ G)) as W.
    apply link_weights_spec in H. destruct H as (F & _ & T & _ & _ & E).
    eapply frame_step; eauto; try (now rewrite E). now apply tshape_traits.
  Qed.

  Lemma all_nonstructural_step o R NR g s g' b s' :
    rok C (s_env s) R NR -> gok C (s_env s) R NR g ->
    mutate_all_nonstructural o g s = Ok ((g', b), s') -> step_ok C (s_env s) (s_env s') R NR g'.
  Proof.
    intros RO G H. pose proof (H_all_nonstructural MH o g s g' b s' H (gk_wf _ _ _ _ _ G) (gk_env _ _ _ _ _ G)) as W.
    pose proof (all_nonstructural_tshape _ _ _ _ _ _ H) as T.
    apply all_nonstructural_spec in H. destruct H as (F & E).
    eapply frame_step; eauto; now rewrite E.
  Qed.
End Mutators.

(* ------------------------------------------------------------------------------------------ *)
(* 6. structural mutators: the registry part                                                    *)
(* ------------------------------------------------------------------------------------------ *)
Lemma fli_some : forall l i o rc inn,
    find_link_innov l i o rc = Some inn ->
    In inn l /\ i_type inn = 2 /\ i_in inn = i /\ i_out inn = o /\ i_rec inn = rc.
Proof.
  induction l as [|x l IH]; intros i o rc inn H; cbn [find_link_innov] in H; [discriminate|].
  destruct (_ && _) eqn:E.
  - injection H as <-. repeat (apply andb_true_iff in E; destruct E as [E ?]).
    repeat match goal with H : Z.eqb _ _ = true |- _ => apply Z.eqb_eq in H end.
    match goal with H : Bool.eqb _ _ = true |- _ => apply eqb_prop in H end.
    repeat split; auto. now left.
  - destruct (IH _ _ _ _ H) as (Hin & Hrest). split; [now right|exact Hrest].
Qed.

Lemma fli_none : forall l i o rc,
    find_link_innov l i o rc = None ->
    forall x, In x l -> i_type x = 2 -> i_in x = i -> i_out x = o -> i_rec x = rc -> False.
Proof.
  induction l as [|y l IH]; intros i o rc H x Hx Ht Hi Ho Hr; [destruct Hx|].
  cbn [find_link_innov] in H. destruct (_ && _) eqn:E; [discriminate|].
  destruct Hx as [->|Hx]; [|eapply IH; eauto].
  rewrite Ht, Hi, Ho, Hr, !Z.eqb_refl, eqb_reflx in E. discriminate.
Qed.

Lemma fni_some : forall l i o old inn,
    find_node_innov l i o old = Some inn ->
    In inn l /\ i_type inn = 1 /\ i_in inn = i /\ i_out inn = o /\ i_old inn = old.
Proof.
  induction l as [|x l IH]; intros i o old inn H; cbn [find_node_innov] in H; [discriminate|].
  destruct (_ && _) eqn:E.
  - injection H as <-. repeat (apply andb_true_iff in E; destruct E as [E ?]).
    repeat match goal with H : Z.eqb _ _ = true |- _ => apply Z.eqb_eq in H end.
    repeat split; auto. now left.
  - destruct (IH _ _ _ _ H) as (Hin & Hrest). split; [now right|exact Hrest].
Qed.

Lemma fni_none : forall l i o old,
    find_node_innov l i o old = None ->
    forall x, In x l -> i_type x = 1 -> i_in x = i -> i_out x = o -> i_old x = old -> False.
Proof.
  induction l as [|y l IH]; intros i o old H x Hx Ht Hi Ho Hr; [destruct Hx|].
  cbn [find_node_innov] in H. destruct (_ && _) eqn:E; [discriminate|].
  destruct Hx as [->|Hx]; [|eapply IH; eauto].
  rewrite Ht, Hi, Ho, Hr, !Z.eqb_refl in E. discriminate.
Qed.

Lemma in_snoc {A} (l : list A) (x y : A) : In y (l ++ [x]) -> In y l \/ y = x.
Proof. intros H. apply in_app_or in H. destruct H as [H|[H|[]]]; auto. Qed.

(* a new link record with a freshly issued number *)
Lemma rok_new_link C e e' R NR r key :
  rok C e R NR ->
  innovs e' = innovs e ++ [r] -> next_innov e' = next_innov e + 1 -> next_node e' = next_node e ->
  i_type r = 2 -> i_num r = next_innov e + 1 -> (i_in r, i_out r, i_rec r) = key ->
  find_link_innov (innovs e) (i_in r) (i_out r) (i_rec r) = None ->
  rok C e' (R ++ [(next_innov e + 1, key)]) NR /\
  ext e e' R (R ++ [(next_innov e + 1, key)]) NR NR.
Proof.
  intros [A B D E F G H I J K] Ei En Enn Ht Hnum Hkey Hnone. split.
  - constructor; rewrite ?Ei, ?En, ?Enn; try assumption.
    + intros a b b' H1 H2. apply in_snoc in H1. apply in_snoc in H2.
      destruct H1 as [H1|H1], H2 as [H2|H2].
      * eapply A; eauto.
      * injection H2 as -> ->. specialize (E _ _ H1). lia.
      * injection H1 as -> ->. specialize (E _ _ H2). lia.
      * congruence.
    + lia.
    + intros n k Hin. apply in_snoc in Hin. destruct Hin as [Hin|Hin].
      * specialize (E _ _ Hin). lia.
      * injection Hin as -> ->. lia.
    + intros i Hin Hti. apply in_snoc in Hin. apply in_or_app. destruct Hin as [Hin| ->].
      * left. now apply H.
      * right. left. now rewrite Hnum, Hkey.
    + intros i Hin Hti. apply in_snoc in Hin. destruct Hin as [Hin| ->]; [|congruence].
      destruct (I i Hin Hti) as (I1 & I2 & rc & I3 & I4). split; [exact I1|]. split; [apply in_or_app; now left|].
      exists rc. split; apply in_or_app; now left.
    + intros i j Hi Hj Hti Htj E1 E2 E3. apply in_snoc in Hi. apply in_snoc in Hj.
      destruct Hi as [Hi| ->], Hj as [Hj| ->]; [now apply J| | |reflexivity]; exfalso.
      * apply (fli_none _ _ _ _ Hnone i Hi Hti); assumption.
      * apply (fli_none _ _ _ _ Hnone j Hj Htj); auto.
    + intros i j Hi Hj Hti Htj E1 E2 E3. apply in_snoc in Hi. apply in_snoc in Hj.
      destruct Hi as [Hi| ->], Hj as [Hj| ->]; [now apply K|congruence|congruence|reflexivity].
  - constructor; try lia.
    + apply incl_appl, incl_refl.
    + apply incl_refl.
    + intros n k Hin. apply in_snoc in Hin. destruct Hin as [Hin|Hin]; [now left|]. injection Hin as -> ->. right. lia.
    + auto.
Qed.

(* the gene inserted by add-link / connect-sensors is registered *)
Lemma link_from_env_reg C R NR g x s s' :
  rok C (s_env s) R NR -> link_from_env g x s s' ->
  exists R', ext (s_env s) (s_env s') R R' NR NR /\ rok C (s_env s') R' NR /\ In (g_innov x, link_key x) R'.
Proof.
  intros RO [(inn & tr & Hf & _ & Hx & _ & Es)|(Hf & tn & w & tr & _ & Hx & Hin & Hni & Hnn)].
  - apply fli_some in Hf. destruct Hf as (Hinn & Hty & Hi & Ho & Hr).
    exists R. rewrite Es. split; [apply ext_refl|]. split; [exact RO|].
    assert (Hnum : g_innov x = i_num inn) by (rewrite Hx; reflexivity).
    rewrite Hnum. unfold link_key. rewrite <- Hi, <- Ho, <- Hr. now apply (ro_link _ _ _ _ RO).
  - set (r := link_innovation (g_in x) (g_out x) (next_innov (s_env s) + 1) w tn (g_rec x)) in *.
    assert (Hnum : g_innov x = next_innov (s_env s) + 1) by (rewrite Hx; reflexivity).
    destruct (rok_new_link C (s_env s) (s_env s') R NR r (link_key x) RO Hin Hni Hnn) as [RO' X]; try reflexivity.
    + exact Hf.
    + exists (R ++ [(next_innov (s_env s) + 1, link_key x)]). split; [exact X|]. split; [exact RO'|].
      apply in_or_app. right. left. now rewrite Hnum.
Qed.

Lemma insert_agrees R g x : g_agrees R g -> In (g_innov x, link_key x) R ->
  g_agrees R (with_genes g (gene_insert (genes g) x)).
Proof.
  intros A Hx z Hz. cbn [genes with_genes] in Hz. apply (insert_sorted_In g_innov) in Hz.
  destruct Hz as [->|Hz]; [exact Hx|now apply A].
Qed.

Lemma insert_keeps_innovs g x n :
  In n (map g_innov (genes g)) -> In n (map g_innov (genes (with_genes g (gene_insert (genes g) x)))).
Proof.
  intros H. apply in_map_iff in H. destruct H as (z & <- & Hz). apply in_map. cbn [genes with_genes].
  apply (insert_sorted_In g_innov). now right.
Qed.

Lemma agrees_incl R R' g : incl R R' -> g_agrees R g -> g_agrees R' g.
Proof. intros I A x Hx. apply I. now apply A. Qed.
Lemma nagrees_incl R R' g : incl R R' -> n_agrees R g -> n_agrees R' g.
Proof. intros I A x Hx. apply I. now apply A. Qed.

(* the registry part of one structural step: independent of well-formedness *)
Definition reg_step (C : ctx) (e e' : ienv) (R : reg) (NR : nreg) (g g' : genome) : Prop :=
  exists R' NR', ext e e' R R' NR NR' /\ rok C e' R' NR' /\ g_agrees R' g' /\ n_agrees NR' g' /\
                 traits g' = traits g /\
                 (forall n, In n (map g_innov (genes g)) -> In n (map g_innov (genes g'))).

Lemma reg_step_refl C e e' R NR g :
  rok C e R NR -> g_agrees R g -> n_agrees NR g -> e' = e -> reg_step C e e' R NR g g.
Proof. intros RO A N ->. exists R, NR. split; [apply ext_refl|]. split; [exact RO|]. split; [exact A|]. split; [exact N|]. split; [reflexivity|auto]. Qed.

Lemma add_link_reg C R NR o g s g' b s' :
  rok C (s_env s) R NR -> g_agrees R g -> n_agrees NR g ->
  mutate_add_link o g s = Ok ((g', b), s') -> reg_step C (s_env s) (s_env s') R NR g g'.
Proof.
  intros RO A N H. apply add_link_inv in H.
  destruct H as [(_ & -> & Es)|(_ & x & n1 & n2 & s1 & _ & _ & _ & _ & _ & Hs1 & Hfrom & ->)].
  - now apply reg_step_refl.
  - rewrite <- Hs1 in *. destruct (link_from_env_reg C R NR g x s1 s' RO Hfrom) as (R' & X & RO' & Hx).
    exists R', NR. split; [exact X|]. split; [exact RO'|]. split; [|split; [exact N|split; [reflexivity|]]].
    + apply insert_agrees; [eapply agrees_incl; [apply (x_R _ _ _ _ _ _ X)|exact A]|exact Hx].
    + intros n. apply insert_keeps_innovs.
Qed.

Lemma connect_fold_reg C sid : forall outs g added stop s g' added' stop' s' R NR,
    rok C (s_env s) R NR -> g_agrees R g -> n_agrees NR g ->
    foldM (connect_one sid) outs (g, added, stop) s = Ok ((g', added', stop'), s') ->
    reg_step C (s_env s) (s_env s') R NR g g' /\ nodes g' = nodes g.
Proof.
  induction outs as [|out outs IH]; intros g added stop s g' added' stop' s' R NR RO A N H; cbn [foldM] in H.
  - minv. pairs. subst. split; [now apply reg_step_refl|reflexivity].
  - minv. destruct a as [[g1 added1] stop1].
    assert (Hstep : reg_step C (s_env s) (s_env s0) R NR g g1 /\ nodes g1 = nodes g).
    { apply connect_one_inv in E.
      destruct E as [(_ & -> & _ & _ & ->)|(_ & _ & [(-> & _ & _ & Es)|(x & _ & _ & _ & _ & Hfrom & -> & _ & _)])].
      - split; [now apply reg_step_refl|reflexivity].
      - split; [now apply reg_step_refl|reflexivity].
      - split; [|reflexivity]. destruct (link_from_env_reg C R NR g x s s0 RO Hfrom) as (R' & X & RO' & Hx).
        exists R', NR. split; [exact X|]. split; [exact RO'|]. split; [|split; [exact N|split; [reflexivity|]]].
        + apply insert_agrees; [eapply agrees_incl; [apply (x_R _ _ _ _ _ _ X)|exact A]|exact Hx].
        + intros n. apply insert_keeps_innovs. }
    destruct Hstep as [(R1 & N1 & X1 & RO1 & A1 & NA1 & T1 & F1) Hn1].
    destruct (IH _ _ _ _ _ _ _ _ R1 N1 RO1 A1 NA1 H) as [(R2 & N2 & X2 & RO2 & A2 & NA2 & T2 & F2) Hn2].
    split; [|congruence]. exists R2, N2. split; [eapply ext_trans; eauto|]. split; [exact RO2|].
    split; [exact A2|]. split; [exact NA2|]. split; [congruence|]. auto.
Qed.

Lemma connect_sensors_reg C R NR g s g' b s' :
  rok C (s_env s) R NR -> g_agrees R g -> n_agrees NR g ->
  mutate_connect_sensors g s = Ok ((g', b), s') -> reg_step C (s_env s) (s_env s') R NR g g'.
Proof.
  unfold mutate_connect_sensors. intros RO A N H. destruct (genes g) as [|x0 gs0] eqn:Eg; [minv|].
  rewrite <- Eg in H. clear x0 gs0 Eg.
  destruct (filter _ (filter is_sensor (nodes g))) as [|d0 ds] eqn:Edis.
  { minv. pairs. subst. now apply reg_step_refl. }
  rewrite <- Edis in H. minv. subst.
  destruct a1 as [[g1 added] stop]. minv. pairs. subst.
  match goal with H : foldM _ _ _ _ = Ok _ |- _ => rename H into Hfold end.
  match goal with H : r_intn _ _ = Ok _ |- _ => apply ep_intn in H; rename H into Es0 end.
  rewrite <- Es0 in *.
  exact (proj1 (connect_fold_reg C _ _ _ _ _ _ _ _ _ _ R NR RO A N Hfold)).
Qed.
