(* C03, operator level: the ghost registry (innovation number |-> link, node id |-> role), the
   invariant tying it to the innovation environment, and its preservation by every mutator and
   every crossover.  The population-level induction is in PopWF.v. *)
From NeatModel Require Import Res F64 GoRand Genome Options Insert Dup Mutate Mate InsertSpec WF
     MutateMonad MutateFrame MutateSpec MateSpec MateWF.
From Coq Require Import Lia Sorting.Sorted Sorting.Permutation.

(* MateSpec.innovs (numbers of a genome) shadows the record field of the environment *)
Notation innovs := Genome.innovs.

(* ------------------------------------------------------------------------------------------ *)
(* 1. registries                                                                                *)
(* ------------------------------------------------------------------------------------------ *)
Definition reg := list (Z * (Z * Z * bool)).      (* innovation number |-> (in, out, recurrent) *)
Definition nreg := list (Z * Z).                  (* node id |-> NodeNeuronType *)

Definition functional {A B} (l : list (A * B)) : Prop :=
  forall a b b', In (a, b) l -> In (a, b') l -> b = b'.

Definition g_agrees (R : reg) (g : genome) : Prop :=
  forall x, In x (genes g) -> In (g_innov x, link_key x) R.
Definition n_agrees (NR : nreg) (g : genome) : Prop :=
  forall n, In n (nodes g) -> In (n_id n, n_type n) NR.

Definition is_io_type (t : Z) : bool := (Z.eqb t INPUT || Z.eqb t BIAS) || Z.eqb t OUTPUT.

Lemma is_io_io_type n : is_io n = is_io_type (n_type n).
Proof. reflexivity. Qed.

(* what all genomes of one population have in common with the start genome *)
Record ctx := { c_io : list (Z * Z);           (* its input, bias and output nodes *)
                c_tshape : list (Z * nat);     (* trait ids and parameter counts *)
                c_n0 : Z }.                    (* the innovation number of its first gene *)

Definition tshape (g : genome) : list (Z * nat) := map (fun t => (t_id t, length (t_params t))) (traits g).

(* the registry against the innovation environment *)
Record rok (C : ctx) (e : ienv) (R : reg) (NR : nreg) : Prop := {
  ro_fun : functional R;
  ro_nfun : functional NR;
  ro_n0 : c_n0 C <= next_innov e;
  ro_bound : forall n k, In (n, k) R -> c_n0 C <= n <= next_innov e;
  ro_nbound : forall i t, In (i, t) NR -> i <= next_node e;
  ro_io : forall i t, In (i, t) NR -> is_io_type t = true -> In (i, t) (c_io C);
  (* a recorded link innovation: its number denotes its link *)
  ro_link : forall i, In i (innovs e) -> i_type i = 2 -> In (i_num i, (i_in i, i_out i, i_rec i)) R;
  (* a recorded node innovation: the split gene (whose recurrence flag the record does not store)
     is registered under i_old with some flag rc, the first new gene carries that flag, the second
     is never recurrent, the new node is hidden *)
  ro_node : forall i, In i (innovs e) -> i_type i = 1 ->
      In (i_node i, HIDDEN) NR /\ In (i_num2 i, (i_node i, i_out i, false)) R /\
      exists rc, In (i_old i, (i_in i, i_out i, rc)) R /\ In (i_num i, (i_in i, i_node i, rc)) R;
  (* at most one record per structural key *)
  ro_lkey : forall i j, In i (innovs e) -> In j (innovs e) -> i_type i = 2 -> i_type j = 2 ->
      i_in i = i_in j -> i_out i = i_out j -> i_rec i = i_rec j -> i = j;
  ro_nkey : forall i j, In i (innovs e) -> In j (innovs e) -> i_type i = 1 -> i_type j = 1 ->
      i_in i = i_in j -> i_out i = i_out j -> i_old i = i_old j -> i = j
}.

(* one genome against environment, registry and the common context *)
Record gok (C : ctx) (e : ienv) (R : reg) (NR : nreg) (g : genome) : Prop := {
  gk_wf : wf g;
  gk_env : env_ok e g;
  gk_reg : g_agrees R g;
  gk_nreg : n_agrees NR g;
  gk_io : incl (c_io C) (io_nodes g);
  gk_tshape : tshape g = c_tshape C;
  gk_first : In (c_n0 C) (map g_innov (genes g))
}.

(* the registry grew: old entries stay, new entries carry numbers / ids issued after e *)
Record ext (e e' : ienv) (R R' : reg) (NR NR' : nreg) : Prop := {
  x_innov : next_innov e <= next_innov e';
  x_node : next_node e <= next_node e';
  x_R : incl R R';
  x_NR : incl NR NR';
  x_new : forall n k, In (n, k) R' -> In (n, k) R \/ next_innov e < n;
  x_nnew : forall i t, In (i, t) NR' -> In (i, t) NR \/ next_node e < i
}.

Lemma ext_refl e R NR : ext e e R R NR NR.
Proof. constructor; try lia; try apply incl_refl; auto. Qed.

Lemma ext_trans e0 e1 e2 R0 R1 R2 N0 N1 N2 :
  ext e0 e1 R0 R1 N0 N1 -> ext e1 e2 R1 R2 N1 N2 -> ext e0 e2 R0 R2 N0 N2.
Proof.
  intros [A1 A2 A3 A4 A5 A6] [B1 B2 B3 B4 B5 B6]. constructor; try lia.
  - eapply incl_tran; eauto.
  - eapply incl_tran; eauto.
  - intros n k H. destruct (B5 n k H) as [H1|H1]; [|right; lia]. destruct (A5 n k H1); auto.
  - intros i t H. destruct (B6 i t H) as [H1|H1]; [|right; lia]. destruct (A6 i t H1); auto.
Qed.

Lemma ext_same_counters e e' R NR :
  next_innov e' = next_innov e -> next_node e' = next_node e -> ext e e' R R NR NR.
Proof. intros A B. constructor; try lia; try apply incl_refl; auto. Qed.

Lemma gok_mono C e e' R R' NR NR' g :
  gok C e R NR g -> env_extends e e' -> incl R R' -> incl NR NR' -> gok C e' R' NR' g.
Proof.
  intros [A B D E F G H] X IR IN. constructor; auto.
  - eapply env_ok_extends; eauto.
  - intros x Hx. apply IR. now apply D.
  - intros n Hn. apply IN. now apply E.
Qed.

(* the genome id is irrelevant *)
Lemma env_ok_with_id e g i : env_ok e g -> env_ok e (with_id g i).
Proof. intros [A B D E F G]. constructor; assumption. Qed.

Lemma gok_with_id C e R NR g i : gok C e R NR g -> gok C e R NR (with_id g i).
Proof.
  intros [A B D E F G H]. constructor; try assumption.
  - now apply wf_with_id.
  - now apply env_ok_with_id.
Qed.

(* ------------------------------------------------------------------------------------------ *)
(* 2. forgetting the record (end of a generation)                                               *)
(* ------------------------------------------------------------------------------------------ *)
Definition forget (e : ienv) : ienv := {| innovs := []; next_innov := next_innov e; next_node := next_node e |}.

Lemma env_ok_forget e g : env_ok e g -> env_ok (forget e) g.
Proof.
  intros [A B D E F G]. constructor; cbn [forget innovs next_innov next_node]; try assumption;
    try (intros; contradiction); try (intros ? []). constructor.
Qed.

Lemma rok_forget C e R NR : rok C e R NR -> rok C (forget e) R NR.
Proof.
  intros [A B D E F G H I J K]. constructor; cbn [forget innovs next_innov next_node]; try assumption;
    intros; contradiction.
Qed.

Lemma gok_forget C e R NR g : gok C e R NR g -> gok C (forget e) R NR g.
Proof. intros [A B D E F G H]. constructor; try assumption. now apply env_ok_forget. Qed.

(* ------------------------------------------------------------------------------------------ *)
(* 3. genomes that agree with one functional registry are relatives                             *)
(* ------------------------------------------------------------------------------------------ *)
Lemma agrees_consistent R p1 p2 : functional R -> g_agrees R p1 -> g_agrees R p2 -> consistent p1 p2.
Proof.
  intros HF A1 A2 a b Ha Hb E. apply same_link_key.
  apply (HF (g_innov a)); [now apply A1|]. rewrite E. now apply A2.
Qed.

Lemma tshape_ids g1 g2 : tshape g1 = tshape g2 -> map t_id (traits g1) = map t_id (traits g2).
Proof.
  unfold tshape. intros H. apply (f_equal (map fst)) in H. rewrite !map_map in H. exact H.
Qed.

Lemma tshape_params g1 g2 : tshape g1 = tshape g2 ->
  Forall2 (fun a b => length (t_params a) = length (t_params b)) (traits g1) (traits g2).
Proof.
  unfold tshape. generalize (traits g1) (traits g2).
  induction l as [|a l IH]; intros [|b l'] H; cbn [map] in H; try discriminate; constructor.
  - now injection H.
  - apply IH. now injection H.
Qed.

Lemma io_back C e R NR g : rok C e R NR -> n_agrees NR g -> incl (io_nodes g) (c_io C).
Proof.
  intros RO HN [i t] Hin. destruct (io_nodes_in g i t Hin) as (n & Hn & Hio & <- & <-).
  apply (ro_io _ _ _ _ RO); [now apply HN|]. now rewrite <- is_io_io_type.
Qed.

Lemma gok_relatives C e R NR p1 p2 : rok C e R NR -> gok C e R NR p1 -> gok C e R NR p2 -> relatives p1 p2.
Proof.
  intros RO G1 G2. constructor.
  - apply (gk_wf _ _ _ _ _ G1).
  - apply (gk_wf _ _ _ _ _ G2).
  - eapply agrees_consistent; [apply (ro_fun _ _ _ _ RO)|apply (gk_reg _ _ _ _ _ G1)|apply (gk_reg _ _ _ _ _ G2)].
  - apply tshape_ids. rewrite (gk_tshape _ _ _ _ _ G1), (gk_tshape _ _ _ _ _ G2). reflexivity.
  - apply tshape_params. rewrite (gk_tshape _ _ _ _ _ G1), (gk_tshape _ _ _ _ _ G2). reflexivity.
  - unfold retains_io. eapply incl_tran; [eapply io_back; [exact RO|apply (gk_nreg _ _ _ _ _ G1)]|apply (gk_io _ _ _ _ _ G2)].
  - unfold retains_io. eapply incl_tran; [eapply io_back; [exact RO|apply (gk_nreg _ _ _ _ _ G2)]|apply (gk_io _ _ _ _ _ G1)].
Qed.

(* all genomes start with the same innovation number *)
Lemma gok_hd C e R NR g x : rok C e R NR -> gok C e R NR g -> hd_error (genes g) = Some x -> g_innov x = c_n0 C.
Proof.
  intros RO G Hhd. pose proof (wf_genes _ (gk_wf _ _ _ _ _ G)) as Hs. unfold genes_sorted in Hs.
  pose proof (gk_first _ _ _ _ _ G) as Hf. pose proof (gk_reg _ _ _ _ _ G) as Ha.
  destruct (genes g) as [|y l] eqn:E; [discriminate|]. cbn in Hhd. injection Hhd as ->.
  assert (Hlo : c_n0 C <= g_innov x).
  { apply (ro_bound _ _ _ _ RO (g_innov x) (link_key x)). apply Ha. rewrite E. now left. }
  cbn [map] in Hf. destruct Hf as [Hf|Hf]; [now symmetry|].
  apply in_map_iff in Hf. destruct Hf as (z & Hz & Hin).
  pose proof (asc_head g_innov x l Hs z Hin). lia.
Qed.

(* ------------------------------------------------------------------------------------------ *)
(* 4. what the operator-level theorems of MutateWF.v provide (C01, operator level)              *)
(* ------------------------------------------------------------------------------------------ *)
Definition op_stmt (op : genome -> @M st (genome * bool)) : Prop :=
  forall g s g' b s', op g s = Ok ((g', b), s') -> wf g -> env_ok (s_env s) g ->
    wf g' /\ retains_io g g' /\ env_ok (s_env s') g' /\ env_extends (s_env s) (s_env s').

Record mutators_ok : Prop := {
  H_add_node : forall o, op_stmt (mutate_add_node o);
  H_add_link : forall o, op_stmt (mutate_add_link o);
  H_connect_sensors : op_stmt mutate_connect_sensors;
  H_all_nonstructural : forall o, op_stmt (mutate_all_nonstructural o);
  H_link_weights : forall pw rt ga, op_stmt (mutate_link_weights pw rt ga)
}.

(* the outcome of one operator application on one genome: environment and registry grew, and the
   result genome satisfies the invariant under the new ones *)
Definition step_ok (C : ctx) (e e' : ienv) (R : reg) (NR : nreg) (g' : genome) : Prop :=
  exists R' NR', env_extends e e' /\ ext e e' R R' NR NR' /\ rok C e' R' NR' /\ gok C e' R' NR' g'.

Lemma step_ok_refl C e R NR g : rok C e R NR -> gok C e R NR g -> step_ok C e e R NR g.
Proof. intros A B. exists R, NR. split; [apply env_extends_refl|]. split; [apply ext_refl|]. auto. Qed.

Lemma step_ok_trans C e0 e1 e2 R NR g1 g2 :
  step_ok C e0 e1 R NR g1 ->
  (forall R1 NR1, rok C e1 R1 NR1 -> gok C e1 R1 NR1 g1 -> step_ok C e1 e2 R1 NR1 g2) ->
  step_ok C e0 e2 R NR g2.
Proof.
  intros (R1 & N1 & X1 & E1 & RO1 & G1) H. destruct (H R1 N1 RO1 G1) as (R2 & N2 & X2 & E2 & RO2 & G2).
  exists R2, N2. split; [eapply env_extends_trans; eauto|]. split; [eapply ext_trans; eauto|]. auto.
Qed.

Lemma assemble C e e' R NR R' NR' g g' :
  gok C e R NR g ->
  wf g' /\ retains_io g g' /\ env_ok e' g' /\ env_extends e e' ->
  ext e e' R R' NR NR' -> rok C e' R' NR' -> g_agrees R' g' -> n_agrees NR' g' -> tshape g' = tshape g ->
  (forall n, In n (map g_innov (genes g)) -> In n (map g_innov (genes g'))) ->
  step_ok C e e' R NR g'.
Proof.
  intros G (W & IO & EO & EX) X RO A N T F. exists R', NR'. split; [exact EX|]. split; [exact X|]. split; [exact RO|].
  constructor; auto.
  - eapply incl_tran; [apply (gk_io _ _ _ _ _ G)|exact IO].
  - rewrite T. apply (gk_tshape _ _ _ _ _ G).
  - apply F, (gk_first _ _ _ _ _ G).
Qed.

(* ------------------------------------------------------------------------------------------ *)
(* 5. parametric mutators: same genes and nodes up to weights, flags and trait references       *)
(* ------------------------------------------------------------------------------------------ *)
Lemma sig_in' {A B} (f : A -> B) l l' : map f l' = map f l -> forall x', In x' l' -> exists x, In x l /\ f x = f x'.
Proof.
  intros Hm x' Hx'. assert (Hi : In (f x') (map f l)) by (rewrite <- Hm; now apply in_map).
  apply in_map_iff in Hi. destruct Hi as (x & Hfx & Hx). now exists x.
Qed.

Lemma gene_sig_reg x y : gene_sig x = gene_sig y -> (g_innov x, link_key x) = (g_innov y, link_key y).
Proof. unfold gene_sig, link_key. intros H. injection H as -> -> -> ->. reflexivity. Qed.

Lemma frame_agrees R g g' : frame g g' -> g_agrees R g -> g_agrees R g'.
Proof.
  intros (_ & Fg & _) A x' Hx'. destruct (sig_in' gene_sig _ _ Fg x' Hx') as (x & Hx & Hs).
  rewrite <- (gene_sig_reg _ _ Hs). now apply A.
Qed.

Lemma frame_nagrees NR g g' : frame g g' -> n_agrees NR g -> n_agrees NR g'.
Proof.
  intros (Fn & _) A n' Hn'. destruct (sig_in' node_sig _ _ Fn n' Hn') as (n & Hn & Hs).
  unfold node_sig in Hs. injection Hs as <- <- _. now apply A.
Qed.

Lemma frame_innovs g g' : frame g g' -> map g_innov (genes g') = map g_innov (genes g).
Proof.
  intros (_ & Fg & _). apply (f_equal (map snd)) in Fg. rewrite !map_map in Fg. exact Fg.
Qed.

Lemma frame_step C e e' R NR g g' :
  rok C e R NR -> gok C e R NR g -> frame g g' -> tshape g' = tshape g ->
  wf g' /\ retains_io g g' /\ env_ok e' g' /\ env_extends e e' ->
  next_innov e' = next_innov e -> next_node e' = next_node e -> innovs e' = innovs e ->
  step_ok C e e' R NR g'.
Proof.
  intros RO G F T W E1 E2 E3. eapply assemble; eauto.
  - now apply ext_same_counters.
  - destruct RO as [A B D E F' G' H I J K]. constructor; rewrite ?E1, ?E2, ?E3; assumption.
  - eapply frame_agrees; [exact F|apply (gk_reg _ _ _ _ _ G)].
  - eapply frame_nagrees; [exact F|apply (gk_nreg _ _ _ _ _ G)].
  - intros n Hn. now rewrite (frame_innovs _ _ F).
Qed.

Lemma tshape_traits g g' : traits g' = traits g -> tshape g' = tshape g.
Proof. unfold tshape. now intros ->. Qed.

Lemma step_if_rel (Rl : genome -> genome -> Prop) p op g0 (gb : genome * bool) s r s' :
  (forall a b c, Rl a b -> Rl b c -> Rl a c) ->
  (forall g s g' b s', op g s = Ok ((g', b), s') -> Rl g g') ->
  Rl g0 (fst gb) -> step_if p op gb s = Ok (r, s') -> Rl g0 (fst r).
Proof.
  intros Ht Hop H0 H. unfold step_if in H. minv.
  destruct (PrimFloat.ltb a p).
  - destruct r as [g' b]. eapply Ht; [exact H0|]. eapply Hop; eauto.
  - minv. subst. exact H0.
Qed.

Lemma all_nonstructural_tshape o g s g' b s' :
  mutate_all_nonstructural o g s = Ok ((g', b), s') -> tshape g' = tshape g.
Proof.
  unfold mutate_all_nonstructural. intros H. minv.
  set (Rl := fun a b : genome => tshape b = tshape a).
  assert (Ht : forall a b c, Rl a b -> Rl b c -> Rl a c) by (unfold Rl; intros; congruence).
  eapply (step_if_rel Rl) in E; [|exact Ht| |reflexivity].
  2:{ intros gg1 ss1 gg2 bb2 ss2 Hr. apply random_trait_spec in Hr.
      destruct Hr as (_ & _ & _ & (k & t & t' & Hn & Hset & Hid & Hlen) & _). unfold Rl, tshape. rewrite Hset.
      eapply map_set_nth_same; [exact Hn|]. now rewrite Hid, Hlen. }
  eapply (step_if_rel Rl) in E0; [|exact Ht| |exact E].
  2:{ intros gg1 ss1 gg2 bb2 ss2 Hr. apply link_trait_spec in Hr. apply tshape_traits. tauto. }
  eapply (step_if_rel Rl) in E1; [|exact Ht| |exact E0].
  2:{ intros gg1 ss1 gg2 bb2 ss2 Hr. apply node_trait_spec in Hr. apply tshape_traits. tauto. }
  eapply (step_if_rel Rl) in E2; [|exact Ht| |exact E1].
  2:{ intros gg1 ss1 gg2 bb2 ss2 Hr. apply link_weights_spec in Hr. apply tshape_traits. tauto. }
  eapply (step_if_rel Rl) in E3; [|exact Ht| |exact E2].
  2:{ intros gg1 ss1 gg2 bb2 ss2 Hr. apply toggle_spec in Hr. apply tshape_traits. tauto. }
  eapply (step_if_rel Rl) in H; [|exact Ht| |exact E3].
  2:{ intros gg1 ss1 gg2 bb2 ss2 Hr. apply reenable_spec in Hr. apply tshape_traits. tauto. }
  exact H.
Qed.

Section Mutators.
  Variable MH : mutators_ok.
  Variable C : ctx.

  Lemma link_weights_step pw rt ga R NR g s g' b s' :
    rok C (s_env s) R NR -> gok C (s_env s) R NR g ->
    mutate_link_weights pw rt ga g s = Ok ((g', b), s') -> step_ok C (s_env s) (s_env s') R NR g'.
  Proof.
    intros RO G H. pose proof (H_link_weights MH pw rt ga g s g' b s' H (gk_wf _ _ _ _ _ G) (gk_env _ _ _ _ _ G)) as W.
    apply link_weights_spec in H. destruct H as (F & _ & T & _ & _ & E).
    eapply frame_step; eauto; try (now rewrite E). now apply tshape_traits.
  Qed.

  Lemma all_nonstructural_step o R NR g s g' b s' :
    rok C (s_env s) R NR -> gok C (s_env s) R NR g ->
    mutate_all_nonstructural o g s = Ok ((g', b), s') -> step_ok C (s_env s) (s_env s') R NR g'.
  Proof.
    intros RO G H. pose proof (H_all_nonstructural MH o g s g' b s' H (gk_wf _ _ _ _ _ G) (gk_env _ _ _ _ _ G)) as W.
    pose proof (all_nonstructural_tshape _ _ _ _ _ _ H) as T.
    apply all_nonstructural_spec in H. destruct H as (F & E).
    eapply frame_step; eauto; now rewrite E.
  Qed.
End Mutators.
