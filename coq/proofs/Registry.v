(* C03, operator level: the ghost registry (innovation number |-> link, node id |-> role), the
   invariant tying it to the innovation environment, and its preservation by every mutator and
   every crossover.  The population-level induction is in PopWF.v. *)
From NeatModel Require Import Res F64 GoRand Genome Options Insert Dup Mutate Mate InsertSpec WF
     MutateMonad MutateFrame MutateSpec MateSpec MateWF.
From Coq Require Import Lia Sorting.Sorted Sorting.Permutation.

(* MateSpec.innovs (numbers of a genome) shadows the record field of the environment *)
Notation innovs := Genome.innovs.

(* ------------------------------------------------------------------------------------------ *)
(* 1. registries                                                                                *)
(* ------------------------------------------------------------------------------------------ *)
Definition reg := list (Z * (Z * Z * bool)).      (* innovation number |-> (in, out, recurrent) *)
Definition nreg := list (Z * Z).                  (* node id |-> NodeNeuronType *)

Definition functional {A B} (l : list (A * B)) : Prop :=
  forall a b b', In (a, b) l -> In (a, b') l -> b = b'.

Definition g_agrees (R : reg) (g : genome) : Prop :=
  forall x, In x (genes g) -> In (g_innov x, link_key x) R.
Definition n_agrees (NR : nreg) (g : genome) : Prop :=
  forall n, In n (nodes g) -> In (n_id n, n_type n) NR.

Definition is_io_type (t : Z) : bool := (Z.eqb t INPUT || Z.eqb t BIAS) || Z.eqb t OUTPUT.

Lemma is_io_io_type n : is_io n = is_io_type (n_type n).
Proof. reflexivity. Qed.

(* what all genomes of one population have in common with the start genome *)
Record ctx := { c_io : list (Z * Z);           (* its input, bias and output nodes *)
                c_tshape : list (Z * nat);     (* trait ids and parameter counts *)
                c_n0 : Z }.                    (* the innovation number of its first gene *)

Definition tshape (g : genome) : list (Z * nat) := map (fun t => (t_id t, length (t_params t))) (traits g).

(* the registry against the innovation environment *)
Record rok (C : ctx) (e : ienv) (R : reg) (NR : nreg) : Prop := {
  ro_fun : functional R;
  ro_nfun : functional NR;
  ro_n0 : c_n0 C <= next_innov e;
  ro_bound : forall n k, In (n, k) R -> c_n0 C <= n <= next_innov e;
  ro_nbound : forall i t, In (i, t) NR -> i <= next_node e;
  ro_io : forall i t, In (i, t) NR -> is_io_type t = true -> In (i, t) (c_io C);
  (* a recorded link innovation: its number denotes its link *)
  ro_link : forall i, In i (innovs e) -> i_type i = 2 -> In (i_num i, (i_in i, i_out i, i_rec i)) R;
  (* a recorded node innovation: the split gene (whose recurrence flag the record does not store)
     is registered under i_old with some flag rc, the first new gene carries that flag, the second
     is never recurrent, the new node is hidden *)
  ro_node : forall i, In i (innovs e) -> i_type i = 1 ->
      In (i_node i, HIDDEN) NR /\ In (i_num2 i, (i_node i, i_out i, false)) R /\
      exists rc, In (i_old i, (i_in i, i_out i, rc)) R /\ In (i_num i, (i_in i, i_node i, rc)) R;
  (* at most one record per structural key *)
  ro_lkey : forall i j, In i (innovs e) -> In j (innovs e) -> i_type i = 2 -> i_type j = 2 ->
      i_in i = i_in j -> i_out i = i_out j -> i_rec i = i_rec j -> i = j;
  ro_nkey : forall i j, In i (innovs e) -> In j (innovs e) -> i_type i = 1 -> i_type j = 1 ->
      i_in i = i_in j -> i_out i = i_out j -> i_old i = i_old j -> i = j
}.

(* one genome against environment, registry and the common context *)
Record gok (C : ctx) (e : ienv) (R : reg) (NR : nreg) (g : genome) : Prop := {
  gk_wf : wf g;
  gk_env : env_ok e g;
  gk_reg : g_agrees R g;
  gk_nreg : n_agrees NR g;
  gk_io : incl (c_io C) (io_nodes g);
  gk_tshape : tshape g = c_tshape C;
  gk_first : In (c_n0 C) (map g_innov (genes g))
}.

(* the registry grew: old entries stay, new entries carry numbers / ids issued after e *)
Record ext (e e' : ienv) (R R' : reg) (NR NR' : nreg) : Prop := {
  x_innov : next_innov e <= next_innov e';
  x_node : next_node e <= next_node e';
  x_R : incl R R';
  x_NR : incl NR NR';
  x_new : forall n k, In (n, k) R' -> In (n, k) R \/ next_innov e < n;
  x_nnew : forall i t, In (i, t) NR' -> In (i, t) NR \/ next_node e < i
}.

Lemma ext_refl e R NR : ext e e R R NR NR.
Proof. constructor; try lia; try apply incl_refl; auto. Qed.

Lemma ext_trans e0 e1 e2 R0 R1 R2 N0 N1 N2 :
  ext e0 e1 R0 R1 N0 N1 -> ext e1 e2 R1 R2 N1 N2 -> ext e0 e2 R0 R2 N0 N2.
Proof.
  intros [A1 A2 A3 A4 A5 A6] [B1 B2 B3 B4 B5 B6]. constructor; try lia.
  - eapply incl_tran; eauto.
  - eapply incl_tran; eauto.
  - intros n k H. destruct (B5 n k H) as [H1|H1]; [|right; lia]. destruct (A5 n k H1); auto.
  - intros i t H. destruct (B6 i t H) as [H1|H1]; [|right; lia]. destruct (A6 i t H1); auto.
Qed.

Lemma ext_same_counters e e' R NR :
  next_innov e' = next_innov e -> next_node e' = next_node e -> ext e e' R R NR NR.
Proof. intros A B. constructor; try lia; try apply incl_refl; auto. Qed.

Lemma gok_mono C e e' R R' NR NR' g :
  gok C e R NR g -> env_extends e e' -> incl R R' -> incl NR NR' -> gok C e' R' NR' g.
Proof.
  intros [A B D E F G H] X IR IN. constructor; auto.
  - eapply env_ok_extends; eauto.
  - intros x Hx. apply IR. now apply D.
  - intros n Hn. apply IN. now apply E.
Qed.

(* the genome id is irrelevant *)
Lemma env_ok_with_id e g i : env_ok e g -> env_ok e (with_id g i).
Proof. intros [A B D E F G]. constructor; assumption. Qed.

Lemma gok_with_id C e R NR g i : gok C e R NR g -> gok C e R NR (with_id g i).
Proof.
  intros [A B D E F G H]. constructor; try assumption.
  - now apply wf_with_id.
  - now apply env_ok_with_id.
Qed.

(* ------------------------------------------------------------------------------------------ *)
(* 2. forgetting the record (end of a generation)                                               *)
(* ------------------------------------------------------------------------------------------ *)
Definition forget (e : ienv) : ienv := {| innovs := []; next_innov := next_innov e; next_node := next_node e |}.

Lemma env_ok_forget e g : env_ok e g -> env_ok (forget e) g.
Proof.
  intros [A B D E F G]. constructor; cbn [forget innovs next_innov next_node]; try assumption;
    try (intros; contradiction); try (intros ? []). constructor.
Qed.

Lemma rok_forget C e R NR : rok C e R NR -> rok C (forget e) R NR.
Proof.
  intros [A B D E F G H I J K]. constructor; cbn [forget innovs next_innov next_node]; try assumption;
    intros; contradiction.
Qed.

Lemma gok_forget C e R NR g : gok C e R NR g -> gok C (forget e) R NR g.
Proof. intros [A B D E F G H]. constructor; try assumption. now apply env_ok_forget. Qed.

(* ------------------------------------------------------------------------------------------ *)
(* 3. genomes that agree with one functional registry are relatives                             *)
(* ------------------------------------------------------------------------------------------ *)
Lemma agrees_consistent R p1 p2 : functional R -> g_agrees R p1 -> g_agrees R p2 -> consistent p1 p2.
Proof.
  intros HF A1 A2 a b Ha Hb E. apply same_link_key.
  apply (HF (g_innov a)); [now apply A1|]. rewrite E. now apply A2.
Qed.

Lemma tshape_ids g1 g2 : tshape g1 = tshape g2 -> map t_id (traits g1) = map t_id (traits g2).
Proof.
  unfold tshape. intros H. apply (f_equal (map fst)) in H. rewrite !map_map in H. exact H.
Qed.

Lemma tshape_params g1 g2 : tshape g1 = tshape g2 ->
  Forall2 (fun a b => length (t_params a) = length (t_params b)) (traits g1) (traits g2).
Proof.
  unfold tshape. generalize (traits g1) (traits g2).
  induction l as [|a l IH]; intros [|b l'] H; cbn [map] in H; try discriminate; constructor.
  - now injection H.
  - apply IH. now injection H.
Qed.

Lemma io_back C e R NR g : rok C e R NR -> n_agrees NR g -> incl (io_nodes g) (c_io C).
Proof.
  intros RO HN [i t] Hin. destruct (io_nodes_in g i t Hin) as (n & Hn & Hio & <- & <-).
  apply (ro_io _ _ _ _ RO); [now apply HN|]. now rewrite <- is_io_io_type.
Qed.

Lemma gok_relatives C e R NR p1 p2 : rok C e R NR -> gok C e R NR p1 -> gok C e R NR p2 -> relatives p1 p2.
Proof.
  intros RO G1 G2. constructor.
  - apply (gk_wf _ _ _ _ _ G1).
  - apply (gk_wf _ _ _ _ _ G2).
  - eapply agrees_consistent; [apply (ro_fun _ _ _ _ RO)|apply (gk_reg _ _ _ _ _ G1)|apply (gk_reg _ _ _ _ _ G2)].
  - apply tshape_ids. rewrite (gk_tshape _ _ _ _ _ G1), (gk_tshape _ _ _ _ _ G2). reflexivity.
  - apply tshape_params. rewrite (gk_tshape _ _ _ _ _ G1), (gk_tshape _ _ _ _ _ G2). reflexivity.
  - unfold retains_io. eapply incl_tran; [eapply io_back; [exact RO|apply (gk_nreg _ _ _ _ _ G1)]|apply (gk_io _ _ _ _ _ G2)].
  - unfold retains_io. eapply incl_tran; [eapply io_back; [exact RO|apply (gk_nreg _ _ _ _ _ G2)]|apply (gk_io _ _ _ _ _ G1)].
Qed.

(* all genomes start with the same innovation number *)
Lemma gok_hd C e R NR g x : rok C e R NR -> gok C e R NR g -> hd_error (genes g) = Some x -> g_innov x = c_n0 C.
Proof.
  intros RO G Hhd. pose proof (wf_genes _ (gk_wf _ _ _ _ _ G)) as Hs. unfold genes_sorted in Hs.
  pose proof (gk_first _ _ _ _ _ G) as Hf. pose proof (gk_reg _ _ _ _ _ G) as Ha.
  destruct (genes g) as [|y l] eqn:E; [discriminate|]. cbn in Hhd. injection Hhd as ->.
  assert (Hlo : c_n0 C <= g_innov x).
  { apply (ro_bound _ _ _ _ RO (g_innov x) (link_key x)). apply Ha. rewrite E. now left. }
  cbn [map] in Hf. destruct Hf as [Hf|Hf]; [now symmetry|].
  apply in_map_iff in Hf. destruct Hf as (z & Hz & Hin).
  pose proof (asc_head g_innov x l Hs z Hin). lia.
Qed.

(* ------------------------------------------------------------------------------------------ *)
(* 4. what the operator-level theorems of MutateWF.v provide (C01, operator level)              *)
(* ------------------------------------------------------------------------------------------ *)
Definition op_stmt (op : genome -> @M st (genome * bool)) : Prop :=
  forall g s g' b s', op g s = Ok ((g', b), s') -> wf g -> env_ok (s_env s) g ->
    wf g' /\ retains_io g g' /\ env_ok (s_env s') g' /\ env_extends (s_env s) (s_env s').

Record mutators_ok : Prop := {
  H_add_node : forall o, op_stmt (mutate_add_node o);
  H_add_link : forall o, op_stmt (mutate_add_link o);
  H_connect_sensors : op_stmt mutate_connect_sensors;
  H_all_nonstructural : forall o, op_stmt (mutate_all_nonstructural o);
  H_link_weights : forall pw rt ga, op_stmt (mutate_link_weights pw rt ga)
}.

(* the outcome of one operator application on one genome: environment and registry grew, and the
   result genome satisfies the invariant under the new ones *)
Definition step_ok (C : ctx) (e e' : ienv) (R : reg) (NR : nreg) (g' : genome) : Prop :=
  exists R' NR', env_extends e e' /\ ext e e' R R' NR NR' /\ rok C e' R' NR' /\ gok C e' R' NR' g'.

Lemma step_ok_refl C e R NR g : rok C e R NR -> gok C e R NR g -> step_ok C e e R NR g.
Proof. intros A B. exists R, NR. split; [apply env_extends_refl|]. split; [apply ext_refl|]. auto. Qed.

Lemma step_ok_trans C e0 e1 e2 R NR g1 g2 :
  step_ok C e0 e1 R NR g1 ->
  (forall R1 NR1, rok C e1 R1 NR1 -> gok C e1 R1 NR1 g1 -> step_ok C e1 e2 R1 NR1 g2) ->
  step_ok C e0 e2 R NR g2.
Proof.
  intros (R1 & N1 & X1 & E1 & RO1 & G1) H. destruct (H R1 N1 RO1 G1) as (R2 & N2 & X2 & E2 & RO2 & G2).
  exists R2, N2. split; [eapply env_extends_trans; eauto|]. split; [eapply ext_trans; eauto|]. auto.
Qed.

Lemma assemble C e e' R NR R' NR' g g' :
  gok C e R NR g ->
  wf g' /\ retains_io g g' /\ env_ok e' g' /\ env_extends e e' ->
  ext e e' R R' NR NR' -> rok C e' R' NR' -> g_agrees R' g' -> n_agrees NR' g' -> tshape g' = tshape g ->
  (forall n, In n (map g_innov (genes g)) -> In n (map g_innov (genes g'))) ->
  step_ok C e e' R NR g'.
Proof.
  intros G (W & IO & EO & EX) X RO A N T F. exists R', NR'. split; [exact EX|]. split; [exact X|]. split; [exact RO|].
  constructor; auto.
  - eapply incl_tran; [apply (gk_io _ _ _ _ _ G)|exact IO].
  - rewrite T. apply (gk_tshape _ _ _ _ _ G).
  - apply F, (gk_first _ _ _ _ _ G).
Qed.

(* ------------------------------------------------------------------------------------------ *)
(* 5. parametric mutators: same genes and nodes up to weights, flags and trait references       *)
(* ------------------------------------------------------------------------------------------ *)
Lemma sig_in' {A B} (f : A -> B) l l' : map f l' = map f l -> forall x', In x' l' -> exists x, In x l /\ f x = f x'.
Proof.
  intros Hm x' Hx'. assert (Hi : In (f x') (map f l)) by (rewrite <- Hm; now apply in_map).
  apply in_map_iff in Hi. destruct Hi as (x & Hfx & Hx). now exists x.
Qed.

Lemma gene_sig_reg x y : gene_sig x = gene_sig y -> (g_innov x, link_key x) = (g_innov y, link_key y).
Proof. unfold gene_sig, link_key. intros H. injection H as -> -> -> ->. reflexivity. Qed.

Lemma frame_agrees R g g' : frame g g' -> g_agrees R g -> g_agrees R g'.
Proof.
  intros (_ & Fg & _) A x' Hx'. destruct (sig_in' gene_sig _ _ Fg x' Hx') as (x & Hx & Hs).
  rewrite <- (gene_sig_reg _ _ Hs). now apply A.
Qed.

Lemma frame_nagrees NR g g' : frame g g' -> n_agrees NR g -> n_agrees NR g'.
Proof.
  intros (Fn & _) A n' Hn'. destruct (sig_in' node_sig _ _ Fn n' Hn') as (n & Hn & Hs).
  unfold node_sig in Hs. injection Hs as <- <- _. now apply A.
Qed.

Lemma frame_innovs g g' : frame g g' -> map g_innov (genes g') = map g_innov (genes g).
Proof.
  intros (_ & Fg & _). apply (f_equal (map snd)) in Fg. rewrite !map_map in Fg. exact Fg.
Qed.

Lemma frame_step C e e' R NR g g' :
  rok C e R NR -> gok C e R NR g -> frame g g' -> tshape g' = tshape g ->
  wf g' /\ retains_io g g' /\ env_ok e' g' /\ env_extends e e' ->
  next_innov e' = next_innov e -> next_node e' = next_node e -> innovs e' = innovs e ->
  step_ok C e e' R NR g'.
Proof.
  intros RO G F T W E1 E2 E3. eapply assemble; eauto.
  - now apply ext_same_counters.
  - destruct RO as [A B D E F' G' H I J K]. constructor; rewrite ?E1, ?E2, ?E3; assumption.
  - eapply frame_agrees; [exact F|apply (gk_reg _ _ _ _ _ G)].
  - eapply frame_nagrees; [exact F|apply (gk_nreg _ _ _ _ _ G)].
  - intros n Hn. now rewrite (frame_innovs _ _ F).
Qed.

Lemma tshape_traits g g' : traits g' = traits g -> tshape g' = tshape g.
Proof. unfold tshape. now intros ->. Qed.

Lemma step_if_rel (Rl : genome -> genome -> Prop) p op g0 (gb : genome * bool) s r s' :
  (forall a b c, Rl a b -> Rl b c -> Rl a c) ->
  (forall g s g' b s', op g s = Ok ((g', b), s') -> Rl g g') ->
  Rl g0 (fst gb) -> step_if p op gb s = Ok (r, s') -> Rl g0 (fst r).
Proof.
  intros Ht Hop H0 H. unfold step_if in H. minv.
  destruct (PrimFloat.ltb a p).
  - destruct r as [g' b]. eapply Ht; [exact H0|]. eapply Hop; eauto.
  - minv. subst. exact H0.
Qed.

Lemma all_nonstructural_tshape o g s g' b s' :
  mutate_all_nonstructural o g s = Ok ((g', b), s') -> tshape g' = tshape g.
Proof.
  unfold mutate_all_nonstructural. intros H. minv.
  set (Rl := fun a b : genome => tshape b = tshape a).
  assert (Ht : forall a b c, Rl a b -> Rl b c -> Rl a c) by (unfold Rl; intros; congruence).
  eapply (step_if_rel Rl) in E; [|exact Ht| |reflexivity].
  2:{ intros gg1 ss1 gg2 bb2 ss2 Hr. apply random_trait_spec in Hr.
      destruct Hr as (_ & _ & _ & (k & t & t' & Hn & Hset & Hid & Hlen) & _). unfold Rl, tshape. rewrite Hset.
      eapply map_set_nth_same; [exact Hn|]. now rewrite Hid, Hlen. }
  eapply (step_if_rel Rl) in E0; [|exact Ht| |exact E].
  2:{ intros gg1 ss1 gg2 bb2 ss2 Hr. apply link_trait_spec in Hr. apply tshape_traits. tauto. }
  eapply (step_if_rel Rl) in E1; [|exact Ht| |exact E0].
  2:{ intros gg1 ss1 gg2 bb2 ss2 Hr. apply node_trait_spec in Hr. apply tshape_traits. tauto. }
  eapply (step_if_rel Rl) in E2; [|exact Ht| |exact E1].
  2:{ intros gg1 ss1 gg2 bb2 ss2 Hr. apply link_weights_spec in Hr. apply tshape_traits. tauto. }
  eapply (step_if_rel Rl) in E3; [|exact Ht| |exact E2].
  2:{ intros gg1 ss1 gg2 bb2 ss2 Hr. apply toggle_spec in Hr. apply tshape_traits. tauto. }
  eapply (step_if_rel Rl) in H; [|exact Ht| |exact E3].
  2:{ intros gg1 ss1 gg2 bb2 ss2 Hr. apply reenable_spec in Hr. apply tshape_traits. tauto. }
  exact H.
Qed.

Section Mutators.
  Variable MH : mutators_ok.
  Variable C : ctx.

  Lemma link_weights_step pw rt ga R NR g s g' b s' :
    rok C (s_env s) R NR -> gok C (s_env s) R NR g ->
    mutate_link_weights pw rt ga g s = Ok ((g', b), s') -> step_ok C (s_env s) (s_env s') R NR g'.
  Proof.
    intros RO G H. pose proof (H_link_weights MH pw rt ga g s g' b s' H (gk_wf _ _ _ _ _ G) (gk_env _ _ _ _ _ G)) as W.
    apply link_weights_spec in H. destruct H as (F & _ & T & _ & _ & E).
    eapply frame_step; eauto; try (now rewrite E). now apply tshape_traits.
  Qed.

  Lemma all_nonstructural_step o R NR g s g' b s' :
    rok C (s_env s) R NR -> gok C (s_env s) R NR g ->
    mutate_all_nonstructural o g s = Ok ((g', b), s') -> step_ok C (s_env s) (s_env s') R NR g'.
  Proof.
    intros RO G H. pose proof (H_all_nonstructural MH o g s g' b s' H (gk_wf _ _ _ _ _ G) (gk_env _ _ _ _ _ G)) as W.
    pose proof (all_nonstructural_tshape _ _ _ _ _ _ H) as T.
    apply all_nonstructural_spec in H. destruct H as (F & E).
    eapply frame_step; eauto; now rewrite E.
  Qed.
End Mutators.

(* ------------------------------------------------------------------------------------------ *)
(* 6. structural mutators: the registry part                                                    *)
(* ------------------------------------------------------------------------------------------ *)
Lemma fli_some : forall l i o rc inn,
    find_link_innov l i o rc = Some inn ->
    In inn l /\ i_type inn = 2 /\ i_in inn = i /\ i_out inn = o /\ i_rec inn = rc.
Proof.
  induction l as [|x l IH]; intros i o rc inn H; cbn [find_link_innov] in H; [discriminate|].
  destruct (_ && _) eqn:E.
  - injection H as <-. repeat (apply andb_true_iff in E; destruct E as [E ?]).
    repeat match goal with H : Z.eqb _ _ = true |- _ => apply Z.eqb_eq in H end.
    match goal with H : Bool.eqb _ _ = true |- _ => apply eqb_prop in H end.
    repeat split; auto. now left.
  - destruct (IH _ _ _ _ H) as (Hin & Hrest). split; [now right|exact Hrest].
Qed.

Lemma fli_none : forall l i o rc,
    find_link_innov l i o rc = None ->
    forall x, In x l -> i_type x = 2 -> i_in x = i -> i_out x = o -> i_rec x = rc -> False.
Proof.
  induction l as [|y l IH]; intros i o rc H x Hx Ht Hi Ho Hr; [destruct Hx|].
  cbn [find_link_innov] in H. destruct (_ && _) eqn:E; [discriminate|].
  destruct Hx as [->|Hx]; [|eapply IH; eauto].
  rewrite Ht, Hi, Ho, Hr, !Z.eqb_refl, eqb_reflx in E. discriminate.
Qed.

Lemma fni_some : forall l i o old inn,
    find_node_innov l i o old = Some inn ->
    In inn l /\ i_type inn = 1 /\ i_in inn = i /\ i_out inn = o /\ i_old inn = old.
Proof.
  induction l as [|x l IH]; intros i o old inn H; cbn [find_node_innov] in H; [discriminate|].
  destruct (_ && _) eqn:E.
  - injection H as <-. repeat (apply andb_true_iff in E; destruct E as [E ?]).
    repeat match goal with H : Z.eqb _ _ = true |- _ => apply Z.eqb_eq in H end.
    repeat split; auto. now left.
  - destruct (IH _ _ _ _ H) as (Hin & Hrest). split; [now right|exact Hrest].
Qed.

Lemma fni_none : forall l i o old,
    find_node_innov l i o old = None ->
    forall x, In x l -> i_type x = 1 -> i_in x = i -> i_out x = o -> i_old x = old -> False.
Proof.
  induction l as [|y l IH]; intros i o old H x Hx Ht Hi Ho Hr; [destruct Hx|].
  cbn [find_node_innov] in H. destruct (_ && _) eqn:E; [discriminate|].
  destruct Hx as [->|Hx]; [|eapply IH; eauto].
  rewrite Ht, Hi, Ho, Hr, !Z.eqb_refl in E. discriminate.
Qed.

Lemma in_snoc {A} (l : list A) (x y : A) : In y (l ++ [x]) -> In y l \/ y = x.
Proof. intros H. apply in_app_or in H. destruct H as [H|[H|[]]]; auto. Qed.

(* a new link record with a freshly issued number *)
Lemma rok_new_link C e e' R NR r key :
  rok C e R NR ->
  innovs e' = innovs e ++ [r] -> next_innov e' = next_innov e + 1 -> next_node e' = next_node e ->
  i_type r = 2 -> i_num r = next_innov e + 1 -> (i_in r, i_out r, i_rec r) = key ->
  find_link_innov (innovs e) (i_in r) (i_out r) (i_rec r) = None ->
  rok C e' (R ++ [(next_innov e + 1, key)]) NR /\
  ext e e' R (R ++ [(next_innov e + 1, key)]) NR NR.
Proof.
  intros [A B D E F G H I J K] Ei En Enn Ht Hnum Hkey Hnone. split.
  - constructor; rewrite ?Ei, ?En, ?Enn; try assumption.
    + intros a b b' H1 H2. apply in_snoc in H1. apply in_snoc in H2.
      destruct H1 as [H1|H1], H2 as [H2|H2].
      * eapply A; eauto.
      * injection H2 as -> ->. specialize (E _ _ H1). lia.
      * injection H1 as -> ->. specialize (E _ _ H2). lia.
      * congruence.
    + lia.
    + intros n k Hin. apply in_snoc in Hin. destruct Hin as [Hin|Hin].
      * specialize (E _ _ Hin). lia.
      * injection Hin as -> ->. lia.
    + intros i Hin Hti. apply in_snoc in Hin. apply in_or_app. destruct Hin as [Hin| ->].
      * left. now apply H.
      * right. left. now rewrite Hnum, Hkey.
    + intros i Hin Hti. apply in_snoc in Hin. destruct Hin as [Hin| ->]; [|congruence].
      destruct (I i Hin Hti) as (I1 & I2 & rc & I3 & I4). split; [exact I1|]. split; [apply in_or_app; now left|].
      exists rc. split; apply in_or_app; now left.
    + intros i j Hi Hj Hti Htj E1 E2 E3. apply in_snoc in Hi. apply in_snoc in Hj.
      destruct Hi as [Hi| ->], Hj as [Hj| ->]; [now apply J| | |reflexivity]; exfalso.
      * apply (fli_none _ _ _ _ Hnone i Hi Hti); assumption.
      * apply (fli_none _ _ _ _ Hnone j Hj Htj); auto.
    + intros i j Hi Hj Hti Htj E1 E2 E3. apply in_snoc in Hi. apply in_snoc in Hj.
      destruct Hi as [Hi| ->], Hj as [Hj| ->]; [now apply K|congruence|congruence|reflexivity].
  - constructor; try lia.
    + apply incl_appl, incl_refl.
    + apply incl_refl.
    + intros n k Hin. apply in_snoc in Hin. destruct Hin as [Hin|Hin]; [now left|]. injection Hin as -> ->. right. lia.
    + auto.
Qed.

(* the gene inserted by add-link / connect-sensors is registered *)
Lemma link_from_env_reg C R NR g x s s' :
  rok C (s_env s) R NR -> link_from_env g x s s' ->
  exists R', ext (s_env s) (s_env s') R R' NR NR /\ rok C (s_env s') R' NR /\ In (g_innov x, link_key x) R'.
Proof.
  intros RO [(inn & tr & Hf & _ & Hx & _ & Es)|(Hf & tn & w & tr & _ & Hx & Hin & Hni & Hnn)].
  - apply fli_some in Hf. destruct Hf as (Hinn & Hty & Hi & Ho & Hr).
    exists R. rewrite Es. split; [apply ext_refl|]. split; [exact RO|].
    assert (Hnum : g_innov x = i_num inn) by (rewrite Hx; reflexivity).
    rewrite Hnum. unfold link_key. rewrite <- Hi, <- Ho, <- Hr. now apply (ro_link _ _ _ _ RO).
  - set (r := link_innovation (g_in x) (g_out x) (next_innov (s_env s) + 1) w tn (g_rec x)) in *.
    assert (Hnum : g_innov x = next_innov (s_env s) + 1) by (rewrite Hx; reflexivity).
    destruct (rok_new_link C (s_env s) (s_env s') R NR r (link_key x) RO Hin Hni Hnn) as [RO' X]; try reflexivity.
    + exact Hf.
    + exists (R ++ [(next_innov (s_env s) + 1, link_key x)]). split; [exact X|]. split; [exact RO'|].
      apply in_or_app. right. left. now rewrite Hnum.
Qed.

Lemma insert_agrees R g x : g_agrees R g -> In (g_innov x, link_key x) R ->
  g_agrees R (with_genes g (gene_insert (genes g) x)).
Proof.
  intros A Hx z Hz. cbn [genes with_genes] in Hz. apply (insert_sorted_In g_innov) in Hz.
  destruct Hz as [->|Hz]; [exact Hx|now apply A].
Qed.

Lemma insert_keeps_innovs g x n :
  In n (map g_innov (genes g)) -> In n (map g_innov (genes (with_genes g (gene_insert (genes g) x)))).
Proof.
  intros H. apply in_map_iff in H. destruct H as (z & <- & Hz). apply in_map. cbn [genes with_genes].
  apply (insert_sorted_In g_innov). now right.
Qed.

Lemma agrees_incl R R' g : incl R R' -> g_agrees R g -> g_agrees R' g.
Proof. intros I A x Hx. apply I. now apply A. Qed.
Lemma nagrees_incl R R' g : incl R R' -> n_agrees R g -> n_agrees R' g.
Proof. intros I A x Hx. apply I. now apply A. Qed.

(* the registry part of one structural step: independent of well-formedness *)
Definition reg_step (C : ctx) (e e' : ienv) (R : reg) (NR : nreg) (g g' : genome) : Prop :=
  exists R' NR', ext e e' R R' NR NR' /\ rok C e' R' NR' /\ g_agrees R' g' /\ n_agrees NR' g' /\
                 traits g' = traits g /\
                 (forall n, In n (map g_innov (genes g)) -> In n (map g_innov (genes g'))).

Lemma reg_step_refl C e e' R NR g :
  rok C e R NR -> g_agrees R g -> n_agrees NR g -> e' = e -> reg_step C e e' R NR g g.
Proof. intros RO A N ->. exists R, NR. split; [apply ext_refl|]. split; [exact RO|]. split; [exact A|]. split; [exact N|]. split; [reflexivity|auto]. Qed.

Lemma add_link_reg C R NR o g s g' b s' :
  rok C (s_env s) R NR -> g_agrees R g -> n_agrees NR g ->
  mutate_add_link o g s = Ok ((g', b), s') -> reg_step C (s_env s) (s_env s') R NR g g'.
Proof.
  intros RO A N H. apply add_link_inv in H.
  destruct H as [(_ & -> & Es)|(_ & x & n1 & n2 & s1 & _ & _ & _ & _ & _ & Hs1 & Hfrom & ->)].
  - now apply reg_step_refl.
  - rewrite <- Hs1 in *. destruct (link_from_env_reg C R NR g x s1 s' RO Hfrom) as (R' & X & RO' & Hx).
    exists R', NR. split; [exact X|]. split; [exact RO'|]. split; [|split; [exact N|split; [reflexivity|]]].
    + apply insert_agrees; [eapply agrees_incl; [apply (x_R _ _ _ _ _ _ X)|exact A]|exact Hx].
    + intros n. apply insert_keeps_innovs.
Qed.

Lemma connect_fold_reg C sid : forall outs g added stop s g' added' stop' s' R NR,
    rok C (s_env s) R NR -> g_agrees R g -> n_agrees NR g ->
    foldM (connect_one sid) outs (g, added, stop) s = Ok ((g', added', stop'), s') ->
    reg_step C (s_env s) (s_env s') R NR g g' /\ nodes g' = nodes g.
Proof.
  induction outs as [|out outs IH]; intros g added stop s g' added' stop' s' R NR RO A N H; cbn [foldM] in H.
  - minv. pairs. subst. split; [now apply reg_step_refl|reflexivity].
  - minv. destruct a as [[g1 added1] stop1].
    assert (Hstep : reg_step C (s_env s) (s_env s0) R NR g g1 /\ nodes g1 = nodes g).
    { apply connect_one_inv in E.
      destruct E as [(_ & -> & _ & _ & ->)|(_ & _ & [(-> & _ & _ & Es)|(x & _ & _ & _ & _ & Hfrom & -> & _ & _)])].
      - split; [now apply reg_step_refl|reflexivity].
      - split; [now apply reg_step_refl|reflexivity].
      - split; [|reflexivity]. destruct (link_from_env_reg C R NR g x s s0 RO Hfrom) as (R' & X & RO' & Hx).
        exists R', NR. split; [exact X|]. split; [exact RO'|]. split; [|split; [exact N|split; [reflexivity|]]].
        + apply insert_agrees; [eapply agrees_incl; [apply (x_R _ _ _ _ _ _ X)|exact A]|exact Hx].
        + intros n. apply insert_keeps_innovs. }
    destruct Hstep as [(R1 & N1 & X1 & RO1 & A1 & NA1 & T1 & F1) Hn1].
    destruct (IH _ _ _ _ _ _ _ _ R1 N1 RO1 A1 NA1 H) as [(R2 & N2 & X2 & RO2 & A2 & NA2 & T2 & F2) Hn2].
    split; [|congruence]. exists R2, N2. split; [eapply ext_trans; eauto|]. split; [exact RO2|].
    split; [exact A2|]. split; [exact NA2|]. split; [congruence|]. auto.
Qed.

Lemma connect_sensors_reg C R NR g s g' b s' :
  rok C (s_env s) R NR -> g_agrees R g -> n_agrees NR g ->
  mutate_connect_sensors g s = Ok ((g', b), s') -> reg_step C (s_env s) (s_env s') R NR g g'.
Proof.
  unfold mutate_connect_sensors. intros RO A N H. destruct (genes g) as [|x0 gs0] eqn:Eg; [minv|].
  rewrite <- Eg in H. clear x0 gs0 Eg.
  destruct (filter _ (filter is_sensor (nodes g))) as [|d0 ds] eqn:Edis.
  { minv. pairs. subst. now apply reg_step_refl. }
  rewrite <- Edis in H. minv. subst.
  destruct a1 as [[g1 added] stop]. minv. pairs. subst.
  match goal with H : foldM _ _ _ _ = Ok _ |- _ => rename H into Hfold end.
  match goal with H : r_intn _ _ = Ok _ |- _ => apply ep_intn in H; rename H into Es0 end.
  rewrite <- Es0 in *.
  exact (proj1 (connect_fold_reg C _ _ _ _ _ _ _ _ _ _ R NR RO A N Hfold)).
Qed.

Lemma in_snoc2 {A} (l : list A) (x1 x2 y : A) : In y (l ++ [x1; x2]) -> In y l \/ y = x1 \/ y = x2.
Proof. intros H. apply in_app_or in H. destruct H as [H|[H|[H|[]]]]; auto. Qed.

(* a new node record: fresh node id, two fresh numbers *)
Lemma rok_new_node C e e' R NR r rc :
  rok C e R NR ->
  innovs e' = innovs e ++ [r] -> next_innov e' = next_innov e + 1 + 1 -> next_node e' = next_node e + 1 ->
  i_type r = 1 -> i_num r = next_innov e + 1 -> i_num2 r = next_innov e + 1 + 1 -> i_node r = next_node e + 1 ->
  In (i_old r, (i_in r, i_out r, rc)) R ->
  find_node_innov (innovs e) (i_in r) (i_out r) (i_old r) = None ->
  let R' := R ++ [(next_innov e + 1, (i_in r, next_node e + 1, rc));
                  (next_innov e + 1 + 1, (next_node e + 1, i_out r, false))] in
  let NR' := NR ++ [(next_node e + 1, HIDDEN)] in
  rok C e' R' NR' /\ ext e e' R R' NR NR'.
Proof.
  intros [A B D E F G H I J K] Ei En Enn Ht Hn1 Hn2 Hnd Hold Hnone R' NR'. split.
  - constructor; rewrite ?Ei, ?En, ?Enn; try assumption.
    + intros a b b' H1 H2. apply in_snoc2 in H1. apply in_snoc2 in H2.
      destruct H1 as [H1|[H1|H1]], H2 as [H2|[H2|H2]];
        try (eapply A; now eauto); try congruence;
        exfalso; repeat match goal with H : In (_, _) R |- _ => apply E in H end;
        repeat match goal with H : (_, _) = (_, _) |- _ => apply (f_equal fst) in H; cbn [fst] in H end; lia.
    + intros a b b' H1 H2. apply in_snoc in H1. apply in_snoc in H2.
      destruct H1 as [H1|H1], H2 as [H2|H2].
      * eapply B; eauto.
      * injection H2 as -> ->. specialize (F _ _ H1). lia.
      * injection H1 as -> ->. specialize (F _ _ H2). lia.
      * congruence.
    + lia.
    + intros n k Hin. apply in_snoc2 in Hin. destruct Hin as [Hin|[Hin|Hin]].
      * specialize (E _ _ Hin). lia.
      * injection Hin as -> ->. lia.
      * injection Hin as -> ->. lia.
    + intros i t Hin. apply in_snoc in Hin. destruct Hin as [Hin|Hin].
      * specialize (F _ _ Hin). lia.
      * injection Hin as -> ->. lia.
    + intros i t Hin Hio. apply in_snoc in Hin. destruct Hin as [Hin|Hin]; [now apply G|].
      injection Hin as -> ->. discriminate.
    + intros i Hin Hti. apply in_snoc in Hin. destruct Hin as [Hin| ->]; [|congruence].
      apply in_or_app. left. now apply H.
    + intros i Hin Hti. apply in_snoc in Hin. destruct Hin as [Hin| ->].
      * destruct (I i Hin Hti) as (I1 & I2 & rc' & I3 & I4). split; [apply in_or_app; now left|].
        split; [apply in_or_app; now left|]. exists rc'. split; apply in_or_app; now left.
      * rewrite Hn1, Hn2, Hnd. split; [apply in_or_app; right; now left|].
        split; [apply in_or_app; right; right; now left|].
        exists rc. split; [apply in_or_app; now left|apply in_or_app; right; now left].
    + intros i j Hi Hj Hti Htj E1 E2 E3. apply in_snoc in Hi. apply in_snoc in Hj.
      destruct Hi as [Hi| ->], Hj as [Hj| ->]; [now apply J|congruence|congruence|reflexivity].
    + intros i j Hi Hj Hti Htj E1 E2 E3. apply in_snoc in Hi. apply in_snoc in Hj.
      destruct Hi as [Hi| ->], Hj as [Hj| ->]; [now apply K| | |reflexivity]; exfalso.
      * apply (fni_none _ _ _ _ Hnone i Hi Hti); assumption.
      * apply (fni_none _ _ _ _ Hnone j Hj Htj); auto.
  - constructor; try lia.
    + apply incl_appl, incl_refl.
    + apply incl_appl, incl_refl.
    + intros n k Hin. apply in_snoc2 in Hin. destruct Hin as [Hin|[Hin|Hin]]; [now left| |];
        injection Hin as -> ->; right; lia.
    + intros i t Hin. apply in_snoc in Hin. destruct Hin as [Hin|Hin]; [now left|]. injection Hin as -> ->. right. lia.
Qed.

Lemma set_nth_sig {A B} (f : A -> B) (l : list A) k x y :
  nth_error l k = Some x -> f y = f x -> forall z, In z (set_nth l k y) -> exists z0, In z0 l /\ f z0 = f z.
Proof.
  intros Hn Hf z Hz. apply set_nth_In in Hz. destruct Hz as [->|Hz]; [|now exists z].
  exists x. split; [eapply nth_error_In; eauto|now symmetry].
Qed.

Lemma split_genome_genes g k x nd n1 n2 z :
  In z (genes (split_genome g k x nd n1 n2)) ->
  z = mk_gene (g_trait x) (g_w x) (n_id nd) (g_out x) false n2 0%float \/
  z = mk_gene (g_trait x) 1%float (g_in x) (n_id nd) (g_rec x) n1 0%float \/
  In z (set_nth (genes g) k (set_en false x)).
Proof.
  unfold split_genome. cbn [genes]. intros H.
  apply (insert_sorted_In g_innov) in H. destruct H as [H|H]; [now left|].
  apply (insert_sorted_In g_innov) in H. destruct H as [H|H]; auto.
Qed.

Lemma split_genome_keeps g k x nd n1 n2 n :
  nth_error (genes g) k = Some x ->
  In n (map g_innov (genes g)) -> In n (map g_innov (genes (split_genome g k x nd n1 n2))).
Proof.
  intros Hk H. unfold split_genome. cbn [genes].
  assert (H' : In n (map g_innov (set_nth (genes g) k (set_en false x)))).
  { rewrite (map_set_nth_same g_innov (genes g) k x (set_en false x) Hk eq_refl). exact H. }
  apply in_map_iff in H'. destruct H' as (z & <- & Hz). apply in_map.
  apply (insert_sorted_In g_innov). right. apply (insert_sorted_In g_innov). now right.
Qed.

Lemma disable_agrees R g k x :
  nth_error (genes g) k = Some x -> g_agrees R g ->
  forall z, In z (set_nth (genes g) k (set_en false x)) -> In (g_innov z, link_key z) R.
Proof.
  intros Hk A z Hz. apply set_nth_In in Hz. destruct Hz as [->|Hz]; [|now apply A].
  change (In (g_innov x, link_key x) R). apply A. eapply nth_error_In; eauto.
Qed.

Lemma add_node_reg C R NR o g s g' b s' :
  rok C (s_env s) R NR -> g_agrees R g -> n_agrees NR g ->
  mutate_add_node o g s = Ok ((g', b), s') -> reg_step C (s_env s) (s_env s') R NR g g'.
Proof.
  intros RO A N H. apply add_node_inv in H.
  destruct H as [(-> & _ & Es)|(k & x & Hk & _ & [(inn & t0 & Hf & _ & Es & [(_ & _ & ->)|(_ & _ & ->)])|
                                                    (Hf & t0 & act & _ & _ & _ & -> & Hin & Hni & Hnn)])].
  - now apply reg_step_refl.
  - (* recorded, node already present: the gene stays disabled *)
    exists R, NR. rewrite Es. split; [apply ext_refl|]. split; [exact RO|].
    split; [intros z Hz; now apply (disable_agrees R g k x Hk A)|]. split; [exact N|]. split; [reflexivity|].
    intros n Hn. cbn [genes with_genes]. now rewrite (map_set_nth_same g_innov (genes g) k x (set_en false x) Hk eq_refl).
  - (* recorded: the numbers and the node id of the record *)
    apply fni_some in Hf. destruct Hf as (Hinn & Hty & Hi & Ho & Hold).
    destruct (ro_node _ _ _ _ RO inn Hinn Hty) as (I1 & I2 & rc & I3 & I4).
    assert (Hx : In (g_innov x, link_key x) R) by (apply A; eapply nth_error_In; eauto).
    assert (Hrc : rc = g_rec x).
    { rewrite Hold, Hi, Ho in I3. pose proof (ro_fun _ _ _ _ RO _ _ _ I3 Hx) as Hk'. unfold link_key in Hk'. congruence. }
    subst rc. exists R, NR. rewrite Es. split; [apply ext_refl|]. split; [exact RO|]. split; [|split; [|split; [reflexivity|]]].
    + intros z Hz. apply split_genome_genes in Hz. cbn [n_id] in Hz. destruct Hz as [->|[->|Hz]].
      * unfold link_key. cbn. now rewrite <- Ho.
      * unfold link_key. cbn. now rewrite <- Hi.
      * now apply (disable_agrees R g k x Hk A).
    + intros n Hn. unfold split_genome in Hn. cbn [nodes] in Hn. apply (insert_sorted_In n_id) in Hn.
      destruct Hn as [->|Hn]; [exact I1|now apply N].
    + intros n. now apply split_genome_keeps.
  - (* a new innovation *)
    set (e := s_env s) in *.
    set (r := node_innovation x (next_node e + 1) (next_innov e + 1) (next_innov e + 1 + 1)) in *.
    assert (Hx : In (g_innov x, link_key x) R) by (apply A; eapply nth_error_In; eauto).
    destruct (rok_new_node C e (s_env s') R NR r (g_rec x) RO Hin Hni Hnn) as [RO' X]; try reflexivity; try assumption.
    cbn [r node_innovation i_in i_out] in RO', X.
    eexists. eexists. split; [exact X|]. split; [exact RO'|]. split; [|split; [|split; [reflexivity|]]].
    + intros z Hz. apply split_genome_genes in Hz. cbn [n_id] in Hz. apply in_or_app. destruct Hz as [->|[->|Hz]].
      * right. right. now left.
      * right. now left.
      * left. now apply (disable_agrees R g k x Hk A).
    + intros n Hn. unfold split_genome in Hn. cbn [nodes] in Hn. apply (insert_sorted_In n_id) in Hn.
      apply in_or_app. destruct Hn as [->|Hn]; [right; now left|left; now apply N].
    + intros n. now apply split_genome_keeps.
Qed.

(* ------------------------------------------------------------------------------------------ *)
(* 7. structural mutators: the full step                                                        *)
(* ------------------------------------------------------------------------------------------ *)
Lemma reg_step_ok C e e' R NR g g' :
  gok C e R NR g -> reg_step C e e' R NR g g' ->
  wf g' /\ retains_io g g' /\ env_ok e' g' /\ env_extends e e' -> step_ok C e e' R NR g'.
Proof.
  intros G (R' & NR' & X & RO' & A' & N' & T & F) W. eapply assemble; eauto. now apply tshape_traits.
Qed.

Section Structural.
  Variable MH : mutators_ok.
  Variable C : ctx.

  Lemma add_node_step o R NR g s g' b s' :
    rok C (s_env s) R NR -> gok C (s_env s) R NR g ->
    mutate_add_node o g s = Ok ((g', b), s') -> step_ok C (s_env s) (s_env s') R NR g'.
  Proof.
    intros RO G H. eapply reg_step_ok; [exact G| |].
    - eapply add_node_reg; eauto; [apply (gk_reg _ _ _ _ _ G)|apply (gk_nreg _ _ _ _ _ G)].
    - eapply (H_add_node MH); eauto; [apply (gk_wf _ _ _ _ _ G)|apply (gk_env _ _ _ _ _ G)].
  Qed.

  Lemma add_link_step o R NR g s g' b s' :
    rok C (s_env s) R NR -> gok C (s_env s) R NR g ->
    mutate_add_link o g s = Ok ((g', b), s') -> step_ok C (s_env s) (s_env s') R NR g'.
  Proof.
    intros RO G H. eapply reg_step_ok; [exact G| |].
    - eapply add_link_reg; eauto; [apply (gk_reg _ _ _ _ _ G)|apply (gk_nreg _ _ _ _ _ G)].
    - eapply (H_add_link MH); eauto; [apply (gk_wf _ _ _ _ _ G)|apply (gk_env _ _ _ _ _ G)].
  Qed.

  Lemma connect_sensors_step R NR g s g' b s' :
    rok C (s_env s) R NR -> gok C (s_env s) R NR g ->
    mutate_connect_sensors g s = Ok ((g', b), s') -> step_ok C (s_env s) (s_env s') R NR g'.
  Proof.
    intros RO G H. eapply reg_step_ok; [exact G| |].
    - eapply connect_sensors_reg; eauto; [apply (gk_reg _ _ _ _ _ G)|apply (gk_nreg _ _ _ _ _ G)].
    - eapply (H_connect_sensors MH); eauto; [apply (gk_wf _ _ _ _ _ G)|apply (gk_env _ _ _ _ _ G)].
  Qed.
End Structural.

(* ------------------------------------------------------------------------------------------ *)
(* 8. crossover                                                                                 *)
(* ------------------------------------------------------------------------------------------ *)
Lemma ep_disable x1 x2 : env_pres (disable_draw x1 x2).
Proof. unfold disable_draw. ep. Qed.
Lemma ep_pick {A} (a b : A) : env_pres (pick_gt_half a b).
Proof. unfold pick_gt_half. ep. Qed.
Lemma ep_avg_gene g og x1 x2 : env_pres (avg_gene g og x1 x2).
Proof. unfold avg_gene. repeat first [apply ep_pick | apply ep_disable | ep_step]. Qed.
Lemma ep_out_of_fuel {A} : env_pres (fun _ : st => @OutOfFuel (A * st)).
Proof. intros s a s' H. discriminate. Qed.

Lemma ep_multipoint_loop : forall fuel avg g og nt p1b l1 l2 acc,
    env_pres (multipoint_loop fuel avg g og nt p1b l1 l2 acc).
Proof.
  induction fuel as [|f IH]; intros avg g og nt p1b l1 l2 acc; cbn [multipoint_loop]; [apply ep_out_of_fuel|].
  destruct l1 as [|x1 l1'], l2 as [|x2 l2'];
    repeat first [apply IH | apply ep_avg_gene | apply ep_disable | ep_step].
Qed.

Lemma ep_mate_multipoint_gen avg g og id f1 f2 : env_pres (mate_multipoint_gen avg g og id f1 f2).
Proof.
  unfold mate_multipoint_gen. destruct (negb _); [apply ep_fail|].
  destruct (modules g), (modules og); try apply ep_fail.
  repeat first [apply ep_multipoint_loop | ep_step].
Qed.

Lemma ep_singlepoint_loop : forall fuel g a b nt cross l1 l2 counter cs acc,
    env_pres (singlepoint_loop fuel g a b nt cross l1 l2 counter cs acc).
Proof.
  induction fuel as [|f IH]; intros g a b nt cross l1 l2 counter cs acc; cbn [singlepoint_loop]; [apply ep_out_of_fuel|].
  destruct l2 as [|x2 l2']; [apply ep_ret|]. destruct l1 as [|x1 l1'];
    repeat first [apply IH | apply ep_avg_gene | ep_step].
Qed.

Lemma ep_mate_singlepoint g og id : env_pres (mate_singlepoint g og id).
Proof.
  unfold mate_singlepoint. destruct (negb _); [apply ep_fail|].
  destruct (modules g), (modules og); try apply ep_fail.
  apply ep_bind; [ep|intros nt]. apply ep_bind; [ep|intros ns0].
  destruct (Nat.ltb _ _); repeat first [apply ep_singlepoint_loop | ep_step].
Qed.

Lemma mean_traits_tshape p1 p2 :
  Forall2 (fun a b => length (t_params a) = length (t_params b)) (traits p1) (traits p2) ->
  map (fun t => (t_id t, length (t_params t))) (mean_traits p1 p2) = tshape p1.
Proof.
  unfold mean_traits, tshape. induction 1 as [|a b ta tb Hab _ IH]; [reflexivity|].
  cbn [combine map fst snd]. rewrite IH. f_equal. unfold trait_mean. cbn [t_id t_params].
  rewrite map_length, combine_length, <- Hab, Nat.min_id. reflexivity.
Qed.

Lemma sp_child_facts p1 p2 c :
  relatives p1 p2 ->
  (forall x1 x2, hd_error (genes p1) = Some x1 -> hd_error (genes p2) = Some x2 -> g_innov x1 = g_innov x2) ->
  sp_post p1 p2 c -> child_facts p1 p2 c.
Proof.
  intros R Hfirst [M [T [A [P [N1 [N2 [N3 [N4 [NE [_ [L [GT NT]]]]]]]]]]]].
  pose proof (wf_nonempty _ (rel_wf1 _ _ R)) as G1. pose proof (wf_nonempty _ (rel_wf2 _ _ R)) as G2.
  constructor; auto.
  - intros y Hy. destruct (P y Hy) as [[x [Hx [K _]]]|[x1 [x2 [Hx [_ [_ [K _]]]]]]]; eauto.
  - destruct (genes p1) as [|x1 l1] eqn:E1; [congruence|]. destruct (genes p2) as [|x2 l2] eqn:E2; [congruence|].
    destruct (NE x1 x2 eq_refl eq_refl (Hfirst x1 x2 eq_refl eq_refl)) as [y [Hy _]].
    intros E. rewrite E in Hy. destruct Hy.
Qed.

(* a child built from genes and nodes of two parents that satisfy the invariant satisfies it *)
Lemma child_gok C e R NR p1 p2 c :
  rok C e R NR -> gok C e R NR p1 -> gok C e R NR p2 -> child_facts p1 p2 c ->
  In (c_n0 C) (map g_innov (genes c)) -> gok C e R NR c.
Proof.
  intros RO G1 G2 F Hfirst.
  pose proof (gok_relatives _ _ _ _ _ _ RO G1 G2) as Rel.
  destruct (child_wf p1 p2 c Rel F) as (W & IO1 & IO2).
  assert (Horig : forall y, In y (genes c) -> exists x p, (p = p1 \/ p = p2) /\ In x (genes p) /\ kin x y).
  { intros y Hy. destruct (cf_origin _ _ _ F y Hy) as (x & [Hx|Hx] & K); [exists x, p1|exists x, p2]; auto. }
  assert (Hpar : forall p, p = p1 \/ p = p2 -> gok C e R NR p) by (intros p [->| ->]; assumption).
  assert (Hnsrc : forall n, In n (nodes c) -> exists m p, (p = p1 \/ p = p2) /\ In m (nodes p) /\
                                                         n_id m = n_id n /\ n_type m = n_type n).
  { intros n Hn. destruct (cf_nsrc _ _ _ F n Hn) as (m & [Hm|Hm] & Ei & Et & _); [exists m, p1|exists m, p2]; auto. }
  constructor.
  - exact W.
  - pose proof (gk_env _ _ _ _ _ G1) as E1. constructor.
    + intros y Hy. destruct (Horig y Hy) as (x & p & Hp & Hx & (K1 & _)). rewrite K1.
      apply (eo_innov _ _ (gk_env _ _ _ _ _ (Hpar p Hp))). exact Hx.
    + intros n Hn. destruct (Hnsrc n Hn) as (m & p & Hp & Hm & Ei & _). rewrite <- Ei.
      apply (eo_node _ _ (gk_env _ _ _ _ _ (Hpar p Hp))). exact Hm.
    + intros i y Hi Ht Hy Hnum. destruct (Horig y Hy) as (x & p & Hp & Hx & (K1 & K2 & K3 & K4)).
      unfold link_key. rewrite K2, K3, K4.
      apply (eo_link _ _ (gk_env _ _ _ _ _ (Hpar p Hp)) i x); auto. congruence.
    + intros i y Hi Ht Hy. destruct (Horig y Hy) as (x & p & Hp & Hx & (K1 & K2 & K3 & K4)).
      rewrite K1, K2, K3. apply (eo_split _ _ (gk_env _ _ _ _ _ (Hpar p Hp)) i x); auto.
    + apply (eo_rec _ _ E1).
    + apply (eo_uniq _ _ E1).
  - intros y Hy. destruct (Horig y Hy) as (x & p & Hp & Hx & (K1 & K2 & K3 & K4)).
    unfold link_key. rewrite K1, K2, K3, K4. apply (gk_reg _ _ _ _ _ (Hpar p Hp)). exact Hx.
  - intros n Hn. destruct (Hnsrc n Hn) as (m & p & Hp & Hm & Ei & Et). rewrite <- Ei, <- Et.
    apply (gk_nreg _ _ _ _ _ (Hpar p Hp)). exact Hm.
  - eapply incl_tran; [apply (gk_io _ _ _ _ _ G1)|exact IO1].
  - unfold tshape. rewrite (cf_traits _ _ _ F), mean_traits_tshape; [apply (gk_tshape _ _ _ _ _ G1)|apply (rel_tpar _ _ Rel)].
  - exact Hfirst.
Qed.

Lemma first_gene C e R NR g : rok C e R NR -> gok C e R NR g ->
  exists x, In x (genes g) /\ g_innov x = c_n0 C.
Proof.
  intros RO G. pose proof (gk_first _ _ _ _ _ G) as H. apply in_map_iff in H. destruct H as (x & E & Hx). eauto.
Qed.

Theorem mate_multipoint_gen_gok C e R NR avg p1 p2 id f1 f2 s c s' :
  rok C e R NR -> gok C e R NR p1 -> gok C e R NR p2 ->
  mate_multipoint_gen avg p1 p2 id f1 f2 s = Ok (c, s') -> s_env s' = s_env s /\ gok C e R NR c.
Proof.
  intros RO G1 G2 H. split; [exact (ep_mate_multipoint_gen _ _ _ _ _ _ _ _ _ H)|].
  pose proof (gok_relatives _ _ _ _ _ _ RO G1 G2) as Rel.
  pose proof (mp_post_holds avg p1 p2 id f1 f2 s s' c (relatives_mate_hyps _ _ Rel) H) as P.
  apply (child_gok C e R NR p1 p2 c RO G1 G2 (mp_child_facts avg p1 p2 f1 f2 c Rel P)).
  destruct P as [_ [_ [_ [_ [Hmat _]]]]].
  destruct (first_gene _ _ _ _ _ RO G1) as (x1 & Hx1 & E1). destruct (first_gene _ _ _ _ _ RO G2) as (x2 & Hx2 & E2).
  destruct (Hmat x1 x2 Hx1 Hx2 (eq_trans E1 (eq_sym E2))) as (y & Hy & (K1 & _) & _).
  apply in_map_iff. exists y. split; [congruence|exact Hy].
Qed.

Theorem mate_singlepoint_gok C e R NR p1 p2 id s c s' :
  rok C e R NR -> gok C e R NR p1 -> gok C e R NR p2 ->
  mate_singlepoint p1 p2 id s = Ok (c, s') -> s_env s' = s_env s /\ gok C e R NR c.
Proof.
  intros RO G1 G2 H. split; [exact (ep_mate_singlepoint _ _ _ _ _ _ H)|].
  pose proof (gok_relatives _ _ _ _ _ _ RO G1 G2) as Rel.
  pose proof (wf_nonempty _ (rel_wf1 _ _ Rel)) as N1. pose proof (wf_nonempty _ (rel_wf2 _ _ Rel)) as N2.
  pose proof (sp_post_holds p1 p2 id s s' c (relatives_mate_hyps _ _ Rel) N1 N2 H) as P.
  assert (Hfirst : forall x1 x2, hd_error (genes p1) = Some x1 -> hd_error (genes p2) = Some x2 -> g_innov x1 = g_innov x2).
  { intros x1 x2 H1 H2. rewrite (gok_hd _ _ _ _ _ _ RO G1 H1), (gok_hd _ _ _ _ _ _ RO G2 H2). reflexivity. }
  apply (child_gok C e R NR p1 p2 c RO G1 G2 (sp_child_facts p1 p2 c Rel Hfirst P)).
  destruct P as [_ [_ [_ [_ [_ [_ [_ [_ [NE _]]]]]]]]].
  destruct (genes p1) as [|x1 l1] eqn:E1; [congruence|]. destruct (genes p2) as [|x2 l2] eqn:E2; [congruence|].
  destruct (NE x1 x2 eq_refl eq_refl (Hfirst x1 x2 eq_refl eq_refl)) as (y & Hy & (K1 & _) & _).
  apply in_map_iff. exists y. split; [|exact Hy]. rewrite K1. apply (gok_hd _ _ _ _ _ _ RO G1). now rewrite E1.
Qed.

(* ------------------------------------------------------------------------------------------ *)
(* 9. identical structural innovations of one generation receive identical numbers             *)
(* ------------------------------------------------------------------------------------------ *)
(* the gene is the link some record of the current generation describes, under that record's number *)
Definition link_recorded (e : ienv) (x : gene) : Prop :=
  exists i, In i (innovs e) /\ i_type i = 2 /\ link_key x = (i_in i, i_out i, i_rec i) /\ g_innov x = i_num i.

(* gene [old] was split around node id [nid] into genes numbered [n1] and [n2] as some record says *)
Definition split_recorded (e : ienv) (old : gene) (nid n1 n2 : Z) : Prop :=
  exists i, In i (innovs e) /\ i_type i = 1 /\ i_in i = g_in old /\ i_out i = g_out old /\ i_old i = g_innov old /\
            i_num i = n1 /\ i_num2 i = n2 /\ i_node i = nid.

Lemma link_recorded_incl e e' x : incl (innovs e) (innovs e') -> link_recorded e x -> link_recorded e' x.
Proof. intros I (i & Hi & H). exists i. split; [now apply I|exact H]. Qed.

Lemma split_recorded_incl e e' old nid n1 n2 :
  incl (innovs e) (innovs e') -> split_recorded e old nid n1 n2 -> split_recorded e' old nid n1 n2.
Proof. intros I (i & Hi & H). exists i. split; [now apply I|exact H]. Qed.

Lemma env_extends_incl e e' : env_extends e e' -> incl (innovs e) (innovs e').
Proof. intros [_ _ (added & -> & _)]. apply incl_appl, incl_refl. Qed.

Theorem same_link_same_number C e R NR x y :
  rok C e R NR -> link_recorded e x -> link_recorded e y -> link_key x = link_key y -> g_innov x = g_innov y.
Proof.
  intros RO (i & Hi & Ti & Ki & Ni) (j & Hj & Tj & Kj & Nj) E.
  assert (i = j) by (apply (ro_lkey _ _ _ _ RO); auto; congruence). subst j. congruence.
Qed.

Theorem same_split_same_numbers C e R NR old old' nid nid' n1 n1' n2 n2' :
  rok C e R NR -> split_recorded e old nid n1 n2 -> split_recorded e old' nid' n1' n2' ->
  g_in old = g_in old' -> g_out old = g_out old' -> g_innov old = g_innov old' ->
  nid = nid' /\ n1 = n1' /\ n2 = n2'.
Proof.
  intros RO (i & Hi & Ti & A1 & A2 & A3 & A4 & A5 & A6) (j & Hj & Tj & B1 & B2 & B3 & B4 & B5 & B6) E1 E2 E3.
  assert (i = j) by (apply (ro_nkey _ _ _ _ RO); auto; congruence). subst j. repeat split; congruence.
Qed.

Lemma link_from_env_recorded g x s s' :
  link_from_env g x s s' -> incl (innovs (s_env s)) (innovs (s_env s')) /\ link_recorded (s_env s') x.
Proof.
  intros [(inn & tr & Hf & _ & Hx & _ & Es)|(Hf & tn & w & tr & _ & Hx & Hin & Hni & Hnn)].
  - apply fli_some in Hf. destruct Hf as (Hinn & Hty & Hi & Ho & Hr). rewrite Es. split; [apply incl_refl|].
    exists inn. split; [exact Hinn|]. split; [exact Hty|]. split; [unfold link_key; congruence|].
    rewrite Hx. reflexivity.
  - unfold link_recorded. rewrite Hin. split; [apply incl_appl, incl_refl|]. eexists. split; [apply in_or_app; right; left; reflexivity|].
    cbn. split; [reflexivity|]. split; [reflexivity|]. rewrite Hx. reflexivity.
Qed.

(* the gene mutateAddLink added (the one not in the genome before) is the recorded link *)
Theorem add_link_recorded o g s g' b s' x :
  mutate_add_link o g s = Ok ((g', b), s') -> In x (genes g') -> ~ In x (genes g) ->
  incl (innovs (s_env s)) (innovs (s_env s')) /\ link_recorded (s_env s') x.
Proof.
  intros H Hx Hnew. apply add_link_inv in H.
  destruct H as [(_ & -> & Es)|(_ & x0 & n1 & n2 & s1 & _ & _ & _ & _ & _ & Hs1 & Hfrom & ->)]; [contradiction|].
  cbn [genes with_genes] in Hx. apply (insert_sorted_In g_innov) in Hx. destruct Hx as [->|Hx]; [|contradiction].
  rewrite <- Hs1. exact (link_from_env_recorded g x0 s1 s' Hfrom).
Qed.

Lemma connect_fold_recorded sid g0 : forall outs g added stop s g' added' stop' s',
    (forall x, In x (genes g) -> In x (genes g0) \/ link_recorded (s_env s) x) ->
    foldM (connect_one sid) outs (g, added, stop) s = Ok ((g', added', stop'), s') ->
    incl (innovs (s_env s)) (innovs (s_env s')) /\
    (forall x, In x (genes g') -> In x (genes g0) \/ link_recorded (s_env s') x).
Proof.
  induction outs as [|out outs IH]; intros g added stop s g' added' stop' s' Hinv H; cbn [foldM] in H.
  - minv. pairs. subst. split; [apply incl_refl|exact Hinv].
  - minv. destruct a as [[g1 added1] stop1].
    assert (Hstep : incl (innovs (s_env s)) (innovs (s_env s0)) /\
                    (forall x, In x (genes g1) -> In x (genes g0) \/ link_recorded (s_env s0) x)).
    { apply connect_one_inv in E.
      destruct E as [(_ & -> & _ & _ & ->)|(_ & _ & [(-> & _ & _ & Es)|(x & _ & _ & _ & _ & Hfrom & -> & _ & _)])].
      - split; [apply incl_refl|exact Hinv].
      - rewrite Es. split; [apply incl_refl|exact Hinv].
      - destruct (link_from_env_recorded g x s s0 Hfrom) as [I Hr]. split; [exact I|].
        intros z Hz. cbn [genes with_genes] in Hz. apply (insert_sorted_In g_innov) in Hz.
        destruct Hz as [->|Hz]; [now right|]. destruct (Hinv z Hz) as [Hz'|Hz']; [now left|right].
        eapply link_recorded_incl; eauto. }
    destruct Hstep as [I1 Hinv1]. destruct (IH _ _ _ _ _ _ _ _ Hinv1 H) as [I2 Hinv2].
    split; [eapply incl_tran; eauto|exact Hinv2].
Qed.

Theorem connect_sensors_recorded g s g' b s' x :
  mutate_connect_sensors g s = Ok ((g', b), s') -> In x (genes g') -> ~ In x (genes g) ->
  incl (innovs (s_env s)) (innovs (s_env s')) /\ link_recorded (s_env s') x.
Proof.
  unfold mutate_connect_sensors. intros H Hx Hnew. destruct (genes g) as [|x0 gs0] eqn:Eg; [minv|].
  rewrite <- Eg in H, Hnew. clear x0 gs0 Eg.
  destruct (filter _ (filter is_sensor (nodes g))) as [|d0 ds] eqn:Edis.
  { minv. pairs. subst. contradiction. }
  rewrite <- Edis in H. minv. subst.
  destruct a1 as [[g1 added] stop]. minv. pairs. subst.
  match goal with H : foldM _ _ _ _ = Ok _ |- _ => rename H into Hfold end.
  match goal with H : r_intn _ _ = Ok _ |- _ => apply ep_intn in H; rename H into Es0 end.
  rewrite <- Es0.
  destruct (connect_fold_recorded _ g _ _ _ _ _ _ _ _ _ (fun x Hx => or_introl Hx) Hfold) as [I Hinv].
  split; [exact I|]. destruct (Hinv x Hx); [contradiction|assumption].
Qed.

(* a successful mutateAddNode split some gene as a record of the generation says *)
Theorem add_node_recorded o g s g' s' :
  mutate_add_node o g s = Ok ((g', true), s') ->
  incl (innovs (s_env s)) (innovs (s_env s')) /\
  exists k old nd n1 n2, nth_error (genes g) k = Some old /\ g' = split_genome g k old nd n1 n2 /\
                         n_type nd = HIDDEN /\ split_recorded (s_env s') old (n_id nd) n1 n2.
Proof.
  intros H. apply add_node_inv in H.
  destruct H as [(_ & Hb & _)|(k & x & Hk & _ & [(inn & t0 & Hf & _ & Es & [(_ & Hb & _)|(_ & _ & ->)])|
                                                  (Hf & t0 & act & _ & _ & _ & -> & Hin & Hni & Hnn)])];
    try discriminate.
  - apply fni_some in Hf. destruct Hf as (Hinn & Hty & Hi & Ho & Hold). rewrite Es. split; [apply incl_refl|].
    do 5 eexists. split; [exact Hk|]. split; [reflexivity|]. split; [reflexivity|].
    exists inn. cbn [n_id]. repeat split; auto.
  - unfold split_recorded. rewrite Hin. split; [apply incl_appl, incl_refl|].
    do 5 eexists. split; [exact Hk|]. split; [reflexivity|]. split; [reflexivity|].
    eexists. split; [apply in_or_app; right; left; reflexivity|]. cbn. repeat split.
Qed.

(* the mutators that add connection genes *)
Inductive link_op : (genome -> @M st (genome * bool)) -> Prop :=
| lo_add_link o : link_op (mutate_add_link o)
| lo_connect : link_op mutate_connect_sensors.

Lemma link_op_recorded op g s g' b s' x :
  link_op op -> op g s = Ok ((g', b), s') -> In x (genes g') -> ~ In x (genes g) ->
  incl (innovs (s_env s)) (innovs (s_env s')) /\ link_recorded (s_env s') x.
Proof. intros [o|]; [apply add_link_recorded|apply connect_sensors_recorded]. Qed.

Lemma link_op_reg C R NR op g s g' b s' :
  link_op op -> rok C (s_env s) R NR -> g_agrees R g -> n_agrees NR g ->
  op g s = Ok ((g', b), s') -> reg_step C (s_env s) (s_env s') R NR g g'.
Proof. intros [o|]; [apply add_link_reg|apply connect_sensors_reg]. Qed.

(* Two link-adding mutations of the same generation (the record of the first is still there when
   the second runs, and the invariant holds before the second): genes they added for the same
   ordered node pair and recurrence flag carry the same innovation number. *)
Theorem same_generation_same_link_number C R NR op1 g1 s1 g1' b1 s1' op2 g2 s2 g2' b2 s2' x1 x2 :
  link_op op1 -> link_op op2 ->
  op1 g1 s1 = Ok ((g1', b1), s1') -> op2 g2 s2 = Ok ((g2', b2), s2') ->
  incl (innovs (s_env s1')) (innovs (s_env s2)) ->
  rok C (s_env s2) R NR -> g_agrees R g2 -> n_agrees NR g2 ->
  In x1 (genes g1') -> ~ In x1 (genes g1) -> In x2 (genes g2') -> ~ In x2 (genes g2) ->
  link_key x1 = link_key x2 -> g_innov x1 = g_innov x2.
Proof.
  intros L1 L2 H1 H2 I RO A N X1 N1 X2 N2 K.
  destruct (link_op_recorded _ _ _ _ _ _ _ L1 H1 X1 N1) as [_ Rec1].
  destruct (link_op_recorded _ _ _ _ _ _ _ L2 H2 X2 N2) as [I2 Rec2].
  destruct (link_op_reg C R NR _ _ _ _ _ _ L2 RO A N H2) as (R' & NR' & _ & RO' & _).
  apply (same_link_same_number C (s_env s2') R' NR' x1 x2 RO'); [|exact Rec2|exact K].
  eapply link_recorded_incl; [|exact Rec1]. eapply incl_tran; eauto.
Qed.

(* Two successful node additions of the same generation that split the same gene (same endpoints,
   same innovation number) create the same node id and the same two innovation numbers. *)
Theorem same_generation_same_split C R NR o1 g1 s1 g1' s1' o2 g2 s2 g2' s2' :
  mutate_add_node o1 g1 s1 = Ok ((g1', true), s1') -> mutate_add_node o2 g2 s2 = Ok ((g2', true), s2') ->
  incl (innovs (s_env s1')) (innovs (s_env s2)) ->
  rok C (s_env s2) R NR -> g_agrees R g2 -> n_agrees NR g2 ->
  exists k1 old1 nd1 a1 c1 k2 old2 nd2 a2 c2,
    nth_error (genes g1) k1 = Some old1 /\ g1' = split_genome g1 k1 old1 nd1 a1 c1 /\
    nth_error (genes g2) k2 = Some old2 /\ g2' = split_genome g2 k2 old2 nd2 a2 c2 /\
    (g_in old1 = g_in old2 -> g_out old1 = g_out old2 -> g_innov old1 = g_innov old2 ->
     n_id nd1 = n_id nd2 /\ a1 = a2 /\ c1 = c2).
Proof.
  intros H1 H2 I RO A N.
  destruct (add_node_recorded _ _ _ _ _ H1) as [_ (k1 & old1 & nd1 & a1 & c1 & Hk1 & E1 & _ & Rec1)].
  destruct (add_node_recorded _ _ _ _ _ H2) as [I2 (k2 & old2 & nd2 & a2 & c2 & Hk2 & E2 & _ & Rec2)].
  destruct (add_node_reg C R NR _ _ _ _ _ _ RO A N H2) as (R' & NR' & _ & RO' & _).
  exists k1, old1, nd1, a1, c1, k2, old2, nd2, a2, c2. repeat (split; [assumption|]).
  intros Ei Eo En. eapply (same_split_same_numbers C (s_env s2') R' NR'); eauto.
  eapply split_recorded_incl; [|exact Rec1]. eapply incl_tran; eauto.
Qed.
