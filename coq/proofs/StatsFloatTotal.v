(* C19, totality on binary64: counting 1, 2, ..., n in floats reaches p * float64(n) for every
   0 <= p <= 1 as long as n < 2^53 (all integers below 2^53 are binary64 numbers and rounding is
   monotone), so panic("impossible") of gonum's empiricalQuantile is unreachable for every series
   shorter than 2^53 elements.  Uses Flocq's bridge between primitive floats and IEEE-754. *)
From Coq Require Import List ZArith Bool Reals Lra Lia Floats.
From Flocq Require Import Core BinarySingleNaN.
From Flocq Require Import IEEE754.PrimFloat.
From NeatModel Require Import Res Stats StatsSpec StatsTotal.
Import ListNotations.
Open Scope R_scope.

Local Notation emin := (3 - emax - prec)%Z.
Local Notation fexp := (SpecFloat.fexp prec emax).
Local Notation rnd := (round radix2 fexp (round_mode mode_NE)).

(* x is a finite binary64 number of real value r *)
Definition repr (x : PrimFloat.float) (r : R) : Prop :=
  is_finite (Prim2B x) = true /\ B2R (Prim2B x) = r.

Lemma int_format m : (Z.abs m < 2 ^ 53)%Z -> generic_format radix2 fexp (IZR m).
Proof.
  intros H. change fexp with (FLT_exp emin prec). apply generic_format_FLT. apply (FLT_spec radix2 emin prec (IZR m) (Float radix2 m 0)).
  - unfold F2R. simpl. lra.
  - simpl. exact H.
  - simpl. unfold emax, prec. lia.
Qed.

Lemma int_small m : (Z.abs m < 2 ^ 53)%Z -> Rabs (IZR m) < bpow radix2 emax.
Proof.
  intros H. rewrite <- abs_IZR. apply Rlt_trans with (IZR (2 ^ 53)); [now apply IZR_lt|].
  change (2 ^ 53)%Z with (Zpower radix2 53). rewrite IZR_Zpower by lia. apply bpow_lt. unfold emax. lia.
Qed.

Lemma rnd_int m : (Z.abs m < 2 ^ 53)%Z -> rnd (IZR m) = IZR m.
Proof. intros H. apply round_generic; [apply valid_rnd_round_mode | now apply int_format]. Qed.

Lemma repr_zero : repr (n_zero fnum) 0.
Proof. simpl. rewrite zero_equiv. unfold repr. rewrite Prim2B_B2Prim. split; reflexivity. Qed.

Lemma repr_one : repr (n_one fnum) 1.
Proof.
  simpl. rewrite one_equiv. unfold repr. rewrite Prim2B_B2Prim. split; [apply is_finite_Bone | apply Bone_correct].
Qed.

Lemma repr_succ x k : repr x (IZR k) -> (0 <= k)%Z -> (k + 1 < 2 ^ 53)%Z ->
  repr (n_add fnum x (n_one fnum)) (IZR (k + 1)).
Proof.
  intros [Fx Rx] Hk Hk1. destruct repr_one as [F1 R1]. simpl in F1, R1 |- *.
  unfold repr. rewrite add_equiv.
  pose proof (Bplus_correct prec emax Hprec Hmax mode_NE (Prim2B x) (Prim2B one) Fx F1) as H.
  rewrite Rx, R1, <- plus_IZR in H.
  rewrite (rnd_int (k + 1)) in H by lia.
  rewrite Rlt_bool_true in H by (apply int_small; lia).
  destruct H as (H1 & H2 & _). split; assumption.
Qed.

Lemma count_up_repr k : (Z.of_nat k < 2 ^ 53)%Z -> repr (count_up fnum k) (IZR (Z.of_nat k)).
Proof.
  induction k as [|k IH]; intros Hk.
  - apply repr_zero.
  - simpl count_up. replace (Z.of_nat (S k)) with (Z.of_nat k + 1)%Z by lia.
    apply repr_succ; [apply IH; lia | lia | lia].
Qed.

Lemma ofZ_repr n : (Z.abs n < 2 ^ 53)%Z -> repr (n_ofZ fnum n) (IZR n).
Proof.
  intros Hn. simpl. unfold f64_ofZ.
  change (SpecFloat.binary_normalize 53 1024 n 0 false) with (SpecFloat.binary_normalize prec emax n 0 false).
  rewrite binary_normalize_equiv. fold (B2Prim (binary_normalize prec emax Hprec Hmax mode_NE n 0 false)).
  unfold repr. rewrite Prim2B_B2Prim.
  pose proof (binary_normalize_correct prec emax Hprec Hmax mode_NE n 0 false) as H. cbv zeta in H.
  replace (F2R (Float radix2 n 0)) with (IZR n) in H by (unfold F2R; simpl; lra).
  rewrite (rnd_int n Hn) in H. rewrite Rlt_bool_true in H by now apply int_small.
  destruct H as (H1 & H2 & _). split; assumption.
Qed.

Lemma leb_repr a b ra rb : repr a ra -> repr b rb -> ra <= rb -> n_leb fnum a b = true.
Proof.
  intros [Fa Ra] [Fb Rb] H. simpl. rewrite leb_equiv, Bleb_correct by assumption.
  rewrite Ra, Rb. now apply Rle_bool_true.
Qed.

Lemma pinf_not_leb (c : binary_float prec emax) : is_finite c = true -> Bleb (B754_infinity false) c = false.
Proof. destruct c as [s|s| |s m e Hb]; simpl; intros H; try discriminate; reflexivity. Qed.

(* 0 <= p <= 1 as floats: p is a finite number between 0 and 1 *)
Lemma p_ok_repr p : n_leb fnum (n_zero fnum) p && n_leb fnum p (n_one fnum) = true ->
  exists rp, repr p rp /\ 0 <= rp <= 1.
Proof.
  intros H. apply andb_true_iff in H. destruct H as [H0 H1]. simpl in H0, H1.
  rewrite leb_equiv in H0, H1. rewrite zero_equiv, Prim2B_B2Prim in H0. rewrite one_equiv, Prim2B_B2Prim in H1.
  assert (Fp : is_finite (Prim2B p) = true).
  { destruct (Prim2B p) as [s|s| |s m e Hb]; try reflexivity.
    - destruct s; [discriminate H0|]. rewrite pinf_not_leb in H1 by apply is_finite_Bone. discriminate.
    - discriminate H0. }
  exists (B2R (Prim2B p)). split; [split; [exact Fp | reflexivity]|].
  rewrite Bleb_correct in H0 by (try reflexivity; exact Fp).
  rewrite Bleb_correct in H1 by (try apply is_finite_Bone; exact Fp).
  rewrite Bone_correct in H1. simpl in H0.
  split.
  - revert H0. case Rle_bool_spec; [auto | discriminate].
  - revert H1. case Rle_bool_spec; [auto | discriminate].
Qed.

Lemma f_p_cum p : n_leb fnum (n_zero fnum) p && n_leb fnum p (n_one fnum) = true ->
  forall n, (1 <= n)%nat -> (Z.of_nat n < 2 ^ 53)%Z ->
  n_leb fnum (n_mul fnum p (n_ofZ fnum (Z.of_nat n))) (count_up fnum n) = true.
Proof.
  intros Hp n Hn1 Hn. destruct (p_ok_repr p Hp) as (rp & [Fp Rp] & Hrp).
  destruct (ofZ_repr (Z.of_nat n) ltac:(lia)) as [Fn Rn].
  pose proof (count_up_repr n Hn) as Hc.
  assert (Hn0 : 0 <= IZR (Z.of_nat n)) by (apply IZR_le; lia).
  assert (VE : Valid_exp fexp).
  { change fexp with (FLT_exp emin prec). apply FLT_exp_valid. exact Hprec. }
  pose proof (valid_rnd_round_mode mode_NE) as VR.
  assert (Hle : rnd (rp * IZR (Z.of_nat n)) <= IZR (Z.of_nat n)).
  { apply (@round_le_generic radix2 fexp VE (round_mode mode_NE) VR); [apply int_format; lia | nra]. }
  assert (Hge : 0 <= rnd (rp * IZR (Z.of_nat n))).
  { rewrite <- (round_0 radix2 fexp (round_mode mode_NE)).
    apply (@round_le radix2 fexp VE (round_mode mode_NE) VR). nra. }
  assert (Hm : repr (n_mul fnum p (n_ofZ fnum (Z.of_nat n))) (rnd (rp * IZR (Z.of_nat n)))).
  { simpl. unfold repr. rewrite mul_equiv.
    pose proof (Bmult_correct prec emax Hprec Hmax mode_NE (Prim2B p) (Prim2B (f64_ofZ (Z.of_nat n)))) as H.
    simpl in Rn, Fn. rewrite Rp, Rn in H. rewrite Rlt_bool_true in H.
    - destruct H as (H1 & H2 & _). rewrite Fp, Fn in H2. split; assumption.
    - rewrite Rabs_pos_eq by exact Hge. apply Rle_lt_trans with (IZR (Z.of_nat n)); [exact Hle|].
      rewrite <- (Rabs_pos_eq _ Hn0). apply int_small. lia. }
  exact (leb_repr _ _ _ _ Hm Hc Hle).
Qed.

(* binary64: Median, Q25 and Q75 never panic on a series shorter than 2^53 elements *)
Theorem f_quantiles_total (l : list PrimFloat.float) : (Z.of_nat (length l) < 2 ^ 53)%Z ->
  (exists v, F_median fnum l = Ok v) /\ (exists v, F_q25 fnum l = Ok v) /\ (exists v, F_q75 fnum l = Ok v).
Proof.
  intros Hl. unfold F_median, F_q25, F_q75. repeat split.
  - exact (quantile_total fnum f_ltb_asym f_ltb_nan_l f_ltb_nan_r _ f_p_ok_half
             (fun n => (Z.of_nat n < 2 ^ 53)%Z) (f_p_cum _ f_p_ok_half) l Hl).
  - exact (quantile_total fnum f_ltb_asym f_ltb_nan_l f_ltb_nan_r _ f_p_ok_quarter
             (fun n => (Z.of_nat n < 2 ^ 53)%Z) (f_p_cum _ f_p_ok_quarter) l Hl).
  - exact (quantile_total fnum f_ltb_asym f_ltb_nan_l f_ltb_nan_r _ f_p_ok_three_quarters
             (fun n => (Z.of_nat n < 2 ^ 53)%Z) (f_p_cum _ f_p_ok_three_quarters) l Hl).
Qed.
