(* C19, aggregates, part 2: BestOrganism of a trial and of an experiment, and BestFitness /
   BestSpeciesAge / BestComplexity, for every valid outcome of the (unspecified) sort. *)
From Coq Require Import List ZArith Bool Reals Lra Lia.
From NeatModel Require Import Res Stats Exper StatsSpec ExperSpec.
Import ListNotations.
Open Scope Z_scope.

Lemma bind_ok {A B} (r : res A) (f : A -> res B) y :
  bind r f = Ok y -> exists a, r = Ok a /\ f a = Ok y.
Proof. destruct r; simpl; intros H; try discriminate. eauto. Qed.

Section Generic.
Context {F : Type} (N : num F).
Local Notation generation := (@generation F).
Local Notation trial := (@trial F).
Local Notation organism := (@organism F).

(* the champions BestOrganism looks at: of every generation, or of the solved ones only *)
Definition candidates (only : bool) (t : trial) : list (option organism) :=
  map g_champ (filter (fun g => negb only || g_solved g) (t_gens t)).

Lemma collect_champs_spec only (gs : list generation) :
  collect_champs only gs = map g_champ (filter (fun g => negb only || g_solved g) gs).
Proof.
  induction gs as [|g gs IH]; simpl; [reflexivity|]. rewrite IH.
  destruct only; simpl; [destruct (g_solved g)|]; reflexivity.
Qed.

Lemma all_some_map {A} (l : list (option A)) os : all_some l = Some os -> l = map Some os.
Proof.
  revert os. induction l as [|[a|] l IH]; intros os H; simpl in H.
  - injection H as <-. reflexivity.
  - destruct (all_some l) as [r|]; [|discriminate]. injection H as <-. simpl. f_equal. now apply IH.
  - discriminate.
Qed.

Lemma all_some_none {A} (l : list (option A)) : all_some l = None <-> In None l.
Proof.
  induction l as [|[a|] l IH]; simpl.
  - split; [discriminate | tauto].
  - destruct (all_some l); split; intros H; try discriminate.
    + destruct H as [H|H]; [discriminate|]. apply IH in H. discriminate.
    + right. now apply IH.
    + reflexivity.
  - split; auto.
Qed.

(* what a successful sort_first guarantees *)
Lemma sort_first_ok orgs k o :
  sort_first N orgs k = Ok (Some o) ->
  In (Some o) orgs /\ (orgs = [Some o] \/ forall o', In (Some o') orgs -> org_less N o o' = false).
Proof.
  unfold sort_first. destruct orgs as [|a [|b rest]].
  - simpl. destruct (Z.to_nat k); discriminate.
  - intros H. injection H as ->. split; [now left | now left].
  - destruct (all_some (a :: b :: rest)) as [os|] eqn:Ea; [|discriminate].
    destruct (nth_error os (Z.to_nat k)) as [o1|] eqn:En; [|discriminate].
    destruct ((0 <=? k) && forallb (fun o' => negb (org_less N o1 o')) os) eqn:Ec; [|discriminate].
    intros H. injection H as <-. apply all_some_map in Ea. rewrite Ea.
    apply andb_true_iff in Ec. destruct Ec as [_ Ec]. rewrite forallb_forall in Ec.
    split.
    + apply in_map. eapply nth_error_In; eauto.
    + right. intros o' Ho'. apply in_map_iff in Ho'. destruct Ho' as (x & Hx & Hin). injection Hx as ->.
      specialize (Ec o' Hin). now apply negb_true_iff in Ec.
Qed.

(* a nil champion among two or more candidates: Organisms.Less dereferences it *)
Lemma sort_first_nil orgs k : (2 <= length orgs)%nat -> In None orgs -> sort_first N orgs k = GoPanic panic_nil.
Proof.
  intros Hl Hn. unfold sort_first. destruct orgs as [|a [|b rest]]; simpl in Hl; try lia.
  apply all_some_none in Hn. rewrite Hn. reflexivity.
Qed.

Theorem t_best_organism_nil_panics only (t : trial) k :
  (2 <= length (candidates only t))%nat -> In None (candidates only t) ->
  t_best_organism N only t k = GoPanic panic_nil.
Proof.
  intros Hl Hn. unfold t_best_organism, candidates in *. rewrite collect_champs_spec.
  destruct (map g_champ _) as [|a l] eqn:E; [simpl in Hl; lia|].
  rewrite (sort_first_nil _ k Hl Hn). reflexivity.
Qed.

(* Experiment.BestFitness on a trial whose only generation recorded no champion *)
Theorem e_best_fitness_nil_panics (t : trial) (e : list trial) ks g :
  t_gens t = [g] -> g_champ g = None -> e_best_fitness N (t :: e) ks = GoPanic panic_nil.
Proof.
  intros Hg Hc. unfold e_best_fitness. simpl best_loop. unfold t_best_organism. rewrite Hg. simpl.
  rewrite Hc. reflexivity.
Qed.

Theorem t_best_organism_spec only (t : trial) k r :
  t_best_organism N only t k = Ok r ->
  match r with
  | None => candidates only t = []
  | Some None => candidates only t = [None]
  | Some (Some o) =>
    In (Some o) (candidates only t) /\
    (candidates only t = [Some o] \/ forall o', In (Some o') (candidates only t) -> org_less N o o' = false)
  end.
Proof.
  unfold t_best_organism, candidates. rewrite collect_champs_spec.
  destruct (map g_champ _) as [|a l] eqn:E.
  - intros H. injection H as <-. reflexivity.
  - intros H. apply bind_ok in H. destruct H as (o & Hs & Ho). injection Ho as <-.
    destruct o as [o|].
    + now apply sort_first_ok in Hs.
    + unfold sort_first in Hs. destruct l as [|b rest].
      * injection Hs as ->. reflexivity.
      * destruct (all_some (a :: b :: rest)) as [os|]; [|discriminate].
        destruct (nth_error os (Z.to_nat k)); [|discriminate].
        destruct ((0 <=? k) && _); discriminate.
Qed.

(* the per-trial loop shared by BestFitness, BestSpeciesAge and BestComplexity *)
Lemma best_loop_spec (f : option organism -> res F) : forall (e : list trial) ks l,
  best_loop N f e ks = Ok l ->
  Forall2 (fun t x => exists k b, t_best_organism N false t k = Ok b /\
                                  match b with Some o => f o = Ok x | None => x = n_zero N end) e l.
Proof.
  induction e as [|t e IH]; intros ks l H; simpl in H.
  - injection H as <-. constructor.
  - apply bind_ok in H. destruct H as (b & Hb & H).
    apply bind_ok in H. destruct H as (x & Hx & H).
    apply bind_ok in H. destruct H as (r & Hr & H). injection H as <-.
    constructor; [|eapply IH; eauto].
    eexists; exists b. split; [exact Hb|]. destruct b; [exact Hx | now injection Hx as <-].
Qed.

(* the per-trial bests collected by Experiment.BestOrganism *)
Definition trial_best (only : bool) (t : trial) (o : organism) : Prop :=
  In (Some o) (candidates only t) /\
  (candidates only t = [Some o] \/ forall o', In (Some o') (candidates only t) -> org_less N o o' = false).

Lemma collect_best_spec only : forall (e : list trial) i0 ks orgs,
  collect_best N only e i0 ks = Ok orgs ->
  (forall o i, In (o, i) orgs ->
     exists t, i0 <= i /\ nth_error e (Z.to_nat (i - i0)) = Some t /\ trial_best only t o) /\
  (forall t, In t e -> candidates only t <> [] -> exists o i, In (o, i) orgs /\ trial_best only t o).
Proof.
  induction e as [|t e IH]; intros i0 ks orgs H; simpl in H.
  - injection H as <-. split; [intros o i [] | intros t []].
  - apply bind_ok in H. destruct H as (b & Hb & H).
    pose proof (t_best_organism_spec only t _ b Hb) as Hspec.
    destruct b as [[o|]|].
    + apply bind_ok in H. destruct H as (r & Hr & H). injection H as <-.
      destruct (IH _ _ _ Hr) as (IH1 & IH2). split.
      * intros o1 i [Heq | Hin].
        -- injection Heq as <- <-. exists t. rewrite Z.sub_diag. simpl. repeat split; try lia; apply Hspec.
        -- destruct (IH1 _ _ Hin) as (t1 & Hi & Hn & Hb1). exists t1. split; [lia|]. split; [|exact Hb1].
           replace (Z.to_nat (i - i0)) with (S (Z.to_nat (i - (i0 + 1)))) by lia. exact Hn.
      * intros t1 [<- | Hin] Hne.
        -- exists o, i0. split; [now left | exact Hspec].
        -- destruct (IH2 _ Hin Hne) as (o1 & i1 & Hin1 & Hb1). exists o1, i1. split; [now right | exact Hb1].
    + discriminate.
    + destruct (IH _ _ _ H) as (IH1 & IH2). split.
      * intros o1 i Hin. destruct (IH1 _ _ Hin) as (t1 & Hi & Hn & Hb1). exists t1. split; [lia|].
        split; [|exact Hb1]. replace (Z.to_nat (i - i0)) with (S (Z.to_nat (i - (i0 + 1)))) by lia. exact Hn.
      * intros t1 [<- | Hin] Hne; [contradiction|]. apply IH2; assumption.
Qed.

End Generic.

(* =================== over the reals =================== *)
Open Scope R_scope.

(* an organism whose fitness values are real numbers *)
Definition real_org (o : xorganism) : Prop := exists f h, o_fitness o = Some f /\ o_hfit o = Some h.
Definition fitR (o : xorganism) : R := match o_fitness o with Some f => f | None => 0 end.
Definition real_trial (t : xtrial) : Prop :=
  Forall (fun g => match g_champ g with Some o => real_org o | None => True end) (t_gens t).

Lemma org_less_irrefl (o : xorganism) : org_less xnum o o = false.
Proof.
  unfold org_less. simpl. destruct (o_fitness o) as [f|]; simpl; [|reflexivity].
  replace (Rltb f f) with false by (symmetry; apply Rltb_false; lra).
  destruct (Reqb f f); [|reflexivity]. destruct (o_hfit o) as [h|]; simpl; [|reflexivity].
  apply Rltb_false; lra.
Qed.

(* Organisms.Less on real fitness values is the lexicographic order on (fitness, highestFitness) *)
Lemma org_less_real (a b : xorganism) fa ha fb hb :
  o_fitness a = Some fa -> o_hfit a = Some ha -> o_fitness b = Some fb -> o_hfit b = Some hb ->
  (org_less xnum a b = true <-> fa < fb \/ (fa = fb /\ ha < hb)).
Proof.
  intros E1 E2 E3 E4. unfold org_less. rewrite E1, E2, E3, E4. simpl.
  destruct (Rltb fa fb) eqn:L.
  - apply Rltb_true in L. split; auto.
  - apply Rltb_false in L. destruct (Reqb fa fb) eqn:Q.
    + apply Reqb_true in Q. rewrite Rltb_true. split; [intros; right; auto | intros [H | [_ H]]; [lra | exact H]].
    + assert (fa <> fb) by (intros ->; assert (Reqb fb fb = true) by (apply Reqb_true; reflexivity); congruence).
      split; [discriminate | intros [H1 | [H1 _]]; [lra | contradiction]].
Qed.

Lemma org_not_less_fit (a b : xorganism) :
  real_org a -> real_org b -> org_less xnum a b = false -> fitR b <= fitR a.
Proof.
  intros (fa & ha & E1 & E2) (fb & hb & E3 & E4) H. unfold fitR. rewrite E1, E3.
  destruct (Rle_dec fb fa) as [l|n]; [exact l|]. exfalso.
  assert (org_less xnum a b = true) by (apply (org_less_real a b fa ha fb hb E1 E2 E3 E4); left; lra).
  congruence.
Qed.

Lemma real_candidate only (t : xtrial) o : real_trial t -> In (Some o) (candidates only t) -> real_org o.
Proof.
  unfold real_trial, candidates. intros Hr Hin. apply in_map_iff in Hin. destruct Hin as (g & Hg & Hin).
  apply filter_In in Hin. destruct Hin as [Hin _]. rewrite Forall_forall in Hr. specialize (Hr g Hin).
  now rewrite Hg in Hr.
Qed.

(* Trial.BestOrganism returns a candidate champion of maximal fitness *)
Theorem t_best_organism_max only (t : xtrial) k o :
  real_trial t -> t_best_organism xnum only t k = Ok (Some (Some o)) ->
  In (Some o) (candidates only t) /\ forall o', In (Some o') (candidates only t) -> fitR o' <= fitR o.
Proof.
  intros Hr H. apply t_best_organism_spec in H. destruct H as [Hin Hmax]. split; [exact Hin|].
  intros o' Ho'. apply org_not_less_fit; try (eapply real_candidate; eauto).
  destruct Hmax as [E | Hmax]; [|now apply Hmax].
  rewrite E in Ho'. destruct Ho' as [Ho' | []]. injection Ho' as <-. apply org_less_irrefl.
Qed.

Theorem t_best_organism_none only (t : xtrial) k :
  t_best_organism xnum only t k = Ok None -> candidates only t = [].
Proof. intros H. now apply t_best_organism_spec in H. Qed.

(* for every trial with champions there is a valid sort outcome, so the statement is not vacuous *)
Lemma org_not_less_trans (a b c : xorganism) :
  real_org a -> real_org b -> real_org c ->
  org_less xnum a b = false -> org_less xnum b c = false -> org_less xnum a c = false.
Proof.
  intros (fa & ha & A1 & A2) (fb & hb & B1 & B2) (fc & hc & C1 & C2) H1 H2.
  destruct (org_less xnum a c) eqn:E; [|reflexivity]. exfalso.
  apply (org_less_real a c fa ha fc hc A1 A2 C1 C2) in E.
  assert (N1 : ~ (fa < fb \/ fa = fb /\ ha < hb)).
  { intros X. apply (org_less_real a b fa ha fb hb A1 A2 B1 B2) in X. congruence. }
  assert (N2 : ~ (fb < fc \/ fb = fc /\ hb < hc)).
  { intros X. apply (org_less_real b c fb hb fc hc B1 B2 C1 C2) in X. congruence. }
  destruct (Rtotal_order fa fb) as [?|[?|?]], (Rtotal_order fb fc) as [?|[?|?]];
    try (apply N1; left; lra); try (apply N2; left; lra);
    destruct (Rlt_dec ha hb); try (apply N1; right; split; [lra|lra]);
    destruct (Rlt_dec hb hc); try (apply N2; right; split; [lra|lra]);
    destruct E as [E | [E1 E2]]; lra.
Qed.

Lemma org_less_asym (a b : xorganism) : real_org a -> real_org b -> org_less xnum a b = true -> org_less xnum b a = false.
Proof.
  intros (fa & ha & A1 & A2) (fb & hb & B1 & B2) H.
  apply (org_less_real a b fa ha fb hb A1 A2 B1 B2) in H.
  destruct (org_less xnum b a) eqn:E; [|reflexivity]. exfalso.
  apply (org_less_real b a fb hb fa ha B1 B2 A1 A2) in E. lra.
Qed.

Lemma max_exists (os : list xorganism) :
  os <> [] -> Forall real_org os ->
  exists k o, nth_error os k = Some o /\ forall o', In o' os -> org_less xnum o o' = false.
Proof.
  induction os as [|a os IH]; intros Hne Hr; [congruence|].
  inversion Hr as [|? ? Ha Hos]; subst. destruct os as [|b os].
  - exists O, a. split; [reflexivity|]. intros o' [<- | []]. apply org_less_irrefl.
  - destruct (IH ltac:(discriminate) Hos) as (k & m & Hk & Hm).
    assert (Hrm : real_org m). { rewrite Forall_forall in Hos. apply Hos. eapply nth_error_In; eauto. }
    destruct (org_less xnum a m) eqn:E.
    + exists (S k), m. split; [exact Hk|]. intros o' [<- | Hin]; [now apply org_less_asym | now apply Hm].
    + exists O, a. split; [reflexivity|]. intros o' [<- | Hin]; [apply org_less_irrefl|].
      apply org_not_less_trans with (b := m); auto.
      rewrite Forall_forall in Hos. now apply Hos.
Qed.

Theorem t_best_organism_exists only (t : xtrial) :
  real_trial t -> candidates only t <> [] -> ~ In None (candidates only t) ->
  exists k o, t_best_organism xnum only t k = Ok (Some (Some o)).
Proof.
  intros Hr Hne Hnn. unfold t_best_organism. rewrite collect_champs_spec. fold (candidates only t).
  destruct (candidates only t) as [|a l] eqn:E; [congruence|].
  destruct (all_some (a :: l)) as [os|] eqn:Ea.
  2:{ apply all_some_none in Ea. contradiction. }
  pose proof (all_some_map _ _ Ea) as Em.
  assert (Hros : Forall real_org os).
  { rewrite Forall_forall. intros o Ho. apply (real_candidate only t o Hr). rewrite E, Em. now apply in_map. }
  assert (Hos : os <> []) by (intros ->; discriminate).
  destruct (max_exists os Hos Hros) as (k & o & Hk & Hm).
  exists (Z.of_nat k), o. unfold sort_first. destruct l as [|b rest].
  - destruct os as [|o1 [|]]; try discriminate. injection Em as ->.
    destruct k; [injection Hk as ->; reflexivity | destruct k; discriminate].
  - rewrite Ea. cbv iota beta. rewrite Nat2Z.id, Hk.
    replace (0 <=? Z.of_nat k)%Z with true by (symmetry; apply Z.leb_le; lia).
    replace (forallb (fun o' => negb (org_less xnum o o')) os) with true; [reflexivity|].
    symmetry. apply forallb_forall. intros o' Ho'. now rewrite (Hm o' Ho').
Qed.

(* ---------- BestFitness / BestSpeciesAge / BestComplexity ---------- *)

Definition has_champions (t : xtrial) : Prop := ~ In None (candidates false t).

Lemma candidates_all_nil (t : xtrial) : candidates false t = [] <-> t_gens t = [].
Proof.
  unfold candidates. simpl. split; intros H.
  - destruct (t_gens t); [reflexivity | discriminate].
  - now rewrite H.
Qed.

(* each entry: 0 for a trial without generations, otherwise the value read from a champion of
   maximal fitness of that trial *)
Definition best_entry (read : xorganism -> xr) (t : xtrial) (x : xr) : Prop :=
  match t_gens t with
  | [] => x = Some 0
  | _ => exists o, In (Some o) (candidates false t) /\
                   (forall o', In (Some o') (candidates false t) -> fitR o' <= fitR o) /\ x = read o
  end.

Lemma best_entries read (f : option xorganism -> res xr) :
  (forall o, f (Some o) = Ok (read o)) ->
  forall (e : list xtrial) ks l,
  Forall real_trial e -> Forall has_champions e ->
  best_loop xnum f e ks = Ok l -> Forall2 (best_entry read) e l.
Proof.
  intros Hf e ks l Hr Hc H. apply best_loop_spec in H.
  induction H as [|t x e l (k & b & Hb & Hx) H2 IH]; [constructor|].
  inversion Hr; inversion Hc; subst. constructor; [|now apply IH].
  unfold best_entry. destruct b as [[o|]|].
  - destruct (t_best_organism_max false t k o ltac:(assumption) Hb) as [Hin Hmax].
    destruct (t_gens t) eqn:Eg.
    + apply candidates_all_nil in Eg. rewrite Eg in Hin. contradiction.
    + exists o. repeat split; auto. rewrite Hf in Hx. now injection Hx.
  - exfalso. apply t_best_organism_spec in Hb. match goal with H : has_champions t |- _ => apply H end.
    rewrite Hb. now left.
  - apply t_best_organism_none in Hb. apply candidates_all_nil in Hb. rewrite Hb. exact Hx.
Qed.

Theorem e_best_fitness_spec (e : list xtrial) ks l :
  Forall real_trial e -> Forall has_champions e ->
  e_best_fitness xnum e ks = Ok l -> Forall2 (best_entry (fun o => o_fitness o)) e l.
Proof. apply best_entries. reflexivity. Qed.

Theorem e_best_species_age_spec (e : list xtrial) ks l :
  Forall real_trial e -> Forall has_champions e ->
  e_best_species_age xnum e ks = Ok l ->
  Forall2 (best_entry (fun o => match o_age o with Some a => Some (IZR a) | None => Some 0 end)) e l.
Proof. apply best_entries. intros o. simpl. destruct (o_age o); reflexivity. Qed.

Theorem e_best_complexity_spec (e : list xtrial) ks l :
  Forall real_trial e -> Forall has_champions e ->
  e_best_complexity xnum e ks = Ok l -> Forall2 (best_entry (fun o => Some (IZR (o_cplx o)))) e l.
Proof. apply best_entries. reflexivity. Qed.

(* the best fitness of a trial is the maximum of its champions' fitness *)
Corollary best_fitness_is_max (t : xtrial) x :
  real_trial t -> t_gens t <> [] -> best_entry (fun o => o_fitness o) t x ->
  exists m, x = Some m /\ forall o', In (Some o') (candidates false t) -> fitR o' <= m.
Proof.
  intros Hr Hne H. unfold best_entry in H. destruct (t_gens t) eqn:E; [congruence|].
  destruct H as (o & Hin & Hmax & ->).
  assert (Ho : real_org o). { eapply real_candidate; eauto. }
  destruct Ho as (f & h & E1 & E2). exists f. split; [exact E1|].
  intros o' Ho'. specialize (Hmax o' Ho'). unfold fitR at 2 in Hmax. now rewrite E1 in Hmax.
Qed.

(* ---------- Experiment.BestOrganism ---------- *)

Theorem e_best_organism_spec only (e : list xtrial) ks k o i :
  Forall real_trial e ->
  e_best_organism xnum only e ks k = Ok (Some (o, i)) ->
  (exists t, (0 <= i)%Z /\ nth_error e (Z.to_nat i) = Some t /\ In (Some o) (candidates only t)) /\
  (forall t' o', In t' e -> In (Some o') (candidates only t') -> fitR o' <= fitR o).
Proof.
  intros Hr H. unfold e_best_organism in H. apply bind_ok in H. destruct H as (orgs & Hc & H).
  destruct (collect_best_spec xnum only e 0 ks orgs Hc) as (S1 & S2).
  destruct orgs as [|p orgs]; [discriminate|].
  destruct (nth_error (p :: orgs) (Z.to_nat k)) as [[o1 i1]|] eqn:En; [|discriminate].
  destruct ((0 <=? k)%Z && forallb (fun oi => negb (org_less xnum o1 (fst oi))) (p :: orgs)) eqn:Ec; [|discriminate].
  injection H as <- <-. apply andb_true_iff in Ec. destruct Ec as [_ Ec]. rewrite forallb_forall in Ec.
  assert (Hin : In (o1, i1) (p :: orgs)) by (eapply nth_error_In; eauto).
  destruct (S1 _ _ Hin) as (t & Hi & Hn & Hb & _). rewrite Z.sub_0_r in Hn.
  assert (Hrt : forall t0, In t0 e -> real_trial t0) by (now apply Forall_forall).
  assert (Hro : real_org o1).
  { apply (real_candidate only t o1); [apply Hrt; eapply nth_error_In; eauto | exact Hb]. }
  split; [exists t; auto|].
  intros t' o' Ht' Ho'.
  destruct (S2 t' Ht') as (o2 & i2 & Hin2 & Hb2 & Hmax2); [intros E; rewrite E in Ho'; contradiction|].
  assert (Hro2 : real_org o2) by (apply (real_candidate only t' o2); auto).
  assert (Hro' : real_org o') by (apply (real_candidate only t' o'); auto).
  apply Rle_trans with (r2 := fitR o2).
  - apply org_not_less_fit; auto. destruct Hmax2 as [E | Hmax2]; [|now apply Hmax2].
    rewrite E in Ho'. destruct Ho' as [Ho' | []]. injection Ho' as <-. apply org_less_irrefl.
  - apply org_not_less_fit; auto. specialize (Ec _ Hin2). simpl in Ec. now apply negb_true_iff in Ec.
Qed.

Theorem e_best_organism_none only (e : list xtrial) ks k :
  e_best_organism xnum only e ks k = Ok None -> forall t, In t e -> candidates only t = [].
Proof.
  intros H t Ht. unfold e_best_organism in H. apply bind_ok in H. destruct H as (orgs & Hc & H).
  destruct (collect_best_spec xnum only e 0 ks orgs Hc) as (_ & S2).
  destruct orgs as [|p orgs].
  - destruct (candidates only t) as [|c cs] eqn:E; [reflexivity|]. exfalso.
    destruct (S2 t Ht) as (o2 & i2 & [] & _). rewrite E. discriminate.
  - destruct (nth_error (p :: orgs) (Z.to_nat k)) as [[o1 i1]|]; [|discriminate].
    destruct ((0 <=? k)%Z && _); discriminate.
Qed.
