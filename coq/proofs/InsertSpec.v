(* geneInsert / nodeInsert: the result is a permutation of the input plus the new element, and
   inserting a fresh key into a strictly ascending list keeps it strictly ascending. *)
From NeatModel Require Import Res Genome Insert.
From Coq Require Import Lia Sorting.Sorted Sorting.Permutation.

Section Sorted.
  Context {A : Type} (key : A -> Z).

  Definition asc (l : list A) : Prop := StronglySorted Z.lt (map key l).

  Lemma asc_nil : asc []. Proof. constructor. Qed.

  Lemma asc_cons x l : asc (x :: l) <-> asc l /\ Forall (fun y => key x < key y) l.
  Proof.
    unfold asc. cbn [map]. split.
    - intros H. inversion H as [|? ? Hs Hf]; subst. split; [exact Hs|].
      rewrite Forall_map in Hf. exact Hf.
    - intros [Hs Hf]. constructor; [exact Hs|]. rewrite Forall_map. exact Hf.
  Qed.

  Lemma asc_app a b :
    asc (a ++ b) <-> asc a /\ asc b /\ (forall x y, In x a -> In y b -> key x < key y).
  Proof.
    induction a as [|x a IH]; cbn [app].
    - split; [intros H; repeat split; [apply asc_nil | exact H | intros ? ? []] | intros [_ [H _]]; exact H].
    - rewrite !asc_cons, IH, Forall_app. split.
      + intros [[Ha [Hb Hab]] [Hxa Hxb]]. repeat split; try assumption.
        intros u v [<-|Hu] Hv; [rewrite Forall_forall in Hxb; now apply Hxb | now apply Hab].
      + intros [[Ha Hxa] [Hb Hab]]. repeat split; try assumption.
        * intros u v Hu Hv. apply Hab; [now right|assumption].
        * rewrite Forall_forall. intros v Hv. apply Hab; [now left|assumption].
  Qed.

  Lemma asc_NoDup l : asc l -> NoDup (map key l).
  Proof.
    induction l as [|x l IH]; intros H; cbn [map]; [constructor|].
    apply asc_cons in H. destruct H as [Hs Hf]. constructor; [|now apply IH].
    rewrite in_map_iff. intros [y [Hy Hin]]. rewrite Forall_forall in Hf. specialize (Hf _ Hin). lia.
  Qed.

  (* scan_back finds the cut point of a strictly ascending list *)
  Lemma scan_back_spec k init : forall l,
      asc l -> ~ In k (map key l) -> (exists y, In y l /\ key y < k) ->
      let i := scan_back key k (rev l) (pred (length l)) init in
      (i <= length l)%nat /\ Forall (fun y => key y < k) (firstn i l) /\ Forall (fun y => k < key y) (skipn i l).
  Proof.
    induction l as [|y l IH] using rev_ind; intros Hs Hk [z [Hz Hzk]]; [destruct Hz|].
    rewrite rev_unit, app_length. cbn [length scan_back]. rewrite Nat.add_1_r. cbn [pred].
    apply asc_app in Hs. destruct Hs as [Hl [_ Hly]].
    assert (Hky : k <> key y).
    { intros ->. apply Hk. rewrite map_app, in_app_iff. right. now left. }
    destruct (Z.eqb_spec k (key y)) as [?|_]; [contradiction|].
    destruct (Z.gtb_spec k (key y)) as [Hgt|Hle].
    - (* inserted after the last element *)
      replace (S (length l)) with (length (l ++ [y])) by (rewrite app_length; cbn; lia).
      rewrite firstn_all, skipn_all. repeat split; [lia| |constructor].
      rewrite Forall_app. split; [|repeat constructor; lia].
      rewrite Forall_forall. intros u Hu. specialize (Hly u y Hu (or_introl eq_refl)). lia.
    - assert (Hlt : k < key y) by lia.
      assert (Hz' : exists y0, In y0 l /\ key y0 < k).
      { apply in_app_or in Hz. destruct Hz as [Hz|[<-|[]]]; [now exists z | lia]. }
      assert (Hk' : ~ In k (map key l)).
      { intros H. apply Hk. rewrite map_app, in_app_iff. now left. }
      specialize (IH Hl Hk' Hz'). cbv zeta in IH. destruct IH as [Hi [Hf Hsk]].
      set (i := scan_back key k (rev l) (pred (length l)) init) in *.
      repeat split; [lia| |].
      + rewrite firstn_app. replace (i - length l)%nat with O by lia. cbn [firstn]. now rewrite app_nil_r.
      + rewrite skipn_app. replace (i - length l)%nat with O by lia. cbn [skipn].
        rewrite Forall_app. split; [exact Hsk|repeat constructor; lia].
  Qed.

  Lemma insert_sorted_perm l x : Permutation (insert_sorted key l x) (x :: l).
  Proof.
    unfold insert_sorted. destruct l as [|y0 l0]; [reflexivity|].
    set (l := y0 :: l0).
    destruct (Z.geb _ _).
    - apply Permutation_sym, Permutation_cons_append.
    - destruct (Z.leb _ _); [reflexivity|].
      set (i := scan_back _ _ _ _ _).
      rewrite <- (firstn_skipn i l) at 3.
      apply Permutation_sym, Permutation_middle.
  Qed.

  Lemma insert_sorted_In l x y : In y (insert_sorted key l x) <-> y = x \/ In y l.
  Proof.
    split.
    - intros H. apply (Permutation_in _ (insert_sorted_perm l x)) in H. destruct H as [<-|H]; auto.
    - intros H. apply (Permutation_in _ (Permutation_sym (insert_sorted_perm l x))).
      destruct H as [->|H]; [now left|now right].
  Qed.

  Lemma last_In (l : list A) d : l <> [] -> In (last l d) l.
  Proof.
    induction l as [|a l IH]; [congruence|]. intros _. destruct l as [|b l]; [now left|].
    right. apply IH. discriminate.
  Qed.

  Lemma asc_last_max l d : asc l -> forall y, In y l -> key y <= key (last l d).
  Proof.
    induction l as [|a l IH]; intros Hs y Hy; [destruct Hy|].
    apply asc_cons in Hs. destruct Hs as [Hs Hf].
    destruct l as [|b l]; [destruct Hy as [<-|[]]; cbn; lia|].
    destruct Hy as [<-|Hy].
    - change (last (a :: b :: l) d) with (last (b :: l) d).
      assert (Hne : b :: l <> []) by discriminate.
      rewrite Forall_forall in Hf. specialize (Hf (last (b :: l) d) (last_In _ d Hne)). lia.
    - change (last (a :: b :: l) d) with (last (b :: l) d). now apply IH.
  Qed.

  Theorem insert_sorted_asc l x :
    asc l -> ~ In (key x) (map key l) -> asc (insert_sorted key l x).
  Proof.
    intros Hs Hk. unfold insert_sorted. destruct l as [|y0 l0]; [cbn; repeat constructor|].
    set (l := y0 :: l0) in *.
    assert (Hne : forall y, In y l -> key y <> key x).
    { intros y Hy E. apply Hk. rewrite in_map_iff. now exists y. }
    destruct (Z.geb_spec (key x) (key (last l y0))) as [Hge|Hlt].
    - apply asc_app. repeat split; [exact Hs|apply asc_cons; split; [apply asc_nil|constructor]|].
      intros u v Hu [<-|[]]. pose proof (asc_last_max l y0 Hs u Hu).
      assert (Hnn : l <> []) by (subst l; discriminate).
      pose proof (Hne _ (last_In l y0 Hnn)).
      specialize (Hne u Hu). lia.
    - destruct (Z.leb_spec (key x) (key y0)) as [Hle|Hgt].
      + apply asc_cons. split; [exact Hs|].
        pose proof Hs as Hs'. apply asc_cons in Hs'. destruct Hs' as [_ Hf].
        pose proof (Hne y0 (or_introl eq_refl)).
        constructor; [lia|]. rewrite Forall_forall in *. intros v Hv. specialize (Hf v Hv). lia.
      + pose proof (scan_back_spec (key x) (length l) l Hs Hk) as Hsp.
        assert (Hex : exists y, In y l /\ key y < key x) by (exists y0; split; [now left|lia]).
        specialize (Hsp Hex). cbv zeta in Hsp.
        set (i := scan_back key (key x) (rev l) (pred (length l)) (length l)) in *.
        destruct Hsp as [Hi [Hf Hsk]].
        rewrite <- (firstn_skipn i l) in Hs. apply asc_app in Hs. destruct Hs as [Ha [Hb Hab]].
        apply asc_app. repeat split; [exact Ha| |].
        * apply asc_cons. split; [exact Hb|exact Hsk].
        * intros u v Hu [<-|Hv]; [rewrite Forall_forall in Hf; now apply Hf | now apply Hab].
  Qed.
End Sorted.
