(* C09: giveBabiesToTheBest and deltaCoding redistribute offspring quotas without changing their
   total; they write nothing but Species.ExpectedOffspring (deltaCoding also AgeOfLastImprovement)
   and the superChampOffspring of first organisms; and a first organism never reserves more
   super-champion offspring than its species' quota (used by C10). *)
From NeatModel Require Import Res F64 GoRand Genome Options Population MonadLemmas QuotaReal QuotaSpec.
From Coq Require Import Lia.

(* ---------- species list by id ---------- *)
Lemma sp_find_In l : forall id s, sp_find l id = Some s -> In s l /\ sp_id s = id.
Proof.
  induction l as [|x l IH]; intros id s H; cbn in H; [discriminate|].
  destruct (Z.eqb (sp_id x) id) eqn:E.
  - injection H as <-. apply Z.eqb_eq in E. split; [now left|assumption].
  - destruct (IH _ _ H) as [A B]. split; [now right|assumption].
Qed.

Lemma sp_find_NoDup l : forall s, NoDup (map sp_id l) -> In s l -> sp_find l (sp_id s) = Some s.
Proof.
  induction l as [|x l IH]; intros s Hnd Hs; [destruct Hs|]. cbn in Hnd. inversion Hnd as [|a b Hn Hnd']; subst.
  cbn. destruct Hs as [->|Hs].
  - now rewrite Z.eqb_refl.
  - destruct (Z.eqb (sp_id x) (sp_id s)) eqn:E.
    + apply Z.eqb_eq in E. exfalso. apply Hn. rewrite E. now apply in_map.
    + now apply IH.
Qed.

Lemma sp_find_unique l id s x : NoDup (map sp_id l) -> sp_find l id = Some s -> In x l -> sp_id x = id -> x = s.
Proof.
  intros Hnd Hf Hx Hid. pose proof (sp_find_NoDup l x Hnd Hx) as H. rewrite Hid, Hf in H. now injection H.
Qed.

Lemma sp_find_some l id : In id (map sp_id l) -> exists s, sp_find l id = Some s.
Proof.
  induction l as [|x l IH]; intros H; [destruct H|]. cbn. destruct (Z.eqb (sp_id x) id) eqn:E.
  - now exists x.
  - destruct H as [H|H]; [apply Z.eqb_neq in E; contradiction|now apply IH].
Qed.

Lemma sp_set_absent l id f : ~ In id (map sp_id l) -> sp_set l id f = l.
Proof.
  unfold sp_set. induction l as [|x l IH]; intros H; [reflexivity|]. cbn.
  destruct (Z.eqb (sp_id x) id) eqn:E.
  - apply Z.eqb_eq in E. exfalso. apply H. now left.
  - rewrite IH; [reflexivity|]. intros C. apply H. now right.
Qed.

Lemma sp_set_cons x l id f : sp_set (x :: l) id f = (if Z.eqb (sp_id x) id then f x else x) :: sp_set l id f.
Proof. reflexivity. Qed.

Lemma sp_set_sum l : forall id s (g : species -> Z),
  NoDup (map sp_id l) -> sp_find l id = Some s ->
  sp_sum (sp_set l id (fun s => sp_with_exp s (g s))) = sp_sum l - sp_exp s + g s.
Proof.
  induction l as [|x l IH]; intros id s g Hnd Hf; [discriminate|].
  cbn in Hnd. inversion Hnd as [|a b Hn Hnd']; subst. rewrite sp_set_cons. cbn in Hf.
  destruct (Z.eqb (sp_id x) id) eqn:E.
  - injection Hf as <-. apply Z.eqb_eq in E. rewrite sp_set_absent by (rewrite <- E; exact Hn).
    rewrite !sp_sum_cons. cbn. lia.
  - rewrite !sp_sum_cons. rewrite (IH _ _ _ Hnd' Hf). lia.
Qed.

Lemma sp_set_quota_only l id (g : species -> Z) :
  Forall2 quota_only l (sp_set l id (fun s => sp_with_exp s (g s))).
Proof.
  induction l as [|x l IH]; [constructor|]. rewrite sp_set_cons. constructor; [|exact IH].
  destruct (Z.eqb (sp_id x) id); [apply quota_only_with_exp|apply quota_only_refl].
Qed.

Lemma sp_set_In l id f s' : In s' (sp_set l id f) ->
  exists s, In s l /\ s' = (if Z.eqb (sp_id s) id then f s else s).
Proof. unfold sp_set. intros H. apply in_map_iff in H. destruct H as [s [<- Hs]]. now exists s. Qed.

Lemma Forall2_In_r {A B} (R : A -> B -> Prop) l l' : Forall2 R l l' -> forall b, In b l' -> exists a, In a l /\ R a b.
Proof.
  induction 1 as [|x y l l' H _ IH]; intros b Hb; [destruct Hb|]. destruct Hb as [<-|Hb].
  - exists x. split; [now left|assumption].
  - destruct (IH _ Hb) as [a [A1 A2]]. exists a. split; [now right|assumption].
Qed.

(* ---------- heap: only superChampOffspring is written ---------- *)
Definition super_only (a b : organism) : Prop := b = o_with_super a (o_super b).
Definition heap_super_only (h h' : list organism) : Prop := Forall2 super_only h h'.

Lemma super_only_refl a : super_only a a.
Proof. destruct a; reflexivity. Qed.
Lemma super_only_trans a b c : super_only a b -> super_only b c -> super_only a c.
Proof. unfold super_only. intros -> ->. destruct a; reflexivity. Qed.

Lemma heap_super_only_refl h : heap_super_only h h.
Proof. apply Forall2_refl. exact super_only_refl. Qed.
Lemma heap_super_only_trans h1 h2 h3 : heap_super_only h1 h2 -> heap_super_only h2 h3 -> heap_super_only h1 h3.
Proof. apply Forall2_trans. exact super_only_trans. Qed.

Lemma hset_super_only h : forall k c n, hget h k = Ok c -> heap_super_only h (hset h (o_with_super c n)).
Proof.
  induction h as [|x h IH]; intros k c n H; [discriminate|]. cbn in H. cbn [hset].
  change (o_key (o_with_super c n)) with (o_key c).
  destruct (Z.eqb (o_key x) k) eqn:E.
  - injection H as <-. rewrite Z.eqb_refl. constructor; [|apply heap_super_only_refl].
    unfold super_only. destruct x; reflexivity.
  - rewrite (hget_key _ _ _ H), E. constructor; [apply super_only_refl|]. exact (IH _ _ _ H).
Qed.

Lemma first_org_hget h s c : first_org h s = Ok c -> exists k r, sp_orgs s = k :: r /\ hget h k = Ok c.
Proof. unfold first_org. destruct (sp_orgs s) as [|k r]; [discriminate|]. intros H. now exists k, r. Qed.

Lemma set_champ_super_ok h s n h' : set_champ_super h s n = Ok h' ->
  exists c, first_org h s = Ok c /\ h' = hset h (o_with_super c n).
Proof.
  unfold set_champ_super. destruct (first_org h s) as [c| | | | |]; cbn [bind]; try discriminate.
  intros H. injection H as <-. now exists c.
Qed.

(* ---------- the reserved-offspring invariant ---------- *)
(* no two species share their first organism *)
Definition first_distinct (sps : list species) : Prop :=
  forall s1 s2 k, In s1 sps -> In s2 sps ->
                  hd_error (sp_orgs s1) = Some k -> hd_error (sp_orgs s2) = Some k -> sp_id s1 = sp_id s2.

(* quotas are not negative and no first organism reserves more than its species' quota *)
Definition super_le_quota (sps : list species) (h : list organism) : Prop :=
  forall s, In s sps -> 0 <= sp_exp s /\ forall c, first_org h s = Ok c -> o_super c <= sp_exp s.

Lemma first_distinct_shape l l' : Forall2 quota_only l l' -> first_distinct l -> first_distinct l'.
Proof.
  intros HF Hd s1 s2 k H1 H2 K1 K2.
  destruct (Forall2_In_r _ _ _ HF _ H1) as [a1 [A1 Q1]]. destruct (Forall2_In_r _ _ _ HF _ H2) as [a2 [A2 Q2]].
  rewrite (quota_only_id _ _ Q1), (quota_only_id _ _ Q2).
  rewrite (quota_only_orgs _ _ Q1) in K1. rewrite (quota_only_orgs _ _ Q2) in K2.
  exact (Hd _ _ _ A1 A2 K1 K2).
Qed.

(* granting k further offspring to the species with the given id and writing [sup] into its first
   organism's superChampOffspring *)
Lemma grant_step sps h id s c k sup :
  NoDup (map sp_id sps) -> sp_find sps id = Some s -> first_org h s = Ok c ->
  let sps' := sp_set sps id (fun s => sp_with_exp s (sp_exp s + k)) in
  let h' := hset h (o_with_super c sup) in
  sp_sum sps' = sp_sum sps + k /\ Forall2 quota_only sps sps' /\ heap_super_only h h' /\
  (0 <= k -> sup <= sp_exp s + k -> first_distinct sps -> super_le_quota sps h -> super_le_quota sps' h').
Proof.
  intros Hnd Hf Hc sps' h'. split; [|split; [|split]].
  - unfold sps'. rewrite (sp_set_sum _ _ _ _ Hnd Hf). lia.
  - apply sp_set_quota_only.
  - destruct (first_org_hget _ _ _ Hc) as [k0 [r [_ Hg]]]. exact (hset_super_only _ _ _ _ Hg).
  - intros Hk Hsup Hd HJ s' Hs'. apply sp_set_In in Hs'. destruct Hs' as [s0 [Hs0 ->]].
    destruct (first_org_hget _ _ _ Hc) as [k0 [r [Horgs Hg]]].
    pose proof (hget_key _ _ _ Hg) as Hkey.
    destruct (Z.eqb (sp_id s0) id) eqn:E.
    + apply Z.eqb_eq in E. pose proof (sp_find_unique _ _ _ _ Hnd Hf Hs0 E) as ->.
      destruct (HJ _ Hs0) as [J1 J2]. cbn [sp_exp sp_with_exp]. split; [lia|].
      intros c'. unfold first_org. cbn [sp_orgs sp_with_exp]. rewrite Horgs. unfold h'.
      rewrite hget_hset. change (o_key (o_with_super c sup)) with (o_key c). rewrite Hkey, Z.eqb_refl.
      intros H. injection H as <-. cbn. lia.
    + destruct (HJ _ Hs0) as [J1 J2]. split; [assumption|]. intros c' Hc'.
      destruct (first_org_hget _ _ _ Hc') as [k1 [r1 [Horgs1 Hg1]]].
      assert (Hne : k0 <> k1).
      { intros ->. apply Z.eqb_neq in E. apply E.
        destruct (sp_find_In _ _ _ Hf) as [Hs Hid]. rewrite <- Hid.
        apply (Hd s0 s k1 Hs0 Hs); [now rewrite Horgs1|now rewrite Horgs]. }
      unfold h' in Hg1. rewrite hget_hset_other in Hg1 by (cbn; lia).
      apply J2. unfold first_org. now rewrite Horgs1.
Qed.

(* ---------- giveBabiesToTheBest, first loop ---------- *)
Lemma steal_loop_spec o : forall rs sps stolen sps' stolen',
  steal_loop o sps rs stolen = (sps', stolen') -> NoDup (map sp_id sps) ->
  sp_sum sps' + stolen' = sp_sum sps + stolen /\ Forall2 quota_only sps sps' /\
  ((forall s, In s sps -> 0 <= sp_exp s) -> forall s, In s sps' -> 0 <= sp_exp s) /\
  (0 <= stolen -> 0 <= stolen').
Proof.
  induction rs as [|id r IH]; intros sps stolen sps' stolen' H Hnd.
  - cbn in H. injection H as <- <-. repeat split; auto. apply Forall2_refl. exact quota_only_refl.
  - cbn [steal_loop] in H. destruct (Z.geb stolen (o_babies_stolen o)) eqn:G.
    { injection H as <- <-. repeat split; auto. apply Forall2_refl. exact quota_only_refl. }
    rewrite Z.geb_leb in G. apply Z.leb_gt in G.
    destruct (sp_find sps id) as [s|] eqn:F; [|exact (IH _ _ _ _ H Hnd)].
    destruct (Z.gtb (sp_age s) 5 && Z.gtb (sp_exp s) 2) eqn:C; [|exact (IH _ _ _ _ H Hnd)].
    apply andb_prop in C. destruct C as [_ C]. rewrite Z.gtb_ltb in C. apply Z.ltb_lt in C.
    assert (Step : forall g, 1 <= g s ->
              let sps1 := sp_set sps id (fun s => sp_with_exp s (g s)) in
              NoDup (map sp_id sps1) /\ sp_sum sps1 = sp_sum sps - sp_exp s + g s /\ Forall2 quota_only sps sps1 /\
              ((forall s, In s sps -> 0 <= sp_exp s) -> forall s, In s sps1 -> 0 <= sp_exp s)).
    { intros g Hg sps1. pose proof (sp_set_quota_only sps id g) as Q. fold sps1 in Q.
      split; [rewrite (Forall2_quota_only_ids _ _ Q); exact Hnd|]. split; [exact (sp_set_sum _ _ _ _ Hnd F)|].
      split; [exact Q|]. intros Hnn x Hx. apply sp_set_In in Hx. destruct Hx as [x0 [Hx0 ->]].
      destruct (Z.eqb (sp_id x0) id) eqn:E; [|now apply Hnn].
      apply Z.eqb_eq in E. rewrite (sp_find_unique _ _ _ _ Hnd F Hx0 E). cbn. lia. }
    destruct (Z.geb (sp_exp s - 1) (o_babies_stolen o - stolen)) eqn:D.
    + rewrite Z.geb_leb in D. apply Z.leb_le in D.
      destruct (Step (fun s => sp_exp s - (o_babies_stolen o - stolen)) ltac:(lia)) as [S1 [S2 [S3 S4]]].
      destruct (IH _ _ _ _ H S1) as [I1 [I2 [I3 I4]]]. split; [lia|]. split.
      * eapply Forall2_trans; [exact quota_only_trans|exact S3|exact I2].
      * split; [intros Hnn; apply I3; now apply S4|]. intros; apply I4; lia.
    + rewrite Z.geb_leb in D. apply Z.leb_gt in D.
      destruct (Step (fun _ => 1) ltac:(lia)) as [S1 [S2 [S3 S4]]].
      destruct (IH _ _ _ _ H S1) as [I1 [I2 [I3 I4]]]. split; [lia|]. split.
      * eapply Forall2_trans; [exact quota_only_trans|exact S3|exact I2].
      * split; [intros Hnn; apply I3; now apply S4|]. intros; apply I4; lia.
Qed.

(* ---------- giveBabiesToTheBest, second loop ---------- *)
Lemma give_inner_spec (bi blk : Z) sps h stolen id s st acc' s1 :
  (if Z.ltb bi 3 && Z.geb stolen blk then
      let! h1 := lift (set_champ_super h s blk) in
      ret (sp_set sps id (fun s => sp_with_exp s (sp_exp s + blk)), h1, stolen - blk)
   else if Z.geb bi 3 then
      let! rr := r_float64 in
      if PrimFloat.ltb 0x1.999999999999ap-4%float rr then
        if Z.gtb stolen 3 then
          let! h1 := lift (set_champ_super h s 3) in
          ret (sp_set sps id (fun s => sp_with_exp s (sp_exp s + 3)), h1, stolen - 3)
        else
          let! h1 := lift (set_champ_super h s stolen) in
          ret (sp_set sps id (fun s => sp_with_exp s (sp_exp s + stolen)), h1, 0)
      else ret (sps, h, stolen)
   else ret (sps, h, stolen)) st = Ok (acc', s1) ->
  s_env s1 = s_env st /\
  (acc' = (sps, h, stolen) \/
   exists k c stolen', (k = blk \/ k = 3 \/ k = stolen) /\ k <= stolen /\ stolen' = stolen - k /\
      first_org h s = Ok c /\
      acc' = (sp_set sps id (fun s => sp_with_exp s (sp_exp s + k)), hset h (o_with_super c k), stolen')).
Proof.
  intros H. destruct (Z.ltb bi 3 && Z.geb stolen blk) eqn:C1.
  - apply andb_prop in C1. destruct C1 as [_ C1]. rewrite Z.geb_leb in C1. apply Z.leb_le in C1.
    mbind H as h1 s2 Ha Hb. apply lift_ok in Ha. destruct Ha as [Ha ->].
    apply ret_ok in Hb. destruct Hb as [<- <-]. split; [reflexivity|]. right.
    apply set_champ_super_ok in Ha. destruct Ha as [c [Hc ->]].
    exists blk, c, (stolen - blk). repeat split; auto.
  - destruct (Z.geb bi 3) eqn:C2.
    + mbind H as rr s2 Hr Hk. unfold r_float64 in Hr. apply on_tape_env in Hr.
      destruct (PrimFloat.ltb _ rr).
      * destruct (Z.gtb stolen 3) eqn:C3.
        -- rewrite Z.gtb_ltb in C3. apply Z.ltb_lt in C3.
           mbind Hk as h1 s3 Ha Hb. apply lift_ok in Ha. destruct Ha as [Ha ->].
           apply ret_ok in Hb. destruct Hb as [<- <-]. split; [assumption|]. right.
           apply set_champ_super_ok in Ha. destruct Ha as [c [Hc ->]].
           exists 3, c, (stolen - 3). repeat split; auto. lia.
        -- mbind Hk as h1 s3 Ha Hb. apply lift_ok in Ha. destruct Ha as [Ha ->].
           apply ret_ok in Hb. destruct Hb as [<- <-]. split; [assumption|]. right.
           apply set_champ_super_ok in Ha. destruct Ha as [c [Hc ->]].
           exists stolen, c, 0. repeat split; auto; lia.
      * apply ret_ok in Hk. destruct Hk as [<- <-]. split; [assumption|]. now left.
    + apply ret_ok in H. destruct H as [<- <-]. split; [reflexivity|]. now left.
Qed.

Lemma give_loop_spec o blocks : forall sorted bi sps h stolen st sps' h' stolen' st',
  give_loop o sorted bi blocks (sps, h, stolen) st = Ok ((sps', h', stolen'), st') ->
  NoDup (map sp_id sps) ->
  sp_sum sps' + stolen' = sp_sum sps + stolen /\ Forall2 quota_only sps sps' /\ heap_super_only h h' /\
  s_env st' = s_env st /\ (0 <= stolen -> 0 <= stolen') /\
  ((forall i, 0 <= nth i blocks 0) -> 0 <= stolen -> first_distinct sps -> super_le_quota sps h ->
   super_le_quota sps' h').
Proof.
  induction sorted as [|id r IH]; intros bi sps h stolen st sps' h' stolen' st' H Hnd.
  - cbn in H. apply ret_ok in H. destruct H as [H <-]. injection H as <- <- <-.
    split; [reflexivity|]. split; [apply Forall2_refl; exact quota_only_refl|]. split; [apply heap_super_only_refl|].
        split; [reflexivity|]. split; auto.
  - cbn [give_loop] in H. destruct (sp_find sps id) as [s|] eqn:F; [|discriminate].
    destruct (Z.gtb (sp_age s - sp_lastimp s) (o_dropoff o)); [exact (IH _ _ _ _ _ _ _ _ _ H Hnd)|].
    mbind H as acc' s1 H1 H2.
    apply give_inner_spec in H1. destruct H1 as [Henv H1].
    assert (Rest : forall sps1 h1 stolen1,
               acc' = (sps1, h1, stolen1) -> NoDup (map sp_id sps1) ->
               sp_sum sps' + stolen' = sp_sum sps1 + stolen1 /\ Forall2 quota_only sps1 sps' /\ heap_super_only h1 h' /\
               s_env st' = s_env s1 /\ (0 <= stolen1 -> 0 <= stolen') /\
               ((forall i, 0 <= nth i blocks 0) -> 0 <= stolen1 -> first_distinct sps1 -> super_le_quota sps1 h1 ->
                super_le_quota sps' h')).
    { intros sps1 h1 stolen1 -> Hnd1. destruct (Z.leb stolen1 0).
      - apply ret_ok in H2. destruct H2 as [H2 <-]. injection H2 as <- <- <-.
        split; [reflexivity|]. split; [apply Forall2_refl; exact quota_only_refl|]. split; [apply heap_super_only_refl|].
        split; [reflexivity|]. split; auto.
      - exact (IH _ _ _ _ _ _ _ _ _ H2 Hnd1). }
    destruct H1 as [->|[k [c [stolen1 [Hk [Hle [-> [Hc ->]]]]]]]].
    + destruct (Rest _ _ _ eq_refl Hnd) as [R1 [R2 [R3 [R4 [R5 R6]]]]].
      split; [assumption|]. split; [assumption|]. split; [assumption|]. split; [congruence|]. split; assumption.
    + destruct (grant_step sps h id s c k k Hnd F Hc) as [G1 [G2 [G3 G4]]].
      assert (Hnd1 : NoDup (map sp_id (sp_set sps id (fun s0 => sp_with_exp s0 (sp_exp s0 + k)))))
        by (rewrite (Forall2_quota_only_ids _ _ G2); exact Hnd).
      destruct (Rest _ _ _ eq_refl Hnd1) as [R1 [R2 [R3 [R4 [R5 R6]]]]].
      split; [lia|]. split; [eapply Forall2_trans; [exact quota_only_trans|exact G2|exact R2]|].
      split; [eapply heap_super_only_trans; eassumption|]. split; [congruence|].
      split; [intros; apply R5; lia|].
      intros Hb Hst Hd HJ.
      assert (Hk0 : 0 <= k) by (destruct Hk as [->|[->| ->]]; [apply Hb|lia|lia]).
      apply R6; auto; [lia|exact (first_distinct_shape _ _ G2 Hd)|].
      apply G4; auto. destruct (HJ s (proj1 (sp_find_In _ _ _ F))) as [J1 _]. lia.
Qed.

(* ---------- 6a. giveBabiesToTheBest ---------- *)
Lemma steal_conserves : forall o p sorted st p' st',
  give_babies o p sorted st = Ok (p', st') ->
  NoDup (map sp_id (p_species p)) ->
  sp_sum (p_species p') = sp_sum (p_species p) /\
  Forall2 quota_only (p_species p) (p_species p') /\
  heap_super_only (p_heap p) (p_heap p') /\
  p_detached p' = p_detached p /\ p_orgs p' = p_orgs p /\ p_last_species p' = p_last_species p /\
  p_highest p' = p_highest p /\ p_epochs_highest p' = p_epochs_highest p /\ p_next_key p' = p_next_key p /\
  s_env st' = s_env st /\
  (0 <= o_babies_stolen o -> first_distinct (p_species p) ->
   (forall s, In s (p_species p) -> 0 <= sp_exp s /\ forall c, first_org (p_heap p) s = Ok c -> o_super c <= 0) ->
   super_le_quota (p_species p') (p_heap p')).
Proof.
  intros o p sorted st p' st' H Hnd. unfold give_babies in H.
  destruct (steal_loop o (p_species p) (rev sorted) 0) as [sps1 stolen] eqn:S.
  destruct (steal_loop_spec _ _ _ _ _ _ S Hnd) as [S1 [S2 [S3 S4]]].
  assert (Hnd1 : NoDup (map sp_id sps1)) by (rewrite (Forall2_quota_only_ids _ _ S2); exact Hnd).
  mbind H as r s1 H1 H2. destruct r as [[sps2 h2] leftover].
  destruct (give_loop_spec _ _ _ _ _ _ _ _ _ _ _ _ H1 Hnd1) as [G1 [G2 [G3 [G4 [G5 G6]]]]].
  assert (Hst : 0 <= stolen) by (apply S4; lia).
  assert (Hlo : 0 <= leftover) by (apply G5; exact Hst).
  assert (Hnd2 : NoDup (map sp_id sps2)) by (rewrite (Forall2_quota_only_ids _ _ G2); exact Hnd1).
  assert (Hblocks : 0 <= o_babies_stolen o ->
                    forall i, 0 <= nth i [Z.quot (o_babies_stolen o) 5; Z.quot (o_babies_stolen o) 5; Z.quot (o_babies_stolen o) 10] 0).
  { intros Hb i. destruct i as [|[|[|i]]]; cbn [nth]; try (apply Z.quot_pos; lia). destruct i; lia. }
  assert (HJ1 : 0 <= o_babies_stolen o -> first_distinct (p_species p) ->
                (forall s, In s (p_species p) -> 0 <= sp_exp s /\ forall c, first_org (p_heap p) s = Ok c -> o_super c <= 0) ->
                first_distinct sps2 /\ super_le_quota sps2 h2).
  { intros Hb Hd Hpre.
    assert (Hd1 : first_distinct sps1) by exact (first_distinct_shape _ _ S2 Hd).
    assert (J1 : super_le_quota sps1 (p_heap p)).
    { intros s Hs. split; [apply S3; auto; intros x Hx; exact (proj1 (Hpre x Hx))|].
      intros c Hc. destruct (Forall2_In_r _ _ _ S2 _ Hs) as [s0 [Hs0 Q]].
      assert (0 <= sp_exp s) by (apply S3; auto; intros x Hx; exact (proj1 (Hpre x Hx))).
      assert (o_super c <= 0); [|lia]. apply (proj2 (Hpre s0 Hs0)).
      unfold first_org in *. now rewrite <- (quota_only_orgs _ _ Q). }
    pose proof (G6 (Hblocks Hb) Hst Hd1 J1) as J2.
    split; [exact (first_distinct_shape _ _ G2 Hd1)|assumption]. }
  destruct (Z.gtb leftover 0) eqn:L.
  - rewrite Z.gtb_ltb in L. apply Z.ltb_lt in L.
    destruct sorted as [|id rest]; [discriminate|].
    destruct (sp_find sps2 id) as [s|] eqn:F; [|discriminate].
    mbind H2 as c s2 Ha Hb. apply lift_ok in Ha. destruct Ha as [Hc ->].
    apply ret_ok in Hb. destruct Hb as [<- <-].
    cbn [p_species p_heap p_detached p_orgs p_with p_last_species p_highest p_epochs_highest p_next_key].
    destruct (grant_step sps2 h2 id s c leftover (o_super c + leftover) Hnd2 F Hc) as [A1 [A2 [A3 A4]]].
    split; [lia|]. split.
    { eapply Forall2_trans; [exact quota_only_trans|exact S2|].
      eapply Forall2_trans; [exact quota_only_trans|exact G2|exact A2]. }
    split; [eapply heap_super_only_trans; [exact G3|exact A3]|].
    do 6 (split; [reflexivity|]). split; [assumption|]. intros Hb Hd Hpre. destruct (HJ1 Hb Hd Hpre) as [D2 J2].
    destruct (J2 s (proj1 (sp_find_In _ _ _ F))) as [_ J]. specialize (J c Hc).
    apply A4; auto; lia.
  - apply ret_ok in H2. destruct H2 as [<- <-].
    cbn [p_species p_heap p_detached p_orgs p_with p_last_species p_highest p_epochs_highest p_next_key].
    rewrite Z.gtb_ltb in L. apply Z.ltb_ge in L.
    assert (leftover = 0) by lia. subst leftover.
    split; [lia|]. split; [eapply Forall2_trans; [exact quota_only_trans|exact S2|exact G2]|].
    split; [assumption|]. do 6 (split; [reflexivity|]). split; [assumption|].
    intros Hb Hd Hpre. destruct (HJ1 Hb Hd Hpre) as [_ J2]. exact J2.
Qed.

(* ---------- 6b. deltaCoding ---------- *)
(* deltaCoding also resets AgeOfLastImprovement of the two best species; identity, age, members
   stay *)
Definition sp_frame (s s' : species) : Prop :=
  sp_id s' = sp_id s /\ sp_age s' = sp_age s /\ sp_maxfit s' = sp_maxfit s /\ sp_novel s' = sp_novel s /\
  sp_orgs s' = sp_orgs s.

Definition delta_refresh (s : species) (n : Z) : species :=
  {| sp_id := sp_id s; sp_age := sp_age s; sp_maxfit := sp_maxfit s; sp_exp := n;
     sp_novel := sp_novel s; sp_orgs := sp_orgs s; sp_lastimp := sp_age s |}.

(* sums of a function of the species id *)
Definition isum (phi : Z -> Z) (l : list species) : Z := fold_right (fun s acc => phi (sp_id s) + acc) 0 l.

Lemma isum_cons phi x l : isum phi (x :: l) = phi (sp_id x) + isum phi l.
Proof. reflexivity. Qed.

Lemma sp_sum_map_isum (g : species -> species) phi l :
  (forall s, In s l -> sp_exp (g s) = phi (sp_id s)) -> sp_sum (map g l) = isum phi l.
Proof.
  induction l as [|x l IH]; intros H; [reflexivity|]. cbn [map]. rewrite sp_sum_cons, isum_cons.
  rewrite (H x (or_introl eq_refl)), IH; [reflexivity|]. intros s Hs. apply H. now right.
Qed.

Lemma isum_plus p1 p2 l : isum (fun i => p1 i + p2 i) l = isum p1 l + isum p2 l.
Proof. induction l as [|x l IH]; [reflexivity|]. rewrite !isum_cons, IH. lia. Qed.

Lemma isum_absent a x l : ~ In a (map sp_id l) -> isum (fun i => if Z.eqb i a then x else 0) l = 0.
Proof.
  induction l as [|y l IH]; intros H; [reflexivity|]. rewrite isum_cons, IH by (intros C; apply H; now right).
  destruct (Z.eqb (sp_id y) a) eqn:E; [|lia]. apply Z.eqb_eq in E. exfalso. apply H. now left.
Qed.

Lemma isum_once a x l : NoDup (map sp_id l) -> In a (map sp_id l) -> isum (fun i => if Z.eqb i a then x else 0) l = x.
Proof.
  induction l as [|y l IH]; intros Hnd Hin; [destruct Hin|]. cbn in Hnd. inversion Hnd as [|u v Hn Hnd']; subst.
  rewrite isum_cons. destruct (Z.eqb (sp_id y) a) eqn:E.
  - apply Z.eqb_eq in E. rewrite isum_absent by (rewrite <- E; exact Hn). lia.
  - destruct Hin as [Hin|Hin]; [apply Z.eqb_neq in E; contradiction|]. rewrite (IH Hnd' Hin). lia.
Qed.

Lemma fold_sp_set_zero rest : forall l,
  fold_left (fun acc id => sp_set acc id (fun s => sp_with_exp s 0)) rest l =
  map (fun s => if existsb (Z.eqb (sp_id s)) rest then sp_with_exp s 0 else s) l.
Proof.
  induction rest as [|id r IH]; intros l.
  - cbn. now rewrite map_id.
  - cbn [fold_left]. rewrite IH. unfold sp_set. rewrite map_map. apply map_ext. intros s.
    cbn [existsb]. destruct (Z.eqb (sp_id s) id); cbn [orb sp_id sp_with_exp]; [|reflexivity].
    destruct (existsb (Z.eqb (sp_id s)) r); reflexivity.
Qed.

Lemma existsb_Zeqb_In x l : existsb (Z.eqb x) l = true <-> In x l.
Proof.
  rewrite existsb_exists. split.
  - intros [y [Hy E]]. apply Z.eqb_eq in E. now subst.
  - intros H. exists x. split; [assumption|apply Z.eqb_refl].
Qed.

(* the species list after deltaCoding, as one map *)
Definition delta_map (a b : Z) (na nb : Z) (rest : list Z) (s : species) : species :=
  let s1 := if Z.eqb (sp_id s) a then delta_refresh s na else s in
  let s2 := if Z.eqb (sp_id s1) b then delta_refresh s1 nb else s1 in
  if existsb (Z.eqb (sp_id s2)) rest then sp_with_exp s2 0 else s2.

Lemma delta_map_frame a b na nb rest s : sp_frame s (delta_map a b na nb rest s).
Proof.
  unfold delta_map, sp_frame. destruct (Z.eqb (sp_id s) a); cbn [sp_id delta_refresh];
    destruct (Z.eqb (sp_id s) b); cbn [sp_id delta_refresh];
      destruct (existsb (Z.eqb (sp_id s)) rest); cbn; repeat split; reflexivity.
Qed.

Lemma delta_map_id a b na nb rest s : sp_id (delta_map a b na nb rest s) = sp_id s.
Proof. exact (proj1 (delta_map_frame a b na nb rest s)). Qed.

Lemma delta_map_exp a b na nb rest s :
  a <> b -> ~ In a rest -> ~ In b rest -> In (sp_id s) (a :: b :: rest) ->
  sp_exp (delta_map a b na nb rest s) =
  (if Z.eqb (sp_id s) a then na else 0) + (if Z.eqb (sp_id s) b then nb else 0).
Proof.
  intros Hab Ha Hb Hin. unfold delta_map.
  destruct (Z.eqb (sp_id s) a) eqn:Ea.
  - apply Z.eqb_eq in Ea. cbn [sp_id delta_refresh].
    assert (Eb : Z.eqb (sp_id s) b = false) by (apply Z.eqb_neq; lia). rewrite Eb.
    assert (Er : existsb (Z.eqb (sp_id s)) rest = false).
    { apply Bool.not_true_is_false. rewrite existsb_Zeqb_In. now rewrite Ea. }
    cbn [sp_id delta_refresh]. rewrite Er. cbn. lia.
  - destruct (Z.eqb (sp_id s) b) eqn:Eb.
    + apply Z.eqb_eq in Eb. cbn [sp_id delta_refresh].
      assert (Er : existsb (Z.eqb (sp_id s)) rest = false).
      { apply Bool.not_true_is_false. rewrite existsb_Zeqb_In. now rewrite Eb. }
      rewrite Er. cbn. lia.
    + apply Z.eqb_neq in Ea, Eb.
      assert (Er : existsb (Z.eqb (sp_id s)) rest = true).
      { apply existsb_Zeqb_In. destruct Hin as [Hin|[Hin|Hin]]; [congruence|congruence|assumption]. }
      rewrite Er. cbn. lia.
Qed.

Lemma delta_conserves : forall o p sorted p',
  delta_coding o p sorted = Ok p' ->
  NoDup sorted -> NoDup (map sp_id (p_species p)) ->
  (forall s, In s (p_species p) -> In (sp_id s) sorted) ->
  sp_sum (p_species p') = o_pop_size o /\
  Forall2 sp_frame (p_species p) (p_species p') /\
  heap_super_only (p_heap p) (p_heap p') /\
  p_detached p' = p_detached p /\ p_orgs p' = p_orgs p /\ p_last_species p' = p_last_species p /\
  p_highest p' = p_highest p /\ p_epochs_highest p' = 0 /\ p_next_key p' = p_next_key p /\
  (first_distinct (p_species p) ->
   (forall s c, In s (p_species p) -> first_org (p_heap p) s = Ok c -> o_super c <= 0) ->
   forall s' c, In s' (p_species p') -> first_org (p_heap p') s' = Ok c -> o_super c <= sp_exp s').
Proof.
  intros o p sorted p' H Hnds Hnd Hall. unfold delta_coding in H.
  destruct sorted as [|a [|b rest]]; [discriminate| |].
  - (* a single species takes everything *)
    destruct (sp_find (p_species p) a) as [sa|] eqn:Fa; cbn [bind] in H; [|discriminate].
    destruct (set_champ_super (p_heap p) sa (o_pop_size o)) as [h1| | | | |] eqn:S1; cbn [bind] in H; try discriminate.
    injection H as <-.
    cbn [p_species p_heap p_detached p_orgs p_with p_with_stagnation p_last_species p_highest p_epochs_highest p_next_key].
    apply set_champ_super_ok in S1. destruct S1 as [ca [Hca ->]].
    destruct (first_org_hget _ _ _ Hca) as [ka [ra [Horgs_a Hga]]].
    destruct (sp_find_In _ _ _ Fa) as [Hsa Hida].
    set (g := fun s : species => if Z.eqb (sp_id s) a then delta_refresh s (o_pop_size o) else s).
    assert (Hmap : sp_set (p_species p) a
                     (fun s => {| sp_id := sp_id s; sp_age := sp_age s; sp_maxfit := sp_maxfit s; sp_exp := o_pop_size o;
                                  sp_novel := sp_novel s; sp_orgs := sp_orgs s; sp_lastimp := sp_age s |})
                   = map g (p_species p)) by reflexivity.
    rewrite Hmap.
    split.
    { rewrite (sp_sum_map_isum g (fun i => if Z.eqb i a then o_pop_size o else 0)).
      - apply isum_once; [assumption|]. rewrite <- Hida. now apply in_map.
      - intros s Hs. unfold g. destruct (Hall s Hs) as [E|[]]. rewrite <- E, Z.eqb_refl. reflexivity. }
    split.
    { clear. induction (p_species p) as [|x l IH]; cbn [map]; constructor; [|exact IH].
      unfold g, sp_frame. destruct (Z.eqb (sp_id x) a); cbn; repeat split; reflexivity. }
    split; [exact (hset_super_only _ _ _ _ Hga)|].
    do 6 (split; [reflexivity|]).
    intros Hd Hpre s' c Hs' Hc. apply in_map_iff in Hs'. destruct Hs' as [s [<- Hs]].
    destruct (Hall s Hs) as [E|[]].
    assert (s = sa) by (apply (sp_find_unique _ _ _ _ Hnd Fa Hs); congruence). subst s.
    unfold g in *. rewrite Hida, Z.eqb_refl in *. cbn [sp_exp delta_refresh].
    unfold first_org in Hc. cbn [sp_orgs delta_refresh] in Hc. rewrite Horgs_a in Hc.
    rewrite hget_hset in Hc. change (o_key (o_with_super ca (o_pop_size o))) with (o_key ca) in Hc.
    rewrite (hget_key _ _ _ Hga), Z.eqb_refl in Hc. injection Hc as <-. cbn. lia.
  - (* two or more: the best two split the population, everybody else gets nothing *)
    destruct (sp_find (p_species p) a) as [sa|] eqn:Fa; cbn [bind] in H; [|discriminate].
    destruct (sp_find (p_species p) b) as [sb|] eqn:Fb; cbn [bind] in H; [|discriminate].
    set (half := Z.quot (o_pop_size o) 2) in *.
    destruct (set_champ_super (p_heap p) sa half) as [h1| | | | |] eqn:S1; cbn [bind] in H; try discriminate.
    destruct (set_champ_super h1 sb (o_pop_size o - half)) as [h2| | | | |] eqn:S2; cbn [bind] in H; try discriminate.
    injection H as <-.
    cbn [p_species p_heap p_detached p_orgs p_with p_with_stagnation p_last_species p_highest p_epochs_highest p_next_key].
    apply set_champ_super_ok in S1. destruct S1 as [ca [Hca ->]].
    apply set_champ_super_ok in S2. destruct S2 as [cb [Hcb ->]].
    destruct (first_org_hget _ _ _ Hca) as [ka [ra [Horgs_a Hga]]].
    destruct (first_org_hget _ _ _ Hcb) as [kb [rb [Horgs_b Hgb]]].
    destruct (sp_find_In _ _ _ Fa) as [Hsa Hida]. destruct (sp_find_In _ _ _ Fb) as [Hsb Hidb].
    inversion Hnds as [|u v Hna Hnds']; subst u v. inversion Hnds' as [|u v Hnb Hnds'']; subst u v.
    assert (Hab : a <> b) by (intros ->; apply Hna; now left).
    assert (Har : ~ In a rest) by (intros C; apply Hna; now right).
    match goal with |- context [fold_left ?f rest ?l] =>
      assert (Hmap : fold_left f rest l = map (delta_map a b half (o_pop_size o - half) rest) (p_species p))
    end.
    { rewrite fold_sp_set_zero. unfold sp_set. rewrite !map_map. apply map_ext. intros x. reflexivity. }
    rewrite Hmap. clear Hmap.
    split.
    { rewrite (sp_sum_map_isum _ (fun i => (if Z.eqb i a then half else 0) + (if Z.eqb i b then o_pop_size o - half else 0))).
      - rewrite (isum_plus (fun i => if Z.eqb i a then half else 0) (fun i => if Z.eqb i b then o_pop_size o - half else 0)).
        rewrite !isum_once; try assumption; [lia| |].
        + rewrite <- Hidb. now apply in_map.
        + rewrite <- Hida. now apply in_map.
      - intros s Hs. apply delta_map_exp; auto. }
    split.
    { clear. induction (p_species p) as [|x l IH]; cbn [map]; constructor; [apply delta_map_frame|exact IH]. }
    split.
    { eapply heap_super_only_trans; [exact (hset_super_only _ _ _ half Hga)|exact (hset_super_only _ _ _ (o_pop_size o - half) Hgb)]. }
    do 6 (split; [reflexivity|]).
    intros Hd Hpre s' c Hs' Hc. apply in_map_iff in Hs'. destruct Hs' as [s [<- Hs]].
    rewrite (delta_map_exp a b _ _ rest s Hab Har Hnb (Hall s Hs)).
    unfold first_org in Hc. rewrite (proj2 (proj2 (proj2 (proj2 (delta_map_frame a b half (o_pop_size o - half) rest s))))) in Hc.
    destruct (sp_orgs s) as [|k r] eqn:Horgs; [discriminate|].
    pose proof (hget_key _ _ _ Hga) as Kca.
    assert (Kcb : o_key cb = kb) by exact (hget_key _ _ _ Hgb).
    assert (Hkab : ka <> kb).
    { intros E. apply Hab. rewrite <- Hida, <- Hidb. apply (Hd sa sb ka Hsa Hsb); [now rewrite Horgs_a|now rewrite Horgs_b, E]. }
    rewrite hget_hset in Hc. change (o_key (o_with_super cb (o_pop_size o - half))) with (o_key cb) in Hc.
    rewrite Kcb in Hc.
    destruct (Z.eqb (sp_id s) b) eqn:Eb.
    + apply Z.eqb_eq in Eb. assert (s = sb) by (apply (sp_find_unique _ _ _ _ Hnd Fb Hs Eb)). subst s.
      rewrite Horgs_b in Horgs. injection Horgs as <- <-. rewrite Z.eqb_refl in Hc. injection Hc as <-.
      assert (Ea : Z.eqb (sp_id sb) a = false) by (apply Z.eqb_neq; lia). rewrite Ea. cbn. lia.
    + assert (Hk_b : Z.eqb kb k = false).
      { apply Z.eqb_neq. intros E. apply Z.eqb_neq in Eb. apply Eb. rewrite <- Hidb.
        apply (Hd s sb k Hs Hsb); [now rewrite Horgs|now rewrite Horgs_b, E]. }
      rewrite Hk_b in Hc. rewrite hget_hset in Hc. change (o_key (o_with_super ca half)) with (o_key ca) in Hc.
      rewrite Kca in Hc.
      destruct (Z.eqb (sp_id s) a) eqn:Ea.
      * apply Z.eqb_eq in Ea. assert (s = sa) by (apply (sp_find_unique _ _ _ _ Hnd Fa Hs Ea)). subst s.
        rewrite Horgs_a in Horgs. injection Horgs as <- <-. rewrite Z.eqb_refl in Hc. injection Hc as <-. cbn. lia.
      * assert (Hk_a : Z.eqb ka k = false).
        { apply Z.eqb_neq. intros E. apply Z.eqb_neq in Ea. apply Ea. rewrite <- Hida.
          apply (Hd s sa k Hs Hsa); [now rewrite Horgs|now rewrite Horgs_a, E]. }
        rewrite Hk_a in Hc.
        assert (o_super c <= 0); [|lia]. apply (Hpre s c Hs). unfold first_org. now rewrite Horgs.
Qed.
