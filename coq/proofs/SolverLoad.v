(* C12: Network.LoadSensors on a fresh network whose inputs list is its sensors in node order, called
   with one value per input node: the i-th input node gets x_i, every bias node gets 1.0 (whichever of
   the two branches of LoadSensors runs). *)
From NeatModel Require Import Res Net Fast SolverUtil SolverSpec SolverStd SolverBuild SolverMain FlushStd.
From Coq Require Import Reals Lra Arith Lia.
Open Scope nat_scope.

Section Load.
Variable n : net R.
Notation N := (nnodes n).
Notation state := (sstate R).

Definition inputb (p : nat) : bool := is_input (role_at n p).
Definition biasb (p : nat) : bool := is_bias (role_at n p).

Lemma sensor_load_spec (s : state) p (x : R) :
  let s' := sensor_load Rnum n s p x in
  length (s_act s') = length (s_act s) /\ length (s_cnt s') = length (s_cnt s) /\
  (forall q, q <> p -> actR s' q = actR s q /\ cntZ s' q = cntZ s q) /\
  (sensorb n p = false -> s' = s) /\
  (sensorb n p = true -> p < length (s_act s) -> p < length (s_cnt s) ->
   actR s' p = x /\ cntZ s' p = (cntZ s p + 1)%Z).
Proof.
  unfold sensor_load. fold (sensorb n p). destruct (sensorb n p).
  - unfold set_activation, save_activations, actR, cntZ, getZ. simpl. rewrite !upd_length.
    split; [reflexivity|]. split; [reflexivity|]. split; [|split; [discriminate|]].
    + intros q Hq. split; apply nth_upd_other; auto.
    + intros _ H1 H2. split; apply nth_upd_same; assumption.
  - split; [reflexivity|]. split; [reflexivity|]. split; [auto|]. split; [auto|discriminate].
Qed.

Variable x : list R.

Lemma load_short_spec ins : forall c (s : state),
  NoDup ins -> c + length (filter inputb ins) <= length x ->
  exists s', load_short Rnum n ins x c s = (s', Ok true) /\
    length (s_act s') = length (s_act s) /\ length (s_cnt s') = length (s_cnt s) /\
    (forall p, ~ In p ins -> actR s' p = actR s p /\ cntZ s' p = cntZ s p) /\
    (forall p, In p ins -> sensorb n p = false -> actR s' p = actR s p /\ cntZ s' p = cntZ s p) /\
    (forall p, In p ins -> p < length (s_act s) -> p < length (s_cnt s) -> inputb p = true ->
       actR s' p = nth (c + pos_of p (filter inputb ins)) x 0%R /\ cntZ s' p = (cntZ s p + 1)%Z) /\
    (forall p, In p ins -> p < length (s_act s) -> p < length (s_cnt s) -> biasb p = true ->
       actR s' p = 1%R /\ cntZ s' p = (cntZ s p + 1)%Z).
Proof.
  induction ins as [|p0 rest IH]; intros c s ND Hc; simpl.
  - exists s. split; [reflexivity|]. split; [reflexivity|]. split; [reflexivity|]. split; [auto|].
    split; [intros p []|]. split; intros p [].
  - inversion ND as [|? ? Hni ND']; subst. fold (inputb p0). simpl in Hc.
    assert (Hrole : sensorb n p0 = inputb p0 || biasb p0).
    { unfold sensorb, inputb, biasb. destruct (role_at n p0); reflexivity. }
    destruct (inputb p0) eqn:Ei.
    + simpl in Hc. destruct (nth_error x c) as [xv|] eqn:Ex; [|apply nth_error_None in Ex; lia].
      assert (Exv : nth c x 0%R = xv) by (apply nth_error_nth; exact Ex).
      destruct (sensor_load_spec s p0 xv) as (L1 & L2 & O & _ & V).
      destruct (IH (S c) (sensor_load Rnum n s p0 xv) ND') as (s' & E & L1' & L2' & O' & NS' & I' & B'); [lia|].
      exists s'. split; [exact E|]. split; [congruence|]. split; [congruence|]. split; [|split; [|split]].
      * intros p Hp. assert (Hne : p <> p0) by (intros ->; apply Hp; simpl; auto).
        destruct (O' p) as [A1 A2]; [tauto|]. destruct (O p Hne) as [B1 B2]. split; congruence.
      * intros p [<-|Hp] Hs; [rewrite Hrole in Hs; discriminate|].
        assert (Hne : p <> p0) by (intros ->; contradiction).
        destruct (NS' p Hp Hs) as [A1 A2]. destruct (O p Hne) as [B1 B2]. split; congruence.
      * intros p [<-|Hp] H1 H2 Hi.
        -- simpl pos_of. rewrite Nat.eqb_refl, Nat.add_0_r. destruct (O' p0 Hni) as [A1 A2].
           destruct V as [V1 V2]; [rewrite Hrole; reflexivity|exact H1|exact H2|]. split; congruence.
        -- assert (Hne : p0 <> p) by (intros ->; contradiction).
           simpl pos_of. apply Nat.eqb_neq in Hne. rewrite Hne.
           destruct (I' p Hp) as [A1 A2]; [congruence|congruence|exact Hi|].
           destruct (O p) as [B1 B2]; [apply Nat.eqb_neq in Hne; auto|].
           split; [rewrite A1; f_equal; lia|congruence].
      * intros p [<-|Hp] H1 H2 Hb; [unfold inputb, biasb in *; destruct (role_at n p0); discriminate|].
        assert (Hne : p <> p0) by (intros ->; contradiction).
        destruct (B' p Hp) as [A1 A2]; [congruence|congruence|exact Hb|].
        destruct (O p Hne) as [B1 B2]. split; congruence.
    + destruct (sensor_load_spec s p0 1%R) as (L1 & L2 & O & NS & V).
      destruct (IH c (sensor_load Rnum n s p0 (fone Rnum)) ND') as (s' & E & L1' & L2' & O' & NS' & I' & B'); [exact Hc|].
      change (fone Rnum) with 1%R in *.
      exists s'. split; [exact E|]. split; [congruence|]. split; [congruence|]. split; [|split; [|split]].
      * intros p Hp. assert (Hne : p <> p0) by (intros ->; apply Hp; simpl; auto).
        destruct (O' p) as [A1 A2]; [tauto|]. destruct (O p Hne) as [B1 B2]. split; congruence.
      * intros p [<-|Hp] Hs.
        -- destruct (O' p0 Hni) as [A1 A2]. rewrite A1, A2.
           now rewrite (NS Hs).
        -- assert (Hne : p <> p0) by (intros ->; contradiction).
           destruct (NS' p Hp Hs) as [A1 A2]. destruct (O p Hne) as [B1 B2]. split; congruence.
      * intros p [<-|Hp] H1 H2 Hi; [congruence|].
        assert (Hne : p <> p0) by (intros ->; contradiction).
        destruct (I' p Hp) as [A1 A2]; [congruence|congruence|exact Hi|].
        destruct (O p Hne) as [B1 B2]. split; congruence.
      * intros p [<-|Hp] H1 H2 Hb.
        -- destruct (O' p0 Hni) as [A1 A2].
           destruct V as [V1 V2]; [rewrite Hrole, Hb, orb_true_r; reflexivity|exact H1|exact H2|].
           split; congruence.
        -- assert (Hne : p <> p0) by (intros ->; contradiction).
           destruct (B' p Hp) as [A1 A2]; [congruence|congruence|exact Hb|].
           destruct (O p Hne) as [B1 B2]. split; congruence.
Qed.

(* without bias nodes among them the two branches coincide *)
Lemma load_full_short ins : forall c (s : state),
  (forall p, In p ins -> biasb p = false) ->
  load_full Rnum n ins x c s = load_short Rnum n ins x c s.
Proof.
  induction ins as [|p0 rest IH]; intros c s Hb; simpl; [reflexivity|].
  specialize (Hb p0 (or_introl eq_refl)) as Hb0. unfold biasb in Hb0.
  assert (Hrest : forall p, In p rest -> biasb p = false) by (intros p Hp; apply Hb; simpl; auto).
  destruct (role_at n p0) eqn:Er; simpl in *; try discriminate.
  - unfold sensor_load. rewrite Er. simpl. apply IH. exact Hrest.
  - destruct (nth_error x c); [apply IH; exact Hrest|reflexivity].
  - unfold sensor_load. rewrite Er. simpl. apply IH. exact Hrest.
Qed.

Lemma filter_role_count (l : list nat) :
  length (filter (sensorb n) l) = length (filter inputb l) + length (filter biasb l).
Proof.
  induction l as [|p rest IH]; simpl; [reflexivity|].
  unfold sensorb, inputb, biasb in *. destruct (role_at n p); simpl; lia.
Qed.

Lemma filter_filter_input (l : list nat) : filter inputb (filter (sensorb n) l) = filter inputb l.
Proof.
  induction l as [|p rest IH]; simpl; [reflexivity|].
  unfold sensorb, inputb in *. destruct (role_at n p) eqn:E; simpl; rewrite ?E; simpl; rewrite ?IH; reflexivity.
Qed.

Variable v : nat -> R.
Hypothesis inputs_in_order : inputs n = positions_with n is_sensor.
Hypothesis SV : sensor_vals n x v.
Hypothesis Hx : length x = length (positions_with n is_input).

Theorem std_load_base :
  exists s1, std_load Rnum n x (std_init Rnum n) = (s1, Ok true) /\ base n v s1.
Proof.
  destruct SV as [VB VI].
  assert (Hsens : forall p, In p (inputs n) <-> p < N /\ sensorb n p = true).
  { intros p. rewrite inputs_in_order. apply in_positions_with. }
  assert (ND : NoDup (inputs n)) by (rewrite inputs_in_order; apply positions_with_nodup).
  assert (Hfi : filter inputb (inputs n) = positions_with n is_input).
  { rewrite inputs_in_order. unfold positions_with. apply (filter_filter_input (seq 0 N)). }
  (* whichever branch is taken, it computes load_short *)
  assert (Hbranch : std_load Rnum n x (std_init Rnum n) = load_short Rnum n (inputs n) x 0 (std_init Rnum n)).
  { unfold std_load. destruct (length x =? length (inputs n)) eqn:E; [|reflexivity].
    apply Nat.eqb_eq in E. apply load_full_short. intros p Hp.
    pose proof (filter_role_count (seq 0 N)) as Hc.
    assert (E1 : length (inputs n) = length (filter (sensorb n) (seq 0 N))) by (rewrite inputs_in_order; reflexivity).
    assert (E2 : length x = length (filter inputb (seq 0 N))) by (rewrite Hx; reflexivity).
    assert (E0 : length (filter biasb (seq 0 N)) = 0) by lia.
    destruct (biasb p) eqn:Eb; [|reflexivity]. exfalso.
    assert (Hin : In p (filter biasb (seq 0 N))).
    { apply filter_In. split; [|exact Eb]. apply in_seq. apply Hsens in Hp. lia. }
    destruct (filter biasb (seq 0 N)); [destruct Hin|discriminate]. }
  rewrite Hbranch.
  destruct (load_short_spec (inputs n) 0 (std_init Rnum n) ND) as (s1 & E & L1 & L2 & O & NS & I & B).
  { rewrite Hfi. lia. }
  exists s1. split; [exact E|].
  pose proof (lens_load_short R Rnum n (inputs n) x 0 (std_init Rnum n)) as HL.
  rewrite E, lens_init in HL. simpl in HL. unfold lens in HL. injection HL as A1 A2 A3 A4 A5 A6.
  assert (Li1 : length (s_act (std_init Rnum n)) = N) by (unfold std_init; simpl; apply repeat_length).
  assert (Li2 : length (s_cnt (std_init Rnum n)) = N) by (unfold std_init; simpl; apply repeat_length).
  assert (Hc0 : forall p, cntZ (std_init Rnum n) p = 0%Z).
  { intros p. unfold cntZ, getZ, std_init. simpl. apply nth_repeat. }
  split; [|split].
  - unfold lensN. auto.
  - intros p. destruct (in_dec Nat.eq_dec p (inputs n)) as [Hin|Hnin].
    + pose proof (proj1 (Hsens p) Hin) as [Hp Hs].
      destruct (inputb p) eqn:Ei.
      * destruct (I p Hin) as [_ C]; [lia|lia|exact Ei|]. rewrite C, Hc0. lia.
      * assert (Hb : biasb p = true).
        { unfold sensorb, inputb, biasb in *. destruct (role_at n p); simpl in *; congruence. }
        destruct (B p Hin) as [_ C]; [lia|lia|exact Hb|]. rewrite C, Hc0. lia.
    + destruct (O p Hnin) as [_ C]. rewrite C, Hc0. lia.
  - intros p Hp Hs. assert (Hin : In p (inputs n)) by (apply Hsens; auto).
    unfold ao, active_out. fold (cntZ s1 p). change (getF Rnum (s_act s1) p) with (actR s1 p).
    destruct (inputb p) eqn:Ei.
    + destruct (I p Hin) as [A C]; [lia|lia|exact Ei|]. rewrite C, Hc0. simpl. rewrite A, Hfi. simpl.
      assert (Hpi : In p (positions_with n is_input)) by (apply in_positions_with; auto).
      destruct (pos_of_in p _ Hpi) as [Hlt Hnth].
      rewrite <- (VI _ Hlt), Hnth. reflexivity.
    + assert (Hb : biasb p = true).
      { unfold sensorb, inputb, biasb in *. destruct (role_at n p); simpl in *; congruence. }
      destruct (B p Hin) as [A C]; [lia|lia|exact Hb|]. rewrite C, Hc0. simpl. rewrite A.
      symmetry. apply VB; assumption.
Qed.

End Load.
