(* list-as-array lemmas shared by the solver proofs (C12, C13) *)
From NeatModel Require Import Res Net.
From Coq Require Import Arith Lia.
Open Scope nat_scope.

Lemma upd_length {A} (i : nat) (v : A) (l : list A) : length (upd i v l) = length l.
Proof.
  revert i; induction l as [|x t IH]; intros i; simpl; [reflexivity|].
  destruct i; simpl; [reflexivity|]. now rewrite IH.
Qed.

Lemma nth_upd {A} (i j : nat) (v d : A) (l : list A) :
  nth j (upd i v l) d = if (i =? j) && (i <? length l) then v else nth j l d.
Proof.
  revert i j; induction l as [|x t IH]; intros i j; simpl.
  - rewrite andb_false_r. reflexivity.
  - destruct i, j; simpl; try reflexivity.
    rewrite IH. reflexivity.
Qed.

Lemma nth_upd_same {A} (i : nat) (v d : A) (l : list A) :
  i < length l -> nth i (upd i v l) d = v.
Proof.
  intros H. rewrite nth_upd, Nat.eqb_refl. simpl.
  destruct (i <? length l) eqn:E; [reflexivity|]. apply Nat.ltb_ge in E. lia.
Qed.

Lemma nth_upd_other {A} (i j : nat) (v d : A) (l : list A) :
  i <> j -> nth j (upd i v l) d = nth j l d.
Proof.
  intros H. rewrite nth_upd. destruct (i =? j) eqn:E; [apply Nat.eqb_eq in E; lia|reflexivity].
Qed.

(* out of range: the default, also after an update *)
Lemma nth_upd_default {A} (i : nat) (v d : A) (l : list A) :
  length l <= i -> nth i (upd i v l) d = d.
Proof.
  intros H. rewrite nth_upd. destruct (i <? length l) eqn:E.
  - apply Nat.ltb_lt in E. lia.
  - rewrite andb_false_r. apply nth_overflow. exact H.
Qed.

(* two lists of the same length are updated alike *)
Lemma nth_upd_agree {A} (i j : nat) (v d : A) (l1 l2 : list A) :
  length l1 = length l2 -> nth j l1 d = nth j l2 d ->
  nth j (upd i v l1) d = nth j (upd i v l2) d.
Proof.
  intros HL H. rewrite !nth_upd, HL, H. reflexivity.
Qed.

Lemma upd_all {A} (v : A) (k : nat) (l : list A) :
  length l = k ->
  fold_left (fun l i => upd i v l) (seq 0 k) l = repeat v k.
Proof.
  intros HL.
  assert (G : forall m a l, a + m = k -> length l = k ->
            forall j d, nth j (fold_left (fun l i => upd i v l) (seq a m) l) d =
                        if (a <=? j) && (j <? a + m) then v else nth j l d).
  { clear l HL. induction m as [|m IH]; intros a l Ha HLl j d; simpl.
    - destruct (a <=? j) eqn:E1, (j <? a + 0) eqn:E2; simpl; try reflexivity.
      apply Nat.leb_le in E1. apply Nat.ltb_lt in E2. lia.
    - rewrite IH by (rewrite ?upd_length; lia).
      rewrite nth_upd, HLl.
      destruct (S a <=? j) eqn:E1, (j <? S a + m) eqn:E2, (a <=? j) eqn:E3, (j <? a + S m) eqn:E4,
               (a =? j) eqn:E5, (a <? k) eqn:E6; simpl; try reflexivity;
        repeat match goal with
               | H : (_ <=? _) = true |- _ => apply Nat.leb_le in H
               | H : (_ <=? _) = false |- _ => apply Nat.leb_gt in H
               | H : (_ <? _) = true |- _ => apply Nat.ltb_lt in H
               | H : (_ <? _) = false |- _ => apply Nat.ltb_ge in H
               | H : (_ =? _) = true |- _ => apply Nat.eqb_eq in H
               | H : (_ =? _) = false |- _ => apply Nat.eqb_neq in H
               end; lia. }
  apply nth_ext with (d := v) (d' := v).
  - rewrite repeat_length.
    assert (GL : forall m a l, length (fold_left (fun l i => upd i v l) (seq a m) l) = length l).
    { induction m as [|m IH]; intros a l0; simpl; [reflexivity|]. rewrite IH, upd_length. reflexivity. }
    rewrite GL. exact HL.
  - intros j Hj. rewrite (G k 0 l) by (simpl; auto).
    rewrite nth_repeat. simpl.
    destruct (j <? k) eqn:E; [reflexivity|].
    apply Nat.ltb_ge in E.
    assert (GL : forall m a l, length (fold_left (fun l i => upd i v l) (seq a m) l) = length l).
    { induction m as [|m IH]; intros a l0; simpl; [reflexivity|]. rewrite IH, upd_length. reflexivity. }
    rewrite GL in Hj. lia.
Qed.

Ltac bool_to_prop :=
  repeat match goal with
         | H : (_ <=? _) = true |- _ => apply Nat.leb_le in H
         | H : (_ <=? _) = false |- _ => apply Nat.leb_gt in H
         | H : (_ <? _) = true |- _ => apply Nat.ltb_lt in H
         | H : (_ <? _) = false |- _ => apply Nat.ltb_ge in H
         | H : (_ =? _) = true |- _ => apply Nat.eqb_eq in H
         | H : (_ =? _) = false |- _ => apply Nat.eqb_neq in H
         end.

(* agreement at one index survives the same update on two lists of equal length *)
Lemma nth_upd_agree_or {A} (i j : nat) (v d : A) (l1 l2 : list A) :
  length l1 = length l2 -> (j = i \/ nth j l1 d = nth j l2 d) ->
  nth j (upd i v l1) d = nth j (upd i v l2) d.
Proof.
  intros HL H. rewrite !nth_upd, HL.
  destruct ((i =? j) && (i <? length l2)) eqn:E; [reflexivity|].
  destruct H as [H|H]; [|exact H]. subst j. rewrite Nat.eqb_refl in E. simpl in E.
  apply Nat.ltb_ge in E. rewrite !nth_overflow; [reflexivity|lia|lia].
Qed.

Lemma fold_upd_length {A} (g : nat -> A) (is : list nat) : forall l,
  length (fold_left (fun l i => upd i (g i) l) is l) = length l.
Proof. induction is as [|i rest IH]; intros l; simpl; [reflexivity|]. rewrite IH. apply upd_length. Qed.

(* a fold of updates at positions >= a leaves the positions below a alone *)
Lemma fold_upd_below {A} (g : nat -> A) (d : A) (j : nat) (is : list nat) : forall l,
  (forall i, In i is -> i <> j) ->
  nth j (fold_left (fun l i => upd i (g i) l) is l) d = nth j l d.
Proof.
  induction is as [|i rest IH]; intros l H; simpl; [reflexivity|].
  rewrite IH by (intros k Hk; apply H; simpl; auto).
  apply nth_upd_other. apply H. simpl. auto.
Qed.

Lemma fold_upd_at {A} (g : nat -> A) (d : A) (j : nat) (is : list nat) : forall l,
  NoDup is -> In j is -> j < length l ->
  nth j (fold_left (fun l i => upd i (g i) l) is l) d = g j.
Proof.
  induction is as [|i rest IH]; intros l ND Hin Hj; simpl; [destruct Hin|].
  inversion ND as [|? ? Hni ND']; subst.
  destruct Hin as [->|Hin].
  - rewrite fold_upd_below by (intros k Hk E; subst k; contradiction).
    apply nth_upd_same. exact Hj.
  - apply IH; [exact ND'|exact Hin|]. rewrite upd_length. exact Hj.
Qed.

Lemma nth_repeat_lt {A} (a d : A) (m j : nat) : j < m -> nth j (repeat a m) d = a.
Proof.
  revert j; induction m as [|m IH]; intros j H; [lia|]. destruct j; simpl; [reflexivity|]. apply IH. lia.
Qed.
