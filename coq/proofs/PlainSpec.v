(* C15, plain genome codec: the reader inverts the writer (up to what the format does not carry),
   for every genome the writer accepts and the reader's own uniqueness checks admit. *)
From Coq Require Import String Lia.
From NeatModel Require Import Res F64 Genome Plain.
Open Scope string_scope.
Open Scope list_scope.

(* ---------- registry ---------- *)

(* every registered type maps to a name that maps back to it (math.NodeActivators forward / inverse maps) *)
Definition reg_ok (reg : registry) : Prop :=
  forall c s, reg_name reg c = Some s -> reg_code reg s = Some c.

Definition reg_okb (reg : registry) : bool :=
  forallb (fun e => match reg_name reg (fst e) with
                    | Some s => match reg_code reg s with Some c => Z.eqb c (fst e) | None => false end
                    | None => false
                    end) reg.

Lemma reg_name_in : forall reg c s, reg_name reg c = Some s -> In (c, s) reg.
Proof.
  induction reg as [|[c0 s0] reg IH]; simpl; intros c s H; [discriminate|].
  destruct (Z.eqb c0 c) eqn:E.
  - apply Z.eqb_eq in E. injection H as <-. subst. now left.
  - right. now apply IH.
Qed.

Lemma reg_okb_sound : forall reg, reg_okb reg = true -> reg_ok reg.
Proof.
  intros reg H c s Hn. unfold reg_okb in H. rewrite forallb_forall in H.
  specialize (H (c, s) (reg_name_in _ _ _ Hn)). simpl in H. rewrite Hn in H.
  destruct (reg_code reg s) as [c'|]; [|discriminate]. apply Z.eqb_eq in H. now subst.
Qed.

(* ---------- what the writer accepts and the reader's checks admit ---------- *)

Definition nonzero (z : Z) : bool := negb (Z.eqb z 0).

Definition node_ok (reg : registry) (n : node) : Prop :=
  fits_bits 32 (n_id n) = true /\ fits_bits 32 (oz_id (n_trait n)) = true /\
  0 <= n_type n < 128 /\ (exists s, reg_name reg (n_act n) = Some s).

Record plain_ok (reg : registry) (g : genome) : Prop := {
  (* the format carries exactly neat.NumTraitParams parameters per trait; more are cut off, fewer are an error *)
  po_params : Forall (fun t => (NUM_TRAIT_PARAMS <= length (t_params t))%nat) (traits g);
  (* the reader rejects a repeated non-zero trait id and a repeated node id *)
  po_traits : NoDup (filter nonzero (map t_id (traits g)));
  po_node_ids : NoDup (map n_id (nodes g));
  (* strconv.ParseInt(.., 32) / (.., 8) in the node reader; a registered activation type *)
  po_nodes : Forall (node_ok reg) (nodes g)
}.

(* ---------- small facts ---------- *)

Lemma take_floats_map : forall n ps, (n <= length ps)%nat -> take_floats n (map TFloat ps) = Ok (firstn n ps).
Proof.
  induction n as [|n IH]; intros ps H; simpl; [reflexivity|].
  destruct ps as [|p ps]; simpl in *; [lia|]. rewrite IH by lia. reflexivity.
Qed.

Lemma trait_with_id_none : forall id ts, trait_with_id id ts = None <-> ~ In id (map t_id ts).
Proof.
  induction ts as [|t ts IH]; simpl; [tauto|].
  destruct (Z.eqb (t_id t) id) eqn:E.
  - apply Z.eqb_eq in E. split; [discriminate|]. intros H. exfalso. apply H. now left.
  - apply Z.eqb_neq in E. rewrite IH. tauto.
Qed.

Lemma trait_with_id_id : forall id ts t, trait_with_id id ts = Some t -> t_id t = id.
Proof.
  induction ts as [|t0 ts IH]; simpl; intros t H; [discriminate|].
  destruct (Z.eqb (t_id t0) id) eqn:E; [|now apply IH].
  injection H as <-. now apply Z.eqb_eq.
Qed.

Lemma trait_ref_none : forall id ts, trait_ref id ts = None <-> id = 0 \/ ~ In id (map t_id ts).
Proof.
  intros id ts. unfold trait_ref. destruct (Z.eqb id 0) eqn:E.
  - apply Z.eqb_eq in E. tauto.
  - apply Z.eqb_neq in E. destruct (trait_with_id id ts) eqn:T.
    + split; [discriminate|]. intros [H|H]; [contradiction|]. apply trait_with_id_none in H. congruence.
    + apply trait_with_id_none in T. tauto.
Qed.

Lemma trait_ref_some : forall id ts, id <> 0 -> In id (map t_id ts) -> trait_ref id ts = Some id.
Proof.
  intros id ts Hz Hin. unfold trait_ref. destruct (Z.eqb id 0) eqn:E; [apply Z.eqb_eq in E; contradiction|].
  destruct (trait_with_id id ts) eqn:T.
  - apply trait_with_id_id in T. now subst.
  - apply trait_with_id_none in T. contradiction.
Qed.

(* a reference only looks at ids *)
Lemma trait_with_id_ids : forall id ts ts', map t_id ts = map t_id ts' ->
  option_map t_id (trait_with_id id ts) = option_map t_id (trait_with_id id ts').
Proof.
  induction ts as [|t ts IH]; destruct ts' as [|t' ts']; simpl; intros H; try discriminate; [reflexivity|].
  injection H as H1 H2. rewrite H1. destruct (Z.eqb (t_id t') id); [simpl; now rewrite H1|]. now apply IH.
Qed.

Lemma trait_ref_ids : forall id ts ts', map t_id ts = map t_id ts' -> trait_ref id ts = trait_ref id ts'.
Proof.
  intros id ts ts' H. unfold trait_ref. destruct (Z.eqb id 0); [reflexivity|].
  pose proof (trait_with_id_ids id ts ts' H) as E.
  destruct (trait_with_id id ts), (trait_with_id id ts'); simpl in E; congruence.
Qed.

Lemma norm_trait_ids : forall ts, map t_id (map norm_trait ts) = map t_id ts.
Proof. induction ts as [|t ts IH]; simpl; [reflexivity|]. now rewrite IH. Qed.

Lemma node_with_id_none : forall id ns, node_with_id id ns = None <-> ~ In id (map n_id ns).
Proof.
  induction ns as [|n ns IH]; simpl; [tauto|].
  destruct (Z.eqb (n_id n) id) eqn:E.
  - apply Z.eqb_eq in E. split; [discriminate|]. intros H. exfalso. apply H. now left.
  - apply Z.eqb_neq in E. rewrite IH. tauto.
Qed.

Lemma have_id_false : forall id ns, have_id id ns = false <-> ~ In id (map n_id ns).
Proof.
  intros id ns. unfold have_id. destruct (node_with_id id ns) eqn:E.
  - split; [discriminate|]. intros H. apply node_with_id_none in H. congruence.
  - apply node_with_id_none in E. tauto.
Qed.

Lemma have_id_true : forall id ns, have_id id ns = true <-> In id (map n_id ns).
Proof.
  intros id ns. destruct (have_id id ns) eqn:E.
  - split; [|reflexivity]. intros _. destruct (in_dec Z.eq_dec id (map n_id ns)) as [H|H]; [exact H|].
    apply have_id_false in H. congruence.
  - apply have_id_false in E. split; [discriminate|contradiction].
Qed.

Lemma have_id_ids : forall id ns ns', map n_id ns = map n_id ns' -> have_id id ns = have_id id ns'.
Proof.
  intros id ns ns' H. destruct (have_id id ns') eqn:E.
  - apply have_id_true. rewrite H. now apply have_id_true.
  - apply have_id_false. rewrite H. now apply have_id_false.
Qed.

(* the reader's loop without break records an id exactly when some node has it *)
Lemma last_node_ref_acc : forall id ns acc,
  fold_left (fun acc n => if Z.eqb (n_id n) id then Some (n_id n) else acc) ns acc =
  if have_id id ns then Some id else acc.
Proof.
  induction ns as [|n ns IH]; intros acc; simpl; [reflexivity|].
  rewrite IH. unfold have_id. simpl. destruct (Z.eqb (n_id n) id) eqn:E.
  - apply Z.eqb_eq in E. rewrite E. now destruct (node_with_id id ns).
  - reflexivity.
Qed.

Lemma last_node_ref_spec : forall id ns, last_node_ref id ns = node_ref id ns.
Proof. intros. unfold last_node_ref, node_ref. apply last_node_ref_acc. Qed.

Lemma norm_node_ids : forall ts ns, map n_id (map (norm_node ts) ns) = map n_id ns.
Proof. induction ns as [|n ns IH]; simpl; [reflexivity|]. now rewrite IH. Qed.

Lemma node_ref_ids : forall id ns ns', map n_id ns = map n_id ns' -> node_ref id ns = node_ref id ns'.
Proof. intros id ns ns' H. unfold node_ref. now rewrite (have_id_ids id ns ns' H). Qed.

(* ---------- the three line families ---------- *)

Lemma read_trait_line : forall reg st t,
  (NUM_TRAIT_PARAMS <= length (t_params t))%nat ->
  trait_ref (t_id t) (rg_traits st) = None ->
  read_line reg st (trait_line t) = Ok (rg_with_traits st (rg_traits st ++ [norm_trait t])).
Proof.
  intros reg st t Hlen Hfresh. unfold trait_line.
  destruct (t_params t) as [|p ps] eqn:Ep; [simpl in Hlen; unfold NUM_TRAIT_PARAMS in Hlen; lia|].
  cbn [read_line String.eqb Ascii.eqb Bool.eqb]. cbn [read_trait tok_int bind].
  rewrite take_floats_map by exact Hlen.
  cbn [bind t_id]. rewrite Hfresh. unfold norm_trait. now rewrite Ep.
Qed.

Lemma read_trait_lines : forall reg ts st rest,
  Forall (fun t => (NUM_TRAIT_PARAMS <= length (t_params t))%nat) ts ->
  NoDup (filter nonzero (map t_id (rg_traits st ++ ts))) ->
  read_lines reg st (map trait_line ts ++ rest) =
  read_lines reg (rg_with_traits st (rg_traits st ++ map norm_trait ts)) rest.
Proof.
  induction ts as [|t ts IH]; intros st rest Hlen Hnd.
  - simpl. rewrite app_nil_r. now destruct st.
  - inversion Hlen as [|? ? H1 H2]; subst. cbn [map app read_lines].
    rewrite read_trait_line; [cbn [bind]| exact H1 |].
    + rewrite IH; [|exact H2|].
      * cbn [rg_with_traits rg_traits rg_id rg_nodes rg_genes]. rewrite <- app_assoc. reflexivity.
      * cbn [rg_with_traits rg_traits].
        assert (E : map t_id ((rg_traits st ++ [norm_trait t]) ++ ts) = map t_id (rg_traits st ++ t :: ts)).
        { rewrite <- app_assoc, !map_app. reflexivity. }
        rewrite E. exact Hnd.
    + apply trait_ref_none. destruct (Z.eq_dec (t_id t) 0) as [Hz|Hz]; [now left|right].
      intros Hin. rewrite map_app, filter_app in Hnd. simpl in Hnd.
      assert (Hnz : nonzero (t_id t) = true) by (unfold nonzero; apply negb_true_iff; now apply Z.eqb_neq).
      rewrite Hnz in Hnd. apply NoDup_remove_2 in Hnd. apply Hnd. apply in_or_app. left.
      apply filter_In. split; assumption.
Qed.

Lemma fits_byte : forall z, 0 <= z < 128 -> fits_bits 8 z = true /\ byte_of z = z.
Proof.
  intros z H. split.
  - unfold fits_bits. apply andb_true_iff. split; [apply Z.leb_le|apply Z.ltb_lt]; simpl; lia.
  - unfold byte_of. apply Z.mod_small. lia.
Qed.

Lemma read_node_line : forall reg st n l,
  reg_ok reg -> node_ok reg n -> node_line reg n = Ok l ->
  have_id (n_id n) (rg_nodes st) = false ->
  read_line reg st l = Ok (rg_with_nodes st (rg_nodes st ++ [{| n_id := n_id n; n_type := n_type n; n_act := n_act n;
                                                               n_trait := trait_ref (oz_id (n_trait n)) (rg_traits st) |}])).
Proof.
  intros reg st n l Hreg (Hid & Htr & Hty & s & Hs) Hl Hfresh. unfold node_line in Hl. rewrite Hs in Hl.
  injection Hl as <-. destruct (fits_byte _ Hty) as [Hb1 Hb2].
  cbn [read_line String.eqb Ascii.eqb Bool.eqb]. cbn [read_node parse_int_bits tok_int].
  rewrite Hid, Htr, Hb1, (Hreg _ _ Hs), Hb2. cbn [bind n_id]. rewrite Hfresh. reflexivity.
Qed.

Lemma map_res_cons_inv : forall A B (f : A -> res B) a l r,
  map_res f (a :: l) = Ok r -> exists b bs, f a = Ok b /\ map_res f l = Ok bs /\ r = b :: bs.
Proof.
  intros A B f a l r H. simpl in H. destruct (f a) as [b| | | | |]; simpl in H; try discriminate.
  destruct (map_res f l) as [bs| | | | |]; simpl in H; try discriminate.
  injection H as <-. eauto.
Qed.

Lemma read_node_lines : forall reg ns st nls rest,
  reg_ok reg -> Forall (node_ok reg) ns -> map_res (node_line reg) ns = Ok nls ->
  NoDup (map n_id (rg_nodes st ++ ns)) ->
  read_lines reg st (nls ++ rest) =
  read_lines reg (rg_with_nodes st (rg_nodes st ++ map (norm_node (rg_traits st)) ns)) rest.
Proof.
  induction ns as [|n ns IH]; intros st nls rest Hreg Hok Hw Hnd.
  - simpl in Hw. injection Hw as <-. simpl. rewrite app_nil_r. now destruct st.
  - apply map_res_cons_inv in Hw. destruct Hw as (l & ls & Hl & Hls & ->).
    inversion Hok as [|? ? H1 H2]; subst. cbn [app read_lines].
    rewrite (read_node_line reg st n l Hreg H1 Hl); [cbn [bind]|].
    + rewrite (IH _ ls rest Hreg H2 Hls).
      * cbn [rg_with_nodes rg_traits rg_nodes rg_id rg_genes map]. rewrite <- app_assoc. reflexivity.
      * cbn [rg_with_nodes rg_nodes]. rewrite <- app_assoc. rewrite map_app in *. exact Hnd.
    + apply have_id_false. rewrite map_app in Hnd. simpl in Hnd. apply NoDup_remove_2 in Hnd.
      intros Hin. apply Hnd. apply in_or_app. now left.
Qed.

Lemma read_gene_line : forall reg st x,
  read_line reg st (gene_line x) =
  Ok (rg_with_genes st (rg_genes st ++ [{| rg_in := node_ref (g_in x) (rg_nodes st); rg_out := node_ref (g_out x) (rg_nodes st);
                                           rg_rec := g_rec x; rg_w := g_w x; rg_trait := trait_ref (oz_id (g_trait x)) (rg_traits st);
                                           rg_innov := g_innov x; rg_mut := g_mut x; rg_en := g_en x |}])).
Proof.
  intros reg st x. unfold gene_line.
  cbn [read_line String.eqb Ascii.eqb Bool.eqb]. cbn [read_gene tok_int tok_float tok_bool bind].
  now rewrite !last_node_ref_spec.
Qed.

Lemma read_gene_lines : forall reg xs st rest,
  read_lines reg st (map gene_line xs ++ rest) =
  read_lines reg (rg_with_genes st (rg_genes st ++ map (fun x =>
     {| rg_in := node_ref (g_in x) (rg_nodes st); rg_out := node_ref (g_out x) (rg_nodes st);
        rg_rec := g_rec x; rg_w := g_w x; rg_trait := trait_ref (oz_id (g_trait x)) (rg_traits st);
        rg_innov := g_innov x; rg_mut := g_mut x; rg_en := g_en x |}) xs)) rest.
Proof.
  induction xs as [|x xs IH]; intros st rest.
  - simpl. rewrite app_nil_r. now destruct st.
  - cbn [map app read_lines]. rewrite read_gene_line. cbn [bind]. rewrite IH.
    cbn [rg_with_genes rg_genes rg_nodes rg_traits rg_id map]. rewrite <- app_assoc. reflexivity.
Qed.

(* ---------- the writer succeeds exactly on registered activation types ---------- *)

Lemma write_nodes_ok : forall reg ns, Forall (node_ok reg) ns -> exists nls, map_res (node_line reg) ns = Ok nls.
Proof.
  induction ns as [|n ns IH]; intros H; [now exists []|].
  inversion H as [|? ? (_ & _ & _ & s & Hs) H2]; subst. destruct (IH H2) as [nls E].
  simpl. unfold node_line at 1. rewrite Hs. cbn [bind]. rewrite E. cbn [bind]. eauto.
Qed.

Lemma write_unregistered_fails : forall reg g n,
  In n (nodes g) -> reg_name reg (n_act n) = None -> exists c, write_genome reg g = GoErr c.
Proof.
  intros reg g n Hin Hn. unfold write_genome.
  assert (H : exists c, map_res (node_line reg) (nodes g) = GoErr c).
  { induction (nodes g) as [|m ms IH]; [contradiction|]. simpl. destruct Hin as [->|Hin].
    - unfold node_line at 1. rewrite Hn. simpl. eauto.
    - unfold node_line at 1. destruct (reg_name reg (n_act m)); simpl; eauto.
      destruct (IH Hin) as [c ->]. simpl. eauto. }
  destruct H as [c ->]. simpl. eauto.
Qed.

(* ---------- plain round trip ---------- *)

Theorem plain_roundtrip : forall reg g,
  reg_ok reg -> plain_ok reg g ->
  exists ls, write_genome reg g = Ok ls /\ read_genome reg ls = Ok (norm_genome g).
Proof.
  intros reg g Hreg [Hpar Htr Hid Hnodes].
  destruct (write_nodes_ok reg (nodes g) Hnodes) as [nls Hnls].
  unfold write_genome. rewrite Hnls. cbn [bind]. eexists. split; [reflexivity|].
  unfold read_genome, start_line. cbn [read_lines].
  cbn [read_line String.eqb Ascii.eqb Bool.eqb bind].
  rewrite read_trait_lines; [|exact Hpar|exact Htr].
  rewrite (read_node_lines reg (nodes g) _ nls _ Hreg Hnodes Hnls); [|exact Hid].
  rewrite read_gene_lines.
  unfold end_line. cbn [read_lines]. cbn [read_line String.eqb Ascii.eqb Bool.eqb tok_int bind].
  unfold rg_with_id, rg_with_genes, rg_with_nodes, rg_with_traits, empty_rgenome.
  cbn [rg_id rg_traits rg_nodes rg_genes app].
  unfold norm_genome. f_equal. f_equal.
  - apply map_ext. intros n. unfold norm_node. f_equal. apply trait_ref_ids. apply norm_trait_ids.
  - apply map_ext. intros x. unfold norm_gene. f_equal.
    + apply node_ref_ids. apply norm_node_ids.
    + apply node_ref_ids. apply norm_node_ids.
    + apply trait_ref_ids. apply norm_trait_ids.
Qed.

(* ReadGenome(r, id): the same genome under the id given by the caller *)
Corollary plain_roundtrip_id : forall reg g id,
  reg_ok reg -> plain_ok reg g ->
  exists ls, write_genome reg g = Ok ls /\ read_genome_id reg ls id = Ok (rg_with_id (norm_genome g) id).
Proof.
  intros reg g id Hreg Hok. destruct (plain_roundtrip reg g Hreg Hok) as (ls & Hw & Hr).
  exists ls. split; [exact Hw|]. unfold read_genome_id. now rewrite Hr.
Qed.

(* ---------- when nothing is normalised away ---------- *)

Definition ref_closed (ts : list trait) (o : option Z) : Prop :=
  match o with None => True | Some t => t <> 0 /\ In t (map t_id ts) end.

Record closed (g : genome) : Prop := {
  cl_params : Forall (fun t => length (t_params t) = NUM_TRAIT_PARAMS) (traits g);
  cl_node_traits : Forall (fun n => ref_closed (traits g) (n_trait n)) (nodes g);
  cl_gene_traits : Forall (fun x => ref_closed (traits g) (g_trait x)) (genes g);
  cl_endpoints : Forall (fun x => In (g_in x) (map n_id (nodes g)) /\ In (g_out x) (map n_id (nodes g))) (genes g)
}.

Lemma ref_closed_norm : forall ts o, ref_closed ts o -> trait_ref (oz_id o) ts = o.
Proof.
  intros ts [t|] H; simpl in *.
  - destruct H as [Hz Hin]. now apply trait_ref_some.
  - reflexivity.
Qed.

Lemma map_id_on : forall A (f : A -> A) l, Forall (fun a => f a = a) l -> map f l = l.
Proof. induction l as [|a l IH]; intros H; [reflexivity|]. inversion H; subst. simpl. now rewrite IH; [f_equal|]. Qed.

Lemma map_opt_map : forall A B C (f : A -> B) (h : B -> option C) (k : A -> C) l,
  Forall (fun a => h (f a) = Some (k a)) l -> map_opt h (map f l) = Some (map k l).
Proof.
  induction l as [|a l IH]; intros H; [reflexivity|]. inversion H; subst. simpl.
  rewrite H2, IH by assumption. reflexivity.
Qed.

Lemma resolve_norm : forall g, closed g -> resolve (norm_genome g) = Some (strip_modules g).
Proof.
  intros g [Hp Hn Hg He]. unfold resolve, norm_genome. cbn [rg_genes rg_id rg_traits rg_nodes].
  rewrite (map_opt_map _ _ _ (norm_gene (traits g) (nodes g)) resolve_gene (fun x => x)).
  - rewrite map_id. unfold strip_modules. f_equal. f_equal.
    + apply map_id_on. eapply Forall_impl; [|exact Hp]. intros t Ht. unfold norm_trait.
      simpl in Ht. rewrite <- Ht, firstn_all. now destruct t.
    + apply map_id_on. rewrite Forall_forall in *. intros n Hin. unfold norm_node.
      rewrite (ref_closed_norm _ _ (Hn n Hin)). now destruct n.
  - rewrite Forall_forall in *. intros x Hin. unfold resolve_gene, norm_gene. cbn.
    destruct (He x Hin) as [Hi Ho]. unfold node_ref.
    apply have_id_true in Hi. apply have_id_true in Ho. rewrite Hi, Ho.
    rewrite (ref_closed_norm _ _ (Hg x Hin)). now destruct x.
Qed.

(* the headline: every genome whose traits have the eight parameters the format carries, with unique
   ids and resolvable references, reads back as itself minus its modules: exact weights, flags,
   activation types, trait parameters, ids *)
Theorem plain_roundtrip_exact : forall reg g,
  reg_ok reg -> plain_ok reg g -> closed g ->
  exists ls r, write_genome reg g = Ok ls /\ read_genome reg ls = Ok r /\ resolve r = Some (strip_modules g).
Proof.
  intros reg g Hreg Hok Hcl. destruct (plain_roundtrip reg g Hreg Hok) as (ls & Hw & Hr).
  exists ls, (norm_genome g). repeat split; try assumption. now apply resolve_norm.
Qed.

(* ---------- organism ---------- *)

Theorem organism_roundtrip : forall reg o,
  reg_ok reg -> plain_ok reg (o_genome o) ->
  exists ls, write_organism reg o = Ok ls /\ read_organism reg ls = Ok (norm_organism o).
Proof.
  intros reg o Hreg Hok. destruct (plain_roundtrip_id reg (o_genome o) (gid (o_genome o)) Hreg Hok) as (ls & Hw & Hr).
  unfold write_organism. rewrite Hw. cbn [bind]. eexists. split; [reflexivity|].
  unfold read_organism, org_header. cbn [tok_float tok_int tok_bool]. rewrite Hr. cbn [bind].
  reflexivity.
Qed.

(* ---------- the readers never leave the Ok / GoErr / GoPanic(nil buffer) range ---------- *)

Definition ok_or_err {A} (r : res A) : Prop := match r with Ok _ | GoErr _ => True | _ => False end.

Lemma bind_ok_or_err : forall A B (r : res A) (f : A -> res B),
  ok_or_err r -> (forall a, ok_or_err (f a)) -> ok_or_err (bind r f).
Proof. intros A B [a| | | | |] f H Hf; simpl in *; try contradiction; auto. Qed.

Lemma take_floats_total : forall n l, ok_or_err (take_floats n l).
Proof.
  induction n as [|n IH]; intros l; simpl; [exact I|].
  destruct l as [|t l]; [exact I|]. destruct (tok_float t); [|exact I].
  apply bind_ok_or_err; [apply IH|]. intros; exact I.
Qed.

Lemma read_trait_total : forall l, ok_or_err (read_trait l).
Proof.
  intros [|t l]; [exact I|]. unfold read_trait. destruct (tok_int t); [|exact I].
  apply bind_ok_or_err; [apply take_floats_total|]. intros; exact I.
Qed.

Lemma read_node_total : forall reg ts l, ok_or_err (read_node reg ts l).
Proof.
  intros reg ts l. unfold read_node.
  destruct l as [|p0 [|p1 [|p2 [|p3 more]]]]; try exact I.
  destruct (parse_int_bits 32 p0); [|exact I]. destruct (parse_int_bits 32 p1); [|exact I].
  destruct (parse_int_bits 8 p3); [|exact I].
  destruct more as [|m [|m' more]]; try exact I.
  - destruct m as [z2|f2|b2|s]; try exact I. destruct (reg_code reg s); exact I.
  - destruct m; exact I.
Qed.

Lemma read_gene_total : forall ts ns l, ok_or_err (read_gene ts ns l).
Proof.
  intros ts ns l. unfold read_gene.
  destruct l as [|t1 [|t2 [|t3 [|t4 [|t5 [|t6 [|t7 [|t8 l]]]]]]]]; try exact I.
  destruct (tok_int t1), (tok_int t2), (tok_int t3), (tok_float t4), (tok_bool t5), (tok_int t6), (tok_float t7), (tok_bool t8); exact I.
Qed.

Lemma read_line_total : forall reg st l, ok_or_err (read_line reg st l).
Proof.
  intros reg st l. unfold read_line. destruct l as [|t [|t' rest]]; [exact I | destruct t; exact I |].
  destruct t as [z|f|b|s]; try exact I.
  destruct (String.eqb s "trait").
  { apply bind_ok_or_err; [apply read_trait_total|]. intros a. destruct (trait_ref (t_id a) (rg_traits st)); exact I. }
  destruct (String.eqb s "node").
  { apply bind_ok_or_err; [apply read_node_total|]. intros a. destruct (have_id (n_id a) (rg_nodes st)); exact I. }
  destruct (String.eqb s "gene").
  { apply bind_ok_or_err; [apply read_gene_total|]. intros; exact I. }
  destruct (String.eqb s "genomeend"); [|exact I].
  destruct (tok_int t'); exact I.
Qed.

Theorem read_genome_total : forall reg ls, ok_or_err (read_genome reg ls).
Proof.
  intros reg ls. unfold read_genome. generalize empty_rgenome.
  induction ls as [|l ls IH]; intros st; simpl; [exact I|].
  apply bind_ok_or_err; [apply read_line_total|]. intros; apply IH.
Qed.

(* a line without a second field makes the whole read fail *)
Theorem read_genome_short_line_fails : forall reg ls l,
  In l ls -> (length l < 2)%nat -> exists c, read_genome reg ls = GoErr c.
Proof.
  intros reg ls l Hin Hlen. unfold read_genome. generalize empty_rgenome.
  induction ls as [|l0 ls IH]; intros st; [contradiction|]. simpl.
  destruct Hin as [->|Hin].
  - destruct l as [|t [|t' rest]]; simpl in Hlen; try lia.
    + simpl. eauto.
    + simpl. destruct t; simpl; eauto.
  - pose proof (read_line_total reg st l0) as T. destruct (read_line reg st l0); simpl in *; try contradiction; eauto.
Qed.

(* an unknown tag is skipped *)
Lemma read_line_unknown_tag : forall reg st tag t rest,
  String.eqb tag "trait" = false -> String.eqb tag "node" = false -> String.eqb tag "gene" = false ->
  String.eqb tag "genomeend" = false ->
  read_line reg st (TWord tag :: t :: rest) = Ok st.
Proof. intros reg st tag t rest H1 H2 H3 H4. simpl. now rewrite H1, H2, H3, H4. Qed.

(* a gene line with fewer than eight fields is an error *)
Lemma read_gene_short_fails : forall reg st rest,
  (length rest < 8)%nat -> rest <> [] -> exists c, read_line reg st (TWord "gene" :: rest) = GoErr c.
Proof.
  intros reg st rest Hlen Hne. destruct rest as [|t1 rest]; [contradiction|].
  cbn [read_line String.eqb Ascii.eqb Bool.eqb]. unfold read_gene.
  destruct rest as [|t2 [|t3 [|t4 [|t5 [|t6 [|t7 [|t8 l]]]]]]]; simpl in *; try lia; eauto.
Qed.

(* ---------- the hypotheses in range form (used by props/C15.v) ---------- *)

Lemma fits_bits_spec : forall b z, fits_bits b z = true <-> - 2 ^ (b - 1) <= z < 2 ^ (b - 1).
Proof.
  intros b z. unfold fits_bits. rewrite andb_true_iff, Z.leb_le, Z.ltb_lt. tauto.
Qed.

Lemma plain_ok_of_ranges : forall reg g,
  Forall (fun t => (8 <= length (t_params t))%nat) (traits g) ->
  NoDup (filter (fun z => negb (Z.eqb z 0)) (map t_id (traits g))) ->
  NoDup (map n_id (nodes g)) ->
  Forall (fun n => - 2 ^ 31 <= n_id n < 2 ^ 31 /\ - 2 ^ 31 <= oz_id (n_trait n) < 2 ^ 31 /\
                   0 <= n_type n < 128 /\ exists s, reg_name reg (n_act n) = Some s) (nodes g) ->
  plain_ok reg g.
Proof.
  intros reg g H1 H2 H3 H4. constructor; try assumption.
  eapply Forall_impl; [|exact H4]. intros n (A & B & C & D). repeat split; try assumption; try lia.
  - apply fits_bits_spec. simpl. lia.
  - apply fits_bits_spec. simpl. lia.
Qed.
