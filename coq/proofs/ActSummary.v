(* C18: the float-level claims for all twenty scalar activations gathered in one statement, indexed
   by type code; the full statement of the property; and its refutation at the inverse-abs sigmoid. *)
From Coq Require Import ZArith Reals Lra Lia Bool List.
From Flocq Require Import Core BinarySingleNaN.
From Coq Require Import Floats.
From NeatModel Require Import Res F64 ActRegistry Act ActRegistrySpec ActReal ActFloatBase ActFloat ActLibm.
Open Scope R_scope.

(* what is assumed of Go's math library (see ActLibm.v) *)
Definition libm_ok (L : libm_fn -> float -> float -> float) : Prop :=
  (forall a, is_nan a = false -> (0 <=? L LExp a 0)%float = true) /\
  (forall a b, (a <=? b)%float = true -> (L LExp a 0 <=? L LExp b 0)%float = true) /\
  (forall a, (a <=? 0)%float = true -> (L LExp a 0 <=? 1)%float = true) /\
  (forall a, is_nan a = false -> (-1 <=? L LTanh a 0)%float = true /\ (L LTanh a 0 <=? 1)%float = true) /\
  (forall a b, (a <=? b)%float = true -> (L LTanh a 0 <=? L LTanh b 0)%float = true) /\
  (forall a, is_finite a = true -> (-1 <=? L LSin a 0)%float = true /\ (L LSin a 0 <=? 1)%float = true) /\
  (forall a, is_nan a = false -> (0 <=? L LPow a 2)%float = true).

(* finite and inside the documented range *)
Definition range_clause (L : libm_fn -> float -> float -> float) (c : Z) (f : float -> comp) : Prop :=
  forall x, in_domain x ->
    fin (run L (f x)) /\ above (doc_lo c) (FR (run L (f x))) /\ below (doc_hi c) (FR (run L (f x))).

(* monotonically non-decreasing in the numeric order on floats *)
Definition monotone_clause (L : libm_fn -> float -> float -> float) (f : float -> comp) : Prop :=
  forall x y, in_domain x -> in_domain y -> (x <=? y)%float = true -> (run L (f x) <=? run L (f y))%float = true.

(* the property, float level: every registered scalar activation, every input with |x| <= 1e300 *)
Definition scalar_full : Prop :=
  forall L, libm_ok L -> forall c f, scalar_of_code c = Some f ->
    range_clause L c f /\ (doc_monotone c = true -> monotone_clause L f).

Lemma scalar_of_code_cases : forall c f, scalar_of_code c = Some f ->
  (c = 1 \/ c = 2 \/ c = 3 \/ c = 4 \/ c = 5 \/ c = 6 \/ c = 7 \/ c = 8 \/ c = 9 \/ c = 10 \/
   c = 11 \/ c = 12 \/ c = 13 \/ c = 14 \/ c = 15 \/ c = 16 \/ c = 17 \/ c = 18 \/ c = 19 \/ c = 20)%Z.
Proof.
  intros c f H.
  destruct c as [|p|p]; try discriminate.
  do 5 (destruct p as [p|p|]; try discriminate; try lia).
Qed.

Ltac rng := cbv beta iota delta [above below doc_lo doc_hi].

Theorem scalar_partial : forall L, libm_ok L -> forall c f, scalar_of_code c = Some f ->
    range_clause L c f /\ (doc_monotone c = true -> c <> 7%Z -> monotone_clause L f).
Proof.
  intros L H c f Hf. pose proof (scalar_of_code_cases c f Hf) as C.
  destruct H as (H1 & H2 & H3 & H4 & H5 & H6 & H7).
  unfold range_clause, monotone_clause.
  destruct C as [C|C]; [subst c; injection Hf as <-|].
  { destruct (plainSigmoid_libm L H1 H2) as [A B]. split; [|intros _ _; exact B].
    intros x Hx. destruct (A x Hx) as [F R]. rng. split; [exact F|]. lra. }
  destruct C as [C|C]; [subst c; injection Hf as <-|].
  { destruct (reducedSigmoid_libm L H1 H2) as [A B]. split; [|intros _ _; exact B].
    intros x Hx. destruct (A x Hx) as [F R]. rng. split; [exact F|lra]. }
  destruct C as [C|C]; [subst c; injection Hf as <-|].
  { destruct (bipolarSigmoid_libm L H1 H2) as [A B]. split; [|intros _ _; exact B].
    intros x Hx. destruct (A x Hx) as [F R]. rng. split; [exact F|lra]. }
  destruct C as [C|C]; [subst c; injection Hf as <-|].
  { destruct (steepenedSigmoid_libm L H1 H2) as [A B]. split; [|intros _ _; exact B].
    intros x Hx. destruct (A x Hx) as [F R]. rng. split; [exact F|lra]. }
  destruct C as [C|C]; [subst c; injection Hf as <-|].
  { split.
    - intros x Hx. destruct (approximationSigmoid_float L x (in_domain_fin x Hx)) as (F & _ & R).
      rng. split; [exact F|lra].
    - intros _ _ x y Hx Hy. apply approximationSigmoid_float_mono; now apply in_domain_fin. }
  destruct C as [C|C]; [subst c; injection Hf as <-|].
  { split.
    - intros x Hx. destruct (approximationSteepenedSigmoid_float L x (in_domain_fin x Hx)) as (F & _ & R).
      rng. split; [exact F|lra].
    - intros _ _ x y Hx Hy. apply approximationSteepenedSigmoid_float_mono; now apply in_domain_fin. }
  destruct C as [C|C]; [subst c; injection Hf as <-|].
  { split.
    - intros x Hx. destruct (inverseAbsoluteSigmoid_float L x Hx) as (F & _ & R). rng. split; [exact F|lra].
    - intros _ N. now elim N. }
  destruct C as [C|C]; [subst c; injection Hf as <-|].
  { destruct (leftShiftedSigmoid_libm L H1 H2) as [A B]. split; [|intros _ _; exact B].
    intros x Hx. destruct (A x Hx) as [F R]. rng. split; [exact F|lra]. }
  destruct C as [C|C]; [subst c; injection Hf as <-|].
  { destruct (leftShiftedSteepenedSigmoid_libm L H1 H2) as [A B]. split; [|intros _ _; exact B].
    intros x Hx. destruct (A x Hx) as [F R]. rng. split; [exact F|lra]. }
  destruct C as [C|C]; [subst c; injection Hf as <-|].
  { destruct (rightShiftedSteepenedSigmoid_libm L H1 H2) as [A B]. split; [|intros _ _; exact B].
    intros x Hx. destruct (A x Hx) as [F R]. rng. split; [exact F|lra]. }
  destruct C as [C|C]; [subst c; injection Hf as <-|].
  { destruct (hyperbolicTangent_libm L H4 H5) as [A B]. split; [|intros _ _; exact B].
    intros x Hx. destruct (A x Hx) as [F R]. rng. split; [exact F|lra]. }
  destruct C as [C|C]; [subst c; injection Hf as <-|].
  { split; [|discriminate].
    intros x Hx. destruct (bipolarGaussian_libm L H1 H3 H7 x Hx) as [F R]. rng. split; [exact F|lra]. }
  destruct C as [C|C]; [subst c; injection Hf as <-|].
  { split; [|discriminate].
    intros x Hx. destruct (gaussian_libm L H1 H3 H7 x Hx) as [F R]. rng. split; [exact F|lra]. }
  destruct C as [C|C]; [subst c; injection Hf as <-|].
  { split.
    - intros x Hx. rng. split; [now apply in_domain_fin|tauto].
    - intros _ _ x y _ _ Hxy. exact Hxy. }
  destruct C as [C|C]; [subst c; injection Hf as <-|].
  { split; [|discriminate].
    intros x Hx. destruct (absoluteLinear_float L x (in_domain_fin x Hx)) as (F & _ & R). rng. tauto. }
  destruct C as [C|C]; [subst c; injection Hf as <-|].
  { split.
    - intros x Hx. destruct (clippedLinear_float L x (in_domain_fin x Hx)) as [F _].
      pose proof (clippedLinear_float_range L x (in_domain_fin x Hx)). rng. split; [exact F|lra].
    - intros _ _ x y Hx Hy. apply clippedLinear_float_mono; now apply in_domain_fin. }
  destruct C as [C|C]; [subst c; injection Hf as <-|].
  { split; [|discriminate].
    intros x Hx. rng. rewrite nullFunctor_float, FR_zero. split; [apply fin_zero|lra]. }
  destruct C as [C|C]; [subst c; injection Hf as <-|].
  { split; [|discriminate].
    intros x Hx. destruct (signFunction_float L x (in_domain_fin x Hx)) as [F E].
    pose proof (signFunction_values (FR x)). rng. split; [exact F|]. rewrite E. lra. }
  destruct C as [C|C]; [subst c; injection Hf as <-|].
  { split; [|discriminate].
    intros x Hx. destruct (sineFunction_libm L H6 x Hx) as [F R]. rng. split; [exact F|lra]. }
  subst c; injection Hf as <-.
  split.
  - intros x Hx. destruct (stepFunction_float L x (in_domain_fin x Hx)) as [F E].
    pose proof (stepFunction_values (FR x)). rng. split; [exact F|]. rewrite E. lra.
  - intros _ _ x y Hx Hy. apply stepFunction_float_mono; now apply in_domain_fin.
Qed.

(* the hypotheses on the library are satisfiable (constant functions), and even then the full
   statement fails -- at the inverse-abs sigmoid, by the one-ulp witness *)
Definition trivial_libm (fn : libm_fn) (a b : float) : float :=
  match fn with LExp => 1%float | _ => 0%float end.

Lemma trivial_libm_ok : libm_ok trivial_libm.
Proof. unfold libm_ok, trivial_libm. repeat split; intros; vm_compute; reflexivity. Qed.

Theorem scalar_full_refuted : ~ scalar_full.
Proof.
  intros H.
  destruct (H trivial_libm trivial_libm_ok 7%Z inverseAbsoluteSigmoid eq_refl) as [_ M].
  specialize (M eq_refl 0x1p+53%float 0x1.0000000000001p+53%float).
  assert (E : (run trivial_libm (inverseAbsoluteSigmoid 0x1p+53) <=?
               run trivial_libm (inverseAbsoluteSigmoid 0x1.0000000000001p+53))%float = false)
    by (vm_compute; reflexivity).
  rewrite M in E; [discriminate| | |]; vm_compute; reflexivity.
Qed.
