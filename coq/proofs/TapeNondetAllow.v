(* C17, static half: no unlisted source of run-to-run nondeterminism on the sequential path.

   gen/NondetSites.v is regenerated from the CURRENT Go source on every check by
   `neatverif translate nondet` (harness/c17_translate.go): it lists, for every function statically
   reachable from spawn, the sequential NextEpoch, the three crossovers and all mutators, each
   `range` over a map, use of package time, go/select statement, %p verb, use of unsafe / reflect /
   runtime, re-seeding or private random sources, environment look-ups and unordered map helpers.

   This file holds the hand-written allow-list and proves that nothing outside it is present.  The
   list is matched on the exact triple (function, kind, detail), so a new `select` in another
   function, a second `range` over a map, or a `time.Now()` anywhere on the path makes the lemma fail
   to compile, and the check of C17 fails with it. *)
From Coq Require Import String List Bool.
Import ListNotations.
Open Scope string_scope.
From NeatModel Require Import NondetSites.

Definition nondet_allow : list (string * string * string) := [
  (* neat/genetics/population.go, Population.speciate: at the top of the loop over the babies,
       select { case <-ctx.Done(): return ctx.Err(); default: }
     A non-blocking poll of the caller's context.  With `default` present the select never blocks and
     never chooses between two ready channels; its only effect is to abort the epoch with the
     context's error.  The property is about runs whose context is not cancelled (the harness uses
     Options.NeatContext(), i.e. context.Background()): there the default branch is always taken
     and nothing is read from the channel. *)
  ("genetics.Population.speciate", "select", "case <-ctx.Done(); default");
  (* neat/genetics/species.go, Species.reproduce: the same cancellation poll at the top of the loop
     over the expected offspring; aborts with ctx.Err(), otherwise no effect. *)
  ("genetics.Species.reproduce", "select", "case <-ctx.Done(); default");
  (* neat/genetics/genome.go, Genome.IsEqual compares traits, nodes and genes with reflect.DeepEqual.
     (1) DeepEqual is a function of the two object graphs: it neither exposes addresses nor depends
     on map iteration order.  (2) IsEqual is not called anywhere in the non-test code of the library;
     it is in the reachable set only because the translator makes every method of a type reachable
     once a value of that type is passed to an interface-typed parameter (a *Genome handed to
     fmt.Sprintf for a debug-log message). *)
  ("genetics.Genome.IsEqual", "reflect", "reflect.DeepEqual")
].

Definition triple_eqb (a b : string * string * string) : bool :=
  let '(a1, a2, a3) := a in
  let '(b1, b2, b3) := b in
  String.eqb a1 b1 && String.eqb a2 b2 && String.eqb a3 b3.

Definition allowed (s : string * string * string) : bool :=
  existsb (triple_eqb s) nondet_allow.

Lemma triple_eqb_eq : forall a b, triple_eqb a b = true <-> a = b.
Proof.
  intros [[a1 a2] a3] [[b1 b2] b3]. unfold triple_eqb.
  rewrite !andb_true_iff, !String.eqb_eq. split.
  - intros [[H1 H2] H3]. subst. reflexivity.
  - intros H. inversion H. subst. auto.
Qed.

Lemma allowed_In : forall s, allowed s = true <-> In s nondet_allow.
Proof.
  intros s. unfold allowed. rewrite existsb_exists. split.
  - intros [x [Hin Heq]]. apply triple_eqb_eq in Heq. subst. exact Hin.
  - intros Hin. exists s. split; [exact Hin | apply triple_eqb_eq; reflexivity].
Qed.

(* the obligation: recomputed against the regenerated site list on every check *)
Lemma no_unlisted_nondeterminism :
  filter (fun s => negb (allowed s)) nondet_sites = [].
Proof. vm_compute. reflexivity. Qed.

Lemma every_site_allowed : forall s, In s nondet_sites -> In s nondet_allow.
Proof.
  intros s Hin. apply allowed_In.
  destruct (allowed s) eqn:E; [reflexivity | exfalso].
  assert (Hf : In s (filter (fun s => negb (allowed s)) nondet_sites)).
  { apply filter_In. split; [exact Hin | rewrite E; reflexivity]. }
  rewrite no_unlisted_nondeterminism in Hf. exact Hf.
Qed.

(* the allow-list carries no stale entries: every allowed site is actually present *)
Lemma allow_list_tight :
  filter (fun a => negb (existsb (triple_eqb a) nondet_sites)) nondet_allow = [].
Proof. vm_compute. reflexivity. Qed.

(* the translator found every root it was asked for, so an empty or truncated call graph cannot
   pass: adding, removing or renaming a mutator or crossover changes this list and is noticed *)
Lemma roots_found :
  nondet_roots_found = [
    "genetics.Genome.mateMultipoint";
    "genetics.Genome.mateMultipointAvg";
    "genetics.Genome.mateSinglePoint";
    "genetics.Genome.mutateAddLink";
    "genetics.Genome.mutateAddNode";
    "genetics.Genome.mutateAllNonstructural";
    "genetics.Genome.mutateConnectSensors";
    "genetics.Genome.mutateGeneReEnable";
    "genetics.Genome.mutateLinkTrait";
    "genetics.Genome.mutateLinkWeights";
    "genetics.Genome.mutateNodeTrait";
    "genetics.Genome.mutateRandomTrait";
    "genetics.Genome.mutateToggleEnable";
    "genetics.NewPopulation";
    "genetics.Population.spawn";
    "genetics.SequentialPopulationEpochExecutor.NextEpoch";
    "neat.Trait.Mutate"
  ].
Proof. vm_compute. reflexivity. Qed.

Definition mem_string (x : string) (l : list string) : bool := existsb (String.eqb x) l.

(* the roots and the phases of the sequential epoch are in the reachable set, and the reachable set
   is a sizeable part of the library (so the call graph was actually built) *)
Lemma reachable_sanity :
  forallb (fun r => mem_string r nondet_reachable_functions)
    (nondet_roots_found ++
     [ "genetics.SequentialPopulationEpochExecutor.prepareForReproduction";
       "genetics.SequentialPopulationEpochExecutor.reproduce";
       "genetics.SequentialPopulationEpochExecutor.finalizeReproduction";
       "genetics.Species.reproduce"; "genetics.Species.adjustFitness"; "genetics.Species.countOffspring";
       "genetics.Population.speciate"; "genetics.Population.purgeOrganisms";
       "genetics.Population.deltaCoding"; "genetics.Population.giveBabiesToTheBest";
       "genetics.Genome.duplicate"; "genetics.Genome.compatibility"; "genetics.Genome.Genesis";
       "math.RandSign"; "math.SingleRouletteThrow"; "neat.Options.RandomNodeActivationType" ]) = true
  /\ Nat.leb 100 (length nondet_reachable_functions) = true
  /\ Nat.leb (length nondet_reachable_functions) nondet_functions_seen = true.
Proof. vm_compute. repeat split; reflexivity. Qed.

(* the parallel executor is NOT on the sequential path (its `go` statements are therefore not listed) *)
Lemma parallel_executor_not_reachable :
  mem_string "genetics.ParallelPopulationEpochExecutor.reproduce" nondet_reachable_functions = false.
Proof. vm_compute. reflexivity. Qed.
