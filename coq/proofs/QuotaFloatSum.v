(* C02 / C09: the float-level hypothesis "Hsum" ([quota_sum_ok]: the floor-and-carry total T that
   countOffspring accumulates over all species does not exceed the population size) is FALSE for
   finite, non-negative fitness values in general.  Finding `subnormal-fitness-quota-overshoot`
   (known_findings.txt): four organisms of one species with raw fitness (8,4,4,4) x 2^-1074.
   Shared values (2,1,1,1) units of 2^-1074; their average 5/4 units rounds to 1 unit (the rounding
   error of a subnormal quotient is absolute, not relative); expected offspring (2,1,1,1), T = 5 > 4;
   totals above the population size are never repaired, Species.reproduce breeds five babies and
   NextEpoch returns "progeny size after reproduction cycle dimished" (error 74 of the model).
   The positive counterpart (Hsum holds for all ordinary fitness values) is in QuotaFloatSumA.v
   (binary64 error analysis) and QuotaFloatSumB.v (model level). *)
From Coq Require Import ZArith List Floats Lia.
Import ListNotations.
Open Scope Z_scope.
From NeatModel Require Import Res F64 GoRand GoSource Genome Options GenomeLit Population WF PopBase PopRepro PopInv PopNoErr.
From NeatModel Require Import Registry PopWF QuotaSpec QuotaExamples.
From NeatModel Require Import EpochTotalDefs EpochTotalQuota EpochTotalSurv EpochTotal.

Notation innovs := Genome.innovs.

(* ------------------------------------------------------------------------------------------ *)
(* 1. the executable check is exact in both directions                                          *)
(* ------------------------------------------------------------------------------------------ *)
Lemma quota_sum_okb_false o p : quota_sum_okb o p = false -> ~ quota_sum_ok o p.
Proof.
  unfold quota_sum_okb, quota_sum_ok. intros H Q.
  destruct (adjust_all o (p_heap p) (p_species p)) as [[h1 sps1]| | | | |] eqn:E1; try discriminate H.
  destruct (purge_zero_offspring _) as [p2| | | | |] eqn:E2; try discriminate H.
  destruct (count_all _ _ _ _) as [[sps T]| | | | |] eqn:E3; try discriminate H.
  destruct (Q _ _ _ _ _ eq_refl E2 E3) as [Q1 Q2].
  apply andb_false_iff in H. destruct H as [H|H].
  - apply Z.leb_gt in H. lia.
  - assert (F : forallb (fun s => Z.leb 0 (sp_exp s)) sps = true).
    { apply forallb_forall. intros s Hs. apply Z.leb_le. now apply Q2. }
    rewrite F in H. discriminate H.
Qed.

(* ------------------------------------------------------------------------------------------ *)
(* 2. C09 level: a population that already carries the shared fitness values (2,1,1,1) x 2^-1074 *)
(* ------------------------------------------------------------------------------------------ *)
Definition sn_unit : float := 0x1p-1074%float.      (* the smallest positive binary64 number *)
Definition sn_pop : population :=
  ex_pop [(1, PrimFloat.mul 2 sn_unit, 1); (2, sn_unit, 1); (3, sn_unit, 1); (4, sn_unit, 1)]
         [ex_species 1 8 0 [1; 2; 3; 4]].

Definition fit_properb (y : organism) : bool :=
  PrimFloat.leb 0 (o_fit y) && PrimFloat.ltb (o_fit y) infinity.

(* all hypotheses of C09_quotas_total_population_size_from_fitness (and finiteness) hold, the
   average is not zero, yet the chain total is 5 for 4 organisms and the quotas total 5 *)
Lemma quota_total_subnormal_refuted :
  exists p p' orgs sps T,
    purge_zero_offspring p = Ok p' /\
    hgets (p_heap p) (p_orgs p) = Ok orgs /\
    count_all (p_heap p') (p_species p) 0%float 0 = Ok (sps, T) /\
    p_species p <> [] /\ NoDup (map sp_id (p_species p)) /\
    (forall s k, In s (p_species p) -> In k (sp_orgs s) -> In k (p_orgs p)) /\
    (forall y, In y orgs -> PrimFloat.leb 0%float (o_fit y) = true /\ PrimFloat.ltb (o_fit y) infinity = true) /\
    PrimFloat.eqb (pz_avg orgs) 0%float = false /\
    zlen orgs = 4 /\ T = 5 /\ sp_sum (p_species p') = 5.
Proof.
  destruct (purge_zero_offspring sn_pop) as [p'| | | | |] eqn:E1; try (vm_compute in E1; discriminate E1).
  destruct (hgets (p_heap sn_pop) (p_orgs sn_pop)) as [orgs| | | | |] eqn:E2; try (vm_compute in E2; discriminate E2).
  assert (H : match purge_zero_offspring sn_pop, hgets (p_heap sn_pop) (p_orgs sn_pop) with
              | Ok p', Ok orgs =>
                match count_all (p_heap p') (p_species sn_pop) 0%float 0 with
                | Ok (sps, T) => Z.eqb T 5 && Z.eqb (sp_sum (p_species p')) 5 && Z.eqb (zlen orgs) 4 &&
                                 forallb fit_properb orgs && negb (PrimFloat.eqb (pz_avg orgs) 0%float)
                | _ => false
                end
              | _, _ => false
              end = true) by (vm_compute; reflexivity).
  rewrite E1, E2 in H.
  destruct (count_all (p_heap p') (p_species sn_pop) 0%float 0) as [[sps T]| | | | |] eqn:E3; try discriminate H.
  apply andb_true_iff in H. destruct H as [H K5]. apply andb_true_iff in H. destruct H as [H K4].
  apply andb_true_iff in H. destruct H as [H K3]. apply andb_true_iff in H. destruct H as [K1 K2].
  exists sn_pop, p', orgs, sps, T.
  split; [exact E1|]. split; [exact E2|]. split; [exact E3|].
  split; [discriminate|]. split; [repeat constructor; intros []|].
  split. { intros s k [<-|[]] Hk. exact Hk. }
  split. { intros y Hy. pose proof (proj1 (forallb_forall _ _) K4 y Hy) as F. unfold fit_properb in F.
           apply andb_true_iff in F. exact F. }
  split; [now apply Bool.negb_true_iff|].
  split; [now apply Z.eqb_eq|]. split; now apply Z.eqb_eq.
Qed.

(* ------------------------------------------------------------------------------------------ *)
(* 3. C02 level: NewPopulation, one fitness assignment, NextEpoch                                *)
(* ------------------------------------------------------------------------------------------ *)
(* the options and start genome of the example of props/C02.v, with PopSize 4 and a compatibility
   threshold (2^30) that keeps the population in one species *)
Definition sn_opts : options := OPT [0x1p-01%float; 0x1p+00%float; 0x1.4p+01%float; 0x1p+00%float; 0x1p+00%float; 0x1.999999999999ap-02%float; 0x1p+30%float; 0x1p+00%float; 0x1.999999999999ap-04%float; 0x1.412feefadd96fp-01%float; 0x1.999999999999ap-04%float; 0x1.999999999999ap-04%float; 0x1.999999999999ap-04%float; 0x1.ccccccccccccdp-01%float; 0x1.3559a2dae866cp-03%float; 0x1.937e04d94711ap-03%float; 0x1.aaa7660b6ed51p-04%float; 0x1.bb6523f418de7p-01%float; 0x1.21bb238153d06p-03%float; 0x1.3333333333333p-02%float; 0x1.999999999999ap-02%float; 0x1.3333333333333p-02%float; 0x1.3333333333333p-02%float; 0x1.999999999999ap-03%float; 0x1.999999999999ap-03%float] 4 3 20 0 true [12; 4] [0x1p-01%float; 0x1p-01%float].
Definition sn_genome : genome := GN 1 [(T 1 [0x1.999999999999ap-04%float; zero; zero; zero; zero; zero; zero; zero]); (T 2 [0x1.999999999999ap-03%float; zero; zero; zero; zero; zero; zero; zero]); (T 3 [0x1.3333333333333p-02%float; zero; zero; zero; zero; zero; zero; zero])] [(N 1 1 17 None); (N 2 1 17 None); (N 3 3 17 None); (N 4 2 4 None)] [(G 1 4 false zero (Some 1) 1 zero true); (G 2 4 false zero (Some 2) 2 zero true); (G 3 4 false zero (Some 3) 3 zero true)] [].
Definition sn_s0 : st := {| s_tape := go_tape 8274700777983696934 1000; s_env := EV [] 0 0 |}.
(* raw fitness (8,4,4,4) x 2^-1074: finite, positive, subnormal *)
Definition sn_fit : list float := [PrimFloat.mul 8 sn_unit; PrimFloat.mul 4 sn_unit; PrimFloat.mul 4 sn_unit; PrimFloat.mul 4 sn_unit].
Definition sn_x0 : executor := {| x_best_id := 0; x_best_reproduced := false |}.

Lemma sn_genome_wf : wf sn_genome.
Proof.
  constructor.
  - discriminate.
  - unfold genes_sorted, InsertSpec.asc. cbn. repeat constructor.
  - unfold links_nodup. cbn. repeat constructor; cbn; intuition discriminate.
  - unfold nodes_sorted, InsertSpec.asc. cbn. repeat constructor.
  - intros y [<-|[<-|[<-|[]]]]; cbn; eexists; eexists; repeat split.
  - split.
    + intros y t [<-|[<-|[<-|[]]]] [= <-]; (split; [discriminate|]); cbn; eauto 8.
    + intros n t [<-|[<-|[<-|[<-|[]]]]]; discriminate.
  - split; [discriminate|]. exists 1. split; [reflexivity|reflexivity].
  - exists (N 4 2 4 None). split; [cbn; auto|reflexivity].
  - reflexivity.
Qed.

Definition sn_heap_properb (p : population) : bool :=
  forallb (fun k => match hget (p_heap p) k with Ok y => fit_properb y | _ => true end) (p_orgs p).

Definition sn_checkb (p : population) (s : st) : bool :=
  match set_fitness (p_heap p) (p_orgs p) sn_fit with
  | Ok h =>
    negb (quota_sum_okb sn_opts (p_with_heap p h)) &&
    match next_epoch sn_opts 1 (p_with_heap p h) sn_x0 s with GoErr 74 => true | _ => false end &&
    sn_heap_properb (p_with_heap p h)
  | _ => false
  end.

(* Every hypothesis of EpochTotal.epoch_succeeds (props/C02.v: C02_epoch_succeeds) other than Hsum
   holds, all fitness values are finite and not negative, Hsum fails, and NextEpoch returns the
   progeny-size error. *)
Lemma quota_sum_subnormal_refuted :
  exists C o gen p x s R NR,
    Part p /\ Fresh p /\ zlen (p_orgs p) = o_pop_size o /\ 0 < o_pop_size o < 2 ^ 31 /\
    GInv C p (s_env s) R NR /\ records_traits_ok (s_env s) (zlen (c_tshape C)) /\
    acts_ok o /\ survivors_ok o /\ PrimFloat.eqb (o_compat_thresh o) 0 = false /\
    exps_nonneg (p_heap p) /\ tape_ok (s_tape s) /\
    (forall k y, In k (p_orgs p) -> hget (p_heap p) k = Ok y ->
                 PrimFloat.leb 0%float (o_fit y) = true /\ PrimFloat.ltb (o_fit y) infinity = true) /\
    ~ quota_sum_ok o p /\
    next_epoch o gen p x s = GoErr 74.
Proof.
  destruct (is_ok_pair (new_population sn_opts sn_genome sn_s0)) as (p & s & E); [vm_compute; reflexivity|].
  assert (H : match new_population sn_opts sn_genome sn_s0 with Ok (p, s) => sn_checkb p s | _ => false end = true)
    by (vm_compute; reflexivity).
  rewrite E in H. unfold sn_checkb in H.
  destruct (set_fitness (p_heap p) (p_orgs p) sn_fit) as [h| | | | |] eqn:Eh; try discriminate H.
  apply andb_true_iff in H. destruct H as [H H3]. apply andb_true_iff in H. destruct H as [H1 H2].
  assert (I0 : run_inv (ctx_of sn_genome) sn_opts p s).
  { apply (run_inv_spawn sn_opts sn_genome sn_s0 p s sn_genome_wf eq_refl); [|exact E].
    apply tape_okb_ok; vm_compute; reflexivity. }
  pose proof (run_inv_fitness _ _ _ _ _ _ I0 Eh) as [A B D (R & NR & G) Ei F T].
  exists (ctx_of sn_genome), sn_opts, 1, (p_with_heap p h), sn_x0, s, R, NR.
  split; [exact A|]. split; [exact B|]. split; [exact D|]. split; [vm_compute; split; reflexivity|].
  split; [exact G|]. split; [intros i Hi; rewrite Ei in Hi; destruct Hi|].
  split; [vm_compute; repeat split; reflexivity|].
  split; [apply survivors_ok_unit; vm_compute; reflexivity|].
  split; [vm_compute; reflexivity|]. split; [exact F|]. split; [exact T|].
  split.
  { intros k y Hk Hy. unfold sn_heap_properb in H3. pose proof (proj1 (forallb_forall _ _) H3 k Hk) as Q.
    cbv beta in Q. rewrite Hy in Q. unfold fit_properb in Q. apply andb_true_iff in Q. exact Q. }
  split; [apply quota_sum_okb_false; now apply Bool.negb_true_iff|].
  destruct (next_epoch sn_opts 1 (p_with_heap p h) sn_x0 s) as [r|c|c| | |]; try discriminate H2.
  f_equal. destruct c as [|c|c]; try discriminate H2.
  repeat (destruct c as [c|c|]; try discriminate H2). reflexivity.
Qed.

(* whole-run form: the hypotheses of EpochTotal.history_succeeds (C02_history_succeeds) other than
   quota_run_ok hold, the single fitness assignment is finite and positive, and the run fails *)
Lemma history_subnormal_fails :
  exists o g s0 steps x p s,
    wf g /\ innovs (s_env s0) = [] /\ tape_ok (s_tape s0) /\
    0 < o_pop_size o < 2 ^ 31 /\ acts_ok o /\ survivors_ok o /\ PrimFloat.eqb (o_compat_thresh o) 0 = false /\
    new_population o g s0 = Ok (p, s) /\
    Forall (fun st => Forall (fun f => PrimFloat.ltb 0%float f = true /\ PrimFloat.ltb f infinity = true) (fst st)) steps /\
    PopInv.run_epochs o steps p x s = GoErr 74.
Proof.
  destruct (is_ok_pair (new_population sn_opts sn_genome sn_s0)) as (p & s & E); [vm_compute; reflexivity|].
  exists sn_opts, sn_genome, sn_s0, [(sn_fit, 1)], sn_x0, p, s.
  split; [exact sn_genome_wf|]. split; [reflexivity|]. split; [apply tape_okb_ok; vm_compute; reflexivity|].
  split; [vm_compute; split; reflexivity|]. split; [vm_compute; repeat split; reflexivity|].
  split; [apply survivors_ok_unit; vm_compute; reflexivity|]. split; [vm_compute; reflexivity|].
  split; [exact E|]. split.
  { constructor; [|constructor]. cbn [fst sn_fit]. repeat constructor; vm_compute; reflexivity. }
  assert (H : match new_population sn_opts sn_genome sn_s0 with
              | Ok (p, s) => match PopInv.run_epochs sn_opts [(sn_fit, 1)] p sn_x0 s with GoErr 74 => true | _ => false end
              | _ => false end = true) by (vm_compute; reflexivity).
  rewrite E in H.
  destruct (PopInv.run_epochs sn_opts [(sn_fit, 1)] p sn_x0 s) as [r|c|c| | |]; try discriminate H.
  f_equal. destruct c as [|c|c]; try discriminate H.
  repeat (destruct c as [c|c|]; try discriminate H). reflexivity.
Qed.
