(* C12 for feed-forward networks with modules: the one-pass evaluation as an executable definition (fuelled recursion),
   shown to solve the node equations when the depth function increases strictly through modules as well; with
   ModSpecC12Fast.v: both solvers return it, hence the same outputs.  Final statements with all premises spelled out. *)
From NeatModel Require Import Res Net Fast NetMod FastMod SolverUtil SolverSpec SolverStd SolverFast SolverBuild SolverLoad SolverMain SolverTopo.
From NeatModel Require Import ModSpecC12 ModSpecC12Fast.
From Coq Require Import Reals Lra Arith Lia.
Open Scope nat_scope.

Section ModTopo.
Variable n : mnet R.
Variable f : Z -> R -> R.
Variable mf : Z -> list R -> R.
Notation nn := (m_net n).
Notation N := (nnodes (m_net n)).

(* the control node that writes p, if any *)
Definition owner (p : nat) : option cnode := find (fun c => mout c =? p) (m_ctrl n).

(* value of node p: a sensor carries its loaded value, the output of a module the module's function of its inputs'
   values, any other neuron activation(sum of weight * source) *)
Fixpoint mval (sv : nat -> R) (fuel : nat) (p : nat) : R :=
  match fuel with
  | O => 0%R
  | S k =>
    if sensorb nn p then sv p
    else match owner p with
         | Some c => mf (cn_act c) (map (mval sv k) (cn_in c))
         | None => f (nd_act (node_at nn p)) (wsum (mval sv k) (nd_in (node_at nn p)))
         end
  end.

Lemma mval_S sv k p :
  mval sv (S k) p =
  if sensorb nn p then sv p
  else match owner p with
       | Some c => mf (cn_act c) (map (mval sv k) (cn_in c))
       | None => f (nd_act (node_at nn p)) (wsum (mval sv k) (nd_in (node_at nn p)))
       end.
Proof. reflexivity. Qed.

Definition mfuel (dp : nat -> nat) : nat := S (list_max (map dp (seq 0 N))).
Definition mtopo_eval (dp : nat -> nat) (x : list R) : nat -> R := mval (sv_of nn x) (mfuel dp).
Definition mtopo (dp : nat -> nat) (x : list R) : list R := map (mtopo_eval dp x) (outputs nn).

Variable known mknown : Z -> bool.
Variable dp : nat -> nat.
Hypothesis FF : mffnet n known mknown dp.
Hypothesis STRICT : forall c i, In c (m_ctrl n) -> In i (cn_in c) -> dp i < dp (mout c).

Lemma owner_some p c : owner p = Some c -> In c (m_ctrl n) /\ mout c = p.
Proof. unfold owner. intros H. apply find_some in H. destruct H as [H E]. apply Nat.eqb_eq in E. auto. Qed.

Lemma owner_none p : owner p = None -> ~ is_mout n p.
Proof.
  unfold owner. intros H Hm. destruct (is_mout_inv n p Hm) as (c & Hc & E).
  pose proof (find_none _ _ H c Hc) as X. simpl in X. rewrite E, Nat.eqb_refl in X. discriminate.
Qed.

Lemma owner_of c : In c (m_ctrl n) -> owner (mout c) = Some c.
Proof.
  intros Hc. destruct (owner (mout c)) as [c'|] eqn:E.
  - destruct (owner_some _ _ E) as [Hc' E'].
    (* distinct control nodes write distinct neurons *)
    pose proof (mf_nodup _ _ _ _ FF) as ND. unfold mouts in ND.
    assert (G : forall (l : list cnode), NoDup (map mout l) -> In c l -> In c' l -> mout c' = mout c -> c' = c).
    { induction l as [|a l IH]; intros NDl H1 H2 Em; [destruct H1|].
      simpl in NDl. inversion NDl as [|? ? Hni NDl']; subst.
      destruct H1 as [->|H1], H2 as [->|H2]; try reflexivity.
      - exfalso. apply Hni. rewrite <- Em. apply in_map. exact H2.
      - exfalso. apply Hni. rewrite Em. apply in_map. exact H1.
      - apply IH; assumption. }
    f_equal. exact (G _ ND Hc Hc' E').
  - exfalso. apply (owner_none _ E). unfold is_mout, mouts. apply in_map. exact Hc.
Qed.

Lemma mval_stable sv : forall k1 k2 p, p < N -> dp p < k1 -> dp p < k2 -> mval sv k1 p = mval sv k2 p.
Proof.
  induction k1 as [|k1 IH]; intros k2 p Hp H1 H2; [lia|].
  destruct k2 as [|k2]; [lia|]. rewrite !mval_S.
  destruct (sensorb nn p) eqn:Es; [reflexivity|].
  assert (Hn : neuronb nn p = true).
  { destruct (sensor_or_neuron nn p) as [H|H]; [congruence|exact H]. }
  destruct (owner p) as [c|] eqn:Eo.
  - destruct (owner_some _ _ Eo) as [Hc Em]. f_equal. apply map_ext_in. intros i Hi.
    pose proof (STRICT c i Hc Hi) as Hr. rewrite Em in Hr.
    apply IH; [exact (proj1 (ctrl_in_range n known mknown dp FF c Hc) i Hi)|lia|lia].
  - pose proof (owner_none _ Eo) as Hm. f_equal. apply wsum_ext. intros l Hl.
    pose proof (mf_rank _ _ _ _ FF p l Hp Hn Hm Hl) as Hr.
    apply IH; [exact (net_ok_src nn (net_ok_of n known mknown dp FF) p l Hp Hl)|lia|lia].
Qed.

Lemma dp_lt_fuel p : p < N -> dp p < mfuel dp.
Proof.
  intros Hp. unfold mfuel.
  assert (H : Forall (fun k => k <= list_max (map dp (seq 0 N))) (map dp (seq 0 N))) by (apply list_max_le; lia).
  rewrite Forall_forall in H. specialize (H (dp p)).
  assert (Hin : In (dp p) (map dp (seq 0 N))) by (apply in_map; apply in_seq; lia).
  specialize (H Hin). lia.
Qed.

Lemma mtopo_solves x : msolves n f mf (mtopo_eval dp x).
Proof.
  unfold mtopo_eval. set (K := list_max (map dp (seq 0 N))). change (mfuel dp) with (S K). split.
  - intros p Hp Hn Hm. rewrite (mval_S _ K p). rewrite (neuron_not_sensor nn p Hn).
    destruct (owner p) as [c|] eqn:Eo.
    { exfalso. destruct (owner_some _ _ Eo) as [Hc <-]. apply Hm. unfold is_mout, mouts. apply in_map. exact Hc. }
    f_equal. apply wsum_ext. intros l Hl.
    pose proof (mf_rank _ _ _ _ FF p l Hp Hn Hm Hl) as Hr.
    pose proof (dp_lt_fuel p Hp) as Hb. unfold mfuel in Hb. fold K in Hb.
    apply mval_stable; [exact (net_ok_src nn (net_ok_of n known mknown dp FF) p l Hp Hl)|lia|lia].
  - intros c Hc. rewrite (mval_S _ K (mout c)).
    rewrite (neuron_not_sensor nn _ (mf_out_neuron _ _ _ _ FF c Hc)), (owner_of c Hc).
    f_equal. apply map_ext_in. intros i Hi.
    pose proof (STRICT c i Hc Hi) as Hr.
    pose proof (dp_lt_fuel (mout c) (mout_lt n known mknown dp FF c Hc)) as Hb. unfold mfuel in Hb. fold K in Hb.
    apply mval_stable; [exact (proj1 (ctrl_in_range n known mknown dp FF c Hc) i Hi)|lia|lia].
Qed.

Lemma mtopo_sensor_vals x : sensor_vals nn x (mtopo_eval dp x).
Proof.
  unfold mtopo_eval, mfuel. split.
  - intros p Hp Hb. rewrite mval_S.
    assert (Hs : sensorb nn p = true) by (unfold sensorb; destruct (role_at nn p); simpl in *; congruence).
    rewrite Hs. unfold sv_of. now rewrite Hb.
  - intros i Hi. set (p := nth i (positions_with nn is_input) 0).
    assert (Hin : In p (positions_with nn is_input)) by (apply nth_In; exact Hi).
    pose proof (proj1 (in_positions_with nn is_input p) Hin) as [Hp Hr].
    rewrite mval_S.
    assert (Hs : sensorb nn p = true) by (unfold sensorb; destruct (role_at nn p); simpl in *; congruence).
    rewrite Hs. unfold sv_of.
    assert (Hb : is_bias (role_at nn p) = false) by (destruct (role_at nn p); simpl in *; congruence).
    rewrite Hb. unfold p. rewrite pos_of_nth; [reflexivity|apply positions_with_nodup|exact Hi].
Qed.

End ModTopo.

(* ======================= final statements ======================= *)
Section Final.
Variable n : mnet R.
Variable known : Z -> bool.
Variable f : Z -> R -> R.
Variable mknown : Z -> bool.
Variable mf : Z -> list R -> R.
Variable dp : nat -> nat.
Notation nn := (m_net n).
Notation N := (nnodes (m_net n)).

Hypothesis OK : mnet_ok n = true.
Hypothesis outs_nodup : NoDup (outputs nn).
Hypothesis outs_exact : forall o, In o (outputs nn) <-> (o < N /\ is_output (role_at nn o) = true).
Hypothesis inputs_in_order : inputs nn = positions_with nn is_sensor.
Hypothesis plain : forall p l, p < N -> In l (nd_in (node_at nn p)) -> l_td l = false.
Hypothesis one_out : forall c, In c (m_ctrl n) -> cn_out c = [mout c].
Hypothesis out_neuron : forall c, In c (m_ctrl n) -> neuronb nn (mout c) = true.
Hypothesis in_neuron : forall c i, In c (m_ctrl n) -> In i (cn_in c) -> neuronb nn i = true.
Hypothesis outs_distinct : NoDup (mouts (m_ctrl n)).
Hypothesis in_order : ordered (m_ctrl n).
Hypothesis fed : forall p, p < N -> neuronb nn p = true -> ~ In p (mouts (m_ctrl n)) -> nd_in (node_at nn p) <> [].
Hypothesis rank : forall p l, p < N -> neuronb nn p = true -> ~ In p (mouts (m_ctrl n)) ->
                    In l (nd_in (node_at nn p)) -> dp (l_src l) < dp p.
Hypothesis mrank : forall c, In c (m_ctrl n) -> 1 <= dp (mout c) /\ forall i, In i (cn_in c) -> dp i <= dp (mout c).
Hypothesis all_known : forall p, p < N -> neuronb nn p = true -> known (nd_act (node_at nn p)) = true.
Hypothesis all_mknown : forall c, In c (m_ctrl n) -> mknown (cn_act c) = true.

Lemma mffnet_of_premises : mffnet n known mknown dp.
Proof.
  constructor; try assumption.
  intros o Ho. apply outs_exact in Ho. destruct Ho as [_ Ho]. unfold neuronb. destruct (role_at nn o); simpl in *; congruence.
Qed.

Variable x : list R.
Hypothesis Hx : length x = length (positions_with nn is_input).
Variable k : Z.
Hypothesis k_pos : (1 <= k)%Z.
Hypothesis k_depth : forall o, In o (outputs nn) -> (Z.of_nat (dp o) <= k)%Z.

(* for every solution v of the node equations with the loaded sensor values: both solvers return it *)
Theorem mc12_any_solution (v : nat -> R) :
  msolves n f mf v -> sensor_vals nn x v ->
  exists st1 st2 fx t1 t2 r,
    mstd_load Rnum n x (mstd_init Rnum n) = (st1, Ok true) /\
    mstd_forward Rnum (ract known f) (mract mknown mf) n k st1 = (st2, Ok true) /\
    fast_of_net_mod Rnum n = Ok fx /\
    fast_load Rnum (fx_net fx) x (mfast_init Rnum fx) = (t1, Ok true) /\
    mfast_forward Rnum (ract known f) (mract mknown mf) fx k t1 = (t2, Ok r) /\
    mstd_outputs Rnum n st2 = mfast_outputs Rnum fx t2 /\
    mstd_outputs Rnum n st2 = map v (outputs nn).
Proof.
  intros SOL SV.
  exact (mod_solvers_agree n known f mknown mf dp v mffnet_of_premises SOL outs_nodup outs_exact inputs_in_order x SV Hx k k_pos k_depth).
Qed.

(* a solution exists when the depth also increases strictly through modules: the one-pass evaluation *)
Hypothesis strict : forall c i, In c (m_ctrl n) -> In i (cn_in c) -> dp i < dp (mout c).

Theorem mc12_agree :
  exists st1 st2 fx t1 t2 r,
    mstd_load Rnum n x (mstd_init Rnum n) = (st1, Ok true) /\
    mstd_forward Rnum (ract known f) (mract mknown mf) n k st1 = (st2, Ok true) /\
    fast_of_net_mod Rnum n = Ok fx /\
    fast_load Rnum (fx_net fx) x (mfast_init Rnum fx) = (t1, Ok true) /\
    mfast_forward Rnum (ract known f) (mract mknown mf) fx k t1 = (t2, Ok r) /\
    mstd_outputs Rnum n st2 = mfast_outputs Rnum fx t2 /\
    mstd_outputs Rnum n st2 = mtopo n f mf dp x.
Proof.
  exact (mc12_any_solution (mtopo_eval n f mf dp x)
           (mtopo_solves n f mf known mknown dp mffnet_of_premises strict x)
           (mtopo_sensor_vals n f mf dp x)).
Qed.

End Final.
