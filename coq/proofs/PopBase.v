(* Shared lemmas for the population invariant (C02): lists, the organism heap seen as a finite
   map, species-list lookups/updates, and the membership invariant [Wf] that every phase of the
   epoch preserves. *)
From NeatModel Require Import Compat.
From NeatModel Require Import Res F64 GoRand Genome Options Insert Dup Mutate Mate Population MonadLemmas.
From Coq Require Import Lia Permutation.

(* ---------- lists ---------- *)
Lemma nodup_app {A} (l1 l2 : list A) :
  NoDup l1 -> NoDup l2 -> (forall x, In x l1 -> In x l2 -> False) -> NoDup (l1 ++ l2).
Proof.
  induction l1 as [|a l1 IH]; cbn; intros H1 H2 H; [assumption|].
  inversion H1 as [|? ? Ha Hl]; subst. constructor.
  - rewrite in_app_iff. intros [Hi|Hi]; [now apply Ha|]. apply (H a); auto.
  - apply IH; auto. intros x Hx1 Hx2. apply (H x); auto.
Qed.

Lemma nodup_app_inv {A} (l1 l2 : list A) :
  NoDup (l1 ++ l2) -> NoDup l1 /\ NoDup l2 /\ (forall x, In x l1 -> In x l2 -> False).
Proof.
  induction l1 as [|a l1 IH]; cbn; intros H.
  - split; [constructor|]. split; [assumption|]. intros x [].
  - inversion H as [|? ? Ha Hl]; subst. destruct (IH Hl) as (H1 & H2 & H3).
    split; [|split; [assumption|]].
    + constructor; [|assumption]. intros Hi. apply Ha. apply in_or_app. now left.
    + intros x [<-|Hx] Hx2; [|now apply (H3 x)]. apply Ha. apply in_or_app. now right.
Qed.

Lemma nodup_concat_in {A} (ll : list (list A)) l : NoDup (concat ll) -> In l ll -> NoDup l.
Proof.
  induction ll as [|a ll IH]; cbn; intros H []; subst.
  - now apply nodup_app_inv in H.
  - apply IH; [|assumption]. now apply nodup_app_inv in H.
Qed.

Lemma filter_partition_perm {A} (f : A -> bool) l :
  Permutation l (filter f l ++ filter (fun x => negb (f x)) l).
Proof.
  induction l as [|a l IH]; cbn; [constructor|]. destruct (f a); cbn.
  - now constructor.
  - etransitivity; [apply perm_skip, IH|]. apply Permutation_middle.
Qed.

Lemma filter_neq_length l k :
  NoDup l -> In k l -> length (filter (fun x => negb (Z.eqb x k)) l) = pred (length l) /\ length l <> O.
Proof.
  induction l as [|a l IH]; cbn; intros Hn Hi; [contradiction|].
  inversion Hn as [|? ? Ha Hl]; subst. split; [|discriminate].
  destruct (Z.eqb_spec a k) as [->|Hne]; cbn.
  - f_equal. clear IH Hi Hn Hl. induction l as [|b l IH]; cbn; [reflexivity|].
    destruct (Z.eqb_spec b k) as [->|Hb]; cbn.
    + exfalso. apply Ha. now left.
    + f_equal. apply IH. intros Hi. apply Ha. now right.
  - destruct Hi as [->|Hi]; [contradiction|]. destruct (IH Hl Hi) as [E Hz]. rewrite E.
    destruct (length l); [contradiction|reflexivity].
Qed.

Lemma filter_neq_in l k x : In x (filter (fun x => negb (Z.eqb x k)) l) <-> In x l /\ x <> k.
Proof.
  rewrite filter_In. destruct (Z.eqb_spec x k); cbn; intuition congruence.
Qed.

(* consecutive keys a, a+1, ..., b-1 *)
Definition zrange (a b : Z) : list Z := map (fun i => a + Z.of_nat i) (seq 0 (Z.to_nat (b - a))).

Lemma zrange_in a b k : In k (zrange a b) <-> a <= k < b.
Proof.
  unfold zrange. rewrite in_map_iff. split.
  - intros (i & <- & Hi). apply in_seq in Hi. lia.
  - intros H. exists (Z.to_nat (k - a)). split; [lia|]. apply in_seq. lia.
Qed.

Lemma zrange_nodup a b : NoDup (zrange a b).
Proof.
  unfold zrange. generalize (Z.to_nat (b - a)) as n. intros n.
  assert (G : forall s, NoDup (map (fun i => a + Z.of_nat i) (seq s n))).
  { induction n as [|n IH]; intros s; cbn; constructor; [|apply IH].
    rewrite in_map_iff. intros (i & E & Hi). apply in_seq in Hi. lia. }
  apply G.
Qed.

Lemma zrange_length a b : length (zrange a b) = Z.to_nat (b - a).
Proof. unfold zrange. now rewrite map_length, seq_length. Qed.

Lemma zrange_nil a : zrange a a = [].
Proof. unfold zrange. now rewrite Z.sub_diag. Qed.

Lemma zrange_snoc a b : a <= b -> zrange a (b + 1) = zrange a b ++ [b].
Proof.
  intros H. unfold zrange. replace (Z.to_nat (b + 1 - a)) with (S (Z.to_nat (b - a))) by lia.
  rewrite seq_S, map_app. cbn. f_equal. f_equal. lia.
Qed.

Lemma zrange_app a b c : a <= b -> b <= c -> zrange a b ++ zrange b c = zrange a c.
Proof.
  intros H1 H2. unfold zrange.
  replace (Z.to_nat (c - a)) with (Z.to_nat (b - a) + Z.to_nat (c - b))%nat by lia.
  rewrite seq_app, map_app. f_equal. cbn.
  generalize (Z.to_nat (c - b)) as n. intros n.
  assert (G : forall s, map (fun i => b + Z.of_nat i) (seq s n) =
                        map (fun i => a + Z.of_nat i) (seq (Z.to_nat (b - a) + s) n)).
  { induction n as [|n IH]; intros s; cbn; [reflexivity|]. f_equal; [lia|].
    rewrite IH. now rewrite Nat.add_succ_r. }
  rewrite G. now rewrite Nat.add_0_r.
Qed.

(* ---------- sort_desc is a permutation ---------- *)
Lemma ins_rev_perm {A} (lt : A -> A -> bool) x rp : Permutation (ins_rev lt x rp) (x :: rp).
Proof.
  induction rp as [|y r IH]; cbn; [reflexivity|]. destruct (lt y x); [|reflexivity].
  etransitivity; [apply perm_skip, IH|]. apply perm_swap.
Qed.

Lemma fold_ins_perm {A} (lt : A -> A -> bool) l :
  forall acc, Permutation (fold_left (fun rp x => ins_rev lt x rp) l acc) (l ++ acc).
Proof.
  induction l as [|a l IH]; intros acc; cbn; [reflexivity|].
  etransitivity; [apply IH|]. etransitivity; [apply Permutation_app_head, ins_rev_perm|].
  symmetry. apply Permutation_middle.
Qed.

Lemma sort_desc_perm {A} (lt : A -> A -> bool) l : Permutation (sort_desc lt l) l.
Proof.
  unfold sort_desc. etransitivity; [symmetry; apply Permutation_rev|].
  etransitivity; [apply fold_ins_perm|]. now rewrite app_nil_r.
Qed.

(* ---------- the heap as a finite map ---------- *)
Lemma hget_key h k x : hget h k = Ok x -> o_key x = k.
Proof.
  induction h as [|y h IH]; cbn; [discriminate|].
  destruct (Z.eqb_spec (o_key y) k); [|assumption]. intros H. injection H as <-. assumption.
Qed.

Lemma hget_hset h o k : hget (hset h o) k = if Z.eqb k (o_key o) then Ok o else hget h k.
Proof.
  induction h as [|y h IH]; cbn.
  - rewrite (Z.eqb_sym (o_key o) k). reflexivity.
  - destruct (Z.eqb_spec (o_key y) (o_key o)) as [E|E]; cbn.
    + rewrite (Z.eqb_sym (o_key o) k). destruct (Z.eqb_spec k (o_key o)) as [E1|N]; [reflexivity|].
      destruct (Z.eqb_spec (o_key y) k); [congruence|reflexivity].
    + rewrite IH. destruct (Z.eqb_spec (o_key y) k) as [E1|N]; [|reflexivity].
      destruct (Z.eqb_spec k (o_key o)); [congruence|reflexivity].
Qed.

Lemma hget_in h k x : hget h k = Ok x -> In x h.
Proof.
  induction h as [|y h IH]; cbn; [discriminate|].
  destruct (Z.eqb (o_key y) k); [|auto]. intros H. injection H as <-. now left.
Qed.

Lemma hget_err h k : (exists x, hget h k = Ok x) \/ hget h k = GoPanic 4.
Proof.
  induction h as [|y h IH]; cbn; [now right|]. destruct (Z.eqb (o_key y) k); [left; eauto|exact IH].
Qed.

(* what a phase can see of an organism through a projection [f] *)
Definition hview {A} (f : organism -> A) (h : list organism) (k : Z) : option A :=
  match hget h k with Ok x => Some (f x) | _ => None end.
Definition sp_of := hview o_species.
Definition ogid (x : organism) : Z := gid (o_genome x).

Lemma hview_some {A} (f : organism -> A) h k a :
  hview f h k = Some a <-> exists x, hget h k = Ok x /\ f x = a.
Proof.
  unfold hview. destruct (hget h k) as [x| | | | |]; split; try discriminate.
  - intros H. injection H as <-. eauto.
  - intros (y & E & <-). now injection E as <-.
  - intros (y & E & _). discriminate.
  - intros (y & E & _). discriminate.
  - intros (y & E & _). discriminate.
  - intros (y & E & _). discriminate.
  - intros (y & E & _). discriminate.
Qed.

Lemma hview_get {A} (f : organism -> A) h k x : hget h k = Ok x -> hview f h k = Some (f x).
Proof. unfold hview. now intros ->. Qed.

(* [h'] agrees with [h] wherever [h] is defined (it may hold more organisms) *)
Definition hext {A} (f : organism -> A) (h h' : list organism) : Prop :=
  forall k a, hview f h k = Some a -> hview f h' k = Some a.
(* same domain, same projections *)
Definition hframe {A} (f : organism -> A) (h h' : list organism) : Prop :=
  forall k, hview f h' k = hview f h k.

Lemma hframe_refl {A} (f : organism -> A) h : hframe f h h.
Proof. intros k. reflexivity. Qed.
Lemma hframe_trans {A} (f : organism -> A) a b c : hframe f a b -> hframe f b c -> hframe f a c.
Proof. intros H1 H2 k. now rewrite H2, H1. Qed.
Lemma hframe_ext {A} (f : organism -> A) h h' : hframe f h h' -> hext f h h'.
Proof. intros H k a E. now rewrite H. Qed.
Lemma hext_refl {A} (f : organism -> A) h : hext f h h.
Proof. intros k a E. exact E. Qed.
Lemma hext_trans {A} (f : organism -> A) a b c : hext f a b -> hext f b c -> hext f a c.
Proof. intros H1 H2 k x E. now apply H2, H1. Qed.

Lemma hview_hset {A} (f : organism -> A) h o k :
  hview f (hset h o) k = if Z.eqb k (o_key o) then Some (f o) else hview f h k.
Proof. unfold hview. rewrite hget_hset. now destruct (Z.eqb k (o_key o)). Qed.

Lemma hframe_hset {A} (f : organism -> A) h o :
  hview f h (o_key o) = Some (f o) -> hframe f h (hset h o).
Proof.
  intros H k. rewrite hview_hset. destruct (Z.eqb_spec k (o_key o)) as [->|]; [now rewrite H|reflexivity].
Qed.

Lemma hframe_hset_get {A} (f : organism -> A) h o o' :
  hget h (o_key o') = Ok o -> f o' = f o -> hframe f h (hset h o').
Proof. intros H E. apply hframe_hset. rewrite (hview_get f _ _ _ H). now rewrite E. Qed.

Lemma hext_hset_fresh {A} (f : organism -> A) h o :
  hview f h (o_key o) = None -> hext f h (hset h o).
Proof.
  intros H k a E. rewrite hview_hset. destruct (Z.eqb_spec k (o_key o)) as [->|]; [congruence|exact E].
Qed.

Lemma hframe_hsets {A} (f : organism -> A) l : forall h,
  (forall x, In x l -> hview f h (o_key x) = Some (f x)) -> hframe f h (hsets h l).
Proof.
  unfold hsets. induction l as [|x l IH]; intros h H; cbn; [apply hframe_refl|].
  assert (F : hframe f h (hset h x)) by (apply hframe_hset, H; now left).
  eapply hframe_trans; [exact F|]. apply IH. intros y Hy. rewrite F. apply H. now right.
Qed.

(* the heap holds no key at or above [n] *)
Definition hbound (h : list organism) (n : Z) : Prop := forall k x, hget h k = Ok x -> k < n.

Lemma hbound_frame {A} (f : organism -> A) h h' n : hframe f h h' -> hbound h n -> hbound h' n.
Proof.
  intros F B k x E. pose proof (hview_get f _ _ _ E) as V. rewrite F in V.
  apply hview_some in V. destruct V as (y & Ey & _). eapply B; eauto.
Qed.

Lemma hbound_hset h o n : hbound h n -> o_key o < n -> hbound (hset h o) n.
Proof.
  intros B L k x E. rewrite hget_hset in E. destruct (Z.eqb_spec k (o_key o)) as [->|]; [assumption|eauto].
Qed.

Lemma hbound_mono h n m : hbound h n -> n <= m -> hbound h m.
Proof. intros B L k x E. specialize (B k x E). lia. Qed.

Lemma hgets_ok h ks : forall xs, hgets h ks = Ok xs -> Forall2 (fun k x => hget h k = Ok x) ks xs.
Proof.
  induction ks as [|k ks IH]; cbn; intros xs H.
  - injection H as <-. constructor.
  - destruct (hget h k) as [x| | | | |] eqn:E; cbn in H; try discriminate.
    destruct (hgets h ks) as [r| | | | |]; cbn in H; try discriminate.
    injection H as <-. constructor; [assumption|]. now apply IH.
Qed.

Lemma hgets_keys h ks xs : hgets h ks = Ok xs -> map o_key xs = ks.
Proof.
  intros H. apply hgets_ok in H. induction H as [|k x ks xs E _ IH]; cbn; [reflexivity|].
  f_equal; [now apply hget_key in E|exact IH].
Qed.

Lemma hgets_total h ks : (forall k, In k ks -> exists x, hget h k = Ok x) -> exists xs, hgets h ks = Ok xs.
Proof.
  induction ks as [|k ks IH]; intros H; cbn; [eauto|].
  destruct (H k (or_introl eq_refl)) as [x ->]. cbn.
  destruct IH as [xs ->]; [intros; apply H; now right|]. cbn. eauto.
Qed.

(* ---------- species lists ---------- *)
Definition members (l : list species) : list Z := concat (map sp_orgs l).
Definition meta (s : species) : Z * Z * bool := (sp_id s, sp_age s, sp_novel s).

Lemma members_in l k : In k (members l) <-> exists s, In s l /\ In k (sp_orgs s).
Proof.
  unfold members. rewrite in_concat. split.
  - intros (ks & Hks & Hk). apply in_map_iff in Hks. destruct Hks as (s & <- & Hs). eauto.
  - intros (s & Hs & Hk). exists (sp_orgs s). split; [now apply in_map|assumption].
Qed.

Lemma members_app l1 l2 : members (l1 ++ l2) = members l1 ++ members l2.
Proof. unfold members. now rewrite map_app, concat_app. Qed.

Lemma sp_find_some l id s : sp_find l id = Some s -> In s l /\ sp_id s = id.
Proof.
  induction l as [|y l IH]; cbn; [discriminate|]. destruct (Z.eqb_spec (sp_id y) id).
  - intros H. injection H as <-. auto.
  - intros H. destruct (IH H). auto.
Qed.

Lemma sp_find_none l id : sp_find l id = None -> forall s, In s l -> sp_id s <> id.
Proof.
  induction l as [|y l IH]; cbn; [intros _ s []|]. destruct (Z.eqb_spec (sp_id y) id); [discriminate|].
  intros H s [<-|Hs]; auto.
Qed.

Lemma sp_find_ex l id : (exists s, In s l /\ sp_id s = id) -> exists s, sp_find l id = Some s.
Proof.
  intros (s & Hs & E). destruct (sp_find l id) eqn:F; [eauto|]. exfalso. eapply sp_find_none; eauto.
Qed.

Lemma nodup_ids_eq l a b : NoDup (map sp_id l) -> In a l -> In b l -> sp_id a = sp_id b -> a = b.
Proof.
  induction l as [|y l IH]; cbn; intros Hn Ha Hb E; [contradiction|].
  inversion Hn as [|? ? Hy Hl]; subst.
  destruct Ha as [<-|Ha], Hb as [<-|Hb]; auto.
  - exfalso. apply Hy. rewrite E. now apply in_map.
  - exfalso. apply Hy. rewrite <- E. now apply in_map.
Qed.

Lemma sp_find_in l s : NoDup (map sp_id l) -> In s l -> sp_find l (sp_id s) = Some s.
Proof.
  intros Hn Hs. destruct (sp_find_ex l (sp_id s)) as [s' F]; [eauto|].
  destruct (sp_find_some _ _ _ F) as [Hs' E]. rewrite F. f_equal. eapply nodup_ids_eq; eauto.
Qed.

Lemma sp_find_app l1 l2 id :
  sp_find (l1 ++ l2) id = match sp_find l1 id with Some s => Some s | None => sp_find l2 id end.
Proof. induction l1 as [|y l IH]; cbn; [reflexivity|]. now destruct (Z.eqb (sp_id y) id). Qed.

Lemma sp_replace_ids l s' : map sp_id (sp_replace l s') = map sp_id l.
Proof.
  induction l as [|y l IH]; cbn; [reflexivity|]. destruct (Z.eqb_spec (sp_id y) (sp_id s')); cbn; congruence.
Qed.

Lemma sp_replace_meta l s' :
  (forall s, In s l -> sp_id s = sp_id s' -> meta s = meta s') -> map meta (sp_replace l s') = map meta l.
Proof.
  induction l as [|y l IH]; cbn; intros H; [reflexivity|].
  destruct (Z.eqb_spec (sp_id y) (sp_id s')); cbn.
  - f_equal. symmetry. apply H; auto.
  - f_equal. apply IH. intros; apply H; auto.
Qed.

Lemma sp_replace_in l s' y :
  NoDup (map sp_id l) -> In y (sp_replace l s') -> y = s' \/ (In y l /\ sp_id y <> sp_id s').
Proof.
  induction l as [|x l IH]; cbn; intros Hn Hy; [contradiction|].
  inversion Hn as [|? ? Hx Hl]; subst.
  destruct (Z.eqb_spec (sp_id x) (sp_id s')) as [E|E].
  - destruct Hy as [<-|Hy]; [now left|]. right. split; [now right|].
    intros E'. apply Hx. rewrite E, <- E'. now apply in_map.
  - destruct Hy as [<-|Hy]; [right; auto|]. destruct (IH Hl Hy) as [?|[? ?]]; auto.
Qed.

Lemma sp_replace_in_new l s' : (exists s, In s l /\ sp_id s = sp_id s') -> In s' (sp_replace l s').
Proof.
  induction l as [|x l IH]; cbn; intros (s & Hs & E); [contradiction|].
  destruct (Z.eqb_spec (sp_id x) (sp_id s')) as [E'|E']; [now left|].
  right. apply IH. destruct Hs as [<-|Hs]; [contradiction|eauto].
Qed.

Lemma sp_replace_in_old l s' y : In y l -> sp_id y <> sp_id s' -> In y (sp_replace l s').
Proof.
  induction l as [|x l IH]; cbn; intros Hy N; [contradiction|].
  destruct (Z.eqb_spec (sp_id x) (sp_id s')) as [E'|E'].
  - destruct Hy as [<-|Hy]; [contradiction|now right].
  - destruct Hy as [<-|Hy]; [now left|right; auto].
Qed.

Lemma sp_replace_app l1 l2 s' :
  sp_replace (l1 ++ l2) s' =
  match sp_find l1 (sp_id s') with Some _ => sp_replace l1 s' ++ l2 | None => l1 ++ sp_replace l2 s' end.
Proof.
  induction l1 as [|y l IH]; cbn; [reflexivity|]. destruct (Z.eqb (sp_id y) (sp_id s')); [reflexivity|].
  rewrite IH. now destruct (sp_find l (sp_id s')).
Qed.

Lemma sp_set_in l id f y :
  In y (sp_set l id f) <-> exists s, In s l /\ y = (if Z.eqb (sp_id s) id then f s else s).
Proof.
  unfold sp_set. rewrite in_map_iff. split; intros (s & A & B); exists s; auto.
Qed.

Lemma sp_set_ids l id f : (forall s, sp_id (f s) = sp_id s) -> map sp_id (sp_set l id f) = map sp_id l.
Proof.
  intros H. unfold sp_set. rewrite map_map. apply map_ext. intros s. now destruct (Z.eqb (sp_id s) id).
Qed.

Lemma sp_set_meta l id f : (forall s, meta (f s) = meta s) -> map meta (sp_set l id f) = map meta l.
Proof.
  intros H. unfold sp_set. rewrite map_map. apply map_ext. intros s. now destruct (Z.eqb (sp_id s) id).
Qed.

Lemma sp_set_notin l id f : (forall s, In s l -> sp_id s <> id) -> sp_set l id f = l.
Proof.
  intros H. unfold sp_set. rewrite <- (map_id l) at 2. apply map_ext_in. intros s Hs.
  destruct (Z.eqb_spec (sp_id s) id); [exfalso; eapply H; eauto|reflexivity].
Qed.

Lemma sp_set_app l1 l2 id f : sp_set (l1 ++ l2) id f = sp_set l1 id f ++ sp_set l2 id f.
Proof. unfold sp_set. apply map_app. Qed.

Lemma sp_set_length l id f : length (sp_set l id f) = length l.
Proof. unfold sp_set. apply map_length. Qed.

(* ---------- species lists that differ only in bookkeeping fields and member order ---------- *)
Definition sp_sim (s s' : species) : Prop :=
  sp_id s' = sp_id s /\ sp_age s' = sp_age s /\ sp_novel s' = sp_novel s /\ Permutation (sp_orgs s) (sp_orgs s').

Lemma sp_sim_refl s : sp_sim s s.
Proof. unfold sp_sim. auto. Qed.
Lemma sp_sim_trans a b c : sp_sim a b -> sp_sim b c -> sp_sim a c.
Proof.
  unfold sp_sim. intros (A1 & A2 & A3 & A4) (B1 & B2 & B3 & B4).
  repeat split; try congruence. now transitivity (sp_orgs b).
Qed.
Lemma sp_sim_meta a b : sp_sim a b -> meta b = meta a.
Proof. unfold sp_sim, meta. intros (-> & -> & -> & _). reflexivity. Qed.

Definition sp_rel (l l1 : list species) : Prop :=
  Permutation (map sp_id l) (map sp_id l1) /\
  (forall s1, In s1 l1 -> exists s, In s l /\ sp_sim s s1) /\
  (forall s, In s l -> exists s1, In s1 l1 /\ sp_sim s s1).

Lemma sp_rel_refl l : sp_rel l l.
Proof. split; [reflexivity|]. split; intros s Hs; exists s; split; auto using sp_sim_refl. Qed.

Lemma sp_rel_trans a b c : sp_rel a b -> sp_rel b c -> sp_rel a c.
Proof.
  intros (A1 & A2 & A3) (B1 & B2 & B3). split; [now transitivity (map sp_id b)|]. split.
  - intros s1 H1. destruct (B2 _ H1) as (s & Hs & S1). destruct (A2 _ Hs) as (s0 & Hs0 & S0).
    exists s0. split; [assumption|]. eapply sp_sim_trans; eauto.
  - intros s H. destruct (A3 _ H) as (s1 & Hs1 & S1). destruct (B3 _ Hs1) as (s2 & Hs2 & S2).
    exists s2. split; [assumption|]. eapply sp_sim_trans; eauto.
Qed.

Lemma sp_rel_perm l l1 : Permutation l l1 -> sp_rel l l1.
Proof.
  intros H. split; [now apply Permutation_map|]. split; intros s Hs; exists s; split; auto using sp_sim_refl.
  - eapply Permutation_in; [symmetry|]; eauto.
  - eapply Permutation_in; eauto.
Qed.

Lemma sp_rel_forall2 l l1 : Forall2 sp_sim l l1 -> sp_rel l l1.
Proof.
  intros H. split; [|split].
  - induction H as [|a b l l1 S _ IH]; cbn; [constructor|]. destruct S as (-> & _). now constructor.
  - induction H as [|a b l l1 S _ IH]; intros s1 Hi; cbn in Hi; [contradiction|]; destruct Hi as [<-|Hi].
    + exists a. split; [now left|assumption].
    + destruct (IH _ Hi) as (s & Hs & Ss). exists s. split; [now right|assumption].
  - induction H as [|a b l l1 S _ IH]; intros s Hi; cbn in Hi; [contradiction|]; destruct Hi as [<-|Hi].
    + exists b. split; [now left|assumption].
    + destruct (IH _ Hi) as (s1 & Hs & Ss). exists s1. split; [now right|assumption].
Qed.

Lemma forall2_sim_map l f : (forall s, sp_sim s (f s)) -> Forall2 sp_sim l (map f l).
Proof. intros H. induction l; cbn; constructor; auto. Qed.

Lemma forall2_sim_refl l : Forall2 sp_sim l l.
Proof. induction l; constructor; auto using sp_sim_refl. Qed.

Lemma forall2_sim_trans a : forall b c, Forall2 sp_sim a b -> Forall2 sp_sim b c -> Forall2 sp_sim a c.
Proof.
  induction a as [|x a IH]; intros b c H1 H2; inversion H1; subst; inversion H2; subst; constructor.
  - eapply sp_sim_trans; eauto.
  - eapply IH; eauto.
Qed.

Lemma forall2_sim_set l id f : (forall s, sp_sim s (f s)) -> Forall2 sp_sim l (sp_set l id f).
Proof.
  intros H. unfold sp_set. apply forall2_sim_map. intros s. destruct (Z.eqb (sp_id s) id); auto using sp_sim_refl.
Qed.

Lemma forall2_sim_replace l s' :
  (forall s, In s l -> sp_id s = sp_id s' -> sp_sim s s') -> Forall2 sp_sim l (sp_replace l s').
Proof.
  induction l as [|y l IH]; cbn; intros H; [constructor|].
  destruct (Z.eqb_spec (sp_id y) (sp_id s')).
  - constructor; [apply H; auto|apply forall2_sim_refl].
  - constructor; [apply sp_sim_refl|]. apply IH. intros; apply H; auto.
Qed.

Lemma forall2_sim_meta l l1 : Forall2 sp_sim l l1 -> map meta l1 = map meta l.
Proof. induction 1 as [|a b l l1 S _ IH]; cbn; [reflexivity|]. f_equal; [now apply sp_sim_meta|exact IH]. Qed.

(* ---------- the membership invariant ---------- *)
(* [P k]: key k is expected to be listed by a species *)
Record Wf (l : list species) (h : list organism) (P : Z -> Prop) : Prop := {
  wf_ids : NoDup (map sp_id l);
  wf_nodup : forall s, In s l -> NoDup (sp_orgs s);
  wf_link : forall s k, In s l -> In k (sp_orgs s) -> sp_of h k = Some (sp_id s);
  wf_incl : forall s k, In s l -> In k (sp_orgs s) -> P k;
  wf_cover : forall k, P k -> exists s, In s l /\ In k (sp_orgs s) }.

Lemma Wf_rel l l1 h P : Wf l h P -> sp_rel l l1 -> Wf l1 h P.
Proof.
  intros [W1 W2 W3 W4 W5] (R1 & R2 & R3). constructor.
  - eapply Permutation_NoDup; eauto.
  - intros s1 H1. destruct (R2 _ H1) as (s & Hs & (_ & _ & _ & Pm)). eapply Permutation_NoDup; eauto.
  - intros s1 k H1 Hk. destruct (R2 _ H1) as (s & Hs & (E & _ & _ & Pm)). rewrite E. apply W3; [assumption|].
    eapply Permutation_in; [symmetry|]; eauto.
  - intros s1 k H1 Hk. destruct (R2 _ H1) as (s & Hs & (E & _ & _ & Pm)). apply (W4 s); [assumption|].
    eapply Permutation_in; [symmetry|]; eauto.
  - intros k Hk. destruct (W5 _ Hk) as (s & Hs & Hin). destruct (R3 _ Hs) as (s1 & H1 & (_ & _ & _ & Pm)).
    exists s1. split; [assumption|]. eapply Permutation_in; eauto.
Qed.

Lemma Wf_ext l h h' P : Wf l h P -> hext o_species h h' -> Wf l h' P.
Proof. intros [W1 W2 W3 W4 W5] E. constructor; auto; intros s k Hs Hk; apply E; now apply W3. Qed.

Lemma Wf_iff l h P Q : Wf l h P -> (forall k, P k <-> Q k) -> Wf l h Q.
Proof.
  intros [W1 W2 W3 W4 W5] E. constructor; auto.
  - intros s k Hs Hk. apply E. eauto.
  - intros k Hk. apply W5. now apply E.
Qed.

Lemma Wf_same_species l h P a b k :
  Wf l h P -> In a l -> In b l -> In k (sp_orgs a) -> In k (sp_orgs b) -> a = b.
Proof.
  intros W Ha Hb Ka Kb. apply (nodup_ids_eq l); auto.
  - eapply wf_ids; eauto.
  - pose proof (wf_link _ _ _ W a k Ha Ka) as E1. pose proof (wf_link _ _ _ W b k Hb Kb) as E2. congruence.
Qed.

Lemma Wf_find l h P k sid :
  Wf l h P -> P k -> sp_of h k = Some sid -> exists s, sp_find l sid = Some s /\ In s l /\ In k (sp_orgs s).
Proof.
  intros W Hk E. destruct (wf_cover _ _ _ W k Hk) as (s & Hs & Hin). exists s.
  pose proof (wf_link _ _ _ W s k Hs Hin) as E'. rewrite E in E'. injection E' as ->.
  split; [|auto]. apply sp_find_in; [eapply wf_ids; eauto|assumption].
Qed.

Lemma Wf_members_nodup l h P : Wf l h P -> NoDup (members l).
Proof.
  intros W.
  assert (G : forall l0, NoDup (map sp_id l0) -> (forall s, In s l0 -> In s l) -> NoDup (members l0)).
  { induction l0 as [|a l0 IH]; intros Hn0 Hs; [constructor|].
    inversion Hn0 as [|? ? Ha Hl]; subst. change (members (a :: l0)) with (sp_orgs a ++ members l0).
    apply nodup_app.
    - eapply wf_nodup; eauto. apply Hs. now left.
    - apply IH; [assumption|]. intros; apply Hs; now right.
    - intros k Ka Kb. apply members_in in Kb. destruct Kb as (b & Hb & Kb).
      assert (a = b). { eapply Wf_same_species; eauto; apply Hs; [now left|now right]. }
      subst b. apply Ha. now apply in_map. }
  apply G; [eapply wf_ids; eauto|auto].
Qed.

(* ---------- removing an organism from its species ---------- *)
Definition all_sp (p : population) : list species := p_species p ++ p_detached p.
Definition drop_key (k : Z) (s : species) : species :=
  sp_with_orgs s (filter (fun x => negb (Z.eqb x k)) (sp_orgs s)).
Arguments drop_key k s /.

Lemma remove_org_ok l sid k l' : remove_org l sid k = Ok l' ->
  exists s, sp_find l sid = Some s /\ l' = sp_replace l (drop_key k s).
Proof.
  unfold remove_org. destruct (sp_find l sid) as [s|]; [|discriminate].
  destruct (_ && _); [|discriminate]. intros H; injection H as <-. eauto.
Qed.

Lemma remove_org_total l sid k s :
  sp_find l sid = Some s -> NoDup (sp_orgs s) -> In k (sp_orgs s) -> exists l', remove_org l sid k = Ok l'.
Proof.
  intros F Hn Hi. unfold remove_org. rewrite F. destruct (filter_neq_length _ _ Hn Hi) as [E Hz].
  rewrite E, Nat.eqb_refl. cbn. destruct (Nat.eqb_spec (length (sp_orgs s)) 0); [contradiction|]. cbn. eauto.
Qed.

Lemma sp_replace_found_meta l id s s' :
  sp_find l id = Some s -> sp_id s' = id -> meta s' = meta s -> map meta (sp_replace l s') = map meta l.
Proof.
  intros F <- M. induction l as [|y l IH]; cbn in *; [reflexivity|].
  destruct (Z.eqb_spec (sp_id y) (sp_id s')).
  - injection F as ->. cbn. now rewrite M.
  - cbn. f_equal. auto.
Qed.

Lemma sp_replace_drop_members l id s k :
  sp_find l id = Some s ->
  forall k', k' <> k -> (exists y, In y l /\ In k' (sp_orgs y)) ->
  exists y, In y (sp_replace l (drop_key k s)) /\ In k' (sp_orgs y).
Proof.
  intros F k' N. induction l as [|x l IH]; cbn in *; [discriminate|].
  change (sp_id (drop_key k s)) with (sp_id s).
  pose proof (sp_find_some (x :: l) id s) as Hs. cbn in Hs. specialize (Hs F). destruct Hs as [_ Es].
  rewrite Es. destruct (Z.eqb_spec (sp_id x) id) as [E|E].
  - injection F as ->. intros (y & [<-|Hy] & Hk).
    + exists (drop_key k s). split; [now left|]. cbn. apply filter_neq_in. auto.
    + exists y. split; [now right|assumption].
  - intros (y & [<-|Hy] & Hk).
    + exists x. split; [now left|assumption].
    + destruct (IH F) as (y' & Hy' & Hk'); [eauto|]. exists y'. split; [now right|assumption].
Qed.

Lemma remove_org_app sps det sid k l' :
  remove_org (sps ++ det) sid k = Ok l' ->
  match sp_find sps sid with
  | Some _ => exists l1, remove_org sps sid k = Ok l1 /\ l' = l1 ++ det
  | None => exists l1, remove_org det sid k = Ok l1 /\ l' = sps ++ l1
  end.
Proof.
  unfold remove_org. rewrite sp_find_app. destruct (sp_find sps sid) as [s|] eqn:F.
  - destruct (_ && _); [|discriminate]. intros H; injection H as <-. eexists. split; [reflexivity|].
    rewrite sp_replace_app. cbn [sp_id sp_with_orgs]. destruct (sp_find_some _ _ _ F) as [_ ->]. now rewrite F.
  - destruct (sp_find det sid) as [s|] eqn:F2; [|discriminate].
    destruct (_ && _); [|discriminate]. intros H; injection H as <-. eexists. split; [reflexivity|].
    rewrite sp_replace_app. cbn [sp_id sp_with_orgs]. destruct (sp_find_some _ _ _ F2) as [_ ->]. now rewrite F.
Qed.

Lemma remove_from_species_ok p x p1 :
  remove_from_species p x = Ok p1 ->
  remove_org (all_sp p) (o_species x) (o_key x) = Ok (all_sp p1) /\
  map meta (p_species p1) = map meta (p_species p) /\
  (forall k', k' <> o_key x -> (exists y, In y (p_species p) /\ In k' (sp_orgs y)) ->
              exists y, In y (p_species p1) /\ In k' (sp_orgs y)) /\
  p_heap p1 = p_heap p /\ p_orgs p1 = p_orgs p /\ p_last_species p1 = p_last_species p /\
  p_next_key p1 = p_next_key p.
Proof.
  unfold remove_from_species, all_sp. destruct (sp_find (p_species p) (o_species x)) as [s0|] eqn:F.
  - destruct (remove_org (p_species p) (o_species x) (o_key x)) as [l| | | | |] eqn:R; try discriminate.
    cbn. intros H. injection H as <-. cbn.
    pose proof R as R'. apply remove_org_ok in R'. destruct R' as (s & Fs & ->). rewrite F in Fs. injection Fs as <-.
    split; [|split; [|split]]; auto.
    + unfold remove_org in R |- *. rewrite F in R. rewrite sp_find_app, F. destruct (_ && _); [|discriminate R].
      f_equal. rewrite sp_replace_app. cbn [sp_id drop_key sp_with_orgs]. destruct (sp_find_some _ _ _ F) as [_ ->]. now rewrite F.
    + eapply sp_replace_found_meta; eauto. now destruct (sp_find_some _ _ _ F).
    + intros k' N. eapply sp_replace_drop_members; eauto.
  - destruct (remove_org (p_detached p) (o_species x) (o_key x)) as [l| | | | |] eqn:R; try discriminate.
    cbn. intros H. injection H as <-. cbn.
    pose proof R as R'. apply remove_org_ok in R'. destruct R' as (s & Fs & ->).
    split; [|split; [|split]]; auto.
    unfold remove_org in R |- *. rewrite Fs in R. rewrite sp_find_app, F, Fs. destruct (_ && _); [|discriminate R].
    f_equal. rewrite sp_replace_app. cbn [sp_id drop_key sp_with_orgs]. destruct (sp_find_some _ _ _ Fs) as [_ ->]. now rewrite F.
Qed.

Lemma remove_from_species_total p x l' :
  remove_org (all_sp p) (o_species x) (o_key x) = Ok l' -> exists p1, remove_from_species p x = Ok p1.
Proof.
  intros H. apply remove_org_app in H. unfold remove_from_species.
  destruct (sp_find (p_species p) (o_species x)); destruct H as (l1 & -> & _); cbn; eauto.
Qed.

Lemma Wf_remove l h P k sid l' :
  Wf l h P -> sp_of h k = Some sid -> P k -> remove_org l sid k = Ok l' ->
  Wf l' h (fun x => P x /\ x <> k).
Proof.
  intros W E Hk R. apply remove_org_ok in R. destruct R as (s & F & ->).
  destruct (Wf_find _ _ _ _ _ W Hk E) as (s0 & F0 & Hs & Ks). rewrite F in F0. injection F0 as <-.
  destruct (sp_find_some _ _ _ F) as [_ Eid].
  pose proof (wf_ids _ _ _ W) as Hn.
  assert (Eid' : sp_id (drop_key k s) = sp_id s) by reflexivity.
  constructor.
  - now rewrite sp_replace_ids.
  - intros y Hy. apply sp_replace_in in Hy; [|assumption]. destruct Hy as [->|[Hy _]].
    + cbn. apply NoDup_filter. eapply wf_nodup; eauto.
    + eapply wf_nodup; eauto.
  - intros y k' Hy Hk'. apply sp_replace_in in Hy; [|assumption]. destruct Hy as [->|[Hy _]].
    + cbn in Hk'. apply filter_neq_in in Hk'. destruct Hk' as [Hk' _]. rewrite Eid'. eapply wf_link; eauto.
    + eapply wf_link; eauto.
  - intros y k' Hy Hk'. apply sp_replace_in in Hy; [|assumption]. destruct Hy as [->|[Hy Ny]].
    + cbn in Hk'. apply filter_neq_in in Hk'. destruct Hk' as [Hk' Nk]. split; [|assumption]. eapply wf_incl; eauto.
    + split; [eapply wf_incl; eauto|]. intros ->. apply Ny. rewrite Eid'. f_equal.
      eapply Wf_same_species; eauto.
  - intros k' [Hk' Nk]. destruct (wf_cover _ _ _ W k' Hk') as (y & Hy & Ky).
    destruct (Z.eq_dec (sp_id y) (sp_id s)) as [Ey|Ny].
    + assert (y = s) by (eapply nodup_ids_eq; eauto). subst y. exists (drop_key k s). split.
      * apply sp_replace_in_new. eauto.
      * cbn. apply filter_neq_in. auto.
    + exists y. split; [|assumption]. apply sp_replace_in_old; auto.
Qed.

Lemma Wf_remove_total l h P k sid :
  Wf l h P -> sp_of h k = Some sid -> P k -> exists l', remove_org l sid k = Ok l'.
Proof.
  intros W E Hk. destruct (Wf_find _ _ _ _ _ W Hk E) as (s & F & Hs & Ks).
  eapply remove_org_total; eauto. eapply wf_nodup; eauto.
Qed.

(* ---------- adding an organism to a species / founding a species ---------- *)
Definition add_key (k : Z) (s : species) : species := sp_with_orgs s (sp_orgs s ++ [k]).
Arguments add_key k s /.

Lemma Wf_add_member l h h' P k id :
  Wf l h P -> ~ P k -> (exists s, In s l /\ sp_id s = id) ->
  (forall k', k' <> k -> sp_of h' k' = sp_of h k') -> sp_of h' k = Some id ->
  Wf (sp_set l id (add_key k)) h' (fun x => P x \/ x = k).
Proof.
  intros W Nk (s0 & Hs0 & E0) Fr Ek.
  assert (Nin : forall s, In s l -> ~ In k (sp_orgs s)).
  { intros s Hs Hi. apply Nk. eapply wf_incl; eauto. }
  constructor.
  - rewrite sp_set_ids; [eapply wf_ids; eauto|reflexivity].
  - intros y Hy. apply sp_set_in in Hy. destruct Hy as (s & Hs & ->).
    destruct (Z.eqb (sp_id s) id); [|eapply wf_nodup; eauto]. cbn.
    apply nodup_app; [eapply wf_nodup; eauto|repeat constructor; intros []|].
    intros x Hx [<-|[]]. eapply Nin; eauto.
  - intros y k' Hy Hk'. apply sp_set_in in Hy. destruct Hy as (s & Hs & ->).
    destruct (Z.eqb_spec (sp_id s) id) as [Es|Ns].
    + cbn in Hk'. apply in_app_or in Hk'. destruct Hk' as [Hk'|[<-|[]]].
      * rewrite Fr; [exact (wf_link _ _ _ W s k' Hs Hk')|]. intros ->. eapply Nin; eauto.
      * cbn. now rewrite Es.
    + rewrite Fr; [exact (wf_link _ _ _ W s k' Hs Hk')|]. intros ->. eapply Nin; eauto.
  - intros y k' Hy Hk'. apply sp_set_in in Hy. destruct Hy as (s & Hs & ->).
    destruct (Z.eqb (sp_id s) id).
    + cbn in Hk'. apply in_app_or in Hk'. destruct Hk' as [Hk'|[<-|[]]]; [left; eapply wf_incl; eauto|now right].
    + left. eapply wf_incl; eauto.
  - intros k' [Hk'| ->].
    + destruct (wf_cover _ _ _ W k' Hk') as (s & Hs & Ks).
      exists (if Z.eqb (sp_id s) id then add_key k s else s). split; [apply sp_set_in; eauto|].
      destruct (Z.eqb (sp_id s) id); [cbn; apply in_or_app; now left|assumption].
    + exists (add_key k s0). split.
      * apply sp_set_in. exists s0. split; [assumption|]. rewrite E0, Z.eqb_refl. reflexivity.
      * cbn. apply in_or_app. right. now left.
Qed.

Lemma Wf_add_species l h h' P k id :
  Wf l h P -> ~ P k -> (forall s, In s l -> sp_id s <> id) ->
  (forall k', k' <> k -> sp_of h' k' = sp_of h k') -> sp_of h' k = Some id ->
  Wf (new_species id k :: l) h' (fun x => P x \/ x = k).
Proof.
  intros W Nk Nid Fr Ek.
  assert (Nin : forall s, In s l -> ~ In k (sp_orgs s)).
  { intros s Hs Hi. apply Nk. eapply wf_incl; eauto. }
  constructor.
  - cbn. constructor; [|eapply wf_ids; eauto]. intros Hi. apply in_map_iff in Hi.
    destruct Hi as (s & E & Hs). eapply Nid; eauto.
  - intros y [<-|Hy]; [cbn; repeat constructor; intros []|eapply wf_nodup; eauto].
  - intros y k' [<-|Hy] Hk'.
    + cbn in Hk'. destruct Hk' as [<-|[]]. exact Ek.
    + rewrite Fr; [exact (wf_link _ _ _ W y k' Hy Hk')|]. intros ->. eapply Nin; eauto.
  - intros y k' [<-|Hy] Hk'.
    + cbn in Hk'. destruct Hk' as [<-|[]]. now right.
    + left. eapply wf_incl; eauto.
  - intros k' [Hk'| ->].
    + destruct (wf_cover _ _ _ W k' Hk') as (s & Hs & Ks). exists s. split; [now right|assumption].
    + exists (new_species id k). split; [now left|]. cbn. now left.
Qed.

(* ---------- inversion of [bind] on plain results ---------- *)
Lemma bind_ok {A B} (r : res A) (f : A -> res B) b : bind r f = Ok b -> exists a, r = Ok a /\ f a = Ok b.
Proof. destruct r; cbn; try discriminate. eauto. Qed.

Tactic Notation "rbind" hyp(H) "as" ident(a) ident(Ha) :=
  apply bind_ok in H; destruct H as [a [Ha H]].

Lemma hgets_in h ks xs x : hgets h ks = Ok xs -> In x xs -> hget h (o_key x) = Ok x /\ In (o_key x) ks.
Proof.
  intros H. apply hgets_ok in H. induction H as [|k y ks xs E _ IH]; intros Hi; [contradiction|].
  destruct Hi as [->|Hi].
  - pose proof (hget_key _ _ _ E) as Ek. rewrite Ek. split; [assumption|now left].
  - destruct (IH Hi). split; [assumption|now right].
Qed.

Lemma first_org_ok h s c : first_org h s = Ok c -> exists k r, sp_orgs s = k :: r /\ hget h k = Ok c.
Proof. unfold first_org. destruct (sp_orgs s) as [|k r]; [discriminate|]. eauto. Qed.

(* species pointer and elimination mark: what the phases after adjustFitness leave alone *)
Definition pe (x : organism) : Z * bool := (o_species x, o_elim x).

Lemma hframe_comp {A B} (f : organism -> A) (g : A -> B) h h' :
  hframe f h h' -> hframe (fun x => g (f x)) h h'.
Proof.
  intros F k. specialize (F k). unfold hview in *.
  destruct (hget h' k), (hget h k); try discriminate; try reflexivity. injection F as ->. reflexivity.
Qed.

Lemma hext_comp {A B} (f : organism -> A) (g : A -> B) h h' :
  hext f h h' -> hext (fun x => g (f x)) h h'.
Proof.
  intros E k b Hb. apply hview_some in Hb. destruct Hb as (x & Hx & <-).
  pose proof (E k (f x) (hview_get f _ _ _ Hx)) as V. apply hview_some in V. destruct V as (y & Hy & Ey).
  rewrite (hview_get _ _ _ _ Hy). now rewrite Ey.
Qed.

Lemma hext_pe_species h h' : hext pe h h' -> hext o_species h h'.
Proof. intros F. exact (hext_comp pe fst h h' F). Qed.
Lemma hext_pe_elim h h' : hext pe h h' -> hext o_elim h h'.
Proof. intros F. exact (hext_comp pe snd h h' F). Qed.

Lemma hframe_pe_species h h' : hframe pe h h' -> hframe o_species h h'.
Proof. intros F. exact (hframe_comp pe fst h h' F). Qed.
Lemma hframe_pe_elim h h' : hframe pe h h' -> hframe o_elim h h'.
Proof. intros F. exact (hframe_comp pe snd h h' F). Qed.

Lemma set_champ_super_ok h s n h1 : set_champ_super h s n = Ok h1 -> hframe pe h h1.
Proof.
  unfold set_champ_super. intros H. rbind H as c Hc. injection H as <-.
  apply first_org_ok in Hc. destruct Hc as (k & r & _ & Hk).
  apply (hframe_hset_get pe h c); [|reflexivity]. cbn. now rewrite (hget_key _ _ _ Hk).
Qed.

Lemma forall2_sim_ids l l1 : Forall2 sp_sim l l1 -> map sp_id l1 = map sp_id l.
Proof. induction 1 as [|a b l l1 S _ IH]; cbn; [reflexivity|]. f_equal; [apply S|exact IH]. Qed.

Lemma forall2_sim_replace_nodup l b s' :
  NoDup (map sp_id l) -> In b l -> sp_sim b s' -> Forall2 sp_sim l (sp_replace l s').
Proof.
  intros Hn Hb S. apply forall2_sim_replace. intros s Hs E.
  assert (s = b); [|now subst]. eapply nodup_ids_eq; eauto. destruct S as (Eb & _). congruence.
Qed.

Ltac splits := repeat match goal with |- _ /\ _ => split end.

(* ---------- the invariant between epochs ---------- *)
(* genome id of the organism stored under key k (-1: no such organism) *)
Definition gid_at (h : list organism) (k : Z) : Z :=
  match hget h k with Ok x => ogid x | _ => -1 end.

Record Part (p : population) : Prop := {
  (* Population.Organisms lists no organism twice, and every listed key denotes an organism *)
  part_orgs_nodup : NoDup (p_orgs p);
  part_heap : forall k, In k (p_orgs p) -> exists x, hget (p_heap p) k = Ok x /\ o_key x = k;
  (* species ids are unique and not above the LastSpecies counter; no species is empty *)
  part_ids : NoDup (map sp_id (p_species p));
  part_last : forall s, In s (p_species p) -> sp_id s <= p_last_species p;
  part_nonempty : forall s, In s (p_species p) -> sp_orgs s <> [];
  (* no organism is listed twice, neither within one species nor by two species *)
  part_once : NoDup (members (p_species p));
  (* species list only organisms of the population *)
  part_incl : forall s k, In s (p_species p) -> In k (sp_orgs s) -> In k (p_orgs p);
  (* the species an organism points to exists and lists it *)
  part_back : forall k x, In k (p_orgs p) -> hget (p_heap p) k = Ok x ->
              exists s, In s (p_species p) /\ sp_id s = o_species x /\ In k (sp_orgs s);
  (* genome ids are unique *)
  part_gids : NoDup (map (gid_at (p_heap p)) (p_orgs p));
  (* fresh keys are fresh; no species is detached between epochs *)
  part_bound : hbound (p_heap p) (p_next_key p);
  part_detached : p_detached p = [] }.

(* no organism of the population carries a stale elimination mark *)
Definition fresh_keys (h : list organism) (ks : list Z) : Prop :=
  forall k x, In k ks -> hget h k = Ok x -> o_elim x = false.
Definition Fresh (p : population) : Prop := fresh_keys (p_heap p) (p_orgs p).

Lemma nodup_members_same l a b k :
  NoDup (members l) -> In a l -> In b l -> In k (sp_orgs a) -> In k (sp_orgs b) -> a = b.
Proof.
  induction l as [|c l IH]; intros Hn Ha Hb Ka Kb; [contradiction|].
  change (members (c :: l)) with (sp_orgs c ++ members l) in Hn.
  apply nodup_app_inv in Hn. destruct Hn as (N1 & N2 & N3).
  destruct Ha as [<-|Ha], Hb as [<-|Hb]; auto.
  - exfalso. apply (N3 k); [assumption|]. apply members_in. eauto.
  - exfalso. apply (N3 k); [assumption|]. apply members_in. eauto.
Qed.

Lemma Part_Wf p : Part p -> Wf (p_species p) (p_heap p) (fun k => In k (p_orgs p)).
Proof.
  intros [P1 P2 P3 P4 P5 P6 P7 P8 P9 P10 P11]. constructor; auto.
  - intros s Hs. apply (nodup_concat_in (map sp_orgs (p_species p))); [exact P6|now apply in_map].
  - intros s k Hs Hk. pose proof (P7 _ _ Hs Hk) as Ho. destruct (P2 _ Ho) as (x & Hx & _).
    destruct (P8 _ _ Ho Hx) as (s' & Hs' & E & Hk'). unfold sp_of. rewrite (hview_get _ _ _ _ Hx). f_equal.
    rewrite <- E. f_equal. eapply nodup_members_same; eauto.
  - intros k Hk. destruct (P2 _ Hk) as (x & Hx & _). destruct (P8 _ _ Hk Hx) as (s & Hs & _ & Hi). eauto.
Qed.

Lemma Wf_Part p :
  Wf (p_species p) (p_heap p) (fun k => In k (p_orgs p)) -> NoDup (p_orgs p) ->
  (forall s, In s (p_species p) -> sp_id s <= p_last_species p) ->
  (forall s, In s (p_species p) -> sp_orgs s <> []) ->
  NoDup (map (gid_at (p_heap p)) (p_orgs p)) -> hbound (p_heap p) (p_next_key p) -> p_detached p = [] ->
  Part p.
Proof.
  intros W Hn Hl He Hg Hb Hd. constructor; auto.
  - intros k Hk. destruct (wf_cover _ _ _ W k Hk) as (s & Hs & Hi).
    pose proof (wf_link _ _ _ W s k Hs Hi) as E. apply hview_some in E. destruct E as (x & Hx & _).
    exists x. split; [assumption|]. eapply hget_key; eauto.
  - eapply wf_ids; eauto.
  - eapply Wf_members_nodup; eauto.
  - intros s k Hs Hk. apply (wf_incl _ _ _ W s k Hs Hk).
  - intros k x Hk Hx. destruct (wf_cover _ _ _ W k Hk) as (s & Hs & Hi). exists s. splits; auto.
    pose proof (wf_link _ _ _ W s k Hs Hi) as E. unfold sp_of in E. rewrite (hview_get _ _ _ _ Hx) in E.
    now injection E.
Qed.

Lemma gid_at_frame h h' k : hframe ogid h h' -> gid_at h' k = gid_at h k.
Proof.
  intros F. specialize (F k). unfold gid_at, hview in *.
  destruct (hget h' k), (hget h k); try discriminate; try reflexivity. now injection F.
Qed.
