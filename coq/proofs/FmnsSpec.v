(* C15, fast-solver model file: what is written is read back as the same solver, which therefore computes the
   same outputs (model: model/Fmns.v over model/Fast.v). *)
From Coq Require Import String Lia.
From NeatModel Require Import Res Net Fast Fmns FlushFast FlushBuild.
Open Scope Z_scope.

Section FmnsSpec.
Variable F : Type.
Variable finite : F -> bool.
Variable name_of : Z -> res string.
Variable type_of : string -> res Z.

Notation fmns_write := (fmns_write finite name_of).
Notation fmns_read := (fmns_read type_of).
Notation names_of := (names_of name_of).
Notation types_of := (types_of type_of).
Notation write_modules := (write_modules name_of).
Notation read_modules := (read_modules type_of).

Definition registered (c : Z) : Prop := exists n, name_of c = Ok n.

(* ---------- small facts ---------- *)

Lemma as_err_ok {A} code (r : res A) a : as_err code r = Ok a -> r = Ok a.
Proof. destruct r; simpl; intros H; try discriminate; exact H. Qed.

Lemma bind_ok {A B} (r : res A) (k : A -> res B) b :
  bind r k = Ok b -> exists a, r = Ok a /\ k a = Ok b.
Proof. destruct r; simpl; intros H; try discriminate. eauto. Qed.

Lemma smodule_eta m : mkSmodule (sm_act m) (sm_ins m) (sm_outs m) = m.
Proof. destruct m; reflexivity. Qed.

Lemma dmodule_eta m : mkDmodule (dm_act m) (dm_ins m) (dm_outs m) = m.
Proof. destruct m; reflexivity. Qed.

Lemma floats_ok_inv l u : floats_ok finite l = Ok u -> forallb finite l = true.
Proof. unfold floats_ok. destruct (forallb finite l); [reflexivity|discriminate]. Qed.

Lemma floats_ok_intro l : forallb finite l = true -> floats_ok finite l = Ok tt.
Proof. unfold floats_ok. intros ->. reflexivity. Qed.

(* ---------- names <-> types ---------- *)
Section Forward.
Hypothesis type_of_name_of : forall c n, name_of c = Ok n -> type_of n = Ok c.

Lemma names_types l : forall ns, names_of l = Ok ns -> types_of ns = Ok l.
Proof.
  induction l as [|c l IH]; simpl; intros ns H.
  - injection H as <-. reflexivity.
  - apply bind_ok in H. destruct H as (n & Hn & H). apply as_err_ok in Hn.
    apply bind_ok in H. destruct H as (ns' & Hns & H). injection H as <-.
    simpl. rewrite (type_of_name_of _ _ Hn). simpl. rewrite (IH _ Hns). reflexivity.
Qed.

Lemma modules_roundtrip l : forall ms, write_modules l = Ok ms -> read_modules ms = Ok l.
Proof.
  induction l as [|m l IH]; simpl; intros ms H.
  - injection H as <-. reflexivity.
  - apply bind_ok in H. destruct H as (n & Hn & H). apply as_err_ok in Hn.
    apply bind_ok in H. destruct H as (ms' & Hms & H). injection H as <-.
    simpl. rewrite (type_of_name_of _ _ Hn). simpl. rewrite (IH _ Hms). simpl.
    rewrite smodule_eta. reflexivity.
Qed.
End Forward.

Lemma names_of_ok l : Forall registered l -> exists ns, names_of l = Ok ns.
Proof.
  induction 1 as [|c l [n Hn] _ [ns IH]]; simpl.
  - eauto.
  - rewrite Hn. simpl. rewrite IH. simpl. eauto.
Qed.

Lemma names_of_registered l ns : names_of l = Ok ns -> Forall registered l.
Proof.
  revert ns. induction l as [|c l IH]; simpl; intros ns H; constructor.
  - apply bind_ok in H. destruct H as (n & Hn & _). apply as_err_ok in Hn. exists n. exact Hn.
  - apply bind_ok in H. destruct H as (n & _ & H). apply bind_ok in H. destruct H as (ns' & Hns & _).
    exact (IH _ Hns).
Qed.

Lemma write_modules_ok l : Forall (fun m => registered (sm_act m)) l -> exists ms, write_modules l = Ok ms.
Proof.
  induction 1 as [|m l [n Hn] _ [ms IH]]; simpl.
  - eauto.
  - rewrite Hn. simpl. rewrite IH. simpl. eauto.
Qed.

Lemma write_modules_registered l ms : write_modules l = Ok ms -> Forall (fun m => registered (sm_act m)) l.
Proof.
  revert ms. induction l as [|m l IH]; simpl; intros ms H; constructor.
  - apply bind_ok in H. destruct H as (n & Hn & _). apply as_err_ok in Hn. exists n. exact Hn.
  - apply bind_ok in H. destruct H as (n & _ & H). apply bind_ok in H. destruct H as (ms' & Hms & _).
    exact (IH _ Hms).
Qed.

(* ---------- the constructor's loop over the connections ---------- *)
Lemma conns_of_some t (l : list (slink F)) :
  forallb (fun c => idx_ok t (sl_src c) && idx_ok t (sl_tgt c)) l = true ->
  conns_of t (map Some l) = Ok l.
Proof.
  induction l as [|c l IH]; simpl; intros H; [reflexivity|].
  apply andb_true_iff in H. destruct H as [Hc Hl]. rewrite Hc. rewrite (IH Hl). reflexivity.
Qed.

Lemma conns_of_inv t (l : list (option (slink F))) : forall cs,
  conns_of t l = Ok cs ->
  l = map Some cs /\ forallb (fun c => idx_ok t (sl_src c) && idx_ok t (sl_tgt c)) cs = true.
Proof.
  induction l as [|[c|] l IH]; simpl; intros cs H.
  - injection H as <-. split; reflexivity.
  - destruct (idx_ok t (sl_src c) && idx_ok t (sl_tgt c)) eqn:E; [|discriminate].
    apply bind_ok in H. destruct H as (cs' & Hcs & H). injection H as <-.
    destruct (IH _ Hcs) as [-> Hf]. simpl. rewrite E, Hf. split; reflexivity.
  - discriminate.
Qed.

Lemma fsolver_eta (s : fsolver F) : with_id_name s (s_id s) (s_name s) = s.
Proof. destruct s; reflexivity. Qed.

(* ---------- when WriteModel succeeds ---------- *)
Definition writable (s : fsolver F) : Prop :=
  Forall registered (s_acts s) /\ Forall (fun m => registered (sm_act m)) (s_modules s) /\
  forallb finite (s_biases s) = true /\ forallb finite (flat_map link_floats (s_conns s)) = true.

Theorem fmns_write_ok (s : fsolver F) : writable s -> exists d, fmns_write s = Ok d.
Proof.
  intros (Ha & Hm & Hb & Hc). unfold Fmns.fmns_write.
  destruct (names_of_ok _ Ha) as [ns ->]. simpl.
  rewrite (floats_ok_intro _ Hb). simpl. rewrite (floats_ok_intro _ Hc). simpl.
  destruct (write_modules_ok _ Hm) as [ms ->]. simpl. eauto.
Qed.

Theorem fmns_write_ok_inv (s : fsolver F) d : fmns_write s = Ok d -> writable s.
Proof.
  unfold Fmns.fmns_write. intros H.
  apply bind_ok in H. destruct H as (ns & Hns & H).
  apply bind_ok in H. destruct H as (u1 & Hb & H).
  apply bind_ok in H. destruct H as (u2 & Hc & H).
  apply bind_ok in H. destruct H as (ms & Hms & _).
  split; [exact (names_of_registered _ _ Hns)|].
  split; [exact (write_modules_registered _ _ Hms)|].
  split; [exact (floats_ok_inv _ _ Hb) | exact (floats_ok_inv _ _ Hc)].
Qed.

(* the document WriteModel produces, field by field *)
Theorem fmns_write_fields (s : fsolver F) d : fmns_write s = Ok d ->
  d_id d = s_id s /\ d_name d = s_name s /\ d_in d = s_in s /\ d_sensor d = s_bias s + s_in s /\
  d_out d = s_out s /\ d_bias d = s_bias s /\ d_total d = s_total s /\
  names_of (s_acts s) = Ok (d_acts d) /\ d_biases d = s_biases s /\ d_conns d = map Some (s_conns s) /\
  write_modules (s_modules s) = Ok (match d_modules d with Some l => l | None => [] end) /\
  d_modules d <> Some [].
Proof.
  unfold Fmns.fmns_write. intros H.
  apply bind_ok in H. destruct H as (ns & Hns & H).
  apply bind_ok in H. destruct H as (u1 & Hb & H).
  apply bind_ok in H. destruct H as (u2 & Hc & H).
  apply bind_ok in H. destruct H as (ms & Hms & H). injection H as <-. simpl.
  repeat (split; [reflexivity|]). split; [exact Hns|]. repeat (split; [reflexivity|]).
  destruct ms; (split; [exact Hms | discriminate]).
Qed.

(* ---------- round trip: write, then read ---------- *)
Section Roundtrip.
Hypothesis type_of_name_of : forall c n, name_of c = Ok n -> type_of n = Ok c.

Theorem fmns_read_write_ok (s : fsolver F) d :
  fmns_write s = Ok d -> solver_built s = true -> fmns_read d = Ok s.
Proof.
  unfold Fmns.fmns_write. intros H Hb.
  apply bind_ok in H. destruct H as (ns & Hns & H).
  apply bind_ok in H. destruct H as (u1 & _ & H).
  apply bind_ok in H. destruct H as (u2 & _ & H).
  apply bind_ok in H. destruct H as (ms & Hms & H). injection H as <-.
  unfold Fmns.fmns_read. simpl.
  rewrite (names_types type_of_name_of _ _ Hns). simpl.
  replace (match match ms with [] => None | _ :: _ => Some ms end with Some l => l | None => [] end) with ms
    by (destruct ms; reflexivity).
  rewrite (modules_roundtrip type_of_name_of _ _ Hms). simpl.
  unfold solver_built in Hb. apply andb_true_iff in Hb. destruct Hb as [Hb Hc].
  apply andb_true_iff in Hb. destruct Hb as [Ht Hbt].
  apply Z.leb_le in Ht. apply Z.leb_le in Hbt.
  unfold new_solver.
  destruct (s_total s <? 0) eqn:E1; [apply Z.ltb_lt in E1; lia|].
  destruct (s_total s <? s_bias s) eqn:E2; [apply Z.ltb_lt in E2; lia|].
  rewrite (conns_of_some _ _ Hc). simpl. destruct s; reflexivity.
Qed.

Theorem fmns_roundtrip_solver (s : fsolver F) :
  writable s -> solver_built s = true ->
  exists d, fmns_write s = Ok d /\ fmns_read d = Ok s.
Proof.
  intros Hw Hb. destruct (fmns_write_ok s Hw) as [d Hd]. exists d. split; [exact Hd|].
  exact (fmns_read_write_ok s d Hd Hb).
Qed.
End Roundtrip.

(* ---------- what a successful read returns ---------- *)
Theorem fmns_read_ok_inv d (s : fsolver F) : fmns_read d = Ok s ->
  s_id s = d_id d /\ s_name s = d_name d /\ s_bias s = d_bias d /\ s_in s = d_in d /\ s_out s = d_out d /\
  s_total s = d_total d /\ types_of (d_acts d) = Ok (s_acts s) /\ s_biases s = d_biases d /\
  d_conns d = map Some (s_conns s) /\
  read_modules (match d_modules d with Some l => l | None => [] end) = Ok (s_modules s) /\
  solver_built s = true.
Proof.
  unfold Fmns.fmns_read. intros H.
  apply bind_ok in H. destruct H as (acts & Ha & H).
  apply bind_ok in H. destruct H as (ms & Hm & H).
  apply bind_ok in H. destruct H as (s0 & Hs & H). injection H as <-.
  unfold new_solver in Hs.
  destruct (d_total d <? 0) eqn:E1; [discriminate|].
  destruct (d_total d <? d_bias d) eqn:E2; [discriminate|].
  apply bind_ok in Hs. destruct Hs as (cs & Hcs & Hs). injection Hs as <-. simpl.
  destruct (conns_of_inv _ _ _ Hcs) as [Hl Hf].
  repeat (split; [reflexivity|]). split; [exact Ha|]. split; [reflexivity|]. split; [exact Hl|].
  split; [exact Hm|].
  unfold solver_built. simpl. rewrite Hf.
  apply Z.ltb_ge in E1. apply Z.ltb_ge in E2.
  destruct (Z.leb_spec 0 (d_total d)); [|lia]. destruct (Z.leb_spec (d_bias d) (d_total d)); [|lia]. reflexivity.
Qed.

(* ---------- round trip the other way: read, then write ---------- *)
Section Backward.
Hypothesis name_of_type_of : forall n c, type_of n = Ok c -> name_of c = Ok n.

Lemma types_names l : forall cs, types_of l = Ok cs -> names_of cs = Ok l.
Proof.
  induction l as [|n l IH]; simpl; intros cs H.
  - injection H as <-. reflexivity.
  - apply bind_ok in H. destruct H as (c & Hc & H). apply as_err_ok in Hc.
    apply bind_ok in H. destruct H as (cs' & Hcs & H). injection H as <-.
    simpl. rewrite (name_of_type_of _ _ Hc). simpl. rewrite (IH _ Hcs). reflexivity.
Qed.

Lemma modules_back l : forall ms, read_modules l = Ok ms -> write_modules ms = Ok l.
Proof.
  induction l as [|m l IH]; simpl; intros ms H.
  - injection H as <-. reflexivity.
  - apply bind_ok in H. destruct H as (c & Hc & H). apply as_err_ok in Hc.
    apply bind_ok in H. destruct H as (ms' & Hms & H). injection H as <-.
    simpl. rewrite (name_of_type_of _ _ Hc). simpl. rewrite (IH _ Hms). simpl.
    rewrite dmodule_eta. reflexivity.
Qed.

(* the document with the two things the reader ignores put in the writer's form: the sensor count is derived,
   an empty module list is omitted *)
Definition doc_norm (d : doc F) : doc F :=
  mkDoc (d_id d) (d_name d) (d_in d) (d_bias d + d_in d) (d_out d) (d_bias d) (d_total d) (d_acts d)
        (d_biases d) (d_conns d) (match d_modules d with Some [] => None | x => x end).

Definition doc_floats (d : doc F) : list F :=
  d_biases d ++ flat_map (fun oc => match oc with Some c => link_floats c | None => [] end) (d_conns d).

Lemma flat_map_some (l : list (slink F)) :
  flat_map (fun oc => match oc with Some c => link_floats c | None => [] end) (map Some l) = flat_map link_floats l.
Proof. induction l as [|c l IH]; simpl; [reflexivity|]. now rewrite IH. Qed.

Theorem fmns_write_read_ok d (s : fsolver F) :
  fmns_read d = Ok s -> forallb finite (doc_floats d) = true -> fmns_write s = Ok (doc_norm d).
Proof.
  intros H Hf. destruct (fmns_read_ok_inv d s H) as (A1 & A2 & A3 & A4 & A5 & A6 & A7 & A8 & A9 & A10 & _).
  unfold doc_floats in Hf. rewrite forallb_app in Hf. apply andb_true_iff in Hf. destruct Hf as [Hfb Hfc].
  rewrite A9, flat_map_some in Hfc. rewrite <- A8 in Hfb.
  unfold Fmns.fmns_write. rewrite (types_names _ _ A7). simpl.
  rewrite (floats_ok_intro _ Hfb). simpl. rewrite (floats_ok_intro _ Hfc). simpl.
  rewrite (modules_back _ _ A10). simpl.
  unfold doc_norm. rewrite A1, A2, A3, A4, A5, A6, A8, <- A9.
  destruct (d_modules d) as [[|m l]|]; reflexivity.
Qed.
End Backward.

(* ---------- error paths of the reader ---------- *)
Definition doc_names (d : doc F) : list string :=
  d_acts d ++ map dm_act (match d_modules d with Some l => l | None => [] end).

Lemma types_of_unknown l : forall n e,
  (forall m, In m l -> (exists c, type_of m = Ok c) \/ (exists e', type_of m = GoErr e')) ->
  In n l -> type_of n = GoErr e -> types_of l = GoErr ErrFmnsActName.
Proof.
  induction l as [|m l IH]; simpl; intros n e Hall Hin Hn; [contradiction|].
  destruct (Hall m (or_introl eq_refl)) as [[c Hc]|[e' He']].
  - rewrite Hc. simpl. destruct Hin as [->|Hin]; [congruence|].
    rewrite (IH n e (fun m' Hm' => Hall m' (or_intror Hm')) Hin Hn). reflexivity.
  - rewrite He'. reflexivity.
Qed.

Lemma read_modules_unknown l : forall n e,
  (forall m, In m (map dm_act l) -> (exists c, type_of m = Ok c) \/ (exists e', type_of m = GoErr e')) ->
  In n (map dm_act l) -> type_of n = GoErr e -> read_modules l = GoErr ErrFmnsActName.
Proof.
  induction l as [|m l IH]; simpl; intros n e Hall Hin Hn; [contradiction|].
  destruct (Hall (dm_act m) (or_introl eq_refl)) as [[c Hc]|[e' He']].
  - rewrite Hc. simpl. destruct Hin as [Heq|Hin]; [congruence|].
    rewrite (IH n e (fun m' Hm' => Hall m' (or_intror Hm')) Hin Hn). reflexivity.
  - rewrite He'. reflexivity.
Qed.

Lemma types_of_total l :
  (forall m, In m l -> (exists c, type_of m = Ok c) \/ (exists e', type_of m = GoErr e')) ->
  (exists cs, types_of l = Ok cs) \/ types_of l = GoErr ErrFmnsActName.
Proof.
  induction l as [|m l IH]; simpl; intros Hall; [left; eauto|].
  destruct (Hall m (or_introl eq_refl)) as [[c Hc]|[e' He']].
  - rewrite Hc. simpl. destruct (IH (fun m' Hm' => Hall m' (or_intror Hm'))) as [[cs ->]| ->]; simpl; eauto.
  - rewrite He'. right. reflexivity.
Qed.

(* a name the registry does not know, anywhere in the document: Decode fails, whatever else the document says *)
Theorem fmns_read_unknown_name (d : doc F) n e :
  (forall m, In m (doc_names d) -> (exists c, type_of m = Ok c) \/ (exists e', type_of m = GoErr e')) ->
  In n (doc_names d) -> type_of n = GoErr e -> fmns_read d = GoErr ErrFmnsActName.
Proof.
  unfold doc_names. intros Hall Hin Hn. unfold Fmns.fmns_read.
  apply in_app_or in Hin. destruct Hin as [Hin|Hin].
  - rewrite (types_of_unknown _ n e (fun m Hm => Hall m (in_or_app _ _ _ (or_introl Hm))) Hin Hn). reflexivity.
  - destruct (types_of_total (d_acts d) (fun m Hm => Hall m (in_or_app _ _ _ (or_introl Hm)))) as [[cs ->]| ->];
      [|reflexivity]. simpl.
    rewrite (read_modules_unknown _ n e (fun m Hm => Hall m (in_or_app _ _ _ (or_intror Hm))) Hin Hn). reflexivity.
Qed.

(* all names known: the constructor's panics, in the order it meets them *)
Theorem fmns_read_panics (d : doc F) acts ms :
  types_of (d_acts d) = Ok acts ->
  read_modules (match d_modules d with Some l => l | None => [] end) = Ok ms ->
  (d_total d < 0 -> fmns_read d = GoPanic PanicMakeslice) /\
  (0 <= d_total d < d_bias d -> fmns_read d = GoPanic PanicIndex) /\
  (0 <= d_total d -> d_bias d <= d_total d -> forall pre c post,
     d_conns d = map Some pre ++ Some c :: post ->
     forallb (fun c => idx_ok (d_total d) (sl_src c) && idx_ok (d_total d) (sl_tgt c)) pre = true ->
     idx_ok (d_total d) (sl_src c) && idx_ok (d_total d) (sl_tgt c) = false ->
     fmns_read d = GoPanic PanicIndex) /\
  (0 <= d_total d -> d_bias d <= d_total d -> forall pre post,
     d_conns d = map Some pre ++ None :: post ->
     forallb (fun c => idx_ok (d_total d) (sl_src c) && idx_ok (d_total d) (sl_tgt c)) pre = true ->
     fmns_read d = GoPanic PanicNil).
Proof.
  intros Ha Hm. unfold Fmns.fmns_read, new_solver. rewrite Ha, Hm. simpl.
  assert (Hpre : forall (B : Type) t pre (rest : list (option (slink F))) (k : list (slink F) -> res B),
             forallb (fun c => idx_ok t (sl_src c) && idx_ok t (sl_tgt c)) pre = true ->
             bind (conns_of t (map Some pre ++ rest)) k
             = bind (conns_of t rest) (fun cs => k (pre ++ cs)%list)).
  { intros B t pre rest. induction pre as [|p pre IH]; simpl; intros k Hf.
    - destruct (conns_of t rest); reflexivity.
    - apply andb_true_iff in Hf. destruct Hf as [Hp Hf]. rewrite Hp.
      specialize (IH (fun cs => k (p :: cs)) Hf).
      destruct (conns_of t (map Some pre ++ rest)) eqn:E; simpl in *;
        destruct (conns_of t rest); simpl in *; congruence. }
  split; [|split; [|split]].
  - intros Ht. destruct (d_total d <? 0) eqn:E; [reflexivity|]. apply Z.ltb_ge in E. lia.
  - intros [Ht Hb]. destruct (d_total d <? 0) eqn:E; [apply Z.ltb_lt in E; lia|].
    destruct (d_total d <? d_bias d) eqn:E2; [reflexivity|]. apply Z.ltb_ge in E2. lia.
  - intros Ht Hb pre c post Hc Hf Hbad.
    destruct (d_total d <? 0) eqn:E; [apply Z.ltb_lt in E; lia|].
    destruct (d_total d <? d_bias d) eqn:E2; [apply Z.ltb_lt in E2; lia|].
    rewrite Hc, (Hpre _ _ _ _ _ Hf). simpl. rewrite Hbad. reflexivity.
  - intros Ht Hb pre post Hc Hf.
    destruct (d_total d <? 0) eqn:E; [apply Z.ltb_lt in E; lia|].
    destruct (d_total d <? d_bias d) eqn:E2; [apply Z.ltb_lt in E2; lia|].
    rewrite Hc, (Hpre _ _ _ _ _ Hf). reflexivity.
Qed.

(* ---------- solvers of Fast.v ---------- *)
Variable NF : num F.

(* the test of Fast.new_fast, as a predicate on the result *)
Definition fnet_ok (fn : fnet F) : bool :=
  ((f_bias fn + f_in fn + f_out fn <=? f_total fn) && (length (f_acts fn) =? f_total fn)
   && (length (f_biases fn) =? f_total fn)
   && forallb (fun c => (fl_src c <? f_total fn) && (fl_tgt c <? f_total fn)) (f_conns fn))%nat.

Lemma new_fast_ok b i o t acts conns biases (fn : fnet F) :
  new_fast b i o t acts conns biases = Ok fn -> fnet_ok fn = true.
Proof.
  unfold new_fast, fnet_ok. destruct (_ && _) eqn:E; [|discriminate].
  intros H. injection H as <-. simpl. exact E.
Qed.

Lemma fast_of_net_ok (n : net F) (fn : fnet F) : fast_of_net NF n = Ok fn -> fnet_ok fn = true.
Proof.
  unfold fast_of_net.
  repeat match goal with
         | |- context [match ?x with _ => _ end] =>
           match x with
           | new_fast _ _ _ _ _ _ _ => fail 1
           | _ => destruct x as [[[? ?] ?]| | | | |] || destruct x as [[? ?]| | | | |]
           end
         end; simpl; try discriminate.
  apply new_fast_ok.
Qed.

Lemma fnet_of_solver_of id name z (fn : fnet F) : fnet_of (solver_of id name z fn) = fn.
Proof.
  destruct fn as [b i o t acts conns biases]. unfold fnet_of, solver_of. simpl.
  rewrite !Nat2Z.id, map_map. f_equal.
  induction conns as [|[s t' w] l IH]; [reflexivity|].
  cbn [map sl_src sl_tgt sl_w fl_src fl_tgt fl_w]. rewrite !Nat2Z.id. f_equal. exact IH.
Qed.

Lemma solver_of_built id name z (fn : fnet F) : fnet_ok fn = true -> solver_built (solver_of id name z fn) = true.
Proof.
  unfold fnet_ok, solver_built. intros H.
  repeat (apply andb_true_iff in H; destruct H as [H ?]).
  apply Nat.leb_le in H. simpl.
  destruct (Z.leb_spec 0 (Z.of_nat (f_total fn))); [|lia].
  destruct (Z.leb_spec (Z.of_nat (f_bias fn)) (Z.of_nat (f_total fn))); [|lia]. simpl.
  rewrite forallb_forall. intros c Hc. apply in_map_iff in Hc. destruct Hc as (c0 & <- & Hc0).
  match goal with Hf : forallb _ (f_conns fn) = true |- _ => rewrite forallb_forall in Hf; specialize (Hf c0 Hc0);
    apply andb_true_iff in Hf; destruct Hf as [Hs Ht] end.
  apply Nat.ltb_lt in Hs. apply Nat.ltb_lt in Ht. simpl. unfold idx_ok.
  repeat match goal with |- context [?a <=? ?b] => destruct (Z.leb_spec a b); [|lia] end.
  repeat match goal with |- context [?a <? ?b] => destruct (Z.ltb_spec a b); [|lia] end.
  reflexivity.
Qed.

Lemma solver_of_fits id name z (fn : fnet F) : fnet_ok fn = true -> solver_fits (solver_of id name z fn) = true.
Proof.
  intros H. unfold solver_fits. rewrite (solver_of_built id name z fn H).
  unfold fnet_ok in H. repeat (apply andb_true_iff in H; destruct H as [H ?]).
  apply Nat.leb_le in H.
  repeat match goal with Hx : (_ =? _)%nat = true |- _ => apply Nat.eqb_eq in Hx end.
  simpl.
  repeat match goal with |- context [?a <=? ?b] => destruct (Z.leb_spec a b); [|lia] end.
  repeat match goal with |- context [?a =? ?b] => destruct (Z.eqb_spec a b); [|lia] end.
  reflexivity.
Qed.

Lemma solver_of_floats z (fn : fnet F) :
  finite z = true -> forallb finite (map (@fl_w F) (f_conns fn)) = true ->
  forallb finite (flat_map link_floats (s_conns (solver_of 0 EmptyString z fn))) = true.
Proof.
  intros Hz. simpl. induction (f_conns fn) as [|c l IH]; simpl; intros H; [reflexivity|].
  apply andb_true_iff in H. destruct H as [Hc Hl]. rewrite Hc, Hz, (IH Hl). reflexivity.
Qed.

Section FastRoundtrip.
Hypothesis type_of_name_of : forall c n, name_of c = Ok n -> type_of n = Ok c.
Hypothesis finite_zero : finite (fzero NF) = true.

(* every well-formed fast solver (new_fast's test; in particular everything fast_of_net builds) with registered
   activation types and finite biases and weights: WriteModel succeeds and ReadFMNSModel restores the same object *)
Theorem fmns_roundtrip_fnet (fn : fnet F) id name :
  fnet_ok fn = true ->
  Forall registered (f_acts fn) ->
  forallb finite (f_biases fn) = true -> forallb finite (map (@fl_w F) (f_conns fn)) = true ->
  exists d, fmns_write (solver_of id name (fzero NF) fn) = Ok d /\
    exists s', fmns_read d = Ok s' /\ s' = solver_of id name (fzero NF) fn /\ fnet_of s' = fn /\
               s_id s' = id /\ s_name s' = name /\ s_modules s' = [] /\ solver_fits s' = true.
Proof.
  intros Hok Hreg Hb Hw.
  assert (Hwr : writable (solver_of id name (fzero NF) fn)).
  { split; [exact Hreg|]. split; [constructor|]. split; [exact Hb|].
    exact (solver_of_floats (fzero NF) fn finite_zero Hw). }
  destruct (fmns_roundtrip_solver type_of_name_of _ Hwr (solver_of_built id name (fzero NF) fn Hok)) as (d & Hd & Hr).
  exists d. split; [exact Hd|]. exists (solver_of id name (fzero NF) fn).
  split; [exact Hr|]. split; [reflexivity|]. split; [apply fnet_of_solver_of|].
  split; [reflexivity|]. split; [reflexivity|]. split; [reflexivity|]. exact (solver_of_fits id name (fzero NF) fn Hok).
Qed.

Theorem fmns_roundtrip (n : net F) (fn : fnet F) id name :
  fast_of_net NF n = Ok fn ->
  Forall registered (f_acts fn) ->
  forallb finite (f_biases fn) = true -> forallb finite (map (@fl_w F) (f_conns fn)) = true ->
  exists d, fmns_write (solver_of id name (fzero NF) fn) = Ok d /\
    exists s', fmns_read d = Ok s' /\ s' = solver_of id name (fzero NF) fn /\ fnet_of s' = fn /\
               s_id s' = id /\ s_name s' = name /\ s_modules s' = [] /\ solver_fits s' = true.
Proof. intros H. exact (fmns_roundtrip_fnet fn id name (fast_of_net_ok n fn H)). Qed.

(* hence identical outputs: the restored solver, fresh from ReadFMNSModel, run through any sequence of operations,
   gives at every operation the result and the ReadOutputs() of the original solver run from its initial state,
   and also of the original solver flushed after any history of its own (C13) *)
Variable act : Z -> F -> res F.

Theorem fmns_outputs_equal (n : net F) (fn : fnet F) id name :
  fast_of_net NF n = Ok fn ->
  Forall registered (f_acts fn) ->
  forallb finite (f_biases fn) = true -> forallb finite (map (@fl_w F) (f_conns fn)) = true ->
  exists d s', fmns_write (solver_of id name (fzero NF) fn) = Ok d /\ fmns_read d = Ok s' /\
    (forall ops : list (op F),
       fast_trace NF act (fnet_of s') (fast_init NF (fnet_of s')) ops = fast_trace NF act fn (fast_init NF fn) ops) /\
    (forall h ops : list (op F),
       fast_trace NF act (fnet_of s') (fast_init NF (fnet_of s')) ops =
       fast_trace NF act fn (fst (fast_flush NF fn (fast_run NF act fn (fast_init NF fn) h))) ops).
Proof.
  intros H Hreg Hb Hw.
  destruct (fmns_roundtrip n fn id name H Hreg Hb Hw) as (d & Hd & s' & Hr & _ & Hfn & _).
  exists d, s'. split; [exact Hd|]. split; [exact Hr|]. rewrite Hfn. split; [reflexivity|].
  intros h ops. symmetry. exact (fast_flush_fresh F NF act fn (fast_of_net_sensor_le F NF n fn H) h ops).
Qed.
End FastRoundtrip.

End FmnsSpec.
