(* C10: who the champion is.  After prepareForReproduction the first organism of every species is
   a member of the species as it was before the call, no member of that species is
   Organisms.Less-greater than it in adjusted fitness, and it was not eliminated. *)
From NeatModel Require Import Compat.
From NeatModel Require Import Res F64 GoRand Genome Options Population MonadLemmas ChampHeap ChampPrepare ChampSort.
From Coq Require Import Lia Sorting.Permutation Floats.

Definition adj_debt (o : options) (s : species) : Z :=
  if Z.eqb (sp_age s - sp_lastimp s + 1 - o_dropoff o) 0 then 1 else sp_age s - sp_lastimp s + 1 - o_dropoff o.
(* the organism with its adjusted fitness (and the raw one saved), as Species.adjustFitness computes it *)
Definition adjusted (o : options) (s : species) (x : organism) : organism :=
  adjust_one o (sp_age s) (adj_debt o s) (zlen (sp_orgs s)) x.
(* numParents of a species of n organisms *)
Definition num_parents (o : options) (n : Z) : Z :=
  f_trunc_Z (ffloor (PrimFloat.add (PrimFloat.mul (o_survival o) (f_of_Z n)) 1%float)).

(* ---------- hsets with distinct keys ---------- *)
Lemma hget_hsets_other l : forall h k, ~ In k (map o_key l) -> hget (hsets h l) k = hget h k.
Proof.
  unfold hsets. induction l as [|y l IH]; intros h k Hk; cbn [fold_left]; [reflexivity|].
  rewrite IH by (intros Hin; apply Hk; now right). apply hget_hset_other. intros E. apply Hk. now left.
Qed.

Lemma hget_hsets_in l : forall h y, NoDup (map o_key l) -> In y l -> hget (hsets h l) (o_key y) = Ok y.
Proof.
  induction l as [|z l IH]; intros h y Hnd Hy; [destruct Hy|].
  cbn [map] in Hnd. inversion Hnd as [|? ? Hnot Hnd']; subst.
  change (hsets h (z :: l)) with (hsets (hset h z) l). destruct Hy as [->|Hy].
  - rewrite hget_hsets_other by exact Hnot. apply hget_hset_same.
  - now apply IH.
Qed.

Lemma mark_elim_In_rev l : forall i n z, In z l ->
  exists y, In y (mark_elim l i n) /\ o_key y = o_key z /\ o_fit y = o_fit z /\ o_orig y = o_orig z /\ o_highest y = o_highest z.
Proof.
  induction l as [|x l IH]; intros i n z Hz; [destruct Hz|]. cbn [mark_elim]. destruct Hz as [->|Hz].
  - eexists. split; [now left|]. destruct (Z.geb i n); repeat split.
  - destruct (IH (i + 1) n z Hz) as [y [Hy E]]. exists y. split; [now right|exact E].
Qed.

Lemma hgets_In_key h ks l k x : hgets h ks = Ok l -> In k ks -> hget h k = Ok x -> In x l.
Proof.
  intros H. apply hgets_ok in H. induction H as [|k0 y ks l Hy _ IH]; intros Hin Hx; [destruct Hin|].
  destruct Hin as [->|Hin]; [rewrite Hx in Hy; injection Hy as ->; now left|right; now apply IH].
Qed.

Lemma org_lt_fields a a' b b' :
  o_fit a' = o_fit a -> o_highest a' = o_highest a -> o_fit b' = o_fit b -> o_highest b' = o_highest b ->
  org_lt a' b' = org_lt a b.
Proof. intros E1 E2 E3 E4. unfold org_lt. now rewrite E1, E2, E3, E4. Qed.

(* ---------- what is known about a species' first organism ---------- *)
(* [h0], [s0]: heap and species before adjustFitness; [h]: a later heap; [ck]: the first key *)
Definition champ_facts (o : options) (h0 : list organism) (s0 : species) (h : list organism) (ck : Z) : Prop :=
  In ck (sp_orgs s0) /\
  exists c, hget h ck = Ok c /\ o_elim c = false /\
    forall k x, In k (sp_orgs s0) -> hget h0 k = Ok x ->
      exists y, hget h k = Ok y /\ o_orig y = o_fit x /\ o_fit y = o_fit (adjusted o s0 x) /\
                o_highest y = o_highest x /\ org_lt c y = false.

Lemma champ_facts_rel o h0 s0 h h' ck : heap_rel proj_e h h' -> champ_facts o h0 s0 h ck -> champ_facts o h0 s0 h' ck.
Proof.
  intros Hr [Hck [c [Hc [Hel Hall]]]]. split; [exact Hck|].
  destruct (Hr ck) as [F _]. destruct (F c Hc) as [c' [Hc' Ec]]. exists c'. split; [exact Hc'|].
  unfold proj_e in Ec. injection Ec as _ _ _ Ef Eo Ee Eh. split; [congruence|].
  intros k x Hk Hx. destruct (Hall k x Hk Hx) as [y [Hy [Y1 [Y2 [Y3 Y4]]]]].
  destruct (Hr k) as [Fk _]. destruct (Fk y Hy) as [y' [Hy' Ey]]. unfold proj_e in Ey.
  injection Ey as _ _ _ Ef' Eo' _ Eh'. exists y'. split; [exact Hy'|]. repeat split; try congruence.
  rewrite <- Y4. now apply org_lt_fields.
Qed.

Lemma champ_facts_agree o h0 h0' s0 h h' ck :
  (forall k, In k (sp_orgs s0) -> hget h0' k = hget h0 k) -> (forall k, In k (sp_orgs s0) -> hget h' k = hget h k) ->
  champ_facts o h0 s0 h ck -> champ_facts o h0' s0 h' ck.
Proof.
  intros H0 H1 [Hck [c [Hc [Hel Hall]]]]. split; [exact Hck|]. exists c. split; [now rewrite H1|]. split; [exact Hel|].
  intros k x Hk Hx. rewrite H0 in Hx by exact Hk. destruct (Hall k x Hk Hx) as [y [Hy R]]. exists y.
  split; [now rewrite H1|exact R].
Qed.

(* ---------- adjustFitness ---------- *)
Definition species_hyps (o : options) (h : list organism) (s : species) : Prop :=
  NoDup (sp_orgs s) /\ 1 <= num_parents o (zlen (sp_orgs s)) /\
  forall k x, In k (sp_orgs s) -> hget h k = Ok x -> o_elim x = false /\ no_nan (adjusted o s x).

Lemma adjust_fitness_champion o h s h1 s1 :
  adjust_fitness o h s = Ok (h1, s1) -> species_hyps o h s ->
  (exists ck rest, sp_orgs s1 = ck :: rest /\ champ_facts o h s h1 ck) /\
  (forall k, ~ In k (sp_orgs s) -> hget h1 k = hget h k).
Proof.
  unfold adjust_fitness. cbv zeta. intros H [Hnd [Hnp Hmem]]. rbind H as orgs Horgs.
  assert (Elen : zlen orgs = zlen (sp_orgs s)).
  { unfold zlen. rewrite <- (hgets_keys _ _ _ Horgs), map_length. reflexivity. }
  rewrite Elen in H. fold (adj_debt o s) in H.
  change (adjust_one o (sp_age s) (adj_debt o s) (zlen (sp_orgs s))) with (adjusted o s) in H.
  fold (num_parents o (zlen (sp_orgs s))) in H.
  remember (sort_desc org_lt (map (adjusted o s) orgs)) as sorted eqn:Es.
  destruct sorted as [|top r]; [discriminate|].
  destruct (Z.ltb (num_parents o (zlen (sp_orgs s))) 0); [discriminate|]. injection H as <- <-.
  pose proof (sort_desc_perm org_lt (map (adjusted o s) orgs)) as Hperm. rewrite <- Es in Hperm.
  assert (Hnp' : Z.geb 0 (num_parents o (zlen (sp_orgs s))) = false) by (destruct (Z.geb_spec 0 (num_parents o (zlen (sp_orgs s)))); [lia|reflexivity]).
  cbn [mark_elim]. rewrite Hnp'.
  set (np := num_parents o (zlen (sp_orgs s))) in *.
  set (marked := o_with_champ top true :: mark_elim r 1 np).
  change (hsets (hset h (o_with_champ top true)) (mark_elim r 1 np)) with (hsets h marked).
  assert (Hkeys : map o_key marked = map o_key (top :: r)).
  { unfold marked. cbn [map o_with_champ o_key]. now rewrite mark_elim_keys. }
  assert (Hpk : Permutation (map o_key (top :: r)) (sp_orgs s)).
  { apply (Permutation_trans (Permutation_map o_key Hperm)). rewrite map_map.
    unfold adjusted. cbn [adjust_one o_with_fit o_with_orig o_key].
    change (fun x : organism => o_key x) with o_key. rewrite (hgets_keys _ _ _ Horgs). apply Permutation_refl. }
  assert (Hndm : NoDup (map o_key marked)).
  { rewrite Hkeys. apply (Permutation_NoDup (Permutation_sym Hpk) Hnd). }
  assert (Hadj : forall z, In z (top :: r) -> exists x k, In k (sp_orgs s) /\ hget h k = Ok x /\ z = adjusted o s x).
  { intros z Hz. apply (Permutation_in _ Hperm) in Hz. apply in_map_iff in Hz. destruct Hz as [x [<- Hx]].
    destruct (hgets_In _ _ _ _ Horgs Hx) as [k [Hk Hg]]. now exists x, k. }
  assert (Hnn : Forall no_nan (map (adjusted o s) orgs)).
  { apply Forall_forall. intros z Hz. apply in_map_iff in Hz. destruct Hz as [x [<- Hx]].
    destruct (hgets_In _ _ _ _ Horgs Hx) as [k [Hk Hg]]. exact (proj2 (Hmem k x Hk Hg)). }
  assert (Hmax : forall z, In z (top :: r) -> org_lt top z = false).
  { intros z Hz. apply (sort_desc_org_max _ top r Hnn (eq_sym Es)). exact (Permutation_in _ Hperm Hz). }
  split.
  - exists (o_key top), (map o_key (mark_elim r 1 np)). split.
    + destruct (PrimFloat.ltb _ _); reflexivity.
    + split; [apply (Permutation_in _ Hpk); now left|].
      exists (o_with_champ top true). split; [|split].
      * change (o_key top) with (o_key (o_with_champ top true)).
        apply (hget_hsets_in marked h _ Hndm). now left.
      * cbn [o_with_champ o_elim]. destruct (Hadj top (or_introl eq_refl)) as [x [k [Hk [Hg ->]]]].
        unfold adjusted. cbn [adjust_one o_with_fit o_with_orig o_elim]. exact (proj1 (Hmem k x Hk Hg)).
      * intros k x Hk Hx. pose proof (hgets_In_key _ _ _ _ _ Horgs Hk Hx) as Hxo.
        assert (Hz : In (adjusted o s x) (top :: r)).
        { apply (Permutation_in _ (Permutation_sym Hperm)). now apply in_map. }
        assert (Hy : exists y, In y marked /\ o_key y = k /\ o_fit y = o_fit (adjusted o s x) /\
                               o_orig y = o_fit x /\ o_highest y = o_highest x).
        { destruct Hz as [E|Hz].
          - exists (o_with_champ top true). split; [now left|]. rewrite E.
            unfold adjusted. cbn [adjust_one o_with_champ o_with_fit o_with_orig o_key o_fit o_orig o_highest].
            repeat split. exact (hget_key _ _ _ Hx).
          - destruct (mark_elim_In_rev r 1 np _ Hz) as [y [Hy [E1 [E2 [E3 E4]]]]]. exists y. split; [now right|].
            rewrite E1, E2, E3, E4. unfold adjusted. cbn [adjust_one o_with_fit o_with_orig o_key o_fit o_orig o_highest].
            repeat split. exact (hget_key _ _ _ Hx). }
        destruct Hy as [y [Hy [E1 [E2 [E3 E4]]]]]. exists y. split; [rewrite <- E1; now apply hget_hsets_in|].
        split; [exact E3|split; [exact E2|split; [exact E4|]]].
        rewrite <- (Hmax _ Hz). apply org_lt_fields; try reflexivity; [exact E2|].
        rewrite E4. unfold adjusted. reflexivity.
  - intros k Hk. apply hget_hsets_other. fold marked. rewrite Hkeys. intros Hin. apply Hk. exact (Permutation_in _ Hpk Hin).
Qed.

(* ---------- adjustFitness of every species ---------- *)
Lemma species_hyps_agree o h h' s : (forall k, In k (sp_orgs s) -> hget h' k = hget h k) -> species_hyps o h s -> species_hyps o h' s.
Proof.
  intros Ha [H1 [H2 H3]]. split; [exact H1|split; [exact H2|]]. intros k x Hk Hx. rewrite Ha in Hx by exact Hk. exact (H3 k x Hk Hx).
Qed.

Lemma adjust_all_champions o : forall l h h1 l1,
  adjust_all o h l = Ok (h1, l1) -> ids_nodup l -> members_ok h l ->
  (forall s, In s l -> species_hyps o h s) ->
  Forall2 (fun s s1 => sp_id s1 = sp_id s /\ exists ck rest, sp_orgs s1 = ck :: rest /\ champ_facts o h s h1 ck) l l1 /\
  (forall k, (forall s, In s l -> ~ In k (sp_orgs s)) -> hget h1 k = hget h k).
Proof.
  induction l as [|s l IH]; intros h h1 l1 H Hnd Hm Hh; cbn [adjust_all] in H.
  - injection H as <- <-. split; [constructor|reflexivity].
  - rbind H as r Hr. destruct r as [hm s1]. rbind H as r2 Hr2. destruct r2 as [h2 l2]. injection H as <- <-.
    pose proof (adjust_fitness_frame _ _ _ _ _ Hr) as [Hrel [Eid _]].
    destruct (adjust_fitness_champion _ _ _ _ _ Hr (Hh s (or_introl eq_refl))) as [[ck [rest [Es1 Hcf]]] Hoth].
    unfold ids_nodup in Hnd. cbn [map] in Hnd. inversion Hnd as [|? ? Hnot Hnd']; subst.
    assert (Hdisj : forall s' k, In s' l -> In k (sp_orgs s') -> ~ In k (sp_orgs s)).
    { intros s' k Hs' Hk Hks. apply Hnot. apply in_map_iff. exists s'. split; [|exact Hs'].
      apply (members_same_species h (s :: l) s' s k Hm); [now right|now left|exact Hk|exact Hks]. }
    assert (Hm' : members_ok hm l).
    { intros s' k Hs' Hk. destruct (Hm s' k (or_intror Hs') Hk) as [x [Hx Ex]].
      exists x. split; [|exact Ex]. rewrite Hoth; [exact Hx|]. exact (Hdisj s' k Hs' Hk). }
    assert (Hh' : forall s', In s' l -> species_hyps o hm s').
    { intros s' Hs'. apply (species_hyps_agree o h hm s'); [|apply Hh; now right].
      intros k Hk. apply Hoth. exact (Hdisj s' k Hs' Hk). }
    destruct (IH _ _ _ Hr2 Hnd' Hm' Hh') as [Hf Hoth2]. split.
    + constructor.
      * split; [exact Eid|]. exists ck, rest. split; [exact Es1|].
        apply (champ_facts_agree o h h s hm h2 ck); [reflexivity| |exact Hcf].
        intros k Hk. apply Hoth2. intros s' Hs' Hk'. exact (Hdisj s' k Hs' Hk' Hk).
      * clear -Hf Hoth Hdisj. induction Hf as [|a b l l2 [E [ck [rest [Eo Hcf]]]] _ IHf]; constructor.
        -- split; [exact E|]. exists ck, rest. split; [exact Eo|].
           apply (champ_facts_agree o hm h a h2 h2 ck); [|reflexivity|exact Hcf].
           intros k Hk. symmetry. apply Hoth. exact (Hdisj a k (or_introl eq_refl) Hk).
        -- apply IHf. intros s' k Hs'. apply Hdisj. now right.
    + intros k Hk. rewrite Hoth2 by (intros s' Hs'; apply Hk; now right). apply Hoth. apply Hk. now left.
Qed.

(* ---------- Theorem: the first organism of every species after prepare ---------- *)
Definition linked (o : options) (p : population) (h : list organism) (sps : list species) : Prop :=
  forall s', In s' sps ->
    exists s0, In s0 (p_species p) /\ sp_id s0 = sp_id s' /\
               exists ck rest, sp_orgs s' = ck :: rest /\ champ_facts o (p_heap p) s0 h ck.

Theorem prepare_champion o p st p1 sorted best st1 :
  prepare o p st = Ok ((p1, sorted, best), st1) ->
  0 <= o_pop_size o ->
  ids_nodup (p_species p) -> members_ok (p_heap p) (p_species p) -> S0 (p_heap p) ->
  (forall s, In s (p_species p) -> species_hyps o (p_heap p) s) ->
  forall sp champ, In sp (p_species p1) -> first_org (p_heap p1) sp = Ok champ ->
    exists s0, In s0 (p_species p) /\ sp_id s0 = sp_id sp /\ In (o_key champ) (sp_orgs s0) /\ o_elim champ = false /\
      forall k x, In k (sp_orgs s0) -> hget (p_heap p) k = Ok x ->
        exists y, hget (p_heap p1) k = Ok y /\ o_orig y = o_fit x /\ o_fit y = o_fit (adjusted o s0 x) /\
                  o_highest y = o_highest x /\ org_lt champ y = false.
Proof.
  intros H Hpop Hnd Hm Hs0 Hhyp sp champ Hsp Hfirst.
  destruct (prepare_phases _ _ _ _ _ _ _ H Hpop Hnd Hm Hs0) as [hA [spsA [p2 [p5 [HA [HB [Hr5 [Hsh5 [Hq5 [Ho5 [Hn5 HF]]]]]]]]]]].
  destruct (adjust_all_champions _ _ _ _ _ HA Hnd Hm Hhyp) as [HfA _].
  assert (LA : linked o p hA spsA).
  { intros s' Hs'. destruct (Forall2_In_r' _ _ _ _ HfA Hs') as [s0 [Hs0' [Eid R]]]. exists s0. split; [exact Hs0'|]. now split. }
  apply purge_zero_frame in HB. cbn [p_with p_heap p_species p_orgs p_next_key] in HB.
  destruct HB as [HrB [_ [_ [_ HspB]]]].
  assert (L5 : linked o p (p_heap p5) (p_species p5)).
  { intros s' Hs'. destruct (shape_in _ _ _ Hsh5 Hs') as [s2 [Hs2 [Eid2 Eo2]]].
    destruct (HspB s2 Hs2) as [_ [sA [HsA EA]]]. unfold sp_shape in EA. injection EA as EidA EoA.
    destruct (LA sA HsA) as [s0 [Hs0' [Eid0 [ck [rest [Eo Hcf]]]]]]. exists s0. split; [exact Hs0'|]. split; [congruence|].
    exists ck, rest. split; [congruence|].
    apply (champ_facts_rel o _ _ (p_heap p2)); [exact Hr5|]. apply (champ_facts_rel o _ _ hA); [|exact Hcf].
    exact (heap_rel_weaken_be _ _ HrB). }
  unfold purge_organisms in HF. apply purge_organisms_loop_frame in HF. destruct HF as [Hh6 [_ [Hf6 _]]].
  destruct (Forall2_In_r' _ _ _ _ Hf6 Hsp) as [s5 [Hs5 [Eid5 [_ [g [Eo5 Hg]]]]]].
  destruct (L5 s5 Hs5) as [s0 [Hs0' [Eid0 [ck [rest [Eo Hcf]]]]]].
  destruct Hcf as [Hck [c [Hc [Hel Hall]]]].
  assert (Hgck : g ck = true).
  { destruct (g ck) eqn:E; [reflexivity|]. destruct (Hg ck E) as [x [Hx Hex]]. rewrite Hc in Hx. injection Hx as <-. congruence. }
  assert (Efirst : champ = c).
  { unfold first_org in Hfirst. rewrite Eo5, Eo in Hfirst. cbn [filter] in Hfirst. rewrite Hgck in Hfirst.
    rewrite Hh6, Hc in Hfirst. now injection Hfirst. }
  subst c. exists s0. split; [exact Hs0'|]. split; [congruence|]. rewrite (hget_key _ _ _ Hc).
  split; [exact Hck|]. split; [exact Hel|]. rewrite Hh6. exact Hall.
Qed.

(* with the raw-fitness order carried over to the adjusted values, the champion has maximal raw fitness *)
Corollary champion_max_raw o p st p1 sorted best st1 :
  prepare o p st = Ok ((p1, sorted, best), st1) ->
  0 <= o_pop_size o ->
  ids_nodup (p_species p) -> members_ok (p_heap p) (p_species p) -> S0 (p_heap p) ->
  (forall s, In s (p_species p) -> species_hyps o (p_heap p) s) ->
  (* hypothesis: within a species, a strictly larger raw fitness gives a strictly larger adjusted fitness *)
  (forall s a b ka kb, In s (p_species p) -> In ka (sp_orgs s) -> In kb (sp_orgs s) ->
                       hget (p_heap p) ka = Ok a -> hget (p_heap p) kb = Ok b ->
                       PrimFloat.ltb (o_fit a) (o_fit b) = true ->
                       PrimFloat.ltb (o_fit (adjusted o s a)) (o_fit (adjusted o s b)) = true) ->
  forall sp champ, In sp (p_species p1) -> first_org (p_heap p1) sp = Ok champ ->
    exists s0 xc, In s0 (p_species p) /\ sp_id s0 = sp_id sp /\ In (o_key champ) (sp_orgs s0) /\
      hget (p_heap p) (o_key champ) = Ok xc /\ o_genome champ = o_genome xc /\
      forall k x, In k (sp_orgs s0) -> hget (p_heap p) k = Ok x -> PrimFloat.ltb (o_fit xc) (o_fit x) = false.
Proof.
  intros H Hpop Hnd Hm Hs0 Hhyp Hmono sp champ Hsp Hfirst.
  destruct (prepare_champion _ _ _ _ _ _ _ H Hpop Hnd Hm Hs0 Hhyp sp champ Hsp Hfirst) as [s0 [Hs0' [Eid [Hck [_ Hall]]]]].
  destruct (Hm s0 _ Hs0' Hck) as [xc [Hxc _]].
  destruct (Hall _ xc Hck Hxc) as [yc [Hyc [Oc [Fc [Hc _]]]]].
  pose proof (prepare_frame _ _ _ _ _ _ _ H Hpop Hnd Hm Hs0) as [_ _ _ Ph _ _].
  destruct (heap_rel_gs_fwd _ _ _ _ Ph Hxc) as [c' [Hc' [Eg _]]].
  destruct (first_org_member _ _ _ Hfirst) as [_ Hcg]. rewrite Hcg in Hc'. injection Hc' as <-.
  rewrite Hcg in Hyc. injection Hyc as <-.
  exists s0, xc. split; [exact Hs0'|]. split; [exact Eid|]. split; [exact Hck|]. split; [exact Hxc|]. split; [exact Eg|].
  intros k x Hk Hx. destruct (PrimFloat.ltb (o_fit xc) (o_fit x)) eqn:E; [|reflexivity].
  pose proof (Hmono s0 xc x _ k Hs0' Hck Hk Hxc Hx E) as Hlt.
  destruct (Hall k x Hk Hx) as [y [_ [_ [Fy [_ Hy]]]]]. unfold org_lt in Hy. rewrite Fc, Fy, Hlt in Hy. discriminate.
Qed.
