(* C05, structural mutators: exact before/after relations of mutateAddNode, mutateAddLink and
   mutateConnectSensors (every tape, every innovation environment, every option setting).
   The parametric mutators are in MutateFrame.v. *)
From NeatModel Require Import Res F64 GoRand Genome Options Insert Mutate InsertSpec MutateMonad MutateFrame.
From Coq Require Import Lia Sorting.Permutation.

(* ---------- environment primitives, projection form ---------- *)
Lemma e_next_innov_p s v s' :
  e_next_innov s = Ok (v, s') ->
  v = next_innov (s_env s) + 1 /\ innovs (s_env s') = innovs (s_env s) /\
  next_innov (s_env s') = next_innov (s_env s) + 1 /\ next_node (s_env s') = next_node (s_env s).
Proof. unfold e_next_innov. intros H. injection H as <- <-. cbn. auto. Qed.

Lemma e_next_node_p s v s' :
  e_next_node s = Ok (v, s') ->
  v = next_node (s_env s) + 1 /\ innovs (s_env s') = innovs (s_env s) /\
  next_innov (s_env s') = next_innov (s_env s) /\ next_node (s_env s') = next_node (s_env s) + 1.
Proof. unfold e_next_node. intros H. injection H as <- <-. cbn. auto. Qed.

Lemma e_store_p i s u s' :
  e_store i s = Ok (u, s') ->
  innovs (s_env s') = innovs (s_env s) ++ [i] /\
  next_innov (s_env s') = next_innov (s_env s) /\ next_node (s_env s') = next_node (s_env s).
Proof. unfold e_store. intros H. injection H as _ <-. cbn. auto. Qed.

(* turn every primitive step in the context into equations about the environment *)
Ltac envs :=
  repeat match goal with
         | H : e_next_innov _ = Ok (_, _) |- _ => apply e_next_innov_p in H; destruct H as (? & ? & ? & ?)
         | H : e_next_node _ = Ok (_, _) |- _ => apply e_next_node_p in H; destruct H as (? & ? & ? & ?)
         | H : e_store _ _ = Ok (_, _) |- _ => apply e_store_p in H; destruct H as (? & ? & ?)
         | H : r_intn _ _ = Ok (_, _) |- _ => apply ep_intn in H
         | H : r_float64 _ = Ok (_, _) |- _ => apply ep_float64 in H
         | H : r_float32 _ = Ok (_, _) |- _ => apply ep_float32 in H
         | H : r_randsign _ = Ok (_, _) |- _ => apply ep_randsign in H
         end.

Lemma have_node_false g id : have_node g id = false -> ~ In id (map n_id (nodes g)).
Proof.
  unfold have_node. induction (nodes g) as [|m ns IH]; cbn [node_with_id map]; [intros _ []|].
  destruct (Z.eqb_spec (n_id m) id) as [E|Hne]; [discriminate|].
  intros H [Hm|Hin]; [contradiction|now apply IH].
Qed.

Lemma random_activation_In o t a t' : tape_random_activation o t = Ok (a, t') -> In a (o_activators o).
Proof.
  unfold tape_random_activation. destruct (o_activators o) as [|a0 [|a1 l]]; [discriminate| |].
  - intros H. injection H as <- _. now left.
  - set (acts := a0 :: a1 :: l). clearbody acts. destruct (negb _); [discriminate|]. unfold bind.
    destruct (tape_roulette _ t) as [[i t'']| | | | |]; try discriminate.
    destruct (Z.ltb i 0 || Z.geb i _) eqn:Ei; [discriminate|].
    intros H. injection H as <- _. apply orb_false_iff in Ei. destruct Ei as [E1 E2].
    apply nth_In. apply Z.ltb_ge in E1. rewrite Z.geb_leb in E2. apply Z.leb_gt in E2. lia.
Qed.

(* ==================== mutateAddNode ==================== *)
(* a gene the operator may split: enabled, and its source node exists and is not the bias *)
Definition splittable (g : genome) (x : gene) : Prop := g_en x = true /\ in_is_bias g x = Ok false.

Lemma splittable_src g x : splittable g x ->
  g_en x = true /\ exists a, node_with_id (g_in x) (nodes g) = Some a /\ n_type a <> BIAS.
Proof.
  intros [He Hb]. split; [exact He|]. unfold in_is_bias in Hb.
  destruct (node_with_id (g_in x) (nodes g)) as [a|]; [|discriminate].
  exists a. split; [reflexivity|]. injection Hb as Hb. now apply Z.eqb_neq.
Qed.

Lemma pick_small_spec g : forall l i s r s',
    pick_gene_small g l i s = Ok (r, s') ->
    s_env s' = s_env s /\
    forall k, r = Some k -> (i <= k)%nat /\ exists x, nth_error l (k - i) = Some x /\ splittable g x.
Proof.
  induction l as [|x l IH]; intros i s r s' H; cbn [pick_gene_small] in H.
  - minv. subst. split; [reflexivity|discriminate].
  - assert (Hrec : forall s1, pick_gene_small g l (S i) s1 = Ok (r, s') ->
                     s_env s' = s_env s1 /\
                     forall k, r = Some k -> (i <= k)%nat /\ exists y, nth_error (x :: l) (k - i) = Some y /\ splittable g y).
    { intros s1 H1. apply IH in H1. destruct H1 as [He Hk]. split; [exact He|].
      intros k Hr. destruct (Hk k Hr) as (Hle & y & Hy & Hs). split; [lia|]. exists y. split; [|exact Hs].
      replace (k - i)%nat with (S (k - S i)) by lia. exact Hy. }
    destruct (g_en x) eqn:Een; [|now apply Hrec].
    minv. subst. destruct a; [now apply Hrec|].
    minv. envs. destruct (PrimFloat.leb f32_03 a).
    + minv. subst. split; [assumption|]. intros k Hk. injection Hk as <-. split; [lia|].
      exists x. rewrite Nat.sub_diag. split; [reflexivity|]. split; assumption.
    + apply Hrec in H. destruct H as [He Hk]. split; [congruence|exact Hk].
Qed.

Lemma pick_big_spec g : forall tries s r s',
    pick_gene_big tries g s = Ok (r, s') ->
    s_env s' = s_env s /\ forall k, r = Some k -> exists x, nth_error (genes g) k = Some x /\ splittable g x.
Proof.
  induction tries as [|n IH]; intros s r s' H; cbn [pick_gene_big] in H.
  - minv. subst. split; [reflexivity|discriminate].
  - minv. envs. subst.
    match goal with H : idx _ _ = Ok _ |- _ => apply idx_inv in H; destruct H as [_ Hx] end.
    destruct (g_en a0) eqn:Een.
    + minv. subst. destruct a1; cbn [andb negb] in H.
      * apply IH in H. destruct H as [He Hk]. split; [congruence|exact Hk].
      * minv. subst. split; [assumption|]. intros k Hk. injection Hk as <-.
        exists a0. split; [exact Hx|]. split; assumption.
    + cbn [andb] in H. minv. subst. apply IH in H. destruct H as [He Hk]. split; [congruence|exact Hk].
Qed.

(* the genome after a successful split of gene [x] (at position [k]) around node [nd] *)
Definition split_genome (g : genome) (k : nat) (x : gene) (nd : node) (num1 num2 : Z) : genome :=
  {| gid := gid g; traits := traits g;
     nodes := node_insert (nodes g) nd;
     genes := gene_insert (gene_insert (set_nth (genes g) k (set_en false x))
                (mk_gene (g_trait x) 1%float (g_in x) (n_id nd) (g_rec x) num1 0%float))
                (mk_gene (g_trait x) (g_w x) (n_id nd) (g_out x) false num2 0%float);
     modules := modules g |}.

Definition node_innovation (x : gene) (nid num1 num2 : Z) : innovation :=
  {| i_type := 1; i_in := g_in x; i_out := g_out x; i_num := num1; i_num2 := num2;
     i_w := 0%float; i_trait := 0; i_node := nid; i_old := g_innov x; i_rec := false |}.

(* every successful run of the operator, classified *)
Lemma add_node_inv o g s g' b s' :
  mutate_add_node o g s = Ok ((g', b), s') ->
  (g' = g /\ b = false /\ s_env s' = s_env s) \/
  exists k x, nth_error (genes g) k = Some x /\ splittable g x /\
    ((exists inn t0,
         find_node_innov (innovs (s_env s)) (g_in x) (g_out x) (g_innov x) = Some inn /\
         nth_error (traits g) 0 = Some t0 /\ s_env s' = s_env s /\
         ((have_node g (i_node inn) = true /\ b = false /\
           g' = with_genes g (set_nth (genes g) k (set_en false x))) \/
          (have_node g (i_node inn) = false /\ b = true /\
           g' = split_genome g k x {| n_id := i_node inn; n_type := HIDDEN; n_act := SIGMOID_STEEPENED;
                                      n_trait := Some (t_id t0) |} (i_num inn) (i_num2 inn))))
     \/
     (find_node_innov (innovs (s_env s)) (g_in x) (g_out x) (g_innov x) = None /\
      exists t0 act, nth_error (traits g) 0 = Some t0 /\ In act (o_activators o) /\ b = true /\
        g' = split_genome g k x {| n_id := next_node (s_env s) + 1; n_type := HIDDEN; n_act := act;
                                   n_trait := Some (t_id t0) |}
                          (next_innov (s_env s) + 1) (next_innov (s_env s) + 1 + 1) /\
        innovs (s_env s') = innovs (s_env s) ++
                            [node_innovation x (next_node (s_env s) + 1) (next_innov (s_env s) + 1)
                                             (next_innov (s_env s) + 1 + 1)] /\
        next_innov (s_env s') = next_innov (s_env s) + 1 + 1 /\
        next_node (s_env s') = next_node (s_env s) + 1)).
Proof.
  unfold mutate_add_node. intros H. destruct (genes g) as [|x0 gs0] eqn:Eg.
  { minv. pairs. subst. left. auto. }
  rewrite <- Eg in H |- *. clear x0 gs0 Eg.
  minv.
  assert (Hpick : s_env s0 = s_env s /\
                  forall k, a = Some k -> exists x, nth_error (genes g) k = Some x /\ splittable g x).
  { destruct (Z.ltb _ 15).
    - apply pick_small_spec in E. destruct E as [He Hk]. split; [exact He|].
      intros k Hr. destruct (Hk k Hr) as (_ & y & Hy & Hs). rewrite Nat.sub_0_r in Hy. eauto.
    - apply pick_big_spec in E. exact E. }
  destruct Hpick as [He0 Hk]. destruct a as [k|]; [|minv; pairs; subst; left; auto].
  destruct (Hk k eq_refl) as (x & Hx & Hsp). clear Hk E.
  minv. subst.
  match goal with H : nth_res _ _ = Ok _ |- _ => apply nth_res_inv in H; rewrite Hx in H; injection H as <- end.
  right. exists k, x. split; [exact Hx|]. split; [exact Hsp|].
  rewrite He0 in *.
  destruct (find_node_innov (innovs (s_env s)) (g_in x) (g_out x) (g_innov x)) as [inn|] eqn:Ef.
  - left. minv. subst.
    match goal with H : trait_at _ _ = Ok _ |- _ => apply trait_at_inv in H; destruct H as (t0 & _ & Ht0 & ->) end.
    cbn in Ht0. exists inn, t0. split; [reflexivity|]. split; [exact Ht0|].
    cbn [n_id] in H.
    destruct (have_node _ (i_node inn)) eqn:Ehn; minv; pairs; subst; (split; [exact He0|]); [left|right];
      repeat split; exact Ehn.
  - right. split; [reflexivity|]. minv. subst.
    match goal with H : trait_at _ _ = Ok _ |- _ => apply trait_at_inv in H; destruct H as (t0 & _ & Ht0 & ->) end.
    cbn in Ht0.
    match goal with H : on_tape (tape_random_activation o) _ = Ok _ |- _ =>
                    pose proof (ep_on_tape _ _ _ _ H) as Hact; apply on_tape_inv in H; destruct H as (t' & Hin & _);
                      apply random_activation_In in Hin end.
    envs. pairs. subst.
    exists t0. eexists. split; [exact Ht0|]. split; [exact Hin|]. split; [reflexivity|].
    repeat match goal with H : s_env _ = s_env _ |- _ => rewrite H in * end.
    repeat match goal with H : innovs _ = _ |- _ => rewrite H in * end.
    repeat match goal with H : next_innov _ = _ |- _ => rewrite H in * end.
    repeat match goal with H : next_node _ = _ |- _ => rewrite H in * end.
    repeat split.
Qed.

(* ==================== shared: one link gene taken from the record or issued afresh ==================== *)
(* how mutateAddLink and mutateConnectSensors obtain the gene [x] they insert into [g]:
   either the innovation record already knows the link (number, weight and trait index come from the
   first matching record; the environment is untouched), or a new innovation number is drawn from
   the counter and a record is appended *)
Definition link_from_env (g : genome) (x : gene) (s s' : st) : Prop :=
  (exists inn tr,
      find_link_innov (innovs (s_env s)) (g_in x) (g_out x) (g_rec x) = Some inn /\
      trait_at g (i_trait inn) = Ok tr /\
      x = mk_gene tr (i_w inn) (g_in x) (g_out x) (g_rec x) (i_num inn) 0%float /\
      have_gene g x = false /\ s_env s' = s_env s) \/
  (find_link_innov (innovs (s_env s)) (g_in x) (g_out x) (g_rec x) = None /\
   exists tn w tr,
     trait_at g tn = Ok tr /\
     x = mk_gene tr w (g_in x) (g_out x) (g_rec x) (next_innov (s_env s) + 1) w /\
     innovs (s_env s') = innovs (s_env s) ++
                         [link_innovation (g_in x) (g_out x) (next_innov (s_env s) + 1) w tn (g_rec x)] /\
     next_innov (s_env s') = next_innov (s_env s) + 1 /\
     next_node (s_env s') = next_node (s_env s)).

(* ==================== mutateAddLink ==================== *)
Lemma ep_oot {A} : env_pres (fun _ : st => @OutOfTape (A * st)).
Proof. intros s a s' H. discriminate. Qed.

Lemma ep_pick_distinct : forall fuel n first, env_pres (pick_distinct fuel n first).
Proof.
  induction fuel as [|f IH]; intros n first; cbn [pick_distinct]; [apply ep_oot|].
  apply ep_bind; [apply ep_intn|]. intros a. apply ep_bind; [apply ep_intn|]. intros b0.
  destruct (Z.eqb a (first + b0)); [apply IH|apply ep_ret].
Qed.

Lemma ep_pick_pair dr n first : env_pres (pick_pair dr n first).
Proof.
  unfold pick_pair. apply ep_bind; [apply ep_tape_len|]. intros fuel.
  destruct dr; [|apply ep_pick_distinct].
  apply ep_bind; [apply ep_float64|]. intros r. destruct (PrimFloat.ltb half r); [|apply ep_pick_distinct].
  apply ep_bind; [apply ep_intn|]. intros a0. apply ep_ret.
Qed.

(* the open link the try loop found *)
Definition open_link (g : genome) (dr : bool) (n : Z) (n1 n2 : node) : Prop :=
  (exists a b, nth_error (nodes g) a = Some n1 /\ nth_error (nodes g) b = Some n2) /\
  is_sensor n2 = false /\
  existsb (fun x => Z.eqb (g_in x) (n_id n1) && Z.eqb (g_out x) (n_id n2) && Bool.eqb (g_rec x) dr) (genes g) = false /\
  fst (is_recurrent (S (Z.to_nat (n * n))) g (n_id n1) (n_id n2) 0 (n * n)) = dr.

Lemma add_link_tries_spec g dr n first : forall tries lp s r fl s',
    add_link_tries tries dr g n first lp s = Ok ((r, fl), s') ->
    s_env s' = s_env s /\ (fl = true -> exists n1 n2, r = Some (n1, n2) /\ open_link g dr n n1 n2).
Proof.
  induction tries as [|k IH]; intros lp s r fl s' H; cbn [add_link_tries] in H.
  - minv. pairs. subst. split; [reflexivity|discriminate].
  - minv. destruct a as [a b]. minv. subst.
    match goal with H : pick_pair _ _ _ _ = Ok _ |- _ => apply ep_pick_pair in H; rename H into Hp end.
    repeat match goal with H : idx _ _ = Ok _ |- _ => apply idx_inv in H; destruct H as [_ H] end.
    assert (Hrec : forall lp', add_link_tries k dr g n first lp' s0 = Ok ((r, fl), s') ->
                          s_env s' = s_env s /\ (fl = true -> exists n1 n2, r = Some (n1, n2) /\ open_link g dr n n1 n2)).
    { intros lp' H'. apply IH in H'. destruct H' as [He Hk]. split; [congruence|exact Hk]. }
    destruct (is_sensor a1) eqn:Es; [now apply Hrec in H|].
    destruct (existsb _ (genes g)) eqn:Eex; [now apply Hrec in H|].
    destruct (is_recurrent _ g (n_id a0) (n_id a1) 0 (n * n)) as [rf cnt] eqn:Erec.
    destruct (Bool.eqb rf dr) eqn:Erf; [|now apply Hrec in H].
    minv. pairs. subst. split; [exact Hp|]. intros _. exists a0, a1. split; [reflexivity|].
    unfold open_link. rewrite Erec. cbn [fst]. apply eqb_prop in Erf.
    repeat split; eauto.
Qed.

Lemma add_link_inv o g s g' b s' :
  mutate_add_link o g s = Ok ((g', b), s') ->
  (b = false /\ g' = g /\ s_env s' = s_env s) \/
  (b = true /\ exists x n1 n2 s1,
      g_in x = n_id n1 /\ g_out x = n_id n2 /\ g_en x = true /\
      open_link g (g_rec x) (zlen (nodes g)) n1 n2 /\
      (g_in x = g_out x -> g_rec x = true) /\
      s_env s1 = s_env s /\ link_from_env g x s1 s' /\
      g' = with_genes g (gene_insert (genes g) x)).
Proof.
  unfold mutate_add_link. intros H.
  match type of H with
    (match ?d with GoErr _ => _ | OutOfTape => ?body | _ => _ end) ?s0 = ?r =>
    assert (Hb : body s0 = r) by (destruct d; first [exact H | exfalso; exact (fail_err_inv _ _ _ H)])
  end.
  clear H. cbv beta in Hb. minv. envs. destruct a0 as [pr fl].
  match goal with H : add_link_tries _ _ _ _ _ _ _ = Ok _ |- _ => apply add_link_tries_spec in H; destruct H as [Het Hfound] end.
  set (dr := PrimFloat.ltb a (o_recur_only o)) in *.
  destruct pr as [[n1 n2]|].
  2:{ destruct fl; [destruct (Hfound eq_refl) as (? & ? & ? & _); discriminate|].
      minv. pairs. subst. left. repeat split; congruence. }
  destruct fl; [|minv; pairs; subst; left; repeat split; congruence].
  destruct (Hfound eq_refl) as (m1 & m2 & Hm & Hopen). injection Hm as <- <-. clear Hfound.
  minv. subst.
  destruct (find_link_innov (innovs (s_env s1)) (n_id n1) (n_id n2) dr) as [inn|] eqn:Ef.
  - minv. subst.
    match goal with H : trait_at _ _ = Ok _ |- _ => rename H into Htr end.
    set (x := mk_gene a0 (i_w inn) (n_id n1) (n_id n2) dr (i_num inn) 0%float) in *.
    destruct (have_gene g x) eqn:Ehg.
    { minv. pairs. subst. left. repeat split; congruence. }
    destruct (Z.eqb (g_in x) (g_out x) && negb dr) eqn:Eself; [minv|].
    minv. pairs. subst. right. split; [reflexivity|].
    exists x, n1, n2, s1.
    split; [reflexivity|]. split; [reflexivity|]. split; [reflexivity|]. split; [exact Hopen|].
    split; [|split; [congruence|split; [|reflexivity]]].
    + intros Heq. rewrite Heq, Z.eqb_refl in Eself. cbn [andb] in Eself. apply negb_false_iff in Eself. exact Eself.
    + left. exists inn, a0. repeat split; try assumption; reflexivity.
  - minv. envs. subst.
    match goal with H : trait_at _ _ = Ok _ |- _ => rename H into Htr end.
    set (w := PrimFloat.mul (PrimFloat.mul a1 a2) 10%float) in *.
    set (x := mk_gene a4 w (n_id n1) (n_id n2) dr (next_innov (s_env s4) + 1) w) in *.
    destruct (Z.eqb (g_in x) (g_out x) && negb dr) eqn:Eself; [minv|].
    minv. pairs. subst. right. split; [reflexivity|].
    assert (Hs4 : s_env s4 = s_env s1) by congruence.
    exists x, n1, n2, s1.
    split; [reflexivity|]. split; [reflexivity|]. split; [reflexivity|]. split; [exact Hopen|].
    split; [|split; [congruence|split; [|reflexivity]]].
    + intros Heq. rewrite Heq, Z.eqb_refl in Eself. cbn [andb] in Eself. apply negb_false_iff in Eself. exact Eself.
    + right. split; [exact Ef|]. exists a0, w, a4.
      subst x. cbn [g_in g_out g_rec mk_gene]. rewrite <- Hs4.
      repeat split; try assumption; try congruence.
Qed.

(* ==================== mutateConnectSensors ==================== *)
(* one iteration of the loop over the non-sensor nodes, classified *)
Lemma connect_one_inv sid g added stop out s g' added' stop' s' :
  connect_one sid (g, added, stop) out s = Ok ((g', added', stop'), s') ->
  (* skipped: already stopped, or the sensor is already linked to this node *)
  ((stop = true \/ existsb (fun x => Z.eqb (g_in x) sid && Z.eqb (g_out x) (n_id out)) (genes g) = true) /\
   g' = g /\ added' = added /\ stop' = stop /\ s' = s) \/
  (stop = false /\
   existsb (fun x => Z.eqb (g_in x) sid && Z.eqb (g_out x) (n_id out)) (genes g) = false /\
   ((* the recorded gene is already present: "return false, nil" *)
    (g' = g /\ added' = added /\ stop' = true /\ s_env s' = s_env s) \/
    (exists x, g_in x = sid /\ g_out x = n_id out /\ g_rec x = false /\ g_en x = true /\
               link_from_env g x s s' /\
               g' = with_genes g (gene_insert (genes g) x) /\ added' = true /\ stop' = false))).
Proof.
  unfold connect_one. intros H. destruct stop.
  { minv. pairs. subst. left. auto. }
  destruct (existsb _ (genes g)) eqn:Eex.
  { minv. pairs. subst. left. auto. }
  right. split; [reflexivity|]. split; [reflexivity|]. minv. subst.
  destruct (find_link_innov (innovs (s_env s)) sid (n_id out) false) as [inn|] eqn:Ef.
  - minv. subst.
    match goal with H : trait_at _ _ = Ok _ |- _ => rename H into Htr end.
    set (x := mk_gene a (i_w inn) sid (n_id out) false (i_num inn) 0%float) in *.
    destruct (have_gene g x) eqn:Ehg; minv; pairs; subst; [left; auto|].
    right. exists x. repeat split.
    left. exists inn, a. repeat split; assumption.
  - minv. envs. pairs. subst.
    match goal with H : trait_at _ _ = Ok _ |- _ => rename H into Htr end.
    set (w := PrimFloat.mul (PrimFloat.mul a0 a1) 10%float) in *.
    right. eexists. split; [|split; [|split; [|split; [|split; [|split; [reflexivity|split; reflexivity]]]]]];
      try reflexivity.
    right. cbn [g_in g_out g_rec mk_gene]. split; [exact Ef|]. exists a, w, a3.
    assert (Hs2 : s_env s2 = s_env s) by congruence. rewrite <- Hs2.
    repeat split; try assumption; try congruence.
Qed.

(* invariant of the loop: [ladd] are the genes added so far, [pre] the nodes already visited *)
Definition cs_inv (g0 : genome) (sid : Z) (pre : list node) (acc : genome * bool * bool) (ladd : list gene) : Prop :=
  let '(g, added, stop) := acc in
  g = with_genes g0 (genes g) /\
  Permutation (genes g) (ladd ++ genes g0) /\
  Forall (fun x => g_in x = sid /\ g_en x = true /\ g_rec x = false) ladd /\
  NoDup (map g_out ladd) /\
  (forall id, In id (map g_out ladd) -> In id (map n_id pre)) /\
  (stop = false -> forall id, In id (map n_id pre) -> In id (map g_out ladd)) /\
  (added = true -> ladd <> []).

Lemma cs_inv_weaken g0 sid pre out g added stop ladd :
  cs_inv g0 sid pre (g, added, stop) ladd ->
  (stop = false -> In (n_id out) (map g_out ladd)) ->
  cs_inv g0 sid (pre ++ [out]) (g, added, stop) ladd.
Proof.
  intros (Hg & Hp & Hf & Hnd & Hin & Hall & Hadd) Hout. unfold cs_inv.
  repeat split; try assumption.
  - intros id Hid. rewrite map_app, in_app_iff. left. now apply Hin.
  - intros Hs id Hid. rewrite map_app, in_app_iff in Hid. destruct Hid as [Hid|[<-|[]]]; [now apply Hall|now apply Hout].
Qed.

Lemma connect_step g0 sid (Hdis : forall x, In x (genes g0) -> g_in x <> sid) pre acc ladd out s acc' s' :
  cs_inv g0 sid pre acc ladd ->
  connect_one sid acc out s = Ok (acc', s') ->
  exists ladd', cs_inv g0 sid (pre ++ [out]) acc' ladd'.
Proof.
  destruct acc as [[g added] stop]. destruct acc' as [[g' added'] stop']. intros Hinv H.
  apply connect_one_inv in H.
  destruct H as [(Hskip & -> & -> & -> & ->)|(-> & Eex & [(-> & -> & -> & _)|(x & Hxi & Hxo & Hxr & Hxe & _ & -> & -> & ->)])].
  - exists ladd. apply cs_inv_weaken; [exact Hinv|]. intros Hs.
    destruct Hskip as [Hst|Hex]; [congruence|].
    destruct Hinv as (_ & Hp & _). apply existsb_exists in Hex. destruct Hex as (y & Hy & Hc).
    apply andb_true_iff in Hc. destruct Hc as [Hyi Hyo]. apply Z.eqb_eq in Hyi, Hyo.
    apply (Permutation_in _ Hp), in_app_or in Hy. destruct Hy as [Hy|Hy]; [|destruct (Hdis y Hy Hyi)].
    rewrite <- Hyo. now apply in_map.
  - exists ladd. apply cs_inv_weaken; [|discriminate].
    destruct Hinv as (Hg & Hp & Hf & Hnd & Hin & _ & Hadd). unfold cs_inv. repeat split; try assumption. discriminate.
  - destruct Hinv as (Hg & Hp & Hf & Hnd & Hin & Hall & Hadd). exists (x :: ladd). unfold cs_inv. cbn [genes with_genes].
    split; [rewrite Hg; reflexivity|]. split.
    { etransitivity; [apply (insert_sorted_perm g_innov)|]. cbn [app]. now constructor. }
    split; [constructor; auto|]. split.
    { cbn [map]. constructor; [|exact Hnd]. rewrite in_map_iff. intros (y & Hyo & Hy).
      rewrite Forall_forall in Hf. destruct (Hf y Hy) as (Hyi & _).
      assert (Hyg : In y (genes g)).
      { apply (Permutation_in _ (Permutation_sym Hp)), in_or_app. now left. }
      assert (Hc : existsb (fun x0 : gene => (g_in x0 =? sid) && (g_out x0 =? n_id out)) (genes g) = true).
      { apply existsb_exists. exists y. split; [exact Hyg|]. rewrite Hyi, Hyo, Hxo, !Z.eqb_refl. reflexivity. }
      congruence. }
    split.
    { intros id [<-|Hid]; rewrite map_app, in_app_iff; [right; rewrite Hxo; now left|left; now apply Hin]. }
    split.
    { intros _ id Hid. rewrite map_app, in_app_iff in Hid. cbn [map].
      destruct Hid as [Hid|[<-|[]]]; [right; now apply Hall|left; exact Hxo]. }
    intros _. discriminate.
Qed.

Lemma connect_fold g0 sid (Hdis : forall x, In x (genes g0) -> g_in x <> sid) : forall outs pre acc ladd s r s',
    cs_inv g0 sid pre acc ladd ->
    foldM (connect_one sid) outs acc s = Ok (r, s') ->
    exists ladd', cs_inv g0 sid (pre ++ outs) r ladd'.
Proof.
  induction outs as [|out outs IH]; intros pre acc ladd s r s' Hinv H; cbn [foldM] in H.
  - minv. subst. rewrite app_nil_r. now exists ladd.
  - minv. destruct (connect_step g0 sid Hdis pre acc ladd out s a s0 Hinv E) as (ladd1 & Hinv1).
    destruct (IH _ _ _ _ _ _ Hinv1 H) as (ladd' & Hinv'). exists ladd'.
    now rewrite <- app_assoc in Hinv'.
Qed.

Lemma connect_sensors_inv g s g' b s' :
  mutate_connect_sensors g s = Ok ((g', b), s') ->
  (g' = g /\ b = false /\ s' = s /\
   forall n, In n (nodes g) -> is_sensor n = true -> exists x, In x (genes g) /\ g_in x = n_id n) \/
  exists sn added,
    In sn (nodes g) /\ is_sensor sn = true /\ (forall x, In x (genes g) -> g_in x <> n_id sn) /\
    g' = with_genes g (genes g') /\ Permutation (genes g') (added ++ genes g) /\
    Forall (fun x => g_in x = n_id sn /\ g_en x = true /\ g_rec x = false) added /\
    NoDup (map g_out added) /\
    (forall id, In id (map g_out added) -> exists n, In n (nodes g) /\ is_sensor n = false /\ n_id n = id) /\
    (b = true -> added <> [] /\
                 forall n, In n (nodes g) -> is_sensor n = false -> In (n_id n) (map g_out added)).
Proof.
  unfold mutate_connect_sensors. intros H. destruct (genes g) as [|x0 gs0] eqn:Eg; [minv|].
  rewrite <- Eg in H |- *. clear x0 gs0 Eg.
  set (dis := filter (fun s => negb (existsb (fun x => Z.eqb (g_in x) (n_id s)) (genes g))) (filter is_sensor (nodes g))) in *.
  destruct dis as [|d0 ds] eqn:Edis.
  { minv. pairs. subst. left. repeat split; try reflexivity.
    intros n Hn Hs.
    destruct (existsb (fun x => Z.eqb (g_in x) (n_id n)) (genes g')) eqn:Ex.
    - apply existsb_exists in Ex. destruct Ex as (x & Hx & Hc). apply Z.eqb_eq in Hc. now exists x.
    - exfalso. assert (Hd : In n dis).
      { subst dis. apply filter_In. split; [apply filter_In; now split|]. now rewrite Ex. }
      rewrite Edis in Hd. destruct Hd. }
  rewrite <- Edis in H. minv. subst.
  match goal with H : idx _ _ = Ok _ |- _ => apply idx_inv in H; destruct H as [_ Hsn] end.
  apply nth_error_In in Hsn. subst dis. apply filter_In in Hsn. destruct Hsn as [Hsn Hnc].
  apply filter_In in Hsn. destruct Hsn as [Hsn Hsens].
  assert (Hdis : forall x, In x (genes g) -> g_in x <> n_id a0).
  { intros x Hx Heq. apply negb_true_iff in Hnc.
    assert (Ht : existsb (fun x => Z.eqb (g_in x) (n_id a0)) (genes g) = true).
    { apply existsb_exists. exists x. split; [exact Hx|now apply Z.eqb_eq]. }
    congruence. }
  destruct a1 as [[g1 added] stop]. minv. pairs. subst.
  match goal with H : foldM _ _ _ _ = Ok _ |- _ => rename H into Hfold end.
  assert (Hinv0 : cs_inv g (n_id a0) [] (g, false, false) []).
  { unfold cs_inv. repeat split; try (now destruct g); try constructor; try discriminate;
      try (intros id []); try (intros _ id []). }
  destruct (connect_fold g (n_id a0) Hdis _ _ _ _ _ _ _ Hinv0 Hfold) as (ladd & Hinv).
  cbn [app] in Hinv. destruct Hinv as (Hg & Hp & Hf & Hnd & Hin & Hall & Hadd).
  right. exists a0, ladd. repeat split; try assumption.
  - intros id Hid. apply Hin in Hid. apply in_map_iff in Hid. destruct Hid as (n & Hid & Hn).
    apply filter_In in Hn. destruct Hn as [Hn Hns]. exists n. repeat split; try assumption. now apply negb_true_iff.
  - destruct stop; [discriminate|]. now apply Hadd.
  - destruct stop; [discriminate|]. intros n Hn Hns. apply Hall; [reflexivity|].
    apply in_map. apply filter_In. split; [exact Hn|]. now rewrite Hns.
Qed.

(* ==================== the property-level statements ==================== *)
Lemma have_node_true g id : have_node g id = true -> In id (map n_id (nodes g)).
Proof.
  unfold have_node. induction (nodes g) as [|m ns IH]; cbn [node_with_id map]; [discriminate|].
  destruct (Z.eqb_spec (n_id m) id) as [E|Hne]; [now left|]. intros H. right. now apply IH.
Qed.

Theorem add_node_spec : forall o g s g' s',
    mutate_add_node o g s = Ok ((g', true), s') ->
    exists l1 x l2 nd num1 num2,
      genes g = l1 ++ x :: l2 /\ g_en x = true /\
      (exists a, node_with_id (g_in x) (nodes g) = Some a /\ n_type a <> BIAS) /\
      n_type nd = HIDDEN /\
      (exists t0, nth_error (traits g) 0 = Some t0 /\ n_trait nd = Some (t_id t0)) /\
      let x1 := {| g_in := g_in x; g_out := n_id nd; g_rec := g_rec x; g_w := 1%float; g_trait := g_trait x;
                   g_innov := num1; g_mut := 0%float; g_en := true |} in
      let x2 := {| g_in := n_id nd; g_out := g_out x; g_rec := false; g_w := g_w x; g_trait := g_trait x;
                   g_innov := num2; g_mut := 0%float; g_en := true |} in
      g' = {| gid := gid g; traits := traits g; nodes := node_insert (nodes g) nd;
              genes := gene_insert (gene_insert (l1 ++ set_en false x :: l2) x1) x2; modules := modules g |} /\
      Permutation (nodes g') (nd :: nodes g) /\
      Permutation (genes g') (x2 :: x1 :: l1 ++ set_en false x :: l2) /\
      ((exists inn,
           find_node_innov (innovs (s_env s)) (g_in x) (g_out x) (g_innov x) = Some inn /\
           n_id nd = i_node inn /\ n_act nd = SIGMOID_STEEPENED /\ num1 = i_num inn /\ num2 = i_num2 inn /\
           ~ In (n_id nd) (map n_id (nodes g)) /\ s_env s' = s_env s)
       \/
       (find_node_innov (innovs (s_env s)) (g_in x) (g_out x) (g_innov x) = None /\
        n_id nd = next_node (s_env s) + 1 /\ In (n_act nd) (o_activators o) /\
        num1 = next_innov (s_env s) + 1 /\ num2 = next_innov (s_env s) + 2 /\
        ((forall n, In n (nodes g) -> n_id n <= next_node (s_env s)) -> ~ In (n_id nd) (map n_id (nodes g))) /\
        innovs (s_env s') = innovs (s_env s) ++
                            [{| i_type := 1; i_in := g_in x; i_out := g_out x; i_num := num1; i_num2 := num2;
                                i_w := 0%float; i_trait := 0; i_node := n_id nd; i_old := g_innov x;
                                i_rec := false |}] /\
        next_innov (s_env s') = next_innov (s_env s) + 2 /\
        next_node (s_env s') = next_node (s_env s) + 1)).
Proof.
  intros o g s g' s' H. apply add_node_inv in H.
  destruct H as [(_ & Hb & _)|(k & x & Hx & Hsp & Hcase)]; [discriminate|].
  destruct (set_nth_split (genes g) k x (set_en false x) Hx) as [Hl Hset].
  destruct (splittable_src g x Hsp) as [Hen Hsrc].
  exists (firstn k (genes g)), x, (skipn (S k) (genes g)).
  destruct Hcase as [(inn & t0 & Hf & Ht0 & He & [(_ & Hb & _)|(Hhn & _ & ->)])|(Hf & t0 & act & Ht0 & Hact & _ & -> & Hi & Hni & Hnn)];
    [discriminate| |].
  - exists {| n_id := i_node inn; n_type := HIDDEN; n_act := SIGMOID_STEEPENED; n_trait := Some (t_id t0) |},
           (i_num inn), (i_num2 inn).
    split; [exact Hl|]. split; [exact Hen|]. split; [exact Hsrc|]. split; [reflexivity|].
    split; [exists t0; split; [exact Ht0|reflexivity]|]. cbv zeta.
    unfold split_genome. rewrite Hset. split; [reflexivity|]. cbn [nodes genes].
    split; [apply (insert_sorted_perm n_id)|]. split.
    { etransitivity; [apply (insert_sorted_perm g_innov)|]. constructor. apply (insert_sorted_perm g_innov). }
    left. exists inn. cbn [n_id n_act]. repeat split; try assumption. now apply have_node_false.
  - exists {| n_id := next_node (s_env s) + 1; n_type := HIDDEN; n_act := act; n_trait := Some (t_id t0) |},
           (next_innov (s_env s) + 1), (next_innov (s_env s) + 2).
    replace (next_innov (s_env s) + 1 + 1) with (next_innov (s_env s) + 2) in * by lia.
    split; [exact Hl|]. split; [exact Hen|]. split; [exact Hsrc|]. split; [reflexivity|].
    split; [exists t0; split; [exact Ht0|reflexivity]|]. cbv zeta.
    unfold split_genome. rewrite Hset. split; [reflexivity|]. cbn [nodes genes].
    split; [apply (insert_sorted_perm n_id)|]. split.
    { etransitivity; [apply (insert_sorted_perm g_innov)|]. constructor. apply (insert_sorted_perm g_innov). }
    right. cbn [n_id n_act]. repeat split; try assumption.
    intros Hdom Hin. apply in_map_iff in Hin. destruct Hin as (n & Hid & Hn). specialize (Hdom n Hn). lia.
Qed.

Theorem add_node_false_spec : forall o g s g' s',
    mutate_add_node o g s = Ok ((g', false), s') ->
    s_env s' = s_env s /\
    (g' = g \/
     exists l1 x l2 inn,
       genes g = l1 ++ x :: l2 /\ g_en x = true /\
       find_node_innov (innovs (s_env s)) (g_in x) (g_out x) (g_innov x) = Some inn /\
       In (i_node inn) (map n_id (nodes g)) /\
       g' = with_genes g (l1 ++ set_en false x :: l2)).
Proof.
  intros o g s g' s' H. apply add_node_inv in H.
  destruct H as [(-> & _ & He)|(k & x & Hx & Hsp & Hcase)]; [split; [exact He|now left]|].
  destruct (set_nth_split (genes g) k x (set_en false x) Hx) as [Hl Hset].
  destruct Hcase as [(inn & t0 & Hf & Ht0 & He & [(Hhn & _ & ->)|(_ & Hb & _)])|(_ & t0 & act & _ & _ & Hb & _)];
    try discriminate.
  split; [exact He|]. right.
  exists (firstn k (genes g)), x, (skipn (S k) (genes g)), inn.
  split; [exact Hl|]. split; [exact (proj1 Hsp)|]. split; [exact Hf|]. split; [now apply have_node_true|].
  now rewrite Hset.
Qed.

Lemma existsb_false_forall {A} (f : A -> bool) l : existsb f l = false -> forall x, In x l -> f x = false.
Proof.
  intros H x Hx. destruct (f x) eqn:E; [|reflexivity].
  assert (Ht : existsb f l = true) by (apply existsb_exists; now exists x). congruence.
Qed.

Theorem add_link_spec : forall o g s g' s',
    mutate_add_link o g s = Ok ((g', true), s') ->
    exists x n1 n2,
      g' = with_genes g (gene_insert (genes g) x) /\ Permutation (genes g') (x :: genes g) /\
      In n1 (nodes g) /\ In n2 (nodes g) /\ g_in x = n_id n1 /\ g_out x = n_id n2 /\
      is_sensor n2 = false /\ g_en x = true /\
      (forall y, In y (genes g) -> same_link y x = false) /\
      (g_in x = g_out x -> g_rec x = true) /\
      fst (is_recurrent (S (Z.to_nat (zlen (nodes g) * zlen (nodes g)))) g (g_in x) (g_out x) 0
                        (zlen (nodes g) * zlen (nodes g))) = g_rec x /\
      ((exists inn t,
           find_link_innov (innovs (s_env s)) (g_in x) (g_out x) (g_rec x) = Some inn /\
           g_innov x = i_num inn /\ g_w x = i_w inn /\ g_mut x = 0%float /\
           nth_error (traits g) (Z.to_nat (i_trait inn)) = Some t /\ g_trait x = Some (t_id t) /\
           s_env s' = s_env s)
       \/
       (find_link_innov (innovs (s_env s)) (g_in x) (g_out x) (g_rec x) = None /\
        g_innov x = next_innov (s_env s) + 1 /\ g_mut x = g_w x /\
        exists tn t,
          nth_error (traits g) (Z.to_nat tn) = Some t /\ g_trait x = Some (t_id t) /\
          innovs (s_env s') = innovs (s_env s) ++
                              [link_innovation (g_in x) (g_out x) (g_innov x) (g_w x) tn (g_rec x)] /\
          next_innov (s_env s') = next_innov (s_env s) + 1 /\
          next_node (s_env s') = next_node (s_env s))).
Proof.
  intros o g s g' s' H. apply add_link_inv in H.
  destruct H as [(Hb & _)|(_ & x & n1 & n2 & s1 & Hi & Ho & Hen & Hopen & Hself & Hs1 & Hfrom & ->)]; [discriminate|].
  destruct Hopen as ((a & b & Ha & Hb) & Hsens & Hex & Hrec).
  exists x, n1, n2. cbn [genes with_genes].
  split; [reflexivity|]. split; [apply (insert_sorted_perm g_innov)|].
  split; [eapply nth_error_In; eauto|]. split; [eapply nth_error_In; eauto|].
  split; [exact Hi|]. split; [exact Ho|]. split; [exact Hsens|]. split; [exact Hen|].
  split.
  { intros y Hy. pose proof (existsb_false_forall _ _ Hex y Hy) as Hf. cbv beta in Hf.
    unfold same_link. now rewrite Hi, Ho. }
  split; [exact Hself|]. split; [rewrite Hi, Ho; exact Hrec|].
  unfold link_from_env in Hfrom. rewrite Hs1 in Hfrom.
  destruct Hfrom as [(inn & tr & Hf & Htr & Hx & _ & He)|(Hf & tn & w & tr & Htr & Hx & Hin & Hni & Hnn)].
  - left. apply trait_at_inv in Htr. destruct Htr as (t & _ & Ht & ->). exists inn, t.
    rewrite Hx. cbn [g_in g_out g_rec g_innov g_w g_mut g_trait mk_gene]. rewrite Hx in Hf. cbn [g_in g_out g_rec mk_gene] in Hf.
    repeat split; assumption.
  - right. apply trait_at_inv in Htr. destruct Htr as (t & _ & Ht & ->).
    rewrite Hx in Hf, Hin |- *. cbn [g_in g_out g_rec g_innov g_w g_mut g_trait mk_gene] in Hf, Hin |- *.
    split; [exact Hf|]. split; [reflexivity|]. split; [reflexivity|]. exists tn, t. repeat split; assumption.
Qed.

Theorem add_link_false_spec : forall o g s g' s',
    mutate_add_link o g s = Ok ((g', false), s') -> g' = g /\ s_env s' = s_env s.
Proof.
  intros o g s g' s' H. apply add_link_inv in H. destruct H as [(_ & Hg & He)|(Hb & _)]; [auto|discriminate].
Qed.

Theorem connect_sensors_spec : forall g s g' b s',
    mutate_connect_sensors g s = Ok ((g', b), s') ->
    (g' = g /\ b = false /\ s' = s /\
     forall n, In n (nodes g) -> is_sensor n = true -> exists x, In x (genes g) /\ g_in x = n_id n) \/
    exists sn added,
      In sn (nodes g) /\ is_sensor sn = true /\ (forall x, In x (genes g) -> g_in x <> n_id sn) /\
      g' = with_genes g (genes g') /\ Permutation (genes g') (added ++ genes g) /\
      Forall (fun x => g_in x = n_id sn /\ g_en x = true /\ g_rec x = false) added /\
      NoDup (map g_out added) /\
      (forall id, In id (map g_out added) -> exists n, In n (nodes g) /\ is_sensor n = false /\ n_id n = id) /\
      (b = true -> added <> [] /\
                   forall n, In n (nodes g) -> is_sensor n = false -> In (n_id n) (map g_out added)).
Proof. exact connect_sensors_inv. Qed.
