(* Random construction (model/RandGenome.v): whatever the tape and the options, a genome returned by
   new_genome_rand satisfies every component of [wf] except "has a gene", and carries the documented
   input / bias / hidden / output nodes; populations built by new_population_random hold only such
   genomes, and their counters bound every number in use. *)
From NeatModel Require Import Compat.
From NeatModel Require Import Res F64 GoRand Genome Options Insert Dup Mutate Mate Population RandGenome InsertSpec WF
     MutateMonad PopWF EpochTotalMut.
From Coq Require Import Lia Sorting.Sorted.

Notation innovs := Genome.innovs.

(* ------------------------------------------------------------------------------------------ *)
(* 1. loop ranges                                                                               *)
(* ------------------------------------------------------------------------------------------ *)
Lemma for_seq_In : forall m a x, In x (for_seq a m) <-> a <= x < a + Z.of_nat m.
Proof.
  induction m as [|m IH]; intros a x; cbn [for_seq In].
  - split; [intros []|lia].
  - rewrite IH. lia.
Qed.

Lemma for_range_In a b x : In x (for_range a b) <-> a <= x <= b.
Proof. unfold for_range. rewrite for_seq_In. lia. Qed.

Lemma for_seq_sorted : forall m a, StronglySorted Z.lt (for_seq a m).
Proof.
  induction m as [|m IH]; intros a; cbn [for_seq]; constructor; [apply IH|].
  rewrite Forall_forall. intros x Hx. apply for_seq_In in Hx. lia.
Qed.

Lemma for_range_sorted a b : StronglySorted Z.lt (for_range a b).
Proof. apply for_seq_sorted. Qed.

Lemma ss_app (a b : list Z) :
  StronglySorted Z.lt a -> StronglySorted Z.lt b -> (forall x y, In x a -> In y b -> x < y) ->
  StronglySorted Z.lt (a ++ b).
Proof.
  induction a as [|x a IH]; intros Ha Hb Hab; cbn [app]; [exact Hb|].
  inversion Ha as [|? ? Hs Hf]; subst. constructor.
  - apply IH; [exact Hs|exact Hb|]. intros u v Hu Hv. apply Hab; [now right|exact Hv].
  - rewrite Forall_app. split; [exact Hf|]. rewrite Forall_forall. intros v Hv. apply Hab; [now left|exact Hv].
Qed.

(* ------------------------------------------------------------------------------------------ *)
(* 2. the nodes                                                                                 *)
(* ------------------------------------------------------------------------------------------ *)
Lemma random_activation_In o t a t' : tape_random_activation o t = Ok (a, t') -> In a (o_activators o).
Proof.
  unfold tape_random_activation. destruct (o_activators o) as [|a0 [|a1 l]]; [discriminate| |].
  - intros H. injection H as <- _. now left.
  - remember (a0 :: a1 :: l) as acts eqn:Ea. clear Ea.
    destruct (negb _); [discriminate|]. unfold bind. destruct (tape_roulette _ _) as [[i t1]| | | | |]; try discriminate.
    destruct (Z.ltb_spec i 0) as [?|Hi]; cbn [orb]; [discriminate|].
    destruct (Z.geb_spec i (Z.of_nat (length acts))) as [?|Hlt]; [discriminate|].
    intros H. injection H as <- _. apply nth_In. lia.
Qed.

Definition hidden_ok (o : options) (h : node) : Prop :=
  n_type h = HIDDEN /\ n_trait h = Some 1 /\ In (n_act h) (o_activators o).

Lemma rand_hidden_spec o : forall l s hs s',
    mapM (rand_hidden o) l s = Ok (hs, s') ->
    map n_id hs = l /\ Forall (hidden_ok o) hs /\ s_env s' = s_env s.
Proof.
  induction l as [|i l IH]; intros s hs s' H; cbn [mapM] in H.
  - apply ret_inv in H. destruct H as [<- ->]. repeat split. constructor.
  - mb H as h s1 E1. mb H as hs' s2 E2. apply ret_inv in H. destruct H as [<- ->].
    unfold rand_hidden in E1. mb E1 as a s0 E0. apply ret_inv in E1. destruct E1 as [<- ->].
    apply on_tape_inv in E0. destruct E0 as (t' & E0 & ->).
    destruct (IH _ _ _ E2) as (Hm & Hf & He). cbn [map n_id]. rewrite Hm. repeat split.
    + constructor; [|exact Hf]. repeat split. cbn [n_act]. eapply random_activation_In; eauto.
    + rewrite He. reflexivity.
Qed.

(* the node list of a random genome: ids and roles *)
Record nodes_shape (o : options) (in_ n fo total : Z) (ns : list node) : Prop := {
  nsh_ids : map n_id ns = for_range 1 in_ ++ for_range (in_ + 1) (in_ + n) ++ for_range fo total;
  nsh_sensor : forall x, In x ns -> n_id x <= in_ -> x = rand_sensor in_ (n_id x);
  nsh_hidden : forall x, In x ns -> in_ < n_id x < fo -> n_id x = n_id x /\ hidden_ok o x;
  nsh_output : forall x, In x ns -> fo <= n_id x -> x = rand_output (n_id x);
  nsh_trait : forall x, In x ns -> n_trait x = Some 1
}.

Lemma map_id_f (f : Z -> node) l : (forall i, n_id (f i) = i) -> map n_id (map f l) = l.
Proof. intros H. rewrite map_map. rewrite <- (map_id l) at 2. apply map_ext. exact H. Qed.

Lemma nodes_shape_intro o in_ n fo total hs :
  0 <= n -> in_ + n < fo -> map n_id hs = for_range (in_ + 1) (in_ + n) -> Forall (hidden_ok o) hs ->
  nodes_shape o in_ n fo total (map (rand_sensor in_) (for_range 1 in_) ++ hs ++ map rand_output (for_range fo total)).
Proof.
  intros Hn0 Hfo Hm Hf. rewrite Forall_forall in Hf.
  assert (Hhid : forall x, In x hs -> in_ + 1 <= n_id x <= in_ + n).
  { intros x Hx. apply for_range_In. rewrite <- Hm. now apply in_map. }
  constructor.
  - rewrite !map_app, Hm, !map_id_f; reflexivity.
  - intros x Hx Hle. rewrite !in_app_iff in Hx. destruct Hx as [Hx|[Hx|Hx]].
    + apply in_map_iff in Hx. destruct Hx as (i & <- & _). reflexivity.
    + specialize (Hhid x Hx). lia.
    + apply in_map_iff in Hx. destruct Hx as (i & <- & Hi). apply for_range_In in Hi. cbn [n_id rand_output] in Hle. lia.
  - intros x Hx Hr. split; [reflexivity|]. rewrite !in_app_iff in Hx. destruct Hx as [Hx|[Hx|Hx]].
    + apply in_map_iff in Hx. destruct Hx as (i & <- & Hi). apply for_range_In in Hi. cbn [n_id rand_sensor] in Hr. lia.
    + now apply Hf.
    + apply in_map_iff in Hx. destruct Hx as (i & <- & Hi). apply for_range_In in Hi. cbn [n_id rand_output] in Hr. lia.
  - intros x Hx Hge. rewrite !in_app_iff in Hx. destruct Hx as [Hx|[Hx|Hx]].
    + apply in_map_iff in Hx. destruct Hx as (i & <- & Hi). apply for_range_In in Hi. cbn [n_id rand_sensor] in Hge. lia.
    + specialize (Hhid x Hx). lia.
    + apply in_map_iff in Hx. destruct Hx as (i & <- & _). reflexivity.
  - intros x Hx. rewrite !in_app_iff in Hx. destruct Hx as [Hx|[Hx|Hx]].
    + apply in_map_iff in Hx. destruct Hx as (i & <- & _). reflexivity.
    + apply (Hf x Hx).
    + apply in_map_iff in Hx. destruct Hx as (i & <- & _). reflexivity.
Qed.

Lemma shape_sorted o in_ n fo total ns :
  0 <= n -> in_ + n < fo -> nodes_shape o in_ n fo total ns -> asc n_id ns.
Proof.
  intros Hn Hfo S. unfold asc. rewrite (nsh_ids _ _ _ _ _ _ S).
  apply ss_app; [apply for_range_sorted|apply ss_app; try apply for_range_sorted|].
  - intros x y Hx Hy. apply for_range_In in Hx. apply for_range_In in Hy. lia.
  - intros x y Hx Hy. apply for_range_In in Hx. rewrite in_app_iff, !for_range_In in Hy. lia.
Qed.

Lemma shape_id_In o in_ n fo total ns i :
  nodes_shape o in_ n fo total ns -> 1 <= i -> (i <= in_ + n \/ fo <= i <= total) -> In i (map n_id ns).
Proof. intros S H1 H2. rewrite (nsh_ids _ _ _ _ _ _ S), !in_app_iff, !for_range_In. lia. Qed.

Lemma shape_id_range o in_ n fo total ns x :
  0 <= in_ -> 0 <= n -> nodes_shape o in_ n fo total ns -> In x ns -> 1 <= n_id x <= in_ + n \/ fo <= n_id x <= total.
Proof.
  intros Hi0 Hn0 S Hx. apply (in_map n_id) in Hx. rewrite (nsh_ids _ _ _ _ _ _ S), !in_app_iff, !for_range_In in Hx. lia.
Qed.

Lemma shape_not_sensor o in_ n fo total ns x :
  in_ + n < fo -> nodes_shape o in_ n fo total ns -> In x ns -> in_ < n_id x -> is_sensor x = false.
Proof.
  intros Hfo S Hx Hgt. destruct (Z_lt_le_dec (n_id x) fo) as [Hlt|Hge].
  - destruct (nsh_hidden _ _ _ _ _ _ S x Hx (conj Hgt Hlt)) as [_ [Ht _]]. unfold is_sensor. rewrite Ht. reflexivity.
  - rewrite (nsh_output _ _ _ _ _ _ S x Hx Hge). reflexivity.
Qed.

(* ------------------------------------------------------------------------------------------ *)
(* 3. the node lookup of the gene loop                                                          *)
(* ------------------------------------------------------------------------------------------ *)
Lemma find_nodes_spec all row col : forall ns inn outn a b,
    (forall x, In x ns -> In x all) ->
    (forall x, inn = Some x -> In x all /\ n_id x = row) ->
    (forall x, outn = Some x -> In x all /\ n_id x = col) ->
    find_nodes ns row col inn outn = (Some a, Some b) ->
    (In a all /\ n_id a = row) /\ (In b all /\ n_id b = col).
Proof.
  induction ns as [|x ns IH]; intros inn outn a b Hns Hi Ho H; cbn [find_nodes] in H.
  - injection H as -> ->. split; [now apply Hi|now apply Ho].
  - assert (Hrec : find_nodes ns row col (if Z.eqb (n_id x) row then Some x else inn)
                              (if Z.eqb (n_id x) col then Some x else outn) = (Some a, Some b) ->
                   (In a all /\ n_id a = row) /\ (In b all /\ n_id b = col)).
    { apply IH.
      - intros y Hy. apply Hns. now right.
      - intros y. destruct (Z.eqb_spec (n_id x) row) as [E|_]; [|apply Hi].
        intros Hy. injection Hy as <-. split; [apply Hns; now left|exact E].
      - intros y. destruct (Z.eqb_spec (n_id x) col) as [E|_]; [|apply Ho].
        intros Hy. injection Hy as <-. split; [apply Hns; now left|exact E]. }
    destruct inn as [i|]; [destruct outn as [o'|]|]; try (apply Hrec; exact H).
    injection H as -> ->. split; [now apply Hi|now apply Ho].
Qed.

(* the lookup never leaves a node nil when both ids are present: GoPanic 4 of rand_cell is unreachable
   for the cells that pass its guard (shape_id_In) *)
Lemma find_nodes_found row col : forall ns inn outn,
    (inn <> None \/ In row (map n_id ns)) -> (outn <> None \/ In col (map n_id ns)) ->
    exists a b, find_nodes ns row col inn outn = (Some a, Some b).
Proof.
  induction ns as [|x ns IH]; intros inn outn Hi Ho; cbn [find_nodes].
  - destruct Hi as [Hi|[]]. destruct Ho as [Ho|[]]. destruct inn; [|contradiction]. destruct outn; [|contradiction]. eauto.
  - assert (Hrec : exists a b, find_nodes ns row col (if Z.eqb (n_id x) row then Some x else inn)
                                          (if Z.eqb (n_id x) col then Some x else outn) = (Some a, Some b)).
    { apply IH.
      - destruct (Z.eqb_spec (n_id x) row) as [E|Hne]; [left; discriminate|].
        destruct Hi as [Hi|[Hi|Hi]]; [now left|contradiction|now right].
      - destruct (Z.eqb_spec (n_id x) col) as [E|Hne]; [left; discriminate|].
        destruct Ho as [Ho|[Ho|Ho]]; [now left|contradiction|now right]. }
    destruct inn as [i|]; [destruct outn as [o'|]|]; try exact Hrec. eauto.
Qed.

(* ------------------------------------------------------------------------------------------ *)
(* 4. the gene loop                                                                             *)
(* ------------------------------------------------------------------------------------------ *)
(* a gene sits in matrix cell (column = target, row = source); its innovation number is the position *)
Definition gene_ok (T in_ : Z) (rc : bool) (ns : list node) (x : gene) : Prop :=
  1 <= g_in x <= T /\ 1 <= g_out x <= T /\ g_innov x = (g_out x - 1) * T + (g_in x - 1) /\ in_ < g_out x /\
  In (g_in x) (map n_id ns) /\ In (g_out x) (map n_id ns) /\ g_trait x = Some 1 /\ g_en x = true /\
  g_rec x = negb (Z.gtb (g_out x) (g_in x)) /\ (g_rec x = true -> rc = true) /\ g_mut x = g_w x.

Definition ginv (T in_ : Z) (rc : bool) (ns : list node) (acc : list gene) (count : Z) : Prop :=
  asc g_innov acc /\ Forall (fun x => gene_ok T in_ rc ns x /\ g_innov x < count) acc.

Lemma ginv_mono T in_ rc ns acc c c' : c <= c' -> ginv T in_ rc ns acc c -> ginv T in_ rc ns acc c'.
Proof.
  intros Hle [Ha Hf]. split; [exact Ha|]. rewrite Forall_forall in *. intros x Hx. destruct (Hf x Hx). split; [assumption|lia].
Qed.

Lemma rand_cell_inv T ns in_ mx fo rc cm col row count acc s acc' s' :
  rand_cell ns in_ mx fo rc cm col row count acc s = Ok (acc', s') ->
  1 <= col <= T -> 1 <= row <= T -> count = (col - 1) * T + (row - 1) ->
  ginv T in_ rc ns acc count -> ginv T in_ rc ns acc' (count + 1) /\ s_env s' = s_env s.
Proof.
  intros H Hc Hr Hcount Hi. unfold rand_cell in H. mb H as c s1 E1. ml E1.
  assert (Hsame : ginv T in_ rc ns acc (count + 1)) by (apply (ginv_mono _ _ _ _ _ count); [lia|exact Hi]).
  destruct (c && Z.gtb col in_ && (Z.leb col mx || Z.geb col fo) && (Z.leb row mx || Z.geb row fo)) eqn:Eg;
    [|apply ret_inv in H; destruct H as [<- ->]; now split].
  apply andb_true_iff in Eg. destruct Eg as [Eg _]. apply andb_true_iff in Eg. destruct Eg as [Eg _].
  apply andb_true_iff in Eg. destruct Eg as [_ Eg]. apply Z.gtb_lt in Eg.
  destruct (Z.gtb col row || rc) eqn:Ecr; [|apply ret_inv in H; destruct H as [<- ->]; now split].
  destruct (find_nodes ns row col None None) as [[a|] [b|]] eqn:Ef; try discriminate.
  destruct (find_nodes_spec ns row col ns None None a b (fun x Hx => Hx)) as [[Ha Hra] [Hb Hcb]];
    [intros x; discriminate|intros x; discriminate|exact Ef|].
  mb H as sg s2 E2. mb H as f s3 E3. apply ret_inv in H. destruct H as [<- ->].
  apply on_tape_inv in E2. destruct E2 as (t2 & _ & ->). apply on_tape_inv in E3. destruct E3 as (t3 & _ & ->).
  split; [|reflexivity]. destruct Hi as [Hasc Hall]. split.
  - apply asc_app. split; [exact Hasc|]. split; [repeat constructor|].
    intros x y Hx [<-|[]]. cbn [g_innov]. rewrite Forall_forall in Hall. destruct (Hall x Hx). lia.
  - rewrite Forall_app. split.
    + rewrite Forall_forall in *. intros x Hx. destruct (Hall x Hx). split; [assumption|lia].
    + constructor; [|constructor]. cbn [g_innov]. split; [|lia].
      unfold gene_ok. cbn [g_in g_out g_innov g_trait g_en g_rec]. rewrite Hra, Hcb.
      repeat split; try lia.
      * rewrite <- Hra. now apply in_map.
      * rewrite <- Hcb. now apply in_map.
      * intros Hrec. destruct (Z.gtb col row); [discriminate|exact Ecr].
Qed.

Lemma rand_row_loop_inv T ns in_ mx fo rc cm col : forall k row count acc s acc' count' s',
    rand_row_loop k ns in_ mx fo rc cm col row count acc s = Ok ((acc', count'), s') ->
    1 <= col <= T -> 1 <= row -> row + Z.of_nat k = T + 1 -> count = (col - 1) * T + (row - 1) ->
    ginv T in_ rc ns acc count -> ginv T in_ rc ns acc' count' /\ count' = count + Z.of_nat k /\ s_env s' = s_env s.
Proof.
  induction k as [|k IH]; intros row count acc s acc' count' s' H Hc Hr Hk Hcount Hi; cbn [rand_row_loop] in H.
  - apply ret_inv in H. destruct H as [H ->]. injection H as <- <-. split; [exact Hi|split; [lia|reflexivity]].
  - mb H as acc1 s1 E1.
    destruct (rand_cell_inv T _ _ _ _ _ _ _ _ _ _ _ _ _ E1 Hc) as [Hi1 He1]; [lia|exact Hcount|exact Hi|].
    destruct (IH _ _ _ _ _ _ _ H Hc) as (Hi2 & Hc2 & He2); [lia|lia|lia|exact Hi1|].
    split; [exact Hi2|split; [lia|congruence]].
Qed.

Lemma rand_col_loop_inv T ns in_ mx fo rc cm : forall k col count acc s acc' s',
    rand_col_loop k T ns in_ mx fo rc cm col count acc s = Ok (acc', s') ->
    0 <= T -> 1 <= col -> col + Z.of_nat k = T + 1 -> count = (col - 1) * T ->
    ginv T in_ rc ns acc count -> ginv T in_ rc ns acc' (T * T) /\ s_env s' = s_env s.
Proof.
  induction k as [|k IH]; intros col count acc s acc' s' H HT Hc Hk Hcount Hi; cbn [rand_col_loop] in H.
  - apply ret_inv in H. destruct H as [<- ->]. split; [|reflexivity].
    replace (T * T) with count; [exact Hi|]. subst count. replace col with (T + 1) by lia. lia.
  - mb H as r s1 E1. destruct r as [acc1 count1].
    destruct (rand_row_loop_inv T _ _ _ _ _ _ _ _ _ _ _ _ _ _ _ E1) as (Hi1 & Hc1 & He1); [lia|lia|lia|lia|exact Hi|].
    destruct (IH _ _ _ _ _ _ H HT) as [Hi2 He2]; [lia|lia|lia|exact Hi1|].
    split; [exact Hi2|congruence].
Qed.

(* ------------------------------------------------------------------------------------------ *)
(* 5. new_genome_rand                                                                           *)
(* ------------------------------------------------------------------------------------------ *)
(* everything the construction guarantees, in one record *)
Record rand_genome_ok (o : options) (new_id in_ out n mh : Z) (rc : bool) (g : genome) : Prop := {
  rg_id : gid g = new_id;
  rg_traits : traits g = [rand_trait];
  rg_modules : modules g = [];
  rg_shape : nodes_shape o in_ n (in_ + mh + 1) (in_ + out + mh) (nodes g);
  rg_genes : ginv (in_ + out + mh) in_ rc (nodes g) (genes g) ((in_ + out + mh) * (in_ + out + mh))
}.

Lemma new_genome_rand_ok o new_id in_ out n mh rc lp s g s' :
  1 <= in_ -> 1 <= out -> 0 <= n <= mh ->
  new_genome_rand o new_id in_ out n mh rc lp s = Ok (g, s') ->
  rand_genome_ok o new_id in_ out n mh rc g /\ s_env s' = s_env s.
Proof.
  intros Hin Hout Hn H. unfold new_genome_rand in H. cbv zeta in H.
  mb H as cm s1 E1. mb H as hs s2 E2. mb H as gs s3 E3. apply ret_inv in H. destruct H as [<- ->].
  destruct (rand_hidden_spec _ _ _ _ _ E2) as (Hm & Hf & He2).
  replace (in_ + out + mh - out + 1) with (in_ + mh + 1) in * by lia.
  set (T := in_ + out + mh) in *.
  set (ns := map (rand_sensor in_) (for_range 1 in_) ++ hs ++ map rand_output (for_range (in_ + mh + 1) T)) in *.
  assert (S : nodes_shape o in_ n (in_ + mh + 1) T ns) by (apply nodes_shape_intro; [lia|lia|exact Hm|exact Hf]).
  destruct (rand_col_loop_inv T ns in_ (in_ + n) (in_ + mh + 1) rc cm _ _ _ _ _ _ _ E3) as [Hg He3];
    [unfold T; lia|lia|unfold T; lia|lia|split; [apply asc_nil|constructor]|].
  assert (He1 : s_env s1 = s_env s).
  { clear - E1. revert s cm s1 E1. generalize (Z.to_nat (T * T)). induction n as [|k IH]; intros s cm s1 H; cbn [draw_matrix] in H.
    - apply ret_inv in H. destruct H as [_ ->]. reflexivity.
    - mb H as f s0 E0. mb H as r s2 E2. apply ret_inv in H. destruct H as [_ ->].
      apply on_tape_inv in E0. destruct E0 as (t' & _ & ->). rewrite (IH _ _ _ E2). reflexivity. }
  split; [|congruence]. constructor; cbn [gid traits modules nodes genes]; try reflexivity; assumption.
Qed.

Lemma NoDup_map_transfer {A B C} (f : A -> B) (g : A -> C) (l : list A) :
  NoDup (map f l) -> (forall x y, In x l -> In y l -> g x = g y -> f x = f y) -> NoDup (map g l).
Proof.
  induction l as [|x l IH]; intros Hnd Hfg; cbn [map] in *; [constructor|].
  inversion Hnd as [|? ? Hx Hnd']; subst. constructor.
  - rewrite in_map_iff. intros (y & Hy & Hin). apply Hx. rewrite (Hfg x y); [now apply in_map|now left|now right|now symmetry].
  - apply IH; [exact Hnd'|]. intros u v Hu Hv. apply Hfg; now right.
Qed.

Section Components.
  Variables (o : options) (new_id in_ out n mh : Z) (rc : bool) (g : genome).
  Hypothesis Hin : 1 <= in_.
  Hypothesis Hout : 1 <= out.
  Hypothesis Hn : 0 <= n <= mh.
  Hypothesis R : rand_genome_ok o new_id in_ out n mh rc g.

  Let T := in_ + out + mh.

  Lemma rgc_genes_sorted : genes_sorted g.
  Proof using All. exact (proj1 (rg_genes _ _ _ _ _ _ _ _ R)). Qed.

  Lemma rgc_gene_ok x : In x (genes g) -> gene_ok T in_ rc (nodes g) x /\ 0 <= g_innov x < T * T.
  Proof using All.
    intros Hx. destruct (rg_genes _ _ _ _ _ _ _ _ R) as [_ Hf]. rewrite Forall_forall in Hf.
    destruct (Hf x Hx) as [Hok Hlt]. split; [exact Hok|]. split; [|exact Hlt].
    destruct Hok as (H1 & H2 & H3 & _). rewrite H3. fold T.
    assert (0 <= (g_out x - 1) * T) by (apply Z.mul_nonneg_nonneg; unfold T; lia). lia.
  Qed.

  Lemma rgc_nodes_sorted : nodes_sorted g.
  Proof using All. eapply shape_sorted; [| |exact (rg_shape _ _ _ _ _ _ _ _ R)]; lia. Qed.

  Lemma rgc_endpoints : endpoints_ok g.
  Proof using All.
    intros x Hx. destruct (rgc_gene_ok x Hx) as [(_ & _ & _ & Hgt & Hi & Ho & _) _].
    destruct (node_with_id_some _ _ Hi) as [a Ha]. destruct (node_with_id_some _ _ Ho) as [b Hb].
    exists a, b. repeat split; [exact Ha|exact Hb|].
    apply node_with_id_In in Hb. destruct Hb as [Hb Hid].
    eapply shape_not_sensor; [|exact (rg_shape _ _ _ _ _ _ _ _ R)|exact Hb|]; lia.
  Qed.

  (* no two genes join the same ordered pair of nodes (whatever the recurrence flags) *)
  Lemma rgc_pairs_nodup : NoDup (map (fun x => (g_in x, g_out x)) (genes g)).
  Proof using All.
    apply (NoDup_map_transfer g_innov); [apply asc_NoDup; exact rgc_genes_sorted|].
    intros x y Hx Hy E. injection E as E1 E2.
    destruct (rgc_gene_ok x Hx) as [(_ & _ & -> & _) _]. destruct (rgc_gene_ok y Hy) as [(_ & _ & -> & _) _].
    now rewrite E1, E2.
  Qed.

  Lemma rgc_links : links_nodup g.
  Proof using All.
    apply (NoDup_map_transfer g_innov); [apply asc_NoDup; exact rgc_genes_sorted|].
    intros x y Hx Hy E. unfold link_key in E. injection E as E1 E2 _.
    destruct (rgc_gene_ok x Hx) as [(_ & _ & -> & _) _]. destruct (rgc_gene_ok y Hy) as [(_ & _ & -> & _) _].
    now rewrite E1, E2.
  Qed.

  Lemma rgc_has_trait : has_trait g 1.
  Proof using All. split; [discriminate|]. exists rand_trait. rewrite (rg_traits _ _ _ _ _ _ _ _ R). split; [now left|reflexivity]. Qed.

  Lemma rgc_trait_refs : trait_refs_ok g.
  Proof using All.
    split.
    - intros x t Hx Ht. destruct (rgc_gene_ok x Hx) as [(_ & _ & _ & _ & _ & _ & Htr & _) _].
      rewrite Htr in Ht. injection Ht as <-. exact rgc_has_trait.
    - intros m t Hm Ht. rewrite (nsh_trait _ _ _ _ _ _ (rg_shape _ _ _ _ _ _ _ _ R) m Hm) in Ht.
      injection Ht as <-. exact rgc_has_trait.
  Qed.

  Lemma rgc_traits : traits_ok g.
  Proof using All. unfold traits_ok. rewrite (rg_traits _ _ _ _ _ _ _ _ R). split; [discriminate|]. exists 1. split; [lia|reflexivity]. Qed.

  Lemma rgc_node_lookup i :
    1 <= i -> (i <= in_ + n \/ in_ + mh + 1 <= i <= T) -> exists x, node_with_id i (nodes g) = Some x /\ In x (nodes g) /\ n_id x = i.
  Proof using All.
    intros H1 H2. destruct (node_with_id_some i (nodes g)) as [x Hx].
    - eapply shape_id_In; [exact (rg_shape _ _ _ _ _ _ _ _ R)|exact H1|exact H2].
    - exists x. split; [exact Hx|]. now apply node_with_id_In.
  Qed.

  Lemma rgc_output : has_output g.
  Proof using All.
    destruct (rgc_node_lookup T) as (x & _ & Hx & Hid); [unfold T; lia|right; unfold T; lia|].
    exists x. split; [exact Hx|].
    rewrite (nsh_output _ _ _ _ _ _ (rg_shape _ _ _ _ _ _ _ _ R) x Hx); [reflexivity|]. rewrite Hid. unfold T. lia.
  Qed.

  Lemma rgc_wf : genes g <> [] -> wf g.
  Proof using All.
    intros Hne. constructor; [exact Hne|exact rgc_genes_sorted|exact rgc_links|exact rgc_nodes_sorted|exact rgc_endpoints|
                              exact rgc_trait_refs|exact rgc_traits|exact rgc_output|exact (rg_modules _ _ _ _ _ _ _ _ R)].
  Qed.

  (* the documented nodes *)
  Lemma rgc_sensor_nodes i : 1 <= i <= in_ -> node_with_id i (nodes g) = Some (rand_sensor in_ i).
  Proof using All.
    intros Hi. destruct (rgc_node_lookup i) as (x & Hx & Hin' & Hid); [lia|left; lia|].
    rewrite Hx, (nsh_sensor _ _ _ _ _ _ (rg_shape _ _ _ _ _ _ _ _ R) x Hin'), Hid; [reflexivity|lia].
  Qed.

  Lemma rgc_output_nodes i : in_ + mh + 1 <= i <= T -> node_with_id i (nodes g) = Some (rand_output i).
  Proof using All.
    intros Hi. destruct (rgc_node_lookup i) as (x & Hx & Hin' & Hid); [lia|right; lia|].
    rewrite Hx, (nsh_output _ _ _ _ _ _ (rg_shape _ _ _ _ _ _ _ _ R) x Hin'), Hid; [reflexivity|lia].
  Qed.

  Lemma rgc_hidden_nodes i : in_ < i <= in_ + n ->
    exists a, node_with_id i (nodes g) = Some {| n_id := i; n_type := HIDDEN; n_act := a; n_trait := Some 1 |} /\
              In a (o_activators o).
  Proof using All.
    intros Hi. destruct (rgc_node_lookup i) as (x & Hx & Hin' & Hid); [lia|left; lia|].
    destruct (nsh_hidden _ _ _ _ _ _ (rg_shape _ _ _ _ _ _ _ _ R) x Hin') as [_ (Ht & Htr & Ha)]; [lia|].
    exists (n_act x). split; [|exact Ha]. rewrite Hx. destruct x as [xi xt xa xtr]. cbn in *. now subst.
  Qed.

  Lemma rgc_no_other_nodes x : In x (nodes g) -> 1 <= n_id x <= in_ + n \/ in_ + mh + 1 <= n_id x <= T.
  Proof using All. intros Hx. eapply shape_id_range; [| |exact (rg_shape _ _ _ _ _ _ _ _ R)|exact Hx]; lia. Qed.

  Lemma rgc_node_bound x : In x (nodes g) -> 1 <= n_id x <= T.
  Proof using All. intros Hx. destruct (rgc_no_other_nodes x Hx); unfold T in *; lia. Qed.
End Components.

(* ------------------------------------------------------------------------------------------ *)
(* 6. packaged statements about new_genome_rand                                                 *)
(* ------------------------------------------------------------------------------------------ *)
(* every component of [wf] except "has a gene" *)
Theorem new_genome_rand_components o new_id in_ out n mh rc lp s g s' :
  1 <= in_ -> 1 <= out -> 0 <= n <= mh ->
  new_genome_rand o new_id in_ out n mh rc lp s = Ok (g, s') ->
  nodes_sorted g /\ genes_sorted g /\ endpoints_ok g /\ links_nodup g /\
  NoDup (map (fun x => (g_in x, g_out x)) (genes g)) /\
  trait_refs_ok g /\ traits_ok g /\ has_output g /\ modules g = [] /\ gid g = new_id /\ s_env s' = s_env s.
Proof.
  intros Hin Hout Hn H. destruct (new_genome_rand_ok _ _ _ _ _ _ _ _ _ _ _ Hin Hout Hn H) as [R He].
  split; [exact (rgc_nodes_sorted _ _ _ _ _ _ _ _ Hin Hout Hn R)|].
  split; [exact (rgc_genes_sorted _ _ _ _ _ _ _ _ Hin Hout Hn R)|].
  split; [exact (rgc_endpoints _ _ _ _ _ _ _ _ Hin Hout Hn R)|].
  split; [exact (rgc_links _ _ _ _ _ _ _ _ Hin Hout Hn R)|].
  split; [exact (rgc_pairs_nodup _ _ _ _ _ _ _ _ Hin Hout Hn R)|].
  split; [exact (rgc_trait_refs _ _ _ _ _ _ _ _ Hin Hout Hn R)|].
  split; [exact (rgc_traits _ _ _ _ _ _ _ _ Hin Hout Hn R)|].
  split; [exact (rgc_output _ _ _ _ _ _ _ _ Hin Hout Hn R)|].
  split; [exact (rg_modules _ _ _ _ _ _ _ _ R)|].
  split; [exact (rg_id _ _ _ _ _ _ _ _ R)|exact He].
Qed.

Theorem new_genome_rand_wf o new_id in_ out n mh rc lp s g s' :
  1 <= in_ -> 1 <= out -> 0 <= n <= mh ->
  new_genome_rand o new_id in_ out n mh rc lp s = Ok (g, s') -> genes g <> [] -> wf g.
Proof.
  intros Hin Hout Hn H. destruct (new_genome_rand_ok _ _ _ _ _ _ _ _ _ _ _ Hin Hout Hn H) as [R _].
  exact (rgc_wf _ _ _ _ _ _ _ _ Hin Hout Hn R).
Qed.

(* the documented nodes: inputs 1..in-1, bias in, hidden in+1..in+n (activation among the registered
   ones), outputs in+mh+1..in+mh+out, nothing else; all on trait 1 *)
Theorem new_genome_rand_nodes o new_id in_ out n mh rc lp s g s' :
  1 <= in_ -> 1 <= out -> 0 <= n <= mh ->
  new_genome_rand o new_id in_ out n mh rc lp s = Ok (g, s') ->
  (forall i, 1 <= i <= in_ ->
             node_with_id i (nodes g) =
             Some {| n_id := i; n_type := (if Z.eqb i in_ then BIAS else INPUT); n_act := 17; n_trait := Some 1 |}) /\
  (forall i, in_ < i <= in_ + n ->
             exists a, node_with_id i (nodes g) = Some {| n_id := i; n_type := HIDDEN; n_act := a; n_trait := Some 1 |} /\
                       In a (o_activators o)) /\
  (forall i, in_ + mh + 1 <= i <= in_ + mh + out ->
             node_with_id i (nodes g) = Some {| n_id := i; n_type := OUTPUT; n_act := 4; n_trait := Some 1 |}) /\
  (forall x, In x (nodes g) -> 1 <= n_id x <= in_ + n \/ in_ + mh + 1 <= n_id x <= in_ + mh + out).
Proof.
  intros Hin Hout Hn H. destruct (new_genome_rand_ok _ _ _ _ _ _ _ _ _ _ _ Hin Hout Hn H) as [R _].
  split; [intros i Hi; exact (rgc_sensor_nodes _ _ _ _ _ _ _ _ Hin Hout Hn R i Hi)|].
  split; [intros i Hi; exact (rgc_hidden_nodes _ _ _ _ _ _ _ _ Hin Hout Hn R i Hi)|].
  split.
  - intros i Hi. apply (rgc_output_nodes _ _ _ _ _ _ _ _ Hin Hout Hn R i). lia.
  - intros x Hx. destruct (rgc_no_other_nodes _ _ _ _ _ _ _ _ Hin Hout Hn R x Hx); lia.
Qed.

(* the genes: one per visited matrix cell (row = source, column = target), numbered by the cell's
   position, never into a sensor, recurrent flag by the cell's side of the diagonal and only when asked
   for, enabled, on trait 1, mutation number = weight *)
Theorem new_genome_rand_genes o new_id in_ out n mh rc lp s g s' :
  1 <= in_ -> 1 <= out -> 0 <= n <= mh ->
  new_genome_rand o new_id in_ out n mh rc lp s = Ok (g, s') ->
  forall x, In x (genes g) ->
    let T := in_ + out + mh in
    1 <= g_in x <= T /\ in_ < g_out x <= T /\ g_innov x = (g_out x - 1) * T + (g_in x - 1) /\ 0 <= g_innov x < T * T /\
    g_rec x = negb (Z.gtb (g_out x) (g_in x)) /\ (g_rec x = true -> rc = true) /\
    g_en x = true /\ g_trait x = Some 1 /\ g_mut x = g_w x.
Proof.
  intros Hin Hout Hn H x Hx T. destruct (new_genome_rand_ok _ _ _ _ _ _ _ _ _ _ _ Hin Hout Hn H) as [R _].
  destruct (rgc_gene_ok _ _ _ _ _ _ _ _ Hin Hout Hn R x Hx) as [(H1 & H2 & H3 & H4 & _ & _ & H5 & H6 & H7 & H8 & H9) Hr].
  fold T in H1, H2, H3, Hr. repeat split; try assumption; lia.
Qed.

(* ------------------------------------------------------------------------------------------ *)
(* 7. new_population_random                                                                     *)
(* ------------------------------------------------------------------------------------------ *)
Definition rand_member (o : options) (in_ out mh : Z) (rc : bool) (g : genome) : Prop :=
  exists id n, 0 <= n < mh /\ rand_genome_ok o id in_ out n mh rc g.

Lemma r_intn_range mh s n s' : r_intn mh s = Ok (n, s') -> 0 <= n < mh /\ s_env s' = s_env s.
Proof.
  intros H. unfold r_intn in H. apply on_tape_inv in H. destruct H as (t' & H & ->). split; [|reflexivity].
  unfold tape_intn in H. destruct (Z.leb_spec mh 0) as [?|Hpos]; [discriminate|].
  eapply tape_int31n_range; [|exact H]. lia.
Qed.

Lemma rand_orgs_loop_spec o in_ out mh rc lp : 1 <= in_ -> 1 <= out -> forall k count acc s acc' s',
    rand_orgs_loop k o in_ out mh rc lp count acc s = Ok (acc', s') ->
    hall (rand_member o in_ out mh rc) acc ->
    hall (rand_member o in_ out mh rc) acc' /\ s_env s' = s_env s /\ length acc' = (length acc + k)%nat.
Proof.
  intros Hin Hout. induction k as [|k IH]; intros count acc s acc' s' H Ha; cbn [rand_orgs_loop] in H.
  - apply ret_inv in H. destruct H as [<- ->]. repeat split; [exact Ha|lia].
  - mb H as n s1 E1. mb H as g s2 E2. destruct (r_intn_range _ _ _ _ E1) as [Hn He1].
    destruct (new_genome_rand_ok _ _ _ _ _ _ _ _ _ _ _ Hin Hout (conj (proj1 Hn) (Z.lt_le_incl _ _ (proj2 Hn))) E2) as [R He2].
    destruct (IH _ _ _ _ _ H) as (Ha' & He' & Hl').
    + intros x Hx. apply in_app_or in Hx. destruct Hx as [Hx|[<-|[]]]; [now apply Ha|].
      cbn [o_genome new_baby]. exists count, n. split; [exact Hn|exact R].
    + split; [exact Ha'|]. split; [congruence|]. rewrite Hl', app_length. cbn [length]. lia.
Qed.

Theorem new_population_random_spec o in_ out mh rc lp s p s' :
  1 <= in_ -> 1 <= out ->
  new_population_random o in_ out mh rc lp s = Ok (p, s') ->
  hall (rand_member o in_ out mh rc) (p_heap p) /\
  next_innov (s_env s') = (in_ + out + mh) * (in_ + out + mh) + 1 /\ next_node (s_env s') = in_ + out + mh + 1 /\
  innovs (s_env s') = innovs (s_env s).
Proof.
  intros Hin Hout H. unfold new_population_random in H. destruct (Z.leb _ 0); [discriminate|].
  mb H as orgs s1 E1. cbv zeta in H. mb H as u s2 E2. unfold e_set_counters in E2. injection E2 as _ <-. ml H.
  destruct (rand_orgs_loop_spec o in_ out mh rc lp Hin Hout _ _ _ _ _ _ E1) as (Ha & He & _); [intros x []|].
  cbn [s_env next_innov next_node innovs]. split; [|split; [reflexivity|split; [reflexivity|now rewrite He]]].
  eapply speciate_hall; [exact H|]. exact Ha.
Qed.

(* C01 / C03 at population level: every genome a randomly constructed population holds (looked up
   through any key) that has a connection gene is well-formed; all of them carry the same input, bias
   and output nodes; and the population's counters lie above every innovation number and node id in use *)
Theorem new_population_random_wf o in_ out mh rc lp s p s' :
  1 <= in_ -> 1 <= out ->
  new_population_random o in_ out mh rc lp s = Ok (p, s') ->
  forall k x, hget (p_heap p) k = Ok x ->
    (genes (o_genome x) <> [] -> wf (o_genome x)) /\
    (forall i, 1 <= i <= in_ -> node_with_id i (nodes (o_genome x)) = Some (rand_sensor in_ i)) /\
    (forall i, in_ + mh + 1 <= i <= in_ + mh + out -> node_with_id i (nodes (o_genome x)) = Some (rand_output i)) /\
    (forall y, In y (genes (o_genome x)) -> 0 <= g_innov y < next_innov (s_env s') - 1) /\
    (forall m, In m (nodes (o_genome x)) -> 1 <= n_id m < next_node (s_env s')).
Proof.
  intros Hin Hout H k x Hk. destruct (new_population_random_spec _ _ _ _ _ _ _ _ _ Hin Hout H) as (Ha & Hi & Hnn & _).
  destruct (Ha x (hget_In _ _ _ Hk)) as (id & n & Hn & R).
  assert (Hn' : 0 <= n <= mh) by lia.
  split; [exact (rgc_wf _ _ _ _ _ _ _ _ Hin Hout Hn' R)|].
  split; [intros i Hr; exact (rgc_sensor_nodes _ _ _ _ _ _ _ _ Hin Hout Hn' R i Hr)|].
  split; [intros i Hr; apply (rgc_output_nodes _ _ _ _ _ _ _ _ Hin Hout Hn' R i); lia|].
  split.
  - intros y Hy. rewrite Hi. destruct (rgc_gene_ok _ _ _ _ _ _ _ _ Hin Hout Hn' R y Hy) as [_ Hr]. lia.
  - intros m Hm. rewrite Hnn. pose proof (rgc_node_bound _ _ _ _ _ _ _ _ Hin Hout Hn' R m Hm). lia.
Qed.
