(* C11, part 2: the gonum graph view of the expressed network [spec_net g] reports exactly the abstract
   directed graph G g = (V, E) of the genome, for ALL ids (present or not). *)
From NeatModel Require Import Res F64 Genome Genesis Graph GenesisSpec.
From Coq Require Import Lia Permutation.

(* ---------- the abstract graph of a genome ---------- *)

Definition gene_edge (g : genome) (u v : Z) : Prop :=
  exists x, In x (genes g) /\ g_en x = true /\ g_in x = u /\ g_out x = v.
Definition ctl_in_edge (g : genome) (u v : Z) : Prop :=
  exists m w, In m (modules g) /\ m_en m = true /\ ctl_id m = v /\ In (u, w) (m_ins m).
Definition ctl_out_edge (g : genome) (u v : Z) : Prop :=
  exists m w, In m (modules g) /\ m_en m = true /\ ctl_id m = u /\ In (v, w) (m_outs m).
Definition E (g : genome) (u v : Z) : Prop := gene_edge g u v \/ ctl_in_edge g u v \/ ctl_out_edge g u v.
Definition V (g : genome) (u : Z) : Prop := In u (node_ids g) \/ In u (map ctl_id (enabled_modules g)).

(* the links of the network *)
Definition net_link (g : genome) (l : plink) : Prop :=
  (exists x, In x (genes g) /\ g_en x = true /\ l = link_of_gene x) \/
  (exists m sw, In m (modules g) /\ m_en m = true /\ In sw (m_ins m) /\ l = ctl_in_link (ctl_id m) sw) \/
  (exists m dw, In m (modules g) /\ m_en m = true /\ In dw (m_outs m) /\ l = ctl_out_link (ctl_id m) dw).

(* ids of nodes and of enabled modules are pairwise distinct *)
Definition wf_ctl_ids (g : genome) : Prop := NoDup (node_ids g ++ map ctl_id (enabled_modules g)).

Lemma net_link_E g l : net_link g l -> E g (l_in l) (l_out l).
Proof.
  intros [(x & Hx & He & ->)|[(m & [s w] & Hm & He & Hin & ->)|(m & [d w] & Hm & He & Hin & ->)]].
  - left. now exists x.
  - right. left. exists m, w. simpl. auto.
  - right. right. exists m, w. simpl. auto.
Qed.

Lemma E_net_link g u v : E g u v -> exists l, net_link g l /\ l_in l = u /\ l_out l = v.
Proof.
  intros [(x & Hx & He & Hi & Ho)|[(m & w & Hm & He & Hc & Hin)|(m & w & Hm & He & Hc & Hin)]].
  - exists (link_of_gene x). split; [left; now exists x|auto].
  - exists (ctl_in_link (ctl_id m) (u, w)). split; [right; left; now exists m, (u, w)|auto].
  - exists (ctl_out_link (ctl_id m) (v, w)). split; [right; right; now exists m, (v, w)|auto].
Qed.

(* ---------- list helpers ---------- *)

Lemma nodup_app_disjoint {A} (l1 l2 : list A) x : NoDup (l1 ++ l2) -> In x l1 -> In x l2 -> False.
Proof.
  induction l1 as [|a l1 IH]; simpl; intros Hnd H1 H2; [contradiction|].
  inversion Hnd as [|? ? Hni Hnd']; subst.
  destruct H1 as [->|H1]; [apply Hni, in_or_app; now right | now apply IH].
Qed.

Lemma nodup_app_r {A} (l1 l2 : list A) : NoDup (l1 ++ l2) -> NoDup l2.
Proof. induction l1 as [|a l1 IH]; simpl; intros H; [exact H|]. inversion H; subst. now apply IH. Qed.

Lemma nodup_map_inj {A B} (f : A -> B) l x y :
  NoDup (map f l) -> In x l -> In y l -> f x = f y -> x = y.
Proof.
  induction l as [|a l IH]; simpl; intros Hnd Hx Hy Hf; [contradiction|].
  inversion Hnd as [|? ? Hni Hnd']; subst.
  destruct Hx as [->|Hx], Hy as [->|Hy]; auto.
  - exfalso. apply Hni. rewrite Hf. now apply in_map.
  - exfalso. apply Hni. rewrite <- Hf. now apply in_map.
Qed.

Lemma find_app' {A} (p : A -> bool) l1 l2 :
  find p (l1 ++ l2) = match find p l1 with Some x => Some x | None => find p l2 end.
Proof. induction l1 as [|a l1 IH]; simpl; [reflexivity|]. now destruct (p a). Qed.

Lemma find_map_filter {A B} (f : A -> B) (q : A -> bool) (p : B -> bool) l :
  find p (map f (filter q l)) = option_map f (find (fun x => q x && p (f x)) l).
Proof.
  induction l as [|a l IH]; simpl; [reflexivity|].
  destruct (q a); simpl; [|exact IH]. now destruct (p (f a)).
Qed.

Lemma find_map' {A B} (f : A -> B) (p : B -> bool) l :
  find p (map f l) = option_map f (find (fun x => p (f x)) l).
Proof. induction l as [|a l IH]; simpl; [reflexivity|]. now destruct (p (f a)). Qed.

Lemma find_ext' {A} (p q : A -> bool) l : (forall x, p x = q x) -> find p l = find q l.
Proof. intros H. induction l as [|a l IH]; simpl; [reflexivity|]. now rewrite H, IH. Qed.

Lemma existsb_map' {A B} (f : A -> B) (p : B -> bool) l : existsb p (map f l) = existsb (fun x => p (f x)) l.
Proof. induction l as [|a l IH]; simpl; [reflexivity|]. now rewrite IH. Qed.

(* ---------- the first enabled gene from u to v ---------- *)

Definition first_gene (gs : list gene) (u v : Z) : option gene :=
  find (fun x => g_en x && Z.eqb (g_in x) u && Z.eqb (g_out x) v) gs.

Lemma first_gene_some gs u v x :
  first_gene gs u v = Some x -> In x gs /\ g_en x = true /\ g_in x = u /\ g_out x = v.
Proof.
  intros H. apply find_some in H. destruct H as [Hin H].
  apply andb_true_iff in H. destruct H as [H H3]. apply andb_true_iff in H. destruct H as [H1 H2].
  apply Z.eqb_eq in H2, H3. auto.
Qed.

Lemma first_gene_none gs u v :
  first_gene gs u v = None -> forall x, In x gs -> g_en x = true -> g_in x = u -> g_out x = v -> False.
Proof.
  intros H x Hin He Hi Ho. apply (find_none _ _ H) in Hin.
  rewrite He, Hi, Ho, !Z.eqb_refl in Hin. discriminate.
Qed.

Lemma find_links_into gs u v :
  find (fun l => Z.eqb (l_in l) u) (links_into gs v) = option_map link_of_gene (first_gene gs u v).
Proof.
  unfold links_into, first_gene. rewrite find_map_filter. f_equal. apply find_ext'. intros x. simpl.
  destruct (g_en x), (Z.eqb (g_in x) u), (Z.eqb (g_out x) v); reflexivity.
Qed.

Lemma find_links_from gs u v :
  find (fun l => Z.eqb (l_out l) v) (links_from gs u) = option_map link_of_gene (first_gene gs u v).
Proof.
  unfold links_from, first_gene. rewrite find_map_filter. f_equal.
Qed.

(* ---------- locating u and v among the ordinary nodes ---------- *)

Lemma find_uv_spec u v : forall l a b ru rv,
    find_uv l u v a b = (ru, rv) ->
    (ru = None -> a = None /\ ~ In u (map p_id l)) /\
    (forall x, ru = Some x -> a = Some x \/ (In x l /\ p_id x = u)) /\
    (rv = None -> b = None /\ ~ In v (map p_id l)) /\
    (forall x, rv = Some x -> b = Some x \/ (In x l /\ p_id x = v)).
Proof.
  induction l as [|np l IH]; intros a b ru rv H; simpl in H.
  - injection H as <- <-. repeat split; auto.
  - set (a' := if Z.eqb (p_id np) u then Some np else a) in *.
    set (b' := if Z.eqb (p_id np) v then Some np else b) in *.
    assert (Ha' : forall x, a' = Some x -> a = Some x \/ (In x (np :: l) /\ p_id x = u)).
    { intros x. unfold a'. destruct (Z.eqb_spec (p_id np) u) as [E|E]; intros X.
      - injection X as <-. right. split; [now left|exact E].
      - now left. }
    assert (Hb' : forall x, b' = Some x -> b = Some x \/ (In x (np :: l) /\ p_id x = v)).
    { intros x. unfold b'. destruct (Z.eqb_spec (p_id np) v) as [E|E]; intros X.
      - injection X as <-. right. split; [now left|exact E].
      - now left. }
    assert (Han : a' = None -> a = None /\ p_id np <> u).
    { unfold a'. destruct (Z.eqb_spec (p_id np) u); [discriminate|auto]. }
    assert (Hbn : b' = None -> b = None /\ p_id np <> v).
    { unfold b'. destruct (Z.eqb_spec (p_id np) v); [discriminate|auto]. }
    assert (Hrec : find_uv l u v a' b' = (ru, rv) ->
                   (ru = None -> a = None /\ ~ In u (map p_id (np :: l))) /\
                   (forall x, ru = Some x -> a = Some x \/ (In x (np :: l) /\ p_id x = u)) /\
                   (rv = None -> b = None /\ ~ In v (map p_id (np :: l))) /\
                   (forall x, rv = Some x -> b = Some x \/ (In x (np :: l) /\ p_id x = v))).
    { intros Hr. destruct (IH _ _ _ _ Hr) as (I1 & I2 & I3 & I4). repeat split.
      - destruct (I1 H0) as [X _]. now apply Han.
      - destruct (I1 H0) as [X Y]. destruct (Han X) as [_ Z1]. simpl. intros [W|W]; auto.
      - intros x Hx. destruct (I2 x Hx) as [X|[X Y]]; [now apply Ha'|right; split; [now right|exact Y]].
      - destruct (I3 H0) as [X _]. now apply Hbn.
      - destruct (I3 H0) as [X Y]. destruct (Hbn X) as [_ Z1]. simpl. intros [W|W]; auto.
      - intros x Hx. destruct (I4 x Hx) as [X|[X Y]]; [now apply Hb'|right; split; [now right|exact Y]]. }
    destruct a' as [xa|] eqn:Ea; [destruct b' as [xb|] eqn:Eb|]; try (now apply Hrec).
    injection H as <- <-. repeat split; try discriminate; auto.
Qed.

Lemma find_uv_none_none n u v ru rv :
  find_uv (net_all n) u v None None = (ru, rv) ->
  (ru = None -> ~ In u (map p_id (net_all n))) /\
  (forall x, ru = Some x -> In x (net_all n) /\ p_id x = u) /\
  (rv = None -> ~ In v (map p_id (net_all n))) /\
  (forall x, rv = Some x -> In x (net_all n) /\ p_id x = v).
Proof.
  intros H. destruct (find_uv_spec u v _ _ _ _ _ H) as (I1 & I2 & I3 & I4). repeat split.
  - now apply I1.
  - destruct (I2 x H0) as [X|X]; [discriminate|apply X].
  - destruct (I2 x H0) as [X|X]; [discriminate|apply X].
  - now apply I3.
  - destruct (I4 x H0) as [X|X]; [discriminate|apply X].
  - destruct (I4 x H0) as [X|X]; [discriminate|apply X].
Qed.

Lemma spec_all_ids g netId : map p_id (net_all (spec_net g netId)) = node_ids g.
Proof. simpl. rewrite map_map. reflexivity. Qed.

Lemma spec_all_in g netId x u :
  In x (net_all (spec_net g netId)) -> p_id x = u ->
  x = {| p_id := u; p_type := p_type x; p_act := p_act x; p_trait := p_trait x;
         p_incoming := links_into (genes g) u; p_outgoing := links_from (genes g) u |} /\ In u (node_ids g).
Proof.
  simpl. intros H E. apply in_map_iff in H. destruct H as (nd & <- & Hnd). simpl in *. subst u.
  split; [reflexivity|]. now apply in_map.
Qed.

(* ---------- scanning the control nodes ---------- *)

Lemma scan_ctl_incoming_eq ls oid d uf :
  scan_ctl_incoming ls oid d uf = if negb d || uf then find (fun l => Z.eqb (l_in l) oid) ls else None.
Proof.
  induction ls as [|l ls IH]; simpl; [now destruct (negb d || uf)|].
  destruct (Z.eqb (l_in l) oid); [now destruct d, uf|exact IH].
Qed.
Lemma scan_ctl_outgoing_eq ls oid d vf :
  scan_ctl_outgoing ls oid d vf = if negb d || vf then find (fun l => Z.eqb (l_out l) oid) ls else None.
Proof.
  induction ls as [|l ls IH]; simpl; [now destruct (negb d || vf)|].
  destruct (Z.eqb (l_out l) oid); [now destruct d, vf|exact IH].
Qed.

Lemma scan_control_some cns cid oid d uf vf l :
  scan_control cns cid oid d uf vf = Some l ->
  exists cn, In cn cns /\ p_id cn = cid /\
             ((negb d || uf = true /\ In l (p_incoming cn) /\ l_in l = oid) \/
              (negb d || vf = true /\ In l (p_outgoing cn) /\ l_out l = oid)).
Proof.
  induction cns as [|cn cns IH]; simpl; [discriminate|].
  destruct (Z.eqb_spec (p_id cn) cid) as [Ec|Ec]; simpl.
  - rewrite scan_ctl_incoming_eq, scan_ctl_outgoing_eq.
    destruct (negb d || uf) eqn:A.
    + destruct (find _ (p_incoming cn)) eqn:F1.
      * intros X. injection X as ->. apply find_some in F1. destruct F1 as [Hin Hq]. apply Z.eqb_eq in Hq.
        exists cn. split; [now left|]. split; [exact Ec|]. left. auto.
      * destruct (negb d || vf) eqn:B.
        -- destruct (find _ (p_outgoing cn)) eqn:F2.
           ++ intros X. injection X as ->. apply find_some in F2. destruct F2 as [Hin Hq]. apply Z.eqb_eq in Hq.
              exists cn. split; [now left|]. split; [exact Ec|]. right. auto.
           ++ intros X. destruct (IH X) as (c & Hc & R). exists c. split; [now right|exact R].
        -- intros X. destruct (IH X) as (c & Hc & R). exists c. split; [now right|exact R].
    + destruct (negb d || vf) eqn:B.
      * destruct (find _ (p_outgoing cn)) eqn:F2.
        -- intros X. injection X as ->. apply find_some in F2. destruct F2 as [Hin Hq]. apply Z.eqb_eq in Hq.
           exists cn. split; [now left|]. split; [exact Ec|]. right. auto.
        -- intros X. destruct (IH X) as (c & Hc & R). exists c. split; [now right|exact R].
      * intros X. destruct (IH X) as (c & Hc & R). exists c. split; [now right|exact R].
  - intros X. destruct (IH X) as (c & Hc & R). exists c. split; [now right|exact R].
Qed.

Lemma scan_control_none cns cid oid d uf vf :
  scan_control cns cid oid d uf vf = None ->
  forall cn, In cn cns -> p_id cn = cid ->
             (negb d || uf = true -> forall l, In l (p_incoming cn) -> l_in l <> oid) /\
             (negb d || vf = true -> forall l, In l (p_outgoing cn) -> l_out l <> oid).
Proof.
  induction cns as [|cn cns IH]; simpl; [contradiction|].
  destruct (Z.eqb_spec (p_id cn) cid) as [Ec|Ec]; simpl.
  - rewrite scan_ctl_incoming_eq, scan_ctl_outgoing_eq.
    destruct (negb d || uf) eqn:A.
    + destruct (find _ (p_incoming cn)) eqn:F1; [discriminate|].
      destruct (negb d || vf) eqn:B.
      * destruct (find _ (p_outgoing cn)) eqn:F2; [discriminate|].
        intros X c [<-|Hc] Hid; [|now apply IH].
        split; intros _ l Hl Hq.
        -- apply (find_none _ _ F1) in Hl. apply Z.eqb_neq in Hl. contradiction.
        -- apply (find_none _ _ F2) in Hl. apply Z.eqb_neq in Hl. contradiction.
      * intros X c [<-|Hc] Hid; [|now apply IH].
        split; [|discriminate]. intros _ l Hl Hq.
        apply (find_none _ _ F1) in Hl. apply Z.eqb_neq in Hl. contradiction.
    + destruct (negb d || vf) eqn:B.
      * destruct (find _ (p_outgoing cn)) eqn:F2; [discriminate|].
        intros X c [<-|Hc] Hid; [|now apply IH].
        split; [discriminate|]. intros _ l Hl Hq.
        apply (find_none _ _ F2) in Hl. apply Z.eqb_neq in Hl. contradiction.
      * intros X c [<-|Hc] Hid; [|now apply IH]. split; discriminate.
  - intros X c [<-|Hc] Hid; [contradiction|now apply IH].
Qed.

Lemma spec_ctl_in g netId cn :
  In cn (net_control (spec_net g netId)) ->
  exists m, In m (modules g) /\ m_en m = true /\ cn = spec_ctl m.
Proof.
  simpl. intros H. apply in_map_iff in H. destruct H as (m & <- & Hm).
  apply filter_In in Hm. exists m. tauto.
Qed.

Lemma spec_ctl_of g netId m :
  In m (modules g) -> m_en m = true -> In (spec_ctl m) (net_control (spec_net g netId)).
Proof. intros Hm He. simpl. apply in_map. apply filter_In. auto. Qed.

(* ---------- E restricted by where the endpoints live ---------- *)

Section Located.
  Variable g : genome.
  Hypothesis Hg : wf_genes g.
  Hypothesis Hm : wf_modules g.
  Hypothesis Hc : wf_ctl_ids g.

  Lemma ctl_not_node m : In m (modules g) -> m_en m = true -> In (ctl_id m) (node_ids g) -> False.
  Proof.
    intros Hin He Hn. apply (nodup_app_disjoint _ _ (ctl_id m) Hc Hn).
    apply in_map. apply filter_In. auto.
  Qed.

  Lemma E_u_not_node u v : ~ In u (node_ids g) -> E g u v -> ctl_out_edge g u v.
  Proof.
    intros Hu [(x & Hx & He & Hi & Ho)|[(m & w & Hin & He & Hid & Hio)|H]]; [| |exact H].
    - exfalso. apply Hu. rewrite <- Hi. exact (proj1 (Hg x Hx He)).
    - exfalso. apply Hu. apply (Hm m Hin He u w). now left.
  Qed.

  Lemma E_v_not_node u v : ~ In v (node_ids g) -> E g u v -> ctl_in_edge g u v.
  Proof.
    intros Hv [(x & Hx & He & Hi & Ho)|[H|(m & w & Hin & He & Hid & Hio)]]; [|exact H|].
    - exfalso. apply Hv. rewrite <- Ho. exact (proj2 (Hg x Hx He)).
    - exfalso. apply Hv. apply (Hm m Hin He v w). now right.
  Qed.

  Lemma E_both_nodes u v : In u (node_ids g) -> In v (node_ids g) -> E g u v -> gene_edge g u v.
  Proof.
    intros Hu Hv [H|[(m & w & Hin & He & Hid & Hio)|(m & w & Hin & He & Hid & Hio)]]; [exact H| |].
    - exfalso. subst v. exact (ctl_not_node m Hin He Hv).
    - exfalso. subst u. exact (ctl_not_node m Hin He Hu).
  Qed.

  Lemma E_no_nodes u v : ~ In u (node_ids g) -> ~ In v (node_ids g) -> E g u v -> False.
  Proof.
    intros Hu Hv H. apply (E_u_not_node u v Hu) in H. destruct H as (m & w & Hin & He & Hid & Hio).
    apply Hv. apply (Hm m Hin He v w). now right.
  Qed.

  (* ---------- edgeBetween ---------- *)

  Variable netId : Z.
  Let n := spec_net g netId.

  (* directed query: a link from u to v of the network, or None exactly when (u,v) is not an edge *)
  Lemma edge_between_directed u v :
    match edge_between n u v true with
    | Some l => net_link g l /\ l_in l = u /\ l_out l = v
    | None => ~ E g u v
    end.
  Proof.
    unfold edge_between.
    destruct (find_uv (net_all n) u v None None) as [ru rv] eqn:Hf.
    destruct (find_uv_none_none n u v ru rv Hf) as (U0 & U1 & V0 & V1).
    unfold n in U0, V0. rewrite spec_all_ids in U0, V0.
    destruct ru as [xu|], rv as [xv|].
    - destruct (U1 xu eq_refl) as [Hxu Eu]. destruct (V1 xv eq_refl) as [Hxv Ev].
      destruct (spec_all_in g netId xu u Hxu Eu) as [Exu Hu].
      destruct (spec_all_in g netId xv v Hxv Ev) as [Exv Hv].
      simpl. rewrite Exu, Exv. simpl. rewrite find_links_into, find_links_from.
      destruct (first_gene (genes g) u v) as [x|] eqn:Fg; simpl.
      + apply first_gene_some in Fg. destruct Fg as (Hx & He & Hi & Ho).
        split; [left; now exists x|]. simpl. auto.
      + intros HE. apply (E_both_nodes u v Hu Hv) in HE. destruct HE as (x & Hx & He & Hi & Ho).
        exact (first_gene_none _ _ _ Fg x Hx He Hi Ho).
    - (* u ordinary, v possibly a control node: cid = v, oid = u *)
      destruct (scan_control (net_control n) v u true true false) as [l|] eqn:Hs.
      + apply scan_control_some in Hs. destruct Hs as (cn & Hcn & Hid & [(_ & Hl & Hq)|(X & _)]); [|discriminate].
        apply spec_ctl_in in Hcn. destruct Hcn as (m & Hin & He & ->). simpl in Hl, Hid.
        apply in_map_iff in Hl. destruct Hl as (sw & <- & Hsw). simpl in *.
        split; [right; left; now exists m, sw|]. auto.
      + intros HE. apply (E_v_not_node u v (V0 eq_refl)) in HE. destruct HE as (m & w & Hin & He & Hid & Hio).
        destruct (scan_control_none _ _ _ _ _ _ Hs (spec_ctl m) (spec_ctl_of g netId m Hin He) Hid) as [N1 _].
        apply (N1 eq_refl (ctl_in_link (ctl_id m) (u, w))); [|reflexivity].
        simpl. now apply (in_map (ctl_in_link (ctl_id m))) in Hio.
    - (* v ordinary, u possibly a control node: cid = u, oid = v *)
      destruct (scan_control (net_control n) u v true false true) as [l|] eqn:Hs.
      + apply scan_control_some in Hs. destruct Hs as (cn & Hcn & Hid & [(X & _)|(_ & Hl & Hq)]); [discriminate|].
        apply spec_ctl_in in Hcn. destruct Hcn as (m & Hin & He & ->). simpl in Hl, Hid.
        apply in_map_iff in Hl. destruct Hl as (dw & <- & Hdw). simpl in *.
        split; [right; right; now exists m, dw|]. auto.
      + intros HE. apply (E_u_not_node u v (U0 eq_refl)) in HE. destruct HE as (m & w & Hin & He & Hid & Hio).
        destruct (scan_control_none _ _ _ _ _ _ Hs (spec_ctl m) (spec_ctl_of g netId m Hin He) Hid) as [_ N2].
        apply (N2 eq_refl (ctl_out_link (ctl_id m) (v, w))); [|reflexivity].
        simpl. now apply (in_map (ctl_out_link (ctl_id m))) in Hio.
    - exact (E_no_nodes u v (U0 eq_refl) (V0 eq_refl)).
  Qed.

  (* both ordinary: the link of the FIRST enabled gene from u to v, in gene order *)
  Lemma edge_between_directed_nodes u v :
    In u (node_ids g) -> In v (node_ids g) ->
    edge_between n u v true = option_map link_of_gene (first_gene (genes g) u v).
  Proof.
    intros Hu Hv. unfold edge_between.
    destruct (find_uv (net_all n) u v None None) as [ru rv] eqn:Hf.
    destruct (find_uv_none_none n u v ru rv Hf) as (U0 & U1 & V0 & V1).
    unfold n in U0, V0. rewrite spec_all_ids in U0, V0.
    destruct ru as [xu|]; [|exfalso; now apply U0].
    destruct rv as [xv|]; [|exfalso; now apply V0].
    destruct (U1 xu eq_refl) as [Hxu Eu]. destruct (V1 xv eq_refl) as [Hxv Ev].
    destruct (spec_all_in g netId xu u Hxu Eu) as [Exu _].
    destruct (spec_all_in g netId xv v Hxv Ev) as [Exv _].
    simpl. rewrite Exu, Exv. simpl. rewrite find_links_into, find_links_from.
    now destruct (first_gene (genes g) u v).
  Qed.

  Lemma edge_between_undirected u v :
    match edge_between n u v false with
    | Some l => net_link g l /\ ((l_in l = u /\ l_out l = v) \/ (l_in l = v /\ l_out l = u))
    | None => ~ E g u v /\ ~ E g v u
    end.
  Proof.
    unfold edge_between.
    destruct (find_uv (net_all n) u v None None) as [ru rv] eqn:Hf.
    destruct (find_uv_none_none n u v ru rv Hf) as (U0 & U1 & V0 & V1).
    unfold n in U0, V0. rewrite spec_all_ids in U0, V0.
    destruct ru as [xu|], rv as [xv|].
    - destruct (U1 xu eq_refl) as [Hxu Eu]. destruct (V1 xv eq_refl) as [Hxv Ev].
      destruct (spec_all_in g netId xu u Hxu Eu) as [Exu Hu].
      destruct (spec_all_in g netId xv v Hxv Ev) as [Exv Hv].
      simpl. rewrite Exu. simpl. rewrite find_links_into, find_links_from.
      destruct (first_gene (genes g) v u) as [x|] eqn:Fvu; simpl.
      + apply first_gene_some in Fvu. destruct Fvu as (Hx & He & Hi & Ho).
        split; [left; now exists x|]. simpl. auto.
      + destruct (first_gene (genes g) u v) as [x|] eqn:Fuv; simpl.
        * apply first_gene_some in Fuv. destruct Fuv as (Hx & He & Hi & Ho).
          split; [left; now exists x|]. simpl. auto.
        * split; intros HE.
          -- apply (E_both_nodes u v Hu Hv) in HE. destruct HE as (x & Hx & He & Hi & Ho).
             exact (first_gene_none _ _ _ Fuv x Hx He Hi Ho).
          -- apply (E_both_nodes v u Hv Hu) in HE. destruct HE as (x & Hx & He & Hi & Ho).
             exact (first_gene_none _ _ _ Fvu x Hx He Hi Ho).
    - (* u ordinary, v not: cid = v, oid = u *)
      destruct (scan_control (net_control n) v u false true false) as [l|] eqn:Hs.
      + apply scan_control_some in Hs. destruct Hs as (cn & Hcn & Hid & R).
        apply spec_ctl_in in Hcn. destruct Hcn as (m & Hin & He & ->). simpl in Hid, R.
        destruct R as [(_ & Hl & Hq)|(_ & Hl & Hq)].
        * apply in_map_iff in Hl. destruct Hl as (sw & <- & Hsw). simpl in *.
          split; [right; left; now exists m, sw|]. auto.
        * apply in_map_iff in Hl. destruct Hl as (dw & <- & Hdw). simpl in *.
          split; [right; right; now exists m, dw|]. auto.
      + pose proof (scan_control_none _ _ _ _ _ _ Hs) as N. split; intros HE.
        * apply (E_v_not_node u v (V0 eq_refl)) in HE. destruct HE as (m & w & Hin & He & Hid & Hio).
          destruct (N (spec_ctl m) (spec_ctl_of g netId m Hin He) Hid) as [N1 _].
          apply (N1 eq_refl (ctl_in_link (ctl_id m) (u, w))); [|reflexivity].
          simpl. now apply (in_map (ctl_in_link (ctl_id m))) in Hio.
        * apply (E_u_not_node v u (V0 eq_refl)) in HE. destruct HE as (m & w & Hin & He & Hid & Hio).
          destruct (N (spec_ctl m) (spec_ctl_of g netId m Hin He) Hid) as [_ N2].
          apply (N2 eq_refl (ctl_out_link (ctl_id m) (u, w))); [|reflexivity].
          simpl. now apply (in_map (ctl_out_link (ctl_id m))) in Hio.
    - (* v ordinary, u not: cid = u, oid = v *)
      destruct (scan_control (net_control n) u v false false true) as [l|] eqn:Hs.
      + apply scan_control_some in Hs. destruct Hs as (cn & Hcn & Hid & R).
        apply spec_ctl_in in Hcn. destruct Hcn as (m & Hin & He & ->). simpl in Hid, R.
        destruct R as [(_ & Hl & Hq)|(_ & Hl & Hq)].
        * apply in_map_iff in Hl. destruct Hl as (sw & <- & Hsw). simpl in *.
          split; [right; left; now exists m, sw|]. auto.
        * apply in_map_iff in Hl. destruct Hl as (dw & <- & Hdw). simpl in *.
          split; [right; right; now exists m, dw|]. auto.
      + pose proof (scan_control_none _ _ _ _ _ _ Hs) as N. split; intros HE.
        * apply (E_u_not_node u v (U0 eq_refl)) in HE. destruct HE as (m & w & Hin & He & Hid & Hio).
          destruct (N (spec_ctl m) (spec_ctl_of g netId m Hin He) Hid) as [_ N2].
          apply (N2 eq_refl (ctl_out_link (ctl_id m) (v, w))); [|reflexivity].
          simpl. now apply (in_map (ctl_out_link (ctl_id m))) in Hio.
        * apply (E_v_not_node v u (U0 eq_refl)) in HE. destruct HE as (m & w & Hin & He & Hid & Hio).
          destruct (N (spec_ctl m) (spec_ctl_of g netId m Hin He) Hid) as [N1 _].
          apply (N1 eq_refl (ctl_in_link (ctl_id m) (v, w))); [|reflexivity].
          simpl. now apply (in_map (ctl_in_link (ctl_id m))) in Hio.
    - split; [exact (E_no_nodes u v (U0 eq_refl) (V0 eq_refl)) | exact (E_no_nodes v u (V0 eq_refl) (U0 eq_refl))].
  Qed.

  (* ---------- the queries ---------- *)

  Theorem has_edge_from_to_iff u v : has_edge_from_to n u v = true <-> E g u v.
  Proof.
    unfold has_edge_from_to. pose proof (edge_between_directed u v) as H.
    destruct (edge_between n u v true) as [l|].
    - destruct H as (Hl & <- & <-). split; [intros _; now apply net_link_E|reflexivity].
    - split; [discriminate|intros HE; contradiction].
  Qed.

  Theorem has_edge_between_iff u v : has_edge_between n u v = true <-> E g u v \/ E g v u.
  Proof.
    unfold has_edge_between. pose proof (edge_between_undirected u v) as H.
    destruct (edge_between n u v false) as [l|].
    - destruct H as (Hl & [(<- & <-)|(<- & <-)]); (split; [intros _|reflexivity]).
      + left. now apply net_link_E.
      + right. now apply net_link_E.
    - destruct H as [H1 H2]. split; [discriminate|intros [HE|HE]; contradiction].
  Qed.

  Theorem gedge_none_iff u v : gedge n u v = None <-> ~ E g u v.
  Proof.
    unfold gedge. pose proof (edge_between_directed u v) as H.
    destruct (edge_between n u v true) as [l|].
    - destruct H as (Hl & <- & <-). split; [discriminate|]. intros HE. exfalso. apply HE. now apply net_link_E.
    - split; [intros _; exact H|reflexivity].
  Qed.

  Theorem gedge_some u v l : gedge n u v = Some l -> net_link g l /\ l_in l = u /\ l_out l = v.
  Proof.
    unfold gedge. pose proof (edge_between_directed u v) as H. intros X. rewrite X in H. exact H.
  Qed.

  Theorem gweight_spec u v :
    gweight n u v = match gedge n u v with Some l => (l_w l, true) | None => (0%float, false) end.
  Proof. unfold gweight, gedge. now destruct (edge_between n u v true). Qed.

  (* ---------- Node, Nodes ---------- *)

  Lemma find_spec_all u :
    match find (fun np => Z.eqb (p_id np) u) (net_all n) with
    | Some x => In u (node_ids g) /\ p_id x = u /\
                p_incoming x = links_into (genes g) u /\ p_outgoing x = links_from (genes g) u
    | None => ~ In u (node_ids g)
    end.
  Proof.
    destruct (find _ (net_all n)) as [x|] eqn:F.
    - apply find_some in F. destruct F as [Hin Hq]. apply Z.eqb_eq in Hq.
      destruct (spec_all_in g netId x u Hin Hq) as [Ex Hu]. rewrite Ex. simpl. auto.
    - intros Hu. unfold node_ids in Hu. apply in_map_iff in Hu. destruct Hu as (nd & Hid & Hnd).
      assert (X : In (spec_node (genes g) nd) (net_all n)) by (simpl; now apply in_map).
      apply (find_none _ _ F) in X. simpl in X. rewrite Hid, Z.eqb_refl in X. discriminate.
  Qed.

  Lemma find_spec_ctl u :
    find (fun np => Z.eqb (p_id np) u) (net_control n) =
    option_map spec_ctl (find (fun m => Z.eqb (ctl_id m) u) (enabled_modules g)).
  Proof. simpl. apply find_map'. Qed.

  Lemma node_with_ID_unfold u :
    node_with_ID n u =
    match find (fun np => Z.eqb (p_id np) u) (net_all n) with
    | Some x => Some x
    | None => option_map spec_ctl (find (fun m => Z.eqb (ctl_id m) u) (enabled_modules g))
    end.
  Proof. unfold node_with_ID. simpl net_all_mimo. rewrite find_app'. now rewrite <- find_spec_ctl. Qed.

  Theorem gnode_spec u : (gnode n u = Some u /\ V g u) \/ (gnode n u = None /\ ~ V g u).
  Proof.
    unfold gnode. rewrite node_with_ID_unfold. pose proof (find_spec_all u) as H.
    destruct (find _ (net_all n)) as [x|].
    - destruct H as (Hu & Hid & _). left. rewrite Hid. split; [reflexivity|now left].
    - destruct (find _ (enabled_modules g)) as [m|] eqn:F; simpl.
      + apply find_some in F. destruct F as [Hin Hq]. apply Z.eqb_eq in Hq.
        left. rewrite Hq. split; [reflexivity|].
        right. rewrite <- Hq. now apply in_map.
      + right. split; [reflexivity|]. intros [Hu|Hu]; [contradiction|].
        apply in_map_iff in Hu. destruct Hu as (m & Hid & Hin).
        apply (find_none _ _ F) in Hin. rewrite Hid, Z.eqb_refl in Hin. discriminate.
  Qed.

  Theorem gnodes_spec : gnodes n = node_ids g ++ map ctl_id (enabled_modules g).
  Proof. unfold gnodes. simpl. rewrite map_app, !map_map. reflexivity. Qed.

  (* ---------- From, To ---------- *)

  Definition in_ids (u : Z) (l : list Z) : bool := existsb (Z.eqb u) l.

  Lemma in_ids_iff u l : in_ids u l = true <-> In u l.
  Proof.
    unfold in_ids. rewrite existsb_exists. split.
    - intros (x & Hx & Hq). apply Z.eqb_eq in Hq. now subst.
    - intros H. exists u. split; [exact H|apply Z.eqb_refl].
  Qed.

  Definition from_spec (u : Z) : list Z :=
    if in_ids u (node_ids g) then
      map g_out (filter (fun x => g_en x && Z.eqb (g_in x) u) (genes g))
      ++ map ctl_id (filter (fun m => existsb (fun sw => Z.eqb (fst sw) u) (m_ins m)) (enabled_modules g))
    else match find (fun m => Z.eqb (ctl_id m) u) (enabled_modules g) with
         | Some m => map fst (m_outs m)
         | None => []
         end.

  Definition to_spec (u : Z) : list Z :=
    if in_ids u (node_ids g) then
      map g_in (filter (fun x => g_en x && Z.eqb (g_out x) u) (genes g))
      ++ map ctl_id (filter (fun m => existsb (fun dw => Z.eqb (fst dw) u) (m_outs m)) (enabled_modules g))
    else match find (fun m => Z.eqb (ctl_id m) u) (enabled_modules g) with
         | Some m => map fst (m_ins m)
         | None => []
         end.

  Lemma ctl_having_in_spec u ms :
    ctl_having_in u (map spec_ctl ms) =
    map ctl_id (filter (fun m => existsb (fun sw => Z.eqb (fst sw) u) (m_ins m)) ms).
  Proof.
    induction ms as [|m ms IH]; simpl; [reflexivity|].
    rewrite existsb_map'. simpl.
    destruct (existsb (fun sw => Z.eqb (fst sw) u) (m_ins m)); simpl; now rewrite IH.
  Qed.
  Lemma ctl_having_out_spec u ms :
    ctl_having_out u (map spec_ctl ms) =
    map ctl_id (filter (fun m => existsb (fun dw => Z.eqb (fst dw) u) (m_outs m)) ms).
  Proof.
    induction ms as [|m ms IH]; simpl; [reflexivity|].
    rewrite existsb_map'. simpl.
    destruct (existsb (fun dw => Z.eqb (fst dw) u) (m_outs m)); simpl; now rewrite IH.
  Qed.

  Lemma no_ctl_io u : ~ In u (node_ids g) ->
    filter (fun m => existsb (fun sw => Z.eqb (fst sw) u) (m_ins m)) (enabled_modules g) = [] /\
    filter (fun m => existsb (fun dw => Z.eqb (fst dw) u) (m_outs m)) (enabled_modules g) = [].
  Proof.
    intros Hu. unfold enabled_modules.
    assert (H : forall m, In m (filter m_en (modules g)) ->
                          existsb (fun sw => Z.eqb (fst sw) u) (m_ins m) = false /\
                          existsb (fun dw => Z.eqb (fst dw) u) (m_outs m) = false).
    { intros m Hin. apply filter_In in Hin. destruct Hin as [Hin He].
      split; apply not_true_is_false; intros X; apply existsb_exists in X;
        destruct X as ([s w] & Hsw & Hq); apply Z.eqb_eq in Hq; simpl in Hq; subst s;
          apply Hu; apply (Hm m Hin He u w); auto. }
    induction (filter m_en (modules g)) as [|m ms IH]; simpl; [auto|].
    destruct (H m (or_introl eq_refl)) as [-> ->].
    apply IH. intros m' Hm'. apply H. now right.
  Qed.

  Theorem gfrom_spec u : gfrom n u = from_spec u.
  Proof.
    unfold gfrom, from_spec. rewrite node_with_ID_unfold. pose proof (find_spec_all u) as H.
    destruct (find _ (net_all n)) as [x|].
    - destruct H as (Hu & _ & _ & Ho). rewrite (proj2 (in_ids_iff u _) Hu). rewrite Ho.
      unfold links_from. rewrite map_map. simpl net_control. now rewrite ctl_having_in_spec.
    - destruct (in_ids u (node_ids g)) eqn:Hi; [apply in_ids_iff in Hi; contradiction|].
      simpl net_control. rewrite ctl_having_in_spec. rewrite (proj1 (no_ctl_io u H)). simpl.
      destruct (find _ (enabled_modules g)) as [m|]; simpl; [|reflexivity].
      rewrite map_map. simpl. now rewrite app_nil_r.
  Qed.

  Theorem gto_spec u : gto n u = to_spec u.
  Proof.
    unfold gto, to_spec. rewrite node_with_ID_unfold. pose proof (find_spec_all u) as H.
    destruct (find _ (net_all n)) as [x|].
    - destruct H as (Hu & _ & Hi & _). rewrite (proj2 (in_ids_iff u _) Hu). rewrite Hi.
      unfold links_into. rewrite map_map. simpl net_control. now rewrite ctl_having_out_spec.
    - destruct (in_ids u (node_ids g)) eqn:Hi; [apply in_ids_iff in Hi; contradiction|].
      simpl net_control. rewrite ctl_having_out_spec. rewrite (proj2 (no_ctl_io u H)). simpl.
      destruct (find _ (enabled_modules g)) as [m|]; simpl; [|reflexivity].
      rewrite map_map. simpl. now rewrite app_nil_r.
  Qed.

  Lemma enabled_module_in m : In m (enabled_modules g) <-> In m (modules g) /\ m_en m = true.
  Proof. unfold enabled_modules. apply filter_In. Qed.

  Lemma find_enabled_module u m m' :
    find (fun m => Z.eqb (ctl_id m) u) (enabled_modules g) = Some m ->
    In m' (modules g) -> m_en m' = true -> ctl_id m' = u -> m' = m.
  Proof.
    intros F Hin He Hid. apply find_some in F. destruct F as [Hm' Hq]. apply Z.eqb_eq in Hq.
    apply (nodup_map_inj ctl_id (enabled_modules g)).
    - exact (nodup_app_r _ _ Hc).
    - now apply enabled_module_in.
    - exact Hm'.
    - congruence.
  Qed.

  (* From(u) lists exactly the successors of u *)
  Theorem gfrom_iff u v : In v (gfrom n u) <-> E g u v.
  Proof.
    rewrite gfrom_spec. unfold from_spec.
    destruct (in_ids u (node_ids g)) eqn:Hi.
    - apply in_ids_iff in Hi. rewrite in_app_iff. split.
      + intros [H|H].
        * apply in_map_iff in H. destruct H as (x & Ho & Hx). apply filter_In in Hx. destruct Hx as [Hx Hq].
          apply andb_true_iff in Hq. destruct Hq as [He Hq]. apply Z.eqb_eq in Hq. left. now exists x.
        * apply in_map_iff in H. destruct H as (m & Hid & Hx). apply filter_In in Hx. destruct Hx as [Hx Hq].
          apply enabled_module_in in Hx. destruct Hx as [Hin He].
          apply existsb_exists in Hq. destruct Hq as ([s w] & Hsw & Hq). apply Z.eqb_eq in Hq. simpl in Hq. subst s.
          right. left. now exists m, w.
      + intros [(x & Hx & He & Hgi & Hgo)|[(m & w & Hin & He & Hid & Hio)|(m & w & Hin & He & Hid & Hio)]].
        * left. apply in_map_iff. exists x. split; [exact Hgo|]. apply filter_In. split; [exact Hx|].
          rewrite He, Hgi, Z.eqb_refl. reflexivity.
        * right. apply in_map_iff. exists m. split; [exact Hid|]. apply filter_In. split.
          -- now apply enabled_module_in.
          -- apply existsb_exists. exists (u, w). split; [exact Hio|apply Z.eqb_refl].
        * exfalso. subst u. exact (ctl_not_node m Hin He Hi).
    - assert (Hu : ~ In u (node_ids g)).
      { intros X. apply in_ids_iff in X. congruence. }
      destruct (find _ (enabled_modules g)) as [m|] eqn:F.
      + pose proof F as F'. apply find_some in F'. destruct F' as [Hm' Hq]. apply Z.eqb_eq in Hq.
        apply enabled_module_in in Hm'. destruct Hm' as [Hin He]. split.
        * intros H. apply in_map_iff in H. destruct H as ([d w] & Hd & Hdw). simpl in Hd. subst d.
          right. right. now exists m, w.
        * intros HE. apply (E_u_not_node u v Hu) in HE. destruct HE as (m' & w & Hin' & He' & Hid' & Hio').
          rewrite (find_enabled_module u m m' F Hin' He' Hid') in Hio'.
          apply in_map_iff. now exists (v, w).
      + split; [contradiction|]. intros HE. apply (E_u_not_node u v Hu) in HE.
        destruct HE as (m' & w & Hin' & He' & Hid' & Hio').
        assert (X : In m' (enabled_modules g)) by now apply enabled_module_in.
        apply (find_none _ _ F) in X. rewrite Hid', Z.eqb_refl in X. discriminate.
  Qed.

  (* To(v) lists exactly the predecessors of v *)
  Theorem gto_iff u v : In u (gto n v) <-> E g u v.
  Proof.
    rewrite gto_spec. unfold to_spec.
    destruct (in_ids v (node_ids g)) eqn:Hi.
    - apply in_ids_iff in Hi. rewrite in_app_iff. split.
      + intros [H|H].
        * apply in_map_iff in H. destruct H as (x & Ho & Hx). apply filter_In in Hx. destruct Hx as [Hx Hq].
          apply andb_true_iff in Hq. destruct Hq as [He Hq]. apply Z.eqb_eq in Hq. left. now exists x.
        * apply in_map_iff in H. destruct H as (m & Hid & Hx). apply filter_In in Hx. destruct Hx as [Hx Hq].
          apply enabled_module_in in Hx. destruct Hx as [Hin He].
          apply existsb_exists in Hq. destruct Hq as ([s w] & Hsw & Hq). apply Z.eqb_eq in Hq. simpl in Hq. subst s.
          right. right. now exists m, w.
      + intros [(x & Hx & He & Hgi & Hgo)|[(m & w & Hin & He & Hid & Hio)|(m & w & Hin & He & Hid & Hio)]].
        * left. apply in_map_iff. exists x. split; [exact Hgi|]. apply filter_In. split; [exact Hx|].
          rewrite He, Hgo, Z.eqb_refl. reflexivity.
        * exfalso. subst v. exact (ctl_not_node m Hin He Hi).
        * right. apply in_map_iff. exists m. split; [exact Hid|]. apply filter_In. split.
          -- now apply enabled_module_in.
          -- apply existsb_exists. exists (v, w). split; [exact Hio|apply Z.eqb_refl].
    - assert (Hv : ~ In v (node_ids g)).
      { intros X. apply in_ids_iff in X. congruence. }
      destruct (find _ (enabled_modules g)) as [m|] eqn:F.
      + pose proof F as F'. apply find_some in F'. destruct F' as [Hm' Hq]. apply Z.eqb_eq in Hq.
        apply enabled_module_in in Hm'. destruct Hm' as [Hin He]. split.
        * intros H. apply in_map_iff in H. destruct H as ([s w] & Hs & Hsw). simpl in Hs. subst s.
          right. left. now exists m, w.
        * intros HE. apply (E_v_not_node u v Hv) in HE. destruct HE as (m' & w & Hin' & He' & Hid' & Hio').
          rewrite (find_enabled_module v m m' F Hin' He' Hid') in Hio'.
          apply in_map_iff. now exists (u, w).
      + split; [contradiction|]. intros HE. apply (E_v_not_node u v Hv) in HE.
        destruct HE as (m' & w & Hin' & He' & Hid' & Hio').
        assert (X : In m' (enabled_modules g)) by now apply enabled_module_in.
        apply (find_none _ _ F) in X. rewrite Hid', Z.eqb_refl in X. discriminate.
  Qed.

End Located.

(* ---------- counts ---------- *)

Definition ctl_link_count (g : genome) : Z :=
  fold_right Z.add 0 (map (fun m => zlen (m_ins m) + zlen (m_outs m)) (enabled_modules g)).

Lemma zlen_app {A} (l1 l2 : list A) : zlen (l1 ++ l2) = zlen l1 + zlen l2.
Proof. unfold zlen. rewrite app_length. lia. Qed.

Lemma fold_left_incoming (f : pnode -> list plink) l : forall a,
    fold_left (fun acc node => acc + zlen (f node)) l a = a + zlen (concat (map f l)).
Proof.
  induction l as [|x l IH]; intros a; simpl.
  - unfold zlen. simpl. lia.
  - rewrite IH, zlen_app. lia.
Qed.

Lemma fold_left_ctl ms : forall a,
    fold_left (fun acc node => acc + zlen (p_incoming node) + zlen (p_outgoing node)) (map spec_ctl ms) a =
    a + fold_right Z.add 0 (map (fun m => zlen (m_ins m) + zlen (m_outs m)) ms).
Proof.
  induction ms as [|m ms IH]; intros a; simpl.
  - lia.
  - rewrite IH. unfold zlen. rewrite !map_length. lia.
Qed.

Theorem node_count_spec g netId :
  node_count (spec_net g netId) = zlen (nodes g) + zlen (enabled_modules g).
Proof.
  unfold node_count. simpl. unfold zlen. rewrite !map_length.
  destruct (Z.eqb_spec (Z.of_nat (length (enabled_modules g))) 0) as [E|E]; lia.
Qed.

Theorem link_count_spec g netId :
  wf_nodes g -> wf_genes g ->
  link_count (spec_net g netId) = zlen (enabled_genes g) + ctl_link_count g.
Proof.
  intros Hn Hg. unfold link_count.
  rewrite (fold_left_incoming p_incoming). fold (all_incoming (spec_net g netId)).
  assert (Hlen : zlen (all_incoming (spec_net g netId)) = zlen (enabled_genes g)).
  { unfold zlen. rewrite (Permutation_length (spec_incoming_perm g netId Hn Hg)). now rewrite map_length. }
  rewrite Hlen. simpl net_control. unfold ctl_link_count.
  destruct (Z.eqb_spec (zlen (map spec_ctl (enabled_modules g))) 0) as [E|E]; simpl.
  - unfold zlen in E. rewrite map_length in E.
    destruct (enabled_modules g); [simpl; lia|simpl in E; lia].
  - now rewrite fold_left_ctl.
Qed.

Theorem complexity_spec g netId :
  wf_nodes g -> wf_genes g ->
  complexity (spec_net g netId) =
  (zlen (nodes g) + zlen (enabled_modules g)) + (zlen (enabled_genes g) + ctl_link_count g).
Proof. intros Hn Hg. unfold complexity. now rewrite node_count_spec, link_count_spec. Qed.
