(* mutateLinkWeights changes weights and the mutation numbers that mirror them, nothing else;
   a spawned genome therefore has exactly the start genome's topology and flags (C06). *)
From NeatModel Require Import Res F64 GoRand Genome Options Dup Mutate Spawn MonadLemmas WF.
From Coq Require Import Lia.

(* y is x with a new weight, and its mutation number mirrors the weight *)
Definition reweighted (x y : gene) : Prop :=
  g_in y = g_in x /\ g_out y = g_out x /\ g_rec y = g_rec x /\ g_trait y = g_trait x /\
  g_innov y = g_innov x /\ g_en y = g_en x /\ g_mut y = g_w y.

Lemma set_w_reweighted w x : reweighted x (set_w w x).
Proof. unfold reweighted, set_w. cbn. repeat split. Qed.

Lemma mutate_one_weight_frame power rate gaussian severe count endp num x s y s' :
  mutate_one_weight power rate gaussian severe count endp num x s = Ok (y, s') ->
  reweighted x y /\ s_env s' = s_env s.
Proof.
  unfold mutate_one_weight. intros H.
  mbind H as gc s0 Hgc H.
  assert (He0 : s_env s0 = s_env s).
  { destruct severe; [now mret Hgc|].
    destruct (_ && _); [now mret Hgc|].
    mbind Hgc as r sr Hr Hgc. apply on_tape_env in Hr.
    destruct (PrimFloat.ltb half r); mret Hgc; exact Hr. }
  destruct gc as [gp cgp].
  mbind H as sg s1 Hsg H. apply on_tape_env in Hsg.
  mbind H as f s2 Hf H. apply on_tape_env in Hf.
  destruct gaussian.
  - mbind H as ch s3 Hch H. apply on_tape_env in Hch.
    destruct (PrimFloat.ltb gp ch); [|destruct (PrimFloat.ltb cgp ch)]; mret H;
      (split; [apply set_w_reweighted | congruence]).
  - mret H. split; [apply set_w_reweighted | congruence].
Qed.

Lemma mutate_weights_loop_frame power rate gaussian severe count endp l :
  forall num s l' s',
    mutate_weights_loop power rate gaussian severe count endp num l s = Ok (l', s') ->
    Forall2 reweighted l l' /\ s_env s' = s_env s.
Proof.
  induction l as [|x l IH]; intros num s l' s' H; cbn [mutate_weights_loop] in H.
  - mret H. split; [constructor|reflexivity].
  - mbind H as y s1 Hy H. apply mutate_one_weight_frame in Hy. destruct Hy as [Hr He].
    mbind H as r s2 Hl H. apply IH in Hl. destruct Hl as [Hf He'].
    mret H. split; [now constructor|congruence].
Qed.

Theorem mutate_link_weights_frame power rate gaussian g s g' b s' :
  mutate_link_weights power rate gaussian g s = Ok ((g', b), s') ->
  b = true /\ gid g' = gid g /\ traits g' = traits g /\ nodes g' = nodes g /\ modules g' = modules g /\
  Forall2 reweighted (genes g) (genes g') /\ s_env s' = s_env s.
Proof.
  unfold mutate_link_weights. destruct (genes g) as [|x l] eqn:E; [discriminate|].
  intros H. mbind H as r s1 Hr H. apply on_tape_env in Hr.
  mbind H as gs s2 Hl H. apply mutate_weights_loop_frame in Hl. destruct Hl as [Hf He].
  apply ret_ok in H. destruct H as [H ->]. injection H as <- <-. cbn. repeat split; try assumption. congruence.
Qed.

(* A population spawned from a well-formed start genome: every organism's genome has the start
   genome's traits, nodes, gene endpoints, innovation numbers, recurrence and enabled flags and
   trait references; only weights differ, and mutation numbers mirror them. *)
Theorem spawn_topology g count s g' s' :
  wf g -> spawn_genome g count s = Ok (g', s') ->
  gid g' = count /\ traits g' = traits g /\ nodes g' = nodes g /\ modules g' = modules g /\
  Forall2 reweighted (genes g) (genes g') /\ s_env s' = s_env s.
Proof.
  intros Hwf H. unfold spawn_genome in H.
  mbind H as d s1 Hd H. apply lift_ok in Hd. destruct Hd as [Hd ->].
  rewrite (duplicate_wf g count Hwf) in Hd. injection Hd as <-.
  mbind H as r s2 Hr H. destruct r as [g1 b]. apply mutate_link_weights_frame in Hr.
  apply ret_ok in H. destruct H as [<- <-]. cbn [fst].
  cbn [with_id gid traits nodes genes modules] in Hr. tauto.
Qed.
