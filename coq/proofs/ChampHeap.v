(* Heap, species-list and monad lemmas shared by the C10 proofs (Champ*.v). *)
From NeatModel Require Import Compat.
From NeatModel Require Import Res F64 GoRand Genome Options Insert Dup Mutate Mate Population MonadLemmas WF.
From Coq Require Import Lia.

(* ---------- res ---------- *)
Lemma bind_ok {A B} (r : res A) (f : A -> res B) b : bind r f = Ok b -> exists a, r = Ok a /\ f a = Ok b.
Proof. destruct r; cbn [bind]; try discriminate. intros H. now exists a. Qed.

Tactic Notation "rbind" hyp(H) "as" ident(a) ident(H1) :=
  apply bind_ok in H; destruct H as [a [H1 H]].

(* ---------- postconditions of monadic computations that ignore the state ---------- *)
Definition post {A} (m : @M st A) (P : A -> Prop) : Prop := forall s a s', m s = Ok (a, s') -> P a.

Lemma post_bind {A B} (m : @M st A) (f : A -> @M st B) P : (forall a, post (f a) P) -> post (bindM m f) P.
Proof.
  intros Hf s b s' H. apply bindM_ok in H. destruct H as [a [s1 [_ H]]]. exact (Hf a s1 b s' H).
Qed.
Lemma post_ret {A} (a : A) (P : A -> Prop) : P a -> post (ret a) P.
Proof. intros Hp s b s' H. apply ret_ok in H. destruct H as [<- _]. exact Hp. Qed.
Lemma post_fail_panic {A} c (P : A -> Prop) : post (fail_panic c) P.
Proof. intros s a s' H. discriminate. Qed.
Lemma post_fail_err {A} c (P : A -> Prop) : post (fail_err c) P.
Proof. intros s a s' H. discriminate. Qed.

(* ---------- heap ---------- *)
Lemma hget_key h k x : hget h k = Ok x -> o_key x = k.
Proof.
  induction h as [|y h IH]; cbn [hget]; [discriminate|].
  destruct (Z.eqb_spec (o_key y) k) as [E|_]; [|exact IH]. intros H. injection H as <-. exact E.
Qed.

Lemma hget_In h k x : hget h k = Ok x -> In x h.
Proof.
  induction h as [|y h IH]; cbn [hget]; [discriminate|].
  destruct (Z.eqb (o_key y) k); [|intros H; right; now apply IH]. intros H. injection H as <-. now left.
Qed.

Lemma hget_hset h x k : hget (hset h x) k = if Z.eqb (o_key x) k then Ok x else hget h k.
Proof.
  induction h as [|y h IH]; cbn [hset hget]; [reflexivity|].
  destruct (Z.eqb_spec (o_key y) (o_key x)) as [E|Hne]; cbn [hget].
  - destruct (Z.eqb_spec (o_key x) k) as [E2|Hne2].
    + reflexivity.
    + destruct (Z.eqb_spec (o_key y) k) as [E3|_]; [congruence|reflexivity].
  - destruct (Z.eqb_spec (o_key y) k) as [E3|Hne3].
    + destruct (Z.eqb_spec (o_key x) k) as [E2|_]; [congruence|reflexivity].
    + exact IH.
Qed.

Lemma hget_hset_same h x : hget (hset h x) (o_key x) = Ok x.
Proof. rewrite hget_hset. now rewrite Z.eqb_refl. Qed.

Lemma hget_hset_other h x k : o_key x <> k -> hget (hset h x) k = hget h k.
Proof. intros H. rewrite hget_hset. destruct (Z.eqb_spec (o_key x) k); [contradiction|reflexivity]. Qed.

Lemma hgets_ok h ks l : hgets h ks = Ok l -> Forall2 (fun k x => hget h k = Ok x) ks l.
Proof.
  revert l. induction ks as [|k ks IH]; cbn [hgets]; intros l H.
  - injection H as <-. constructor.
  - rbind H as x Hx. rbind H as r Hr. injection H as <-. constructor; [exact Hx|now apply IH].
Qed.

Lemma hgets_keys h ks l : hgets h ks = Ok l -> map o_key l = ks.
Proof.
  intros H. apply hgets_ok in H. induction H as [|k x ks l Hx _ IH]; cbn [map]; [reflexivity|].
  now rewrite (hget_key _ _ _ Hx), IH.
Qed.

(* ---------- genomes modulo their id ---------- *)
Definition refs_ok (g : genome) : Prop := endpoints_ok g /\ trait_refs_ok g /\ module_refs_ok g.

Lemma wf_refs_ok g : wf g -> refs_ok g.
Proof.
  intros [_ _ _ _ He Ht _ _ Hm]. split; [exact He|split; [exact Ht|]].
  unfold module_refs_ok. rewrite Hm. intros m [].
Qed.

Lemma refs_ok_with_id g n : refs_ok g -> refs_ok (with_id g n).
Proof. intros H. exact H. Qed.

Lemma duplicate_refs g id : refs_ok g -> duplicate g id = Ok (with_id g id).
Proof. intros [He [Ht Hm]]. now apply duplicate_exact. Qed.

Lemma with_id_with_id g a b : with_id (with_id g a) b = with_id g b.
Proof. reflexivity. Qed.

(* o_with_super collapses *)
Lemma o_with_super_twice x a b : o_with_super (o_with_super x a) b = o_with_super x b.
Proof. reflexivity. Qed.
Lemma o_with_super_self x : o_with_super x (o_super x) = x.
Proof. now destruct x. Qed.
