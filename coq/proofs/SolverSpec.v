(* C12: the real-number instance of the solver models and the declarative specification they are
   proved against.

   * [Rnum]: the number structure of Coq's reals (the -Inf that an unknown activation type yields is
     represented by 0; the theorems exclude unknown activation types by hypothesis).
   * [ract known f]: activation table; [known code = false] is "unknown neuron activation type".
   * [ffnet n dp]: n is a feed-forward network in which every neuron is fed: positions in range, plain
     (not time-delayed) links, every neuron has an incoming link, and [dp] strictly increases along
     every link into a neuron (so the link relation is acyclic; the longest-path depth is such a dp).
   * [solves n f v]: v is a solution of the node equations  v p = f (code p) (sum_l w_l * v (src l)). *)
From NeatModel Require Import Res Net SolverUtil.
From Coq Require Import Reals Lra Arith Lia.
Open Scope R_scope.

Definition Rnum : Net.num R :=
  mkNum R 0 1 0 Rplus Rminus Rmult Rabs
        (fun x y => if Rlt_dec x y then true else false)
        (fun x y => if Rle_dec x y then true else false).

Definition ract (known : Z -> bool) (f : Z -> R -> R) (code : Z) (x : R) : res R :=
  if known code then Ok (f code x) else GoErr ErrUnknownActivation.

(* sum of weight * value of the source over a list of links *)
Definition wsum (v : nat -> R) (ls : list (link R)) : R :=
  fold_right (fun l acc => l_w l * v (l_src l) + acc) 0 ls.

Lemma wsum_fold_left (v : nat -> R) (ls : list (link R)) (a : R) :
  fold_left (fun acc l => acc + l_w l * v (l_src l)) ls a = a + wsum v ls.
Proof.
  revert a; induction ls as [|l rest IH]; intros a; simpl; [lra|]. rewrite IH. lra.
Qed.

Lemma wsum_ext (v1 v2 : nat -> R) (ls : list (link R)) :
  (forall l, In l ls -> v1 (l_src l) = v2 (l_src l)) -> wsum v1 ls = wsum v2 ls.
Proof.
  induction ls as [|l rest IH]; intros H; simpl; [reflexivity|].
  rewrite (H l) by (simpl; auto). rewrite IH; [reflexivity|]. intros l' Hl. apply H. simpl. auto.
Qed.

(* generic finite sums *)
Definition sumf {A} (g : A -> R) (l : list A) : R := fold_right (fun x acc => g x + acc) 0 l.

Lemma sumf_fold_left {A} (g : A -> R) (l : list A) (a : R) :
  fold_left (fun acc x => acc + g x) l a = a + sumf g l.
Proof. revert a; induction l as [|x rest IH]; intros a; simpl; [lra|]. rewrite IH. lra. Qed.

Lemma sumf_ext {A} (g1 g2 : A -> R) (l : list A) :
  (forall x, In x l -> g1 x = g2 x) -> sumf g1 l = sumf g2 l.
Proof.
  induction l as [|x rest IH]; intros H; simpl; [reflexivity|].
  rewrite (H x) by (simpl; auto). rewrite IH; [reflexivity|]. intros y Hy. apply H. simpl. auto.
Qed.

Lemma sumf_map {A B} (g : B -> R) (h : A -> B) (l : list A) : sumf g (map h l) = sumf (fun x => g (h x)) l.
Proof. induction l as [|x rest IH]; simpl; [reflexivity|]. now rewrite IH. Qed.

Lemma wsum_sumf (v : nat -> R) (ls : list (link R)) : wsum v ls = sumf (fun l => l_w l * v (l_src l)) ls.
Proof. reflexivity. Qed.

(* splitting a sum along a boolean test *)
Lemma sumf_filter_split {A} (g : A -> R) (t : A -> bool) (l : list A) :
  sumf g l = sumf g (filter t l) + sumf g (filter (fun x => negb (t x)) l).
Proof.
  induction l as [|x rest IH]; simpl; [lra|]. destruct (t x); simpl; rewrite IH; lra.
Qed.

Section Spec.
Variable n : net R.
Variable known : Z -> bool.
Variable f : Z -> R -> R.

Definition neuronb (p : nat) : bool := is_neuron (role_at n p).
Definition sensorb (p : nat) : bool := is_sensor (role_at n p).

Lemma neuron_not_sensor p : neuronb p = true -> sensorb p = false.
Proof. unfold neuronb, sensorb. destruct (role_at n p); simpl; congruence. Qed.
Lemma sensor_or_neuron p : sensorb p = true \/ neuronb p = true.
Proof. unfold neuronb, sensorb. destruct (role_at n p); simpl; auto. Qed.

Record ffnet (dp : nat -> nat) : Prop := mkFF {
  ff_ok : net_ok n = true;
  ff_notd : forall p l, (p < nnodes n)%nat -> In l (nd_in (node_at n p)) -> l_td l = false;
  ff_fed : forall p, (p < nnodes n)%nat -> neuronb p = true -> nd_in (node_at n p) <> [];
  ff_rank : forall p l, (p < nnodes n)%nat -> neuronb p = true -> In l (nd_in (node_at n p)) ->
                        (dp (l_src l) < dp p)%nat;
  ff_known : forall p, (p < nnodes n)%nat -> neuronb p = true -> known (nd_act (node_at n p)) = true;
  ff_outs : forall o, In o (outputs n) -> neuronb o = true
}.

Definition solves (v : nat -> R) : Prop :=
  forall p, (p < nnodes n)%nat -> neuronb p = true ->
            v p = f (nd_act (node_at n p)) (wsum v (nd_in (node_at n p))).

(* consequences of net_ok *)
Lemma net_ok_src : net_ok n = true ->
  forall p l, (p < nnodes n)%nat -> In l (nd_in (node_at n p)) -> (l_src l < nnodes n)%nat.
Proof.
  unfold net_ok. intros H p l Hp Hl.
  apply andb_true_iff in H. destruct H as [H _]. apply andb_true_iff in H. destruct H as [H _].
  rewrite forallb_forall in H. specialize (H (node_at n p)).
  assert (Hin : In (node_at n p) (nodes n)) by (apply nth_In; exact Hp).
  specialize (H Hin). rewrite forallb_forall in H. specialize (H l Hl). apply Nat.ltb_lt in H. exact H.
Qed.

Lemma net_ok_outputs : net_ok n = true -> forall o, In o (outputs n) -> (o < nnodes n)%nat.
Proof.
  unfold net_ok. intros H o Ho. apply andb_true_iff in H. destruct H as [_ H].
  rewrite forallb_forall in H. specialize (H o Ho). apply Nat.ltb_lt in H. exact H.
Qed.

Lemma net_ok_inputs : net_ok n = true -> forall o, In o (inputs n) -> (o < nnodes n)%nat.
Proof.
  unfold net_ok. intros H o Ho. apply andb_true_iff in H. destruct H as [H _].
  apply andb_true_iff in H. destruct H as [_ H].
  rewrite forallb_forall in H. specialize (H o Ho). apply Nat.ltb_lt in H. exact H.
Qed.

End Spec.
