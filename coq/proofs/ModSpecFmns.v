(* C15 for fast solvers WITH modules: the solver restored from its model file is the same object (FmnsSpec, which
   already covers [s_modules]) and therefore, by model/FastMod.v, computes the same results and outputs for every
   operation sequence; with C13 (ModSpecFast) also the same as the original flushed after any history. *)
From Coq Require Import String Lia.
From NeatModel Require Import Res Net Fast Fmns NetMod FastMod FmnsMod FlushFast FlushBuild FmnsSpec ModSpecFast.
Open Scope Z_scope.

Section ModSpecFmns.
Variable F : Type.
Variable finite : F -> bool.
Variable name_of : Z -> res string.
Variable type_of : string -> res Z.
Variable NF : num F.

Lemma fmodule_of_smodule_of m : fmodule_of (smodule_of m) = m.
Proof.
  destruct m as [a i o]. unfold fmodule_of, smodule_of. simpl. rewrite !map_map. f_equal.
  - rewrite <- (map_id i) at 2. apply map_ext. intros x. apply Nat2Z.id.
  - rewrite <- (map_id o) at 2. apply map_ext. intros x. apply Nat2Z.id.
Qed.

Lemma fmnet_of_msolver_of id name z (fx : fmnet F) : fmnet_of (msolver_of id name z fx) = fx.
Proof.
  destruct fx as [fn ms]. unfold fmnet_of, msolver_of. simpl. f_equal.
  - exact (fnet_of_solver_of F id name z fn).
  - rewrite map_map. rewrite <- (map_id ms) at 2. apply map_ext. intros m. apply fmodule_of_smodule_of.
Qed.

Lemma msolver_of_built id name z (fx : fmnet F) :
  fnet_ok F (fx_net fx) = true -> solver_built (msolver_of id name z fx) = true.
Proof. intros H. exact (solver_of_built F id name z (fx_net fx) H). Qed.

Lemma msolver_of_fits id name z (fx : fmnet F) :
  fnet_ok F (fx_net fx) = true -> msolver_fits (msolver_of id name z fx) = true.
Proof.
  intros H. pose proof (solver_of_fits F id name z (fx_net fx) H) as HF.
  unfold solver_fits in HF. unfold msolver_fits.
  repeat (apply andb_true_iff in HF; destruct HF as [HF ?]).
  repeat (apply andb_true_iff; split); try assumption.
  simpl. rewrite forallb_forall. intros m Hm. apply in_map_iff in Hm. destruct Hm as (m0 & <- & _).
  simpl. apply andb_true_iff. split; rewrite forallb_forall; intros x Hx; apply in_map_iff in Hx;
    destruct Hx as (k & <- & _); apply Z.leb_le; lia.
Qed.

(* inversion of the translation *)
Lemma fast_of_net_mod_inv (n : mnet F) (fx : fmnet F) :
  fast_of_net_mod NF n = Ok fx -> fast_of_net NF (m_net n) = Ok (fx_net fx).
Proof.
  unfold fast_of_net_mod. destruct (fast_of_net NF (m_net n)) as [fn| | | | |]; try discriminate.
  destruct (net_lookup (m_net n)) as [k| | | | |]; try discriminate.
  destruct (mods_of k (m_ctrl n)) as [ms| | | | |]; try discriminate.
  intros H. injection H as <-. reflexivity.
Qed.

Section Roundtrip.
Hypothesis type_of_name_of : forall c n, name_of c = Ok n -> type_of n = Ok c.
Hypothesis finite_zero : finite (fzero NF) = true.

(* every well-formed fast solver with modules (in particular everything fast_of_net_mod builds) with registered
   activation types (neurons and modules) and finite biases and weights: WriteModel succeeds and ReadFMNSModel
   restores the same object, modules included *)
Theorem mfmns_roundtrip_fmnet (fx : fmnet F) id name :
  fnet_ok F (fx_net fx) = true ->
  Forall (registered name_of) (f_acts (fx_net fx)) ->
  Forall (fun m => registered name_of (fmd_act m)) (fx_mods fx) ->
  forallb finite (f_biases (fx_net fx)) = true -> forallb finite (map (@fl_w F) (f_conns (fx_net fx))) = true ->
  exists d, fmns_write finite name_of (msolver_of id name (fzero NF) fx) = Ok d /\
    exists s', fmns_read type_of d = Ok s' /\ s' = msolver_of id name (fzero NF) fx /\ fmnet_of s' = fx /\
               s_id s' = id /\ s_name s' = name /\ msolver_fits s' = true.
Proof.
  intros Hok Hreg Hmreg Hb Hw.
  assert (Hwr : writable F finite name_of (msolver_of id name (fzero NF) fx)).
  { split; [exact Hreg|]. split.
    - simpl. apply Forall_forall. intros m Hm. apply in_map_iff in Hm. destruct Hm as (m0 & <- & Hm0).
      simpl. rewrite Forall_forall in Hmreg. exact (Hmreg m0 Hm0).
    - split; [exact Hb|]. exact (solver_of_floats F finite (fzero NF) (fx_net fx) finite_zero Hw). }
  destruct (fmns_roundtrip_solver F finite name_of type_of type_of_name_of _ Hwr (msolver_of_built id name (fzero NF) fx Hok))
    as (d & Hd & Hr).
  exists d. split; [exact Hd|]. exists (msolver_of id name (fzero NF) fx).
  split; [exact Hr|]. split; [reflexivity|]. split; [apply fmnet_of_msolver_of|].
  split; [reflexivity|]. split; [reflexivity|]. exact (msolver_of_fits id name (fzero NF) fx Hok).
Qed.

Variable act : Z -> F -> res F.
Variable mact : Z -> list F -> res (list F).

(* identical outputs: the restored solver, fresh from ReadFMNSModel, run through ANY sequence of operations, gives at
   every operation the result and the ReadOutputs() of the original solver run from its initial state, and of the
   original solver flushed after any history (C13, ModSpecFast) *)
Theorem mfmns_outputs_equal (n : mnet F) (fx : fmnet F) id name :
  fast_of_net_mod NF n = Ok fx ->
  Forall (registered name_of) (f_acts (fx_net fx)) ->
  Forall (fun m => registered name_of (fmd_act m)) (fx_mods fx) ->
  forallb finite (f_biases (fx_net fx)) = true -> forallb finite (map (@fl_w F) (f_conns (fx_net fx))) = true ->
  exists d s', fmns_write finite name_of (msolver_of id name (fzero NF) fx) = Ok d /\ fmns_read type_of d = Ok s' /\
    s_modules s' = map smodule_of (fx_mods fx) /\
    (forall ops : list (op F),
       mfast_trace NF act mact (fmnet_of s') (mfast_init NF (fmnet_of s')) ops =
       mfast_trace NF act mact fx (mfast_init NF fx) ops) /\
    (forall h ops : list (op F),
       mfast_trace NF act mact (fmnet_of s') (mfast_init NF (fmnet_of s')) ops =
       mfast_trace NF act mact fx (fst (fast_flush NF (fx_net fx) (mfast_run NF act mact fx (mfast_init NF fx) h))) ops).
Proof.
  intros H Hreg Hmreg Hb Hw.
  pose proof (fast_of_net_mod_inv n fx H) as Hfn.
  destruct (mfmns_roundtrip_fmnet fx id name (fast_of_net_ok F NF _ _ Hfn) Hreg Hmreg Hb Hw)
    as (d & Hd & s' & Hr & Hs & Hfx & _).
  exists d, s'. split; [exact Hd|]. split; [exact Hr|]. split; [rewrite Hs; reflexivity|].
  rewrite Hfx. split; [reflexivity|].
  intros h ops. symmetry.
  exact (mfast_flush_fresh F NF act mact fx (fast_of_net_sensor_le F NF _ _ Hfn) h ops).
Qed.
End Roundtrip.

End ModSpecFmns.
