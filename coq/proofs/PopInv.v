(* C02: one epoch preserves the population invariant [Part], conserves the population size,
   replaces every organism, never reuses a species id and ages the species by the novel rule;
   NewPopulation establishes the invariant; both lift over any number of epochs. *)
From NeatModel Require Import Compat.
From NeatModel Require Import Res F64 GoRand Genome Options Insert Dup Mutate Mate Population MonadLemmas
     PopBase PopPrepare PopRepro PopFinal SpawnSpec.
From Coq Require Import Lia Permutation.

(* ---------- what one successful epoch guarantees ---------- *)
Record epoch_post (o : options) (p p' : population) : Prop := {
  ep_part : Part p';
  ep_clean : Fresh p';
  ep_size : zlen (p_orgs p') = o_pop_size o;
  ep_fresh : forall k, In k (p_orgs p') -> p_next_key p <= k;
  ep_key : p_next_key p <= p_next_key p';
  ep_last : p_last_species p <= p_last_species p';
  ep_aged : forall s', In s' (p_species p') -> sp_id s' <= p_last_species p ->
            exists s0, In s0 (p_species p) /\ sp_id s0 = sp_id s' /\
                       sp_age s' = sp_age s0 + (if sp_novel s0 then 0 else 1);
  ep_founded : forall s', In s' (p_species p') -> p_last_species p < sp_id s' -> sp_age s' = 1;
  ep_novel : forall s', In s' (p_species p') -> sp_novel s' = false;
  ep_gids : map (gid_at (p_heap p')) (p_orgs p') = zrange 0 (o_pop_size o) }.

Theorem next_epoch_step o gen p x s p' x' s' :
  next_epoch o gen p x s = Ok ((p', x'), s') -> Part p -> epoch_post o p p'.
Proof.
  unfold next_epoch. intros H HP.
  mbind H as r s1 H1 H. destruct r as [[p1 sorted] best].
  mbind H as r2 s2 H2 H. destruct r2 as [p2 x2].
  mbind H as p3 s3 H3 H. apply ret_ok in H. destruct H as [H _]. injection H as -> ->.
  pose proof (Part_Wf _ HP) as W0.
  apply prepare_ok in H1; [|exact W0|apply HP|apply HP].
  destruct H1 as [A1 A2 A3 A4 A5 A6 A7 A8 A9].
  assert (Hl1 : forall y, In y (all_sp p1) -> sp_id y <= p_last_species p1).
  { intros y Hy. rewrite A6. assert (Hi : In (sp_id y) (map sp_id (p_species p))) by (apply A8; now apply in_map).
    apply in_map_iff in Hi. destruct Hi as (z & <- & Hz). now apply HP. }
  apply reproduce_ok in H2; [|exact A1| |exact Hl1].
  2:{ rewrite A7. eapply hbound_frame; [exact A4|apply HP]. }
  destruct H2 as (babies & [B1 B2 B3 B4 B5 B6 B7 B7' B8 B9 B10 (news & B11 & B11') B12 B13]).
  assert (Hbab : forall k, In k babies <-> p_next_key p1 <= k < p_next_key p2).
  { intros k. rewrite B1. apply zrange_in. }
  apply (finalize_ok _ _ _ _ _ babies) in H3; auto.
  2:{ rewrite B5. exact B4. }
  2:{ now rewrite B5. }
  2:{ rewrite B1. apply zrange_nodup. }
  2:{ intros k Hk Hb. rewrite B5 in Hk. apply B6 in Hk. apply Hbab in Hb. lia. }
  destruct H3 as [C1 C2 C3 (l3 & C4 & C4') C4'' C5 C6].
  assert (Elen : zlen (p_orgs p') = o_pop_size o).
  { rewrite <- B2. unfold zlen. f_equal. now apply Permutation_length. }
  (* where a species of p' comes from *)
  assert (Orig : forall z', In z' (p_species p') ->
            sp_novel z' = false /\
            ((exists s0, In s0 (p_species p) /\ sp_id s0 = sp_id z' /\
                         sp_age z' = sp_age s0 + (if sp_novel s0 then 0 else 1)) \/
             (p_last_species p < sp_id z' /\ sp_age z' = 1))).
  { intros z' Hz'. rewrite C4' in Hz'. apply in_map_iff in Hz'. destruct Hz' as (y3 & <- & Hy3).
    apply filter_In in Hy3. destruct Hy3 as [Hy3 _].
    split; [unfold age1; now destruct (sp_novel y3)|].
    assert (Hm : In (meta y3) (map meta (p_species p1) ++ map meta news)).
    { rewrite <- B11, <- C4. now apply in_map. }
    apply in_app_or in Hm. destruct Hm as [Hm|Hm].
    - left. apply A5 in Hm. apply in_map_iff in Hm. destruct Hm as (s0 & Em & Hs0).
      unfold meta in Em. injection Em as E1 E2 E3. exists s0. splits; auto.
      + unfold age1. now destruct (sp_novel y3).
      + unfold age1. rewrite <- E3, <- E2. destruct (sp_novel s0); cbn; lia.
    - right. apply in_map_iff in Hm. destruct Hm as (n0 & Em & Hn0).
      rewrite Forall_forall in B11'. destruct (B11' _ Hn0) as ((F1 & F2) & F3 & F4).
      unfold meta in Em. injection Em as E1 E2 E3. rewrite A6 in F1.
      unfold age1. rewrite <- E3, F4. cbn. split; [rewrite <- E1; exact F1|now rewrite <- E2]. }
  constructor; auto.
  - intros k Hk. eapply Permutation_in in Hk; [|exact C2]. apply Hbab in Hk. lia.
  - lia.
  - lia.
  - intros z' Hz' Hle. destruct (Orig _ Hz') as [_ [Ho|[Hgt _]]]; [exact Ho|lia].
  - intros z' Hz' Hgt. destruct (Orig _ Hz') as [_ [(s0 & Hs0 & E0 & _)|[_ Ha]]]; [|exact Ha].
    assert (sp_id s0 <= p_last_species p) by now apply HP. lia.
  - intros z' Hz'. now destruct (Orig _ Hz').
  - now rewrite C3, Elen.
Qed.

(* ---------- NewPopulation ---------- *)
Lemma hget_nodup_in l x : NoDup (map o_key l) -> In x l -> hget l (o_key x) = Ok x.
Proof.
  induction l as [|y l IH]; cbn; intros Hn Hi; [contradiction|].
  inversion Hn as [|? ? Hy Hl]; subst. destruct Hi as [->|Hi]; [now rewrite Z.eqb_refl|].
  destruct (Z.eqb_spec (o_key y) (o_key x)) as [E|N]; [|auto].
  exfalso. apply Hy. rewrite E. now apply in_map.
Qed.

Lemma spawn_loop_ok n g : forall c acc,
  Post (spawn_loop n g c acc)
       (fun orgs => exists news, orgs = acc ++ news /\ map o_key news = zrange c (c + Z.of_nat n) /\
                                 map ogid news = zrange c (c + Z.of_nat n) /\
                                 Forall (fun y => o_elim y = false) news).
Proof.
  induction n as [|n IH]; intros c acc; cbn [spawn_loop].
  - apply post_ret. exists []. rewrite app_nil_r, Z.add_0_r, zrange_nil. auto.
  - apply post_bind_lift. intros d Hd.
    assert (Ed : gid d = c).
    { unfold duplicate in Hd. rbind Hd as gs Hgs. rbind Hd as ms Hms. now injection Hd as <-. }
    eapply post_bind_strong with (P := fun r => gid (fst r) = c).
    + intros s0 [g' b] s1 Hm. apply mutate_link_weights_frame in Hm. cbn. destruct Hm as (_ & E & _). congruence.
    + intros r Er s0 orgs s1 H. destruct (IH _ _ _ _ _ H) as (news & -> & K & G & Fe).
      exists (new_baby c (fst r) 1 :: news). rewrite <- app_assoc. split; [reflexivity|].
      rewrite (zrange_cons c) by lia. cbn [map]. replace (c + Z.of_nat (S n)) with (c + 1 + Z.of_nat n) by lia.
      rewrite K, G. unfold ogid. cbn. rewrite Er. splits; auto.
Qed.

Record spawned (o : options) (p : population) : Prop := {
  sw_part : Part p;
  sw_clean : Fresh p;
  sw_size : zlen (p_orgs p) = o_pop_size o;
  sw_orgs : p_orgs p = zrange 0 (o_pop_size o);
  sw_gids : map (gid_at (p_heap p)) (p_orgs p) = zrange 0 (o_pop_size o);
  sw_species : forall y, In y (p_species p) -> sp_age y = 1 /\ sp_novel y = true /\ 1 <= sp_id y;
  sw_key : p_next_key p = o_pop_size o }.

Theorem new_population_ok o g s p s' : new_population o g s = Ok (p, s') -> spawned o p.
Proof.
  unfold new_population. destruct (Z.leb_spec (o_pop_size o) 0) as [|Hpos]; [discriminate|]. intros H.
  mbind H as orgs s1 Hsp H. apply spawn_loop_ok in Hsp. destruct Hsp as (news & E & K & G & Fe). cbn in E. subst news.
  rewrite Z2Nat.id, Z.add_0_l in K, G by lia.
  mbind H as ln s2 H1 H. mbind H as ni s3 H2 H. mbind H as u s4 H3 H.
  apply lift_ok in H. destruct H as [H _]. unfold speciate in H.
  rewrite K in H. destruct (zrange 0 (o_pop_size o)) as [|k0 ks0] eqn:Ek; [discriminate|]. rewrite <- Ek in *. clear Ek k0 ks0.
  set (n := o_pop_size o) in *.
  set (p0 := {| p_species := []; p_detached := []; p_orgs := zrange 0 n; p_heap := orgs; p_last_species := 0;
                p_highest := 0%float; p_epochs_highest := 0; p_next_key := n |}) in *.
  assert (Hn : NoDup (map o_key orgs)) by (rewrite K; apply zrange_nodup).
  assert (W0 : Wf (all_sp p0) (p_heap p0) (fun _ => False)).
  { constructor; cbn; try tauto. constructor. }
  destruct (speciate_loop_ok _ _ _ _ _ H W0) as [W1 [S1 S2 S3 S3' S4 S5 (nw & S6 & S6') S7 S8 S9 S10]].
  { tauto. } { apply zrange_nodup. } { intros y []. }
  cbn in *.
  assert (Eall : all_sp p = p_species p) by (unfold all_sp; now rewrite S7, app_nil_r).
  assert (Eg0 : map (gid_at orgs) (zrange 0 n) = zrange 0 n).
  { rewrite <- K at 1. rewrite map_map. rewrite <- G. apply map_ext_in. intros z Hz. unfold gid_at.
    now rewrite (hget_nodup_in _ _ Hn Hz). }
  assert (Eg : map (gid_at (p_heap p)) (zrange 0 n) = zrange 0 n).
  { rewrite <- Eg0 at 2. apply map_ext. intros k. now apply gid_at_frame. }
  constructor.
  - apply Wf_Part; rewrite ?S8.
    + rewrite <- Eall. eapply Wf_iff; [exact W1|]. intros k. cbn. tauto.
    + apply zrange_nodup.
    + rewrite <- Eall. exact S2.
    + apply S10. intros y [].
    + rewrite Eg. apply zrange_nodup.
    + rewrite S9. eapply (hbound_frame ogid); [exact S3|]. intros k z Hz.
      pose proof (hget_key _ _ _ Hz) as Hk. apply hget_in in Hz.
      assert (Hi : In (o_key z) (map o_key orgs)) by now apply in_map.
      rewrite K in Hi. apply zrange_in in Hi. lia.
    + exact S7.
  - intros k z Hk Hz. pose proof (hview_get o_elim _ _ _ Hz) as V. rewrite S3' in V.
    apply hview_some in V. destruct V as (z0 & Hz0 & <-). apply hget_in in Hz0.
    rewrite Forall_forall in Fe. now apply Fe.
  - rewrite S8. unfold zlen. rewrite zrange_length. lia.
  - exact S8.
  - rewrite S8. exact Eg.
  - intros y Hy. assert (Hm : In (meta y) (map meta nw)) by (rewrite <- S6; now apply in_map).
    apply in_map_iff in Hm. destruct Hm as (n0 & Em & Hn0). rewrite Forall_forall in S6'.
    destruct (S6' _ Hn0) as ((F1 & F2) & F3 & F4). unfold meta in Em. injection Em as E1 E2 E3.
    splits; try congruence. lia.
  - exact S9.
Qed.

(* ---------- the evaluator only writes fitness values ---------- *)
Lemma set_fitness_ok : forall ks fs h h',
  set_fitness h ks fs = Ok h' -> hframe o_species h h' /\ hframe ogid h h' /\ hframe o_elim h h'.
Proof.
  induction ks as [|k ks IH]; intros fs h h' H; cbn [set_fitness] in H.
  - injection H as <-. splits; apply hframe_refl.
  - destruct fs as [|f fs]; [injection H as <-; splits; apply hframe_refl|].
    rbind H as x Hx. pose proof (hget_key _ _ _ Hx) as Ek. apply IH in H. destruct H as (F1 & F2 & F3). splits.
    + eapply hframe_trans; [|exact F1]. apply (hframe_hset_get o_species _ x); [|reflexivity]. cbn. now rewrite Ek.
    + eapply hframe_trans; [|exact F2]. apply (hframe_hset_get ogid _ x); [|reflexivity]. cbn. now rewrite Ek.
    + eapply hframe_trans; [|exact F3]. apply (hframe_hset_get o_elim _ x); [|reflexivity]. cbn. now rewrite Ek.
Qed.

Lemma Part_frame p h' :
  Part p -> hframe o_species (p_heap p) h' -> hframe ogid (p_heap p) h' -> Part (p_with_heap p h').
Proof.
  intros HP F1 F2. pose proof (Part_Wf _ HP) as W. apply Wf_Part; cbn; try apply HP.
  - eapply Wf_ext; [exact W|now apply hframe_ext].
  - replace (map (gid_at h') (p_orgs p)) with (map (gid_at (p_heap p)) (p_orgs p)); [apply HP|].
    apply map_ext. intros k. symmetry. now apply gid_at_frame.
  - eapply hbound_frame; [exact F1|apply HP].
Qed.

Theorem set_fitness_part p fs h' : Part p -> set_fitness (p_heap p) (p_orgs p) fs = Ok h' -> Part (p_with_heap p h').
Proof. intros HP H. apply set_fitness_ok in H. destruct H as (F1 & F2 & _). now apply Part_frame. Qed.

Theorem set_fitness_fresh p fs h' : Fresh p -> set_fitness (p_heap p) (p_orgs p) fs = Ok h' -> Fresh (p_with_heap p h').
Proof.
  intros Fr H. apply set_fitness_ok in H. destruct H as (_ & _ & F3). intros k x Hk Hx. cbn in Hk, Hx.
  pose proof (hview_get o_elim _ _ _ Hx) as V. rewrite F3 in V. apply hview_some in V.
  destruct V as (y & Hy & <-). eapply Fr; eauto.
Qed.

(* ---------- any number of epochs ---------- *)
(* one entry per epoch: the fitness values the evaluator assigns (in Population.Organisms order) and
   the generation number passed to NextEpoch *)
Fixpoint run_epochs (o : options) (steps : list (list float * Z)) (p : population) (x : executor) (s : st)
  : res (population * executor * st) :=
  match steps with
  | [] => Ok (p, x, s)
  | (fs, gen) :: rest =>
    do h <- set_fitness (p_heap p) (p_orgs p) fs;
    do r <- next_epoch o gen (p_with_heap p h) x s;
    let '((p', x'), s') := r in run_epochs o rest p' x' s'
  end.

Record history_post (o : options) (n : nat) (p p' : population) : Prop := {
  hp_part : Part p';
  hp_clean : Fresh p -> Fresh p';
  hp_size : n <> O -> zlen (p_orgs p') = o_pop_size o;
  hp_gids : n <> O -> map (gid_at (p_heap p')) (p_orgs p') = zrange 0 (o_pop_size o);
  hp_fresh : n <> O -> forall k, In k (p_orgs p') -> p_next_key p <= k;
  hp_key : p_next_key p <= p_next_key p';
  hp_last : p_last_species p <= p_last_species p';
  (* a species id at or below the old counter that is in use afterwards was in use before: ids
     are never handed out twice, and a species that died stays dead *)
  hp_aged : forall s', In s' (p_species p') -> sp_id s' <= p_last_species p ->
            exists s0, In s0 (p_species p) /\ sp_id s0 = sp_id s' /\
                       sp_age s' = sp_age s0 + Z.of_nat n - (if sp_novel s0 then Z.min 1 (Z.of_nat n) else 0);
  hp_founded : forall s', In s' (p_species p') -> p_last_species p < sp_id s' -> 1 <= sp_age s' <= Z.of_nat n }.

Theorem run_epochs_ok o steps : forall p x s p' x' s',
  run_epochs o steps p x s = Ok (p', x', s') -> Part p ->
  (forall y, In y (p_species p) -> 1 <= sp_age y) ->
  history_post o (length steps) p p' /\ (forall y, In y (p_species p') -> 1 <= sp_age y).
Proof.
  induction steps as [|[fs gen] rest IH]; intros p x st0 p' x' st1 H HP Hage; cbn [run_epochs] in H.
  - injection H as <- _ _. split; [|exact Hage]. constructor; auto; try lia; try tauto.
    + intros s' Hs' _. exists s'. splits; auto. cbn. destruct (sp_novel s'); lia.
    + intros s' Hs' Hgt. assert (sp_id s' <= p_last_species p) by now apply HP. lia.
  - rbind H as h Hh. rbind H as r Hr. destruct r as [[p1 x1] s1].
    pose proof (set_fitness_part _ _ _ HP Hh) as HP0.
    apply next_epoch_step in Hr; [|exact HP0]. cbn in Hr.
    destruct Hr as [E1 E1' E2 E3 E4 E5 E6 E7 E8 E9]. cbn in *.
    assert (Hage1 : forall y, In y (p_species p1) -> 1 <= sp_age y).
    { intros y Hy. destruct (Z.le_gt_cases (sp_id y) (p_last_species p)) as [Hle|Hgt].
      - destruct (E6 _ Hy Hle) as (s0 & Hs0 & _ & Ea). specialize (Hage _ Hs0). destruct (sp_novel s0); lia.
      - rewrite (E7 _ Hy); lia. }
    destruct (IH _ _ _ _ _ _ H E1 Hage1) as [[I1 I1' I2 I3 I4 I5 I6 I7 I8] Hage'].
    split; [|exact Hage']. constructor; auto.
    + intros _. destruct rest as [|st rest']; [|apply I2; discriminate]. cbn in H. now injection H as <- _ _.
    + intros _. destruct rest as [|st rest']; [|apply I3; discriminate]. cbn in H. now injection H as <- _ _.
    + intros _ k Hk. destruct rest as [|st rest'].
      * cbn in H. injection H as <- _ _. now apply E3.
      * assert (p_next_key p1 <= k) by (apply I4; [discriminate|assumption]). lia.
    + lia.
    + lia.
    + intros s'' Hs'' Hle.
      destruct (I7 _ Hs'') as (s1' & Hs1 & Eid & Ea); [lia|].
      destruct (E6 _ Hs1) as (s0 & Hs0 & Eid0 & Ea0); [lia|].
      exists s0. splits; auto; [congruence|]. rewrite (E8 _ Hs1) in Ea. cbn [length].
      destruct (sp_novel s0); lia.
    + intros s'' Hs'' Hgt. cbn [length].
      destruct (Z.le_gt_cases (sp_id s'') (p_last_species p1)) as [Hle|Hgt1].
      * destruct (I7 _ Hs'' Hle) as (s1' & Hs1 & Eid & Ea). rewrite (E8 _ Hs1) in Ea.
        rewrite (E7 _ Hs1) in Ea by lia. lia.
      * specialize (I8 _ Hs'' Hgt1). lia.
Qed.

(* ---------- statements in conjunction form (for props/C02.v) ---------- *)
Lemma Part_orgs_lt p k : Part p -> In k (p_orgs p) -> k < p_next_key p.
Proof. intros HP Hk. destruct (part_heap _ HP k Hk) as (x & Hx & _). eapply part_bound; eauto. Qed.

Lemma Part_unfold p :
  Part p <->
  (NoDup (p_orgs p) /\
   (forall k, In k (p_orgs p) -> exists x, hget (p_heap p) k = Ok x /\ o_key x = k) /\
   NoDup (map sp_id (p_species p)) /\
   (forall s, In s (p_species p) -> sp_id s <= p_last_species p) /\
   (forall s, In s (p_species p) -> sp_orgs s <> []) /\
   NoDup (concat (map sp_orgs (p_species p))) /\
   (forall s k, In s (p_species p) -> In k (sp_orgs s) -> In k (p_orgs p)) /\
   (forall k x, In k (p_orgs p) -> hget (p_heap p) k = Ok x ->
                exists s, In s (p_species p) /\ sp_id s = o_species x /\ In k (sp_orgs s)) /\
   NoDup (map (gid_at (p_heap p)) (p_orgs p)) /\
   (forall k x, hget (p_heap p) k = Ok x -> k < p_next_key p) /\
   p_detached p = []).
Proof.
  split.
  - intros [P1 P2 P3 P4 P5 P6 P7 P8 P9 P10 P11]. splits; auto.
  - intros (P1 & P2 & P3 & P4 & P5 & P6 & P7 & P8 & P9 & P10 & P11). constructor; auto.
Qed.

Theorem next_epoch_step_full o gen p x s p' x' s' :
  next_epoch o gen p x s = Ok ((p', x'), s') -> Part p ->
  Part p' /\ Fresh p' /\ zlen (p_orgs p') = o_pop_size o /\
  (forall k, In k (p_orgs p') -> p_next_key p <= k /\ ~ In k (p_orgs p)) /\
  p_last_species p <= p_last_species p' /\
  (forall s1, In s1 (p_species p') -> sp_id s1 <= p_last_species p ->
     exists s0, In s0 (p_species p) /\ sp_id s0 = sp_id s1 /\
                sp_age s1 = sp_age s0 + (if sp_novel s0 then 0 else 1)) /\
  (forall s1, In s1 (p_species p') -> p_last_species p < sp_id s1 -> sp_age s1 = 1) /\
  (forall s1, In s1 (p_species p') -> sp_novel s1 = false) /\
  map (gid_at (p_heap p')) (p_orgs p') = zrange 0 (o_pop_size o).
Proof.
  intros H HP. destruct (next_epoch_step _ _ _ _ _ _ _ _ H HP) as [E1 E1' E2 E3 E4 E5 E6 E7 E8 E9].
  splits; auto. intros k Hk. split; [now apply E3|]. intros Ho. apply (Part_orgs_lt _ _ HP) in Ho.
  specialize (E3 _ Hk). lia.
Qed.

Theorem new_population_full o g s p s' :
  new_population o g s = Ok (p, s') ->
  Part p /\ Fresh p /\ zlen (p_orgs p) = o_pop_size o /\
  map (gid_at (p_heap p)) (p_orgs p) = zrange 0 (o_pop_size o) /\
  (forall y, In y (p_species p) -> sp_age y = 1 /\ sp_novel y = true /\ 1 <= sp_id y).
Proof. intros H. destruct (new_population_ok _ _ _ _ _ H). splits; auto. Qed.

Theorem run_epochs_full o steps p x s p' x' s' :
  run_epochs o steps p x s = Ok (p', x', s') -> Part p ->
  (forall y, In y (p_species p) -> 1 <= sp_age y) ->
  Part p' /\ (Fresh p -> Fresh p') /\
  (steps <> [] -> zlen (p_orgs p') = o_pop_size o /\
                  map (gid_at (p_heap p')) (p_orgs p') = zrange 0 (o_pop_size o) /\
                  forall k, In k (p_orgs p') -> p_next_key p <= k /\ ~ In k (p_orgs p)) /\
  p_last_species p <= p_last_species p' /\
  (forall s1, In s1 (p_species p') -> sp_id s1 <= p_last_species p ->
     exists s0, In s0 (p_species p) /\ sp_id s0 = sp_id s1 /\
                sp_age s1 = sp_age s0 + Z.of_nat (length steps)
                            - (if sp_novel s0 then Z.min 1 (Z.of_nat (length steps)) else 0)) /\
  (forall s1, In s1 (p_species p') -> p_last_species p < sp_id s1 ->
     1 <= sp_age s1 <= Z.of_nat (length steps)) /\
  (forall y, In y (p_species p') -> 1 <= sp_age y).
Proof.
  intros H HP Hage. destruct (run_epochs_ok _ _ _ _ _ _ _ _ H HP Hage) as [[I1 I1' I2 I3 I4 I5 I6 I7 I8] Hage'].
  assert (Hne : steps <> [] -> length steps <> O) by (destruct steps; [tauto|discriminate]).
  splits; auto. intros Hs. specialize (Hne Hs). splits; auto.
  intros k Hk. split; [now apply I4|]. intros Ho. apply (Part_orgs_lt _ _ HP) in Ho.
  specialize (I4 Hne _ Hk). lia.
Qed.

Lemma is_ok_pair {A B} (r : res (A * B)) : is_ok r = true -> exists a b, r = Ok (a, b).
Proof. destruct r as [[a b]| | | | |]; try discriminate. eauto. Qed.
