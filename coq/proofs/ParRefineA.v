(* C16, Part III, the missing link: the sequential model's per-species reproduction IS a program
   over the four shared primitives of proofs/ParStep.v.

   This file: the framework.
     - [env_indep m]: a monadic computation neither reads nor changes the innovation environment
       (a noninterference statement; closed under the monad operations, holds for every tape
       primitive).  Everything in model/Mutate.v, Mate.v, Population.v on the call path of
       [reproduce_species] except the three structural mutators and their callers is of this kind.
     - [P A = tape -> prog (res (A * tape))]: programs over the four primitives whose thread-local
       part owns the random tape; a monad ([pret], [pbindT]) with the embedding [ppure] of
       environment-independent computations and the four primitives [p_innovs], [p_next_innov],
       [p_next_node], [p_store].
     - [Factors m p]: the monadic computation [m] is the in-order execution ([run_seq]) of [p].
       Compositional: one rule per construct.
     - ownership: [okq Q o p] generalises ParStep.ok_prog by a postcondition on (result, ownership),
       [HP o p Q] is the Hoare triple on [P]-programs, [OkAll p] = "disciplined under every
       ownership", which is what composes through [pbindT] without any side condition. *)
From NeatModel Require Import Res F64 GoRand Genome Options Insert Dup Mutate Mate Population WF ParStep.
From Coq Require Import Lia Permutation.

(* ====================== environment independence ====================== *)
Definition rebase {A} (e : ienv) (r : res (A * st)) : res (A * st) :=
  match r with
  | Ok (a, s) => Ok (a, {| s_tape := s_tape s; s_env := e |})
  | GoErr c => GoErr c | GoPanic c => GoPanic c
  | OutOfTape => OutOfTape | OutOfFuel => OutOfFuel | BadOracle => BadOracle
  end.

(* whatever environment the run starts in, the result and the tape left are the same, and the
   environment comes back untouched *)
Definition env_indep {A} (m : @M st A) : Prop :=
  forall t e e', m {| s_tape := t; s_env := e |} = rebase e (m {| s_tape := t; s_env := e' |}).

Lemma ei_ret {A} (a : A) : env_indep (ret a).
Proof. intros t e e'. reflexivity. Qed.
Lemma ei_lift {A} (r : res A) : env_indep (lift r).
Proof. intros t e e'. unfold lift. destruct r; reflexivity. Qed.
Lemma ei_fail_err {A} c : env_indep (@fail_err st A c).
Proof. intros t e e'. reflexivity. Qed.
Lemma ei_fail_panic {A} c : env_indep (@fail_panic st A c).
Proof. intros t e e'. reflexivity. Qed.
Lemma ei_out_of_tape {A} : env_indep (fun _ : st => @OutOfTape (A * st)).
Proof. intros t e e'. reflexivity. Qed.
Lemma ei_out_of_fuel {A} : env_indep (fun _ : st => @OutOfFuel (A * st)).
Proof. intros t e e'. reflexivity. Qed.
Lemma ei_on_tape {A} (f : tape -> res (A * tape)) : env_indep (on_tape f).
Proof. intros t e e'. unfold on_tape. cbn [s_tape s_env]. destruct (f t) as [[a t']| | | | |]; reflexivity. Qed.
Lemma ei_tape_len : env_indep tape_len.
Proof. intros t e e'. reflexivity. Qed.

Lemma ei_bind {A B} (m : @M st A) (f : A -> @M st B) :
  env_indep m -> (forall a, env_indep (f a)) -> env_indep (bindM m f).
Proof.
  intros Hm Hf t e e'. unfold bindM. rewrite (Hm t e e').
  destruct (m {| s_tape := t; s_env := e' |}) as [[a [t1 e1]]| | | | |]; cbn [rebase s_tape]; try reflexivity.
  apply Hf.
Qed.

Lemma ei_r_float64 : env_indep r_float64.
Proof. apply ei_on_tape. Qed.
Lemma ei_r_float32 : env_indep r_float32.
Proof. apply ei_on_tape. Qed.
Lemma ei_r_intn n : env_indep (r_intn n).
Proof. apply ei_on_tape. Qed.
Lemma ei_r_randsign : env_indep r_randsign.
Proof. apply ei_on_tape. Qed.
Lemma ei_r_int31n n : env_indep (r_int31n n).
Proof. unfold r_int31n. destruct (Z.leb n 0); [apply ei_fail_panic | apply ei_on_tape]. Qed.

Create HintDb ei.
#[export] Hint Resolve ei_ret ei_lift ei_fail_err ei_fail_panic ei_out_of_tape ei_out_of_fuel ei_on_tape ei_tape_len
  ei_r_float64 ei_r_float32 ei_r_intn ei_r_randsign ei_r_int31n : ei.

(* the closure tactic (same shape as TapeLocal.tl_auto) *)
Ltac ei_step :=
  lazymatch goal with
  | |- forall _, _ => intro
  | |- env_indep (bindM _ _) => apply ei_bind; [ | intro; cbv beta ]
  | |- env_indep (let _ := _ in _) => cbv zeta
  | |- env_indep (match ?x with _ => _ end) => destruct x
  | |- env_indep ((fun _ => _) _) => cbv beta
  end.
Ltac ei_auto := repeat first [ solve [ eauto 3 with ei ] | ei_step ].

(* the predicate has teeth: none of the three counter/record operations is environment independent,
   and neither is the read *)
Lemma e_next_innov_not_indep : ~ env_indep e_next_innov.
Proof.
  intros H. specialize (H [] {| innovs := []; next_innov := 0; next_node := 0 |}
                          {| innovs := []; next_innov := 1; next_node := 0 |}). discriminate.
Qed.
Lemma e_innovs_not_indep : ~ env_indep e_innovs.
Proof.
  intros H.
  specialize (H [] {| innovs := []; next_innov := 0; next_node := 0 |}
                {| innovs := [ {| i_type := 2; i_in := 0; i_out := 0; i_num := 0; i_num2 := 0; i_w := 0%float;
                                  i_trait := 0; i_node := 0; i_old := 0; i_rec := false |} ];
                   next_innov := 0; next_node := 0 |}). discriminate.
Qed.

(* ====================== the program monad ====================== *)
Definition P (A : Type) : Type := tape -> prog (res (A * tape)).

Definition pret {A} (a : A) : P A := fun t => Ret (Ok (a, t)).

(* what to do with the result of the first half: go on, or stop with the same failure *)
Definition pcont {A B} (q : A -> P B) (r : res (A * tape)) : prog (res (B * tape)) :=
  match r with
  | Ok (a, t') => q a t'
  | GoErr c => Ret (GoErr c) | GoPanic c => Ret (GoPanic c)
  | OutOfTape => Ret OutOfTape | OutOfFuel => Ret OutOfFuel | BadOracle => Ret BadOracle
  end.

Definition pbindT {A B} (p : P A) (q : A -> P B) : P B := fun t => pbind (p t) (pcont q).

Notation "'let?' x ':=' m 'in' k" := (pbindT m (fun x => k))
  (at level 200, x pattern, m at level 100, k at level 200, right associativity).
Notation "'exec?' m ';;' k" := (pbindT m (fun _ => k))
  (at level 200, m at level 100, k at level 200, right associativity).

(* thread-local computation: run it on the thread's own tape (the environment it is given is
   irrelevant by [env_indep]; a fixed empty one is passed) *)
Definition env0 : ienv := {| innovs := []; next_innov := 0; next_node := 0 |}.

Definition strip {A} (r : res (A * st)) : res (A * tape) :=
  match r with
  | Ok (a, s) => Ok (a, s_tape s)
  | GoErr c => GoErr c | GoPanic c => GoPanic c
  | OutOfTape => OutOfTape | OutOfFuel => OutOfFuel | BadOracle => BadOracle
  end.

Definition ppure {A} (m : @M st A) : P A := fun t => Ret (strip (m {| s_tape := t; s_env := env0 |})).

(* the four shared primitives *)
Definition p_innovs : P (list innovation) := fun t => Innovations (fun l => Ret (Ok (l, t))).
Definition p_next_innov : P Z := fun t => NextInnov (fun v => Ret (Ok (v, t))).
Definition p_next_node : P Z := fun t => NextNode (fun v => Ret (Ok (v, t))).
Definition p_store (i : innovation) : P unit := fun t => Store i (Ret (Ok (tt, t))).

Fixpoint pfoldM {A B} (f : B -> A -> P B) (l : list A) (b : B) : P B :=
  match l with
  | [] => pret b
  | x :: l' => let? b' := f b x in pfoldM f l' b'
  end.

(* ====================== [m] is the in-order execution of [p] ====================== *)
(* exactly the reading of a program result used in props/C16.v (C16_full) *)
Definition interp {A} (x : ienv * (res (A * tape) + Z)) : res (A * st) :=
  match x with
  | (e', inl (Ok (r, t'))) => Ok (r, {| s_tape := t'; s_env := e' |})
  | (_, inl (GoErr c)) => GoErr c
  | (_, inl (GoPanic c)) => GoPanic c
  | (_, inl OutOfTape) => OutOfTape
  | (_, inl OutOfFuel) => OutOfFuel
  | (_, inl BadOracle) => BadOracle
  | (_, inr c) => GoErr c
  end.

Definition Factors {A} (m : @M st A) (p : P A) : Prop :=
  forall t e, m {| s_tape := t; s_env := e |} = interp (run_seq (p t) e).

Lemma run_seq_pbind {A B} (p : prog A) (f : A -> prog B) : forall e,
    run_seq (pbind p f) e =
    match run_seq p e with
    | (e', inl a) => run_seq (f a) e'
    | (e', inr c) => (e', inr c)
    end.
Proof. induction p as [a|c|k IH|k IH|k IH|i k IH]; intros e; simpl; auto. Qed.

Lemma F_ret {A} (a : A) : Factors (ret a) (pret a).
Proof. intros t e. reflexivity. Qed.

Lemma F_pure {A} (m : @M st A) : env_indep m -> Factors m (ppure m).
Proof.
  intros H t e. unfold ppure. cbn [run_seq]. rewrite (H t e env0).
  destruct (m {| s_tape := t; s_env := env0 |}) as [[a [t1 e1]]| | | | |]; reflexivity.
Qed.

Lemma F_bind {A B} (m : @M st A) (f : A -> @M st B) (p : P A) (q : A -> P B) :
  Factors m p -> (forall a, Factors (f a) (q a)) -> Factors (bindM m f) (pbindT p q).
Proof.
  intros Hm Hf t e. unfold bindM, pbindT. rewrite (Hm t e). rewrite run_seq_pbind.
  destruct (run_seq (p t) e) as [e1 [[[a t1]|c|c| | | ]|c]]; cbn [interp pcont run_seq]; try reflexivity.
  apply Hf.
Qed.

Lemma F_innovs : Factors e_innovs p_innovs.
Proof. intros t e. reflexivity. Qed.
Lemma F_next_innov : Factors e_next_innov p_next_innov.
Proof. intros t e. reflexivity. Qed.
Lemma F_next_node : Factors e_next_node p_next_node.
Proof. intros t e. reflexivity. Qed.
Lemma F_store i : Factors (e_store i) (p_store i).
Proof. intros t e. reflexivity. Qed.

Lemma F_foldM {A B} (f : B -> A -> @M st B) (pf : B -> A -> P B) (l : list A) :
  (forall b x, Factors (f b x) (pf b x)) -> forall b, Factors (foldM f l b) (pfoldM pf l b).
Proof.
  intros Hf. induction l as [|x l IH]; intros b; cbn [foldM pfoldM].
  - apply F_ret.
  - apply F_bind; [apply Hf|apply IH].
Qed.

(* one step of the structural proof: model code and program have the same shape *)
Ltac fac_step :=
  lazymatch goal with
  | |- forall _, _ => intro
  | |- Factors (bindM _ _) (pbindT _ _) => apply F_bind; [ | intro; cbv beta ]
  | |- Factors (ret _) (pret _) => apply F_ret
  | |- Factors _ (ppure _) => apply F_pure; ei_auto
  | |- Factors e_innovs p_innovs => apply F_innovs
  | |- Factors e_next_innov p_next_innov => apply F_next_innov
  | |- Factors e_next_node p_next_node => apply F_next_node
  | |- Factors (e_store _) (p_store _) => apply F_store
  | |- Factors (let _ := _ in _) _ => cbv zeta
  | |- Factors (match ?x with _ => _ end) _ => destruct x
  | |- Factors ((fun _ => _) _) _ => cbv beta
  end.
Create HintDb fac.
Ltac fac_auto := repeat first [ solve [ eauto 2 with fac ] | fac_step ].

(* ====================== ownership with a postcondition ====================== *)
Inductive okq {A} (Q : A -> own -> Prop) : own -> prog A -> Prop :=
| okq_ret : forall o a, Q a o -> okq Q o (Ret a)
| okq_fail : forall o c, okq Q o (Fail c)
| okq_read : forall o k, (forall l, okq Q o (k l)) -> okq Q o (Innovations k)
| okq_innov : forall oi on k, (forall v, okq Q (v :: oi, on) (k v)) -> okq Q (oi, on) (NextInnov k)
| okq_node : forall oi on k, (forall v, okq Q (oi, v :: on) (k v)) -> okq Q (oi, on) (NextNode k)
| okq_store : forall oi oi' on i k,
    Permutation oi (inn_nums i ++ oi') ->
    (i_type i = 1 -> In (i_node i) on) ->
    okq Q (oi', on) k -> okq Q (oi, on) (Store i k).

(* forgetting the postcondition gives ParStep's discipline *)
Lemma okq_ok_prog {A} (Q : A -> own -> Prop) (p : prog A) : forall o, okq Q o p -> ok_prog o p.
Proof.
  induction p as [a|c|k IH|k IH|k IH|i k IH]; intros o H; inversion H; subst.
  - constructor.
  - constructor.
  - constructor. intros l. apply IH. auto.
  - constructor. intros v. apply IH. auto.
  - constructor. intros v. apply IH. auto.
  - econstructor; eauto.
Qed.

Lemma ok_prog_okq {A} (p : prog A) : forall o, ok_prog o p -> okq (fun _ _ => True) o p.
Proof.
  induction p as [a|c|k IH|k IH|k IH|i k IH]; intros o H; inversion H; subst.
  - constructor. exact I.
  - constructor.
  - constructor. intros l. apply IH. auto.
  - constructor. intros v. apply IH. auto.
  - constructor. intros v. apply IH. auto.
  - econstructor; eauto.
Qed.

Lemma okq_bind {A B} (Q : A -> own -> Prop) (R : B -> own -> Prop) (p : prog A) (f : A -> prog B) :
  (forall a o, Q a o -> okq R o (f a)) -> forall o, okq Q o p -> okq R o (pbind p f).
Proof.
  intros Hf. induction p as [a|c|k IH|k IH|k IH|i k IH]; intros o Hp; simpl; inversion Hp; subst.
  - apply Hf. assumption.
  - constructor.
  - constructor. intros l. apply IH. auto.
  - constructor. intros v. apply IH. auto.
  - constructor. intros v. apply IH. auto.
  - econstructor; eauto.
Qed.

(* Hoare triples on P-programs: failures need no postcondition (the goroutine stops) *)
Definition lift_post {A} (Q : A -> own -> Prop) (r : res (A * tape)) (o : own) : Prop :=
  match r with Ok (a, _) => Q a o | _ => True end.

Definition HP {A} (o : own) (p : P A) (Q : A -> own -> Prop) : Prop :=
  forall t, okq (lift_post Q) o (p t).

Lemma HP_bind {A B} o (p : P A) (q : A -> P B) (Q : A -> own -> Prop) (R : B -> own -> Prop) :
  HP o p Q -> (forall a o', Q a o' -> HP o' (q a) R) -> HP o (pbindT p q) R.
Proof.
  intros Hp Hq t. unfold pbindT. eapply okq_bind; [|apply Hp].
  intros r o' Hr. destruct r as [[a t']|c|c| | |]; cbn [pcont lift_post] in *; try (constructor; exact I).
  apply Hq. exact Hr.
Qed.

Lemma HP_ret {A} o (a : A) : HP o (pret a) (fun a' o' => a' = a /\ o' = o).
Proof. intros t. constructor. cbn. auto. Qed.
Lemma HP_pure {A} o (m : @M st A) : HP o (ppure m) (fun _ o' => o' = o).
Proof. intros t. constructor. unfold lift_post. destruct (strip _) as [[a t']| | | | |]; auto. Qed.
Lemma HP_innovs o : HP o p_innovs (fun _ o' => o' = o).
Proof. intros t. constructor. intros l. constructor. reflexivity. Qed.
Lemma HP_next_innov oi on : HP (oi, on) p_next_innov (fun v o' => o' = (v :: oi, on)).
Proof. intros t. constructor. intros v. constructor. reflexivity. Qed.
Lemma HP_next_node oi on : HP (oi, on) p_next_node (fun v o' => o' = (oi, v :: on)).
Proof. intros t. constructor. intros v. constructor. reflexivity. Qed.
Lemma HP_store oi oi' on i :
  Permutation oi (inn_nums i ++ oi') -> (i_type i = 1 -> In (i_node i) on) ->
  HP (oi, on) (p_store i) (fun _ o' => o' = (oi', on)).
Proof. intros H1 H2 t. econstructor; eauto. constructor. reflexivity. Qed.

(* disciplined under every ownership: composes through bind with no side condition *)
Definition OkAll {A} (p : P A) : Prop := forall o, HP o p (fun _ _ => True).

Lemma OkAll_HP {A} (p : P A) o : OkAll p -> HP o p (fun _ _ => True).
Proof. intros H. apply H. Qed.

Lemma OkAll_ok_prog {A} (p : P A) : OkAll p -> forall t o, ok_prog o (p t).
Proof. intros H t o. eapply okq_ok_prog. apply H. Qed.

Lemma OkAll_ret {A} (a : A) : OkAll (pret a).
Proof. intros o t. constructor. exact I. Qed.
Lemma OkAll_pure {A} (m : @M st A) : OkAll (ppure m).
Proof. intros o t. constructor. unfold lift_post. destruct (strip _) as [[a t']| | | | |]; exact I. Qed.
Lemma OkAll_innovs : OkAll p_innovs.
Proof. intros o t. constructor. intros l. constructor. exact I. Qed.
Lemma OkAll_bind {A B} (p : P A) (q : A -> P B) : OkAll p -> (forall a, OkAll (q a)) -> OkAll (pbindT p q).
Proof. intros Hp Hq o. eapply HP_bind; [apply Hp|]. intros a o' _. apply Hq. Qed.

Lemma OkAll_foldM {A B} (pf : B -> A -> P B) (l : list A) :
  (forall b x, OkAll (pf b x)) -> forall b, OkAll (pfoldM pf l b).
Proof.
  intros Hf. induction l as [|x l IH]; intros b; cbn [pfoldM].
  - apply OkAll_ret.
  - apply OkAll_bind; [apply Hf|apply IH].
Qed.

Create HintDb okall.
#[export] Hint Resolve OkAll_ret OkAll_pure OkAll_innovs : okall.

(* inside an allocate...store block: track the ownership exactly *)
Ltac hp_prim :=
  lazymatch goal with
  | |- HP (_, _) p_next_innov _ => apply HP_next_innov
  | |- HP (_, _) p_next_node _ => apply HP_next_node
  | |- HP _ (ppure _) _ => apply HP_pure
  | |- HP _ p_innovs _ => apply HP_innovs
  end.
(* [hp_step v]: one bind whose first half is a primitive or thread-local; names the bound value *)
Ltac hp_step v :=
  cbv zeta;
  lazymatch goal with
  | |- HP _ (pbindT _ _) _ =>
    eapply HP_bind; [ hp_prim | let o' := fresh "o" in let E := fresh "E" in
                                intros v o' E; cbv beta in E; subst o' ]
  end.
(* [hp_store oi']: the store consumes owned numbers, [oi'] is what remains *)
Ltac hp_store oi' :=
  cbv zeta;
  lazymatch goal with
  | |- HP (?oi, ?on) (pbindT (p_store _) _) _ =>
    eapply HP_bind; [ apply (HP_store oi oi' on) | let u := fresh "u" in let o' := fresh "o" in let E := fresh "E" in
                                                   intros u o' E; cbv beta in E; subst o' ]
  end.

Ltac ok_step :=
  lazymatch goal with
  | |- forall _, _ => intro
  | |- OkAll (pbindT p_next_innov _) => fail
  | |- OkAll (pbindT p_next_node _) => fail
  | |- OkAll (pbindT (p_store _) _) => fail
  | |- OkAll (pbindT _ _) => apply OkAll_bind; [ | intro; cbv beta ]
  | |- OkAll (let _ := _ in _) => cbv zeta
  | |- OkAll (match ?x with _ => _ end) => destruct x
  | |- OkAll ((fun _ => _) _) => cbv beta
  end.
Ltac ok_auto := repeat first [ solve [ eauto 2 with okall ] | ok_step ].
