(* The crossover method draw of Species.reproduce (model: Population.one_baby):

     if rand.Float64() < MateMultipointProb { mateMultipoint }
     else if rand.Float64() < MateMultipointAvgProb/(MateMultipointAvgProb+MateSinglepointProb) { mateMultipointAvg }
     else { mateSinglePoint }

   rand.Float64() is smaller than 1 -- in the model for EVERY tape cell, genuine Int63() draw or not:
   float64(x)/2^63 lies in [-1, 1] for every integer x (F64.f_of_Z reduces modulo 2^63), and the value 1
   is resampled.  Hence single-point crossover is never chosen when

     1 <= MateMultipointProb   or   1 <= MateMultipointAvgProb/(MateMultipointAvgProb+MateSinglepointProb)

   (binary64 comparisons and arithmetic: NaN fails both; MateSinglepointProb = 0 with a finite positive
   MateMultipointAvgProb makes the quotient exactly 1; MateSinglepointProb = 0 = MateMultipointAvgProb
   makes it NaN, and then single-point crossover is chosen whenever the first draw is not below
   MateMultipointProb).  The condition is also necessary: [no_single_necessary]. *)
From Coq Require Import ZArith Reals Lra Lia Bool List.
From Flocq Require Import Core BinarySingleNaN.
From Coq Require Import Floats.
From Coq Require Uint63.
From NeatModel Require Import ActFloatBase.
From NeatModel Require Import Res F64 GoRand Genome Options Population EpochTotalDefs EpochTotalFloat MutateMonad.
Import ListNotations.
Local Open Scope Z_scope.

(* the condition on the options *)
Definition no_single (o : options) : Prop :=
  PrimFloat.leb 1%float (o_mate_multi o) = true \/
  PrimFloat.leb 1%float (PrimFloat.div (o_mate_multi_avg o) (PrimFloat.add (o_mate_multi_avg o) (o_mate_single o))) = true.

(* ---------- float64(x) for every integer x ---------- *)
Lemma of_uint63_R i :
  fin (PrimFloat.of_uint63 i) /\ (0 <= FR (PrimFloat.of_uint63 i) <= bpow radix2 63)%R.
Proof.
  pose proof (Uint63.to_Z_bounded i) as Hb. change Uint63.wB with (2 ^ 63) in Hb.
  set (m := Uint63.to_Z i) in *.
  assert (Hr : (0 <= rnd (IZR m) <= bpow radix2 63)%R).
  { split.
    - apply rnd_nonneg. apply IZR_le. lia.
    - rewrite <- (rnd_bpow 63) by lia. apply rnd_le. rewrite bpow63. apply IZR_le. lia. }
  pose proof (FP.of_int63_equiv i) as E. fold m in E.
  pose proof (binary_normalize_correct prec emax FP.Hprec FP.Hmax mode_NE m 0 false) as H.
  cbv zeta in H.
  replace (F2R (Float radix2 m 0)) with (IZR m) in H by (unfold F2R; simpl; lra).
  change (round radix2 fexp64 (round_mode mode_NE) (IZR m)) with (rnd (IZR m)) in H.
  rewrite Rlt_bool_true in H.
  - destruct H as (H1 & H2 & _). rewrite <- E in H1, H2. split; [apply fin_B; exact H2|].
    unfold FR. rewrite H1. exact Hr.
  - rewrite Rabs_pos_eq by apply Hr. apply Rle_lt_trans with (1 := proj2 Hr).
    apply bpow_lt. unfold emax. lia.
Qed.

Lemma FR_mtwo63 : FR (-0x1p+63)%float = (- bpow radix2 63)%R.
Proof.
  replace (-0x1p+63)%float with (- two63)%float by (vm_compute; reflexivity).
  rewrite FR_opp. now rewrite FR_two63.
Qed.

Lemma f_of_Z_any z : fin (f_of_Z z) /\ (- bpow radix2 63 <= FR (f_of_Z z) <= bpow radix2 63)%R.
Proof.
  assert (Hp : (0 < bpow radix2 63)%R) by apply bpow_gt_0.
  destruct z as [|p|p]; cbn [f_of_Z].
  - split; [vm_compute; reflexivity|]. change PrimFloat.zero with 0%float. rewrite FR_zero. lra.
  - destruct (of_uint63_R (Uint63.of_Z (Z.pos p))) as [F [L U]]. split; [exact F|]. lra.
  - destruct (Pos.eqb p 9223372036854775808).
    + split; [fin_c|]. rewrite FR_mtwo63. lra.
    + destruct (of_uint63_R (Uint63.of_Z (Z.pos p))) as [F [L U]]. split; [now apply fin_opp|].
      rewrite FR_opp. lra.
Qed.

(* one cell: float64(x) / 2^63 is a finite float in [-1, 1] *)
Lemma draw_any x : let f := PrimFloat.div (f_of_Z x) two63 in fin f /\ (-1 <= FR f <= 1)%R.
Proof.
  intros f. destruct (f_of_Z_any x) as (F & L & U).
  assert (Hp : (0 < bpow radix2 63)%R) by apply bpow_gt_0.
  assert (Hq : (FR (-1)%float <= FR (f_of_Z x) / FR two63 <= FR 1%float)%R).
  { rewrite FR_mone, FR_one, FR_two63. split.
    - apply Rmult_le_reg_r with (bpow radix2 63); [exact Hp|]. unfold Rdiv.
      rewrite Rmult_assoc, Rinv_l by lra. lra.
    - apply Rmult_le_reg_r with (bpow radix2 63); [exact Hp|]. unfold Rdiv.
      rewrite Rmult_assoc, Rinv_l by lra. lra. }
  assert (Hnz : FR two63 <> 0%R) by (rewrite FR_two63; lra).
  destruct (div_R (f_of_Z x) two63 F Hnz (rnd_no_overflow _ _ _ Hq)) as [E2 F2].
  split; [exact F2|]. fold f in E2. rewrite E2. apply rnd_between in Hq. rewrite FR_mone, FR_one in Hq. exact Hq.
Qed.

(* rand.Float64() is finite and below 1, on every tape *)
Lemma tape_float64_lt1 : forall t f t', tape_float64 t = Ok (f, t') -> fin f /\ (FR f < 1)%R.
Proof.
  induction t as [|x t IH]; intros f t' H; cbn [tape_float64] in H; [discriminate|].
  destruct (PrimFloat.eqb (PrimFloat.div (f_of_Z x) two63) 1) eqn:E.
  - exact (IH _ _ H).
  - inversion H; subst. destruct (draw_any x) as [F [L U]]. split; [exact F|].
    rewrite eqb_R in E by auto using fin_one. rewrite FR_one in E.
    assert (FR (PrimFloat.div (f_of_Z x) two63) <> 1%R).
    { intros C. rewrite Req_bool_true in E by exact C. discriminate. }
    lra.
Qed.

(* a finite float below 1 is below every float c with 1 <= c (c may be +Inf; it cannot be NaN) *)
Lemma lt1_ltb f c : fin f -> (FR f < 1)%R -> PrimFloat.leb 1%float c = true -> PrimFloat.ltb f c = true.
Proof.
  intros F Hlt Hc. destruct (is_finite c) eqn:Fc.
  - apply ltb_of_R; [exact F|exact Fc|].
    pose proof (leb_true_R 1%float c fin_one Fc Hc) as H1. rewrite FR_one in H1. lra.
  - assert (Fc' : BinarySingleNaN.is_finite (FP.Prim2B c) = false).
    { destruct (BinarySingleNaN.is_finite (FP.Prim2B c)) eqn:E; [|reflexivity].
      apply fin_B in E. unfold fin in E. congruence. }
    apply fin_B in F. rewrite FP.leb_equiv in Hc. rewrite FP.ltb_equiv.
    destruct (FP.Prim2B c) as [s|s| |s m e Hb]; try discriminate Fc'.
    + destruct s; [discriminate Hc|].
      destruct (FP.Prim2B f) as [s'|s'| |s' m' e' Hb']; try discriminate F; try destruct s'; reflexivity.
    + discriminate Hc.
Qed.

Lemma r_float64_below o_c s r s' :
  r_float64 s = Ok (r, s') -> PrimFloat.leb 1%float o_c = true -> PrimFloat.ltb r o_c = true.
Proof.
  intros H Hc. unfold r_float64 in H. apply on_tape_inv in H. destruct H as (t' & H & _).
  destruct (tape_float64_lt1 _ _ _ H) as [F L]. now apply lt1_ltb.
Qed.

(* the method draw never reaches its third branch *)
Lemma no_single_draw o s r3 s1 r4 s2 :
  no_single o -> r_float64 s = Ok (r3, s1) -> r_float64 s1 = Ok (r4, s2) ->
  PrimFloat.ltb r3 (o_mate_multi o) = true \/
  PrimFloat.ltb r4 (PrimFloat.div (o_mate_multi_avg o) (PrimFloat.add (o_mate_multi_avg o) (o_mate_single o))) = true.
Proof.
  intros [H|H] H3 H4; [left; eapply r_float64_below; eauto|right; eapply r_float64_below; eauto].
Qed.

(* MateSinglepointProb = 0 and a finite positive MateMultipointAvgProb: the quotient is exactly 1 *)
Lemma pos_finite a : PrimFloat.ltb 0%float a = true -> PrimFloat.ltb a infinity = true -> fin a /\ (0 < FR a)%R.
Proof.
  intros H0 H1.
  assert (F : fin a).
  { apply fin_B. rewrite FP.ltb_equiv in H0, H1.
    destruct (FP.Prim2B a) as [s|s| |s m e Hb]; try reflexivity.
    - destruct s; [discriminate H0|discriminate H1].
    - discriminate H0. }
  split; [exact F|]. rewrite <- FR_zero. apply ltb_true_R; auto using fin_zero.
Qed.

Lemma no_single_zero o :
  o_mate_single o = 0%float ->
  PrimFloat.ltb 0%float (o_mate_multi_avg o) = true -> PrimFloat.ltb (o_mate_multi_avg o) infinity = true ->
  no_single o.
Proof.
  intros Hz Hpos Hfin. right. rewrite Hz. set (a := o_mate_multi_avg o) in *.
  destruct (pos_finite a Hpos Hfin) as [Fa Pa].
  assert (Hs : FR (PrimFloat.add a 0%float) = FR a /\ fin (PrimFloat.add a 0%float)).
  { assert (E : rnd (FR a + FR 0%float) = FR a) by (rewrite FR_zero, Rplus_0_r; apply rnd_FR).
    destruct (add_R a 0%float Fa fin_zero) as [E1 F1]; [rewrite E; apply FR_lt_emax|].
    split; [now rewrite E1|exact F1]. }
  destruct Hs as [Es Fs].
  assert (E : rnd (FR a / FR (PrimFloat.add a 0%float)) = 1%R).
  { rewrite Es. unfold Rdiv. rewrite Rinv_r by lra. change 1%R with (bpow radix2 0). apply rnd_bpow. lia. }
  destruct (div_R a (PrimFloat.add a 0%float) Fa) as [E1 F1]; [rewrite Es; lra| |].
  - rewrite E, Rabs_pos_eq by lra. unfold two1024. change 1%R with (bpow radix2 0). apply bpow_lt. unfold emax. lia.
  - apply leb_of_R; [exact fin_one|exact F1|]. rewrite FR_one, E1, E. lra.
Qed.


(* ---------- the condition is necessary ---------- *)
(* the cell 2^63 - 2^10 yields the largest value rand.Float64() can return, 1 - 2^-53, the predecessor
   of 1 in binary64; a float c for which 1 <= c fails is NaN, -Inf, or a finite number below 1, hence at
   most that value: the comparison "draw < c" fails.  So when [no_single o] does not hold, two such cells
   in a row send the method draw into its third branch, mateSinglePoint. *)
Definition top_cell : Z := 2 ^ 63 - 2 ^ 10.
Definition top_draw : float := 0x1.fffffffffffffp-1%float.

Lemma top_draw_drawn t : tape_float64 (top_cell :: t) = Ok (top_draw, t).
Proof. vm_compute. reflexivity. Qed.

Lemma FR_top_draw : FR top_draw = (1 - bpow radix2 (-53))%R.
Proof. unfold top_draw. fr_const 0x1.fffffffffffffp-1%float. Qed.

Lemma not_ge1_not_above c : PrimFloat.leb 1%float c = false -> PrimFloat.ltb top_draw c = false.
Proof.
  intros H. assert (Ft : fin top_draw) by fin_c. destruct (is_finite c) eqn:Fc.
  - rewrite ltb_R by assumption. apply Rlt_bool_false.
    rewrite leb_R in H by auto using fin_one. rewrite FR_one in H.
    assert (Hc : (FR c < 1)%R).
    { destruct (Rle_bool_spec 1 (FR c)) as [?|Hlt]; [discriminate H|exact Hlt]. }
    assert (Hp : (FR c <= pred radix2 fexp64 1)%R).
    { apply pred_ge_gt; auto with typeclass_instances.
      - unfold FR. apply generic_format_B2R.
      - change 1%R with (bpow radix2 0). apply pow2_format. lia. }
    change 1%R with (bpow radix2 0) in Hp at 1. rewrite pred_bpow in Hp.
    rewrite FR_top_draw. change (bpow radix2 0) with 1%R in Hp.
    replace (fexp64 0) with (-53) in Hp by (unfold SpecFloat.fexp, SpecFloat.emin, emax, prec; lia). exact Hp.
  - assert (Fc' : BinarySingleNaN.is_finite (FP.Prim2B c) = false).
    { destruct (BinarySingleNaN.is_finite (FP.Prim2B c)) eqn:E; [|reflexivity].
      apply fin_B in E. unfold fin in E. congruence. }
    apply fin_B in Ft. rewrite FP.leb_equiv in H. rewrite FP.ltb_equiv.
    destruct (FP.Prim2B c) as [s|s| |s m e Hb]; try discriminate Fc'.
    + destruct s; [|discriminate H].
      destruct (FP.Prim2B top_draw) as [s'|s'| |s' m' e' Hb']; try discriminate Ft; try destruct s'; reflexivity.
    + destruct (FP.Prim2B top_draw) as [s'|s'| |s' m' e' Hb']; try discriminate Ft; reflexivity.
Qed.

Theorem no_single_necessary o e t :
  ~ no_single o ->
  let s := {| s_tape := top_cell :: top_cell :: t; s_env := e |} in
  exists s1 s2, r_float64 s = Ok (top_draw, s1) /\ r_float64 s1 = Ok (top_draw, s2) /\
    PrimFloat.ltb top_draw (o_mate_multi o) = false /\
    PrimFloat.ltb top_draw (PrimFloat.div (o_mate_multi_avg o) (PrimFloat.add (o_mate_multi_avg o) (o_mate_single o))) = false.
Proof.
  intros Hn s. exists {| s_tape := top_cell :: t; s_env := e |}, {| s_tape := t; s_env := e |}.
  split; [unfold r_float64, on_tape; cbn [s_tape s]; rewrite top_draw_drawn; reflexivity|].
  split; [unfold r_float64, on_tape; cbn [s_tape]; rewrite top_draw_drawn; reflexivity|].
  split; apply not_ge1_not_above; apply Bool.not_true_is_false; intros H; apply Hn; [left|right]; exact H.
Qed.

(* ---------- "never calls mate_singlepoint" ---------- *)
(* the method choice of Population.one_baby, with the three crossover calls abstracted: under [no_single o]
   the result does not depend on what stands in the third branch, for every state (tape) *)
Lemma method_draw_never_single {A} o (m1 m2 m3 m3' : @M st A) s :
  no_single o ->
  (let! r3 := r_float64 in
   if PrimFloat.ltb r3 (o_mate_multi o) then m1
   else let! r4 := r_float64 in
        if PrimFloat.ltb r4 (PrimFloat.div (o_mate_multi_avg o) (PrimFloat.add (o_mate_multi_avg o) (o_mate_single o)))
        then m2 else m3) s =
  (let! r3 := r_float64 in
   if PrimFloat.ltb r3 (o_mate_multi o) then m1
   else let! r4 := r_float64 in
        if PrimFloat.ltb r4 (PrimFloat.div (o_mate_multi_avg o) (PrimFloat.add (o_mate_multi_avg o) (o_mate_single o)))
        then m2 else m3') s.
Proof.
  intros NS. unfold bindM. destruct (r_float64 s) as [[r3 s1]| | | | |] eqn:E3; try reflexivity.
  destruct (PrimFloat.ltb r3 (o_mate_multi o)) eqn:L3; [reflexivity|].
  destruct (r_float64 s1) as [[r4 s2]| | | | |] eqn:E4; try reflexivity.
  destruct (PrimFloat.ltb r4 _) eqn:L4; [reflexivity|]. exfalso.
  destruct NS as [N|N].
  - rewrite (r_float64_below _ _ _ _ E3 N) in L3. discriminate L3.
  - rewrite (r_float64_below _ _ _ _ E4 N) in L4. discriminate L4.
Qed.
