(* reproduce (C02): breeding only adds organisms under fresh consecutive keys and leaves the species
   pointer of every existing organism alone; speciation appends every baby to exactly one species
   (an existing one, or a new one with the next id, age 1, novel) and sets its back pointer. *)
From NeatModel Require Import Compat.
From NeatModel Require Import Res F64 GoRand Genome Options Insert Dup Mutate Mate Population MonadLemmas PopBase.
From Coq Require Import Lia Permutation.

(* ---------- postconditions of monadic computations (the final state is irrelevant here) ---------- *)
Definition Post {A} (m : @M st A) (Q : A -> Prop) : Prop := forall s a s', m s = Ok (a, s') -> Q a.

Lemma post_bind {A B} (m : @M st A) (f : A -> @M st B) Q : (forall a, Post (f a) Q) -> Post (bindM m f) Q.
Proof. intros H s b s' E. mbind E as a s1 E1 E2. eapply H; eauto. Qed.

Lemma post_bind_strong {A B} (m : @M st A) (f : A -> @M st B) P Q :
  Post m P -> (forall a, P a -> Post (f a) Q) -> Post (bindM m f) Q.
Proof. intros Hm H s b s' E. mbind E as a s1 E1 E2. eapply H; eauto. Qed.

Lemma post_bind_lift {A B} (r : res A) (f : A -> @M st B) Q :
  (forall a, r = Ok a -> Post (f a) Q) -> Post (bindM (lift r) f) Q.
Proof. intros H s b s' E. mbind E as a s1 E1 E2. apply lift_ok in E1. destruct E1 as [E1 ->]. eapply H; eauto. Qed.

Lemma post_ret {A} (a : A) (Q : A -> Prop) : Q a -> Post (ret a) Q.
Proof. intros H s b s' E. apply ret_ok in E. destruct E as [<- _]. exact H. Qed.

Lemma post_fail_err {A} c (Q : A -> Prop) : Post (fail_err c) Q.
Proof. intros s a s' E. discriminate. Qed.
Lemma post_fail_panic {A} c (Q : A -> Prop) : Post (fail_panic c) Q.
Proof. intros s a s' E. discriminate. Qed.

(* ---------- one baby ---------- *)
Record rs_ok (h0 : list organism) (key0 : Z) (rs : rstate) : Prop := {
  ro_ext : hext pe h0 (r_heap rs);
  ro_key : key0 <= r_key rs;
  ro_bound : hbound (r_heap rs) (r_key rs);
  ro_babies : r_babies rs = zrange key0 (r_key rs);
  ro_dom : forall k, key0 <= k < r_key rs -> exists a, sp_of (r_heap rs) k = Some a;
  ro_fresh : forall k, key0 <= k < r_key rs -> hview o_elim (r_heap rs) k = Some false }.

Lemma finish_ok h0 key0 rs h' b cd :
  rs_ok h0 key0 rs -> hframe pe (r_heap rs) h' -> o_key b = r_key rs -> o_elim b = false ->
  rs_ok h0 key0 {| r_heap := hset h' b; r_key := r_key rs + 1; r_babies := r_babies rs ++ [o_key b];
                   r_clone_done := cd |}.
Proof.
  intros [R1 R2 R3 R4 R5 R6] F Eb Ee.
  assert (B' : hbound h' (r_key rs)) by (eapply hbound_frame; eauto).
  assert (Fr : forall A (f : organism -> A), hview f h' (o_key b) = None).
  { intros A f. unfold hview. destruct (hget h' (o_key b)) as [x| | | | |] eqn:E; try reflexivity.
    apply B' in E. lia. }
  constructor; cbn.
  - eapply hext_trans; [exact R1|]. eapply hext_trans; [apply hframe_ext, F|]. apply hext_hset_fresh, Fr.
  - lia.
  - apply hbound_hset; [eapply hbound_mono; eauto; lia|lia].
  - rewrite R4, Eb. symmetry. now apply zrange_snoc.
  - intros k Hk. unfold sp_of. rewrite hview_hset. destruct (Z.eqb_spec k (o_key b)); [eauto|].
    rewrite (hframe_pe_species _ _ F). apply R5. lia.
  - intros k Hk. rewrite hview_hset. destruct (Z.eqb_spec k (o_key b)); [now rewrite Ee|].
    rewrite (hframe_pe_elim _ _ F). apply R6. lia.
Qed.

Lemma one_baby_ok o gen all sorted s count h0 key0 rs :
  rs_ok h0 key0 rs ->
  Post (one_baby o gen all sorted s count rs) (fun rs' => rs_ok h0 key0 rs' /\ r_key rs' = r_key rs + 1).
Proof.
  intros R. unfold one_baby. cbv beta zeta.
  apply post_bind_lift. intros champ Hc.
  apply first_org_ok in Hc. destruct Hc as (kc & rc & _ & Hkc).
  assert (Fch : forall n, hframe pe (r_heap rs) (hset (r_heap rs) (o_with_super champ n))).
  { intros n. apply (hframe_hset_get pe _ champ); [|reflexivity]. cbn. now rewrite (hget_key _ _ _ Hkc). }
  pose proof (hframe_refl pe (r_heap rs)) as Frefl.
  repeat match goal with
         | |- Post (bindM _ _) _ => apply post_bind; intros
         | |- Post (ret _) _ =>
           apply post_ret; split; [|reflexivity];
           apply finish_ok; [exact R|solve [apply Fch|apply Frefl]|
                             cbn; repeat match goal with |- context [if ?c then _ else _] => destruct c end; reflexivity|
                             cbn; repeat match goal with |- context [if ?c then _ else _] => destruct c end; reflexivity]
         | |- Post (match ?x with _ => _ end) _ => destruct x
         end.
Qed.

Lemma reproduce_loop_ok o gen all sorted s h0 key0 n : forall count rs,
  rs_ok h0 key0 rs ->
  Post (reproduce_loop n o gen all sorted s count rs)
       (fun rs' => rs_ok h0 key0 rs' /\ r_key rs' = r_key rs + Z.of_nat n).
Proof.
  induction n as [|n IH]; intros count rs R; cbn [reproduce_loop].
  - apply post_ret. split; [assumption|lia].
  - eapply post_bind_strong; [apply one_baby_ok; exact R|]. intros rs1 [R1 E1].
    intros st0 rs2 st2 H. destruct (IH _ _ R1 _ _ _ H) as [R2 E2]. split; [assumption|lia].
Qed.

(* what a run of the breeding loop does to (heap, next key, babies) *)
Record bred (h : list organism) (key : Z) (h' : list organism) (key' : Z) : Prop := {
  br_ext : hext pe h h';
  br_key : key <= key';
  br_bound : hbound h' key';
  br_dom : forall k, key <= k < key' -> exists a, sp_of h' k = Some a;
  br_fresh : forall k, key <= k < key' -> hview o_elim h' k = Some false }.

Lemma bred_refl h key : hbound h key -> bred h key h key.
Proof. intros B. constructor; auto using hext_refl; [lia|intros; lia|intros; lia]. Qed.

Lemma bred_trans h1 k1 h2 k2 h3 k3 : bred h1 k1 h2 k2 -> bred h2 k2 h3 k3 -> bred h1 k1 h3 k3.
Proof.
  intros [A1 A2 A3 A4 A5] [B1 B2 B3 B4 B5]. constructor; auto.
  - eapply hext_trans; eauto.
  - lia.
  - intros k Hk. destruct (Z.lt_ge_cases k k2).
    + destruct (A4 k) as [a Ha]; [lia|]. exists a. now apply (hext_pe_species _ _ B1).
    + apply B4. lia.
  - intros k Hk. destruct (Z.lt_ge_cases k k2).
    + apply (hext_pe_elim _ _ B1). apply A5. lia.
    + apply B5. lia.
Qed.

Lemma reproduce_species_ok o gen all sorted s h key :
  hbound h key ->
  Post (reproduce_species o gen all sorted s h key)
       (fun '(h', key', bs) => bred h key h' key' /\ bs = zrange key key' /\ key' = key + Z.max 0 (sp_exp s)).
Proof.
  intros B. unfold reproduce_species. destruct (_ && _); [apply post_fail_err|].
  destruct (sp_orgs s) as [|k0 r0]; [apply post_fail_panic|].
  set (rs0 := {| r_heap := h; r_key := key; r_babies := []; r_clone_done := false |}).
  assert (R0 : rs_ok h key rs0).
  { constructor; cbn; auto using hext_refl; [lia|now rewrite zrange_nil|intros; lia|intros; lia]. }
  eapply post_bind_strong; [apply reproduce_loop_ok; exact R0|]. intros rs [[R1 R2 R3 R4 R5 R6] E].
  apply post_ret. cbn in E. split; [constructor; auto|split; [assumption|lia]].
Qed.

Fixpoint sum_exp (l : list species) : Z :=
  match l with [] => 0 | s :: l' => Z.max 0 (sp_exp s) + sum_exp l' end.

Lemma reproduce_all_ok o gen all sorted best l : forall h key babies br,
  hbound h key ->
  Post (reproduce_all o gen all sorted best l h key babies br)
       (fun '(h', key', babies', br') =>
          bred h key h' key' /\ babies' = babies ++ zrange key key' /\ key' = key + sum_exp l /\
          br' = (br || existsb (fun s => Z.eqb (sp_id s) best) l)%bool).
Proof.
  induction l as [|s l IH]; intros h key babies br B; cbn [reproduce_all].
  - apply post_ret. split; [now apply bred_refl|]. cbn. rewrite zrange_nil, app_nil_r, orb_false_r. auto with zarith.
  - eapply post_bind_strong; [apply reproduce_species_ok; exact B|].
    intros [[h1 key1] bs] (B1 & -> & E1).
    intros st0 [[[h' key'] babies'] br'] st2 H.
    destruct (IH _ _ _ _ (br_bound _ _ _ _ B1) _ _ _ H) as (B2 & -> & E2 & ->).
    split; [eapply bred_trans; eauto|]. split; [|split].
    + rewrite <- app_assoc. f_equal. apply zrange_app; [apply B1|apply B2].
    + cbn [sum_exp]. lia.
    + cbn [existsb]. now rewrite orb_assoc.
Qed.

(* ---------- speciate ---------- *)
Lemma best_species_in o h baby l : forall best bv id,
  best_species o h baby l best bv = Ok (Some id) -> best = Some id \/ exists s, In s l /\ sp_id s = id.
Proof.
  induction l as [|s l IH]; intros best bv id H; cbn [best_species] in H.
  - injection H as ->. now left.
  - assert (G : forall b v, best_species o h baby l b v = Ok (Some id) ->
                           b = best \/ b = Some (sp_id s) -> best = Some id \/ exists s0, In s0 (s :: l) /\ sp_id s0 = id).
    { intros b v Hb Hor. apply IH in Hb. destruct Hb as [Hb|(s0 & Hs0 & E0)].
      - destruct Hor as [->| ->]; [now left|]. injection Hb as <-. right. exists s. split; [now left|reflexivity].
      - right. exists s0. split; [now right|assumption]. }
    destruct (sp_orgs s) as [|k r]; [eapply G; eauto|].
    rbind H as rep Hr. destruct (_ && _); eapply G; eauto.
Qed.

Lemma Ok_inj {A} (a b : A) : Ok a = Ok b -> a = b.
Proof. intros H. now injection H. Qed.

(* the species founded while the babies are speciated *)
Definition founded (lo hi : Z) (s : species) : Prop :=
  lo < sp_id s <= hi /\ sp_age s = 1 /\ sp_novel s = true.

Record speciated (p p1 : population) (ks : list Z) : Prop := {
  sc_last : p_last_species p <= p_last_species p1;
  sc_ids : forall s, In s (all_sp p1) -> sp_id s <= p_last_species p1;
  sc_gid : hframe ogid (p_heap p) (p_heap p1);
  sc_elim : hframe o_elim (p_heap p) (p_heap p1);
  sc_listed : forall k, In k ks -> exists y, In y (p_species p1) /\ In k (sp_orgs y);
  sc_kept : forall k, (exists y, In y (p_species p) /\ In k (sp_orgs y)) ->
                      exists y, In y (p_species p1) /\ In k (sp_orgs y);
  sc_meta : exists news, map meta (p_species p1) = map meta (p_species p) ++ map meta news /\
                         Forall (founded (p_last_species p) (p_last_species p1)) news;
  sc_detached : p_detached p1 = p_detached p;
  sc_orgs : p_orgs p1 = p_orgs p;
  sc_key : p_next_key p1 = p_next_key p;
  sc_nonempty : (forall y, In y (p_species p) -> sp_orgs y <> []) ->
                forall y, In y (p_species p1) -> sp_orgs y <> [] }.

Lemma meta_add_key k s : meta (add_key k s) = meta s.
Proof. reflexivity. Qed.

Lemma speciate_one_ok o p k p1 P :
  speciate_one o p k = Ok p1 ->
  Wf (all_sp p) (p_heap p) P -> ~ P k -> (forall s, In s (all_sp p) -> sp_id s <= p_last_species p) ->
  Wf (all_sp p1) (p_heap p1) (fun x => P x \/ x = k) /\ speciated p p1 [k].
Proof.
  unfold speciate_one. intros H W Nk Hl. rbind H as baby Hb. cbv zeta in H.
  pose proof (hget_key _ _ _ Hb) as Ekb.
  (* the two outcomes *)
  assert (Hset : forall id, let h1 := hset (p_heap p) (o_with_species baby id) in
             (forall k', k' <> k -> sp_of h1 k' = sp_of (p_heap p) k') /\ sp_of h1 k = Some id /\
             hframe ogid (p_heap p) h1 /\ hframe o_elim (p_heap p) h1).
  { intros id h1. subst h1. splits.
    - intros k' N. unfold sp_of. rewrite hview_hset. cbn. rewrite Ekb.
      destruct (Z.eqb_spec k' k); [contradiction|reflexivity].
    - unfold sp_of. rewrite hview_hset. cbn. rewrite Ekb, Z.eqb_refl. reflexivity.
    - apply (hframe_hset_get ogid _ baby); [|reflexivity]. cbn. now rewrite Ekb.
    - apply (hframe_hset_get o_elim _ baby); [|reflexivity]. cbn. now rewrite Ekb. }
  assert (New : forall pn, pn = {| p_species := p_species p ++ [new_species (p_last_species p + 1) k];
                p_detached := p_detached p; p_orgs := p_orgs p;
                p_heap := hset (p_heap p) (o_with_species baby (p_last_species p + 1));
                p_last_species := p_last_species p + 1; p_highest := p_highest p;
                p_epochs_highest := p_epochs_highest p; p_next_key := p_next_key p |} ->
             Wf (all_sp pn) (p_heap pn) (fun x => P x \/ x = k) /\ speciated p pn [k]).
  { intros pn ->. destruct (Hset (p_last_species p + 1)) as (S1 & S2 & S3 & S4). split.
    - unfold all_sp. cbn.
      eapply Wf_rel; [eapply (Wf_add_species _ _ _ _ k (p_last_species p + 1)); [exact W|exact Nk| |exact S1|exact S2]|].
      + intros s Hs E. apply Hl in Hs. lia.
      + apply sp_rel_perm. rewrite <- app_assoc. cbn. apply Permutation_middle.
    - constructor; cbn; auto.
      + lia.
      + unfold all_sp. cbn. intros s Hs. rewrite <- app_assoc in Hs. apply in_app_or in Hs.
        destruct Hs as [Hs|[<-|Hs]]; [| cbn; lia|].
        * assert (sp_id s <= p_last_species p); [apply Hl; unfold all_sp; apply in_or_app; now left|lia].
        * assert (sp_id s <= p_last_species p); [apply Hl; unfold all_sp; apply in_or_app; now right|lia].
      + intros k' [<-|[]]. exists (new_species (p_last_species p + 1) k). split; [apply in_or_app; right; now left|now left].
      + intros k' (y & Hy & Hk). exists y. split; [apply in_or_app; now left|assumption].
      + exists [new_species (p_last_species p + 1) k]. split; [now rewrite map_app|].
        constructor; [|constructor]. unfold founded. cbn. splits; auto; lia.
      + intros Hne y Hy. apply in_app_or in Hy. destruct Hy as [Hy|[<-|[]]]; [now apply Hne|discriminate]. }
  destruct (p_species p) as [|s0 sps0] eqn:Esp.
  - injection H as <-. apply New. reflexivity.
  - destruct (PrimFloat.eqb _ _); [discriminate|]. rbind H as bst Hbst.
    destruct bst as [id|]; [|injection H as <-; apply New; reflexivity].
    apply Ok_inj in H. subst p1. rewrite <- Esp in *.
    apply best_species_in in Hbst. destruct Hbst as [Hbst|(s & Hs & Es)]; [discriminate|].
    destruct (Hset id) as (S1 & S2 & S3 & S4).
    assert (Eall : sp_set (p_species p) id (add_key k) ++ p_detached p = sp_set (all_sp p) id (add_key k)).
    { unfold all_sp. rewrite sp_set_app. f_equal. symmetry. apply sp_set_notin.
      intros d Hd Ed. pose proof (wf_ids _ _ _ W) as Hn. unfold all_sp in Hn. rewrite map_app in Hn.
      apply nodup_app_inv in Hn. destruct Hn as (_ & _ & Hn). apply (Hn id).
      - rewrite <- Es. now apply in_map.
      - rewrite <- Ed. now apply in_map. }
    split.
    + unfold all_sp at 1. cbn. fold (add_key k). rewrite Eall.
      apply (Wf_add_member _ (p_heap p)); auto. exists s. split; [unfold all_sp; apply in_or_app; now left|assumption].
    + constructor; cbn; fold (add_key k).
      * lia.
      * unfold all_sp. cbn. fold (add_key k). rewrite Eall. intros y Hy. apply sp_set_in in Hy.
        destruct Hy as (y0 & Hy0 & ->). apply Hl in Hy0. now destruct (Z.eqb (sp_id y0) id).
      * exact S3.
      * exact S4.
      * intros k' [<-|[]]. exists (add_key k s). split.
        -- apply sp_set_in. exists s. split; [assumption|]. now rewrite Es, Z.eqb_refl.
        -- cbn. apply in_or_app. right. now left.
      * intros k' (y & Hy & Hk). exists (if Z.eqb (sp_id y) id then add_key k y else y). split.
        -- apply sp_set_in. eauto.
        -- destruct (Z.eqb (sp_id y) id); [cbn; apply in_or_app; now left|assumption].
      * exists []. cbn. rewrite app_nil_r. split; [|constructor]. apply sp_set_meta. intros; reflexivity.
      * reflexivity.
      * reflexivity.
      * reflexivity.
      * intros Hne y Hy. apply sp_set_in in Hy. destruct Hy as (y0 & Hy0 & ->).
        destruct (Z.eqb (sp_id y0) id); [|now apply Hne]. cbn. intros E. now apply app_eq_nil in E.
Qed.

Lemma speciated_trans p p1 p2 ks1 ks2 : speciated p p1 ks1 -> speciated p1 p2 ks2 -> speciated p p2 (ks1 ++ ks2).
Proof.
  intros [A1 A2 A3 A3' A4 A5 (n1 & A6 & A6') A7 A8 A9 A10] [B1 B2 B3 B3' B4 B5 (n2 & B6 & B6') B7 B8 B9 B10].
  constructor.
  - lia.
  - exact B2.
  - eapply hframe_trans; eauto.
  - eapply hframe_trans; eauto.
  - intros k Hk. apply in_app_or in Hk. destruct Hk as [Hk|Hk]; auto.
  - auto.
  - exists (n1 ++ n2). split.
    + rewrite B6, A6, map_app, app_assoc. reflexivity.
    + apply Forall_app. split.
      * eapply Forall_impl; [|exact A6']. unfold founded. intros s (X & Y & Z). splits; auto; lia.
      * eapply Forall_impl; [|exact B6']. unfold founded. intros s (X & Y & Z). splits; auto; lia.
  - congruence.
  - congruence.
  - congruence.
  - auto.
Qed.

Lemma speciated_refl p : (forall s, In s (all_sp p) -> sp_id s <= p_last_species p) -> speciated p p [].
Proof.
  intros Hl. constructor; auto.
  - lia.
  - apply hframe_refl.
  - apply hframe_refl.
  - intros k [].
  - exists []. cbn. rewrite app_nil_r. split; [reflexivity|constructor].
Qed.

Lemma speciate_loop_ok o : forall ks p p' P,
  speciate_loop o p ks = Ok p' ->
  Wf (all_sp p) (p_heap p) P -> (forall k, In k ks -> ~ P k) -> NoDup ks ->
  (forall s, In s (all_sp p) -> sp_id s <= p_last_species p) ->
  Wf (all_sp p') (p_heap p') (fun x => P x \/ In x ks) /\ speciated p p' ks.
Proof.
  induction ks as [|k ks IH]; intros p p' P H W Nk Hn Hl; cbn [speciate_loop] in H.
  - injection H as <-. split; [|now apply speciated_refl]. eapply Wf_iff; [exact W|]. intros x. cbn. tauto.
  - rbind H as p1 H1. inversion Hn as [|? ? Hk Hn']; subst.
    destruct (speciate_one_ok _ _ _ _ P H1 W) as [W1 S1]; [apply Nk; now left|exact Hl|].
    destruct (IH _ _ _ H W1) as [W2 S2].
    + intros k' Hk' [HP| ->]; [apply (Nk k'); [now right|assumption]|contradiction].
    + assumption.
    + apply S1.
    + split.
      * eapply Wf_iff; [exact W2|]. intros x. cbn. intuition congruence.
      * apply (speciated_trans _ _ _ [k] ks S1 S2).
Qed.
