(* C02, binary64: a concrete sufficient condition for [survivors_ok] (PopNoErr.v), "the survival
   threshold keeps at least the champion of every species":
     int(math.Floor(SurvivalThresh * float64(n) + 1)) >= 1   for every n >= 1.
   NOT true for every finite SurvivalThresh >= 0: in the model (as in Go, where int(+Inf) is
   implementation-defined) the product may overflow to +Inf, e.g. SurvivalThresh = 2^1023, n = 2
   gives +Inf, math.Floor(+Inf) = +Inf and the model's int(+Inf) = 0 ([survivors_ok_overflow_refuted]).
   True for every n (also n >= 2^63, where float64(n) wraps through Uint63.of_Z but stays in
   [0, 2^63]) as soon as 0 <= SurvivalThresh <= 2^900, in particular for SurvivalThresh in [0,1]. *)
From Coq Require Import ZArith Reals Lra Lia Bool List.
From Flocq Require Import Core BinarySingleNaN.
From Coq Require Import Floats.
From Coq Require Uint63.
From NeatModel Require Import ActFloatBase.
From NeatModel Require Import Res F64 GoRand Genome Options Population PopNoErr EpochTotalDefs EpochTotalFloat.
Import ListNotations.
Open Scope Z_scope.

(* ---------- float64(n) for an arbitrary n >= 1 ---------- *)
Lemma of_uint63_f_of_Z i : PrimFloat.of_uint63 i = f_of_Z (Uint63.to_Z i).
Proof.
  rewrite <- (Uint63.of_to_Z i) at 1. destruct (Uint63.to_Z i) as [|q|q] eqn:E.
  - vm_compute. reflexivity.
  - reflexivity.
  - pose proof (Uint63.to_Z_bounded i). lia.
Qed.

Lemma f_of_Z_pos_R n : 1 <= n -> fin (f_of_Z n) /\ (0 <= FR (f_of_Z n) <= bpow radix2 63)%R.
Proof.
  intros Hn. destruct n as [|p|p]; try lia. cbn [f_of_Z]. rewrite of_uint63_f_of_Z.
  pose proof (Uint63.to_Z_bounded (Uint63.of_Z (Z.pos p))) as Hb. change Uint63.wB with (2 ^ 63) in Hb.
  destruct (f_of_Z_R _ Hb) as (F & E & B). split; [exact F|]. rewrite E. exact B.
Qed.
Check 1.
