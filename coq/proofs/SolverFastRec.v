(* C12, fast solver over the reals: RecursiveSteps.  On a feed-forward network the recursion from the
   outputs never meets a node that is being activated (that would be a cycle), every node it returns from
   holds its final value, and the fuel (number of neurons + 1) is never exhausted. *)
From NeatModel Require Import Res Net Fast SolverUtil SolverSpec SolverFast FastAdj.
From Coq Require Import Reals Lra Arith Lia.
Open Scope R_scope.

(* a list of indices all of which have a preimage is the image of a list of positions *)
Lemma map_preimage (idx : nat -> nat) (P : nat -> Prop) (A : list nat) :
  (forall a, In a A -> exists q, P q /\ idx q = a) ->
  exists qs, A = map idx qs /\ forall q, In q qs -> P q.
Proof.
  induction A as [|a rest IH]; intros H.
  - exists []. split; [reflexivity|]. intros q [].
  - destruct (H a (or_introl eq_refl)) as (q & Pq & Eq).
    destruct IH as (qs & E & HP); [intros a' Ha'; apply H; right; exact Ha'|].
    exists (q :: qs). split; [simpl; rewrite Eq, E; reflexivity|].
    intros q' [<-|Hq']; [exact Pq|apply HP; exact Hq'].
Qed.

Section FastRecursive.
Variable n : net R.
Variable known : Z -> bool.
Variable f : Z -> R -> R.
Variable dp : nat -> nat.
Variable v : nat -> R.
Variable fn : fnet R.
Variable idx : nat -> nat.
Hypothesis FF : ffnet n known dp.
Hypothesis SOL : solves n f v.
Hypothesis TR : translated n fn idx.
Hypothesis vbias : forall p, (p < nnodes n)%nat -> is_bias (role_at n p) = true -> v p = 1.

Notation act := (ract known f).
Notation fstate := (fstate R).
Notation N := (nnodes n).

Definition dn (s : fstate) (i : nat) : bool := getB (fs_done s) i.
Definition ia (s : fstate) (i : nat) : bool := getB (fs_inact s) i.

(* reverseAdjacentList and adjacentMatrix of a translated network: the sources of the non-bias links into p, each
   once (parallel links share one entry), and the sum of the weights of the links from one source *)
Notation nbl p := (filter (nonbias_src n) (nd_in (node_at n p))).

Lemma radj_positions p :
  (p < N)%nat -> neuronb n p = true ->
  exists qs, radj fn (idx p) = map idx qs /\ NoDup qs /\
    (forall q, In q qs -> exists l, In l (nd_in (node_at n p)) /\ nonbias_src n l = true /\ l_src l = q) /\
    (forall l, In l (nbl p) -> In (l_src l) qs).
Proof.
  intros Hp Hn.
  destruct (map_preimage idx
    (fun q => exists l, In l (nd_in (node_at n p)) /\ nonbias_src n l = true /\ l_src l = q) (radj fn (idx p)))
    as (qs & E & HP).
  { intros a Ha. apply radj_In in Ha. destruct Ha as (c & Hc & Ht & Hs).
    assert (Hf : In c (filter (fun c => (fl_tgt c =? idx p)%nat) (f_conns fn))).
    { apply filter_In. split; [exact Hc|]. apply Nat.eqb_eq. exact Ht. }
    rewrite (tr_conns _ _ _ TR p Hp Hn) in Hf. apply in_map_iff in Hf. destruct Hf as (l & El & Hl).
    apply filter_In in Hl. destruct Hl as [Hl Hnb].
    exists (l_src l). split; [exists l; auto|]. rewrite <- Hs, <- El. reflexivity. }
  exists qs. split; [exact E|]. split.
  { apply (NoDup_map_inv idx). rewrite <- E. apply radj_NoDup. }
  split; [exact HP|].
  intros l Hl.
  assert (Hin : In (idx (l_src l)) (radj fn (idx p))).
  { apply radj_In. exists (mkFlink (idx (l_src l)) (idx p) (l_w l)). split; [|split; reflexivity].
    assert (Hf : In (mkFlink (idx (l_src l)) (idx p) (l_w l))
                    (filter (fun c => (fl_tgt c =? idx p)%nat) (f_conns fn))).
    { rewrite (tr_conns _ _ _ TR p Hp Hn). apply (in_map (fun l0 : link R => mkFlink (idx (l_src l0)) (idx p) (l_w l0))).
      exact Hl. }
    apply filter_In in Hf. apply Hf. }
  rewrite E in Hin. apply in_map_iff in Hin. destruct Hin as (q' & Eq' & Hq').
  destruct (HP q' Hq') as (l' & Hl' & _ & Es').
  apply filter_In in Hl. destruct Hl as [Hl _].
  pose proof (net_ok_src n (ff_ok _ _ _ FF) p l Hp Hl) as Hs.
  pose proof (net_ok_src n (ff_ok _ _ _ FF) p l' Hp Hl') as Hs'. rewrite Es' in Hs'.
  apply (tr_idx_inj _ _ _ TR _ _ Hs' Hs) in Eq'. subst q'. exact Hq'.
Qed.

Lemma adj_w_translated p q :
  (p < N)%nat -> neuronb n p = true -> (q < N)%nat ->
  adj_w Rnum fn (idx q) (idx p) = sumf (@l_w R) (filter (fun l => (l_src l =? q)%nat) (nbl p)).
Proof.
  intros Hp Hn Hq. rewrite adj_w_sum, filter_filter_and, (tr_conns _ _ _ TR p Hp Hn).
  assert (Hsrc : forall l, In l (nbl p) -> (l_src l < N)%nat).
  { intros l Hl. apply filter_In in Hl. destruct Hl as [Hl _]. exact (net_ok_src n (ff_ok _ _ _ FF) p l Hp Hl). }
  induction (nbl p) as [|l rest IH]; simpl; [reflexivity|].
  assert (Hl : (l_src l < N)%nat) by (apply Hsrc; left; reflexivity).
  assert (IH' := IH (fun l' Hl' => Hsrc l' (or_intror Hl'))).
  destruct (l_src l =? q)%nat eqn:E.
  - apply Nat.eqb_eq in E. rewrite E, Nat.eqb_refl. simpl. rewrite IH'. reflexivity.
  - destruct (idx (l_src l) =? idx q)%nat eqn:E'; [|exact IH'].
    apply Nat.eqb_eq in E'. apply (tr_idx_inj _ _ _ TR _ _ Hl Hq) in E'. apply Nat.eqb_neq in E. contradiction.
Qed.

(* the sum RecursiveSteps forms over the adjacency list is the sum over the links *)
Lemma radj_sum p qs :
  (p < N)%nat -> neuronb n p = true -> NoDup qs ->
  (forall q, In q qs -> exists l, In l (nd_in (node_at n p)) /\ nonbias_src n l = true /\ l_src l = q) ->
  (forall l, In l (nbl p) -> In (l_src l) qs) ->
  sumf (fun q => adj_w Rnum fn (idx q) (idx p) * v q) qs = sumf (fun l => l_w l * v (l_src l)) (nbl p).
Proof.
  intros Hp Hn ND H1 H2.
  rewrite <- (sumf_regroup (@l_src R) (@l_w R) v qs (nbl p) ND H2).
  apply sumf_ext. intros q Hq. destruct (H1 q Hq) as (l & Hl & _ & <-).
  rewrite (adj_w_translated p (l_src l) Hp Hn (net_ok_src n (ff_ok _ _ _ FF) p l Hp Hl)). reflexivity.
Qed.


Lemma split_value p :
  (p < N)%nat -> neuronb n p = true ->
  sumf (fun l => l_w l * v (l_src l)) (filter (nonbias_src n) (nd_in (node_at n p)))
  + (if (0 <? f_bias fn)%nat then nth (idx p) (f_biases fn) 0 else 0) = wsum v (nd_in (node_at n p)).
Proof.
  intros Hp Hn.
  assert (Hb : nth (idx p) (f_biases fn) 0 =
               sumf (fun l => l_w l * v (l_src l)) (filter (bias_src n) (nd_in (node_at n p)))).
  { rewrite (tr_biases _ _ _ TR p Hp Hn), sumf_fold_left, Rplus_0_l.
    apply sumf_ext. intros l Hl. apply filter_In in Hl. destruct Hl as [Hl Hbs].
    rewrite (vbias (l_src l)); [lra|exact (net_ok_src n (ff_ok _ _ _ FF) p l Hp Hl)|exact Hbs]. }
  rewrite wsum_sumf, (sumf_filter_split _ (bias_src n) (nd_in (node_at n p))).
  change (fun x => negb (bias_src n x)) with (nonbias_src n).
  destruct (0 <? f_bias fn)%nat eqn:E0.
  - rewrite Hb. lra.
  - apply Nat.ltb_ge in E0. rewrite (bias_term_zero n known dp fn idx FF TR p Hp) by lia. simpl. lra.
Qed.

Definition lens4 (s : fstate) : Prop :=
  length (fs_sig s) = N /\ length (fs_bp s) = N /\ length (fs_done s) = N /\ length (fs_inact s) = N.

Definition RInv (s : fstate) : Prop :=
  lens4 s /\
  (forall p, (p < N)%nat -> sensorb n p = true -> dn s (idx p) = true) /\
  (forall p, (p < N)%nat -> dn s (idx p) = true -> sg s (idx p) = v p).

Lemma RInv_set_bp s i x : RInv s -> RInv (set_bp s i x).
Proof.
  intros ((L1 & L2 & L3 & L4) & A & B). split; [|split; [exact A|exact B]].
  unfold lens4, set_bp. simpl. rewrite upd_length. auto.
Qed.

Definition call_ok (call : fstate -> nat -> fstate * res bool) (bound : nat) : Prop :=
  forall s q, (q < N)%nat -> (dp q < bound)%nat -> RInv s ->
    (forall q', (q' < N)%nat -> ia s (idx q') = true -> (dp q < dp q')%nat) ->
    exists s', call s (idx q) = (s', Ok true) /\ RInv s' /\ dn s' (idx q) = true /\
      (forall i, dn s i = true -> dn s' i = true) /\
      (forall q', (q' < N)%nat -> dn s' (idx q') = true -> dn s (idx q') = true \/ (dp q' <= dp q)%nat) /\
      (forall i, ia s' i = ia s i) /\
      (forall i, dn s' i = false -> bp s' i = bp s i).

Lemma rec_loop_ok call b p (Hcall : call_ok call b) (Hp : (p < N)%nat) (Hn : neuronb n p = true)
      (Hb : (dp p <= b)%nat) : forall qs s,
  (forall q, In q qs -> exists l, In l (nd_in (node_at n p)) /\ nonbias_src n l = true /\ l_src l = q) ->
  RInv s -> dn s (idx p) = false -> ia s (idx p) = true ->
  (forall q', (q' < N)%nat -> ia s (idx q') = true -> (dp p <= dp q')%nat) ->
  exists s', rec_loop Rnum fn call (idx p) (map idx qs) s = (s', Ok true) /\
    RInv s' /\ dn s' (idx p) = false /\
    (forall i, dn s i = true -> dn s' i = true) /\
    (forall q', (q' < N)%nat -> dn s' (idx q') = true -> dn s (idx q') = true \/ (dp q' < dp p)%nat) /\
    (forall i, ia s' i = ia s i) /\
    (forall i, i <> idx p -> dn s' i = false -> bp s' i = bp s i) /\
    bp s' (idx p) = bp s (idx p) + sumf (fun q => adj_w Rnum fn (idx q) (idx p) * v q) qs.
Proof.
  induction qs as [|q0 rest IH]; intros s Hls HR Hd Hi Hst.
  - exists s. simpl. split; [reflexivity|]. split; [exact HR|]. split; [exact Hd|].
    split; [auto|]. split; [auto|]. split; [auto|]. split; [auto|]. lra.
  - destruct (Hls q0 (or_introl eq_refl)) as (l & Hl & Hnb & Eq0). subst q0.
    pose proof (net_ok_src n (ff_ok _ _ _ FF) p l Hp Hl) as Hs.
    pose proof (ff_rank _ _ _ FF p l Hp Hn Hl) as Hrk.
    set (a := idx (l_src l)).
    assert (Hia : ia s a = false).
    { destruct (ia s a) eqn:E; [|reflexivity]. specialize (Hst (l_src l) Hs E). lia. }
    (* the source is activated (recursively if need be) *)
    assert (Hsrc : exists s1,
      (if negb (getB (fs_done s) a) then call s a else (s, Ok true)) = (s1, Ok true) /\
      RInv s1 /\ dn s1 a = true /\ dn s1 (idx p) = false /\
      (forall i, dn s i = true -> dn s1 i = true) /\
      (forall q', (q' < N)%nat -> dn s1 (idx q') = true -> dn s (idx q') = true \/ (dp q' < dp p)%nat) /\
      (forall i, ia s1 i = ia s i) /\
      (forall i, dn s1 i = false -> bp s1 i = bp s i)).
    { fold (dn s a). destruct (dn s a) eqn:Eda; simpl.
      - exists s. split; [reflexivity|]. split; [exact HR|]. split; [exact Eda|]. split; [exact Hd|].
        split; [auto|]. split; [auto|]. split; auto.
      - destruct (Hcall s (l_src l) Hs) as (s1 & E1 & R1 & D1 & M1 & B1 & I1 & F1); [lia|exact HR| |].
        + intros q' Hq' Hq'i. specialize (Hst q' Hq' Hq'i). lia.
        + exists s1. split; [exact E1|]. split; [exact R1|]. split; [exact D1|]. split.
          * destruct (dn s1 (idx p)) eqn:E; [|reflexivity].
            destruct (B1 p Hp E) as [G|G]; [congruence|lia].
          * split; [exact M1|]. split; [|split; [exact I1|exact F1]].
            intros q' Hq' Hq'd. destruct (B1 q' Hq' Hq'd) as [G|G]; [left; exact G|right; lia]. }
    destruct Hsrc as (s1 & E1 & R1 & D1 & Dp1 & M1 & B1 & I1 & F1).
    simpl map. simpl rec_loop. fold a. fold (ia s a). rewrite Hia. rewrite E1.
    set (s2 := set_bp s1 (idx p) (fadd Rnum (bpF Rnum s1 (idx p)) (fmul Rnum (sigF Rnum s1 a) (adj_w Rnum fn a (idx p))))).
    assert (Hsg : sg s1 a = v (l_src l)) by (apply R1; assumption).
    assert (Hbp2 : bp s2 (idx p) = bp s1 (idx p) + adj_w Rnum fn a (idx p) * v (l_src l)).
    { unfold s2, bp, set_bp, bpF, sigF, getF. simpl.
      rewrite nth_upd_same by (destruct R1 as ((_ & L2 & _) & _); rewrite L2; apply (tr_idx_lt _ _ _ TR); exact Hp).
      fold (sg s1 a). rewrite Hsg. lra. }
    assert (Ho2 : forall i, i <> idx p -> bp s2 i = bp s1 i).
    { intros i Hne. unfold s2, bp, set_bp. simpl. apply nth_upd_other. auto. }
    destruct (IH s2) as (s' & E' & R' & D' & M' & B' & I' & F' & S').
    + intros q' Hq'. apply Hls. simpl. auto.
    + apply RInv_set_bp. exact R1.
    + exact Dp1.
    + change (ia s2 (idx p)) with (ia s1 (idx p)). rewrite I1. exact Hi.
    + intros q' Hq' Hq'i. change (ia s2 (idx q')) with (ia s1 (idx q')) in Hq'i. rewrite I1 in Hq'i.
      apply Hst; assumption.
    + exists s'. split; [exact E'|]. split; [exact R'|]. split; [exact D'|].
      split; [intros i Hdi; apply M'; change (dn s2 i) with (dn s1 i); apply M1; exact Hdi|].
      split.
      { intros q' Hq' Hq'd. destruct (B' q' Hq' Hq'd) as [G|G]; [|right; exact G].
        change (dn s2 (idx q')) with (dn s1 (idx q')) in G. apply B1; assumption. }
      split; [intros i; rewrite I'; change (ia s2 i) with (ia s1 i); apply I1|].
      split.
      { intros i Hne Hdi. rewrite (F' i Hne Hdi), (Ho2 i Hne). apply F1.
        destruct (dn s1 i) eqn:E; [|reflexivity].
        assert (G : dn s' i = true) by (apply M'; exact E). congruence. }
      rewrite S', Hbp2, (F1 (idx p) Dp1). simpl. fold a. lra.
Qed.


Lemma rec_node_ok fuel : call_ok (rec_node Rnum act fn fuel) fuel.
Proof.
  induction fuel as [|fuel IH]; intros s q Hq Hdq HR Hst; [lia|].
  pose proof HR as ((L1 & L2 & L3 & L4) & RS & RD).
  pose proof (tr_idx_lt _ _ _ TR q Hq) as Hcur.
  assert (Hiq : ia s (idx q) = false).
  { destruct (ia s (idx q)) eqn:E; [|reflexivity]. specialize (Hst q Hq E). lia. }
  simpl rec_node. fold (dn s (idx q)). destruct (dn s (idx q)) eqn:Ed.
  - (* already activated *)
    exists (set_inact s (idx q) false). split; [reflexivity|].
    assert (Hia' : forall i, ia (set_inact s (idx q) false) i = ia s i).
    { intros i. unfold ia, set_inact, getB. simpl. rewrite nth_upd.
      destruct ((idx q =? i)%nat && (idx q <? length (fs_inact s))%nat) eqn:E; [|reflexivity].
      apply andb_true_iff in E. destruct E as [E _]. apply Nat.eqb_eq in E. subst i. symmetry. exact Hiq. }
    split.
    { split; [|split; [exact RS|exact RD]]. unfold lens4, set_inact. simpl. rewrite upd_length. auto. }
    split; [exact Ed|]. split; [auto|]. split; [auto|]. split; [exact Hia'|]. auto.
  - (* a neuron that is not yet activated *)
    assert (Hn : neuronb n q = true).
    { destruct (sensor_or_neuron n q) as [Hs|Hn]; [|exact Hn]. rewrite (RS q Hq Hs) in Ed. discriminate. }
    destruct (radj_positions q Hq Hn) as (qs & Eqs & NDqs & Hqs1 & Hqs2). rewrite Eqs.
    set (cur := idx q) in *.
    set (s1 := set_bp (set_inact s cur true) cur (fzero Rnum)).
    assert (R1 : RInv s1).
    { apply RInv_set_bp. split; [|split; [exact RS|exact RD]]. unfold lens4, set_inact. simpl. rewrite upd_length. auto. }
    assert (Hia1 : forall i, ia s1 i = if (cur =? i)%nat then true else ia s i).
    { intros i. unfold ia, s1, set_bp, set_inact, getB. simpl. rewrite nth_upd, L4.
      destruct (cur =? i)%nat eqn:E; simpl; [|reflexivity].
      destruct (cur <? N)%nat eqn:E'; [reflexivity|]. apply Nat.ltb_ge in E'. lia. }
    assert (Hbp1 : bp s1 cur = 0).
    { unfold bp, s1, set_bp. simpl. apply nth_upd_same. simpl. rewrite L2. exact Hcur. }
    assert (Hbo1 : forall i, i <> cur -> bp s1 i = bp s i).
    { intros i Hne. unfold bp, s1, set_bp. simpl. apply nth_upd_other. auto. }
    destruct (rec_loop_ok (rec_node Rnum act fn fuel) fuel q IH Hq Hn) with
        (qs := qs) (s := s1)
      as (s2 & E2 & R2 & D2 & M2 & B2 & I2 & F2 & S2).
    + lia.
    + exact Hqs1.
    + exact R1.
    + exact Ed.
    + rewrite Hia1. fold cur. now rewrite Nat.eqb_refl.
    + intros q' Hq' Hq'i. rewrite Hia1 in Hq'i. fold cur in Hq'i.
      destruct (cur =? idx q')%nat eqn:E.
      * apply Nat.eqb_eq in E. apply (tr_idx_inj _ _ _ TR _ _ Hq Hq') in E. subst q'. lia.
      * specialize (Hst q' Hq' Hq'i). lia.
    + fold cur in E2. rewrite (radj_sum q qs Hq Hn NDqs Hqs1 Hqs2) in S2.
      match goal with |- context [rec_loop ?a ?b ?c ?d ?e ?st] =>
        replace (rec_loop a b c d e st) with (s2, @Ok bool true) by (symmetry; exact E2) end.
      cbv iota beta.
      pose proof R2 as ((K1 & K2 & K3 & K4) & RS2 & RD2).
      set (s3 := if (0 <? f_bias fn)%nat
                 then set_bp s2 cur (bpF Rnum s2 cur + getF Rnum (f_biases fn) cur) else s2).
      set (s4 := set_inact (set_done s3 cur true) cur false).
      assert (Hbp4 : bpF Rnum s4 cur = wsum v (nd_in (node_at n q))).
      { change (bpF Rnum s4 cur) with (bp s3 cur).
        rewrite <- (split_value q Hq Hn). fold cur.
        unfold s3. destruct (0 <? f_bias fn)%nat.
        - unfold bp, set_bp, bpF, getF. simpl. rewrite nth_upd_same by (rewrite K2; exact Hcur).
          fold (bp s2 cur). fold cur in S2. rewrite S2, Hbp1. lra.
        - fold cur in S2. rewrite S2, Hbp1. lra. }
      assert (Hact : nth cur (f_acts fn) 0%Z = nd_act (node_at n q)) by (apply (tr_acts _ _ _ TR); exact Hq).
      rewrite Hact, Hbp4. unfold ract at 1. rewrite (ff_known _ _ _ FF q Hq Hn).
      eexists. split; [reflexivity|].
      set (s5 := set_bp (set_sig s4 cur (f (nd_act (node_at n q)) (wsum v (nd_in (node_at n q))))) cur (fzero Rnum)).
      assert (Hdn5 : forall i, dn s5 i = if (cur =? i)%nat then true else dn s2 i).
      { intros i. unfold dn, s5, s4, s3, set_bp, set_sig, set_inact, set_done, getB.
        destruct (0 <? f_bias fn)%nat; simpl; rewrite nth_upd, K3;
          (destruct (cur =? i)%nat eqn:E; simpl; [|reflexivity]);
          (destruct (cur <? N)%nat eqn:E'; [reflexivity|]); apply Nat.ltb_ge in E'; lia. }
      assert (Hsg5 : forall i, sg s5 i = if (cur =? i)%nat then v q else sg s2 i).
      { intros i. unfold sg, s5, s4, s3, set_bp, set_sig, set_inact, set_done.
        destruct (0 <? f_bias fn)%nat; simpl; rewrite nth_upd, K1;
          (destruct (cur =? i)%nat eqn:E; simpl; [|reflexivity]);
          (destruct (cur <? N)%nat eqn:E'; [symmetry; apply SOL; assumption|]); apply Nat.ltb_ge in E'; lia. }
      assert (Hia5 : forall i, ia s5 i = if (cur =? i)%nat then false else ia s2 i).
      { intros i. unfold ia, s5, s4, s3, set_bp, set_sig, set_inact, set_done, getB.
        destruct (0 <? f_bias fn)%nat; simpl; rewrite nth_upd, K4;
          (destruct (cur =? i)%nat eqn:E; simpl; [|reflexivity]);
          (destruct (cur <? N)%nat eqn:E'; [reflexivity|]); apply Nat.ltb_ge in E'; lia. }
      assert (Hbp5 : forall i, i <> cur -> bp s5 i = bp s2 i).
      { intros i Hne. unfold bp, s5, s4, s3, set_sig, set_inact, set_done, set_bp.
        destruct (0 <? f_bias fn)%nat; simpl; rewrite nth_upd_other by auto; [apply nth_upd_other; auto|reflexivity]. }
      split.
      { split.
        - unfold lens4, s5, s4, s3, set_sig, set_inact, set_done, set_bp.
          destruct (0 <? f_bias fn)%nat; simpl; rewrite ?upd_length; auto.
        - split.
          + intros p' Hp' Hs'. rewrite Hdn5. destruct (cur =? idx p')%nat; [reflexivity|].
            apply M2. change (dn s1 (idx p')) with (dn s (idx p')). apply RS; assumption.
          + intros p' Hp' Hd'. rewrite Hdn5 in Hd'. rewrite Hsg5.
            destruct (cur =? idx p')%nat eqn:E.
            * apply Nat.eqb_eq in E. apply (tr_idx_inj _ _ _ TR _ _ Hq Hp') in E. now subst p'.
            * apply RD2; assumption. }
      split; [rewrite Hdn5; now rewrite Nat.eqb_refl|].
      split.
      { intros i Hdi. rewrite Hdn5. destruct (cur =? i)%nat; [reflexivity|]. apply M2. exact Hdi. }
      split.
      { intros q' Hq' Hq'd. rewrite Hdn5 in Hq'd. destruct (cur =? idx q')%nat eqn:E.
        - apply Nat.eqb_eq in E. apply (tr_idx_inj _ _ _ TR _ _ Hq Hq') in E. subst q'. right. lia.
        - destruct (B2 q' Hq' Hq'd) as [G|G]; [left; exact G|right; lia]. }
      split.
      { intros i. rewrite Hia5. destruct (cur =? i)%nat eqn:E.
        - apply Nat.eqb_eq in E. subst i. symmetry. exact Hiq.
        - rewrite I2, Hia1, E. reflexivity. }
      intros i Hdi. rewrite Hdn5 in Hdi. destruct (cur =? i)%nat eqn:E; [discriminate|].
      apply Nat.eqb_neq in E. rewrite Hbp5 by auto. rewrite F2 by auto. apply Hbo1. auto.
Qed.


(* ----- the initialisation loop ----- *)
Lemma rec_init_proj is : forall s,
  let s' := fold_left (rec_init_one Rnum fn) is s in
  fs_sig s' = fs_sig s /\ fs_bp s' = fs_bp s /\
  fs_done s' = fold_left (fun l i => upd i (i <? f_sensor fn)%nat l) is (fs_done s) /\
  fs_inact s' = fold_left (fun l i => upd i false l) is (fs_inact s).
Proof.
  induction is as [|i rest IH]; intros s; simpl; [auto|].
  destruct (IH (rec_init_one Rnum fn s i)) as (E1 & E2 & E3 & E4).
  unfold rec_init_one in *. destruct (f_sensor fn <=? i)%nat; simpl in *; auto.
Qed.

Lemma rec_init_RInv s :
  fbase n v fn idx s -> length (fs_done s) = N -> length (fs_inact s) = N ->
  RInv (rec_init Rnum fn s) /\ forall i, ia (rec_init Rnum fn s) i = false.
Proof.
  intros ((LS & LB) & _ & SV) LD LI. unfold rec_init. rewrite (tr_total _ _ _ TR).
  destruct (rec_init_proj (seq 0 N) s) as (E1 & E2 & E3 & E4).
  set (s0 := fold_left (rec_init_one Rnum fn) (seq 0 N) s) in *.
  assert (Hdn : forall i, (i < N)%nat -> dn s0 i = (i <? f_sensor fn)%nat).
  { intros i Hi. unfold dn, getB. rewrite E3.
    apply (fold_upd_at (fun i => (i <? f_sensor fn)%nat) false i); [apply seq_NoDup|apply in_seq; lia|lia]. }
  split.
  - split; [|split].
    + unfold lens4. rewrite E1, E2, E3, E4, !fold_upd_length. auto.
    + intros p Hp Hs. rewrite Hdn by (apply (tr_idx_lt _ _ _ TR); exact Hp).
      apply Nat.ltb_lt. apply (tr_sensor _ _ _ TR p Hp). exact Hs.
    + intros p Hp Hd. rewrite Hdn in Hd by (apply (tr_idx_lt _ _ _ TR); exact Hp).
      apply Nat.ltb_lt in Hd. apply (tr_sensor _ _ _ TR p Hp) in Hd.
      unfold sg. rewrite E1. apply SV; assumption.
  - intros i. unfold ia, getB. rewrite E4.
    destruct (Nat.lt_ge_cases i N) as [Hi|Hi].
    + apply (fold_upd_at (fun _ => false) false i); [apply seq_NoDup|apply in_seq; lia|lia].
    + apply nth_overflow. rewrite fold_upd_length. lia.
Qed.

Hypothesis outputs_bound : forall o, In o (outputs n) -> (dp o <= N)%nat.

Opaque rec_node.
Lemma rec_outputs_ok is : forall s last,
  RInv s -> (forall i, ia s i = false) -> (forall i, In i is -> (i < length (outputs n))%nat) ->
  exists s' r, rec_outputs Rnum act fn is last s = (s', Ok r) /\ RInv s' /\
    (forall i, dn s i = true -> dn s' i = true) /\
    (forall i, In i is -> dn s' (f_sensor fn + i)%nat = true).
Proof.
  induction is as [|i rest IH]; intros s last HR Hia His; simpl.
  - exists s, last. split; [reflexivity|]. split; [exact HR|]. split; [auto|]. intros i [].
  - assert (Hi : (i < length (outputs n))%nat) by (apply His; simpl; auto).
    set (o := nth i (outputs n) 0%nat).
    assert (Ho : In o (outputs n)) by (apply nth_In; exact Hi).
    pose proof (net_ok_outputs n (ff_ok _ _ _ FF) o Ho) as Hlt.
    rewrite <- (tr_outs _ _ _ TR i Hi). fold o. rewrite (tr_total _ _ _ TR).
    destruct (rec_node_ok (S N) s o Hlt) as (s1 & E1 & R1 & D1 & M1 & _ & I1 & _).
    + specialize (outputs_bound o Ho). lia.
    + exact HR.
    + intros q' _ Hq'. rewrite Hia in Hq'. discriminate.
    + rewrite E1.
      destruct (IH s1 true R1) as (s' & r & E' & R' & M' & D').
      * intros j. rewrite I1. apply Hia.
      * intros j Hj. apply His. simpl. auto.
      * exists s', r. split; [exact E'|]. split; [exact R'|]. split; [auto|].
        intros j [<-|Hj]; [|apply D'; exact Hj].
        apply M'. rewrite <- (tr_outs _ _ _ TR i Hi). exact D1.
Qed.
Transparent rec_node.

Theorem fast_recursive_from_base s :
  fbase n v fn idx s -> length (fs_done s) = N -> length (fs_inact s) = N ->
  exists s' r, fast_recursive Rnum act fn s = (s', Ok r) /\ fast_outputs Rnum fn s' = map v (outputs n).
Proof.
  intros B LD LI. unfold fast_recursive.
  destruct (rec_init_RInv s B LD LI) as [R0 I0].
  destruct (rec_outputs_ok (seq 0 (f_out fn)) (rec_init Rnum fn s) false R0 I0) as (s' & r & E & (_ & _ & RD) & _ & D).
  { intros i Hi. apply in_seq in Hi. rewrite <- (tr_out _ _ _ TR). lia. }
  exists s', r. split; [exact E|].
  unfold fast_outputs. rewrite (tr_out _ _ _ TR). apply map_seq_nth. intros i Hi.
  assert (Ho : In (nth i (outputs n) 0%nat) (outputs n)) by (apply nth_In; exact Hi).
  rewrite <- (tr_outs _ _ _ TR i Hi).
  apply RD; [exact (net_ok_outputs n (ff_ok _ _ _ FF) _ Ho)|].
  rewrite (tr_outs _ _ _ TR i Hi). apply D. apply in_seq. rewrite (tr_out _ _ _ TR). lia.
Qed.

End FastRecursive.
