(* C02 / C09: "Hsum" ([EpochTotalQuota.quota_sum_ok]) discharged for all ordinary fitness values.
     quota_total_le_adjusted     purgeZeroOffspringSpecies level (C09): hypotheses on the shared
                                 (adjusted) fitness values the pass reads
     quota_sum_ok_from_fitness   through Species.adjustFitness: hypotheses on the RAW fitness values
     epoch_succeeds_from_fitness / history_succeeds_from_fitness
                                 EpochTotal.epoch_succeeds / history_succeeds without Hsum
   The binary64 error analysis is in QuotaFloatSumA.v; the counterexample for subnormal fitness
   values (which the hypothesis "some value >= 2^-900" excludes) in QuotaFloatSum.v. *)
From NeatModel Require Import QuotaFloatSumA.
From NeatModel Require Import Compat.
From NeatModel Require Import Res F64 GoRand Genome Options Insert Dup Mutate Mate Population InsertSpec WF
     MutateMonad Registry MonadLemmas PopBase PopPrepare PopRepro PopFinal PopInv PopNoErr PopWF TapeLocal
     QuotaReal QuotaSpec QuotaFloat
     EpochTotalDefs EpochTotalFloat EpochTotalMut EpochTotalBaby EpochTotalQuota EpochTotal.
From Coq Require Import ZArith Reals Lra Lia Bool List Permutation Floats.
From Flocq Require Import Core BinarySingleNaN.
From NeatModel Require Import ActFloatBase FloatMono.
Import ListNotations.
Open Scope Z_scope.

Notation innovs := Genome.innovs.

(* ------------------------------------------------------------------------------------------ *)
(* 1. the chain over all species; the adjusted-level theorem *)
(* ------------------------------------------------------------------------------------------ *)
(* ---------- real sums ---------- *)
Lemma Rsum_perm l l' : Permutation l l' -> Rsum l = Rsum l'.
Proof. induction 1; unfold Rsum in *; cbn [fold_right]; lra. Qed.

Lemma Rsum_map_le {A} (f g : A -> R) l : (forall x, In x l -> (f x <= g x)%R) ->
  (Rsum (map f l) <= Rsum (map g l))%R.
Proof.
  induction l as [|x l IH]; intros H; unfold Rsum in *; cbn [map fold_right]; [lra|].
  specialize (H x (or_introl eq_refl)) as Hx. specialize (IH (fun y Hy => H y (or_intror Hy))). lra.
Qed.

Lemma Rsum_map_affine {A} (f : A -> R) c d l :
  Rsum (map (fun x => f x * c + d)%R l) = (Rsum (map f l) * c + INR (length l) * d)%R.
Proof.
  induction l as [|x l IH]; unfold Rsum in *; cbn [map fold_right length]; [cbn [INR]; lra|].
  rewrite IH, S_INR. lra.
Qed.

Lemma Rsum_map_divc {A} (f : A -> R) m l : Rsum (map (fun x => f x / m)%R l) = (Rsum (map f l) / m)%R.
Proof. rewrite <- (map_map f (fun r => r / m)%R). apply Rsum_map_div. Qed.

(* ---------- the chain over all species ---------- *)
(* the real value of organism k's ExpectedOffspring in heap h *)
Definition hexpR (h : list organism) (k : Z) : R :=
  match hget h k with Ok x => FR (o_exp x) | _ => 0%R end.

Lemma hgets_exps h ks orgs : hgets h ks = Ok orgs -> map FR (map o_exp orgs) = map (hexpR h) ks.
Proof.
  intros H. apply PopBase.hgets_ok in H. induction H as [|k x ks xs E _ IH]; [reflexivity|].
  cbn [map]. rewrite IH. unfold hexpR at 2. now rewrite E.
Qed.

Lemma count_all_bound h : forall l skim total l2 t,
  count_all h l skim total = Ok (l2, t) ->
  (forall k, In k (members l) -> exists x, hget h k = Ok x /\ exp_ok (o_exp x)) ->
  fin skim -> (0 <= FR skim < 1)%R ->
  (IZR t <= IZR total + FR skim + Rsum (map (hexpR h) (members l)) + INR (length (members l)) * u52)%R.
Proof.
  induction l as [|s l IH]; intros skim total l2 t H Hm Fs Hs.
  - cbn in H. injection H as _ <-. cbn [members map concat Rsum fold_right length INR]. lra.
  - apply count_all_cons_ok in H. destruct H as (orgs & e & skim' & l3 & H1 & H2 & H3 & ->).
    change (members (s :: l)) with (sp_orgs s ++ members l) in *.
    unfold count_offspring in H2.
    assert (Hf : Forall exp_ok (map o_exp orgs)).
    { apply Forall_forall. intros f Hf. apply in_map_iff in Hf. destruct Hf as (x & <- & Hx).
      destruct (PopBase.hgets_in _ _ _ _ H1 Hx) as [G K]. destruct (Hm (o_key x)) as (y & Gy & Ey); [apply in_or_app; now left|].
      rewrite G in Gy. injection Gy as <-. exact Ey. }
    destruct (count_gen_bound _ _ _ _ _ Hf Fs Hs H2) as (F' & R' & B).
    specialize (IH _ _ _ _ H3 (fun k Hk => Hm k (in_or_app _ _ _ (or_intror Hk))) F' R').
    rewrite map_app, Rsum_app, app_length, plus_INR, plus_IZR in *.
    rewrite (hgets_exps _ _ _ H1), map_length in B. rewrite <- (PopBase.hgets_keys _ _ _ H1), map_length.
    rewrite (PopBase.hgets_keys _ _ _ H1). change (IZR 0) with 0%R in B. lra.
Qed.

(* ... and no species' quota is negative: every conversion int(math.Floor(.)) in the chain is in range *)
Lemma count_all_nonneg_ok h : forall l skim total l2 t,
  count_all h l skim total = Ok (l2, t) ->
  (forall k, In k (members l) -> exists x, hget h k = Ok x /\ exp_ok (o_exp x)) ->
  fin skim -> (0 <= FR skim < 1)%R ->
  forall s, In s l2 -> 0 <= sp_exp s.
Proof.
  induction l as [|s0 l IH]; intros skim total l2 t H Hm Fs Hs s Hin.
  - cbn in H. injection H as <- _. destruct Hin.
  - apply count_all_cons_ok in H. destruct H as (orgs & e & skim' & l3 & H1 & H2 & H3 & ->).
    change (members (s0 :: l)) with (sp_orgs s0 ++ members l) in *.
    unfold count_offspring in H2.
    assert (Hf : Forall exp_ok (map o_exp orgs)).
    { apply Forall_forall. intros f Hf. apply in_map_iff in Hf. destruct Hf as (x & <- & Hx).
      destruct (PopBase.hgets_in _ _ _ _ H1 Hx) as [G K]. destruct (Hm (o_key x)) as (y & Gy & Ey); [apply in_or_app; now left|].
      rewrite G in Gy. injection Gy as <-. exact Ey. }
    destruct Hin as [<-|Hin].
    + cbn [sp_exp sp_with_exp]. pose proof (count_gen_lower _ _ _ _ _ Hf Fs Hs H2). lia.
    + destruct (count_gen_bound _ _ _ _ _ Hf Fs Hs H2) as (F' & R' & _).
      exact (IH _ _ _ _ H3 (fun k Hk => Hm k (in_or_app _ _ _ (or_intror Hk))) F' R' s Hin).
Qed.

(* ---------- "ordinary" adjusted fitness values ---------- *)
(* what purgeZeroOffspringSpecies reads: finite, 0 <= f <= 2^1000, one of them >= 2^-1000, at most
   2^20 organisms *)
Definition adj_ordinary (orgs : list organism) : Prop :=
  1 <= zlen orgs <= 2 ^ 20 /\
  (forall x, In x orgs -> fin (o_fit x) /\ (0 <= FR (o_fit x) <= bigM)%R) /\
  (exists x, In x orgs /\ (tiny <= FR (o_fit x))%R).

Lemma u52_val : u52 = (/ 4503599627370496)%R.
Proof. unfold u52. change (bpow radix2 (-52)) with (/ IZR (Z.pow_pos radix2 52))%R. f_equal. Qed.

Theorem quota_total_le_adjusted : forall p p' orgs sps T,
  purge_zero_offspring p = Ok p' ->
  hgets (p_heap p) (p_orgs p) = Ok orgs ->
  count_all (p_heap p') (p_species p) 0%float 0 = Ok (sps, T) ->
  Permutation (members (p_species p)) (p_orgs p) ->
  adj_ordinary orgs ->
  T <= zlen orgs.
Proof.
  intros p p' orgs sps T Hp Ho Hc Hperm (Hn & Hl & Hbig).
  unfold zlen in Hn.
  pose proof (avg_nonzero o_fit orgs Hn Hl Hbig) as Eavg. fold (pz_avg orgs) in Eavg.
  pose proof (expected_def p p' orgs Hp Ho Eavg) as Hdef. fold (pz_avg orgs) in Hdef.
  set (avg := pz_avg orgs) in *.
  (* the heap after the pass, on the organisms of the population *)
  assert (Hexp : forall x, In x orgs -> hexpR (p_heap p') (o_key x) = FR (o_fit x / avg)%float).
  { intros x Hx. unfold hexpR. rewrite (proj1 (Hdef x Hx)). reflexivity. }
  assert (Hok : forall k, In k (members (p_species p)) -> exists x, hget (p_heap p') k = Ok x /\ exp_ok (o_exp x)).
  { intros k Hk. apply (Permutation_in _ Hperm) in Hk. rewrite <- (PopBase.hgets_keys _ _ _ Ho) in Hk.
    apply in_map_iff in Hk. destruct Hk as (x & <- & Hx). eexists. split; [exact (proj1 (Hdef x Hx))|].
    cbn [o_exp o_with_exp]. destruct (quot_facts o_fit orgs Hn Hl Hbig x Hx) as (F & [R0 R1] & _).
    split; [exact F|]. split; [exact R0|]. apply Rle_lt_trans with (1 := R1). apply bpow_lt. lia. }
  pose proof (count_all_bound _ _ _ _ _ _ Hc Hok fin_zero) as B. rewrite FR_zero in B.
  specialize (B ltac:(lra)). change (IZR 0) with 0%R in B.
  rewrite (Permutation_length Hperm) in B.
  rewrite (Rsum_perm _ _ (Permutation_map (hexpR (p_heap p')) Hperm)) in B.
  rewrite <- (PopBase.hgets_keys _ _ _ Ho) in B. rewrite map_map, map_length in B.
  rewrite (map_ext_in _ _ _ Hexp) in B.
  (* the sum of the rounded quotients *)
  set (a := FR avg) in *.
  assert (S1 : (Rsum (map (fun x => FR (o_fit x / avg)%float) orgs)
                <= Rsum (map (fun x => FR (o_fit x) / a * (1 + uu) + eta) orgs))%R).
  { apply Rsum_map_le. intros x Hx. exact (proj2 (proj2 (quot_facts o_fit orgs Hn Hl Hbig x Hx))). }
  rewrite (Rsum_map_affine (fun x => FR (o_fit x) / a)%R) in S1. rewrite Rsum_map_divc in S1.
  assert (Q : (Rsum (map (fun x => FR (o_fit x)) orgs) / a <= IZR (Z.of_nat (length orgs)) + / 2048)%R)
    by exact (quot_sum_bound o_fit orgs Hn Hl Hbig).
  destruct (avg_sum_facts o_fit orgs Hn Hl Hbig) as (_ & _ & _ & _ & F0).
  assert (Ap : (0 < a)%R) by exact (proj1 (proj2 (avg_facts o_fit orgs Hn Hl Hbig))).
  set (q := (Rsum (map (fun x => FR (o_fit x)) orgs) / a)%R) in *.
  assert (Q0 : (0 <= q)%R) by (apply Rmult_le_pos; [exact F0|left; now apply Rinv_0_lt_compat]).
  rewrite INR_Z in *. set (n := Z.of_nat (length orgs)) in *.
  assert (N1 : (1 <= IZR n <= 1048576)%R) by (split; apply IZR_le; lia).
  pose proof eta_le as Et. pose proof uu_val as Uv. pose proof u52_val as U52.
  assert (M1 : (q * (1 + uu) <= (IZR n + / 2048) * (1 + uu))%R) by (apply Rmult_le_compat_r; [rewrite Uv|]; lra).
  assert (M2 : (IZR n * eta <= 1048576 * eta)%R) by (apply Rmult_le_compat_r; lra).
  assert (M3 : (IZR n * uu <= 1048576 * uu)%R) by (apply Rmult_le_compat_r; [rewrite Uv|]; lra).
  assert (M4 : (IZR n * u52 <= 1048576 * u52)%R) by (apply Rmult_le_compat_r; [rewrite U52|]; lra).
  assert (L : (IZR T < IZR (n + 1))%R).
  { rewrite plus_IZR. rewrite Uv, U52 in *. lra. }
  apply lt_IZR in L. unfold zlen. fold n. lia.
Qed.

(* under the same hypotheses no quota the chain computes is negative (every ExpectedOffspring is a
   finite value in [0, 2^21]: the conversions int(math.Floor(.)) are all in range) *)
Theorem quota_nonneg_adjusted : forall p p' orgs sps T,
  purge_zero_offspring p = Ok p' ->
  hgets (p_heap p) (p_orgs p) = Ok orgs ->
  count_all (p_heap p') (p_species p) 0%float 0 = Ok (sps, T) ->
  Permutation (members (p_species p)) (p_orgs p) ->
  adj_ordinary orgs ->
  forall s, In s sps -> 0 <= sp_exp s.
Proof.
  intros p p' orgs sps T Hp Ho Hc Hperm (Hn & Hl & Hbig).
  unfold zlen in Hn.
  pose proof (avg_nonzero o_fit orgs Hn Hl Hbig) as Eavg. fold (pz_avg orgs) in Eavg.
  pose proof (expected_def p p' orgs Hp Ho Eavg) as Hdef. fold (pz_avg orgs) in Hdef.
  set (avg := pz_avg orgs) in *.
  assert (Hok : forall k, In k (members (p_species p)) -> exists x, hget (p_heap p') k = Ok x /\ exp_ok (o_exp x)).
  { intros k Hk. apply (Permutation_in _ Hperm) in Hk. rewrite <- (PopBase.hgets_keys _ _ _ Ho) in Hk.
    apply in_map_iff in Hk. destruct Hk as (x & <- & Hx). eexists. split; [exact (proj1 (Hdef x Hx))|].
    cbn [o_exp o_with_exp]. destruct (quot_facts o_fit orgs Hn Hl Hbig x Hx) as (F & [R0 R1] & _).
    split; [exact F|]. split; [exact R0|]. apply Rle_lt_trans with (1 := R1). apply bpow_lt. lia. }
  apply (count_all_nonneg_ok _ _ _ _ _ _ Hc Hok fin_zero). rewrite FR_zero. lra.
Qed.

(* ------------------------------------------------------------------------------------------ *)
(* 2. Species.adjustFitness on one ordinary raw value *)
(* ------------------------------------------------------------------------------------------ *)
(* ---------- ranges through one multiplication / one division by float64(n) ---------- *)
Lemma mul_range x c hi a b : fin x -> fin c -> (0 <= FR x <= bpow radix2 hi)%R ->
  (bpow radix2 a <= FR c <= bpow radix2 b)%R -> -1000 <= hi + b <= 1000 ->
  fin (x * c)%float /\ (0 <= FR (x * c)%float <= bpow radix2 (hi + b))%R /\
  forall lo, (bpow radix2 lo <= FR x)%R -> -1000 <= lo + a <= 1000 -> (bpow radix2 (lo + a) <= FR (x * c)%float)%R.
Proof.
  intros Fx Fc [X0 X1] [C0 C1] Hb.
  pose proof (bpow_gt_0 radix2 a) as Pa.
  assert (P : (0 <= FR x * FR c <= bpow radix2 (hi + b))%R).
  { split; [apply Rmult_le_pos; lra|]. rewrite bpow_plus. apply Rmult_le_compat; lra. }
  assert (Rp : (0 <= rnd (FR x * FR c) <= bpow radix2 (hi + b))%R).
  { split; [apply rnd_nonneg; apply P|]. rewrite <- (rnd_bpow (hi + b)) by lia. apply rnd_le, P. }
  destruct (mul_R x c Fx Fc) as [E F].
  { rewrite Rabs_pos_eq by apply Rp. apply Rle_lt_trans with (1 := proj2 Rp). apply bpow_lt. unfold emax. lia. }
  split; [exact F|]. rewrite E. split; [exact Rp|].
  intros lo L Hlo. rewrite <- (rnd_bpow (lo + a)) by lia. apply rnd_le. rewrite bpow_plus.
  pose proof (bpow_gt_0 radix2 lo). apply Rmult_le_compat; lra.
Qed.

Lemma div_range x n hi : fin x -> (0 <= FR x <= bpow radix2 hi)%R -> 1 <= n <= 2 ^ 20 -> -1000 <= hi <= 1000 ->
  fin (x / f_of_Z n)%float /\ (0 <= FR (x / f_of_Z n)%float <= bpow radix2 hi)%R /\
  forall lo, (bpow radix2 lo <= FR x)%R -> -1000 <= lo - 20 <= 1000 -> (bpow radix2 (lo - 20) <= FR (x / f_of_Z n)%float)%R.
Proof.
  intros Fx [X0 X1] Hn Hhi. destruct (f_of_Z_exact n) as [Fd Ed]; [lia|].
  assert (N1 : (1 <= IZR n)%R) by (apply IZR_le; lia).
  assert (N2 : (IZR n <= bpow radix2 20)%R) by (change (bpow radix2 20) with (IZR (2 ^ 20)); apply IZR_le; lia).
  destruct (div_cases x (f_of_Z n)) as [[Fq Q0] Eq]; [split; [exact Fx|exact X0]|exact Fd|rewrite Ed; exact N1|].
  rewrite Ed in Eq. split; [exact Fq|]. split; [split; [exact Q0|]|].
  - rewrite Eq. rewrite <- (rnd_bpow hi) by lia. apply rnd_le. apply Rle_trans with (2 := X1).
    apply Rmult_le_reg_r with (IZR n); [lra|]. unfold Rdiv. rewrite Rmult_assoc, Rinv_l, Rmult_1_r by lra. nra.
  - intros lo L Hlo. rewrite Eq. rewrite <- (rnd_bpow (lo - 20)) by lia. apply rnd_le.
    unfold Zminus. rewrite bpow_plus, bpow_opp. pose proof (bpow_gt_0 radix2 lo). pose proof (bpow_gt_0 radix2 20).
    unfold Rdiv. apply Rmult_le_compat; try lra.
    + left. now apply Rinv_0_lt_compat.
    + apply Rinv_le_contravar; lra.
Qed.

Lemma c001_range : fin c001 /\ (bpow radix2 (-7) <= FR c001 <= bpow radix2 (-6))%R.
Proof.
  split; [fin_c|]. unfold c001. rewrite FR_SF.
  let v := eval vm_compute in (Prim2SF 0x1.47ae147ae147bp-7%float) in change (Prim2SF 0x1.47ae147ae147bp-7%float) with v.
  unfold SF2R, F2R. cbn [cond_Zopp Fnum Fexp].
  replace (bpow radix2 (-7)) with (IZR (2 ^ 52) * bpow radix2 (-59))%R
    by (change (IZR (2 ^ 52)) with (bpow radix2 52); rewrite <- bpow_plus; reflexivity).
  replace (bpow radix2 (-6)) with (IZR (2 ^ 53) * bpow radix2 (-59))%R
    by (change (IZR (2 ^ 53)) with (bpow radix2 53); rewrite <- bpow_plus; reflexivity).
  pose proof (bpow_gt_0 radix2 (-59)). split; apply Rmult_le_compat_r; try lra; apply IZR_le; lia.
Qed.

Lemma not_ltb0 f : fin f -> (0 <= FR f)%R -> PrimFloat.ltb f 0%float = false.
Proof. intros F H. rewrite ltb_R by auto using fin_zero. rewrite FR_zero. now apply Rlt_bool_false. Qed.

(* Species.adjustFitness on one ordinary raw fitness value *)
Lemma adj_fit_bounds o age debt n f :
  fin (o_age_sig o) -> (bpow radix2 (-32) <= FR (o_age_sig o) <= bpow radix2 32)%R -> 1 <= n <= 2 ^ 20 ->
  fin f -> (0 <= FR f <= bpow radix2 900)%R ->
  fin (adj_fit o age debt n f) /\ (0 <= FR (adj_fit o age debt n f) <= bigM)%R /\
  ((bpow radix2 (-900) <= FR f)%R -> (tiny <= FR (adj_fit o age debt n f))%R).
Proof.
  intros Fs Hs Hn Ff [F0 F1]. unfold adj_fit. destruct c001_range as [Fc Hc].
  set (f1 := if Z.geb debt 1 then PrimFloat.mul f c001 else f).
  assert (H1 : fin f1 /\ (0 <= FR f1 <= bpow radix2 900)%R /\ ((bpow radix2 (-900) <= FR f)%R -> (bpow radix2 (-907) <= FR f1)%R)).
  { unfold f1. destruct (Z.geb debt 1).
    - destruct (mul_range f c001 900 (-7) (-6) Ff Fc (conj F0 F1) Hc) as (A & [B0 B1] & C); [lia|].
      split; [exact A|]. split; [split; [exact B0|]|].
      + apply Rle_trans with (1 := B1). apply bpow_le. lia.
      + intros L. apply (C (-900) L). lia.
    - split; [exact Ff|]. split; [now split|]. intros L. apply Rle_trans with (2 := L). apply bpow_le. lia. }
  clearbody f1. destruct H1 as (Ff1 & [A0 A1] & L1).
  set (f2 := if Z.leb age 10 then PrimFloat.mul f1 (o_age_sig o) else f1).
  assert (H2 : fin f2 /\ (0 <= FR f2 <= bpow radix2 932)%R /\ ((bpow radix2 (-900) <= FR f)%R -> (bpow radix2 (-939) <= FR f2)%R)).
  { unfold f2. destruct (Z.leb age 10).
    - destruct (mul_range f1 (o_age_sig o) 900 (-32) 32 Ff1 Fs (conj A0 A1) Hs) as (A & B & C); [lia|].
      split; [exact A|]. split; [exact B|]. intros L. apply (C (-907) (L1 L)). lia.
    - split; [exact Ff1|]. split; [split; [exact A0|]|].
      + apply Rle_trans with (1 := A1). apply bpow_le. lia.
      + intros L. apply Rle_trans with (2 := L1 L). apply bpow_le. lia. }
  clearbody f2. destruct H2 as (Ff2 & [B0 B1] & L2).
  rewrite (not_ltb0 f2 Ff2 B0).
  destruct (div_range f2 n 932 Ff2 (conj B0 B1) Hn) as (A & [D0 D1] & C); [lia|].
  split; [exact A|]. split; [split; [exact D0|]|].
  - apply Rle_trans with (1 := D1). apply bpow_le. lia.
  - intros L. apply Rle_trans with (2 := C (-939) (L2 L) ltac:(lia)). apply bpow_le. lia.
Qed.

(* ------------------------------------------------------------------------------------------ *)
(* 3. through adjust_all: Hsum from the raw fitness values *)
(* ------------------------------------------------------------------------------------------ *)
(* ---------- Species.adjustFitness: what it writes into Organism.Fitness ---------- *)
Lemma af_marked_in_key sorted np y : In y (af_marked sorted np) ->
  exists x, In x sorted /\ o_key y = o_key x /\ o_fit y = o_fit x.
Proof.
  unfold af_marked. intros H.
  assert (G : exists z, In z (mark_elim sorted 0 np) /\ o_key y = o_key z /\ o_fit y = o_fit z).
  { destruct (mark_elim sorted 0 np) as [|t r]; [destruct H|]. destruct H as [<-|H].
    - exists t. split; [now left|split; reflexivity].
    - exists y. split; [now right|split; reflexivity]. }
  destruct G as (z & Hz & E1 & E2). apply mark_elim_in in Hz. destruct Hz as (x & Hx & [->| ->]); exists x; auto.
Qed.

Lemma adjust_fitness_fit_eq o h s h' s' :
  adjust_fitness o h s = Ok (h', s') ->
  forall k y, hget h' k = Ok y ->
    (In k (sp_orgs s) /\ exists x0 age debt, hget h k = Ok x0 /\
                          o_fit y = adj_fit o age debt (zlen (sp_orgs s)) (o_fit x0))
    \/ (~ In k (sp_orgs s) /\ hget h k = Ok y).
Proof.
  intros H k y Hg. apply adjust_fitness_unfold in H. destruct H as (orgs & age & debt & np & G & ->).
  pose proof (PopBase.hget_key _ _ _ Hg) as Ky.
  apply hget_hsets_cases in Hg. destruct Hg as [Hi|[N Hg]].
  - left. apply af_marked_in_key in Hi. destruct Hi as (x & Hx & K & E).
    apply (Permutation_in _ (PopBase.sort_desc_perm org_lt _)) in Hx. apply in_map_iff in Hx. destruct Hx as (x0 & <- & Hx0).
    destruct (PopBase.hgets_in _ _ _ _ G Hx0) as [G0 I0].
    change (o_key (adjust_one o age debt (zlen orgs) x0)) with (o_key x0) in K.
    rewrite <- Ky, K. split; [exact I0|]. exists x0, age, debt. split; [exact G0|].
    rewrite E, adjust_one_fit_eq. unfold zlen. now rewrite (QuotaSpec.hgets_length _ _ _ G).
  - right. split; [|exact Hg]. intros Hk. apply N. rewrite af_marked_keys.
    rewrite <- (PopBase.hgets_keys _ _ _ G) in Hk. apply in_map_iff in Hk. destruct Hk as (x0 & <- & Hx0).
    apply in_map_iff. exists (adjust_one o age debt (zlen orgs) x0). split; [reflexivity|].
    apply (Permutation_in _ (Permutation_sym (PopBase.sort_desc_perm org_lt _))). now apply in_map.
Qed.

Lemma adjust_all_fit_eq o : forall l h h2 l2, adjust_all o h l = Ok (h2, l2) -> NoDup (members l) ->
  forall k y, hget h2 k = Ok y ->
    (In k (members l) /\ exists s x0 age debt, In s l /\ In k (sp_orgs s) /\ hget h k = Ok x0 /\
                           o_fit y = adj_fit o age debt (zlen (sp_orgs s)) (o_fit x0))
    \/ (~ In k (members l) /\ hget h k = Ok y).
Proof.
  induction l as [|s l IH]; intros h h2 l2 H Hnd k y Hg; cbn [adjust_all] in H.
  - injection H as <- _. right. split; [intros []|exact Hg].
  - rbind H as r Hr. destruct r as [h1 s1]. rbind H as r2 Hr2. destruct r2 as [h2' l2']. injection H as <- _.
    change (members (s :: l)) with (sp_orgs s ++ members l) in *.
    destruct (PopBase.nodup_app_inv _ _ Hnd) as (N1 & N2 & N3).
    destruct (IH _ _ _ Hr2 N2 _ _ Hg) as [[Hk (s0 & x1 & age & debt & Hs0 & Hk0 & G1 & E)]|[Hk G1]].
    + destruct (adjust_fitness_fit_eq _ _ _ _ _ Hr _ _ G1) as [[Hk' _]|[_ G0]]; [exfalso; exact (N3 k Hk' Hk)|].
      left. split; [apply in_or_app; now right|]. exists s0, x1, age, debt. split; [now right|]. auto.
    + destruct (adjust_fitness_fit_eq _ _ _ _ _ Hr _ _ G1) as [[Hk' (x0 & age & debt & G0 & E)]|[Hk' G0]].
      * left. split; [apply in_or_app; now left|]. exists s, x0, age, debt. split; [now left|]. auto.
      * right. split; [|exact G0]. intros Hi. apply in_app_or in Hi. destruct Hi; auto.
Qed.

(* ---------- species members and Population.Organisms ---------- *)
Lemma members_sim l l1 : Forall2 sp_sim l l1 -> Permutation (members l) (members l1).
Proof.
  induction 1 as [|a b l l1 S _ IH]; [constructor|].
  change (Permutation (sp_orgs a ++ members l) (sp_orgs b ++ members l1)). apply Permutation_app; [apply S|exact IH].
Qed.

Lemma part_members_perm p : Part p -> Permutation (members (p_species p)) (p_orgs p).
Proof.
  intros HP. apply NoDup_Permutation; [apply HP|apply HP|]. intros k. split.
  - intros Hk. apply members_in in Hk. destruct Hk as (s & Hs & Hk). eapply part_incl; eauto.
  - intros Hk. destruct (part_heap _ HP k Hk) as (x & Hx & _). destruct (part_back _ HP k x Hk Hx) as (s & Hs & _ & Hi).
    apply members_in. eauto.
Qed.

(* ---------- "ordinary" raw fitness values ---------- *)
Definition cm900 : PrimFloat.float := 0x1p-900%float.
Definition cm32 : PrimFloat.float := 0x1p-32%float.
Definition c32 : PrimFloat.float := 0x1p+32%float.
Lemma FR_cm900 : FR cm900 = bpow radix2 (-900). Proof. apply FR_pow2_const. vm_compute. reflexivity. Qed.
Lemma FR_cm32 : FR cm32 = bpow radix2 (-32). Proof. apply FR_pow2_const. vm_compute. reflexivity. Qed.
Lemma FR_c32 : FR c32 = bpow radix2 32. Proof. apply FR_pow2_const. vm_compute. reflexivity. Qed.
Lemma fin_cm900 : fin cm900. Proof. fin_c. Qed.
Lemma fin_cm32 : fin cm32. Proof. fin_c. Qed.
Lemma fin_c32 : fin c32. Proof. fin_c. Qed.

(* lo <= x as floats, for a finite lo = 2^a: x is finite with value >= 2^a, or +infinity *)
Lemma leb_const_lower lo a x : FR lo = bpow radix2 a -> fin lo -> PrimFloat.leb lo x = true ->
  pinf x \/ (fin x /\ (bpow radix2 a <= FR x)%R).
Proof.
  intros E F H. assert (X : ext lo) by (left; split; [exact F|rewrite E; left; apply bpow_gt_0]).
  destruct (leb_ext_inv lo x X H) as [[_ P]|[_ [[Fx _] L]]]; [now left|right]. split; [exact Fx|now rewrite <- E].
Qed.

Lemma between_consts lo hi a b x : FR lo = bpow radix2 a -> fin lo -> FR hi = bpow radix2 b -> fin hi ->
  PrimFloat.leb lo x = true -> PrimFloat.leb x hi = true -> fin x /\ (bpow radix2 a <= FR x <= bpow radix2 b)%R.
Proof.
  intros El Fl Eh Fh H1 H2. destruct (leb_const_lower lo a x El Fl H1) as [P|[Fx L]].
  - exfalso. destruct (leb_ext_inv x hi (or_intror P) H2) as [[_ Ph]|[[Fx _] _]].
    + exact (pinf_not_fin hi Ph Fh).
    + exact (pinf_not_fin x P Fx).
  - split; [exact Fx|]. split; [exact L|]. rewrite <- Eh. now apply leb_true_R.
Qed.

(* a raw fitness value the theorem covers: finite, 0 <= f <= 2^900 *)
Definition fit_ordinary (f : PrimFloat.float) : Prop := PrimFloat.leb 0%float f = true /\ PrimFloat.leb f c900 = true.
(* ... and not vanishingly small: f >= 2^-900 *)
Definition fit_sizable (f : PrimFloat.float) : Prop := PrimFloat.leb cm900 f = true.
(* AgeSignificance between 2^-32 and 2^32 *)
Definition sig_ordinary (o : options) : Prop :=
  PrimFloat.leb cm32 (o_age_sig o) = true /\ PrimFloat.leb (o_age_sig o) c32 = true.

Definition fitness_ordinary (o : options) (p : population) : Prop :=
  zlen (p_orgs p) <= 2 ^ 20 /\ sig_ordinary o /\
  (forall k x, In k (p_orgs p) -> hget (p_heap p) k = Ok x -> fit_ordinary (o_fit x)) /\
  (exists k x, In k (p_orgs p) /\ hget (p_heap p) k = Ok x /\ fit_sizable (o_fit x)).

Lemma fit_ordinary_R f : fit_ordinary f -> fin f /\ (0 <= FR f <= bpow radix2 900)%R.
Proof.
  intros [H0 H1]. destruct (thr_bounds f c900 900 FR_c900 fin_c900 H0 H1) as [[F P] U]. split; [exact F|now split].
Qed.

Lemma fit_sizable_R f : fit_ordinary f -> fit_sizable f -> (bpow radix2 (-900) <= FR f)%R.
Proof.
  intros [_ H1] H. exact (proj1 (proj2 (between_consts cm900 c900 (-900) 900 f FR_cm900 fin_cm900 FR_c900 fin_c900 H H1))).
Qed.

Lemma sig_ordinary_R o : sig_ordinary o -> fin (o_age_sig o) /\ (bpow radix2 (-32) <= FR (o_age_sig o) <= bpow radix2 32)%R.
Proof. intros [H0 H1]. exact (between_consts cm32 c32 (-32) 32 _ FR_cm32 fin_cm32 FR_c32 fin_c32 H0 H1). Qed.

(* ---------- Hsum from the raw fitness values ---------- *)
Theorem quota_sum_ok_from_fitness : forall o p,
  Part p -> zlen (p_orgs p) = o_pop_size o -> fitness_ordinary o p -> quota_sum_ok o p.
Proof.
  intros o p HP Hsz (Hn & Hsig & Hall & Hex) h1 sps1 p2 sps T Ea Ez Hc.
  destruct (sig_ordinary_R o Hsig) as [Fs Rs].
  destruct (purge_zero_unfold _ _ Ez) as (orgs & _ & _ & Ho & _). cbn [p_heap p_orgs p_with] in Ho.
  pose proof (adjust_all_ok _ _ _ _ _ Ea) as [_ S1].
  assert (Hperm : Permutation (members sps1) (p_orgs p)).
  { etransitivity; [symmetry; apply members_sim; exact S1|now apply part_members_perm]. }
  assert (Elen : zlen orgs = zlen (p_orgs p)) by (unfold zlen; now rewrite (QuotaSpec.hgets_length _ _ _ Ho)).
  (* every organism's adjusted fitness is adj_fit of its raw fitness, for a species size in [1, 2^20] *)
  assert (G : forall x, In x orgs -> exists x0 age debt n,
             hget (p_heap p) (o_key x) = Ok x0 /\ 1 <= n <= 2 ^ 20 /\ o_fit x = adj_fit o age debt n (o_fit x0)).
  { intros x Hx. destruct (PopBase.hgets_in _ _ _ _ Ho Hx) as [G1 Hk].
    destruct (adjust_all_fit_eq _ _ _ _ _ Ea (part_once _ HP) _ _ G1) as [[_ (s & x0 & age & debt & Hs & Hks & G0 & E)]|[N _]].
    - exists x0, age, debt, (zlen (sp_orgs s)). split; [exact G0|]. split; [|exact E].
      assert (Nd : NoDup (sp_orgs s)) by (apply (nodup_concat_in (map sp_orgs (p_species p))); [apply HP|now apply in_map]).
      assert (L : (length (sp_orgs s) <= length (p_orgs p))%nat).
      { apply NoDup_incl_length; [exact Nd|]. intros k Hk'. eapply part_incl; eauto. }
      unfold zlen in *. destruct (sp_orgs s); [destruct Hks|]. cbn [length] in *. lia.
    - exfalso. apply N. apply (Permutation_in _ (Permutation_sym (part_members_perm p HP))). exact Hk. }
  assert (Hadj : adj_ordinary orgs).
  { destruct Hex as (k & x0 & Hk & G0 & Hb).
    split; [|split].
    - rewrite Elen. split; [|exact Hn]. unfold zlen. destruct (p_orgs p); [destruct Hk|]. cbn [length]. lia.
    - intros x Hx. destruct (G x Hx) as (y0 & age & debt & n & Gy & Hn' & ->).
      destruct (PopBase.hgets_in _ _ _ _ Ho Hx) as [_ Hkx].
      destruct (fit_ordinary_R _ (Hall _ _ Hkx Gy)) as [Fy Ry].
      destruct (adj_fit_bounds o age debt n (o_fit y0) Fs Rs Hn' Fy Ry) as (A & B & _). now split.
    - rewrite <- (PopBase.hgets_keys _ _ _ Ho) in Hk. apply in_map_iff in Hk. destruct Hk as (x & Kx & Hx).
      exists x. split; [exact Hx|]. destruct (G x Hx) as (y0 & age & debt & n & Gy & Hn' & ->).
      rewrite Kx, G0 in Gy. injection Gy as <-.
      destruct (PopBase.hgets_in _ _ _ _ Ho Hx) as [_ Hkx]. rewrite Kx in Hkx.
      pose proof (Hall _ _ Hkx G0) as Hord. destruct (fit_ordinary_R _ Hord) as [Fy Ry].
      destruct (adj_fit_bounds o age debt n (o_fit x0) Fs Rs Hn' Fy Ry) as (_ & _ & C).
      apply C. now apply fit_sizable_R. }
  split.
  - rewrite <- Hsz, <- Elen.
    exact (quota_total_le_adjusted (p_with p sps1 (p_detached p) (p_orgs p) h1) p2 orgs sps T Ez Ho Hc Hperm Hadj).
  - exact (quota_nonneg_adjusted (p_with p sps1 (p_detached p) (p_orgs p) h1) p2 orgs sps T Ez Ho Hc Hperm Hadj).
Qed.

(* ------------------------------------------------------------------------------------------ *)
(* 4. epochs and runs *)
(* ------------------------------------------------------------------------------------------ *)

(* ---------- one epoch ---------- *)
Theorem epoch_succeeds_from_fitness C o gen p x s R NR :
  Part p -> Fresh p -> zlen (p_orgs p) = o_pop_size o -> 0 < o_pop_size o < 2 ^ 31 ->
  GInv C p (s_env s) R NR -> records_traits_ok (s_env s) (zlen (c_tshape C)) ->
  acts_ok o -> survivors_ok o -> PrimFloat.eqb (o_compat_thresh o) 0 = false ->
  fitness_ordinary o p -> tape_ok (s_tape s) ->
  (exists r, next_epoch o gen p x s = Ok r) \/ next_epoch o gen p x s = OutOfTape.
Proof.
  intros HP Fr Hsz Hpop G Hrec HA Sv Hc Hf Ht.
  apply (epoch_succeeds C o gen p x s R NR); auto. now apply quota_sum_ok_from_fitness.
Qed.

(* ---------- the evaluator's write-back ---------- *)
Lemma set_fitness_other : forall ks fs h h' k, set_fitness h ks fs = Ok h' -> ~ In k ks -> hget h' k = hget h k.
Proof.
  induction ks as [|k0 ks IH]; intros fs h h' k H N; cbn [set_fitness] in H; [now injection H as <-|].
  destruct fs as [|f fs]; [now injection H as <-|]. rbind H as y E.
  rewrite (IH _ _ _ _ H) by (intros C; apply N; now right).
  rewrite PopBase.hget_hset. cbn [o_key o_with_fit]. rewrite (PopBase.hget_key _ _ _ E).
  destruct (Z.eqb_spec k k0) as [->|_]; [exfalso; apply N; now left|reflexivity].
Qed.

Lemma set_fitness_values : forall ks fs h h', set_fitness h ks fs = Ok h' -> NoDup ks -> length ks = length fs ->
  Forall2 (fun k f => exists y, hget h' k = Ok y /\ o_fit y = f) ks fs.
Proof.
  induction ks as [|k ks IH]; intros fs h h' H Hnd Hlen; destruct fs as [|f fs]; try discriminate Hlen; [constructor|].
  cbn [set_fitness] in H. rbind H as y E. inversion Hnd as [|? ? Nk Nd]; subst. constructor.
  - rewrite (set_fitness_other _ _ _ _ _ H Nk). rewrite PopBase.hget_hset. cbn [o_key o_with_fit].
    rewrite (PopBase.hget_key _ _ _ E), Z.eqb_refl. eexists. split; reflexivity.
  - apply (IH _ _ _ H Nd). cbn in Hlen. lia.
Qed.

Lemma Forall2_In_l {A B} (R : A -> B -> Prop) l l' a : Forall2 R l l' -> In a l -> exists b, In b l' /\ R a b.
Proof.
  induction 1 as [|x y l l' H _ IH]; intros Hi; [destruct Hi|]. destruct Hi as [<-|Hi].
  - exists y. split; [now left|exact H].
  - destruct (IH Hi) as (b & Hb & Rb). exists b. split; [now right|exact Rb].
Qed.

Lemma Forall2_In_r {A B} (R : A -> B -> Prop) l l' b : Forall2 R l l' -> In b l' -> exists a, In a l /\ R a b.
Proof.
  induction 1 as [|x y l l' H _ IH]; intros Hi; [destruct Hi|]. destruct Hi as [<-|Hi].
  - exists x. split; [now left|exact H].
  - destruct (IH Hi) as (a & Ha & Ra). exists a. split; [now right|exact Ra].
Qed.

(* one round's fitness list as the caller assigns it: one value per organism, every value finite
   with 0 <= f <= 2^900, and at least one value >= 2^-900 *)
Definition fs_ordinary (o : options) (fs : list PrimFloat.float) : Prop :=
  Z.of_nat (length fs) = o_pop_size o /\ Forall fit_ordinary fs /\ Exists fit_sizable fs.

Lemma fitness_ordinary_set o p fs h :
  NoDup (p_orgs p) -> zlen (p_orgs p) = o_pop_size o -> o_pop_size o <= 2 ^ 20 -> sig_ordinary o ->
  fs_ordinary o fs -> set_fitness (p_heap p) (p_orgs p) fs = Ok h -> fitness_ordinary o (p_with_heap p h).
Proof.
  intros Hnd Hsz Hpop Hsig (Hlen & Hall & Hex) Eh.
  pose proof (set_fitness_values _ _ _ _ Eh Hnd ltac:(unfold zlen in Hsz; lia)) as V.
  split; [cbn [p_orgs p_with_heap p_with]; lia|]. split; [exact Hsig|]. cbn [p_orgs p_heap p_with_heap p_with]. split.
  - intros k y Hk Gy. destruct (Forall2_In_l _ _ _ _ V Hk) as (f & Hf & y' & Gy' & <-).
    rewrite Gy in Gy'. injection Gy' as <-. exact (proj1 (Forall_forall _ _) Hall _ Hf).
  - apply Exists_exists in Hex. destruct Hex as (f & Hf & Hb).
    destruct (Forall2_In_r _ _ _ _ V Hf) as (k & Hk & y & Gy & <-). eauto.
Qed.

(* ---------- whole runs ---------- *)
Lemma quota_run_ok_from_fitness C o : o_pop_size o <= 2 ^ 20 -> sig_ordinary o ->
  forall steps p x s, run_inv C o p s -> Forall (fun st => fs_ordinary o (fst st)) steps -> quota_run_ok o steps p x s.
Proof.
  intros Hpop Hsig. induction steps as [|[fs gen] rest IH]; intros p x s I Hs; cbn [quota_run_ok]; [exact Logic.I|].
  inversion Hs as [|? ? Hfs Hrest]; subst. cbn [fst] in Hfs. intros h Eh.
  pose proof (run_inv_fitness _ _ _ _ _ _ I Eh) as I1. split.
  - apply quota_sum_ok_from_fitness; [apply I1|apply I1|].
    apply fitness_ordinary_set with (fs := fs); auto; apply I.
  - intros p' x' s' E. apply IH; [eapply run_inv_step; eauto|exact Hrest].
Qed.

Theorem history_succeeds_from_fitness o g s0 steps x p s :
  wf g -> innovs (s_env s0) = [] -> tape_ok (s_tape s0) ->
  0 < o_pop_size o <= 2 ^ 20 -> sig_ordinary o -> acts_ok o -> survivors_ok o ->
  PrimFloat.eqb (o_compat_thresh o) 0 = false ->
  new_population o g s0 = Ok (p, s) ->
  Forall (fun st => fs_ordinary o (fst st)) steps ->
  (exists r, PopInv.run_epochs o steps p x s = Ok r) \/ PopInv.run_epochs o steps p x s = OutOfTape.
Proof.
  intros W Ei Ht Hpop Hsig HA Sv Hc H Hs.
  apply (history_succeeds o g s0 steps x p s); auto; [lia|].
  apply (quota_run_ok_from_fitness (ctx_of g)); [lia|exact Hsig| |exact Hs]. eapply run_inv_spawn; eauto.
Qed.

(* ------------------------------------------------------------------------------------------ *)
(* 5. the C09 headline with the hypotheses written as float comparisons *)
(* ------------------------------------------------------------------------------------------ *)
From NeatModel Require FloatMonoQuota.

Definition c1000 : PrimFloat.float := 0x1p+1000%float.
Definition cm1000 : PrimFloat.float := 0x1p-1000%float.
Lemma FR_c1000 : FR c1000 = bpow radix2 1000. Proof. apply FR_pow2_const. vm_compute. reflexivity. Qed.
Lemma FR_cm1000 : FR cm1000 = bpow radix2 (-1000). Proof. apply FR_pow2_const. vm_compute. reflexivity. Qed.
Lemma fin_c1000 : fin c1000. Proof. fin_c. Qed.
Lemma fin_cm1000 : fin cm1000. Proof. fin_c. Qed.

Lemma fin_ltb_infinity x : fin x -> PrimFloat.ltb x infinity = true.
Proof.
  intros F. apply fin_sf in F. rewrite ltb_spec, Prim2SF_infinity.
  destruct (Prim2SF x) as [s|s| |s m e]; try contradiction; destruct s; reflexivity.
Qed.

Lemma adj_ordinary_of_cmp orgs :
  zlen orgs <= 2 ^ 20 ->
  (forall y, In y orgs -> PrimFloat.leb 0%float (o_fit y) = true /\ PrimFloat.leb (o_fit y) c1000 = true) ->
  (exists y, In y orgs /\ PrimFloat.leb cm1000 (o_fit y) = true) ->
  adj_ordinary orgs.
Proof.
  intros Hn Hall (y & Hy & Hb). split; [|split].
  - split; [|exact Hn]. unfold zlen. destruct orgs; [destruct Hy|]. cbn [length]. lia.
  - intros x Hx. destruct (Hall x Hx) as [H0 H1].
    destruct (thr_bounds (o_fit x) c1000 1000 FR_c1000 fin_c1000 H0 H1) as [[F P] U]. split; [exact F|now split].
  - exists y. split; [exact Hy|]. destruct (Hall y Hy) as [_ H1].
    exact (proj1 (proj2 (between_consts cm1000 c1000 (-1000) 1000 _ FR_cm1000 fin_cm1000 FR_c1000 fin_c1000 Hb H1))).
Qed.

(* For ordinary shared fitness values the float chain does not overshoot, hence (QuotaSpec /
   FloatMonoQuota: totals below the number of organisms are repaired) the quotas of
   Population.Species total exactly the number of organisms. *)
Theorem quota_total_le_population_size : forall p p' orgs sps T,
  purge_zero_offspring p = Ok p' ->
  hgets (p_heap p) (p_orgs p) = Ok orgs ->
  count_all (p_heap p') (p_species p) 0%float 0 = Ok (sps, T) ->
  NoDup (map sp_id (p_species p)) ->
  NoDup (p_orgs p) -> NoDup (concat (map sp_orgs (p_species p))) ->
  (forall k, In k (p_orgs p) <-> exists s, In s (p_species p) /\ In k (sp_orgs s)) ->
  zlen orgs <= 2 ^ 20 ->
  (forall y, In y orgs -> PrimFloat.leb 0%float (o_fit y) = true /\ PrimFloat.leb (o_fit y) 0x1p+1000%float = true) ->
  (exists y, In y orgs /\ PrimFloat.leb 0x1p-1000%float (o_fit y) = true) ->
  T <= zlen orgs /\ sp_sum (p_species p') = zlen orgs /\ (forall s, In s (p_species p') -> 0 < sp_exp s).
Proof.
  intros p p' orgs sps T Hp Ho Hc Hids Hnd Hnm Hiff Hn Hall Hex.
  pose proof (adj_ordinary_of_cmp orgs Hn Hall Hex) as Hadj.
  assert (Hperm : Permutation (members (p_species p)) (p_orgs p)).
  { apply NoDup_Permutation; [exact Hnm|exact Hnd|]. intros k. rewrite members_in. symmetry. apply Hiff. }
  pose proof (quota_total_le_adjusted p p' orgs sps T Hp Ho Hc Hperm Hadj) as HT.
  split; [exact HT|].
  destruct Hadj as (Hn' & Hl & Hbig). unfold zlen in Hn'.
  pose proof (avg_nonzero o_fit orgs Hn' Hl Hbig) as Eavg.
  destruct (FloatMonoQuota.total_robust_fitness p p' orgs sps T Hp Ho Hc) as (A & _ & B & _).
  - destruct Hex as (y & Hy & _). destruct (PopBase.hgets_in _ _ _ _ Ho Hy) as [_ Hk].
    apply Hiff in Hk. destruct Hk as (s & Hs & _). intros E. rewrite E in Hs. destruct Hs.
  - exact Hids.
  - intros s k Hs Hk. apply Hiff. eauto.
  - unfold zlen. lia.
  - intros y Hy. destruct (Hl y Hy) as [Fy [Y0 _]]. split; [exact (proj1 (Hall y Hy))|now apply fin_ltb_infinity].
  - intros E. exfalso. change (pz_avg orgs) with (PrimFloat.div (fold_left (fun a x => PrimFloat.add a (o_fit x)) orgs 0%float) (f_of_Z (Z.of_nat (length orgs)))) in E.
    rewrite Eavg in E. discriminate E.
  - split; [exact (A HT)|exact B].
Qed.
