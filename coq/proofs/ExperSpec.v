(* C19, aggregates: every accessor of Experiment / Trial / Generation equals its definition
   recomputed from the recorded generations.  Definitions are stated with map / filter / find /
   existsb / sums over the lists; the model functions are the transliterated loops. *)
From Coq Require Import List ZArith Bool Reals Lra Lia Permutation.
From NeatModel Require Import Res Stats Exper StatsSpec.
Import ListNotations.
Open Scope Z_scope.

Fixpoint sumZ (l : list Z) : Z := match l with [] => 0 | x :: l' => x + sumZ l' end.

Section Generic.
Context {F : Type} (N : num F).

Local Notation generation := (@generation F).
Local Notation trial := (@trial F).
Local Notation organism := (@organism F).

(* ---------- the definitions ---------- *)

(* a trial is solved when one of its generations is *)
Definition solved_def (t : trial) : bool := existsb g_solved (t_gens t).
(* the winner generation: the first solved one *)
Definition winner_def (t : trial) : option generation := find g_solved (t_gens t).
(* the cached *WinnerGeneration is nil or what WinnerStatistics would store *)
Definition cache_ok (t : trial) : Prop := t_winner t = None \/ t_winner t = winner_def t.

Definition winner_statistics_def (t : trial) : Z * Z * Z * Z :=
  match winner_def t with
  | Some g => (g_wnodes g, g_wgenes g, g_wevals g, g_diversity g)
  | None => match t_gens t with [] => (-1, -1, -1, -1) | _ => (0, 0, 0, 0) end
  end.

Definition mean_duration (ds : list Z) : Z :=
  match ds with [] => empty_duration | d :: ds' => Z.quot (sumZ (d :: ds')) (Z.of_nat (length (d :: ds'))) end.

(* ---------- trial ---------- *)

Lemma gens_solved_existsb (gs : list generation) : gens_solved gs = existsb g_solved gs.
Proof. induction gs as [|g gs IH]; simpl; [reflexivity|]. destruct (g_solved g); [reflexivity | exact IH]. Qed.

Theorem t_solved_spec (t : trial) : t_solved t = solved_def t.
Proof. apply gens_solved_existsb. Qed.

Theorem t_solved_iff (t : trial) : t_solved t = true <-> exists g, In g (t_gens t) /\ g_solved g = true.
Proof. rewrite t_solved_spec. apply existsb_exists. Qed.

Theorem t_champions_fitness_spec (t : trial) :
  t_champions_fitness N t =
  map (fun g => match g_champ g with Some o => o_fitness o | None => n_zero N end) (t_gens t).
Proof. unfold t_champions_fitness. induction (t_gens t) as [|g gs IH]; simpl; [reflexivity | now rewrite IH]. Qed.

Theorem t_champion_species_ages_spec (t : trial) :
  t_champion_species_ages N t =
  map (fun g => match g_champ g with
                | Some o => match o_age o with Some a => n_ofZ N a | None => n_zero N end
                | None => n_zero N
                end) (t_gens t).
Proof. unfold t_champion_species_ages. induction (t_gens t) as [|g gs IH]; simpl; [reflexivity | now rewrite IH]. Qed.

Theorem t_champions_complexities_spec (t : trial) :
  t_champions_complexities N t =
  map (fun g => match g_champ g with
                | Some o => if o_cplx o =? max_int then n_zero N else n_ofZ N (o_cplx o)
                | None => n_zero N
                end) (t_gens t).
Proof.
  unfold t_champions_complexities. induction (t_gens t) as [|g gs IH]; simpl; [reflexivity|].
  rewrite IH. f_equal. unfold g_champion_complexity. destruct (g_champ g); reflexivity.
Qed.

Theorem t_diversity_spec (t : trial) : t_diversity N t = map (fun g => n_ofZ N (g_diversity g)) (t_gens t).
Proof. unfold t_diversity. induction (t_gens t) as [|g gs IH]; simpl; [reflexivity | now rewrite IH]. Qed.

Theorem t_average_spec (t : trial) :
  t_average N t =
  (map (fun g => F_mean N true (g_fitness g)) (t_gens t),
   map (fun g => F_mean N true (g_age g)) (t_gens t),
   map (fun g => F_mean N true (g_complexity g)) (t_gens t)).
Proof.
  unfold t_average. induction (t_gens t) as [|g gs IH]; simpl; [reflexivity|].
  rewrite IH. reflexivity.
Qed.

Lemma first_solved_find (gs : list generation) : first_solved gs = find g_solved gs.
Proof. induction gs as [|g gs IH]; simpl; [reflexivity|]. destruct (g_solved g); [reflexivity | exact IH]. Qed.

Theorem t_winner_statistics_spec (t : trial) :
  cache_ok t -> fst (t_winner_statistics t) = winner_statistics_def t.
Proof.
  intros Hc. unfold cache_ok, t_winner_statistics, winner_statistics_def, winner_def in *.
  destruct Hc as [-> | Hc].
  - rewrite first_solved_find. unfold len. destruct (t_gens t) as [|g gs]; [reflexivity|].
    change (0 <? Z.of_nat (length (g :: gs))) with true. cbv iota.
    destruct (find g_solved (g :: gs)); reflexivity.
  - rewrite Hc. destruct (find g_solved (t_gens t)) as [w|] eqn:E; [reflexivity|].
    rewrite first_solved_find, E. unfold len. destruct (t_gens t); reflexivity.
Qed.

(* the cache stays coherent, and a second call answers the same *)
Definition with_cache (t : trial) (w : option generation) : trial :=
  {| t_gens := t_gens t; t_winner := w; t_duration := t_duration t |}.

Theorem t_winner_statistics_cache (t : trial) :
  cache_ok t ->
  cache_ok (with_cache t (snd (t_winner_statistics t))) /\
  fst (t_winner_statistics (with_cache t (snd (t_winner_statistics t)))) = fst (t_winner_statistics t).
Proof.
  intros Hc.
  assert (Hk : cache_ok (with_cache t (snd (t_winner_statistics t)))).
  { unfold cache_ok, with_cache, winner_def in *. simpl. unfold t_winner_statistics.
    destruct Hc as [-> | Hc].
    - rewrite first_solved_find. destruct (0 <? len (t_gens t)); [|now left].
      destruct (find g_solved (t_gens t)) eqn:E; [right; reflexivity | now left].
    - rewrite Hc. destruct (find g_solved (t_gens t)) eqn:E; [right; reflexivity|].
      rewrite first_solved_find, E. destruct (0 <? len (t_gens t)); now left. }
  split; [exact Hk|].
  rewrite (t_winner_statistics_spec _ Hk), (t_winner_statistics_spec _ Hc). reflexivity.
Qed.

Lemma sum_durations_spec (gs : list generation) : forall acc, sum_durations gs acc = acc + sumZ (map g_duration gs).
Proof. induction gs as [|g gs IH]; intros acc; simpl; [lia | rewrite IH; lia]. Qed.

Theorem t_avg_epoch_duration_spec (t : trial) :
  t_avg_epoch_duration t = mean_duration (map g_duration (t_gens t)).
Proof.
  unfold t_avg_epoch_duration, mean_duration, len. rewrite sum_durations_spec.
  destruct (t_gens t) as [|g gs]; [reflexivity|]. cbn [map]. cbn [length]. rewrite map_length. reflexivity.
Qed.

Theorem g_champion_complexity_spec (g : generation) :
  g_champion_complexity g = match g_champ g with Some o => o_cplx o | None => max_int end.
Proof. unfold g_champion_complexity. destruct (g_champ g); reflexivity. Qed.

(* ---------- experiment: counts ---------- *)

Lemma trials_solved_loop_spec (e : list trial) : forall c,
  trials_solved_loop e c = c + Z.of_nat (length (filter solved_def e)).
Proof.
  induction e as [|t e IH]; intros c; simpl; [lia|].
  rewrite IH, t_solved_spec. destruct (solved_def t); simpl length; lia.
Qed.

Theorem e_trials_solved_spec (e : list trial) :
  e_trials_solved e = Z.of_nat (length (filter solved_def e)).
Proof. unfold e_trials_solved. rewrite trials_solved_loop_spec. lia. Qed.

Theorem e_solved_spec (e : list trial) : e_solved e = existsb solved_def e.
Proof.
  induction e as [|t e IH]; simpl; [reflexivity|]. rewrite t_solved_spec.
  destruct (solved_def t); [reflexivity | exact IH].
Qed.

Theorem e_solved_iff (e : list trial) : e_solved e = true <-> 0 < e_trials_solved e.
Proof.
  rewrite e_solved_spec, e_trials_solved_spec. induction e as [|t e IH]; simpl.
  - split; [discriminate | lia].
  - destruct (solved_def t); simpl; [split; [lia | reflexivity] | exact IH].
Qed.

Lemma filter_length_le {A} (f : A -> bool) l : (length (filter f l) <= length l)%nat.
Proof. induction l as [|a l IH]; simpl; [lia|]. destruct (f a); simpl; lia. Qed.

Theorem e_trials_solved_bounds (e : list trial) : 0 <= e_trials_solved e <= Z.of_nat (length e).
Proof. rewrite e_trials_solved_spec. pose proof (filter_length_le solved_def e). lia. Qed.

Theorem e_epochs_per_trial_spec (e : list trial) :
  e_epochs_per_trial N e = map (fun t => n_ofZ N (Z.of_nat (length (t_gens t)))) e.
Proof. induction e as [|t e IH]; simpl; [reflexivity | now rewrite IH]. Qed.

Theorem e_avg_diversity_spec (e : list trial) :
  e_avg_diversity N e = map (fun t => F_mean N true (map (fun g => n_ofZ N (g_diversity g)) (t_gens t))) e.
Proof. induction e as [|t e IH]; simpl; [reflexivity|]. now rewrite IH, t_diversity_spec. Qed.

Lemma sum_trial_durations_spec (e : list trial) : forall acc,
  sum_trial_durations e acc = acc + sumZ (map t_duration e).
Proof. induction e as [|t e IH]; intros acc; simpl; [lia | rewrite IH; lia]. Qed.

Theorem e_avg_trial_duration_spec (e : list trial) :
  e_avg_trial_duration e = mean_duration (map t_duration e).
Proof.
  unfold e_avg_trial_duration, mean_duration. rewrite sum_trial_durations_spec.
  destruct e as [|t e]; [reflexivity|]. cbn [map]. cbn [length]. rewrite map_length. reflexivity.
Qed.

Lemma sum_epoch_durations_spec (e : list trial) : forall acc,
  sum_epoch_durations e acc = acc + sumZ (map (fun t => mean_duration (map g_duration (t_gens t))) e).
Proof.
  induction e as [|t e IH]; intros acc; simpl; [lia|]. rewrite IH, t_avg_epoch_duration_spec. lia.
Qed.

Theorem e_avg_epoch_duration_spec (e : list trial) :
  e_avg_epoch_duration e = mean_duration (map (fun t => mean_duration (map g_duration (t_gens t))) e).
Proof.
  unfold e_avg_epoch_duration, mean_duration. rewrite sum_epoch_durations_spec.
  destruct e as [|t e]; [reflexivity|]. cbn [map]. cbn [length]. rewrite map_length. reflexivity.
Qed.

(* ---------- experiment: winner totals ---------- *)

Definition winners (e : list trial) : list (Z * Z * Z * Z) :=
  map winner_statistics_def (filter solved_def e).

Definition proj1of4 (w : Z * Z * Z * Z) : Z := let '(a, _, _, _) := w in a.
Definition proj2of4 (w : Z * Z * Z * Z) : Z := let '(_, b, _, _) := w in b.
Definition proj3of4 (w : Z * Z * Z * Z) : Z := let '(_, _, c, _) := w in c.
Definition proj4of4 (w : Z * Z * Z * Z) : Z := let '(_, _, _, d) := w in d.

Lemma winner_totals_spec (e : list trial) : Forall cache_ok e -> forall tn tg te td c,
  winner_totals e (tn, tg, te, td, c) =
  (tn + sumZ (map proj1of4 (winners e)), tg + sumZ (map proj2of4 (winners e)),
   te + sumZ (map proj3of4 (winners e)), td + sumZ (map proj4of4 (winners e)),
   c + Z.of_nat (length (winners e))).
Proof.
  induction 1 as [|t e Ht He IH]; intros tn tg te td c; unfold winners in *; simpl.
  - repeat match goal with |- (_, _) = (_, _) => apply f_equal2 end; lia.
  - rewrite t_solved_spec. destruct (solved_def t) eqn:Es.
    + rewrite (t_winner_statistics_spec t Ht).
      destruct (winner_statistics_def t) as [[[a b] c'] d] eqn:Ew.
      rewrite IH. cbn [map sumZ length]. rewrite Ew. cbn [proj1of4 proj2of4 proj3of4 proj4of4].
      rewrite Nat2Z.inj_succ. repeat match goal with |- (_, _) = (_, _) => apply f_equal2 end; lia.
    + apply IH.
Qed.

(* a solved trial has a winner generation, and it is solved *)
Lemma winner_def_solved (t : trial) : solved_def t = true -> exists g, winner_def t = Some g /\ In g (t_gens t) /\ g_solved g = true.
Proof.
  unfold solved_def, winner_def. intros H. apply existsb_exists in H. destruct H as (g & Hin & Hg).
  destruct (find g_solved (t_gens t)) as [w|] eqn:E.
  - exists w. apply find_some in E. tauto.
  - exfalso. pose proof (find_none _ _ E g Hin). congruence.
Qed.

End Generic.

(* =================== over the reals =================== *)
Open Scope R_scope.

Notation xtrial := (@trial xr).
Notation xgeneration := (@generation xr).
Notation xorganism := (@organism xr).

(* SuccessRate = solved / trials, 0 without trials *)
Theorem e_success_rate_spec (e : list xtrial) :
  e_success_rate xnum e =
  match e with
  | [] => Some 0
  | _ => Some (IZR (Z.of_nat (length (filter solved_def e))) / IZR (Z.of_nat (length e)))
  end.
Proof.
  unfold e_success_rate. rewrite e_trials_solved_spec. destruct e as [|t e]; [reflexivity|].
  change (0 <? Z.of_nat (length (t :: e)))%Z with true. cbv iota. cbn [n_div n_ofZ xnum].
  rewrite xdiv_some; [reflexivity|]. apply not_0_IZR. simpl length. lia.
Qed.

Lemma ratio_range a b : (a <= b)%nat -> (0 < b)%nat -> 0 <= INR a / INR b <= 1.
Proof.
  intros H Hb. apply le_INR in H. apply lt_INR in Hb. change (INR 0) with 0 in Hb.
  pose proof (pos_INR a) as Ha. split.
  - apply Rmult_le_pos; [lra|]. apply Rlt_le, Rinv_0_lt_compat. lra.
  - apply Rmult_le_reg_r with (r := INR b); [lra|]. unfold Rdiv. rewrite Rmult_assoc, Rinv_l by lra. lra.
Qed.

Theorem e_success_rate_range (e : list xtrial) : exists r, e_success_rate xnum e = Some r /\ 0 <= r <= 1.
Proof.
  rewrite e_success_rate_spec. destruct e as [|t e]; [exists 0; split; [reflexivity | lra]|].
  eexists; split; [reflexivity|]. rewrite <- !INR_IZR_INZ.
  apply ratio_range; [apply filter_length_le | simpl; lia].
Qed.

(* AvgGenerationsPerTrial = total generations / trials *)
Lemma sum_gens_spec (e : list xtrial) : forall a,
  sum_gens xnum e (Some a) = Some (a + IZR (sumZ (map (fun t => Z.of_nat (length (t_gens t))) e))).
Proof.
  induction e as [|t e IH]; intros a; simpl sum_gens.
  - simpl. now rewrite Rplus_0_r.
  - cbn [n_add n_ofZ xnum]. unfold xlift2. rewrite IH. f_equal. simpl map. simpl sumZ.
    rewrite plus_IZR. unfold len. lra.
Qed.

Theorem e_avg_generations_per_trial_spec (e : list xtrial) :
  e_avg_generations_per_trial xnum e =
  match e with
  | [] => Some 0
  | _ => Some (IZR (sumZ (map (fun t => Z.of_nat (length (t_gens t))) e)) / IZR (Z.of_nat (length e)))
  end.
Proof.
  unfold e_avg_generations_per_trial. destruct e as [|t e]; [reflexivity|].
  change (0 <? Z.of_nat (length (t :: e)))%Z with true. cbv iota.
  change (n_zero xnum) with (Some 0). rewrite sum_gens_spec. cbn [n_div n_ofZ xnum].
  rewrite xdiv_some; [now rewrite Rplus_0_l|]. apply not_0_IZR. simpl length. lia.
Qed.

(* AvgDiversity: the mean species count of every trial, NaN for a trial without generations *)
Theorem e_avg_diversity_real (e : list xtrial) :
  e_avg_diversity xnum e =
  map (fun t => match t_gens t with
                | [] => None
                | gs => Some (IZR (sumZ (map g_diversity gs)) / IZR (Z.of_nat (length gs)))
                end) e.
Proof.
  rewrite e_avg_diversity_spec. apply map_ext. intros t.
  replace (map (fun g => n_ofZ xnum (g_diversity g)) (t_gens t))
    with (inj (map (fun g => IZR (g_diversity g)) (t_gens t))) by (unfold inj; rewrite map_map; reflexivity).
  destruct (t_gens t) as [|g gs] eqn:E; [reflexivity|].
  rewrite mean_spec by discriminate. unfold meanR, nR. rewrite map_length, <- INR_IZR_INZ.
  do 2 f_equal. clear. generalize (g :: gs). intros l.
  induction l as [|x l IH]; simpl; [reflexivity|]. rewrite plus_IZR, IH. reflexivity.
Qed.

(* AvgWinnerStatistics: means over the winner generations of the solved trials, -1 without any *)
Theorem e_avg_winner_statistics_spec (e : list xtrial) :
  Forall cache_ok e ->
  e_avg_winner_statistics xnum e =
  match winners e with
  | [] => (Some (-1), Some (-1), Some (-1), Some (-1))
  | ws => let c := IZR (Z.of_nat (length ws)) in
          (Some (IZR (sumZ (map proj1of4 ws)) / c), Some (IZR (sumZ (map proj2of4 ws)) / c),
           Some (IZR (sumZ (map proj3of4 ws)) / c), Some (IZR (sumZ (map proj4of4 ws)) / c))
  end.
Proof.
  intros Hc. unfold e_avg_winner_statistics. rewrite (winner_totals_spec e Hc). simpl Z.add.
  destruct (winners e) as [|w ws] eqn:E; [reflexivity|].
  replace (Z.of_nat (length (w :: ws)) =? 0)%Z with false by (symmetry; apply Z.eqb_neq; simpl length; lia).
  cbn [n_div n_ofZ xnum].
  assert (Hn : IZR (Z.of_nat (length (w :: ws))) <> 0) by (apply not_0_IZR; simpl length; lia).
  rewrite !xdiv_some by exact Hn. reflexivity.
Qed.

(* the number of winners is the number of solved trials *)
Theorem winners_count {F} (e : list (@trial F)) : length (winners e) = length (filter solved_def e).
Proof. unfold winners. apply map_length. Qed.

(* Trial.Average over the reals: the mean of every recorded series, NaN for an empty one *)
Theorem g_average_real (fs az cs : list R) (g : xgeneration) :
  g_fitness g = inj fs -> g_age g = inj az -> g_complexity g = inj cs ->
  g_average xnum g =
  (match fs with [] => None | _ => Some (meanR fs) end,
   match az with [] => None | _ => Some (meanR az) end,
   match cs with [] => None | _ => Some (meanR cs) end).
Proof.
  intros H1 H2 H3. unfold g_average. rewrite H1, H2, H3.
  repeat f_equal.
  - destruct fs; [reflexivity | apply mean_spec; discriminate].
  - destruct az; [reflexivity | apply mean_spec; discriminate].
  - destruct cs; [reflexivity | apply mean_spec; discriminate].
Qed.
