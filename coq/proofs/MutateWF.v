(* Every mutator of model/Mutate.v preserves well-formedness (WF.wf), keeps the input/bias/output
   nodes, keeps the genome consistent with the innovation environment (WF.env_ok) and only extends
   that environment (WF.env_extends).  Derived from the C05 specifications of MutateSpec.v /
   MutateFrame.v.  Referenced from props/C01.v. *)
From NeatModel Require Import Res F64 GoRand Genome Options Insert Mutate InsertSpec WF
     MutateMonad MutateFrame MutateSpec.
From Coq Require Import Lia Sorting.Sorted Sorting.Permutation.

(* ---------- uniqueness of recorded numbers ---------- *)
Lemma NoDup_app_r {A} (a b : list A) : NoDup (a ++ b) -> NoDup b.
Proof. induction a as [|x a IH]; cbn [app]; [auto|]. intros H. inversion H; subst. auto. Qed.

Lemma NoDup_app_disj {A} (a b : list A) x : NoDup (a ++ b) -> In x a -> In x b -> False.
Proof.
  induction a as [|y a IH]; cbn [app]; intros Hnd Ha Hb; [destruct Ha|].
  inversion Hnd as [|? ? Hnot Hnd']; subst. destruct Ha as [->|Ha]; [|now apply IH].
  apply Hnot, in_or_app. now right.
Qed.

Lemma flat_map_uniq {A B} (f : A -> list B) : forall l a b n,
    NoDup (flat_map f l) -> In a l -> In b l -> In n (f a) -> In n (f b) -> a = b.
Proof.
  induction l as [|h t IH]; intros a b n Hnd Ha Hb Hna Hnb; [destruct Ha|].
  cbn [flat_map] in Hnd.
  assert (Hdisj : forall c, In c t -> In n (f h) -> In n (f c) -> False).
  { intros c Hc Hh Hcn. apply (NoDup_app_disj _ _ n Hnd Hh). apply in_flat_map. now exists c. }
  destruct Ha as [<-|Ha], Hb as [<-|Hb]; try reflexivity.
  - destruct (Hdisj b Hb Hna Hnb).
  - destruct (Hdisj a Ha Hnb Hna).
  - apply (IH a b n); auto. now apply NoDup_app_r in Hnd.
Qed.

Lemma nums_uniq e g i j n :
  env_ok e g -> In i (innovs e) -> In j (innovs e) -> In n (inn_nums i) -> In n (inn_nums j) -> i = j.
Proof. intros H. apply flat_map_uniq. exact (eo_uniq _ _ H). Qed.

Lemma num_in_nums i : In (i_num i) (inn_nums i).
Proof. unfold inn_nums. destruct (Z.eqb _ 1); now left. Qed.

Lemma num2_in_nums i : i_type i = 1 -> In (i_num2 i) (inn_nums i).
Proof. unfold inn_nums. intros ->. cbn. auto. Qed.

Lemma nums_bound e g i n : env_ok e g -> In i (innovs e) -> In n (inn_nums i) -> n <= next_innov e.
Proof.
  intros He Hi Hn. destruct (eo_rec _ _ He i Hi) as [H1 H2]. unfold inn_nums in Hn.
  destruct (Z.eqb_spec (i_type i) 1) as [Et|_].
  - destruct (H2 Et) as (_ & H3 & _). destruct Hn as [<-|[<-|[]]]; assumption.
  - destruct Hn as [<-|[]]. assumption.
Qed.

(* ---------- small facts about wf ---------- *)
Lemma has_trait_same_ids g g' t : map t_id (traits g') = map t_id (traits g) -> has_trait g t -> has_trait g' t.
Proof.
  intros Hm [Hnz (tr & Hin & Hid)]. split; [exact Hnz|].
  assert (Hi : In t (map t_id (traits g'))) by (rewrite Hm, <- Hid; now apply in_map).
  apply in_map_iff in Hi. destruct Hi as (tr' & Hid' & Hin'). now exists tr'.
Qed.

Lemma traits_ok_has g t : traits_ok g -> In t (traits g) -> has_trait g (t_id t).
Proof.
  intros [_ (id0 & Hpos & Hm)] Hin. split; [|now exists t].
  assert (Hi : In (t_id t) (map t_id (traits g))) by now apply in_map.
  rewrite Hm in Hi. apply in_map_iff in Hi. destruct Hi as (k & <- & _). lia.
Qed.

Lemma trait_at_has g k tr t : traits_ok g -> trait_at g k = Ok tr -> tr = Some t -> has_trait g t.
Proof.
  intros Hok H Ht. apply trait_at_inv in H. destruct H as (t0 & _ & Hn & ->). injection Ht as <-.
  apply traits_ok_has; [exact Hok|]. eapply nth_error_In; eauto.
Qed.

Lemma asc_ids_NoDup ns : asc n_id ns -> NoDup (map n_id ns).
Proof. apply asc_NoDup. Qed.

Lemma sig_in {A B} (f : A -> B) l l' : map f l' = map f l -> forall x', In x' l' -> exists x, In x l /\ f x = f x'.
Proof.
  intros Hm x' Hx'. assert (Hi : In (f x') (map f l)) by (rewrite <- Hm; now apply in_map).
  apply in_map_iff in Hi. destruct Hi as (x & Hfx & Hx). now exists x.
Qed.

Lemma node_with_id_sig : forall ns ns', map node_sig ns' = map node_sig ns ->
    forall id a, node_with_id id ns = Some a -> exists a', node_with_id id ns' = Some a' /\ n_type a' = n_type a.
Proof.
  induction ns as [|n ns IH]; intros [|n' ns'] Hm id a H; cbn [map node_with_id] in *; try discriminate.
  injection Hm as Hs Hm. unfold node_sig in Hs. injection Hs as Hid Hty Hact. rewrite Hid.
  destruct (Z.eqb (n_id n) id).
  - injection H as <-. exists n'. auto.
  - now apply IH.
Qed.

Lemma io_nodes_sig g g' : map node_sig (nodes g') = map node_sig (nodes g) -> io_nodes g' = io_nodes g.
Proof.
  unfold io_nodes. generalize (nodes g) (nodes g'). induction l as [|n ns IH]; intros [|n' ns'] Hm; cbn [map filter] in *; try discriminate; [reflexivity|].
  injection Hm as Hs Hm. unfold node_sig in Hs. injection Hs as Hid Hty Hact.
  assert (Hio : is_io n' = is_io n) by (unfold is_io, is_sensor; now rewrite Hty).
  rewrite Hio. destruct (is_io n); cbn [map]; [rewrite Hid, Hty; f_equal|]; now apply IH.
Qed.

Lemma retains_io_refl g : retains_io g g.
Proof. unfold retains_io. apply incl_refl. Qed.

Lemma retains_io_trans a b c : retains_io a b -> retains_io b c -> retains_io a c.
Proof. unfold retains_io. apply incl_tran. Qed.

Lemma retains_io_incl g g' : (forall n, In n (nodes g) -> In n (nodes g')) -> retains_io g g'.
Proof.
  intros H p Hp. unfold io_nodes in *. apply in_map_iff in Hp. destruct Hp as (n & <- & Hn).
  apply filter_In in Hn. destruct Hn as [Hn Hio]. apply in_map_iff. exists n. split; [reflexivity|].
  apply filter_In. split; [now apply H|exact Hio].
Qed.

Lemma gene_sig_innov x y : gene_sig x = gene_sig y -> g_innov x = g_innov y.
Proof. unfold gene_sig. intros H. now injection H. Qed.
Lemma gene_sig_key x y : gene_sig x = gene_sig y -> link_key x = link_key y.
Proof. unfold gene_sig, link_key. intros H. injection H as -> -> -> _. reflexivity. Qed.
Lemma gene_sig_ends x y : gene_sig x = gene_sig y -> g_in x = g_in y /\ g_out x = g_out y.
Proof. unfold gene_sig. intros H. injection H as -> -> _ _. auto. Qed.

(* ---------- growing a genome by genes and nodes that the record justifies ---------- *)
(* gene z carries a number of record inn, and is the connection that record describes *)
Definition justified (e : ienv) (z : gene) : Prop :=
  exists inn, In inn (innovs e) /\
    ((i_type inn = 2 /\ link_key z = (i_in inn, i_out inn, i_rec inn) /\ g_innov z = i_num inn) \/
     (i_type inn = 1 /\ ((g_innov z = i_num inn /\ g_out z = i_node inn) \/
                         (g_innov z = i_num2 inn /\ g_in z = i_node inn)))).

Lemma env_ok_grow e g g' :
  env_ok e g ->
  (forall z, In z (genes g') -> (exists y, In y (genes g) /\ gene_sig y = gene_sig z) \/ justified e z) ->
  (forall n, In n (nodes g') -> (exists m, In m (nodes g) /\ n_id m = n_id n) \/
                                (exists inn, In inn (innovs e) /\ i_type inn = 1 /\ n_id n = i_node inn)) ->
  env_ok e g'.
Proof.
  intros He Hg Hn. constructor.
  - intros z Hz. destruct (Hg z Hz) as [(y & Hy & Hs)|(inn & Hin & Hj)].
    + rewrite <- (gene_sig_innov _ _ Hs). now apply (eo_innov _ _ He).
    + destruct Hj as [(Ht & _ & ->)|(Ht & [(-> & _)|(-> & _)])].
      * apply (nums_bound e g inn); auto. apply num_in_nums.
      * apply (nums_bound e g inn); auto. apply num_in_nums.
      * apply (nums_bound e g inn); auto. now apply num2_in_nums.
  - intros n Hn'. destruct (Hn n Hn') as [(m & Hm & <-)|(inn & Hin & Ht & ->)].
    + now apply (eo_node _ _ He).
    + destruct (eo_rec _ _ He inn Hin) as [_ H2]. now destruct (H2 Ht) as (_ & _ & H3).
  - intros i z Hi Hti Hz Hnum. destruct (Hg z Hz) as [(y & Hy & Hs)|(inn & Hin & Hj)].
    + rewrite <- (gene_sig_key _ _ Hs). apply (eo_link _ _ He i y); auto. now rewrite (gene_sig_innov _ _ Hs).
    + assert (Heq : i = inn).
      { apply (nums_uniq e g i inn (g_innov z)); auto.
        - rewrite Hnum. apply num_in_nums.
        - destruct Hj as [(_ & _ & ->)|(Ht & [(-> & _)|(-> & _)])]; [apply num_in_nums|apply num_in_nums|now apply num2_in_nums]. }
      subst i. destruct Hj as [(_ & Hk & _)|(Ht & _)]; [exact Hk|congruence].
  - intros j z Hj Htj Hz. destruct (Hg z Hz) as [(y & Hy & Hs)|(inn & Hin & Hjust)].
    + destruct (gene_sig_ends _ _ Hs) as [Ei Eo]. rewrite <- (gene_sig_innov _ _ Hs), <- Ei, <- Eo.
      now apply (eo_split _ _ He j y).
    + assert (Hsame : forall n, In n (inn_nums j) -> g_innov z = n -> j = inn).
      { intros n Hnj Hzn. apply (nums_uniq e g j inn n); auto. rewrite <- Hzn.
        destruct Hjust as [(_ & _ & ->)|(Ht & [(-> & _)|(-> & _)])]; [apply num_in_nums|apply num_in_nums|now apply num2_in_nums]. }
      assert (Hne : i_type inn = 1 -> i_num inn <> i_num2 inn).
      { intros Ht. destruct (eo_rec _ _ He inn Hin) as [_ H2]. now destruct (H2 Ht) as (H3 & _). }
      split; intros Hzn.
      * assert (j = inn) by (apply (Hsame (i_num j)); [apply num_in_nums|exact Hzn]). subst j. specialize (Hne Htj).
        destruct Hjust as [(Ht & _)|(_ & [(_ & Ho)|(Hn2 & _)])]; [congruence|exact Ho|congruence].
      * assert (j = inn) by (apply (Hsame (i_num2 j)); [now apply num2_in_nums|exact Hzn]). subst j. specialize (Hne Htj).
        destruct Hjust as [(Ht & _)|(_ & [(Hn1 & _)|(_ & Hi)])]; [congruence|congruence|exact Hi].
  - intros i Hi. now apply (eo_rec _ _ He).
  - exact (eo_uniq _ _ He).
Qed.
