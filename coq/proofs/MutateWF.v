(* Every mutator of model/Mutate.v preserves well-formedness (WF.wf), keeps the input/bias/output
   nodes, keeps the genome consistent with the innovation environment (WF.env_ok) and only extends
   that environment (WF.env_extends).  Derived from the C05 specifications of MutateSpec.v /
   MutateFrame.v.  Referenced from props/C01.v. *)
From NeatModel Require Import Res F64 GoRand Genome Options Insert Mutate InsertSpec WF
     MutateMonad MutateFrame MutateSpec.
From Coq Require Import Lia Sorting.Sorted Sorting.Permutation.

(* ---------- uniqueness of recorded numbers ---------- *)
Lemma NoDup_app_r {A} (a b : list A) : NoDup (a ++ b) -> NoDup b.
Proof. induction a as [|x a IH]; cbn [app]; [auto|]. intros H. inversion H; subst. auto. Qed.

Lemma NoDup_app_disj {A} (a b : list A) x : NoDup (a ++ b) -> In x a -> In x b -> False.
Proof.
  induction a as [|y a IH]; cbn [app]; intros Hnd Ha Hb; [destruct Ha|].
  inversion Hnd as [|? ? Hnot Hnd']; subst. destruct Ha as [->|Ha]; [|now apply IH].
  apply Hnot, in_or_app. now right.
Qed.

Lemma flat_map_uniq {A B} (f : A -> list B) : forall l a b n,
    NoDup (flat_map f l) -> In a l -> In b l -> In n (f a) -> In n (f b) -> a = b.
Proof.
  induction l as [|h t IH]; intros a b n Hnd Ha Hb Hna Hnb; [destruct Ha|].
  cbn [flat_map] in Hnd.
  assert (Hdisj : forall c, In c t -> In n (f h) -> In n (f c) -> False).
  { intros c Hc Hh Hcn. apply (NoDup_app_disj _ _ n Hnd Hh). apply in_flat_map. now exists c. }
  destruct Ha as [<-|Ha], Hb as [<-|Hb]; try reflexivity.
  - destruct (Hdisj b Hb Hna Hnb).
  - destruct (Hdisj a Ha Hnb Hna).
  - apply (IH a b n); auto. now apply NoDup_app_r in Hnd.
Qed.

Lemma nums_uniq e g i j n :
  env_ok e g -> In i (innovs e) -> In j (innovs e) -> In n (inn_nums i) -> In n (inn_nums j) -> i = j.
Proof. intros H. apply flat_map_uniq. exact (eo_uniq _ _ H). Qed.

Lemma num_in_nums i : In (i_num i) (inn_nums i).
Proof. unfold inn_nums. destruct (Z.eqb _ 1); now left. Qed.

Lemma num2_in_nums i : i_type i = 1 -> In (i_num2 i) (inn_nums i).
Proof. unfold inn_nums. intros ->. cbn. auto. Qed.

Lemma nums_bound e g i n : env_ok e g -> In i (innovs e) -> In n (inn_nums i) -> n <= next_innov e.
Proof.
  intros He Hi Hn. destruct (eo_rec _ _ He i Hi) as [H1 H2]. unfold inn_nums in Hn.
  destruct (Z.eqb_spec (i_type i) 1) as [Et|_].
  - destruct (H2 Et) as (_ & H3 & _). destruct Hn as [<-|[<-|[]]]; assumption.
  - destruct Hn as [<-|[]]. assumption.
Qed.

(* ---------- small facts about wf ---------- *)
Lemma has_trait_same_ids g g' t : map t_id (traits g') = map t_id (traits g) -> has_trait g t -> has_trait g' t.
Proof.
  intros Hm [Hnz (tr & Hin & Hid)]. split; [exact Hnz|].
  assert (Hi : In t (map t_id (traits g'))) by (rewrite Hm, <- Hid; now apply in_map).
  apply in_map_iff in Hi. destruct Hi as (tr' & Hid' & Hin'). now exists tr'.
Qed.

Lemma traits_ok_has g t : traits_ok g -> In t (traits g) -> has_trait g (t_id t).
Proof.
  intros [_ (id0 & Hpos & Hm)] Hin. split; [|now exists t].
  assert (Hi : In (t_id t) (map t_id (traits g))) by now apply in_map.
  rewrite Hm in Hi. apply in_map_iff in Hi. destruct Hi as (k & <- & _). lia.
Qed.

Lemma trait_at_has g k tr t : traits_ok g -> trait_at g k = Ok tr -> tr = Some t -> has_trait g t.
Proof.
  intros Hok H Ht. apply trait_at_inv in H. destruct H as (t0 & _ & Hn & ->). injection Ht as <-.
  apply traits_ok_has; [exact Hok|]. eapply nth_error_In; eauto.
Qed.

Lemma asc_ids_NoDup ns : asc n_id ns -> NoDup (map n_id ns).
Proof. apply asc_NoDup. Qed.

Lemma sig_in {A B} (f : A -> B) l l' : map f l' = map f l -> forall x', In x' l' -> exists x, In x l /\ f x = f x'.
Proof.
  intros Hm x' Hx'. assert (Hi : In (f x') (map f l)) by (rewrite <- Hm; now apply in_map).
  apply in_map_iff in Hi. destruct Hi as (x & Hfx & Hx). now exists x.
Qed.

Lemma node_with_id_sig : forall ns ns', map node_sig ns' = map node_sig ns ->
    forall id a, node_with_id id ns = Some a -> exists a', node_with_id id ns' = Some a' /\ n_type a' = n_type a.
Proof.
  induction ns as [|n ns IH]; intros [|n' ns'] Hm id a H; cbn [map node_with_id] in *; try discriminate.
  injection Hm as Hid Hty Hact Hm. rewrite Hid.
  destruct (Z.eqb (n_id n) id).
  - injection H as <-. exists n'. auto.
  - now apply IH.
Qed.

Lemma io_nodes_sig g g' : map node_sig (nodes g') = map node_sig (nodes g) -> io_nodes g' = io_nodes g.
Proof.
  unfold io_nodes. generalize (nodes g) (nodes g'). induction l as [|n ns IH]; intros [|n' ns'] Hm; cbn [map filter] in *; try discriminate; [reflexivity|].
  injection Hm as Hid Hty Hact Hm.
  assert (Hio : is_io n' = is_io n) by (unfold is_io, is_sensor; now rewrite Hty).
  rewrite Hio. destruct (is_io n); cbn [map]; [rewrite Hid, Hty; f_equal|]; now apply IH.
Qed.

Lemma retains_io_refl g : retains_io g g.
Proof. unfold retains_io. apply incl_refl. Qed.

Lemma retains_io_trans a b c : retains_io a b -> retains_io b c -> retains_io a c.
Proof. unfold retains_io. apply incl_tran. Qed.

Lemma retains_io_incl g g' : (forall n, In n (nodes g) -> In n (nodes g')) -> retains_io g g'.
Proof.
  intros H p Hp. unfold io_nodes in *. apply in_map_iff in Hp. destruct Hp as (n & <- & Hn).
  apply filter_In in Hn. destruct Hn as [Hn Hio]. apply in_map_iff. exists n. split; [reflexivity|].
  apply filter_In. split; [now apply H|exact Hio].
Qed.

Lemma gene_sig_innov x y : gene_sig x = gene_sig y -> g_innov x = g_innov y.
Proof. unfold gene_sig. intros H. now injection H. Qed.
Lemma gene_sig_key x y : gene_sig x = gene_sig y -> link_key x = link_key y.
Proof. unfold gene_sig, link_key. intros H. injection H as -> -> -> _. reflexivity. Qed.
Lemma gene_sig_ends x y : gene_sig x = gene_sig y -> g_in x = g_in y /\ g_out x = g_out y.
Proof. unfold gene_sig. intros H. injection H as -> -> _ _. auto. Qed.

(* ---------- growing a genome by genes and nodes that the record justifies ---------- *)
(* gene z carries a number of record inn, and is the connection that record describes *)
Definition justified (e : ienv) (z : gene) : Prop :=
  exists inn, In inn (innovs e) /\
    ((i_type inn = 2 /\ link_key z = (i_in inn, i_out inn, i_rec inn) /\ g_innov z = i_num inn) \/
     (i_type inn = 1 /\ ((g_innov z = i_num inn /\ g_out z = i_node inn) \/
                         (g_innov z = i_num2 inn /\ g_in z = i_node inn)))).

Lemma env_ok_grow e g g' :
  env_ok e g ->
  (forall z, In z (genes g') -> (exists y, In y (genes g) /\ gene_sig y = gene_sig z) \/ justified e z) ->
  (forall n, In n (nodes g') -> (exists m, In m (nodes g) /\ n_id m = n_id n) \/
                                (exists inn, In inn (innovs e) /\ i_type inn = 1 /\ n_id n = i_node inn)) ->
  env_ok e g'.
Proof.
  intros He Hg Hn. constructor.
  - intros z Hz. destruct (Hg z Hz) as [(y & Hy & Hs)|(inn & Hin & Hj)].
    + rewrite <- (gene_sig_innov _ _ Hs). now apply (eo_innov _ _ He).
    + destruct Hj as [(Ht & _ & ->)|(Ht & [(-> & _)|(-> & _)])].
      * apply (nums_bound e g inn); auto. apply num_in_nums.
      * apply (nums_bound e g inn); auto. apply num_in_nums.
      * apply (nums_bound e g inn); auto. now apply num2_in_nums.
  - intros n Hn'. destruct (Hn n Hn') as [(m & Hm & <-)|(inn & Hin & Ht & ->)].
    + now apply (eo_node _ _ He).
    + destruct (eo_rec _ _ He inn Hin) as [_ H2]. now destruct (H2 Ht) as (_ & _ & H3).
  - intros i z Hi Hti Hz Hnum. destruct (Hg z Hz) as [(y & Hy & Hs)|(inn & Hin & Hj)].
    + rewrite <- (gene_sig_key _ _ Hs). apply (eo_link _ _ He i y); auto. now rewrite (gene_sig_innov _ _ Hs).
    + assert (Heq : i = inn).
      { apply (nums_uniq e g i inn (g_innov z)); auto.
        - rewrite Hnum. apply num_in_nums.
        - destruct Hj as [(_ & _ & ->)|(Ht & [(-> & _)|(-> & _)])]; [apply num_in_nums|apply num_in_nums|now apply num2_in_nums]. }
      subst i. destruct Hj as [(_ & Hk & _)|(Ht & _)]; [exact Hk|congruence].
  - intros j z Hj Htj Hz. destruct (Hg z Hz) as [(y & Hy & Hs)|(inn & Hin & Hjust)].
    + destruct (gene_sig_ends _ _ Hs) as [Ei Eo]. rewrite <- (gene_sig_innov _ _ Hs), <- Ei, <- Eo.
      now apply (eo_split _ _ He j y).
    + assert (Hsame : forall n, In n (inn_nums j) -> g_innov z = n -> j = inn).
      { intros n Hnj Hzn. apply (nums_uniq e g j inn n); auto. rewrite <- Hzn.
        destruct Hjust as [(_ & _ & ->)|(Ht & [(-> & _)|(-> & _)])]; [apply num_in_nums|apply num_in_nums|now apply num2_in_nums]. }
      assert (Hne : i_type inn = 1 -> i_num inn <> i_num2 inn).
      { intros Ht. destruct (eo_rec _ _ He inn Hin) as [_ H2]. now destruct (H2 Ht) as (H3 & _). }
      split; intros Hzn.
      * assert (j = inn) by (apply (Hsame (i_num j)); [apply num_in_nums|exact Hzn]). subst j. specialize (Hne Htj).
        destruct Hjust as [(Ht & _)|(_ & [(_ & Ho)|(Hn2 & _)])]; [congruence|exact Ho|congruence].
      * assert (j = inn) by (apply (Hsame (i_num2 j)); [now apply num2_in_nums|exact Hzn]). subst j. specialize (Hne Htj).
        destruct Hjust as [(Ht & _)|(_ & [(Hn1 & _)|(_ & Hi)])]; [congruence|congruence|exact Hi].
  - intros i Hi. now apply (eo_rec _ _ He).
  - exact (eo_uniq _ _ He).
Qed.

(* ---------- parametric mutators: same signatures, trait references still resolve ---------- *)
Lemma map_innov_sig l : map g_innov l = map snd (map gene_sig l).
Proof. rewrite map_map. reflexivity. Qed.
Lemma map_key_sig l : map link_key l = map fst (map gene_sig l).
Proof. rewrite map_map. reflexivity. Qed.
Lemma map_id_sig l : map n_id l = map (fun p => fst (fst p)) (map node_sig l).
Proof. rewrite map_map. reflexivity. Qed.

Lemma frame_wf g g' e :
  frame g g' ->
  (forall x' t, In x' (genes g') -> g_trait x' = Some t -> has_trait g t) ->
  (forall n' t, In n' (nodes g') -> n_trait n' = Some t -> has_trait g t) ->
  wf g -> env_ok e g -> wf g' /\ retains_io g g' /\ env_ok e g'.
Proof.
  intros (Fn & Fg & Ft & Fid & Fm) Hgt Hnt [Hne Hgs Hln Hns Hep Htr Htk Hout Hmod] He.
  split; [|split].
  - constructor.
    + intros E. rewrite E in Fg. cbn in Fg. destruct (genes g); [now apply Hne|discriminate].
    + unfold genes_sorted, asc in *. now rewrite map_innov_sig, Fg, <- map_innov_sig.
    + unfold links_nodup in *. now rewrite map_key_sig, Fg, <- map_key_sig.
    + unfold nodes_sorted, asc in *. now rewrite map_id_sig, Fn, <- map_id_sig.
    + intros x' Hx'. destruct (sig_in gene_sig _ _ Fg x' Hx') as (x & Hx & Hs).
      destruct (gene_sig_ends _ _ Hs) as [Ei Eo]. destruct (Hep x Hx) as (a & b & Ha & Hb & Hsb).
      destruct (node_with_id_sig _ _ Fn _ _ Ha) as (a' & Ha' & _).
      destruct (node_with_id_sig _ _ Fn _ _ Hb) as (b' & Hb' & Hty).
      exists a', b'. rewrite <- Ei, <- Eo. repeat split; try assumption.
      unfold is_sensor in *. now rewrite Hty.
    + split.
      * intros x' t Hx' Ht. eapply has_trait_same_ids; [exact Ft|]. eapply Hgt; eauto.
      * intros n' t Hn' Ht. eapply has_trait_same_ids; [exact Ft|]. eapply Hnt; eauto.
    + destruct Htk as [Hnn (id0 & Hpos & Hm)]. split.
      * intros E. rewrite E in Ft. cbn in Ft. destruct (traits g); [now apply Hnn|discriminate].
      * exists id0. split; [exact Hpos|]. rewrite Ft, Hm.
        assert (Hl : length (traits g') = length (traits g)) by (rewrite <- (map_length t_id), Ft; apply map_length).
        now rewrite Hl.
    + destruct Hout as (n & Hn & Hty).
      assert (Hi : In (node_sig n) (map node_sig (nodes g'))) by (rewrite Fn; now apply in_map).
      apply in_map_iff in Hi. destruct Hi as (n' & Hs & Hn'). exists n'. split; [exact Hn'|].
      unfold node_sig in Hs. injection Hs as _ Hty' _. congruence.
    + congruence.
  - unfold retains_io. rewrite (io_nodes_sig g g' Fn). apply incl_refl.
  - apply (env_ok_grow e g g' He).
    + intros z Hz. left. destruct (sig_in gene_sig _ _ Fg z Hz) as (y & Hy & Hs). now exists y.
    + intros n Hn. left. destruct (sig_in node_sig _ _ Fn n Hn) as (m & Hm & Hs). exists m. split; [exact Hm|].
      unfold node_sig in Hs. now injection Hs.
Qed.

(* the shape requested by props/C01.v *)
Definition op_ok (g : genome) (s : st) (g' : genome) (s' : st) : Prop :=
  wf g' /\ retains_io g g' /\ env_ok (s_env s') g' /\ env_extends (s_env s) (s_env s').

Lemma op_ok_same_env g s g' s' :
  s_env s' = s_env s -> wf g' /\ retains_io g g' /\ env_ok (s_env s) g' -> op_ok g s g' s'.
Proof. intros E (A & B & C). unfold op_ok. rewrite E. split; [exact A|split; [exact B|split; [exact C|apply env_extends_refl]]]. Qed.

Lemma wf_gene_trait g x t : wf g -> In x (genes g) -> g_trait x = Some t -> has_trait g t.
Proof. intros H. exact (proj1 (wf_trait_refs g H) x t). Qed.
Lemma wf_node_trait g n t : wf g -> In n (nodes g) -> n_trait n = Some t -> has_trait g t.
Proof. intros H. exact (proj2 (wf_trait_refs g H) n t). Qed.

Lemma Forall2_In_r {A} (R : A -> A -> Prop) l l' y : Forall2 R l l' -> In y l' -> exists x, In x l /\ R x y.
Proof.
  induction 1 as [|a b l l' Hab H IH]; intros Hin; [destruct Hin|].
  destruct Hin as [<-|Hin]; [exists a; split; [now left|assumption]|].
  destruct (IH Hin) as (x & Hx & Hr). exists x. split; [now right|assumption].
Qed.

Theorem mutate_link_weights_wf pw rt ga g s g' b s' :
  mutate_link_weights pw rt ga g s = Ok ((g', b), s') -> wf g -> env_ok (s_env s) g -> op_ok g s g' s'.
Proof.
  intros H Hwf He. apply link_weights_spec in H. destruct H as (Fr & Hn & Ht & HF & _ & Es).
  apply op_ok_same_env; [exact Es|]. apply frame_wf; auto.
  - intros x' t Hx' Htr. destruct (Forall2_In_r _ _ _ _ HF Hx') as (x & Hx & (w & ->)).
    eapply wf_gene_trait; eauto.
  - rewrite Hn. intros n' t. now apply wf_node_trait.
Qed.

Theorem mutate_random_trait_wf o g s g' b s' :
  mutate_random_trait o g s = Ok ((g', b), s') -> wf g -> env_ok (s_env s) g -> op_ok g s g' s'.
Proof.
  intros H Hwf He. apply random_trait_spec in H. destruct H as (Fr & Hn & Hg & _ & _ & Es).
  apply op_ok_same_env; [exact Es|]. apply frame_wf; auto.
  - rewrite Hg. intros x' t. now apply wf_gene_trait.
  - rewrite Hn. intros n' t. now apply wf_node_trait.
Qed.

Theorem mutate_link_trait_wf times g s g' b s' :
  mutate_link_trait times g s = Ok ((g', b), s') -> wf g -> env_ok (s_env s) g -> op_ok g s g' s'.
Proof.
  intros H Hwf He. apply link_trait_spec in H. destruct H as (Fr & Hn & Ht & HF & _ & Es).
  apply op_ok_same_env; [exact Es|]. apply frame_wf; auto.
  - intros x' t Hx' Htr. destruct (Forall2_In_r _ _ _ _ HF Hx') as (x & Hx & [->|(tr & Hin & ->)]).
    + eapply wf_gene_trait; eauto.
    + cbn in Htr. injection Htr as <-. apply traits_ok_has; [exact (wf_traits g Hwf)|exact Hin].
  - rewrite Hn. intros n' t. now apply wf_node_trait.
Qed.

Theorem mutate_node_trait_wf times g s g' b s' :
  mutate_node_trait times g s = Ok ((g', b), s') -> wf g -> env_ok (s_env s) g -> op_ok g s g' s'.
Proof.
  intros H Hwf He. apply node_trait_spec in H. destruct H as (Fr & Hg & Ht & HF & _ & Es).
  apply op_ok_same_env; [exact Es|]. apply frame_wf; auto.
  - rewrite Hg. intros x' t. now apply wf_gene_trait.
  - intros n' t Hn' Htr. destruct (Forall2_In_r _ _ _ _ HF Hn') as (n & Hn & [->|(tr & Hin & ->)]).
    + eapply wf_node_trait; eauto.
    + cbn in Htr. injection Htr as <-. apply traits_ok_has; [exact (wf_traits g Hwf)|exact Hin].
Qed.

Theorem mutate_toggle_enable_wf times g s g' b s' :
  mutate_toggle_enable times g s = Ok ((g', b), s') -> wf g -> env_ok (s_env s) g -> op_ok g s g' s'.
Proof.
  intros H Hwf He. apply toggle_spec in H. destruct H as (Fr & Hn & Ht & HF & _ & _ & Es).
  apply op_ok_same_env; [exact Es|]. apply frame_wf; auto.
  - intros x' t Hx' Htr. destruct (Forall2_In_r _ _ _ _ HF Hx') as (x & Hx & [->|(_ & ->)]);
      eapply wf_gene_trait; eauto.
  - rewrite Hn. intros n' t. now apply wf_node_trait.
Qed.

Theorem mutate_gene_reenable_wf g s g' b s' :
  mutate_gene_reenable g s = Ok ((g', b), s') -> wf g -> env_ok (s_env s) g -> op_ok g s g' s'.
Proof.
  intros H Hwf He. apply reenable_spec in H. destruct H as (Fr & Hn & Ht & Hcase & _ & ->).
  apply op_ok_same_env; [reflexivity|]. apply frame_wf; auto.
  - intros x' t Hx' Htr. destruct Hcase as [(_ & Hg)|(l1 & x & l2 & Hg & _ & _ & Hg')].
    + rewrite Hg in Hx'. eapply wf_gene_trait; eauto.
    + rewrite Hg' in Hx'. apply in_app_or in Hx'. destruct Hx' as [Hx'|[<-|Hx']].
      * eapply wf_gene_trait; eauto. rewrite Hg. apply in_or_app. now left.
      * eapply (wf_gene_trait g x); eauto. rewrite Hg. apply in_or_app. right. now left.
      * eapply wf_gene_trait; eauto. rewrite Hg. apply in_or_app. right. now right.
  - rewrite Hn. intros n' t. now apply wf_node_trait.
Qed.

Lemma op_ok_trans g0 s0 g1 s1 g2 s2 :
  op_ok g0 s0 g1 s1 -> op_ok g1 s1 g2 s2 -> op_ok g0 s0 g2 s2.
Proof.
  intros (_ & R1 & _ & X1) (W2 & R2 & E2 & X2). split; [exact W2|]. split; [|split; [exact E2|]].
  - eapply retains_io_trans; eauto.
  - eapply env_extends_trans; eauto.
Qed.

Lemma step_if_wf p op g0 s0 (gb : genome * bool) s r s' :
  (forall g s g' b s', op g s = Ok ((g', b), s') -> wf g -> env_ok (s_env s) g -> op_ok g s g' s') ->
  op_ok g0 s0 (fst gb) s ->
  step_if p op gb s = Ok (r, s') -> op_ok g0 s0 (fst r) s'.
Proof.
  intros Hop Hok H. unfold step_if in H. minv.
  pose proof (ep_float64 _ _ _ E) as Es.
  assert (Hok1 : op_ok g0 s0 (fst gb) s1).
  { destruct Hok as (A & B & C & D). unfold op_ok. rewrite Es. auto. }
  destruct (PrimFloat.ltb a p).
  - destruct r as [g' b]. eapply op_ok_trans; [exact Hok1|]. eapply Hop; [exact H| |]; apply Hok1.
  - minv. subst. exact Hok1.
Qed.

Theorem mutate_all_nonstructural_wf o g s g' b s' :
  mutate_all_nonstructural o g s = Ok ((g', b), s') -> wf g -> env_ok (s_env s) g -> op_ok g s g' s'.
Proof.
  unfold mutate_all_nonstructural. intros H Hwf He. minv.
  assert (H0 : op_ok g s (fst (g, false)) s).
  { split; [exact Hwf|split; [apply retains_io_refl|split; [exact He|apply env_extends_refl]]]. }
  eapply step_if_wf in E; [| |exact H0]. 2:{ intros; eapply mutate_random_trait_wf; eauto. }
  eapply step_if_wf in E0; [| |exact E]. 2:{ intros; eapply mutate_link_trait_wf; eauto. }
  eapply step_if_wf in E1; [| |exact E0]. 2:{ intros; eapply mutate_node_trait_wf; eauto. }
  eapply step_if_wf in E2; [| |exact E1]. 2:{ intros; eapply mutate_link_weights_wf; eauto. }
  eapply step_if_wf in E3; [| |exact E2]. 2:{ intros; eapply mutate_toggle_enable_wf; eauto. }
  eapply step_if_wf in H; [| |exact E3]. 2:{ intros; eapply mutate_gene_reenable_wf; eauto. }
  exact H.
Qed.

(* ---------- inserting one link gene (add-link, connect-sensors) ---------- *)
Lemma find_link_innov_some : forall l i o rc inn,
    find_link_innov l i o rc = Some inn ->
    In inn l /\ i_type inn = 2 /\ i_in inn = i /\ i_out inn = o /\ i_rec inn = rc.
Proof.
  induction l as [|x l IH]; intros i o rc inn H; cbn [find_link_innov] in H; [discriminate|].
  destruct (_ && _) eqn:E.
  - injection H as <-. repeat (apply andb_true_iff in E; destruct E as [E ?]).
    repeat match goal with H : Z.eqb _ _ = true |- _ => apply Z.eqb_eq in H end.
    match goal with H : Bool.eqb _ _ = true |- _ => apply eqb_prop in H end.
    repeat split; auto. now left.
  - destruct (IH _ _ _ _ H) as (Hin & Hrest). split; [now right|exact Hrest].
Qed.

Lemma has_trait_traits g g' t : traits g' = traits g -> has_trait g t -> has_trait g' t.
Proof. intros E. apply has_trait_same_ids. now rewrite E. Qed.

Definition endpoints_of (g : genome) (x : gene) : Prop :=
  exists a b, node_with_id (g_in x) (nodes g) = Some a /\ node_with_id (g_out x) (nodes g) = Some b /\
              is_sensor b = false.

Lemma wf_insert_gene g x :
  wf g -> ~ In (g_innov x) (map g_innov (genes g)) -> ~ In (link_key x) (map link_key (genes g)) ->
  endpoints_of g x -> (forall t, g_trait x = Some t -> has_trait g t) ->
  wf (with_genes g (gene_insert (genes g) x)).
Proof.
  intros [Hne Hgs Hln Hns Hep Htr Htk Hout Hmod] Hfi Hfk Hends Htx.
  pose proof (insert_sorted_perm g_innov (genes g) x) as Hperm.
  assert (Hin : forall z, In z (gene_insert (genes g) x) -> z = x \/ In z (genes g)).
  { intros z. apply (insert_sorted_In g_innov). }
  constructor; cbn [genes nodes traits modules with_genes]; try assumption.
  - intros E. unfold gene_insert in E. rewrite E in Hperm. apply Permutation_nil in Hperm. discriminate.
  - unfold genes_sorted. cbn [genes with_genes]. now apply insert_sorted_asc.
  - unfold links_nodup. cbn [genes with_genes].
    apply (Permutation_NoDup (l := link_key x :: map link_key (genes g))).
    + apply Permutation_sym. exact (Permutation_map link_key Hperm).
    + now constructor.
  - intros z Hz. cbn [genes with_genes] in Hz. destruct (Hin z Hz) as [->|Hz']; [exact Hends|now apply Hep].
  - destruct Htr as [Hg Hn]. split.
    + intros z t Hz Ht. cbn [genes with_genes] in Hz. apply (has_trait_traits g); [reflexivity|].
      destruct (Hin z Hz) as [->|Hz']; [now apply Htx|now apply (Hg z)].
    + intros n t Hn' Ht. apply (has_trait_traits g); [reflexivity|]. now apply (Hn n).
Qed.

Lemma insert_link_ok g x s s' :
  wf g -> env_ok (s_env s) g -> link_from_env g x s s' -> endpoints_of g x ->
  (forall y, In y (genes g) -> link_key y <> link_key x) ->
  op_ok g s (with_genes g (gene_insert (genes g) x)) s'.
Proof.
  intros Hwf He Hfrom Hends Hnew.
  assert (Hfk : ~ In (link_key x) (map link_key (genes g))).
  { intros H. apply in_map_iff in H. destruct H as (y & Hk & Hy). now apply (Hnew y). }
  assert (Hgrow : forall e', env_ok e' g -> justified e' x ->
                             env_ok e' (with_genes g (gene_insert (genes g) x))).
  { intros e' He' Hj. apply (env_ok_grow e' g); [exact He'| |].
    - intros z Hz. cbn [genes with_genes] in Hz. apply (insert_sorted_In g_innov) in Hz.
      destruct Hz as [->|Hz]; [now right|left; now exists z].
    - intros n Hn. left. now exists n. }
  assert (Hio : retains_io g (with_genes g (gene_insert (genes g) x))) by (apply retains_io_incl; auto).
  destruct Hfrom as [(inn & tr & Hf & Htr & Hx & _ & Es)|(Hf & tn & w & tr & Htr & Hx & Hin & Hni & Hnn)].
  - apply find_link_innov_some in Hf. destruct Hf as (Hinn & Hty & Hi & Ho & Hr).
    assert (Hnum : g_innov x = i_num inn) by (rewrite Hx; reflexivity).
    assert (Htx : g_trait x = tr) by (rewrite Hx; reflexivity).
    assert (Hkey : link_key x = (i_in inn, i_out inn, i_rec inn)) by (unfold link_key; congruence).
    assert (Hfi : ~ In (g_innov x) (map g_innov (genes g))).
    { intros H. apply in_map_iff in H. destruct H as (y & Hyn & Hy).
      apply (Hnew y Hy). rewrite Hkey. apply (eo_link _ _ He inn y); auto. congruence. }
    unfold op_ok. rewrite Es. split; [|split; [exact Hio|split; [|apply env_extends_refl]]].
    + apply wf_insert_gene; auto. intros t Ht. eapply trait_at_has; [exact (wf_traits g Hwf)|exact Htr|congruence].
    + apply Hgrow; [exact He|]. exists inn. split; [exact Hinn|]. left. auto.
  - set (r := link_innovation (g_in x) (g_out x) (next_innov (s_env s) + 1) w tn (g_rec x)) in *.
    assert (Hnum : g_innov x = next_innov (s_env s) + 1) by (rewrite Hx; reflexivity).
    assert (Htx : g_trait x = tr) by (rewrite Hx; reflexivity).
    assert (Hfi : ~ In (g_innov x) (map g_innov (genes g))).
    { intros H. apply in_map_iff in H. destruct H as (y & Hyn & Hy).
      pose proof (eo_innov _ _ He y Hy). lia. }
    assert (Hext : env_extends (s_env s) (s_env s')).
    { constructor; [lia|lia|]. exists [r]. split; [exact Hin|]. split.
      - cbn. repeat constructor. intros [].
      - intros i [<-|[]]. cbn. split; [lia|]. intros Ht. discriminate. }
    split; [|split; [exact Hio|split; [|exact Hext]]].
    + apply wf_insert_gene; auto. intros t Ht. eapply trait_at_has; [exact (wf_traits g Hwf)|exact Htr|congruence].
    + apply Hgrow; [eapply env_ok_extends; eauto|].
      exists r. split; [rewrite Hin; apply in_or_app; right; now left|]. left. cbn. auto.
Qed.

Lemma op_ok_refl g s : wf g -> env_ok (s_env s) g -> op_ok g s g s.
Proof. intros A C. split; [exact A|split; [apply retains_io_refl|split; [exact C|apply env_extends_refl]]]. Qed.

Lemma node_lookup g n : wf g -> In n (nodes g) -> node_with_id (n_id n) (nodes g) = Some n.
Proof.
  intros Hwf Hn. apply node_with_id_unique; auto. apply asc_NoDup. exact (wf_nodes g Hwf).
Qed.

Theorem mutate_add_link_wf o g s g' b s' :
  mutate_add_link o g s = Ok ((g', b), s') -> wf g -> env_ok (s_env s) g -> op_ok g s g' s'.
Proof.
  intros H Hwf He. apply add_link_inv in H.
  destruct H as [(_ & -> & Es)|(_ & x & n1 & n2 & s1 & Hi & Ho & Hen & Hopen & Hself & Hs1 & Hfrom & ->)].
  - apply op_ok_same_env; [exact Es|]. split; [exact Hwf|split; [apply retains_io_refl|exact He]].
  - destruct Hopen as ((a & c & Ha & Hc) & Hsens & Hex & _).
    assert (Hok : op_ok g s1 (with_genes g (gene_insert (genes g) x)) s').
    { apply insert_link_ok; auto.
      - now rewrite Hs1.
      - exists n1, n2. rewrite Hi, Ho. split; [apply node_lookup; auto; eapply nth_error_In; eauto|].
        split; [apply node_lookup; auto; eapply nth_error_In; eauto|exact Hsens].
      - intros y Hy Hk. pose proof (existsb_false_forall _ _ Hex y Hy) as Hf. cbv beta in Hf.
        unfold link_key in Hk. injection Hk as K1 K2 K3.
        rewrite K1, K2, K3, Hi, Ho, !Z.eqb_refl, eqb_reflx in Hf. discriminate. }
    destruct Hok as (A & B & C & D). unfold op_ok. rewrite <- Hs1. auto.
Qed.

(* ---------- connect-sensors ---------- *)
Lemma connect_fold_ok g0 s0 sn :
  wf g0 -> In sn (nodes g0) ->
  forall outs g added stop s g' added' stop' s',
    (forall out, In out outs -> In out (nodes g0) /\ is_sensor out = false) ->
    op_ok g0 s0 g s -> nodes g = nodes g0 ->
    foldM (connect_one (n_id sn)) outs (g, added, stop) s = Ok ((g', added', stop'), s') ->
    op_ok g0 s0 g' s' /\ nodes g' = nodes g0.
Proof.
  intros Hwf0 Hsn. induction outs as [|out outs IH]; intros g added stop s g' added' stop' s' Houts Hok Hnodes H;
    cbn [foldM] in H.
  - minv. pairs. subst. auto.
  - minv. destruct a as [[g1 added1] stop1].
    assert (Hstep : op_ok g0 s0 g1 s1 /\ nodes g1 = nodes g0).
    { apply connect_one_inv in E.
      destruct E as [(_ & -> & _ & _ & ->)|(_ & Eex & [(-> & _ & _ & Es)|(x & Hxi & Hxo & _ & _ & Hfrom & -> & _ & _)])].
      - auto.
      - split; [|exact Hnodes]. destruct Hok as (A & B & C & D). unfold op_ok. rewrite Es. auto.
      - split; [|exact Hnodes]. destruct Hok as (A & B & C & D).
        destruct (Houts out (or_introl eq_refl)) as [Hout Hns].
        eapply op_ok_trans; [split; [exact A|split; [exact B|split; [exact C|exact D]]]|].
        apply insert_link_ok; auto.
        + exists sn, out. rewrite Hxi, Hxo.
          split; [apply node_lookup; auto; now rewrite Hnodes|].
          split; [apply node_lookup; auto; now rewrite Hnodes|exact Hns].
        + intros y Hy Hk. pose proof (existsb_false_forall _ _ Eex y Hy) as Hf. cbv beta in Hf.
          unfold link_key in Hk. injection Hk as K1 K2 _. rewrite K1, K2, Hxi, Hxo, !Z.eqb_refl in Hf. discriminate. }
    destruct Hstep as [Hok1 Hn1]. eapply IH; eauto. intros o Ho. apply Houts. now right.
Qed.

Theorem mutate_connect_sensors_wf g s g' b s' :
  mutate_connect_sensors g s = Ok ((g', b), s') -> wf g -> env_ok (s_env s) g -> op_ok g s g' s'.
Proof.
  unfold mutate_connect_sensors. intros H Hwf He. destruct (genes g) as [|x0 gs0] eqn:Eg; [minv|].
  rewrite <- Eg in H. clear x0 gs0 Eg.
  destruct (filter _ (filter is_sensor (nodes g))) as [|d0 ds] eqn:Edis.
  { minv. pairs. subst. now apply op_ok_refl. }
  rewrite <- Edis in H. minv. subst.
  match goal with H : idx _ _ = Ok _ |- _ => apply idx_inv in H; destruct H as [_ Hsn] end.
  apply nth_error_In, filter_In in Hsn. destruct Hsn as [Hsn _]. apply filter_In in Hsn. destruct Hsn as [Hsn _].
  destruct a1 as [[g1 added] stop]. minv. pairs. subst.
  match goal with H : foldM _ _ _ _ = Ok _ |- _ => rename H into Hfold end.
  match goal with H : r_intn _ _ = Ok _ |- _ => apply ep_intn in H; rename H into Es0 end.
  assert (Hok0 : op_ok g s g s0).
  { destruct (op_ok_refl g s Hwf He) as (A & B & C & D). unfold op_ok. rewrite Es0. auto. }
  destruct (connect_fold_ok g s a0 Hwf Hsn _ _ _ _ _ _ _ _ _
              (fun out (Ho : In out (filter (fun n => negb (is_sensor n)) (nodes g))) =>
                 match proj1 (filter_In _ _ _) Ho with
                 | conj Hin Hneg => conj Hin (proj1 (negb_true_iff _) Hneg)
                 end) Hok0 eq_refl Hfold) as [Hok _].
  exact Hok.
Qed.

(* ---------- add-node ---------- *)
Lemma find_node_innov_some : forall l i o old inn,
    find_node_innov l i o old = Some inn ->
    In inn l /\ i_type inn = 1 /\ i_in inn = i /\ i_out inn = o /\ i_old inn = old.
Proof.
  induction l as [|x l IH]; intros i o old inn H; cbn [find_node_innov] in H; [discriminate|].
  destruct (_ && _) eqn:E.
  - injection H as <-. repeat (apply andb_true_iff in E; destruct E as [E ?]).
    repeat match goal with H : Z.eqb _ _ = true |- _ => apply Z.eqb_eq in H end.
    repeat split; auto. now left.
  - destruct (IH _ _ _ _ H) as (Hin & Hrest). split; [now right|exact Hrest].
Qed.

Lemma wf_ends_in_nodes g y : wf g -> In y (genes g) ->
  In (g_in y) (map n_id (nodes g)) /\ In (g_out y) (map n_id (nodes g)).
Proof.
  intros Hwf Hy. destruct (wf_endpoints g Hwf y Hy) as (a & b & Ha & Hb & _).
  apply node_with_id_In in Ha, Hb. destruct Ha as [Ha <-], Hb as [Hb <-]. split; now apply in_map.
Qed.

Lemma wf_split g k x nd num1 num2 :
  wf g -> nth_error (genes g) k = Some x -> n_type nd = HIDDEN -> ~ In (n_id nd) (map n_id (nodes g)) ->
  (forall t, n_trait nd = Some t -> has_trait g t) ->
  ~ In num1 (map g_innov (genes g)) -> ~ In num2 (map g_innov (genes g)) -> num1 <> num2 ->
  wf (split_genome g k x nd num1 num2).
Proof.
  intros Hwf Hk Hty Hfresh Hndt Hn1 Hn2 Hne.
  pose proof Hwf as [Hnonempty Hgs Hln Hns Hep Htr Htk Hout Hmod].
  assert (Hx : In x (genes g)) by (eapply nth_error_In; eauto).
  unfold split_genome.
  set (gs1 := set_nth (genes g) k (set_en false x)).
  set (x1 := mk_gene (g_trait x) 1%float (g_in x) (n_id nd) (g_rec x) num1 0%float).
  set (x2 := mk_gene (g_trait x) (g_w x) (n_id nd) (g_out x) false num2 0%float).
  set (ns' := node_insert (nodes g) nd).
  assert (Hsig : map gene_sig gs1 = map gene_sig (genes g)).
  { subst gs1. eapply map_set_nth_same; eauto. }
  assert (Hgs1 : forall z, In z gs1 -> exists y, In y (genes g) /\ gene_sig y = gene_sig z /\ g_trait z = g_trait y).
  { intros z Hz. subst gs1. apply set_nth_In in Hz. destruct Hz as [->|Hz]; [exists x|exists z]; auto. }
  pose proof (insert_sorted_perm g_innov gs1 x1) as Hp1.
  pose proof (insert_sorted_perm g_innov (gene_insert gs1 x1) x2) as Hp2.
  assert (Hin : forall z, In z (gene_insert (gene_insert gs1 x1) x2) -> z = x2 \/ z = x1 \/ In z gs1).
  { intros z Hz. apply (insert_sorted_In g_innov) in Hz. destruct Hz as [->|Hz]; [now left|right].
    now apply (insert_sorted_In g_innov) in Hz. }
  assert (Hoff : forall z, In z gs1 -> g_in z <> n_id nd /\ g_out z <> n_id nd).
  { intros z Hz. destruct (Hgs1 z Hz) as (y & Hy & Hs & _). destruct (gene_sig_ends _ _ Hs) as [<- <-].
    destruct (wf_ends_in_nodes g y Hwf Hy) as [Hi Ho]. split; intros E; apply Hfresh; congruence. }
  destruct (wf_ends_in_nodes g x Hwf Hx) as [Hxi Hxo].
  assert (Hasc1 : asc g_innov gs1).
  { unfold genes_sorted, asc in *. now rewrite map_innov_sig, Hsig, <- map_innov_sig. }
  assert (Hi1 : map g_innov gs1 = map g_innov (genes g)) by now rewrite map_innov_sig, Hsig, <- map_innov_sig.
  assert (Hk1 : map link_key gs1 = map link_key (genes g)) by now rewrite map_key_sig, Hsig, <- map_key_sig.
  assert (Hasc' : asc n_id ns') by (apply insert_sorted_asc; assumption).
  assert (Hnin : forall n, In n ns' <-> n = nd \/ In n (nodes g)) by (intros n; apply (insert_sorted_In n_id)).
  assert (Hold : forall id a, node_with_id id (nodes g) = Some a -> node_with_id id ns' = Some a).
  { intros id a Ha. apply node_with_id_In in Ha. destruct Ha as [Ha Hid].
    apply node_with_id_unique; [now apply asc_NoDup|apply Hnin; now right|exact Hid]. }
  assert (Hnew : node_with_id (n_id nd) ns' = Some nd).
  { apply node_with_id_unique; [now apply asc_NoDup|apply Hnin; now left|reflexivity]. }
  assert (Hsens : is_sensor nd = false) by (unfold is_sensor; rewrite Hty; reflexivity).
  constructor; cbn [genes nodes traits modules]; try assumption.
  - intros E. unfold gene_insert in E, Hp2. rewrite E in Hp2. apply Permutation_nil in Hp2. discriminate.
  - unfold genes_sorted. cbn [genes]. apply insert_sorted_asc.
    + apply insert_sorted_asc; [exact Hasc1|]. cbn. now rewrite Hi1.
    + cbn [g_innov x2 mk_gene]. intros H. apply in_map_iff in H. destruct H as (z & Hz & Hzin).
      apply (insert_sorted_In g_innov) in Hzin. destruct Hzin as [->|Hzin]; [cbn in Hz; congruence|].
      apply Hn2. rewrite <- Hi1, <- Hz. now apply in_map.
  - unfold links_nodup. cbn [genes].
    apply (Permutation_NoDup (l := link_key x2 :: link_key x1 :: map link_key gs1)).
    + apply Permutation_sym. etransitivity; [exact (Permutation_map link_key Hp2)|].
      cbn [map]. constructor. exact (Permutation_map link_key Hp1).
    + constructor; [|constructor; [|now rewrite Hk1]].
      * intros [H|H].
        -- unfold link_key in H. cbn in H. injection H as H _ _. apply Hfresh. congruence.
        -- apply in_map_iff in H. destruct H as (z & Hz & Hzin). unfold link_key in Hz. cbn in Hz.
           injection Hz as Hz _ _. now destruct (Hoff z Hzin).
      * intros H. apply in_map_iff in H. destruct H as (z & Hz & Hzin). unfold link_key in Hz. cbn in Hz.
        injection Hz as _ Hz _. now destruct (Hoff z Hzin).
  - intros z Hz. cbn [genes nodes] in *. destruct (Hep x Hx) as (a & b & Ha & Hb & Hsb).
    destruct (Hin z Hz) as [->|[->|Hz1]].
    + exists nd, b. cbn. auto.
    + exists a, nd. cbn. auto.
    + destruct (Hgs1 z Hz1) as (y & Hy & Hs & _). destruct (gene_sig_ends _ _ Hs) as [<- <-].
      destruct (Hep y Hy) as (a' & b' & Ha' & Hb' & Hsb'). exists a', b'. auto.
  - destruct Htr as [Hg Hn]. split.
    + intros z t Hz Ht. cbn [genes] in Hz. apply (has_trait_traits g); [reflexivity|].
      destruct (Hin z Hz) as [->|[->|Hz1]]; [now apply (Hg x)|now apply (Hg x)|].
      destruct (Hgs1 z Hz1) as (y & Hy & _ & Hty'). apply (Hg y); congruence.
    + intros n t Hn' Ht. cbn [nodes] in Hn'. apply (has_trait_traits g); [reflexivity|].
      apply Hnin in Hn'. destruct Hn' as [->|Hn']; [now apply Hndt|now apply (Hn n)].
  - destruct Hout as (n & Hn & Hto). exists n. split; [apply Hnin; now right|exact Hto].
Qed.

Lemma split_ok e g k x nd r :
  wf g -> env_ok e g -> nth_error (genes g) k = Some x ->
  In r (innovs e) -> i_type r = 1 -> n_id nd = i_node r -> n_type nd = HIDDEN ->
  ~ In (n_id nd) (map n_id (nodes g)) -> (forall t, n_trait nd = Some t -> has_trait g t) ->
  wf (split_genome g k x nd (i_num r) (i_num2 r)) /\
  retains_io g (split_genome g k x nd (i_num r) (i_num2 r)) /\
  env_ok e (split_genome g k x nd (i_num r) (i_num2 r)).
Proof.
  intros Hwf He Hk Hr Hty Hnid Hhid Hfresh Hndt.
  destruct (eo_rec _ _ He r Hr) as [_ H2]. destruct (H2 Hty) as (Hne & _ & _).
  assert (Hn1 : ~ In (i_num r) (map g_innov (genes g))).
  { intros H. apply in_map_iff in H. destruct H as (y & Hyn & Hy).
    destruct (eo_split _ _ He r y Hr Hty Hy) as [Ho _]. specialize (Ho Hyn).
    destruct (wf_ends_in_nodes g y Hwf Hy) as [_ Hout]. apply Hfresh. congruence. }
  assert (Hn2 : ~ In (i_num2 r) (map g_innov (genes g))).
  { intros H. apply in_map_iff in H. destruct H as (y & Hyn & Hy).
    destruct (eo_split _ _ He r y Hr Hty Hy) as [_ Hi]. specialize (Hi Hyn).
    destruct (wf_ends_in_nodes g y Hwf Hy) as [Hin _]. apply Hfresh. congruence. }
  split; [now apply wf_split|]. split.
  - apply retains_io_incl. intros n Hn. cbn [nodes split_genome]. apply (insert_sorted_In n_id). now right.
  - apply (env_ok_grow e g); [exact He| |].
    + intros z Hz. cbn [genes split_genome] in Hz.
      apply (insert_sorted_In g_innov) in Hz. destruct Hz as [->|Hz].
      { right. exists r. split; [exact Hr|]. right. split; [exact Hty|]. right. cbn. auto. }
      apply (insert_sorted_In g_innov) in Hz. destruct Hz as [->|Hz].
      { right. exists r. split; [exact Hr|]. right. split; [exact Hty|]. left. cbn. auto. }
      left. apply set_nth_In in Hz. destruct Hz as [->|Hz]; [exists x|exists z]; split; auto.
      eapply nth_error_In; eauto.
    + intros n Hn. cbn [nodes split_genome] in Hn. apply (insert_sorted_In n_id) in Hn.
      destruct Hn as [->|Hn]; [right; now exists r|left; now exists n].
Qed.

Theorem mutate_add_node_wf o g s g' b s' :
  mutate_add_node o g s = Ok ((g', b), s') -> wf g -> env_ok (s_env s) g -> op_ok g s g' s'.
Proof.
  intros H Hwf He. apply add_node_inv in H.
  destruct H as [(-> & _ & Es)|(k & x & Hk & Hsp & Hcase)].
  { apply op_ok_same_env; [exact Es|]. split; [exact Hwf|split; [apply retains_io_refl|exact He]]. }
  assert (Hx : In x (genes g)) by (eapply nth_error_In; eauto).
  assert (Ht0 : forall t0, nth_error (traits g) 0 = Some t0 ->
                           forall t, Some (t_id t0) = Some t -> has_trait g t).
  { intros t0 Hn t Ht. injection Ht as <-. apply traits_ok_has; [exact (wf_traits g Hwf)|]. eapply nth_error_In; eauto. }
  destruct Hcase as [(inn & t0 & Hf & Hn0 & Es & [(Hhn & _ & ->)|(Hhn & _ & ->)])|(Hf & t0 & act & Hn0 & _ & _ & -> & Hin & Hni & Hnn)].
  - (* matching record, node already present: the gene stays disabled *)
    apply op_ok_same_env; [exact Es|]. apply frame_wf; auto.
    + unfold frame. cbn [nodes genes traits gid modules with_genes]. repeat split; auto.
      eapply map_set_nth_same; eauto.
    + intros z t Hz Ht. cbn [genes with_genes] in Hz. apply set_nth_In in Hz.
      destruct Hz as [->|Hz]; [apply (wf_gene_trait g x)|apply (wf_gene_trait g z)]; auto.
    + intros n t. cbn [nodes with_genes]. now apply wf_node_trait.
  - (* matching record, new node *)
    apply find_node_innov_some in Hf. destruct Hf as (Hinn & Hty & _).
    apply op_ok_same_env; [exact Es|].
    apply (split_ok (s_env s) g k x _ inn); auto.
    + cbn. now apply have_node_false.
    + cbn. now apply Ht0.
  - (* fresh node and numbers *)
    set (r := node_innovation x (next_node (s_env s) + 1) (next_innov (s_env s) + 1) (next_innov (s_env s) + 1 + 1)) in *.
    assert (Hext : env_extends (s_env s) (s_env s')).
    { constructor; [lia|lia|]. exists [r]. split; [exact Hin|]. split.
      - cbn. constructor; [intros [E|[]]; lia|]. repeat constructor. intros [].
      - intros i [<-|[]]. cbn. split; [lia|]. intros _. lia. }
    assert (He' : env_ok (s_env s') g) by (eapply env_ok_extends; eauto).
    assert (Hr : In r (innovs (s_env s'))) by (rewrite Hin; apply in_or_app; right; now left).
    destruct (split_ok (s_env s') g k x
                {| n_id := next_node (s_env s) + 1; n_type := HIDDEN; n_act := act; n_trait := Some (t_id t0) |} r
                Hwf He' Hk Hr eq_refl eq_refl eq_refl) as (A & B & C).
    + cbn [n_id]. intros Hc. apply in_map_iff in Hc. destruct Hc as (n & Hid & Hn).
      pose proof (eo_node _ _ He n Hn). lia.
    + cbn [n_trait]. now apply Ht0.
    + split; [exact A|split; [exact B|split; [exact C|exact Hext]]].
Qed.

(* [op_ok g s g' s'] unfolds to
     wf g' /\ retains_io g g' /\ env_ok (s_env s') g' /\ env_extends (s_env s) (s_env s');
   the ten theorems above are: mutate_connect_sensors_wf, mutate_add_link_wf, mutate_add_node_wf,
   mutate_link_weights_wf, mutate_random_trait_wf, mutate_link_trait_wf, mutate_node_trait_wf,
   mutate_toggle_enable_wf, mutate_gene_reenable_wf, mutate_all_nonstructural_wf. *)
