(* C15, population stream: ReadPopulation re-assembles exactly the lines Genome.Write produced for every
   genome (this is where the "genomestart line glued to the first trait line" defect lived), skips the
   comment headers Species.Write emits, and yields the genomes in order. *)
From Coq Require Import String Lia.
From NeatModel Require Import Res F64 Genome Plain PlainSpec.
Open Scope string_scope.
Open Scope list_scope.

(* a line the population reader buffers verbatim: tagged trait / node / gene, with at least one field *)
Definition body_line (l : line) : Prop :=
  exists tag t rest, l = TWord tag :: t :: rest /\ (tag = "trait" \/ tag = "node" \/ tag = "gene").

(* a comment line: "/* ..." with at least one more field *)
Definition comment_line (l : line) : Prop := exists t rest, l = TWord "/*" :: t :: rest.

Lemma trait_line_body : forall t, body_line (trait_line t).
Proof.
  intros t. unfold trait_line, body_line. exists "trait", (TInt (t_id t)). eexists. split; [reflexivity|]. now left.
Qed.

Lemma gene_line_body : forall x, body_line (gene_line x).
Proof.
  intros x. unfold gene_line, body_line. exists "gene". do 2 eexists. split; [reflexivity|]. right. now right.
Qed.

Lemma node_line_body : forall reg n l, node_line reg n = Ok l -> body_line l.
Proof.
  intros reg n l H. unfold node_line in H. destruct (reg_name reg (n_act n)); [|discriminate].
  injection H as <-. exists "node". do 2 eexists. split; [reflexivity|]. right. now left.
Qed.

Lemma node_lines_body : forall reg ns nls, map_res (node_line reg) ns = Ok nls -> Forall body_line nls.
Proof.
  induction ns as [|n ns IH]; intros nls H.
  - injection H as <-. constructor.
  - apply map_res_cons_inv in H. destruct H as (l & ls & Hl & Hls & E). subst nls.
    constructor; [eapply node_line_body; eassumption | now apply IH].
Qed.

Lemma pop_body_line : forall reg st b l,
  body_line l -> p_buf st = Some b -> read_pop_line reg st l = Ok (p_set_buf st (Some (b ++ [l]))).
Proof.
  intros reg st b l (tag & t & rest & E & Htag) Hb. subst l.
  destruct Htag as [ -> | [ -> | -> ] ]; cbn [read_pop_line String.eqb Ascii.eqb Bool.eqb]; unfold pop_buffer; now rewrite Hb.
Qed.

Lemma pop_body_lines : forall reg ls st b rest,
  Forall body_line ls -> p_buf st = Some b ->
  read_pop_lines reg st (ls ++ rest) = read_pop_lines reg (p_set_buf st (Some (b ++ ls))) rest.
Proof.
  induction ls as [|l ls IH]; intros st b rest Hall Hb.
  - simpl. rewrite app_nil_r. destruct st; simpl in *. now subst.
  - inversion Hall; subst. cbn [app read_pop_lines]. rewrite (pop_body_line reg st b l) by assumption. cbn [bind].
    rewrite (IH _ (b ++ [l])); [|assumption|reflexivity].
    unfold p_set_buf. cbn. rewrite <- app_assoc. reflexivity.
Qed.

Lemma pop_comment_line : forall reg st l, comment_line l -> read_pop_line reg st l = Ok st.
Proof. intros reg st l (t & rest & ->). reflexivity. Qed.

Lemma pop_comment_lines : forall reg cs st rest,
  Forall comment_line cs -> read_pop_lines reg st (cs ++ rest) = read_pop_lines reg st rest.
Proof.
  induction cs as [|c cs IH]; intros st rest H; [reflexivity|].
  inversion H; subst. cbn [app read_pop_lines]. rewrite pop_comment_line by assumption. cbn [bind]. now apply IH.
Qed.

(* the counters after one more genome *)
Definition dummy_node : node := {| n_id := 0; n_type := 0; n_act := 0; n_trait := None |}.

Definition bump_node (nn : Z) (g : genome) : Z :=
  let lastn := n_id (last (nodes g) dummy_node) in if Z.ltb nn lastn then lastn + 1 else nn.
Definition bump_innov (ni : Z) (g : genome) : Z :=
  let nxt := g_innov (last (genes g) dummy_gene) + 1 in if Z.ltb ni nxt then nxt else ni.

(* ReadPopulation needs a last node and a last gene (getLastNodeId / getNextGeneInnovNum fail otherwise) *)
Definition pop_ok (reg : registry) (g : genome) : Prop := plain_ok reg g /\ nodes g <> [] /\ genes g <> [].

Lemma last_map : forall A B (f : A -> B) l d, l <> [] -> last (map f l) (f d) = f (last l d).
Proof.
  induction l as [|a l IH]; intros d H; [contradiction|].
  destruct l as [|b l]; [reflexivity|]. change (map f (a :: b :: l)) with (f a :: map f (b :: l)).
  change (last (f a :: map f (b :: l)) (f d)) with (last (map f (b :: l)) (f d)).
  rewrite IH by discriminate. reflexivity.
Qed.

Lemma last_default : forall A (l : list A) d d', l <> [] -> last l d = last l d'.
Proof.
  induction l as [|a l IH]; intros d d' H; [contradiction|]. destruct l as [|b l]; [reflexivity|].
  change (last (a :: b :: l) d) with (last (b :: l) d). change (last (a :: b :: l) d') with (last (b :: l) d').
  apply IH. discriminate.
Qed.

Lemma r_last_node_id_norm : forall g, nodes g <> [] ->
  r_last_node_id (rg_with_id (norm_genome g) (gid g)) = Ok (n_id (last (nodes g) dummy_node)).
Proof.
  intros g H. unfold r_last_node_id, rg_with_id, norm_genome. cbn [rg_nodes].
  destruct (nodes g) as [|n ns] eqn:E; [contradiction|]. cbn [map]. f_equal.
  destruct ns as [|m ms]; [reflexivity|].
  change (last (n :: m :: ms) dummy_node) with (last (m :: ms) dummy_node).
  rewrite (last_default _ (m :: ms) dummy_node n) by discriminate.
  rewrite (last_map _ _ (norm_node (traits g)) (m :: ms) n) by discriminate. reflexivity.
Qed.

Lemma r_next_innov_norm : forall g, genes g <> [] ->
  r_next_innov (rg_with_id (norm_genome g) (gid g)) = Ok (g_innov (last (genes g) dummy_gene) + 1).
Proof.
  intros g H. unfold r_next_innov, rg_with_id, norm_genome. cbn [rg_genes].
  destruct (genes g) as [|x xs] eqn:E; [contradiction|]. cbn [map]. f_equal. f_equal.
  destruct xs as [|y ys]; [reflexivity|].
  change (last (x :: y :: ys) dummy_gene) with (last (y :: ys) dummy_gene).
  rewrite (last_default _ (y :: ys) dummy_gene x) by discriminate.
  rewrite (last_map _ _ (norm_gene (traits g) (nodes g)) (y :: ys) x) by discriminate. reflexivity.
Qed.

(* one genome's lines, read with an empty buffer: one more organism, whatever idCheck was *)
Lemma pop_genome_chunk : forall reg g ls st rest,
  reg_ok reg -> pop_ok reg g -> write_genome reg g = Ok ls -> p_buf st = None ->
  read_pop_lines reg st (ls ++ rest) =
  read_pop_lines reg {| p_buf := None; p_idcheck := -1; p_orgs := p_orgs st ++ [norm_genome g];
                        p_next_node := bump_node (p_next_node st) g;
                        p_next_innov := bump_innov (p_next_innov st) g |} rest.
Proof.
  intros reg g ls st rest Hreg (Hok & Hn & Hg) Hw Hbuf.
  destruct (plain_roundtrip_id reg g (gid g) Hreg Hok) as (ls' & Hw' & Hr). rewrite Hw in Hw'. injection Hw' as <-.
  unfold write_genome in Hw. destruct (map_res (node_line reg) (nodes g)) as [nls| | | | |] eqn:Enl; try discriminate.
  cbn [bind] in Hw. injection Hw as <-.
  set (body := map trait_line (traits g) ++ nls ++ map gene_line (genes g)).
  assert (Hbody : Forall body_line body).
  { unfold body. apply Forall_app. split; [|apply Forall_app; split].
    - apply Forall_forall. intros l Hin. apply in_map_iff in Hin. destruct Hin as (t & <- & _). apply trait_line_body.
    - eapply node_lines_body; eassumption.
    - apply Forall_forall. intros l Hin. apply in_map_iff in Hin. destruct Hin as (x & <- & _). apply gene_line_body. }
  replace (start_line (gid g) :: map trait_line (traits g) ++ nls ++ map gene_line (genes g) ++ [end_line (gid g)])
    with (start_line (gid g) :: body ++ [end_line (gid g)]) in *
    by (unfold body; rewrite <- !app_assoc; reflexivity).
  cbn [app read_pop_lines]. unfold start_line at 1. cbn [read_pop_line String.eqb Ascii.eqb Bool.eqb bind].
  rewrite <- app_assoc.
  rewrite (pop_body_lines reg body _ [start_line (gid g)] _ Hbody) by reflexivity.
  cbn [app read_pop_lines]. unfold end_line at 1. cbn [read_pop_line String.eqb Ascii.eqb Bool.eqb].
  unfold pop_finish, p_set_buf. cbn [p_buf p_idcheck p_orgs p_next_node p_next_innov].
  change ([start_line (gid g)] ++ body) with (start_line (gid g) :: body). rewrite <- app_comm_cons, Hr. cbn [bind].
  rewrite (r_last_node_id_norm g Hn), (r_next_innov_norm g Hg). cbn [bind].
  unfold bump_node, bump_innov. reflexivity.
Qed.

(* a stream: for every genome some comment lines, then the genome as written; comment lines at the end *)
Fixpoint stream (reg : registry) (chunks : list (list line * genome)) : res (list line) :=
  match chunks with
  | [] => Ok []
  | (cs, g) :: more => do ls <- write_genome reg g; do tl <- stream reg more; Ok (cs ++ ls ++ tl)
  end.

Lemma pop_stream : forall reg chunks st ls tail,
  reg_ok reg -> Forall (fun c => Forall comment_line (fst c) /\ pop_ok reg (snd c)) chunks ->
  stream reg chunks = Ok ls -> p_buf st = None ->
  read_pop_lines reg st (ls ++ tail) =
  read_pop_lines reg {| p_buf := None; p_idcheck := match chunks with [] => p_idcheck st | _ => -1 end;
                        p_orgs := p_orgs st ++ map (fun c => norm_genome (snd c)) chunks;
                        p_next_node := fold_left bump_node (map snd chunks) (p_next_node st);
                        p_next_innov := fold_left bump_innov (map snd chunks) (p_next_innov st) |} tail.
Proof.
  induction chunks as [|[cs g] more IH]; intros st ls tail Hreg Hall Hs Hbuf.
  - injection Hs as <-. simpl. rewrite app_nil_r. destruct st; simpl in *. now subst.
  - inversion Hall as [|? ? [Hcs Hg] Hmore]; subst. simpl in Hcs, Hg.
    cbn [stream] in Hs. destruct (write_genome reg g) as [gl| | | | |] eqn:Ew; try discriminate. cbn [bind] in Hs.
    destruct (stream reg more) as [tl| | | | |] eqn:Et; try discriminate. cbn [bind] in Hs. injection Hs as <-.
    rewrite <- !app_assoc. rewrite (pop_comment_lines reg cs st _ Hcs).
    rewrite (pop_genome_chunk reg g gl st _ Hreg Hg Ew Hbuf).
    rewrite (IH _ tl tail Hreg Hmore eq_refl) by reflexivity.
    cbn [p_buf p_idcheck p_orgs p_next_node p_next_innov map fold_left fst snd]. rewrite <- app_assoc.
    destruct more; reflexivity.
Qed.

(* every genome of a non-empty list, each preceded by any comment lines and the whole followed by any
   comment lines, is restored in order; the node-id and innovation counters are the fold of the bumps *)
Theorem population_roundtrip_comments : forall reg chunks tail ls,
  reg_ok reg -> chunks <> [] ->
  Forall (fun c => Forall comment_line (fst c) /\ pop_ok reg (snd c)) chunks -> Forall comment_line tail ->
  stream reg chunks = Ok ls ->
  read_population reg (ls ++ tail) =
  Ok (map (fun c => norm_genome (snd c)) chunks,
      fold_left bump_node (map snd chunks) 0, fold_left bump_innov (map snd chunks) 0).
Proof.
  intros reg chunks tail ls Hreg Hne Hall Htail Hs. unfold read_population.
  rewrite (pop_stream reg chunks pop_init ls tail Hreg Hall Hs eq_refl).
  rewrite <- (app_nil_r tail), (pop_comment_lines reg tail _ [] Htail). cbn [read_pop_lines bind].
  cbn [p_orgs p_next_node p_next_innov pop_init app].
  destruct chunks as [|c more]; [contradiction|]. reflexivity.
Qed.

Lemma stream_plain : forall reg gs, stream reg (map (fun g => ([], g)) gs) = write_population reg gs.
Proof.
  induction gs as [|g gs IH]; [reflexivity|]. unfold write_population in *. cbn [map stream concat_res].
  rewrite IH. destruct (write_genome reg g); reflexivity.
Qed.

Lemma write_population_ok : forall reg gs, Forall (pop_ok reg) gs -> exists ls, write_population reg gs = Ok ls.
Proof.
  induction gs as [|g gs IH]; intros H; [now exists []|].
  inversion H as [|? ? [[_ _ _ Hn] _] H2]; subst. destruct (IH H2) as [tl Ht].
  destruct (write_nodes_ok reg (nodes g) Hn) as [nls Hnls].
  unfold write_population in *. cbn [map concat_res]. unfold write_genome at 1. rewrite Hnls. cbn [bind].
  rewrite Ht. cbn [bind]. eauto.
Qed.

(* Population.Write then ReadPopulation *)
Theorem population_roundtrip : forall reg gs,
  reg_ok reg -> gs <> [] -> Forall (pop_ok reg) gs ->
  exists ls, write_population reg gs = Ok ls /\
             read_population reg ls = Ok (map norm_genome gs, fold_left bump_node gs 0, fold_left bump_innov gs 0).
Proof.
  intros reg gs Hreg Hne Hall. destruct (write_population_ok reg gs Hall) as [ls Hw]. exists ls. split; [exact Hw|].
  rewrite <- stream_plain in Hw.
  pose proof (population_roundtrip_comments reg (map (fun g => ([], g)) gs) [] ls Hreg) as P.
  rewrite app_nil_r in P. rewrite P; try assumption.
  - rewrite !map_map. cbn [snd]. rewrite map_id. reflexivity.
  - destruct gs; [contradiction|discriminate].
  - apply Forall_forall. intros c Hin. apply in_map_iff in Hin. destruct Hin as (g & <- & Hg).
    split; [constructor|]. rewrite Forall_forall in Hall. now apply Hall.
  - constructor.
Qed.

(* ---------- malformed streams ---------- *)

Definition ok_err_or_nilbuf {A} (r : res A) : Prop :=
  match r with Ok _ | GoErr _ | GoPanic 1 => True | _ => False end.

Lemma ok_or_err_weaken : forall A (r : res A), ok_or_err r -> ok_err_or_nilbuf r.
Proof. intros A [a| | | | |]; simpl; tauto. Qed.

Lemma bind_nilbuf : forall A B (r : res A) (f : A -> res B),
  ok_err_or_nilbuf r -> (forall a, ok_err_or_nilbuf (f a)) -> ok_err_or_nilbuf (bind r f).
Proof. intros A B [a| |c| | |] f H Hf; simpl in *; try contradiction; auto. Qed.

Lemma pop_finish_total : forall reg st, ok_err_or_nilbuf (pop_finish reg st).
Proof.
  intros reg st. unfold pop_finish. destruct (p_buf st); [|exact I].
  apply bind_nilbuf.
  { unfold read_genome_id. apply bind_nilbuf; [apply ok_or_err_weaken, read_genome_total|]. intros; exact I. }
  intros g. apply bind_nilbuf.
  { unfold r_last_node_id. destruct (rg_nodes g); exact I. }
  intros z. apply bind_nilbuf.
  { unfold r_next_innov. destruct (rg_genes g); exact I. }
  intros; exact I.
Qed.

Lemma pop_buffer_total : forall st l, ok_err_or_nilbuf (pop_buffer st l).
Proof. intros st l. unfold pop_buffer. destruct (p_buf st); exact I. Qed.

Lemma read_pop_line_total : forall reg st l, ok_err_or_nilbuf (read_pop_line reg st l).
Proof.
  intros reg st l. unfold read_pop_line. destruct l as [|t [|t' rest]]; [exact I | destruct t; exact I |].
  destruct t as [z|f|b|s]; try apply pop_buffer_total.
  destruct (String.eqb s "genomestart").
  { destruct t'; try exact I. destruct rest; exact I. }
  destruct (String.eqb s "genomeend"); [apply pop_finish_total|].
  destruct (String.eqb s "/*"); [exact I|]. apply pop_buffer_total.
Qed.

(* whatever the stream: a result, an error return, or the nil-buffer panic -- nothing else *)
Theorem read_population_total : forall reg ls, ok_err_or_nilbuf (read_population reg ls).
Proof.
  intros reg ls. unfold read_population. apply bind_nilbuf.
  - generalize pop_init. induction ls as [|l ls IH]; intros st; simpl; [exact I|].
    apply bind_nilbuf; [apply read_pop_line_total|]. intros; apply IH.
  - intros st. destruct (p_orgs st); exact I.
Qed.

(* the panic: a line that is neither a comment nor a genomestart while no genome is open *)
Theorem read_population_stray_line_panics : forall reg tag t rest more,
  String.eqb tag "genomestart" = false -> String.eqb tag "/*" = false ->
  read_population reg ((TWord tag :: t :: rest) :: more) = GoPanic 1.
Proof.
  intros reg tag t rest more H1 H2. unfold read_population. cbn [read_pop_lines].
  unfold read_pop_line. rewrite H1, H2. destruct (String.eqb tag "genomeend"); reflexivity.
Qed.

(* an empty stream (an empty population) is rejected by the closing speciation step *)
Lemma read_population_empty : forall reg, read_population reg [] = GoErr 90.
Proof. reflexivity. Qed.

(* a genome that is started but never ended is dropped silently *)
Lemma read_population_unterminated_dropped : forall reg g gl body,
  reg_ok reg -> pop_ok reg g -> write_genome reg g = Ok gl -> Forall body_line body ->
  read_population reg (gl ++ start_line 7 :: body) = Ok ([norm_genome g], bump_node 0 g, bump_innov 0 g).
Proof.
  intros reg g gl body Hreg Hg Hw Hbody. unfold read_population.
  rewrite (pop_genome_chunk reg g gl pop_init _ Hreg Hg Hw eq_refl).
  cbn [read_pop_lines]. unfold start_line at 1. cbn [read_pop_line String.eqb Ascii.eqb Bool.eqb bind].
  rewrite <- (app_nil_r body), (pop_body_lines reg body _ [start_line 7] [] Hbody) by reflexivity.
  reflexivity.
Qed.
