(* C12, standard solver over the reals: what one pass of the ActivateSteps loop does (sums from the
   previous activations, the in-place isActive wave, activation of the active neurons), and from it:
   after j passes every neuron of depth <= j holds its final value; ForwardSteps k with k >= depth of
   every output returns the solution of the node equations and no error. *)
From NeatModel Require Import Res Net SolverUtil SolverSpec.
From Coq Require Import Reals Lra Arith Lia.
Open Scope R_scope.

Section StdSweep.
Variable n : net R.
Variable known : Z -> bool.
Variable f : Z -> R -> R.

Notation act := (ract known f).
Notation state := (sstate R).
Notation N := (nnodes n).

Definition same4 (s s' : state) : Prop :=
  s_act s' = s_act s /\ s_cnt s' = s_cnt s /\ s_l1 s' = s_l1 s /\ s_l2 s' = s_l2 s.
Definition ao (s : state) (p : nat) : R := active_out Rnum s p.
Definition sumR (s : state) (p : nat) : R := nth p (s_sum s) 0.
Definition onB (s : state) (p : nat) : bool := getB (s_on s) p.
Definition actR (s : state) (p : nat) : R := nth p (s_act s) 0.
Definition cntZ (s : state) (p : nat) : Z := getZ (s_cnt s) p.

Lemma same4_refl s : same4 s s.
Proof. repeat split. Qed.
Lemma same4_trans s1 s2 s3 : same4 s1 s2 -> same4 s2 s3 -> same4 s1 s3.
Proof. intros (A1 & A2 & A3 & A4) (B1 & B2 & B3 & B4). repeat split; congruence. Qed.
Lemma ao_same4 s s' p : same4 s s' -> ao s' p = ao s p.
Proof. intros (A1 & A2 & _). unfold ao, active_out. now rewrite A1, A2. Qed.

(* sum of weight * current output of the source *)
Definition wsum_ao (s : state) (ls : list (link R)) : R := wsum (ao s) ls.

(* ----- one link ----- *)
Definition lit (s : state) (l : link R) : Prop := onB s (l_src l) = true \/ sensorb n (l_src l) = true.

Lemma link_step_spec i s l :
  l_td l = false ->
  let s' := link_step Rnum n i s l in
  same4 s s' /\ length (s_sum s') = length (s_sum s) /\ length (s_on s') = length (s_on s) /\
  (forall j, j <> i -> sumR s' j = sumR s j /\ onB s' j = onB s j) /\
  ((i < length (s_sum s))%nat -> sumR s' i = sumR s i + l_w l * ao s (l_src l)) /\
  (onB s i = true -> onB s' i = true) /\
  ((i < length (s_on s))%nat -> lit s l -> onB s' i = true).
Proof.
  intros Htd. unfold link_step. rewrite Htd. simpl negb. cbv iota.
  fold (ao s (l_src l)).
  set (c := getB (s_on s) (l_src l) || is_sensor (role_at n (l_src l))).
  assert (Hc : lit s l <-> c = true).
  { unfold lit, c, onB, sensorb. rewrite orb_true_iff. tauto. }
  unfold add_sum, set_sum, getF, sumR, onB, getB. simpl fzero. simpl fadd. simpl fmul.
  destruct c; simpl.
  - repeat split; try reflexivity.
    + now rewrite upd_length.
    + now rewrite upd_length.
    + rewrite nth_upd_other by auto. reflexivity.
    + rewrite nth_upd_other by auto. reflexivity.
    + intros Hi. rewrite nth_upd_same by exact Hi. reflexivity.
    + intros H. rewrite nth_upd. destruct ((i =? i)%nat && (i <? length (s_on s))%nat); auto.
    + intros Hi _. apply nth_upd_same. exact Hi.
  - repeat split; try reflexivity.
    + now rewrite upd_length.
    + rewrite nth_upd_other by auto. reflexivity.
    + intros Hi. rewrite nth_upd_same by exact Hi. reflexivity.
    + auto.
    + intros _ H. apply Hc in H. discriminate.
Qed.

(* ----- all links of one node ----- *)
Lemma fold_link_step_spec i ls : forall s,
  (forall l, In l ls -> l_td l = false) ->
  let s' := fold_left (link_step Rnum n i) ls s in
  same4 s s' /\ length (s_sum s') = length (s_sum s) /\ length (s_on s') = length (s_on s) /\
  (forall j, j <> i -> sumR s' j = sumR s j /\ onB s' j = onB s j) /\
  ((i < length (s_sum s))%nat -> sumR s' i = sumR s i + wsum_ao s ls) /\
  (onB s i = true -> onB s' i = true) /\
  ((i < length (s_on s))%nat -> (exists l, In l ls /\ lit s l) -> onB s' i = true).
Proof.
  induction ls as [|l rest IH]; intros s Htd; simpl.
  - repeat split; auto. + intros _. unfold wsum_ao. simpl. lra. + intros _ [l [[] _]].
  - destruct (link_step_spec i s l (Htd l (or_introl eq_refl))) as (A & L1 & L2 & O & S1 & M1 & G1).
    destruct (IH (link_step Rnum n i s l) (fun l' H => Htd l' (or_intror H))) as (A' & L1' & L2' & O' & S1' & M1' & G1').
    repeat split.
    + apply (same4_trans _ _ _ A A').
    + apply (same4_trans _ _ _ A A').
    + apply (same4_trans _ _ _ A A').
    + apply (same4_trans _ _ _ A A').
    + congruence.
    + congruence.
    + destruct (O' j H) as [E1 _]. destruct (O j H) as [E2 _]. congruence.
    + destruct (O' j H) as [_ E1]. destruct (O j H) as [_ E2]. congruence.
    + intros Hi. rewrite S1' by (rewrite L1; exact Hi). rewrite S1 by exact Hi.
      unfold wsum_ao. simpl. rewrite (wsum_ext (ao (link_step Rnum n i s l)) (ao s)).
      * lra.
      * intros l' _. apply ao_same4. exact A.
    + auto.
    + intros Hi [l' [[<-|Hl'] Hlit]].
      * apply M1'. apply G1; assumption.
      * apply G1'; [rewrite L2; exact Hi|]. exists l'. split; [exact Hl'|].
        destruct Hlit as [Hlit|Hlit]; [left|right; exact Hlit].
        destruct (Nat.eq_dec (l_src l') i) as [E|Hne]; [rewrite E in *; apply M1; exact Hlit|].
        destruct (O _ Hne) as [_ E]. unfold onB in *. congruence.
Qed.

(* ----- one node of the first loop ----- *)
Lemma sum_node_spec i s :
  (forall l, In l (nd_in (node_at n i)) -> l_td l = false) ->
  let s' := sum_node Rnum n s i in
  same4 s s' /\ length (s_sum s') = length (s_sum s) /\ length (s_on s') = length (s_on s) /\
  (forall j, j <> i -> sumR s' j = sumR s j /\ onB s' j = onB s j) /\
  (forall j, onB s j = true -> onB s' j = true) /\
  (neuronb n i = true -> (i < length (s_sum s))%nat -> sumR s' i = wsum_ao s (nd_in (node_at n i))) /\
  (neuronb n i = true -> (i < length (s_on s))%nat ->
   (exists l, In l (nd_in (node_at n i)) /\ lit s l) -> onB s' i = true).
Proof.
  intros Htd. unfold sum_node. fold (neuronb n i). destruct (neuronb n i) eqn:En.
  - set (s0 := set_sum s i (fzero Rnum)).
    destruct (fold_link_step_spec i (nd_in (node_at n i)) s0 Htd) as (A & L1 & L2 & O & S1 & M1 & G1).
    assert (A0 : same4 s s0) by (repeat split).
    assert (Hon0 : s_on s0 = s_on s) by reflexivity.
    assert (Hl0 : length (s_sum s0) = length (s_sum s)) by (unfold s0, set_sum; simpl; apply upd_length).
    repeat split; try (apply (same4_trans _ _ _ A0 A)).
    + congruence.
    + rewrite L2. now rewrite Hon0.
    + destruct (O j H) as [E _]. rewrite E. unfold sumR, s0, set_sum. simpl. apply nth_upd_other. auto.
    + destruct (O j H) as [_ E]. rewrite E. unfold onB. now rewrite Hon0.
    + intros j Hj. destruct (Nat.eq_dec j i) as [->|Hne].
      * apply M1. unfold onB. rewrite Hon0. exact Hj.
      * destruct (O j Hne) as [_ E]. rewrite E. unfold onB. rewrite Hon0. exact Hj.
    + intros _ Hi. rewrite S1 by (rewrite Hl0; exact Hi).
      assert (E0 : sumR s0 i = 0) by (unfold sumR, s0, set_sum; simpl; apply nth_upd_same; exact Hi).
      rewrite E0. unfold wsum_ao. rewrite (wsum_ext (ao s0) (ao s)); [lra|].
      intros l _. apply ao_same4. exact A0.
    + intros _ Hi [l [Hl Hlit]]. apply G1; [rewrite Hon0; exact Hi|]. exists l. split; [exact Hl|].
      unfold lit, onB in *. now rewrite Hon0.
  - repeat split; auto; discriminate.
Qed.

(* ----- the whole first loop ----- *)
Lemma fold_sum_node_spec L : forall s,
  NoDup L ->
  (forall i l, In i L -> In l (nd_in (node_at n i)) -> l_td l = false) ->
  let s' := fold_left (sum_node Rnum n) L s in
  same4 s s' /\ length (s_sum s') = length (s_sum s) /\ length (s_on s') = length (s_on s) /\
  (forall j, ~ In j L -> sumR s' j = sumR s j /\ onB s' j = onB s j) /\
  (forall j, onB s j = true -> onB s' j = true) /\
  (forall p, In p L -> neuronb n p = true -> (p < length (s_sum s))%nat ->
             sumR s' p = wsum_ao s (nd_in (node_at n p))) /\
  (forall p, In p L -> neuronb n p = true -> (p < length (s_on s))%nat ->
             (exists l, In l (nd_in (node_at n p)) /\ lit s l) -> onB s' p = true).
Proof.
  induction L as [|i rest IH]; intros s ND Htd; simpl.
  - repeat split; auto; intros p [].
  - inversion ND as [|? ? Hni ND']; subst.
    destruct (sum_node_spec i s (fun l H => Htd i l (or_introl eq_refl) H)) as (A & L1 & L2 & O & M & S1 & G1).
    destruct (IH (sum_node Rnum n s i) ND' (fun j l Hj H => Htd j l (or_intror Hj) H))
      as (A' & L1' & L2' & O' & M' & S1' & G1').
    repeat split; try (apply (same4_trans _ _ _ A A')).
    + congruence.
    + congruence.
    + assert (Hj : ~ In j rest) by tauto. assert (Hne : j <> i) by (intros ->; apply H; auto).
      destruct (O' j Hj) as [E1 _]. destruct (O j Hne) as [E2 _]. congruence.
    + assert (Hj : ~ In j rest) by tauto. assert (Hne : j <> i) by (intros ->; apply H; auto).
      destruct (O' j Hj) as [_ E1]. destruct (O j Hne) as [_ E2]. congruence.
    + intros j Hj. apply M', M, Hj.
    + intros p [<-|Hp] Hn Hlt.
      * destruct (O' i Hni) as [E _]. rewrite E. apply S1; assumption.
      * rewrite S1' by (try assumption; rewrite L1; exact Hlt).
        unfold wsum_ao. apply wsum_ext. intros l _. apply ao_same4. exact A.
    + intros p [<-|Hp] Hn Hlt Hex.
      * apply M'. apply G1; assumption.
      * apply G1'; try assumption; [rewrite L2; exact Hlt|].
        destruct Hex as [l [Hl Hlit]]. exists l. split; [exact Hl|].
        destruct Hlit as [Hlit|Hlit]; [left; apply M; exact Hlit|right; exact Hlit].
Qed.

Lemma phase1_spec s :
  (forall i l, (i < N)%nat -> In l (nd_in (node_at n i)) -> l_td l = false) ->
  length (s_sum s) = N -> length (s_on s) = N ->
  let s' := phase1 Rnum n s in
  same4 s s' /\ length (s_sum s') = N /\ length (s_on s') = N /\
  (forall j, onB s j = true -> onB s' j = true) /\
  (forall p, (p < N)%nat -> neuronb n p = true -> sumR s' p = wsum_ao s (nd_in (node_at n p))) /\
  (forall p, (p < N)%nat -> neuronb n p = true ->
             (exists l, In l (nd_in (node_at n p)) /\ lit s l) -> onB s' p = true).
Proof.
  intros Htd Ls Lo. unfold phase1.
  destruct (fold_sum_node_spec (seq 0 N) s (seq_NoDup _ _)) as (A & L1 & L2 & O & M & S1 & G1).
  { intros i l Hi. apply Htd. apply in_seq in Hi. lia. }
  repeat split; try apply A; try congruence.
  - exact M.
  - intros p Hp Hn. apply S1; [apply in_seq; lia|exact Hn|lia].
  - intros p Hp Hn. apply G1; [apply in_seq; lia|exact Hn|lia].
Qed.

(* ----- second loop, when every neuron's activation type is registered ----- *)
Definition act_pure (s : state) (i : nat) : state :=
  if neuronb n i && onB s i then set_activation Rnum s i (f (nd_act (node_at n i)) (sumR s i)) else s.

Lemma phase2_pure is : forall s,
  (forall i, In i is -> neuronb n i = true -> known (nd_act (node_at n i)) = true) ->
  phase2 Rnum act n is s = (fold_left act_pure is s, Ok true).
Proof.
  induction is as [|i rest IH]; intros s Hk; simpl; [reflexivity|].
  unfold act_pure at 2. fold (neuronb n i). fold (onB s i).
  destruct (neuronb n i) eqn:En; simpl.
  - destruct (onB s i); simpl.
    + unfold activate_node, ract. rewrite (Hk i (or_introl eq_refl) En). simpl.
      apply IH. intros j Hj. apply Hk. simpl. auto.
    + apply IH. intros j Hj. apply Hk. simpl. auto.
  - apply IH. intros j Hj. apply Hk. simpl. auto.
Qed.

Definition same_so (s s' : state) : Prop := s_sum s' = s_sum s /\ s_on s' = s_on s.

Lemma act_pure_spec s i :
  let s' := act_pure s i in
  same_so s s' /\ length (s_act s') = length (s_act s) /\ length (s_cnt s') = length (s_cnt s) /\
  (forall j, j <> i -> actR s' j = actR s j /\ cntZ s' j = cntZ s j) /\
  ((i < length (s_act s))%nat -> (i < length (s_cnt s))%nat ->
   if neuronb n i && onB s i
   then actR s' i = f (nd_act (node_at n i)) (sumR s i) /\ cntZ s' i = (cntZ s i + 1)%Z
   else actR s' i = actR s i /\ cntZ s' i = cntZ s i).
Proof.
  unfold act_pure. destruct (neuronb n i && onB s i).
  - unfold set_activation, save_activations, same_so, actR, cntZ, getZ. simpl.
    repeat split; rewrite ?upd_length; try reflexivity.
    + apply nth_upd_other. auto.
    + apply nth_upd_other. auto.
    + apply nth_upd_same. exact H.
    + apply nth_upd_same. exact H0.
  - repeat split.
Qed.

Lemma fold_act_pure_spec L : forall s,
  NoDup L ->
  let s' := fold_left act_pure L s in
  same_so s s' /\ length (s_act s') = length (s_act s) /\ length (s_cnt s') = length (s_cnt s) /\
  (forall j, ~ In j L -> actR s' j = actR s j /\ cntZ s' j = cntZ s j) /\
  (forall p, In p L -> (p < length (s_act s))%nat -> (p < length (s_cnt s))%nat ->
     if neuronb n p && onB s p
     then actR s' p = f (nd_act (node_at n p)) (sumR s p) /\ cntZ s' p = (cntZ s p + 1)%Z
     else actR s' p = actR s p /\ cntZ s' p = cntZ s p).
Proof.
  induction L as [|i rest IH]; intros s ND; simpl.
  - repeat split; auto. intros p [].
  - inversion ND as [|? ? Hni ND']; subst.
    destruct (act_pure_spec s i) as ((B1 & B2) & L1 & L2 & O & S1).
    destruct (IH (act_pure s i) ND') as ((B1' & B2') & L1' & L2' & O' & S1').
    repeat split; try congruence.
    + assert (Hj : ~ In j rest) by tauto. assert (Hne : j <> i) by (intros ->; apply H; auto).
      destruct (O' j Hj) as [E1 _]. destruct (O j Hne) as [E2 _]. congruence.
    + assert (Hj : ~ In j rest) by tauto. assert (Hne : j <> i) by (intros ->; apply H; auto).
      destruct (O' j Hj) as [_ E1]. destruct (O j Hne) as [_ E2]. congruence.
    + intros p [<-|Hp] Ha Hc.
      * destruct (O' i Hni) as [E1 E2]. rewrite E1, E2. apply S1; assumption.
      * assert (Hne : p <> i) by (intros ->; contradiction).
        specialize (S1' p Hp). rewrite L1, L2 in S1'. specialize (S1' Ha Hc).
        unfold onB, sumR in *. rewrite B1, B2 in S1'.
        destruct (O p Hne) as [E1 E2]. rewrite E1, E2 in S1'. exact S1'.
Qed.

End StdSweep.

Section StdForward.
Variable n : net R.
Variable known : Z -> bool.
Variable f : Z -> R -> R.
Variable dp : nat -> nat.
Variable v : nat -> R.
Hypothesis FF : ffnet n known dp.
Hypothesis SOL : solves n f v.

Notation act := (ract known f).
Notation state := (sstate R).
Notation N := (nnodes n).

Definition lensN (s : state) : Prop :=
  length (s_act s) = N /\ length (s_cnt s) = N /\ length (s_sum s) = N /\ length (s_on s) = N.

(* the state in which the sensors carry v *)
Definition base (s : state) : Prop :=
  lensN s /\ (forall p, (0 <= cntZ s p)%Z) /\
  (forall p, (p < N)%nat -> sensorb n p = true -> ao s p = v p).

(* ... and every neuron of depth <= j is active and holds its final value *)
Definition Fin (j : nat) (s : state) : Prop :=
  base s /\
  (forall p, (p < N)%nat -> neuronb n p = true -> (dp p <= j)%nat ->
             onB s p = true /\ (0 < cntZ s p)%Z /\ actR s p = v p).

Lemma Fin_source j s p l :
  Fin j s -> (p < N)%nat -> neuronb n p = true -> (dp p <= S j)%nat -> In l (nd_in (node_at n p)) ->
  ao s (l_src l) = v (l_src l) /\ lit n s l.
Proof.
  intros [(LN & CN & SV) NV] Hp Hn Hd Hl.
  pose proof (net_ok_src n (ff_ok _ _ _ FF) p l Hp Hl) as Hs.
  pose proof (ff_rank _ _ _ FF p l Hp Hn Hl) as Hr.
  destruct (sensor_or_neuron n (l_src l)) as [Hse|Hne].
  - split; [apply SV; assumption|right; exact Hse].
  - destruct (NV (l_src l) Hs Hne) as (O1 & C1 & A1); [lia|].
    split; [|left; exact O1].
    unfold ao, active_out. fold (cntZ s (l_src l)).
    destruct (0 <? cntZ s (l_src l))%Z eqn:E; [exact A1|]. apply Z.ltb_ge in E. lia.
Qed.

Lemma Fin_zero s : base s -> Fin 0 s.
Proof.
  intros B. split; [exact B|]. intros p Hp Hn Hd. exfalso.
  pose proof (ff_fed _ _ _ FF p Hp Hn) as Hne.
  destruct (nd_in (node_at n p)) as [|l rest] eqn:E; [congruence|].
  pose proof (ff_rank _ _ _ FF p l Hp Hn) as Hr. rewrite E in Hr. specialize (Hr (or_introl eq_refl)). lia.
Qed.

Lemma Fin_mono j j' s : (j' <= j)%nat -> Fin j s -> Fin j' s.
Proof. intros Hle [B NV]. split; [exact B|]. intros p Hp Hn Hd. apply NV; try assumption. lia. Qed.

(* one pass of the loop body *)
Lemma sweep_Fin j s : Fin j s -> exists s', sweep Rnum act n s = (s', Ok true) /\ Fin (S j) s'.
Proof.
  intros HF. pose proof HF as [((LA & LC & LS & LO) & CN & SV) NV].
  unfold sweep.
  destruct (phase1_spec n s (fun i l Hi Hl => ff_notd _ _ _ FF i l Hi Hl) LS LO) as (A & L1 & L2 & M & S1 & G1).
  set (s1 := phase1 Rnum n s) in *.
  rewrite (phase2_pure n known f (seq 0 N) s1).
  2:{ intros i Hi Hn. apply (ff_known _ _ _ FF); [apply in_seq in Hi; lia|exact Hn]. }
  eexists. split; [reflexivity|].
  destruct (fold_act_pure_spec n f (seq 0 N) s1 (seq_NoDup _ _)) as ((B1 & B2) & L3 & L4 & O & S2).
  set (s' := fold_left (act_pure n f) (seq 0 N) s1) in *.
  destruct A as (A1 & A2 & A3 & A4).
  assert (LA1 : length (s_act s1) = N) by congruence.
  assert (LC1 : length (s_cnt s1) = N) by congruence.
  assert (Hcnt1 : forall p, cntZ s1 p = cntZ s p) by (intros p; unfold cntZ; now rewrite A2).
  assert (Hact1 : forall p, actR s1 p = actR s p) by (intros p; unfold actR; now rewrite A1).
  assert (Hin : forall p, (p < N)%nat -> In p (seq 0 N)) by (intros p Hp; apply in_seq; lia).
  split; [split; [|split]|].
  - repeat split; congruence.
  - intros p. destruct (Nat.lt_ge_cases p N) as [Hp|Hp].
    + specialize (S2 p (Hin p Hp)). rewrite LA1, LC1 in S2. specialize (S2 Hp Hp).
      destruct (neuronb n p && onB s1 p); destruct S2 as [_ E]; rewrite E, Hcnt1; specialize (CN p); lia.
    + destruct (O p) as [_ E]; [intros Hi; apply in_seq in Hi; lia|]. rewrite E, Hcnt1. apply CN.
  - intros p Hp Hs. specialize (S2 p (Hin p Hp)). rewrite LA1, LC1 in S2. specialize (S2 Hp Hp).
    assert (Hn : neuronb n p = false).
    { unfold neuronb, sensorb in *. destruct (role_at n p); simpl in *; congruence. }
    rewrite Hn in S2. simpl in S2. destruct S2 as [E1 E2].
    rewrite <- (SV p Hp Hs). unfold ao, active_out. fold (cntZ s' p) (cntZ s p).
    change (getF Rnum (s_act s') p) with (actR s' p). change (getF Rnum (s_act s) p) with (actR s p).
    now rewrite E1, E2, Hcnt1, Hact1.
  - intros p Hp Hn Hd.
    assert (Hsum : sumR s1 p = wsum v (nd_in (node_at n p))).
    { rewrite S1 by assumption. unfold wsum_ao. apply wsum_ext. intros l Hl.
      apply (Fin_source j s p l HF Hp Hn Hd Hl). }
    assert (Hon : onB s1 p = true).
    { apply G1; try assumption.
      pose proof (ff_fed _ _ _ FF p Hp Hn) as Hne.
      destruct (nd_in (node_at n p)) as [|l rest] eqn:E; [congruence|].
      exists l. split; [simpl; auto|]. apply (Fin_source j s p l HF Hp Hn Hd). rewrite E. simpl. auto. }
    specialize (S2 p (Hin p Hp)). rewrite LA1, LC1 in S2. specialize (S2 Hp Hp).
    rewrite Hn, Hon in S2. simpl in S2. destruct S2 as [E1 E2].
    split; [|split].
    + unfold onB. rewrite B2. exact Hon.
    + rewrite E2, Hcnt1. specialize (CN p). lia.
    + rewrite E1, Hsum. symmetry. apply SOL; assumption.
Qed.

Variable k : Z.
Hypothesis k_pos : (1 <= k)%Z.
Hypothesis k_depth : forall o, In o (outputs n) -> (Z.of_nat (dp o) <= k)%Z.

Lemma outputs_on j s : Fin j s -> (k <= Z.of_nat j)%Z -> output_is_off n s = false.
Proof.
  intros [B NV] Hj. unfold output_is_off.
  destruct (existsb (fun o => getZ (s_cnt s) o =? 0)%Z (outputs n)) eqn:E; [|reflexivity].
  apply existsb_exists in E. destruct E as [o [Ho E]]. apply Z.eqb_eq in E.
  pose proof (net_ok_outputs n (ff_ok _ _ _ FF) o Ho) as Hlt.
  pose proof (ff_outs _ _ _ FF o Ho) as Hn.
  destruct (NV o Hlt Hn) as (_ & C & _); [specialize (k_depth o Ho); lia|].
  unfold cntZ in C. lia.
Qed.

Lemma activate_loop_Fin fuel : forall a j s,
  Fin j s -> (Z.of_nat a <= k)%Z -> (a <= j)%nat -> (Z.to_nat k + 1 <= fuel + a)%nat ->
  exists s' m, activate_loop Rnum act n fuel k (Z.of_nat a) (0 <? a)%nat s = (s', Ok true) /\
               Fin (j + m) s' /\ (a = 0%nat -> (1 <= m)%nat).
Proof.
  induction fuel as [|fuel IH]; intros a j s HF Ha Haj Hfuel.
  - exfalso. lia.
  - simpl. destruct (output_is_off n s || negb (0 <? a)%nat) eqn:Ec.
    + destruct (Z.of_nat a >=? k)%Z eqn:Ek.
      * exfalso. apply Z.geb_le in Ek.
        rewrite (outputs_on j s HF) in Ec by lia. simpl in Ec.
        destruct (0 <? a)%nat eqn:E0; [discriminate|]. apply Nat.ltb_ge in E0. lia.
      * assert (Hlt : (Z.of_nat a < k)%Z) by (destruct (Z.geb_spec (Z.of_nat a) k); [discriminate|lia]).
        destruct (sweep_Fin j s HF) as (s1 & Es & HF1). rewrite Es.
        destruct (IH (S a) (S j) s1 HF1) as (s' & m & E & HF' & _); try lia.
        replace (Z.of_nat a + 1)%Z with (Z.of_nat (S a)) by lia.
        change (0 <? S a)%nat with true in E.
        exists s', (S m). split; [exact E|]. split; [|lia].
        replace (j + S m)%nat with (S j + m)%nat by lia. exact HF'.
    + exists s, 0%nat. split; [reflexivity|]. split; [now rewrite Nat.add_0_r|].
      intros ->. apply orb_false_iff in Ec. destruct Ec as [_ Ec]. discriminate.
Qed.

Lemma activate_steps_Fin j s :
  Fin j s -> exists s' m, activate_steps Rnum act n k s = (s', Ok true) /\ Fin (j + m) s' /\ (1 <= m)%nat.
Proof.
  intros HF. unfold activate_steps. destruct (k =? 0)%Z eqn:E; [apply Z.eqb_eq in E; lia|].
  destruct (activate_loop_Fin (S (Z.to_nat k)) 0 j s HF) as (s' & m & E1 & HF' & Hm); try lia.
  exists s', m. simpl in E1. auto.
Qed.

Lemma forward_loop_Fin it : forall j s last,
  Fin j s ->
  exists s' j', forward_loop Rnum act n it k last s = (s', Ok (if (it =? 0)%nat then last else true)) /\
                Fin j' s' /\ (j + it <= j')%nat.
Proof.
  induction it as [|it IH]; intros j s last HF; simpl.
  - exists s, j. split; [reflexivity|]. split; [exact HF|lia].
  - destruct (activate_steps_Fin j s HF) as (s1 & m & E1 & HF1 & Hm). rewrite E1.
    destruct (IH (j + m)%nat s1 true HF1) as (s' & j' & E2 & HF' & Hj').
    exists s', j'. split; [|split; [exact HF'|lia]].
    rewrite E2. destruct (it =? 0)%nat; reflexivity.
Qed.

(* ForwardSteps k from any state whose sensors carry v *)
Theorem std_forward_from_base s :
  base s ->
  exists s', std_forward Rnum act n k s = (s', Ok true) /\ std_outputs Rnum n s' = map v (outputs n).
Proof.
  intros B. unfold std_forward. destruct (k =? 0)%Z eqn:E; [apply Z.eqb_eq in E; lia|].
  destruct (forward_loop_Fin (Z.to_nat k) 0 s false (Fin_zero s B)) as (s' & j' & E1 & [B' NV] & Hj').
  exists s'. split.
  - rewrite E1. destruct (Z.to_nat k =? 0)%nat eqn:E0; [apply Nat.eqb_eq in E0; lia|reflexivity].
  - unfold std_outputs. apply map_ext_in. intros o Ho.
    pose proof (net_ok_outputs n (ff_ok _ _ _ FF) o Ho) as Hlt.
    destruct (NV o Hlt (ff_outs _ _ _ FF o Ho)) as (_ & _ & A); [specialize (k_depth o Ho); lia|].
    exact A.
Qed.

End StdForward.
