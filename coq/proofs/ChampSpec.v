(* C10, species level: Species.reproduce makes an exact duplicate of the species' first organism
   (its champion) whenever the offspring quota exceeds five: either the last of the reserved
   super-champion offspring or the champion clone. *)
From NeatModel Require Import Compat.
From NeatModel Require Import Res F64 GoRand Genome Options Insert Dup Mutate Mate Population MonadLemmas WF ChampHeap.
From Coq Require Import Lia.

Definition super_next (c : organism) : Z := if Z.gtb (o_super c) 0 then o_super c - 1 else o_super c.

(* what one iteration of the offspring loop does to the loop state; [c] is the champion record
   before the iteration, [b] the baby *)
Record baby_step (s : species) (count ck : Z) (c : organism) (rs rs' : rstate) (b : organism) : Prop := {
  bs_key : o_key b = r_key rs;
  bs_next : r_key rs' = r_key rs + 1;
  bs_babies : r_babies rs' = r_babies rs ++ [r_key rs];
  bs_heap : forall k, hget (r_heap rs') k =
                      if Z.eqb (r_key rs) k then Ok b
                      else if Z.eqb ck k then Ok (o_with_super c (super_next c))
                           else hget (r_heap rs) k;
  bs_fresh : o_super b = 0;
  bs_last_super : o_super c = 1 -> duplicate (o_genome c) count = Ok (o_genome b);
  bs_clone : o_super c <= 0 -> r_clone_done rs = false -> sp_exp s > 5 ->
             duplicate (o_genome c) count = Ok (o_genome b)
}.

(* every branch ends in [finish]: the heap gets the baby under the next key *)
Definition finished (rs : rstate) (h : list organism) (rs' : rstate) : Prop :=
  exists b cd, o_key b = r_key rs /\ o_super b = 0 /\
               rs' = {| r_heap := hset h b; r_key := r_key rs + 1; r_babies := r_babies rs ++ [o_key b];
                        r_clone_done := cd |}.

Ltac post_step :=
  match goal with
  | |- post (bindM _ _) _ => apply post_bind; intros ?
  | |- post (if ?b then _ else _) _ => destruct b
  | |- post (let '(_, _) := ?x in _) _ => destruct x
  | |- post (fail_panic _) _ => apply post_fail_panic
  | |- post (match ?x with Some _ => _ | None => _ end) _ => destruct x
  end.

Lemma finished_step ck c rs rs' :
  hget (r_heap rs) ck = Ok c ->
  finished rs (r_heap rs) rs' ->
  exists b, o_key b = r_key rs /\ o_super b = 0 /\ r_key rs' = r_key rs + 1 /\ r_babies rs' = r_babies rs ++ [r_key rs] /\
            (forall k, hget (r_heap rs') k =
                       if Z.eqb (r_key rs) k then Ok b
                       else if Z.eqb ck k then Ok (o_with_super c (o_super c)) else hget (r_heap rs) k) /\
            r_heap rs' = hset (r_heap rs) b.
Proof.
  intros Hc [b [cd [Hk [Hs ->]]]]. exists b. cbn [r_heap r_key r_babies]. rewrite Hk.
  repeat split; try assumption. intros k. rewrite hget_hset, Hk.
  destruct (Z.eqb (r_key rs) k); [reflexivity|].
  destruct (Z.eqb_spec ck k) as [<-|_]; [|reflexivity]. now rewrite o_with_super_self.
Qed.

Lemma one_baby_spec o gen all sorted s count rs st rs' st' ck rest c :
  one_baby o gen all sorted s count rs st = Ok (rs', st') ->
  sp_orgs s = ck :: rest ->
  hget (r_heap rs) ck = Ok c ->
  exists b, baby_step s count ck c rs rs' b.
Proof.
  intros H Hs Hc. unfold one_baby in H. cbv zeta in H.
  mbind H as champ s0 Hch H. apply lift_ok in Hch. destruct Hch as [Hch ->].
  unfold first_org in Hch. rewrite Hs, Hc in Hch. injection Hch as <-.
  assert (Hck : o_key c = ck) by exact (hget_key _ _ _ Hc).
  destruct (Z.gtb (o_super c) 0) eqn:Esup.
  - (* super-champion branch *)
    mbind H as g0 s1 Hg0 H. apply lift_ok in Hg0. destruct Hg0 as [Hg0 ->].
    mbind H as gm s2 Hgm H. destruct gm as [g1 ms].
    apply ret_ok in H. destruct H as [<- _].
    match goal with |- exists b, baby_step _ _ _ _ _ {| r_heap := hset _ ?bb |} _ => exists bb end.
    constructor; cbn [r_heap r_key r_babies r_clone_done].
    + destruct (_ && _); reflexivity.
    + reflexivity.
    + destruct (_ && _); reflexivity.
    + intros k. rewrite !hget_hset. cbn [o_with_super o_key].
      replace (o_key (baby_flags _ ms false)) with (r_key rs) by (destruct (_ && _); reflexivity).
      rewrite Hck. unfold super_next. rewrite Esup. reflexivity.
    + destruct (_ && _); reflexivity.
    + intros E1. rewrite E1 in Hgm. cbn in Hgm. apply ret_ok in Hgm. destruct Hgm as [Hgm _].
      injection Hgm as <- <-. rewrite Hg0. f_equal. destruct (_ && _); reflexivity.
    + intros Hle. apply Z.gtb_lt in Esup. lia.
  - destruct (negb (r_clone_done rs) && Z.gtb (sp_exp s) 5) eqn:Ecl.
    + (* champion clone branch *)
      mbind H as g0 s1 Hg0 H. apply lift_ok in Hg0. destruct Hg0 as [Hg0 ->].
      apply ret_ok in H. destruct H as [<- _].
      exists (new_baby (r_key rs) g0 gen).
      constructor; cbn [r_heap r_key r_babies r_clone_done new_baby o_key o_super o_genome]; try reflexivity.
      * intros k. rewrite hget_hset. cbn [new_baby o_key].
        destruct (Z.eqb (r_key rs) k); [reflexivity|].
        unfold super_next. rewrite Esup.
        destruct (Z.eqb_spec ck k) as [<-|_]; [|reflexivity]. now rewrite o_with_super_self.
      * intros E1. rewrite E1 in Esup. discriminate.
      * intros _ _ _. exact Hg0.
    + (* mutation / mating branches *)
      assert (Hfin : finished rs (r_heap rs) rs').
      { revert H. generalize st rs' st'.
        match goal with |- forall s a s', ?m s = Ok (a, s') -> _ => change (post m (finished rs (r_heap rs))) end.
        repeat post_step;
          (apply post_ret; eexists; eexists; split; [|split; [|reflexivity]]; reflexivity). }
      destruct (finished_step ck c rs rs' Hc Hfin) as [b [Hk [Hs0 [Hn [Hb [Hh _]]]]]].
      exists b. constructor; try assumption.
      * intros k. rewrite Hh. unfold super_next. rewrite Esup. reflexivity.
      * intros E1. rewrite E1 in Esup. discriminate.
      * intros _ Hcd Hexp. rewrite Hcd in Ecl. cbn in Ecl.
        assert (Hgt : Z.gtb (sp_exp s) 5 = true) by (apply Z.gtb_lt; lia). rewrite Hgt in Ecl. discriminate.
Qed.

Lemma one_baby_champ o gen all sorted s count rs st rs' st' ck rest :
  one_baby o gen all sorted s count rs st = Ok (rs', st') ->
  sp_orgs s = ck :: rest -> exists c, hget (r_heap rs) ck = Ok c.
Proof.
  intros H Hs. unfold one_baby in H. cbv zeta in H.
  mbind H as champ s0 Hch H. apply lift_ok in Hch. destruct Hch as [Hch _].
  unfold first_org in Hch. rewrite Hs in Hch. now exists champ.
Qed.

(* ---------- the whole offspring loop: frame ---------- *)
Definition sn (z : Z) : Z := if Z.gtb z 0 then z - 1 else z.

Lemma iter_succ_r {A} (f : A -> A) n x : Nat.iter (S n) f x = Nat.iter n f (f x).
Proof.
  induction n as [|n IH]; [reflexivity|].
  change (f (Nat.iter (S n) f x) = f (Nat.iter n f (f x))). f_equal. exact IH.
Qed.

Lemma sn_iter_zero n z : 0 <= z <= Z.of_nat n -> Nat.iter n sn z = 0.
Proof.
  revert z. induction n as [|n IH]; intros z Hz.
  - cbn. lia.
  - rewrite iter_succ_r. apply IH. unfold sn. destruct (Z.gtb_spec z 0); lia.
Qed.

Lemma sn_iter_nonpos n z : z <= 0 -> Nat.iter n sn z = z.
Proof.
  intros Hz. induction n as [|n IH]; [reflexivity|].
  change (sn (Nat.iter n sn z) = z). rewrite IH. unfold sn.
  destruct (Z.gtb_spec z 0); lia.
Qed.

Record loop_frame (n : nat) (ck : Z) (rs rs' : rstate) : Prop := {
  lf_key : r_key rs' = r_key rs + Z.of_nat n;
  lf_babies : exists new, r_babies rs' = r_babies rs ++ new /\ forall k, In k new <-> r_key rs <= k < r_key rs';
  lf_old : forall k, k < r_key rs \/ r_key rs' <= k -> k <> ck -> hget (r_heap rs') k = hget (r_heap rs) k;
  lf_champ : forall c, hget (r_heap rs) ck = Ok c ->
                       hget (r_heap rs') ck = Ok (o_with_super c (Nat.iter n sn (o_super c)));
  lf_new : forall k, r_key rs <= k < r_key rs' -> exists b, hget (r_heap rs') k = Ok b /\ o_super b = 0
}.

Lemma reproduce_loop_frame o gen all sorted s ck rest :
  sp_orgs s = ck :: rest ->
  forall n count rs st rs' st',
    reproduce_loop n o gen all sorted s count rs st = Ok (rs', st') ->
    ck < r_key rs ->
    loop_frame n ck rs rs'.
Proof.
  intros Hs. induction n as [|n IH]; intros count rs st rs' st' H Hlt; cbn [reproduce_loop] in H.
  - apply ret_ok in H. destruct H as [<- _]. constructor.
    + cbn. lia.
    + exists []. split; [now rewrite app_nil_r|]. intros k. split; [intros []|lia].
    + reflexivity.
    + intros c Hc. cbn [Nat.iter]. now rewrite o_with_super_self.
    + intros k Hk. lia.
  - mbind H as rs1 s1 H1 H.
    destruct (one_baby_champ _ _ _ _ _ _ _ _ _ _ _ _ H1 Hs) as [c0 Hc0].
    destruct (one_baby_spec _ _ _ _ _ _ _ _ _ _ _ _ _ H1 Hs Hc0) as [b Hb].
    destruct Hb as [Bk Bn Bb Bh Bf _ _].
    assert (Hlt1 : ck < r_key rs1) by lia.
    destruct (IH _ _ _ _ _ H Hlt1) as [Lk [new [Lb Lnew]] Lo Lc Ln].
    constructor.
    + lia.
    + exists (r_key rs :: new). split.
      * rewrite Lb, Bb, <- app_assoc. reflexivity.
      * intros k. cbn [In]. rewrite Lnew. lia.
    + intros k Hk Hne. rewrite Lo by lia. rewrite Bh.
      destruct (Z.eqb_spec (r_key rs) k) as [E|_]; [lia|].
      destruct (Z.eqb_spec ck k) as [E|_]; [congruence|reflexivity].
    + intros c Hc. rewrite Hc in Hc0. injection Hc0 as <-.
      assert (Hc1 : hget (r_heap rs1) ck = Ok (o_with_super c (super_next c))).
      { rewrite Bh. destruct (Z.eqb_spec (r_key rs) ck) as [E|_]; [lia|]. now rewrite Z.eqb_refl. }
      rewrite (Lc _ Hc1). rewrite o_with_super_twice. cbn [o_with_super o_super].
      rewrite iter_succ_r. reflexivity.
    + intros k Hk. destruct (Z.eq_dec k (r_key rs)) as [->|Hne].
      * exists b. split; [|exact Bf]. rewrite Lo by lia. rewrite Bh. now rewrite Z.eqb_refl.
      * apply Ln. lia.
Qed.

(* ---------- the exact duplicate ---------- *)
Lemma reproduce_loop_champ o gen all sorted s ck rest :
  sp_orgs s = ck :: rest ->
  forall n count rs st rs' st' c,
    reproduce_loop n o gen all sorted s count rs st = Ok (rs', st') ->
    ck < r_key rs ->
    hget (r_heap rs) ck = Ok c ->
    refs_ok (o_genome c) ->
    (0 < o_super c <= Z.of_nat n \/ (o_super c <= 0 /\ r_clone_done rs = false /\ sp_exp s > 5 /\ (0 < n)%nat)) ->
    exists k b cnt, r_key rs <= k < r_key rs' /\ hget (r_heap rs') k = Ok b /\
                    o_genome b = with_id (o_genome c) cnt /\ count <= cnt < count + Z.of_nat n.
Proof.
  intros Hs. induction n as [|n IH]; intros count rs st rs' st' c H Hlt Hc Hrefs Hcase.
  - exfalso. destruct Hcase as [Hc1|[_ [_ [_ Hc2]]]]; lia.
  - cbn [reproduce_loop] in H. mbind H as rs1 s1 H1 H.
    destruct (one_baby_spec _ _ _ _ _ _ _ _ _ _ _ _ _ H1 Hs Hc) as [b Hb].
    destruct Hb as [Bk Bn Bb Bh Bf Bls Bcl].
    assert (Hlt1 : ck < r_key rs1) by lia.
    pose proof (reproduce_loop_frame _ _ _ _ _ _ _ Hs _ _ _ _ _ _ H Hlt1) as [Lk _ Lo _ _].
    assert (Hexact : duplicate (o_genome c) count = Ok (o_genome b) ->
                     exists k b cnt, r_key rs <= k < r_key rs' /\ hget (r_heap rs') k = Ok b /\
                                     o_genome b = with_id (o_genome c) cnt /\ count <= cnt < count + Z.of_nat (S n)).
    { intros Hd. rewrite (duplicate_refs _ _ Hrefs) in Hd. injection Hd as Hd.
      exists (r_key rs), b, count. split; [lia|]. split; [|split; [now symmetry|lia]].
      rewrite Lo by lia. rewrite Bh. now rewrite Z.eqb_refl. }
    destruct Hcase as [Hsup|[Hle [Hcd [Hexp _]]]].
    + destruct (Z.eq_dec (o_super c) 1) as [E1|Hne1]; [exact (Hexact (Bls E1))|].
      assert (Hc1 : hget (r_heap rs1) ck = Ok (o_with_super c (o_super c - 1))).
      { rewrite Bh. destruct (Z.eqb_spec (r_key rs) ck) as [E|_]; [lia|]. rewrite Z.eqb_refl.
        unfold super_next. destruct (Z.gtb_spec (o_super c) 0); [reflexivity|lia]. }
      destruct (IH _ _ _ _ _ _ H Hlt1 Hc1) as [k [b' [cnt [Hk [Hb' [Hg Hcnt]]]]]].
      * exact Hrefs.
      * left. cbn [o_with_super o_super]. lia.
      * exists k, b', cnt. split; [lia|]. split; [exact Hb'|]. split; [exact Hg|lia].
    + exact (Hexact (Bcl Hle Hcd Hexp)).
Qed.

(* ---------- Species.reproduce ---------- *)
Lemma reproduce_species_inv o gen all sorted s h key st h' key' babies st' :
  reproduce_species o gen all sorted s h key st = Ok ((h', key', babies), st') ->
  exists ck rest rs',
    sp_orgs s = ck :: rest /\
    reproduce_loop (Z.to_nat (sp_exp s)) o gen all sorted s 0
                   {| r_heap := h; r_key := key; r_babies := []; r_clone_done := false |} st = Ok (rs', st') /\
    h' = r_heap rs' /\ key' = r_key rs' /\ babies = r_babies rs'.
Proof.
  unfold reproduce_species. intros H.
  destruct (Z.gtb (sp_exp s) 0 && Nat.eqb (length (sp_orgs s)) 0); [discriminate|].
  destruct (sp_orgs s) as [|ck rest] eqn:Es; [discriminate|].
  mbind H as rs' s1 H1 H. apply ret_ok in H. destruct H as [H <-]. injection H as <- <- <-.
  exists ck, rest, rs'. repeat split. exact H1.
Qed.

(* frame of one species' reproduction: babies get the keys key .. key'-1, no other organism but
   the species' first one changes, and that one only in its super-champion counter *)
Record species_frame (s : species) (h : list organism) (key : Z) (h' : list organism) (key' : Z) (babies : list Z) : Prop := {
  sf_key : key' = key + Z.of_nat (Z.to_nat (sp_exp s));
  sf_babies : forall k, In k babies <-> key <= k < key';
  sf_old : forall k, k < key \/ key' <= k -> (forall rest, sp_orgs s <> k :: rest) -> hget h' k = hget h k;
  sf_champ : forall c, first_org h s = Ok c ->
                       first_org h' s = Ok (o_with_super c (Nat.iter (Z.to_nat (sp_exp s)) sn (o_super c)));
  sf_new : forall k, key <= k < key' -> exists b, hget h' k = Ok b /\ o_super b = 0
}.

Theorem reproduce_species_frame o gen all sorted s h key st h' key' babies st' :
  reproduce_species o gen all sorted s h key st = Ok ((h', key', babies), st') ->
  (forall k rest, sp_orgs s = k :: rest -> k < key) ->
  species_frame s h key h' key' babies.
Proof.
  intros H Hlt. apply reproduce_species_inv in H.
  destruct H as [ck [rest [rs' [Hs [H [-> [-> ->]]]]]]].
  specialize (Hlt ck rest Hs).
  destruct (reproduce_loop_frame _ _ _ _ _ _ _ Hs _ _ _ _ _ _ H Hlt) as [Lk [new [Lb Lnew]] Lo Lc Ln].
  cbn [r_key r_heap r_babies] in *. constructor.
  - exact Lk.
  - intros k. rewrite Lb. cbn [app]. apply Lnew.
  - intros k Hk Hne. apply Lo; [exact Hk|]. intros ->. now apply (Hne rest).
  - intros c. unfold first_org. rewrite Hs. apply Lc.
  - exact Ln.
Qed.

(* Theorem champ_clone: a species whose quota exceeds five leaves an exact duplicate of its first
   organism's genome among its babies, provided the champion's reserved super-champion offspring
   do not exceed the quota (established by prepare, see ChampQuota.v) *)
Theorem champ_clone o gen all sorted s h key st h' key' babies st' champ :
  reproduce_species o gen all sorted s h key st = Ok ((h', key', babies), st') ->
  sp_exp s > 5 ->
  first_org h s = Ok champ ->
  refs_ok (o_genome champ) ->
  o_super champ <= sp_exp s ->
  o_key champ < key ->
  exists k c b, In k babies /\ key <= k < key' /\ hget h' k = Ok b /\ o_genome b = with_id (o_genome champ) c.
Proof.
  intros H Hexp Hfirst Hrefs Hsup Hlt.
  pose proof H as Hinv. apply reproduce_species_inv in Hinv.
  destruct Hinv as [ck [rest [rs' [Hs [Hl [-> [-> ->]]]]]]].
  unfold first_org in Hfirst. rewrite Hs in Hfirst.
  rewrite (hget_key _ _ _ Hfirst) in Hlt.
  destruct (reproduce_loop_champ _ _ _ _ _ _ _ Hs _ _ _ _ _ _ champ Hl Hlt Hfirst Hrefs) as [k [b [cnt [Hk [Hb [Hg _]]]]]].
  - destruct (Z_lt_le_dec 0 (o_super champ)) as [Hpos|Hnp].
    + left. rewrite Z2Nat.id by lia. lia.
    + right. repeat split; try assumption; try reflexivity. lia.
  - exists k, cnt, b. cbn [r_key] in Hk. split; [|now split].
    destruct (reproduce_loop_frame _ _ _ _ _ _ _ Hs _ _ _ _ _ _ Hl Hlt) as [_ [new [Lb Lnew]] _ _ _].
    rewrite Lb. cbn [r_babies app]. apply Lnew. exact Hk.
Qed.
