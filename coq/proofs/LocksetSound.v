(* C16 -- soundness of the lockset discipline for the trace model of model/Lockset.v:
   a well-formed trace with the executor's fork/join shape in which every location obeys the
   discipline inside the parallel region has no data race. *)
From Coq Require Import List Arith Lia Bool.
From NeatModel Require Import Lockset.
Import ListNotations.

(* ---------- basics ---------- *)
Lemma at_pos_inj tr i e1 e2 : at_pos tr i e1 -> at_pos tr i e2 -> e1 = e2.
Proof. unfold at_pos. intros H1 H2. congruence. Qed.

Lemma op_eq_dec : forall a b : op, {a = b} + {a <> b}.
Proof. decide equality; apply Nat.eq_dec. Defined.

Lemma event_eq_dec : forall a b : event, {a = b} + {a <> b}.
Proof. decide equality; [apply op_eq_dec | apply Nat.eq_dec]. Defined.

Lemma at_pos_dec tr k e : {at_pos tr k e} + {~ at_pos tr k e}.
Proof.
  unfold at_pos. destruct (nth_error tr k) as [e'|].
  - destruct (event_eq_dec e' e) as [->|N]; [left; reflexivity | right; congruence].
  - right. discriminate.
Qed.

(* a decidable predicate either has a witness strictly between a and b or has none *)
Lemma bounded_search (P : nat -> Prop) (Pdec : forall k, {P k} + {~ P k}) a b :
  (exists k, a < k < b /\ P k) \/ (forall k, a < k < b -> ~ P k).
Proof.
  induction b as [|b IH].
  - right. intros k Hk. lia.
  - destruct IH as [[k [Hk HP]]|IH].
    + left. exists k. split; [lia | exact HP].
    + destruct (Nat.lt_ge_cases a b) as [Hab|Hab].
      * destruct (Pdec b) as [HP|HP].
        -- left. exists b. split; [lia | exact HP].
        -- right. intros k Hk. destruct (Nat.eq_dec k b) as [->|Hne]; [exact HP | apply IH; lia].
      * right. intros k Hk. lia.
Qed.

Lemma hb_lt tr i j : hb tr i j -> i < j.
Proof.
  induction 1 as [i j H|i j k _ IH1 _ IH2]; [|lia].
  destruct H; assumption.
Qed.

(* ---------- lock semantics ---------- *)

(* holding is monotone towards earlier positions after the acquire *)
Lemma holds_earlier tr a i j t m :
  a < i -> i <= j -> at_pos tr a (Ev t (Acq m)) ->
  (forall k, a < k < j -> ~ at_pos tr k (Ev t (Rel m))) -> holds tr i t m.
Proof.
  intros Hai Hij Ha Hno. exists a. split; [exact Hai|]. split; [exact Ha|].
  intros k Hk. apply Hno. lia.
Qed.

(* mutual exclusion: at most one goroutine holds a mutex *)
Lemma holds_unique tr i t u m : wf_locks tr -> holds tr i t m -> holds tr i u m -> t = u.
Proof.
  intros [Hacq _] [a [Hai [Ha Hna]]] [b [Hbi [Hb Hnb]]].
  destruct (Nat.eq_dec t u) as [E|N]; [exact E|exfalso].
  destruct (Nat.lt_trichotomy a b) as [L|[E|L]].
  - apply (Hacq b u m Hb t). apply (holds_earlier tr a b i t m); try assumption; lia.
  - subst b. pose proof (at_pos_inj _ _ _ _ Ha Hb) as E. injection E as E. contradiction.
  - apply (Hacq a t m Ha u). apply (holds_earlier tr b a i u m); try assumption; lia.
Qed.

(* whoever holds m at i has released it before anybody's later acquire of m *)
Lemma release_before_acquire tr i b t u m :
  wf_locks tr -> holds tr i t m -> i <= b -> at_pos tr b (Ev u (Acq m)) ->
  exists r, i <= r /\ r < b /\ at_pos tr r (Ev t (Rel m)).
Proof.
  intros [Hacq _] [a [Hai [Ha Hno]]] Hib Hb.
  destruct (bounded_search (fun k => at_pos tr k (Ev t (Rel m)))
                           (fun k => at_pos_dec tr k (Ev t (Rel m))) a b) as [[k [Hk HP]]|Hnone].
  - exists k. destruct (Nat.lt_ge_cases k i) as [Hki|Hki].
    + exfalso. apply (Hno k); [lia | exact HP].
    + repeat split; [exact Hki | lia | exact HP].
  - exfalso. apply (Hacq b u m Hb t). exists a. split; [lia|]. split; [exact Ha | exact Hnone].
Qed.

(* two accesses by different goroutines under one mutex are ordered by happens-before *)
Lemma mutex_orders tr i j e1 e2 m :
  wf_locks tr -> i < j -> at_pos tr i e1 -> at_pos tr j e2 -> thr e1 <> thr e2 ->
  holds tr i (thr e1) m -> holds tr j (thr e2) m -> hb tr i j.
Proof.
  intros Hwf Hij H1 H2 Hne Hh1 Hh2.
  destruct Hh2 as [b [Hbj [Hb Hnb]]].
  destruct (Nat.lt_trichotomy b i) as [L|[E|L]].
  - (* the second goroutine would hold m at i as well *)
    exfalso. apply Hne. apply (holds_unique tr i (thr e1) (thr e2) m Hwf Hh1).
    apply (holds_earlier tr b i j (thr e2) m); try assumption; lia.
  - subst b. pose proof (at_pos_inj _ _ _ _ H1 Hb) as E. subst e1. simpl in Hne. contradiction.
  - destruct (release_before_acquire tr i b (thr e1) (thr e2) m Hwf Hh1 (Nat.lt_le_incl _ _ L) Hb)
      as [r [Hir [Hrb Hr]]].
    assert (Hbj' : hb tr b j).
    { apply hb_step. apply (hb_po tr b j (Ev (thr e2) (Acq m)) e2); try assumption. reflexivity. }
    assert (Hrb' : hb tr r b).
    { apply hb_step. apply (hb_rel_acq tr r b (thr e1) (thr e2) m); assumption. }
    destruct (Nat.eq_dec i r) as [->|Hne'].
    + apply (hb_trans tr r b j); assumption.
    + apply (hb_trans tr i r j).
      * apply hb_step. apply (hb_po tr i r e1 (Ev (thr e1) (Rel m))); try assumption; try lia; try reflexivity.
      * apply (hb_trans tr r b j); assumption.
Qed.

(* ---------- the discipline orders every conflicting pair inside the region ---------- *)
Lemma disciplined_orders tr (P : nat -> Prop) x i j e1 e2 :
  wf_locks tr -> disciplined tr P x -> P i -> P j -> i < j ->
  at_pos tr i e1 -> at_pos tr j e2 -> thr e1 <> thr e2 ->
  accesses_loc (act e1) x -> accesses_loc (act e2) x ->
  (writes_loc (act e1) x \/ writes_loc (act e2) x) ->
  ~ (atomic_op (act e1) /\ atomic_op (act e2)) ->
  hb tr i j.
Proof.
  intros Hwf D Pi Pj Hij H1 H2 Hne A1 A2 Hw Hna.
  destruct D as [Da|[Db|[[m Dc]|[t Dd]]]].
  - exfalso. apply Hna. split; [apply (Da i e1) | apply (Da j e2)]; assumption.
  - exfalso. destruct Hw as [Hw|Hw]; [apply (Db i e1 Pi H1 A1 Hw) | apply (Db j e2 Pj H2 A2 Hw)].
  - apply (mutex_orders tr i j e1 e2 m); try assumption; [apply (Dc i e1) | apply (Dc j e2)]; assumption.
  - exfalso. apply Hne. rewrite (Dd i e1 Pi H1 A1), (Dd j e2 Pj H2 A2). reflexivity.
Qed.

(* core statement, for an arbitrary set of positions: no race between two positions of the set *)
Theorem lockset_sound_on : forall tr (P : nat -> Prop),
    wf_locks tr -> (forall x, disciplined tr P x) ->
    forall i j, P i -> P j -> ~ race tr i j.
Proof.
  intros tr P Hwf D i j Pi Pj [e1 [e2 [x [Hij [H1 [H2 [Hne [A1 [A2 [Hw [Hna [Hn1 Hn2]]]]]]]]]]]].
  destruct (Nat.lt_trichotomy i j) as [L|[E|L]]; [|contradiction|].
  - apply Hn1. apply (disciplined_orders tr P x i j e1 e2); auto.
  - apply Hn2. apply (disciplined_orders tr P x j i e2 e1); auto.
    + destruct Hw; [right|left]; assumption.
    + intros [Ha Hb]. apply Hna. split; assumption.
Qed.

(* ---------- fork/join: everything outside the region is ordered with the other goroutines ---------- *)
Lemma fork_join_orders tr main lo hi x i j e1 e2 :
  wf_locks tr -> fork_join tr main lo hi -> disciplined tr (region lo hi) x -> i < j ->
  at_pos tr i e1 -> at_pos tr j e2 -> thr e1 <> thr e2 ->
  accesses_loc (act e1) x -> accesses_loc (act e2) x ->
  (writes_loc (act e1) x \/ writes_loc (act e2) x) ->
  ~ (atomic_op (act e1) /\ atomic_op (act e2)) ->
  hb tr i j.
Proof.
  intros Hwf FJ D Hij H1 H2 Hne A1 A2 Hw Hna.
  destruct (Nat.lt_ge_cases i lo) as [Hlo|Hlo].
  - (* i lies before the region: it belongs to main, and j to a goroutine forked later *)
    destruct (Nat.eq_dec (thr e1) main) as [E1|N1].
    + assert (N2 : thr e2 <> main) by congruence.
      destruct (FJ j e2 H2 N2) as [[f [Hf1 [Hf2 Hf]]] _].
      apply (hb_trans tr i f j).
      * apply hb_step. apply (hb_po tr i f e1 (Ev main (Fork (thr e2)))); try assumption; try lia.
      * apply hb_step. apply (hb_fork tr f j main e2); assumption.
    + destruct (FJ i e1 H1 N1) as [[f [Hf1 [Hf2 _]]] _]. lia.
  - destruct (Nat.lt_ge_cases hi j) as [Hhi|Hhi].
    + (* j lies after the region: it belongs to main, and i to a goroutine joined earlier *)
      destruct (Nat.eq_dec (thr e2) main) as [E2|N2].
      * assert (N1 : thr e1 <> main) by congruence.
        destruct (FJ i e1 H1 N1) as [_ [jn [Hj1 [Hj2 Hj]]]].
        apply (hb_trans tr i jn j).
        -- apply hb_step. apply (hb_join tr i jn main e1); assumption.
        -- apply hb_step. apply (hb_po tr jn j (Ev main (Join (thr e1))) e2); try assumption; try lia; try (simpl; congruence).
      * destruct (FJ j e2 H2 N2) as [_ [jn [Hj1 [Hj2 _]]]]. lia.
    + apply (disciplined_orders tr (region lo hi) x i j e1 e2); try assumption; unfold region; lia.
Qed.

(* THE THEOREM.  A trace with well-formed locks and the executor's fork/join shape, in which every
   location obeys the lockset discipline inside the parallel region lo..hi, has no data race at all
   (inside, outside or across the region). *)
Theorem lockset_sound : forall tr main lo hi,
    wf_locks tr -> fork_join tr main lo hi ->
    (forall x, disciplined tr (region lo hi) x) ->
    race_free tr.
Proof.
  intros tr main lo hi Hwf FJ D i j [e1 [e2 [x [Hij [H1 [H2 [Hne [A1 [A2 [Hw [Hna [Hn1 Hn2]]]]]]]]]]]].
  destruct (Nat.lt_trichotomy i j) as [L|[E|L]]; [|contradiction|].
  - apply Hn1. apply (fork_join_orders tr main lo hi x i j e1 e2); auto.
  - apply Hn2. apply (fork_join_orders tr main lo hi x j i e2 e1); auto.
    + destruct Hw; [right|left]; assumption.
    + intros [Ha Hb]. apply Hna. split; assumption.
Qed.

(* the discipline is not only sufficient but needed in the obvious sense: an unprotected write next
   to an unordered read is a race (used as a sanity check of the definitions, see LocksetExample.v) *)
