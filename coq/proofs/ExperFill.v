(* C19, Generation.FillPopulationStatistics: what is recorded for a population is, per species,
   its age and the fitness / complexity of one of its best organisms, and (for a generation not
   yet solved) the champion is a best organism over all species -- for every valid outcome of
   the sort. *)
From Coq Require Import List ZArith Bool Reals Lra Lia.
From NeatModel Require Import Res Stats Exper StatsSpec ExperSpec ExperBest.
Import ListNotations.
Open Scope R_scope.

Notation xspecies := (@species xr).

Definition real_species (s : xspecies) : Prop := Forall real_org (s_orgs s).

(* b is a best organism of the species: a member that no member exceeds in fitness *)
Definition is_species_best (s : xspecies) (b : xorganism) : Prop :=
  In b (s_orgs s) /\ forall o', In o' (s_orgs s) -> fitR o' <= fitR b.

Lemma species_best_spec (s : xspecies) k b :
  real_species s -> species_best xnum s k = Ok b -> is_species_best s b.
Proof.
  unfold real_species, species_best, is_species_best. intros Hr H.
  destruct (s_orgs s) as [|a [|a2 rest]] eqn:E; [discriminate| |].
  - injection H as <-. split; [now left|]. intros o' [<- | []]. lra.
  - destruct (nth_error (a :: a2 :: rest) (Z.to_nat k)) as [o|] eqn:En; [|discriminate].
    destruct ((0 <=? k)%Z && forallb (fun o' => negb (org_less xnum o o')) (a :: a2 :: rest)) eqn:Ec; [|discriminate].
    injection H as <-. apply andb_true_iff in Ec. destruct Ec as [_ Ec]. rewrite forallb_forall in Ec.
    assert (Hin : In o (a :: a2 :: rest)) by (eapply nth_error_In; eauto).
    split; [exact Hin|]. intros o' Ho'. rewrite Forall_forall in Hr.
    apply org_not_less_fit; auto. specialize (Ec o' Ho'). now apply negb_true_iff in Ec.
Qed.

Lemma real_best_fitness (s : xspecies) b : real_species s -> is_species_best s b -> o_fitness b = Some (fitR b).
Proof.
  intros Hr [Hin _]. unfold real_species in Hr. rewrite Forall_forall in Hr.
  destruct (Hr b Hin) as (f & h & E & _). unfold fitR. now rewrite E.
Qed.

Lemma fill_loop_spec solved : forall (ss : list xspecies) ks maxf champ ages cplx fits c,
  Forall real_species ss ->
  fill_loop xnum solved ss ks (Some maxf) champ = Ok (ages, cplx, fits, c) ->
  exists bs, Forall2 is_species_best ss bs /\
    ages = map (fun s => Some (IZR (s_age s))) ss /\
    cplx = map (fun b => Some (IZR (o_cplx b))) bs /\
    fits = map (fun b => o_fitness b) bs /\
    (solved = true -> c = champ) /\
    (solved = false ->
       (c = champ /\ forall b, In b bs -> fitR b <= maxf) \/
       (exists b, c = Some b /\ In b bs /\ maxf < fitR b /\ forall b', In b' bs -> fitR b' <= fitR b)).
Proof.
  induction ss as [|s ss IH]; intros ks maxf champ ages cplx fits c Hr H; simpl in H.
  - injection H as <- <- <- <-. exists []. repeat split; auto. intros _. left. split; [reflexivity | intros b []].
  - inversion Hr as [|? ? Hs Hss]; subst.
    apply bind_ok in H. destruct H as (b & Hb & H).
    pose proof (species_best_spec s _ b Hs Hb) as Hbest.
    pose proof (real_best_fitness s b Hs Hbest) as Hf.
    destruct solved.
    + apply bind_ok in H. destruct H as ([[[ages' cplx'] fits'] c'] & Hrec & H). injection H as <- <- <- <-.
      destruct (IH _ _ _ _ _ _ _ Hss Hrec) as (bs & F2 & -> & -> & -> & Hc & _).
      exists (b :: bs). repeat split; auto. intros; discriminate.
    + rewrite Hf in H. change (n_ltb xnum (Some maxf) (Some (fitR b))) with (Rltb maxf (fitR b)) in H.
      destruct (Rltb maxf (fitR b)) eqn:El.
      * apply Rltb_true in El.
        apply bind_ok in H. destruct H as ([[[ages' cplx'] fits'] c'] & Hrec & H). injection H as <- <- <- <-.
        destruct (IH _ _ _ _ _ _ _ Hss Hrec) as (bs & F2 & -> & -> & -> & _ & Hc).
        exists (b :: bs). simpl map. rewrite Hf. repeat split; auto; [intros; discriminate|].
        intros _. right. destruct (Hc eq_refl) as [[-> Hall] | (b2 & -> & Hin & Hlt & Hall)].
        -- exists b. repeat split; auto; [now left|]. intros b' [<- | Hb']; [lra | now apply Hall].
        -- exists b2. repeat split; auto; [now right | lra|]. intros b' [<- | Hb']; [lra | now apply Hall].
      * apply Rltb_false in El.
        apply bind_ok in H. destruct H as ([[[ages' cplx'] fits'] c'] & Hrec & H). injection H as <- <- <- <-.
        destruct (IH _ _ _ _ _ _ _ Hss Hrec) as (bs & F2 & -> & -> & -> & _ & Hc).
        exists (b :: bs). simpl map. rewrite Hf. repeat split; auto; [intros; discriminate|].
        intros _. destruct (Hc eq_refl) as [[-> Hall] | (b2 & -> & Hin & Hlt & Hall)].
        -- left. split; [reflexivity|]. intros b' [<- | Hb']; [lra | now apply Hall].
        -- right. exists b2. repeat split; auto; [now right|]. intros b' [<- | Hb']; [lra | now apply Hall].
Qed.

Theorem g_fill_spec solved champ0 (ss : list xspecies) ks d ages cplx fits c :
  Forall real_species ss ->
  g_fill xnum solved champ0 ss ks = Ok (d, (ages, cplx, fits, c)) ->
  d = Z.of_nat (length ss) /\
  exists bs, Forall2 is_species_best ss bs /\
    ages = map (fun s => Some (IZR (s_age s))) ss /\
    cplx = map (fun b => Some (IZR (o_cplx b))) bs /\
    fits = map (fun b => o_fitness b) bs /\
    (solved = true -> c = champ0) /\
    (solved = false ->
       (c = champ0 /\ forall b, In b bs -> fitR b <= IZR min_int64) \/
       (exists b, c = Some b /\ In b bs /\ IZR min_int64 < fitR b /\ forall b', In b' bs -> fitR b' <= fitR b)).
Proof.
  intros Hr H. unfold g_fill in H. apply bind_ok in H. destruct H as ([[[ages' cplx'] fits'] c'] & Hrec & H).
  injection H as <- <- <- <- <-. split; [reflexivity|].
  change (n_ofZ xnum min_int64) with (Some (IZR min_int64)) in Hrec.
  exact (fill_loop_spec solved ss ks _ champ0 _ _ _ _ Hr Hrec).
Qed.
