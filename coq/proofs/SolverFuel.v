(* the fuel parameters of the solver models never run out (any number structure, any activation table):
   - the ActivateSteps loop: max(maxSteps,0)+1 iterations suffice, for every network and state;
   - NNode.Depth / MaxActivationDepthWithCap(0): nodes+1 levels of recursion suffice, for every network
     whose positions are in range (cyclic or not). *)
From NeatModel Require Import Res Net SolverUtil FastAdj.
From Coq Require Import Arith Lia.
Open Scope Z_scope.

Section Fuel.
Variable F : Type.
Variable NF : num F.
Variable act : Z -> F -> res F.
Hypothesis act_no_fuel : forall c x, act c x <> OutOfFuel.

Lemma activate_loop_fuel n fuel : forall ms a ot (s : sstate F),
  (Z.to_nat (ms - a) < fuel)%nat ->
  snd (activate_loop NF act n fuel ms a ot s) <> OutOfFuel.
Proof.
  induction fuel as [|fuel IH]; intros ms a ot s Hf; [lia|]. simpl.
  destruct (output_is_off n s || negb ot); [|simpl; discriminate].
  destruct (a >=? ms) eqn:E; [simpl; discriminate|].
  assert (Hlt : a < ms) by (destruct (Z.geb_spec a ms); [discriminate|lia]).
  destruct (sweep NF act n s) as [s' r] eqn:Es.
  destruct r as [b| | | | |]; simpl; try discriminate.
  - apply IH. lia.
  - (* the sweep itself has no fuel: phase2 only relays what act returns *)
    intros _.
    assert (G : forall is s0, snd (phase2 NF act n is s0) <> OutOfFuel).
    { induction is as [|i rest IHr]; intros s0; simpl; [discriminate|].
      destruct (is_neuron (role_at n i) && getB (s_on s0) i); [|apply IHr].
      unfold activate_node. destruct (act (nd_act (node_at n i)) (getF NF (s_sum s0) i)) eqn:Ea; simpl;
        try discriminate; try apply IHr. exfalso. exact (act_no_fuel _ _ Ea). }
    unfold sweep in Es. apply (G (seq 0 (nnodes n)) (phase1 NF n s)). rewrite Es. reflexivity.
Qed.

Lemma activate_steps_fuel n ms (s : sstate F) : snd (activate_steps NF act n ms s) <> OutOfFuel.
Proof.
  unfold activate_steps. destruct (ms =? 0); [simpl; discriminate|]. apply activate_loop_fuel. lia.
Qed.

(* ----- Depth ----- *)
Lemma depth_f_fuel (n : net F) : net_ok n = true -> forall fuel visited i d,
  NoDup visited -> (forall x, In x visited -> (x < nnodes n)%nat) -> ~ In i visited -> (i < nnodes n)%nat ->
  (nnodes n + 1 <= fuel + length visited)%nat ->
  depth_f n fuel visited i d <> OutOfFuel.
Proof.
  intros OK. induction fuel as [|fuel IH]; intros visited i d ND Hv Hi Hlt Hf.
  - exfalso. assert (H : (length (i :: visited) <= length (seq 0 (nnodes n)))%nat).
    { apply NoDup_incl_length; [constructor; assumption|]. intros x [<-|Hx]; apply in_seq; [lia|specialize (Hv x Hx); lia]. }
    rewrite seq_length in H. simpl in *. lia.
  - simpl. destruct (is_sensor (role_at n i)); [discriminate|].
    assert (Hsrc : forall l, In l (nd_in (node_at n i)) -> (l_src l < nnodes n)%nat).
    { intros l Hl. unfold net_ok in OK. apply andb_true_iff in OK. destruct OK as [OK' _].
      apply andb_true_iff in OK'. destruct OK' as [OK' _]. rewrite forallb_forall in OK'.
      assert (Hin : In (node_at n i) (nodes n)) by (apply nth_In; exact Hlt).
      specialize (OK' _ Hin). rewrite forallb_forall in OK'. specialize (OK' l Hl). apply Nat.ltb_lt in OK'. exact OK'. }
    set (d1 := d + 1). clearbody d1.
    revert Hsrc. generalize (nd_in (node_at n i)) as ls. generalize d as mx.
    intros mx ls. revert mx.
    induction ls as [|l rest IHl]; intros mx Hsrc; [discriminate|].
    cbn [existsb].
    destruct ((l_src l =? i)%nat || existsb (Nat.eqb (l_src l)) visited) eqn:Ex.
    + apply IHl. intros l' Hl'. apply Hsrc. simpl. auto.
    + assert (Hni : ~ In (l_src l) (i :: visited)).
      { intros Hin. assert (existsb (Nat.eqb (l_src l)) (i :: visited) = true).
        { apply existsb_exists. exists (l_src l). split; [exact Hin|apply Nat.eqb_refl]. }
        simpl in H. congruence. }
      destruct (depth_f n fuel (i :: visited) (l_src l) d1) eqn:Ed; try discriminate.
      * apply IHl. intros l' Hl'. apply Hsrc. simpl. auto.
      * exfalso. revert Ed. apply IH.
        -- constructor; assumption.
        -- intros x [<-|Hx]; [exact Hlt|apply Hv; exact Hx].
        -- exact Hni.
        -- apply Hsrc. simpl. auto.
        -- simpl. lia.
Qed.

Lemma max_depth_fuel (n : net F) : net_ok n = true -> max_depth n <> OutOfFuel.
Proof.
  intros OK. unfold max_depth. destruct (_ =? _)%nat; [discriminate|].
  assert (Hout : forall o, In o (outputs n) -> (o < nnodes n)%nat).
  { intros o Ho. unfold net_ok in OK. apply andb_true_iff in OK. destruct OK as [_ OK'].
    rewrite forallb_forall in OK'. specialize (OK' o Ho). apply Nat.ltb_lt in OK'. exact OK'. }
  revert Hout. generalize (outputs n) as os. generalize 0 at 2 as mx.
  intros mx os. revert mx. induction os as [|o rest IHo]; intros mx Hout; [discriminate|].
  destruct (depth_f n (S (nnodes n)) [] o 0) eqn:Ed; try discriminate.
  - apply IHo. intros o' Ho'. apply Hout. simpl. auto.
  - exfalso. revert Ed. apply depth_f_fuel; try assumption.
    + constructor.
    + intros x [].
    + intros [].
    + apply Hout. simpl. auto.
    + simpl. lia.
Qed.

End Fuel.

(* ----- the fast solver's recursive activation: totalNeuronCount+1 levels suffice, cycles included ----- *)
From NeatModel Require Import Fast.
Open Scope nat_scope.

Lemma filter_length_le {A} (p q : A -> bool) (l : list A) :
  (forall x, In x l -> p x = true -> q x = true) -> length (filter p l) <= length (filter q l).
Proof.
  induction l as [|x rest IH]; intros H; simpl; [lia|].
  assert (IH' : length (filter p rest) <= length (filter q rest)) by (apply IH; intros y Hy; apply H; simpl; auto).
  destruct (p x) eqn:Ep.
  - rewrite (H x (or_introl eq_refl) Ep). simpl. lia.
  - destruct (q x); simpl; lia.
Qed.

Lemma filter_length_lt {A} (p q : A -> bool) (l : list A) (x0 : A) :
  (forall x, In x l -> p x = true -> q x = true) -> In x0 l -> p x0 = false -> q x0 = true ->
  length (filter p l) < length (filter q l).
Proof.
  induction l as [|x rest IH]; intros H Hin Hp Hq; [destruct Hin|]. simpl.
  assert (Hrest : forall y, In y rest -> p y = true -> q y = true) by (intros y Hy; apply H; simpl; auto).
  destruct Hin as [->|Hin].
  - rewrite Hp, Hq. simpl. pose proof (filter_length_le p q rest Hrest). lia.
  - specialize (IH Hrest Hin Hp Hq). destruct (p x) eqn:Ep.
    + rewrite (H x (or_introl eq_refl) Ep). simpl. lia.
    + destruct (q x); simpl; lia.
Qed.

Section FastFuel.
Variable F : Type.
Variable NF : num F.
Variable act : Z -> F -> res F.
Hypothesis act_no_fuel : forall c x, act c x <> OutOfFuel.
Variable fn : fnet F.
Hypothesis conns_ok : forall c, In c (f_conns fn) -> fl_src c < f_total fn /\ fl_tgt c < f_total fn.

Notation T := (f_total fn).
Notation fstate := (fstate F).

Definition freshb (s : fstate) (i : nat) : bool := negb (getB (fs_done s) i) && negb (getB (fs_inact s) i).
Definition nfresh (s : fstate) : nat := length (filter (freshb s) (seq 0 T)).

Definition lensT (s : fstate) : Prop := length (fs_done s) = T /\ length (fs_inact s) = T.

(* what a successful call leaves behind *)
Definition keeps (s s' : fstate) : Prop :=
  lensT s' /\ (forall i, getB (fs_inact s') i = getB (fs_inact s) i) /\
  (forall i, getB (fs_done s) i = true -> getB (fs_done s') i = true).

Lemma keeps_nfresh s s' : keeps s s' -> nfresh s' <= nfresh s.
Proof.
  intros (_ & I & D). unfold nfresh. apply filter_length_le. intros i _ Hf. unfold freshb in *.
  apply andb_true_iff in Hf. destruct Hf as [H1 H2]. rewrite I in H2. rewrite H2, andb_true_r.
  destruct (getB (fs_done s) i) eqn:E; [|reflexivity]. rewrite (D i E) in H1. discriminate.
Qed.

Lemma keeps_refl s : lensT s -> keeps s s.
Proof. intros H. split; [exact H|]. split; auto. Qed.

Lemma keeps_trans s1 s2 s3 : keeps s1 s2 -> keeps s2 s3 -> keeps s1 s3.
Proof.
  intros (_ & I1 & D1) (L & I2 & D2). split; [exact L|]. split.
  - intros i. now rewrite I2, I1.
  - intros i H. apply D2, D1, H.
Qed.

Lemma keeps_set_bp s s' i x : keeps s s' -> keeps s (set_bp s' i x).
Proof. intros H. exact H. Qed.

Definition call_fuel (call : fstate -> nat -> fstate * res bool) (bound : nat) : Prop :=
  forall s a, lensT s -> a < T -> getB (fs_inact s) a = false -> nfresh s < bound ->
    snd (call s a) <> OutOfFuel /\ (forall b, snd (call s a) = Ok b -> keeps s (fst (call s a))).

Lemma radj_range cur a : In a (radj fn cur) -> a < T.
Proof.
  intros H. apply radj_In in H. destruct H as (c & Hc & _ & <-). apply (conns_ok c Hc).
Qed.

Lemma rec_loop_fuel call b cur (Hcall : call_fuel call b) adjs : forall s0 s,
  (forall a, In a adjs -> a < T) -> keeps s0 s -> nfresh s0 < b ->
  snd (rec_loop NF fn call cur adjs s) <> OutOfFuel /\
  (forall r, snd (rec_loop NF fn call cur adjs s) = Ok r -> keeps s0 (fst (rec_loop NF fn call cur adjs s))).
Proof.
  induction adjs as [|a rest IH]; intros s0 s Ha K Hb; simpl.
  - split; [discriminate|]. intros _ _. exact K.
  - assert (Hrest : forall a', In a' rest -> a' < T) by (intros a' H; apply Ha; simpl; auto).
    destruct (getB (fs_inact s) a) eqn:Ei.
    + apply IH; [exact Hrest|apply keeps_set_bp; exact K|exact Hb].
    + destruct (negb (getB (fs_done s) a)) eqn:Ed.
      * destruct (Hcall s a) as [NF1 K1]; [apply K|apply Ha; simpl; auto|exact Ei|pose proof (keeps_nfresh _ _ K); lia|].
        destruct (call s a) as [s1 r1]. simpl in NF1, K1.
        destruct r1 as [[|]| | | | |]; simpl; try (split; [discriminate|intros r Hr; discriminate]).
        -- apply IH; [exact Hrest| |exact Hb]. apply keeps_set_bp. apply (keeps_trans _ _ _ K). apply (K1 true eq_refl).
        -- exfalso. apply NF1. reflexivity.
      * apply IH; [exact Hrest|apply keeps_set_bp; exact K|exact Hb].
Qed.

Lemma nth_upd_getB l i j v : getB (upd i v l) j = if (i =? j) && (i <? length l) then v else getB l j.
Proof. unfold getB. apply nth_upd. Qed.

Lemma rec_node_fuel fuel : call_fuel (rec_node NF act fn fuel) fuel.
Proof.
  induction fuel as [|fuel IH]; intros s cur L Hc Hi Hb; [lia|]. simpl.
  destruct (getB (fs_done s) cur) eqn:Ed.
  - simpl. split; [discriminate|]. intros _ _. destruct L as [L1 L2]. split; [|split].
    + unfold lensT, set_inact. simpl. rewrite upd_length. auto.
    + intros i. unfold set_inact. simpl. rewrite nth_upd_getB.
      destruct ((cur =? i) && (cur <? length (fs_inact s))) eqn:E; [|reflexivity].
      apply andb_true_iff in E. destruct E as [E _]. apply Nat.eqb_eq in E. subst i. symmetry. exact Hi.
    + auto.
  - set (s1 := set_bp (set_inact s cur true) cur (fzero NF)).
    destruct L as [L1 L2].
    assert (L1' : lensT s1) by (unfold lensT, s1, set_bp, set_inact; simpl; rewrite upd_length; auto).
    assert (Hlt : nfresh s1 < nfresh s).
    { unfold nfresh. apply filter_length_lt with (x0 := cur).
      - intros i _ Hf. unfold freshb, s1, set_bp, set_inact in *. simpl in *. rewrite nth_upd_getB in Hf.
        destruct ((cur =? i) && (cur <? length (fs_inact s))); [rewrite andb_false_r in Hf; discriminate|exact Hf].
      - apply in_seq. lia.
      - unfold freshb, s1, set_bp, set_inact. simpl. rewrite nth_upd_getB, Nat.eqb_refl, L2.
        destruct (cur <? T) eqn:E; [simpl; apply andb_false_r|apply Nat.ltb_ge in E; lia].
      - unfold freshb. now rewrite Ed, Hi. }
    destruct (rec_loop_fuel (rec_node NF act fn fuel) fuel cur IH (radj fn cur) s1 s1) as [NF2 K2].
    + intros a Ha. exact (radj_range cur a Ha).
    + apply keeps_refl. exact L1'.
    + lia.
    + destruct (rec_loop NF fn (rec_node NF act fn fuel) cur (radj fn cur) s1) as [s2 r2]. simpl in NF2, K2.
      destruct r2 as [b2| | | | |]; simpl; try (split; [discriminate|intros r Hr; discriminate]).
      2:{ exfalso. apply NF2. reflexivity. }
      specialize (K2 b2 eq_refl). destruct K2 as ((M1 & M2) & I2 & D2).
      set (s3 := if 0 <? f_bias fn then set_bp s2 cur (fadd NF (bpF NF s2 cur) (getF NF (f_biases fn) cur)) else s2).
      assert (Hs3 : fs_done s3 = fs_done s2 /\ fs_inact s3 = fs_inact s2) by (unfold s3; destruct (0 <? f_bias fn); auto).
      destruct Hs3 as [Hd3 Hi3].
      assert (Kfin : forall v, keeps s (set_sig (set_inact (set_done s3 cur true) cur false) cur v)).
      { intros v. split; [|split].
        - unfold lensT, set_sig, set_inact, set_done. simpl. rewrite !upd_length, Hd3, Hi3. auto.
        - intros i. unfold set_sig, set_inact, set_done. simpl. rewrite nth_upd_getB, Hi3.
          destruct ((cur =? i) && (cur <? length (fs_inact s2))) eqn:E.
          + apply andb_true_iff in E. destruct E as [E _]. apply Nat.eqb_eq in E. subst i. symmetry. exact Hi.
          + rewrite I2. unfold s1, set_bp, set_inact. simpl. rewrite nth_upd_getB.
            destruct (cur =? i) eqn:E'; [|reflexivity]. simpl in *.
            rewrite M2 in E. rewrite L2. destruct (cur <? T); [discriminate|reflexivity].
        - intros i Hdi. unfold set_sig, set_inact, set_done. simpl. rewrite nth_upd_getB, Hd3.
          destruct ((cur =? i) && (cur <? length (fs_done s2))); [reflexivity|]. apply D2. exact Hdi. }
      destruct (act (nth cur (f_acts fn) 0%Z) _) eqn:Ea; simpl;
        try (split; [discriminate|intros r Hr; try discriminate; apply Kfin]).
      exfalso. exact (act_no_fuel _ _ Ea).
Qed.


Lemma nfresh_le s : nfresh s <= T.
Proof.
  unfold nfresh. rewrite <- (seq_length T 0) at 2.
  assert (G : forall {A} (p : A -> bool) (l : list A), length (filter p l) <= length l).
  { intros A p l. induction l as [|x rest IHl]; simpl; [lia|]. destruct (p x); simpl; lia. }
  apply G.
Qed.

Opaque rec_node.
Lemma rec_outputs_fuel is : forall last s,
  lensT s -> (forall i, getB (fs_inact s) i = false) -> (forall i, In i is -> f_sensor fn + i < T) ->
  snd (rec_outputs NF act fn is last s) <> OutOfFuel.
Proof.
  induction is as [|i rest IH]; intros last s L Hi His; simpl; [discriminate|].
  destruct (rec_node_fuel (S T) s (f_sensor fn + i) L) as [NF1 K1].
  - apply His. simpl. auto.
  - apply Hi.
  - pose proof (nfresh_le s). lia.
  - destruct (rec_node NF act fn (S T) s (f_sensor fn + i)) as [s1 r1]. simpl in NF1, K1.
    destruct r1 as [[|]| | | | |]; simpl; try discriminate.
    + specialize (K1 true eq_refl). destruct K1 as (L1 & I1 & _).
      apply IH; [exact L1| |intros j Hj; apply His; simpl; auto]. intros j. rewrite I1. apply Hi.
    + exact NF1.
Qed.
Transparent rec_node.

Lemma rec_init_inact is : forall s : fstate,
  fs_inact (fold_left (rec_init_one NF fn) is s) = fold_left (fun l i => upd i false l) is (fs_inact s) /\
  length (fs_done (fold_left (rec_init_one NF fn) is s)) = length (fs_done s).
Proof.
  induction is as [|i rest IH]; intros s; simpl; [auto|].
  destruct (IH (rec_init_one NF fn s i)) as [E1 E2]. rewrite E1, E2.
  unfold rec_init_one. destruct (f_sensor fn <=? i); simpl; rewrite upd_length; auto.
Qed.

Theorem fast_recursive_fuel s :
  lensT s -> f_sensor fn + f_out fn <= T -> snd (fast_recursive NF act fn s) <> OutOfFuel.
Proof.
  intros [L1 L2] Hso. unfold fast_recursive, rec_init.
  destruct (rec_init_inact (seq 0 T) s) as [E1 E2].
  apply rec_outputs_fuel.
  - split; [congruence|]. rewrite E1, fold_upd_length. exact L2.
  - intros i. rewrite E1. unfold getB. destruct (Nat.lt_ge_cases i T) as [Hlt|Hge].
    + apply (fold_upd_at (fun _ => false) false i); [apply seq_NoDup|apply in_seq; lia|lia].
    + apply nth_overflow. rewrite fold_upd_length. lia.
  - intros i Hi. apply in_seq in Hi. lia.
Qed.

End FastFuel.

(* ----- no operation of either solver ever reports OutOfFuel ----- *)
From NeatModel Require Import FlushFast.

Section NoFuel.
Variable F : Type.
Variable NF : num F.
Variable act : Z -> F -> res F.
Hypothesis act_no_fuel : forall c x, act c x <> OutOfFuel.

Lemma load_full_no_fuel n ins x : forall c (s : sstate F), snd (load_full NF n ins x c s) <> OutOfFuel.
Proof.
  induction ins as [|i rest IH]; intros c s; simpl; [discriminate|].
  destruct (is_sensor _); [|apply IH]. destruct (nth_error x c); [apply IH|simpl; discriminate].
Qed.
Lemma load_short_no_fuel n ins x : forall c (s : sstate F), snd (load_short NF n ins x c s) <> OutOfFuel.
Proof.
  induction ins as [|i rest IH]; intros c s; simpl; [discriminate|].
  destruct (is_input _); [|apply IH]. destruct (nth_error x c); [apply IH|simpl; discriminate].
Qed.

Lemma forward_loop_no_fuel n it : forall steps last (s : sstate F),
  snd (forward_loop NF act n it steps last s) <> OutOfFuel.
Proof.
  induction it as [|it IH]; intros steps last s; simpl; [discriminate|].
  pose proof (activate_steps_fuel F NF act act_no_fuel n steps s) as H.
  destruct (activate_steps NF act n steps s) as [s' r]. simpl in H.
  destruct r; simpl; try discriminate; [apply IH|exact H].
Qed.

Lemma std_forward_no_fuel n k (s : sstate F) : snd (std_forward NF act n k s) <> OutOfFuel.
Proof. unfold std_forward. destruct (k =? 0)%Z; [simpl; discriminate|apply forward_loop_no_fuel]. Qed.

Lemma flush_loop_no_fuel is : forall s : sstate F, snd (flush_loop NF is s) <> OutOfFuel.
Proof.
  induction is as [|i rest IH]; intros s; simpl; [discriminate|].
  destruct (flush_check_fails _ _ _); [simpl; discriminate|apply IH].
Qed.

Theorem std_step_no_fuel n (s : sstate F) o : net_ok n = true -> snd (std_step NF act n s o) <> OutOfFuel.
Proof.
  intros OK. destruct o; simpl.
  - unfold std_load. destruct (_ =? _); [apply load_full_no_fuel|apply load_short_no_fuel].
  - apply std_forward_no_fuel.
  - unfold std_recursive. pose proof (max_depth_fuel F n OK) as H.
    destruct (max_depth n); simpl; try discriminate; [apply std_forward_no_fuel|exfalso; apply H; reflexivity].
  - discriminate.
  - apply flush_loop_no_fuel.
Qed.

Theorem std_trace_no_fuel n ops : net_ok n = true -> forall s : sstate F,
  Forall (fun ro => fst ro <> OutOfFuel) (std_trace NF act n s ops).
Proof.
  intros OK. induction ops as [|o rest IH]; intros s; simpl; [constructor|].
  pose proof (std_step_no_fuel n s o OK) as H.
  destruct (std_step NF act n s o) as [s' r]. constructor; [exact H|apply IH].
Qed.

(* fast solver *)
Variable fn : fnet F.
Hypothesis conns_ok : forall c, In c (f_conns fn) -> fl_src c < f_total fn /\ fl_tgt c < f_total fn.
Hypothesis outs_ok : f_sensor fn + f_out fn <= f_total fn.

Lemma fs_activate_no_fuel is : forall s : fstate F, snd (fs_activate NF act fn is s) <> OutOfFuel.
Proof.
  induction is as [|i rest IH]; intros s; simpl; [discriminate|].
  destruct (act _ _) eqn:Ea; simpl; try discriminate; [apply IH|]. exfalso. exact (act_no_fuel _ _ Ea).
Qed.

Lemma forward_step_no_fuel d (s : fstate F) : snd (forward_step NF act fn d s) <> OutOfFuel.
Proof.
  unfold forward_step.
  pose proof (fs_activate_no_fuel (neuron_range fn) (fold_left (conn_step NF) (f_conns fn) s)) as H.
  destruct (fs_activate NF act fn (neuron_range fn) (fold_left (conn_step NF) (f_conns fn) s)) as [a r].
  simpl in H. destruct r; simpl; try discriminate; [|exact H].
  destruct (fleb NF d (fzero NF)); simpl; [discriminate|].
  destruct (fs_commit_delta NF d (neuron_range fn) true a). simpl. discriminate.
Qed.

Lemma ff_loop_no_fuel it : forall last (s : fstate F), snd (ff_loop NF act fn it last s) <> OutOfFuel.
Proof.
  induction it as [|it IH]; intros last s; simpl; [discriminate|].
  pose proof (forward_step_no_fuel (fzero NF) s) as H.
  destruct (forward_step NF act fn (fzero NF) s) as [s' r]. simpl in H.
  destruct r; simpl; try discriminate; [apply IH|exact H].
Qed.

Lemma relax_loop_no_fuel it d : forall last (s : fstate F), snd (relax_loop NF act fn it d last s) <> OutOfFuel.
Proof.
  induction it as [|it IH]; intros last s; simpl; [discriminate|].
  pose proof (forward_step_no_fuel d s) as H.
  destruct (forward_step NF act fn d s) as [s' r]. simpl in H.
  destruct r as [[|]| | | | |]; simpl; try discriminate; [apply IH|exact H].
Qed.

Theorem fast_step_no_fuel (s : fstate F) o :
  flens F s = full_lens F fn -> snd (fast_step NF act fn s o) <> OutOfFuel.
Proof.
  intros L. destruct o; simpl.
  - unfold fast_load. destruct (_ =? _); simpl; discriminate.
  - apply ff_loop_no_fuel.
  - apply (fast_recursive_fuel F NF act act_no_fuel fn conns_ok); [|exact outs_ok].
    unfold flens, full_lens in L. injection L as ? ? ? ? ?. split; assumption.
  - apply relax_loop_no_fuel.
  - discriminate.
Qed.

Theorem fast_trace_no_fuel ops : forall s : fstate F,
  flens F s = full_lens F fn -> Forall (fun ro => fst ro <> OutOfFuel) (fast_trace NF act fn s ops).
Proof.
  induction ops as [|o rest IH]; intros s L; simpl; [constructor|].
  pose proof (fast_step_no_fuel s o L) as H.
  pose proof (flens_fast_step F NF act fn s o) as HL.
  destruct (fast_step NF act fn s o) as [s' r]. simpl in *. constructor; [exact H|apply IH; congruence].
Qed.

End NoFuel.

(* for every fast solver that FastNetworkSolver builds, from a fresh instance and after any history *)
From NeatModel Require Import FlushBuild.

Theorem fast_built_trace_no_fuel (F : Type) (NF : num F) (act : Z -> F -> res F) :
  (forall c x, act c x <> OutOfFuel) ->
  forall (n : net F) (fn : fnet F), fast_of_net NF n = Ok fn ->
  forall h ops : list (op F),
    Forall (fun ro => fst ro <> OutOfFuel) (fast_trace NF act fn (fast_run NF act fn (fast_init NF fn) h) ops).
Proof.
  intros Hact n fn Hfn h ops.
  destruct (fast_of_net_ranges F NF n fn Hfn) as [Hc Ho].
  pose proof (fast_of_net_sensor_le F NF n fn Hfn) as Hs.
  apply (fast_trace_no_fuel F NF act Hact fn Hc Ho).
  rewrite flens_fast_run. apply (finv_init F NF fn Hs).
Qed.
